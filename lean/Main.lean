import Autog.Driver

partial def loop (h : IO.FS.Stream) (out : IO.FS.Stream) (heavy : Bool) : IO Unit := do
  let line ← h.getLine
  if line.isEmpty then return ()
  if line.trimAscii.isEmpty then loop h out heavy else
  out.putStrLn (Autog.processLine line heavy)
  loop h out heavy

/-- `driver [light]`: with `light` the expensive whole-ordering-phase correspondence is skipped -/
def main (args : List String) : IO Unit := do
  let out ← IO.getStdout
  loop (← IO.getStdin) out (!args.contains "light")
  out.flush
