import Autog.Driver

partial def loop (h : IO.FS.Stream) (out : IO.FS.Stream) : IO Unit := do
  let line ← h.getLine
  if line.isEmpty then return ()
  if line.trimAscii.isEmpty then loop h out else
  out.putStrLn (Autog.processLine line)
  loop h out

def main : IO Unit := do
  let out ← IO.getStdout
  loop (← IO.getStdin) out
  out.flush
