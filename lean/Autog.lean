import Autog.Basic
import Autog.Graph
import Autog.Spec.Output
import Autog.Lemmas
import Autog.FactsCheck
import Autog.Properties
