import Autog.Lemmas.DfsBreakerFuel
import Autog.Lemmas.HasCyclesTotal
/-! The depth-first breaker of the model never runs out of fuel on a well-formed graph state (cyclic or not). Core-only. -/

namespace Autog
open DfsBreakerMinimal

theorem dfb_sumW_le (g : G) (h : EdgesWF g) (l : List Nat) (hl : l = g.nodeIds) :
    DfsBreakerMinimal.sumW (outE g) l ≤ g.edges.size + 2 * g.nodes.size := by
  have h1 : ∀ l : List Nat, DfsBreakerMinimal.sumW (outE g) l = (l.map fun n => (g.node n).outs.length).sum + 2 * l.length := by
    intro l
    induction l with
    | nil => simp [DfsBreakerMinimal.sumW]
    | cons a l ih =>
      simp only [DfsBreakerMinimal.sumW, List.map_cons, List.sum_cons, List.length_cons, DfsBreakerMinimal.wNode] at ih ⊢
      have : (outE g a).length = (g.node a).outs.length := by simp [outE]
      omega
  subst hl
  have := h1 g.nodeIds
  have hlen : g.nodeIds.length = g.nodes.size := by simp [G.nodeIds]
  have := h.outs_total
  omega

theorem dfb_sumW_filter_le (g : G) (p : Nat → Bool) (l : List Nat) :
    DfsBreakerMinimal.sumW (outE g) (l.filter p) ≤ DfsBreakerMinimal.sumW (outE g) l := by
  rw [sumW_eq, sumW_eq]; exact DfsHasCyclesSound.sumW_filter_le _ _ _

theorem dfsLoop_total (g : G) (h : EdgesWF g) : ∀ (rs : List Nat) (c : Cfg), (∀ r ∈ rs, r ∈ g.nodeIds) →
    ∃ c', dfsLoop g rs c = .ok c'
  | [], c, _ => ⟨c, rfl⟩
  | r :: rs, c, hrs => by
    unfold dfsLoop
    by_cases hv : c.visited.contains r = true
    · rw [if_pos hv]; exact dfsLoop_total g h rs c (fun x hx => hrs x (List.mem_cons_of_mem _ hx))
    · rw [if_neg hv]
      have hr := hrs r (List.mem_cons_self ..)
      have hnd : g.nodeIds.Nodup := by simp [G.nodeIds, List.nodup_range]
      have hadj : ∀ a ∈ g.nodeIds, ∀ em ∈ outE g a, em.2 ∈ g.nodeIds := by
        intro a ha em hem
        unfold outE at hem
        obtain ⟨e, he, rfl⟩ := List.mem_map.1 hem
        have ha' : a < g.nodes.size := by simpa [G.nodeIds] using ha
        have := h.dst a ha' e he
        simpa [G.nodeIds] using this
      have hw : RWF g.nodeIds { c with stack := [(r, outE g r, none)], visited := r :: c.visited } := by
        intro f hf
        have : f = (r, outE g r, none) := by simpa using hf
        subst this; exact fun em hem => hadj r hr em hem
      have hmu : DfsBreakerMinimal.mu (outE g) g.nodeIds { c with stack := [(r, outE g r, none)], visited := r :: c.visited } < dfsFuel g := by
        have h1 := dfb_sumW_le g h g.nodeIds rfl
        have hle := dfb_sumW_filter_le g (fun n => !(r :: c.visited).contains n) g.nodeIds
        have h2 : (outE g r).length ≤ g.edges.size := by
          have : (outE g r).length = (g.node r).outs.length := by simp [outE]
          have hsum : (g.node r).outs.length ≤ (g.nodeIds.map fun n => (g.node n).outs.length).sum :=
            le_sum_of_mem' _ _ (List.mem_map.2 ⟨r, hr, rfl⟩)
          have := h.outs_total
          omega
        simp only [DfsBreakerMinimal.mu, DfsBreakerMinimal.sumF, DfsBreakerMinimal.unseen, List.map_cons, List.map_nil,
          List.sum_cons, List.sum_nil]
        unfold dfsFuel; omega
      have hne := run_no_fuelOut (outE g) g.nodeIds hnd hadj (dfsFuel g) _ hw hmu
      cases hrun : run (outE g) (dfsFuel g) { c with stack := [(r, outE g r, none)], visited := r :: c.visited } with
      | none => exact absurd hrun hne
      | some c1 => exact dfsLoop_total g h rs c1 (fun x hx => hrs x (List.mem_cons_of_mem _ hx))

/-- C01 / C14: on every well-formed state the depth-first breaker returns its set of marked edges -/
theorem dfsMarked_total (g : G) (h : EdgesWF g) : ∃ marked, dfsMarked g = .ok marked := by
  unfold dfsMarked
  have hroots : ∀ r ∈ dfsRoots g, r ∈ g.nodeIds := by
    intro r hr
    unfold dfsRoots at hr
    rcases List.mem_append.1 hr with h1 | h1
    · exact (List.mem_filter.1 h1).1
    · exact h1
  obtain ⟨c, hc⟩ := dfsLoop_total g h (dfsRoots g) ⟨[], [], [], [], []⟩ hroots
  exact ⟨c.rev.reverse, by simp [hc, bind, Except.bind, pure, Except.pure]⟩

end Autog
