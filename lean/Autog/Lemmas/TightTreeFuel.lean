import Autog.Model.NetworkSimplex
import Autog.Lemmas.ComponentsFuel
import Autog.Lemmas.Reverse
import Autog.Lemmas.ComponentsTotal
/-! The tight-tree search of the network simplex (`tightTree`, run in every round of `feasibleTree`) never exhausts the model's fuel:
    it is an edge-marking DFS like the component walk — every step either pops a frame, drops an already marked edge from a todo
    list, or marks a new edge (and possibly pushes the frame of its other end) — so the same measure works: (todo + 1) per frame
    plus, per unmarked edge, one more than the largest incidence list. Core-only. -/

namespace Autog
open ComponentsDfs

def ttMu (w : Nat) (univ : List Nat) (st : List (Nat × List Nat)) (visE : List Nat) : Nat :=
  (st.map fun f => f.2.length + 1).sum + sumBy (fun _ => w) (unmarked univ visE)

theorem incident_modEdge (g : G) (e : Nat) (f : Edge → Edge) (m : Nat) : (g.modEdge e f).incident m = g.incident m := rfl

/-- the search returns whenever it has more fuel than the measure -/
theorem tightTreeRun_total (w : Nat) (univ : List Nat) (hnd : univ.Nodup) : ∀ (fuel : Nat) (st : List (Nat × List Nat)) (s : TTSt),
    (∀ m, (s.g.incident m).length + 1 ≤ w) → (∀ f ∈ st, ∀ e ∈ f.2, e ∈ univ) → (∀ m, ∀ e ∈ s.g.incident m, e ∈ univ) →
    ttMu w univ st s.visE < fuel → ∃ s', tightTreeRun fuel st s = .ok s'
  | 0, _, _, _, _, _, h => by omega
  | fuel + 1, [], s, _, _, _, _ => ⟨s, by simp [tightTreeRun, pure, Except.pure]⟩
  | fuel + 1, (n, []) :: tl, s, hw, hst, hin, hmu => by
    simp only [tightTreeRun]
    apply tightTreeRun_total w univ hnd fuel tl s hw (fun f hf => hst f (List.mem_cons_of_mem _ hf)) hin
    simp only [ttMu, List.map_cons, List.sum_cons, List.length_nil] at hmu ⊢; omega
  | fuel + 1, (n, e :: es) :: tl, s, hw, hst, hin, hmu => by
    simp only [tightTreeRun]
    have hrest : ∀ f ∈ (n, es) :: tl, ∀ e' ∈ f.2, e' ∈ univ := by
      intro f hf e' he'
      rcases List.mem_cons.1 hf with rfl | hf
      · exact hst (n, e :: es) (List.mem_cons_self ..) e' (List.mem_cons_of_mem _ he')
      · exact hst f (List.mem_cons_of_mem _ hf) e' he'
    have heu : e ∈ univ := hst (n, e :: es) (List.mem_cons_self ..) e (List.mem_cons_self ..)
    by_cases hve : s.visE.contains e = true
    · rw [if_pos hve]
      apply tightTreeRun_total w univ hnd fuel _ s hw hrest hin
      simp only [ttMu, List.map_cons, List.sum_cons, List.length_cons] at hmu ⊢; omega
    · rw [if_neg hve]
      -- marking e takes its weight out of the measure
      have hp : (!s.visE.contains e) = true := by
        have : s.visE.contains e = false := by simpa using hve
        rw [this]; rfl
      have hrem := sumBy_filter_remove (fun _ => w) univ hnd (fun x => !s.visE.contains x) e heu hp
      have hold : unmarked univ s.visE = univ.filter fun x => !s.visE.contains x := rfl
      have hmark : sumBy (fun _ => w) (unmarked univ (e :: s.visE)) + w = sumBy (fun _ => w) (unmarked univ s.visE) := by
        rw [unmarked_cons, hold]; exact hrem
      split
      · -- a tree edge: the walk goes on at its other end
        apply tightTreeRun_total w univ hnd fuel _ { s with visE := e :: s.visE, visN := s.g.other e n :: s.visN } hw
        · intro f hf e' he'
          rcases List.mem_cons.1 hf with rfl | hf
          · exact hin _ e' he'
          · exact hrest f hf e' he'
        · exact hin
        · have := hw (s.g.other e n)
          simp only [ttMu, List.map_cons, List.sum_cons, List.length_cons] at hmu ⊢
          omega
      · split
        · -- a tight edge to a new node: it joins the tree
          apply tightTreeRun_total w univ hnd fuel _
            { g := s.g.modEdge e fun ed => { ed with tree := true }, visE := e :: s.visE, visN := s.g.other e n :: s.visN }
            (fun m => by rw [incident_modEdge]; exact hw m)
          · intro f hf e' he'
            rcases List.mem_cons.1 hf with rfl | hf
            · rw [incident_modEdge] at he'; exact hin _ e' he'
            · exact hrest f hf e' he'
          · intro m e' he'; rw [incident_modEdge] at he'; exact hin m e' he'
          · have := hw (s.g.other e n)
            rw [incident_modEdge]
            simp only [ttMu, List.map_cons, List.sum_cons, List.length_cons] at hmu ⊢
            omega
        · apply tightTreeRun_total w univ hnd fuel _ { s with visE := e :: s.visE } hw hrest hin
          simp only [ttMu, List.map_cons, List.sum_cons, List.length_cons] at hmu ⊢
          omega

/-- C01: the tight-tree search of the model returns on every state whose incidence lists stay inside the edge store -/
theorem tightTree_total (g : G) (h : IncWF g) : ∃ r, tightTree g = .ok r := by
  unfold tightTree
  have hfuel : ttMu (2 * g.edges.size + 1) (List.range g.edges.size) [(0, g.incident 0)] [] < nsWalkFuel g := by
    have h1 := h.len 0
    have hle : sumBy (fun _ => 2 * g.edges.size + 1) (unmarked (List.range g.edges.size) []) ≤
        sumBy (fun _ => 2 * g.edges.size + 1) (List.range g.edges.size) := sumBy_filter_le _ _ _
    rw [sumBy_const (2 * g.edges.size + 1) (List.range g.edges.size), List.length_range] at hle
    simp only [ttMu, List.map_cons, List.map_nil, List.sum_cons, List.sum_nil]
    unfold nsWalkFuel
    generalize g.edges.size = E at *
    have : (E + 2) * (2 * E + 2) = E * (2 * E + 1) + E + 2 * (2 * E + 2) := by
      rw [Nat.add_mul, Nat.mul_add E (2 * E) 2, Nat.mul_add E (2 * E) 1]; omega
    omega
  obtain ⟨s', hs⟩ := tightTreeRun_total (2 * g.edges.size + 1) (List.range g.edges.size) List.nodup_range (nsWalkFuel g)
    [(0, g.incident 0)] { g, visE := [], visN := [0] }
    (fun m => by have := h.len m; show (g.incident m).length + 1 ≤ _; omega)
    (fun f hf e he => by
      have : f = (0, g.incident 0) := by simpa using hf
      subst this; exact List.mem_range.2 (h.lt 0 e he))
    (fun m e he => List.mem_range.2 (h.lt m e he)) hfuel
  simp only [hs, bind, Except.bind, pure, Except.pure]
  exact ⟨_, rfl⟩

end Autog

namespace Autog
open ComponentsDfs

def wsMu (w : Nat) (univ : List Nat) (st : List (Nat × List Nat × Int × Int)) (vis : List Nat) : Nat :=
  (st.map fun f => f.2.1.length + 1).sum + sumBy (fun _ => w) (unmarked univ vis)

/-- the lim/low numbering walk (`walkStreeDfs`) returns whenever it has more fuel than the same measure -/
theorem walkStree_total (w : Nat) (univ : List Nat) (hnd : univ.Nodup) : ∀ (fuel : Nat) (st : List (Nat × List Nat × Int × Int))
    (vis : List Nat) (s : NS),
    (∀ m, (s.g.incident m).length + 1 ≤ w) → (∀ f ∈ st, ∀ e ∈ f.2.1, e ∈ univ) → (∀ m, ∀ e ∈ s.g.incident m, e ∈ univ) →
    wsMu w univ st vis < fuel → ∃ s', walkStree fuel st vis s = .ok s'
  | 0, _, _, _, _, _, _, h => by omega
  | fuel + 1, [], vis, s, _, _, _, _ => ⟨s, by simp [walkStree, pure, Except.pure]⟩
  | fuel + 1, (n, [], lo, lim) :: tl, vis, s, hw, hst, hin, hmu => by
    simp only [walkStree]
    split
    · cases fuel with
      | zero => simp only [wsMu, List.map_cons, List.map_nil, List.sum_cons, List.sum_nil, List.length_nil] at hmu; omega
      | succ k => exact ⟨{ s with lim := s.lim.setIfInBounds n lim }, by simp [walkStree, pure, Except.pure]⟩
    · rename_i p es lo' x tl' 
      apply walkStree_total w univ hnd fuel _ vis { s with lim := s.lim.setIfInBounds n lim } hw
      · intro f hf e he
        rcases List.mem_cons.1 hf with rfl | hf
        · exact hst (p, es, lo', x) (List.mem_cons_of_mem _ (List.mem_cons_self ..)) e he
        · exact hst f (List.mem_cons_of_mem _ (List.mem_cons_of_mem _ hf)) e he
      · exact hin
      · simp only [wsMu, List.map_cons, List.sum_cons, List.length_nil] at hmu ⊢; omega
  | fuel + 1, (n, e :: es, lo, lim) :: tl, vis, s, hw, hst, hin, hmu => by
    simp only [walkStree]
    have hrest : ∀ f ∈ (n, es, lo, lim) :: tl, ∀ e' ∈ f.2.1, e' ∈ univ := by
      intro f hf e' he'
      rcases List.mem_cons.1 hf with rfl | hf
      · exact hst (n, e :: es, lo, lim) (List.mem_cons_self ..) e' (List.mem_cons_of_mem _ he')
      · exact hst f (List.mem_cons_of_mem _ hf) e' he'
    have heu : e ∈ univ := hst (n, e :: es, lo, lim) (List.mem_cons_self ..) e (List.mem_cons_self ..)
    split
    · rename_i hc
      have hve : vis.contains e = false := by
        simp only [Bool.and_eq_true] at hc
        simpa using hc.2
      have hp : (!vis.contains e) = true := by rw [hve]; rfl
      have hrem := sumBy_filter_remove (fun _ => w) univ hnd (fun x => !vis.contains x) e heu hp
      have hold : unmarked univ vis = univ.filter fun x => !vis.contains x := rfl
      have hmark : sumBy (fun _ => w) (unmarked univ (e :: vis)) + w = sumBy (fun _ => w) (unmarked univ vis) := by
        rw [unmarked_cons, hold]; exact hrem
      apply walkStree_total w univ hnd fuel _ (e :: vis) { s with low := s.low.setIfInBounds (s.g.other e n) lim } hw
      · intro f hf e' he'
        rcases List.mem_cons.1 hf with rfl | hf
        · exact hin _ e' he'
        · exact hrest f hf e' he'
      · exact hin
      · have := hw (s.g.other e n)
        simp only [wsMu, List.map_cons, List.sum_cons, List.length_cons] at hmu ⊢
        omega
    · apply walkStree_total w univ hnd fuel _ vis s hw hrest hin
      simp only [wsMu, List.map_cons, List.sum_cons, List.length_cons] at hmu ⊢
      omega

/-- C01: the lim/low numbering of the model returns on every state whose incidence lists stay inside the edge store -/
theorem setStreeValues_total (s : NS) (h : IncWF s.g) : ∃ s', setStreeValues s = .ok s' := by
  unfold setStreeValues
  simp only
  have hfuel : wsMu (2 * s.g.edges.size + 1) (List.range s.g.edges.size) [(0, s.g.incident 0, 1, 1)] [] < nsWalkFuel s.g := by
    have h1 := h.len 0
    have hle : sumBy (fun _ => 2 * s.g.edges.size + 1) (unmarked (List.range s.g.edges.size) []) ≤
        sumBy (fun _ => 2 * s.g.edges.size + 1) (List.range s.g.edges.size) := sumBy_filter_le _ _ _
    rw [sumBy_const (2 * s.g.edges.size + 1) (List.range s.g.edges.size), List.length_range] at hle
    simp only [wsMu, List.map_cons, List.map_nil, List.sum_cons, List.sum_nil]
    unfold nsWalkFuel
    generalize s.g.edges.size = E at *
    have : (E + 2) * (2 * E + 2) = E * (2 * E + 1) + E + 2 * (2 * E + 2) := by
      rw [Nat.add_mul, Nat.mul_add E (2 * E) 2, Nat.mul_add E (2 * E) 1]; omega
    omega
  exact walkStree_total (2 * s.g.edges.size + 1) (List.range s.g.edges.size) List.nodup_range (nsWalkFuel s.g)
    [(0, s.g.incident 0, 1, 1)] []
    { s with lim := Array.replicate s.g.nodes.size 0, low := (Array.replicate s.g.nodes.size 0).setIfInBounds 0 1 }
    (fun m => by have := h.len m; show (s.g.incident m).length + 1 ≤ _; omega)
    (fun f hf e he => by
      have : f = (0, s.g.incident 0, 1, 1) := by simpa using hf
      subst this; exact List.mem_range.2 (h.lt 0 e he))
    (fun m e he => List.mem_range.2 (h.lt m e he)) hfuel

end Autog
