/-! Spike: small-step model of phase1/cycle.go `hasCycles`/`visit` (explicit stack = Go call stack)
    and the completeness direction: result `false` ⇒ finish order is a topological witness. Core-only. -/


namespace Autog.DfsHasCycles

abbrev Frame := Nat × List Nat          -- node, out-neighbours still to examine

structure Cfg where
  stack : List Frame
  fin   : List Nat                       -- finished, newest first
deriving Repr

inductive Res where
  | cyc                                   -- `return true`
  | done (fin : List Nat)                 -- stack empty
  | fuelOut
deriving Repr

variable (adj : Nat → List Nat)

def run : Nat → Cfg → Res
  | 0, _ => .fuelOut
  | fuel+1, ⟨[], fin⟩ => .done fin
  | fuel+1, ⟨(n, []) :: tl, fin⟩ => run fuel ⟨tl, n :: fin⟩
  | fuel+1, ⟨(n, m :: ms) :: tl, fin⟩ =>
    if (n :: tl.map Prod.fst).contains m then .cyc              -- visited[m]
    else if fin.contains m then run fuel ⟨(n, ms) :: tl, fin⟩   -- finished[m]
    else run fuel ⟨(m, adj m) :: (n, ms) :: tl, fin⟩            -- visit(m)

/-- every finished node has all its out-neighbours finished *earlier* (later in the list) -/
def Closed (fin : List Nat) : Prop :=
  ∀ l₁ u l₂, fin = l₁ ++ u :: l₂ → ∀ w ∈ adj u, w ∈ l₂

/-- stack invariant: every neighbour of a frame's node is still to do, finished, or the child being visited -/
def Good (fin : List Nat) : Option Nat → List Frame → Prop
  | _, [] => True
  | c, (n, rest) :: tl => (∀ w ∈ adj n, w ∈ rest ∨ w ∈ fin ∨ some w = c) ∧ Good fin (some n) tl

theorem Good.mono {fin : List Nat} (x : Nat) : ∀ {c st}, Good adj fin c st → Good adj (x :: fin) c st
  | _, [], _ => trivial
  | c, (n, rest) :: tl, h => by
    refine ⟨fun w hw => ?_, Good.mono x h.2⟩
    rcases h.1 w hw with h1 | h1 | h1
    · exact .inl h1
    · exact .inr (.inl (List.mem_cons_of_mem _ h1))
    · exact .inr (.inr h1)

theorem Closed.cons {fin : List Nat} {n : Nat} (hc : Closed adj fin) (hn : ∀ w ∈ adj n, w ∈ fin) :
    Closed adj (n :: fin) := by
  intro l₁ u l₂ heq w hw
  cases l₁ with
  | nil =>
    simp only [List.nil_append, List.cons.injEq] at heq
    obtain ⟨rfl, rfl⟩ := heq
    exact hn w hw
  | cons a l₁ =>
    simp only [List.cons_append, List.cons.injEq] at heq
    exact hc l₁ u l₂ heq.2 w hw

/-- main invariant lemma -/
theorem run_done : ∀ (fuel : Nat) (cfg : Cfg) (fin' : List Nat),
    Closed adj cfg.fin → Good adj cfg.fin none cfg.stack →
    run adj fuel cfg = .done fin' →
    Closed adj fin' ∧ (∃ l, fin' = l ++ cfg.fin) ∧ ∀ f ∈ cfg.stack, f.1 ∈ fin' := by
  intro fuel
  induction fuel with
  | zero => intro cfg fin' _ _ h; simp [run] at h
  | succ fuel ih =>
    intro cfg fin' hc hg h
    obtain ⟨stack, fin⟩ := cfg
    match stack, hg, h with
    | [], _, h =>
      simp only [run, Res.done.injEq] at h
      subst h
      exact ⟨hc, ⟨[], rfl⟩, by simp⟩
    | (n, []) :: tl, hg, h =>
      simp only [run] at h
      have hn : ∀ w ∈ adj n, w ∈ fin := by
        intro w hw
        rcases hg.1 w hw with h1 | h1 | h1
        · simp at h1
        · exact h1
        · simp at h1
      have hg' : Good adj (n :: fin) none tl := by
        have := Good.mono adj n hg.2
        -- child `n` is now finished: weaken `some w = some n` into membership
        cases tl with
        | nil => trivial
        | cons f tl' =>
          obtain ⟨p, rest⟩ := f
          refine ⟨fun w hw => ?_, this.2⟩
          rcases this.1 w hw with h1 | h1 | h1
          · exact .inl h1
          · exact .inr (.inl h1)
          · have : w = n := by simpa using h1
            subst this; exact .inr (.inl (List.mem_cons_self ..))
      obtain ⟨h1, ⟨l, h2⟩, h3⟩ := ih ⟨tl, n :: fin⟩ fin' (Closed.cons adj hc hn) hg' h
      refine ⟨h1, ⟨l ++ [n], by simp [h2]⟩, ?_⟩
      intro f hf
      rcases List.mem_cons.1 hf with rfl | hf
      · simp [h2]
      · exact h3 f hf
    | (n, m :: ms) :: tl, hg, h =>
      simp only [run] at h
      split at h
      · cases h
      · split at h
        · -- m finished: drop it from the todo list
          rename_i hfin
          have hmfin : m ∈ fin := by simpa using hfin
          have hg' : Good adj fin none ((n, ms) :: tl) := by
            refine ⟨fun w hw => ?_, hg.2⟩
            rcases hg.1 w hw with h1 | h1 | h1
            · rcases List.mem_cons.1 h1 with rfl | h1
              · exact .inr (.inl hmfin)
              · exact .inl h1
            · exact .inr (.inl h1)
            · exact .inr (.inr h1)
          obtain ⟨h1, h2, h3⟩ := ih ⟨(n, ms) :: tl, fin⟩ fin' hc hg' h
          exact ⟨h1, h2, fun f hf => by
            rcases List.mem_cons.1 hf with rfl | hf
            · exact h3 (n, ms) (List.mem_cons_self ..)
            · exact h3 f (List.mem_cons_of_mem _ hf)⟩
        · -- push m
          have hg' : Good adj fin none ((m, adj m) :: (n, ms) :: tl) := by
            refine ⟨fun w hw => .inl hw, fun w hw => ?_, hg.2⟩
            rcases hg.1 w hw with h1 | h1 | h1
            · rcases List.mem_cons.1 h1 with rfl | h1
              · exact .inr (.inr rfl)
              · exact .inl h1
            · exact .inr (.inl h1)
            · simp at h1
          obtain ⟨h1, h2, h3⟩ := ih ⟨(m, adj m) :: (n, ms) :: tl, fin⟩ fin' hc hg' h
          exact ⟨h1, h2, fun f hf => by
            rcases List.mem_cons.1 hf with rfl | hf
            · exact h3 (n, ms) (by simp)
            · exact h3 f (by simp [hf])⟩


-- non-vacuity / execution
def adjEx : Nat → List Nat
  | 0 => [1, 2] | 1 => [2] | 2 => [] | 3 => [0] | _ => []
#eval run adjEx 100 ⟨[(0, adjEx 0)], []⟩     -- done [0,1,2]
def adjCyc : Nat → List Nat
  | 0 => [1] | 1 => [2] | 2 => [0] | _ => []
#eval run adjCyc 100 ⟨[(0, adjCyc 0)], []⟩   -- cyc

end Autog.DfsHasCycles
