import Autog.Lemmas.TreeInitDfs
import Autog.Lemmas.HasCyclesFuel
/-! The DFS initialisation of the ordering phase (`initPositionsFromTop/Bottom`, run twice in every call that has more than one
    layer) never exhausts the model's fuel, on ANY graph state (not only trees): a node is expanded at most once, so with a weight of
    (number of continuation nodes + 2) per node not yet visited plus (todo + 1) per frame every step lowers the measure. Core-only. -/

namespace Autog.TreeInitDfs
open DfsHasCyclesSound (sumW sumW_filter_remove sumW_filter_le wNode)

def unvisited (univ vis : List Nat) : List Nat := univ.filter fun n => !vis.contains n

def idMu (kids : Nat → List Nat) (univ : List Nat) (st : List (List Nat)) (vis : List Nat) : Nat :=
  (st.map fun f => f.length + 1).sum + sumW kids (unvisited univ vis)

theorem unvisited_cons (univ vis : List Nat) (n : Nat) :
    unvisited univ (n :: vis) = univ.filter fun x => (!vis.contains x) && x != n := by
  unfold unvisited
  apply List.filter_congr
  intro x _
  simp only [List.contains_cons, bne]
  cases (x == n) <;> cases (vis.contains x) <;> rfl

/-- the initialisation walk returns whenever it has more fuel than the measure -/
theorem initDfs_total (down : Bool) (univ : List Nat) (hnd : univ.Nodup) : ∀ (fuel : Nat) (st : List (List Nat)) (vis : List Nat)
    (idx : List (Int × Int)) (g : G),
    (∀ n ∈ univ, ∀ m ∈ kidsOf down g n, m ∈ univ) → (∀ f ∈ st, ∀ m ∈ f, m ∈ univ) →
    idMu (kidsOf down g) univ st vis < fuel → ∃ r, initDfs down fuel st vis idx g = .ok r
  | 0, _, _, _, _, _, _, h => by omega
  | fuel + 1, [], vis, idx, g, _, _, _ => ⟨(vis, idx, g), by simp [initDfs, pure, Except.pure]⟩
  | fuel + 1, [] :: tl, vis, idx, g, hk, hst, hmu => by
    rw [initDfs]
    apply initDfs_total down univ hnd fuel tl vis idx g hk (fun f hf => hst f (List.mem_cons_of_mem _ hf))
    simp only [idMu, List.map_cons, List.sum_cons, List.length_nil] at hmu ⊢; omega
  | fuel + 1, (n :: rest) :: tl, vis, idx, g, hk, hst, hmu => by
    have hrest : ∀ f ∈ rest :: tl, ∀ m ∈ f, m ∈ univ := by
      intro f hf m hm
      rcases List.mem_cons.1 hf with rfl | hf
      · exact hst (n :: f) (List.mem_cons_self ..) m (List.mem_cons_of_mem _ hm)
      · exact hst f (List.mem_cons_of_mem _ hf) m hm
    have hnu : n ∈ univ := hst (n :: rest) (List.mem_cons_self ..) n (List.mem_cons_self ..)
    by_cases hv : vis.contains n = true
    · rw [initDfs]
      simp only [hv, if_true]
      apply initDfs_total down univ hnd fuel _ vis idx g hk hrest
      simp only [idMu, List.map_cons, List.sum_cons, List.length_cons] at hmu ⊢; omega
    · have hv' : vis.contains n = false := by simpa using hv
      rw [initDfs_visit down fuel n rest tl vis idx g hv']
      have hkeq : kidsOf down (visit1 (idx, g) n).2 = kidsOf down g := by simp only [visit1, kidsOf_setPos]
      apply initDfs_total down univ hnd fuel _ (n :: vis) _ _
      · rw [hkeq]; exact hk
      · intro f hf m hm
        rcases List.mem_cons.1 hf with rfl | hf
        · exact hk n hnu m hm
        · exact hrest f hf m hm
      · rw [hkeq]
        have hp : (!vis.contains n) = true := by rw [hv']; rfl
        have hrem := sumW_filter_remove (kidsOf down g) univ hnd (fun x => !vis.contains x) n hnu hp
        have hold : unvisited univ vis = univ.filter fun x => !vis.contains x := rfl
        simp only [idMu, List.map_cons, List.sum_cons, List.length_cons] at hmu ⊢
        rw [unvisited_cons]
        rw [hold] at hmu
        simp only [wNode] at hrem
        omega

end Autog.TreeInitDfs

namespace Autog.TreeInitDfs
open DfsHasCyclesSound (sumW wNode sumW_filter_le)

/-- what the initialisation needs of the state: continuation nodes and the start layer stay inside the node store, and the
    continuation lists together are no longer than the edge store -/
structure KidsWF (down : Bool) (g : G) : Prop where
  kids : ∀ n, n < g.nodes.size → ∀ m ∈ kidsOf down g n, m < g.nodes.size
  total : (g.nodeIds.map fun n => (kidsOf down g n).length).sum ≤ g.edges.size
  first : ∀ m ∈ (if down then (g.layers.getD 0 default).nodes else (g.layers.getD (g.layers.size - 1) default).nodes),
    m < g.nodes.size
  firstLen : (if down then (g.layers.getD 0 default).nodes else (g.layers.getD (g.layers.size - 1) default).nodes).length ≤ g.nodes.size

theorem sumW_eq_sum (kids : Nat → List Nat) : ∀ (l : List Nat), sumW kids l = (l.map fun n => (kids n).length).sum + 2 * l.length
  | [] => rfl
  | a :: l => by
    have := sumW_eq_sum kids l
    simp only [sumW, List.map_cons, List.sum_cons, List.length_cons, wNode] at this ⊢
    omega

/-- C01: the DFS initialisation of the ordering phase returns on every such state, from the top and from the bottom -/
theorem initPositions_total (down : Bool) (g : G) (h : KidsWF down g) : ∃ g', initPositions down g = .ok g' := by
  unfold initPositions
  simp only
  have hids : ∀ m, m ∈ g.nodeIds ↔ m < g.nodes.size := by intro m; simp [G.nodeIds]
  obtain ⟨r, hr⟩ := initDfs_total down g.nodeIds (by simp [G.nodeIds, List.nodup_range])
    (2 * (g.edges.size + g.nodes.size) + 2 * g.nodes.size + 8)
    [(if down then (g.layers.getD 0 default).nodes else (g.layers.getD (g.layers.size - 1) default).nodes) ++ g.nodeIds] [] [] g
    (fun n hn m hm => (hids m).2 (h.kids n ((hids n).1 hn) m hm))
    (fun f hf m hm => by
      rw [List.mem_singleton] at hf
      rw [hf] at hm
      rcases List.mem_append.1 hm with h1 | h1
      · exact (hids m).2 (h.first m h1)
      · exact h1)
    (by
      have h1 : sumW (kidsOf down g) (unvisited g.nodeIds []) ≤ sumW (kidsOf down g) g.nodeIds := sumW_filter_le _ _ _
      rw [sumW_eq_sum (kidsOf down g) g.nodeIds] at h1
      have h2 := h.total
      have h3 := h.firstLen
      have h4 : g.nodeIds.length = g.nodes.size := by simp [G.nodeIds]
      simp only [idMu, List.map_cons, List.map_nil, List.sum_cons, List.sum_nil, List.length_append]
      omega)
  rw [hr]
  exact ⟨_, rfl⟩

end Autog.TreeInitDfs
