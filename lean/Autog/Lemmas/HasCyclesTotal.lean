import Autog.Lemmas.HasCyclesFuel
import Autog.Model.Phase1
/-! The cycle test of the model never runs out of fuel on a graph state whose edges stay inside the node store. Core-only. -/

namespace Autog
open DfsHasCyclesSound

/-- the edges of the state are well formed: every out-list holds distinct edge ids of the store and every edge ends at a node -/
structure EdgesWF (g : G) : Prop where
  dst : ∀ n < g.nodes.size, ∀ e ∈ (g.node n).outs, (g.edge e).dst < g.nodes.size
  outs_total : (g.nodeIds.map fun n => (g.node n).outs.length).sum ≤ g.edges.size

theorem le_sum_of_mem' : ∀ (l : List Nat) (x : Nat), x ∈ l → x ≤ l.sum
  | a :: l, x, h => by
    rcases List.mem_cons.1 h with rfl | h
    · simp
    · have := le_sum_of_mem' l x h; simp only [List.sum_cons]; omega

theorem sumW_le (g : G) (h : EdgesWF g) : sumW (outAdj g) g.nodeIds ≤ g.edges.size + 2 * g.nodes.size := by
  have h1 : ∀ l : List Nat, sumW (outAdj g) l ≤ (l.map fun n => (g.node n).outs.length).sum + 2 * l.length := by
    intro l
    induction l with
    | nil => simp [sumW]
    | cons a l ih =>
      simp only [sumW, List.map_cons, List.sum_cons, List.length_cons, wNode] at ih ⊢
      have : (outAdj g a).length ≤ (g.node a).outs.length := by
        unfold outAdj; simp only [List.length_map]; exact List.length_filter_le _ _
      omega
  have := h1 g.nodeIds
  have hl : g.nodeIds.length = g.nodes.size := by simp [G.nodeIds]
  have := h.outs_total
  omega

/-- C01: the cycle test never reports "out of fuel" -/
theorem hasCyclesLoop_total (g : G) (h : EdgesWF g) : ∀ (ns fin : List Nat), (∀ n ∈ ns, n ∈ g.nodeIds) →
    ∃ b, hasCyclesLoop g ns fin = .ok b
  | [], _, _ => ⟨false, rfl⟩
  | n :: ns, fin, hns => by
    unfold hasCyclesLoop
    by_cases hf : fin.contains n = true
    · rw [if_pos hf]; exact hasCyclesLoop_total g h ns fin (fun x hx => hns x (List.mem_cons_of_mem _ hx))
    · rw [if_neg hf]
      have hn := hns n (List.mem_cons_self ..)
      have hnd : g.nodeIds.Nodup := by simp [G.nodeIds, List.nodup_range]
      have hadj : ∀ a ∈ g.nodeIds, ∀ m ∈ outAdj g a, m ∈ g.nodeIds := by
        intro a ha m hm
        unfold outAdj at hm
        obtain ⟨e, he, rfl⟩ := List.mem_map.1 hm
        have ha' : a < g.nodes.size := by simpa [G.nodeIds] using ha
        have := h.dst a ha' e (List.mem_filter.1 he).1
        simpa [G.nodeIds] using this
      have hfuel : (outAdj g n).length + 1 + sumW (outAdj g) g.nodeIds < dfsFuel g := by
        have h1 := sumW_le g h
        have h2 : (outAdj g n).length ≤ g.edges.size := by
          have hn' : n < g.nodes.size := by simpa [G.nodeIds] using hn
          have : (outAdj g n).length ≤ (g.node n).outs.length := by
            unfold outAdj; simp only [List.length_map]; exact List.length_filter_le _ _
          have hsum : (g.node n).outs.length ≤ (g.nodeIds.map fun n => (g.node n).outs.length).sum :=
            le_sum_of_mem' _ _ (List.mem_map.2 ⟨n, hn, rfl⟩)
          have := h.outs_total
          omega
        unfold dfsFuel; omega
      have hne := visit_terminates (outAdj g) g.nodeIds hnd hadj n hn fin (by simpa using hf) (dfsFuel g) hfuel
      cases hr : run (outAdj g) (dfsFuel g) ⟨[(n, outAdj g n)], fin⟩ with
      | cyc a b c => exact ⟨true, rfl⟩
      | done f => exact hasCyclesLoop_total g h ns f (fun x hx => hns x (List.mem_cons_of_mem _ hx))
      | fuelOut => exact absurd hr hne

/-- C01: the model's cycle test is total on every well-formed graph state -/
theorem hasCycles_total (g : G) (h : EdgesWF g) : ∃ b, hasCycles g = .ok b :=
  hasCyclesLoop_total g h g.nodeIds [] (fun _ hn => hn)

end Autog

namespace Autog

/-- executable form of `EdgesWF` (driver contract `K:edgesWF`) -/
def edgesWFb (g : G) : Bool :=
  (List.range g.nodes.size).all (fun n => (g.node n).outs.all fun e => decide ((g.edge e).dst < g.nodes.size)) &&
  decide ((g.nodeIds.map fun n => (g.node n).outs.length).sum ≤ g.edges.size)

theorem edgesWFb_sound (g : G) (h : edgesWFb g = true) : EdgesWF g := by
  unfold edgesWFb at h
  simp only [Bool.and_eq_true, List.all_eq_true, List.mem_range, decide_eq_true_eq] at h
  exact ⟨fun n hn e he => h.1 n hn e he, h.2⟩

end Autog
