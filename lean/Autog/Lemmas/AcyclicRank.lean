import Autog.Model.Phase1
import Autog.Lemmas.DfsHasCycles
import Autog.Lemmas.DfsHasCyclesSound
/-! Completeness of the cycle test of the model, through the loop over all roots: when `hasCycles` answers "no cycle", the order
    in which the nodes were finished is a topological witness — there is a rank that strictly decreases along every edge the test
    follows. Core-only. -/

namespace Autog

/-- the two transcriptions of the `visit` machine agree on runs that finish -/
theorem sound_run_done (adj : Nat → List Nat) : ∀ (fuel : Nat) (st : List (Nat × List Nat)) (fin f : List Nat),
    DfsHasCyclesSound.run adj fuel ⟨st, fin⟩ = .done f → DfsHasCycles.run adj fuel ⟨st, fin⟩ = .done f
  | 0, _, _, _, h => by simp [DfsHasCyclesSound.run] at h
  | fuel + 1, [], fin, f, h => by
    simp only [DfsHasCyclesSound.run, DfsHasCyclesSound.Res.done.injEq] at h
    simp only [DfsHasCycles.run, h]
  | fuel + 1, (n, []) :: tl, fin, f, h => by
    simp only [DfsHasCyclesSound.run] at h
    simp only [DfsHasCycles.run]
    exact sound_run_done adj fuel tl (n :: fin) f h
  | fuel + 1, (n, m :: ms) :: tl, fin, f, h => by
    simp only [DfsHasCyclesSound.run] at h
    simp only [DfsHasCycles.run]
    split at h
    · cases h
    · rename_i h1
      rw [if_neg h1]
      split at h
      · rename_i h2
        rw [if_pos h2]
        exact sound_run_done adj fuel _ fin f h
      · rename_i h2
        rw [if_neg h2]
        exact sound_run_done adj fuel _ fin f h

open DfsHasCycles in
/-- the loop over the roots keeps the finished list closed and finishes every root -/
theorem hasCyclesLoop_closed (g : G) : ∀ (roots fin : List Nat), Closed (outAdj g) fin → hasCyclesLoop g roots fin = .ok false →
    ∃ fin', Closed (outAdj g) fin' ∧ (∀ r ∈ roots, r ∈ fin') ∧ (∀ x ∈ fin, x ∈ fin')
  | [], fin, hc, _ => ⟨fin, hc, (fun _ h => by cases h), (fun _ h => h)⟩
  | n :: ns, fin, hc, h => by
    unfold hasCyclesLoop at h
    by_cases hn : fin.contains n = true
    · rw [if_pos hn] at h
      obtain ⟨fin', h1, h2, h3⟩ := hasCyclesLoop_closed g ns fin hc h
      refine ⟨fin', h1, fun r hr => ?_, h3⟩
      rcases List.mem_cons.1 hr with rfl | hr
      · exact h3 _ (by simpa using hn)
      · exact h2 r hr
    · rw [if_neg hn] at h
      split at h
      · simp [pure, Except.pure] at h
      · rename_i f hrun
        have hd := sound_run_done (outAdj g) _ _ _ _ hrun
        have hgood : Good (outAdj g) fin none [(n, outAdj g n)] := ⟨fun w hw => Or.inl hw, trivial⟩
        obtain ⟨hc', ⟨l, hl⟩, hst⟩ := run_done (outAdj g) _ ⟨[(n, outAdj g n)], fin⟩ f hc hgood hd
        obtain ⟨fin', h1, h2, h3⟩ := hasCyclesLoop_closed g ns f hc' h
        refine ⟨fin', h1, fun r hr => ?_, fun x hx => h3 x (by rw [hl]; exact List.mem_append_right _ hx)⟩
        rcases List.mem_cons.1 hr with rfl | hr
        · exact h3 _ (hst (_, _) (List.mem_singleton.2 rfl))
        · exact h2 r hr
      · simp [throw, throwThe, MonadExceptOf.throw] at h

/-- a list splits at the last occurrence of any of its members -/
theorem split_last_occurrence (v : Nat) : ∀ (l : List Nat), v ∈ l → ∃ l₁ l₂, l = l₁ ++ v :: l₂ ∧ v ∉ l₂
  | [], h => by cases h
  | a :: l, h => by
    by_cases hv : v ∈ l
    · obtain ⟨l₁, l₂, h1, h2⟩ := split_last_occurrence v l hv
      exact ⟨a :: l₁, l₂, by rw [h1]; rfl, h2⟩
    · rcases List.mem_cons.1 h with rfl | h
      · exact ⟨[], l, rfl, hv⟩
      · exact absurd h hv

open DfsHasCycles in
/-- in a closed finished list, the distance of a node's last occurrence from the end is a rank that drops along every edge -/
theorem closed_rank (adj : Nat → List Nat) (fin : List Nat) (hc : Closed adj fin) (v : Nat) (hv : v ∈ fin) (w : Nat) (hw : w ∈ adj v) :
    fin.reverse.idxOf w < fin.reverse.idxOf v := by
  obtain ⟨l₁, l₂, hsplit, hnot⟩ := split_last_occurrence v fin hv
  have hw2 : w ∈ l₂ := hc l₁ v l₂ hsplit w hw
  have hrev : fin.reverse = l₂.reverse ++ (v :: l₁.reverse) := by
    rw [hsplit]; simp
  rw [hrev, List.idxOf_append, List.idxOf_append]
  have h1 : w ∈ l₂.reverse := List.mem_reverse.2 hw2
  have h2 : v ∉ l₂.reverse := fun h => hnot (List.mem_reverse.1 h)
  rw [if_pos h1, if_neg h2]
  have := List.idxOf_lt_length_of_mem h1
  omega

/-- **completeness of the cycle test**: if the model's `hasCycles` answers "no cycle", there is a rank that strictly decreases along
    every edge the test follows (every out-edge that is not a self-loop), from every node of the store -/
theorem hasCycles_false_rank (g : G) (h : hasCycles g = .ok false) :
    ∃ rank : Nat → Nat, ∀ v ∈ g.nodeIds, ∀ w ∈ outAdj g v, rank w < rank v := by
  unfold hasCycles at h
  have hc0 : DfsHasCycles.Closed (outAdj g) [] := by
    intro l₁ u l₂ heq; cases l₁ <;> cases heq
  obtain ⟨fin', h1, h2, _⟩ := hasCyclesLoop_closed g g.nodeIds [] hc0 h
  exact ⟨fun x => fin'.reverse.idxOf x, fun v hv w hw => closed_rank (outAdj g) fin' h1 v (h2 v hv) w hw⟩

end Autog
