import Autog.Lemmas.Static
import Autog.Lemmas.Reverse
/-! C01: `breakLongEdges` never runs out of the model fuel on a state whose edges end in the node store and none of which points
    upwards by more than one layer (what a layerer hands over): every cut shortens the remaining span by one. Core-only. -/

namespace Autog

/-- the weight of an edge in the termination measure: its span in layers, at least 1 -/
def spanW (g : G) (e : Nat) : Nat := max 1 (g.layerOf (g.edge e).dst - g.layerOf (g.edge e).src).toNat

/-- the measure: total weight of the edges the index loop has not reached yet -/
def restW (g : G) (i : Nat) : Nat := ((g.elist.drop i).map (spanW g)).sum

/-- what the loop may assume of the state -/
structure BreakWF (g : G) : Prop where
  inStore : ∀ e ∈ g.elist, e < g.edges.size
  ends : ∀ e ∈ g.elist, (g.edge e).src < g.nodes.size ∧ (g.edge e).dst < g.nodes.size
  noUp : ∀ e ∈ g.elist, ¬ (g.layerOf (g.edge e).src - g.layerOf (g.edge e).dst > 1)

theorem breakEdge_elist (g : G) (e v : Nat) : (breakEdge g e v).1.elist = g.elist ++ [g.edges.size] := rfl

theorem breakEdge_edges (g : G) (e v : Nat) :
    (breakEdge g e v).1.edges = (g.edges.modify e fun ed => { ed with dst := g.nodes.size }).push
      { src := g.nodes.size, dst := (g.edge e).dst, weight := 1, delta := 1, rev := (g.edge e).rev } := rfl

theorem breakEdge_esize (g : G) (e v : Nat) : (breakEdge g e v).1.edges.size = g.edges.size + 1 := by
  rw [breakEdge_edges]; simp

theorem breakEdge_nsize (g : G) (e v : Nat) : (breakEdge g e v).1.nodes.size = g.nodes.size + 1 := by
  rw [breakEdge_nodes]; simp

/-- old nodes keep their layer; the new helper node sits one layer below the source -/
theorem breakEdge_layerOf_old (g : G) (e v n : Nat) (hn : n < g.nodes.size) :
    (breakEdge g e v).1.layerOf n = g.layerOf n := by
  simp only [G.layerOf, G.node, breakEdge_nodes, Array.getD_eq_getD_getElem?, Array.getElem?_modify, Array.getElem?_push,
    Nat.ne_of_lt hn, if_false, Array.getElem?_eq_getElem hn]
  split
  · simp only [Option.map_some, Option.getD_some]; unfold patchIn; split <;> rfl
  · rfl

theorem breakEdge_layerOf_new (g : G) (e v : Nat) :
    (breakEdge g e v).1.layerOf g.nodes.size = g.layerOf (g.edge e).src + 1 := by
  simp only [G.layerOf, G.node, breakEdge_nodes, Array.getD_eq_getD_getElem?, Array.getElem?_modify, Array.getElem?_push, if_true]
  split
  · simp only [Option.map_some, Option.getD_some]; unfold patchIn; split <;> rfl
  · rfl

/-- the edges after a cut: the cut edge now ends at the helper node, the new edge leads from it to the old target, the rest is as it was -/
theorem breakEdge_edge_old (g : G) (e v j : Nat) (hj : j < g.edges.size) :
    (breakEdge g e v).1.edge j = if e = j then { g.edge j with dst := g.nodes.size } else g.edge j := by
  simp only [G.edge, breakEdge_edges, Array.getD_eq_getD_getElem?, Array.getElem?_push, Array.size_modify, Nat.ne_of_lt hj, if_false,
    Array.getElem?_modify, Array.getElem?_eq_getElem hj]
  split <;> simp

theorem breakEdge_edge_new (g : G) (e v : Nat) :
    ((breakEdge g e v).1.edge g.edges.size).src = g.nodes.size ∧ ((breakEdge g e v).1.edge g.edges.size).dst = (g.edge e).dst := by
  simp only [G.edge, breakEdge_edges, Array.getD_eq_getD_getElem?, Array.getElem?_push, Array.size_modify, if_true, Option.getD_some,
    and_self]

theorem sum_map_le {α} (f h : α → Nat) : ∀ (l : List α), (∀ x ∈ l, f x ≤ h x) → (l.map f).sum ≤ (l.map h).sum
  | [], _ => Nat.le_refl _
  | a :: l, hl => by
    simp only [List.map_cons, List.sum_cons]
    exact Nat.add_le_add (hl a (List.mem_cons_self ..)) (sum_map_le f h l fun x hx => hl x (List.mem_cons_of_mem _ hx))

/-- one cut: the state stays well formed and the remaining weight drops by at least one -/
theorem breakEdge_step (g : G) (h : BreakWF g) (i e v : Nat) (hi : g.elist[i]? = some e)
    (hlong : g.layerOf (g.edge e).dst - g.layerOf (g.edge e).src > 1) :
    BreakWF (breakEdge g e v).1 ∧ restW (breakEdge g e v).1 (i + 1) + 1 ≤ restW g i := by
  have hem : e ∈ g.elist := List.mem_of_getElem? hi
  have he := h.inStore e hem
  obtain ⟨hsrc, hdst⟩ := h.ends e hem
  have hedge : ∀ j, j ∈ g.elist →
      ((breakEdge g e v).1.edge j).src = (g.edge j).src ∧
      ((breakEdge g e v).1.edge j).dst = if e = j then g.nodes.size else (g.edge j).dst := by
    intro j hj
    rw [breakEdge_edge_old g e v j (h.inStore j hj)]
    split <;> simp
  -- weights of the old edges do not grow; the cut edge now weighs 1
  have hw_old : ∀ j ∈ g.elist, spanW (breakEdge g e v).1 j ≤ spanW g j := by
    intro j hj
    obtain ⟨h1, h2⟩ := hedge j hj
    obtain ⟨hs, hd⟩ := h.ends j hj
    unfold spanW
    rw [h1, h2, breakEdge_layerOf_old g e v _ hs]
    by_cases hej : e = j
    · subst hej
      simp only [if_true, breakEdge_layerOf_new]
      have : (g.layerOf (g.edge e).src + 1 - g.layerOf (g.edge e).src).toNat = 1 := by
        have : g.layerOf (g.edge e).src + 1 - g.layerOf (g.edge e).src = 1 := by omega
        rw [this]; rfl
      rw [this]; omega
    · simp only [hej, if_false, breakEdge_layerOf_old g e v _ hd]; exact Nat.le_refl _
  have hw_e : spanW (breakEdge g e v).1 e = 1 := by
    obtain ⟨h1, h2⟩ := hedge e hem
    unfold spanW
    rw [h1, h2, breakEdge_layerOf_old g e v _ hsrc]
    simp only [if_true, breakEdge_layerOf_new]
    have : g.layerOf (g.edge e).src + 1 - g.layerOf (g.edge e).src = 1 := by omega
    rw [this]; rfl
  have hw_new : spanW (breakEdge g e v).1 g.edges.size + 1 = spanW g e := by
    obtain ⟨h1, h2⟩ := breakEdge_edge_new g e v
    unfold spanW
    rw [h1, h2, breakEdge_layerOf_new, breakEdge_layerOf_old g e v _ hdst]
    omega
  refine ⟨⟨?_, ?_, ?_⟩, ?_⟩
  · intro j hj
    rw [breakEdge_elist] at hj
    rw [breakEdge_esize]
    rcases List.mem_append.1 hj with hj | hj
    · have := h.inStore j hj; omega
    · simp only [List.mem_singleton] at hj; omega
  · intro j hj
    rw [breakEdge_elist] at hj
    rw [breakEdge_nsize]
    rcases List.mem_append.1 hj with hj | hj
    · obtain ⟨h1, h2⟩ := hedge j hj
      obtain ⟨hs, hd⟩ := h.ends j hj
      rw [h1, h2]
      refine ⟨by omega, ?_⟩
      split <;> omega
    · simp only [List.mem_singleton] at hj; subst hj
      obtain ⟨h1, h2⟩ := breakEdge_edge_new g e v
      rw [h1, h2]; omega
  · intro j hj
    rw [breakEdge_elist] at hj
    rcases List.mem_append.1 hj with hj | hj
    · obtain ⟨h1, h2⟩ := hedge j hj
      obtain ⟨hs, hd⟩ := h.ends j hj
      rw [h1, h2, breakEdge_layerOf_old g e v _ hs]
      by_cases hej : e = j
      · subst hej
        simp only [if_true, breakEdge_layerOf_new]; omega
      · simp only [hej, if_false, breakEdge_layerOf_old g e v _ hd]; exact h.noUp j hj
    · simp only [List.mem_singleton] at hj; subst hj
      obtain ⟨h1, h2⟩ := breakEdge_edge_new g e v
      rw [h1, h2, breakEdge_layerOf_new, breakEdge_layerOf_old g e v _ hdst]; omega
  · -- the measure
    have hdrop : g.elist.drop i = e :: g.elist.drop (i + 1) := by
      have hlt : i < g.elist.length := by
        apply Classical.byContradiction; intro hn
        rw [List.getElem?_eq_none (by omega)] at hi; cases hi
      rw [List.drop_eq_getElem_cons hlt]
      congr 1
      rw [List.getElem?_eq_getElem hlt] at hi
      exact Option.some.inj hi
    unfold restW
    rw [breakEdge_elist, hdrop, List.map_cons, List.sum_cons]
    have hlen : i + 1 ≤ g.elist.length := by
      apply Classical.byContradiction; intro hn
      rw [List.getElem?_eq_none (by omega)] at hi; cases hi
    rw [List.drop_append_of_le_length hlen, List.map_append, List.sum_append]
    simp only [List.map_cons, List.map_nil, List.sum_cons, List.sum_nil, Nat.add_zero]
    have hrest := sum_map_le (spanW (breakEdge g e v).1) (spanW g) (g.elist.drop (i + 1))
      (fun x hx => hw_old x (List.mem_of_mem_drop hx))
    omega

/-- the loop ends within any fuel above the remaining weight -/
theorem breakLongEdges_go_total : ∀ (fuel i v : Nat) (g : G), BreakWF g → restW g i + (g.elist.length - i) < fuel →
    ∃ g', breakLongEdges.go fuel i v g = .ok g'
  | 0, _, _, _, _, hf => by omega
  | fuel + 1, i, v, g, h, hf => by
    unfold breakLongEdges.go
    cases hi : g.elist[i]? with
    | none => exact ⟨g, rfl⟩
    | some e =>
      simp only
      have hem : e ∈ g.elist := List.mem_of_getElem? hi
      have hlt : i < g.elist.length := by
        apply Classical.byContradiction; intro hn
        rw [List.getElem?_eq_none (by omega)] at hi; cases hi
      by_cases hlong : g.layerOf (g.edge e).dst - g.layerOf (g.edge e).src > 1
      · rw [if_pos hlong]
        obtain ⟨hwf', hm⟩ := breakEdge_step g h i e v hi hlong
        apply breakLongEdges_go_total fuel (i + 1) (v + 1) _ hwf'
        have : (breakEdge g e v).1.elist.length = g.elist.length + 1 := by rw [breakEdge_elist]; simp
        rw [this]; omega
      · rw [if_neg hlong, if_neg (h.noUp e hem)]
        apply breakLongEdges_go_total fuel (i + 1) v g h
        have hdrop : g.elist.drop i = e :: g.elist.drop (i + 1) := by
          rw [List.drop_eq_getElem_cons hlt]
          congr 1
          rw [List.getElem?_eq_getElem hlt] at hi
          exact Option.some.inj hi
        have : restW g (i + 1) ≤ restW g i := by
          unfold restW; rw [hdrop, List.map_cons, List.sum_cons]; omega
        omega

theorem sum_map_const_le {α} (f : α → Nat) (k : Nat) : ∀ (l : List α), (∀ x ∈ l, f x ≤ k) → (l.map f).sum ≤ l.length * k
  | [], _ => by simp
  | a :: l, hl => by
    simp only [List.map_cons, List.sum_cons, List.length_cons]
    have := sum_map_const_le f k l fun x hx => hl x (List.mem_cons_of_mem _ hx)
    have := hl a (List.mem_cons_self ..)
    rw [Nat.succ_mul]; omega

/-- **C01, `breakLongEdges`**: on every state whose listed edges lie in the edge store, end in the node store, never point upwards by
    more than one layer and span at most `layers.size + 2` layers, the loop over the growing edge list ends within the model's fuel -/
theorem breakLongEdges_total (g : G) (h : BreakWF g)
    (hspan : ∀ e ∈ g.elist, (g.layerOf (g.edge e).dst - g.layerOf (g.edge e).src).toNat ≤ g.layers.size + 2) :
    ∃ g', breakLongEdges g = .ok g' := by
  unfold breakLongEdges
  apply breakLongEdges_go_total _ 0 1 g h
  have : restW g 0 ≤ g.elist.length * (g.layers.size + 2) := by
    unfold restW
    rw [List.drop_zero]
    apply sum_map_const_le
    intro e he
    unfold spanW
    have := hspan e he
    omega
  omega


/-- the decidable form of the hypotheses of `breakLongEdges_total`, evaluated by the driver on the traced state after phase 2 (`K:breakWF`) -/
def breakWFb (g : G) : Bool :=
  g.elist.all fun e =>
    decide (e < g.edges.size) && decide ((g.edge e).src < g.nodes.size) && decide ((g.edge e).dst < g.nodes.size) &&
    !decide (g.layerOf (g.edge e).src - g.layerOf (g.edge e).dst > 1) &&
    decide ((g.layerOf (g.edge e).dst - g.layerOf (g.edge e).src).toNat ≤ g.layers.size + 2)

theorem breakWFb_sound (g : G) (h : breakWFb g = true) :
    BreakWF g ∧ ∀ e ∈ g.elist, (g.layerOf (g.edge e).dst - g.layerOf (g.edge e).src).toNat ≤ g.layers.size + 2 := by
  unfold breakWFb at h
  simp only [List.all_eq_true, Bool.and_eq_true, decide_eq_true_eq, Bool.not_eq_true', decide_eq_false_iff_not] at h
  exact ⟨⟨fun e he => (h e he).1.1.1.1, fun e he => ⟨(h e he).1.1.1.2, (h e he).1.1.2⟩, fun e he => (h e he).1.2⟩,
    fun e he => (h e he).2⟩

/-- … so a state the contract accepts is one on which the loop ends -/
theorem breakLongEdges_total_of_contract (g : G) (h : breakWFb g = true) : ∃ g', breakLongEdges g = .ok g' :=
  breakLongEdges_total g (breakWFb_sound g h).1 (breakWFb_sound g h).2

end Autog
