/-! Spike (C19): verified containment checker for a segment in a union of rectangles, over Rat.
    Certificate = breakpoints 0 = t₀ ≤ t₁ ≤ … ≤ t_k = 1 such that p(t_j) and p(t_{j+1}) lie in a common
    rectangle; then every point of the segment lies in some rectangle (rectangles are convex). Core-only. -/


namespace Autog.SegmentInsideRects

structure Rect where
  l : Rat
  r : Rat
  top : Rat
  bot : Rat

structure Seg where
  ax : Rat
  ay : Rat
  dx : Rat     -- bx - ax
  dy : Rat     -- by - ay

def Seg.x (s : Seg) (t : Rat) : Rat := s.ax + t * s.dx
def Seg.y (s : Seg) (t : Rat) : Rat := s.ay + t * s.dy

def Rect.has (R : Rect) (x y : Rat) : Prop := R.l ≤ x ∧ x ≤ R.r ∧ R.top ≤ y ∧ y ≤ R.bot
instance (R : Rect) (x y : Rat) : Decidable (R.has x y) := by unfold Rect.has; exact inferInstance

/-- a linear function between two parameters stays above a bound that holds at both ends -/
theorem lin_ge (a d lo t0 t1 t : Rat) (h0 : t0 ≤ t) (h1 : t ≤ t1) (e0 : lo ≤ a + t0 * d) (e1 : lo ≤ a + t1 * d) :
    lo ≤ a + t * d := by
  rcases Rat.le_total (a := 0) (b := d) with hd | hd
  · have := Rat.mul_le_mul_of_nonneg_right h0 hd
    grind
  · have hd' : 0 ≤ -d := by grind
    have := Rat.mul_le_mul_of_nonneg_right h1 hd'
    grind

theorem lin_le (a d hi t0 t1 t : Rat) (h0 : t0 ≤ t) (h1 : t ≤ t1) (e0 : a + t0 * d ≤ hi) (e1 : a + t1 * d ≤ hi) :
    a + t * d ≤ hi := by
  have := lin_ge (-a) (-d) (-hi) t0 t1 t h0 h1 (by grind) (by grind)
  grind

/-- convexity of a rectangle along the segment -/
theorem rect_convex (R : Rect) (s : Seg) (t0 t1 t : Rat) (h0 : t0 ≤ t) (h1 : t ≤ t1)
    (e0 : R.has (s.x t0) (s.y t0)) (e1 : R.has (s.x t1) (s.y t1)) : R.has (s.x t) (s.y t) := by
  unfold Rect.has Seg.x Seg.y at *
  exact ⟨lin_ge _ _ _ _ _ _ h0 h1 e0.1 e1.1, lin_le _ _ _ _ _ _ h0 h1 e0.2.1 e1.2.1,
         lin_ge _ _ _ _ _ _ h0 h1 e0.2.2.1 e1.2.2.1, lin_le _ _ _ _ _ _ h0 h1 e0.2.2.2 e1.2.2.2⟩

/-- the checker: consecutive breakpoints ordered and sharing a rectangle -/
def covered (rects : List Rect) (s : Seg) : List Rat → Bool
  | t0 :: t1 :: ts =>
      decide (t0 ≤ t1) && rects.any (fun R => decide (R.has (s.x t0) (s.y t0)) && decide (R.has (s.x t1) (s.y t1)))
        && covered rects s (t1 :: ts)
  | _ => true

/-- soundness: every parameter between the first and the last breakpoint is in some rectangle -/
theorem covered_sound (rects : List Rect) (s : Seg) : ∀ (ts : List Rat) (t0 t1 : Rat),
    covered rects s (t0 :: t1 :: ts) = true →
    ∀ t, t0 ≤ t → t ≤ (t1 :: ts).getLast (by simp) → ∃ R ∈ rects, R.has (s.x t) (s.y t)
  | [], t0, t1, hc, t, h0, h1 => by
    simp only [covered, Bool.and_eq_true, decide_eq_true_eq, List.any_eq_true, Bool.and_true] at hc
    obtain ⟨h01, R, hR, e0, e1⟩ := hc
    simp only [List.getLast_singleton] at h1
    exact ⟨R, hR, rect_convex R s t0 t1 t h0 h1 e0 e1⟩
  | t2 :: ts, t0, t1, hc, t, h0, h1 => by
    simp only [covered, Bool.and_eq_true, decide_eq_true_eq, List.any_eq_true] at hc
    obtain ⟨⟨h01, R, hR, e0, e1⟩, hrest⟩ := hc
    rcases Rat.le_total (a := t) (b := t1) with ht | ht
    · exact ⟨R, hR, rect_convex R s t0 t1 t h0 ht e0 e1⟩
    · have hl : (t1 :: t2 :: ts).getLast (by simp) = (t2 :: ts).getLast (by simp) := by
        rw [List.getLast_cons (by simp)]
      rw [hl] at h1
      have hrest' : covered rects s (t1 :: t2 :: ts) = true := by
        simp only [covered, Bool.and_eq_true, decide_eq_true_eq, List.any_eq_true]
        exact hrest
      exact covered_sound rects s ts t1 t2 hrest' t ht h1

/-- C19 containment: a certificate from 0 to 1 puts the whole segment inside the union of rectangles -/
theorem segment_inside (rects : List Rect) (s : Seg) (ts : List Rat) (t1 : Rat)
    (hc : covered rects s (0 :: t1 :: ts) = true) (hlast : (t1 :: ts).getLast (by simp) = 1) :
    ∀ t, 0 ≤ t → t ≤ 1 → ∃ R ∈ rects, R.has (s.x t) (s.y t) := by
  intro t h0 h1
  exact covered_sound rects s ts 0 t1 hc t h0 (by rw [hlast]; exact h1)


-- a two-rectangle corridor and a segment crossing the shared boundary at t = 1/2
def corr : List Rect := [⟨0, 4, 0, 2⟩, ⟨2, 8, 2, 4⟩]
#eval covered corr ⟨1, 0, 4, 4⟩ [0, 1/2, 1]      -- (1,0) → (5,4): crosses y=2 at x=3 ∈ [2,4] : true
#eval covered corr ⟨1, 0, 6, 4⟩ [0, 1/2, 1]      -- (1,0) → (7,4): at y=2 x=4 ok : true
#eval covered corr ⟨0, 0, 8, 4⟩ [0, 1/2, 1]      -- (0,0) → (8,4): at y=2 x=4 ok; true
#eval covered corr ⟨3, 0, -3, 4⟩ [0, 1/2, 1]     -- (3,0) → (0,4): at y=2 x=1.5 < 2 : false

end Autog.SegmentInsideRects
