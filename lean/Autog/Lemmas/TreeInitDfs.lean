import Autog.Model.WMedian
import Autog.Lemmas.TreePreorderPlanar
import Autog.Lemmas.GraphOps
/-! C13 bridge: on a graph state that represents a rooted tree `t` (out-lists = children in order), the DFS initialisation of
    the ordering phase (`initDfs`, the model of `initPositionsFromTop`) visits the nodes in pre-order and therefore gives every
    node, as position, its index in the pre-order level list `lvl t depth` — the numbering for which
    `TreePreorderPlanar.no_crossing` shows that no two tree edges cross. Core-only. -/

namespace Autog.TreeInitDfs
open TreePreorderPlanar

mutual
/-- pre-order list of (node, depth) -/
def pre : T → Nat → List (Nat × Nat)
  | .node x ks, d => (x, d) :: pres ks (d + 1)
def pres : List T → Nat → List (Nat × Nat)
  | [], _ => []
  | k :: ks, d => pre k d ++ pres ks d
end

mutual
/-- number of machine steps a subtree costs: one visit and one frame pop per node -/
def cost : T → Nat
  | .node _ ks => costs ks + 2
def costs : List T → Nat
  | [] => 0
  | k :: ks => cost k + costs ks
end

def atDepth (d : Nat) (l : List (Nat × Nat)) : List Nat := (l.filter fun p => p.2 == d).map (·.1)

theorem atDepth_append (d : Nat) (a b : List (Nat × Nat)) : atDepth d (a ++ b) = atDepth d a ++ atDepth d b := by
  simp [atDepth]

mutual
/-- nothing of a subtree rooted at depth e lies above e -/
theorem pre_above : ∀ (t : T) (e d : Nat), d < e → atDepth d (pre t e) = []
  | .node x ks, e, d, h => by
    have : ((e == d) = false) := by simp; omega
    simp only [pre, atDepth, List.filter_cons, this, Bool.false_eq_true, if_false]
    exact pres_above ks (e + 1) d (by omega)
theorem pres_above : ∀ (ks : List T) (e d : Nat), d < e → atDepth d (pres ks e) = []
  | [], _, _, _ => rfl
  | k :: ks, e, d, h => by
    simp only [pres, atDepth_append, pre_above k e d h, pres_above ks e d h, List.append_nil]
end

mutual
/-- the nodes of depth e + d in the pre-order of a subtree rooted at depth e are its d-th level list -/
theorem pre_lvl : ∀ (t : T) (e d : Nat), atDepth (e + d) (pre t e) = lvl t d
  | .node x ks, e, 0 => by
    have h1 : atDepth e (pres ks (e + 1)) = [] := pres_above ks (e + 1) e (by omega)
    simp only [atDepth] at h1
    simp only [pre, atDepth, lvl, Nat.add_zero, List.filter_cons, beq_self_eq_true, if_true, List.map_cons, h1]
  | .node x ks, e, d + 1 => by
    have : ((e == e + (d + 1)) = false) := by simp
    simp only [pre, atDepth, List.filter_cons, this, Bool.false_eq_true, if_false, lvl]
    have := pres_lvl ks (e + 1) d
    simp only [atDepth] at this
    rw [show e + (d + 1) = e + 1 + d by omega]
    exact this
theorem pres_lvl : ∀ (ks : List T) (e d : Nat), atDepth (e + d) (pres ks e) = lvls ks d
  | [], _, _ => rfl
  | k :: ks, e, d => by
    simp only [pres, atDepth_append, pre_lvl k e d, pres_lvl ks e d, lvls]
end


/-! ## the machine on a tree -/

mutual
def ids : T → List Nat
  | .node x ks => x :: idss ks
def idss : List T → List Nat
  | [] => []
  | k :: ks => ids k ++ idss ks
end

mutual
theorem pre_ids : ∀ (t : T) (d : Nat), (pre t d).map (·.1) = ids t
  | .node x ks, d => by simp only [pre, ids, List.map_cons, pres_ids ks (d + 1)]
theorem pres_ids : ∀ (ks : List T) (d : Nat), (pres ks d).map (·.1) = idss ks
  | [], _ => rfl
  | k :: ks, d => by simp only [pres, idss, List.map_append, pre_ids k d, pres_ids ks d]
end

mutual
/-- the out-lists of the state list the children of every tree node, in order -/
def KidsOK (kids : Nat → List Nat) : T → Prop
  | .node x ks => kids x = ks.map T.id ∧ KidsOKs kids ks
def KidsOKs (kids : Nat → List Nat) : List T → Prop
  | [] => True
  | k :: ks => KidsOK kids k ∧ KidsOKs kids ks
end

/-- the nodes the DFS continues with: targets of the out-edges (run from the top) or sources of the in-edges (from the bottom) -/
def kidsOf (down : Bool) (g : G) (n : Nat) : List Nat :=
  if down then (g.node n).outs.map fun e => (g.edge e).dst else (g.node n).ins.map fun e => (g.edge e).src

def bump (idx : List (Int × Int)) (l : Int) : List (Int × Int) :=
  if idx.any (·.1 == l) then idx.map fun (k, c) => if k == l then (k, c + 1) else (k, c) else idx ++ [(l, 1)]

/-- what one first visit does to the counters and the state -/
def visit1 (acc : List (Int × Int) × G) (n : Nat) : List (Int × Int) × G :=
  (bump acc.1 (acc.2.layerOf n), setPos acc.2 n (lookupD 0 acc.1 (acc.2.layerOf n)))

theorem node_setPos (g : G) (n m : Nat) (p : Int) :
    ((setPos g n p).node m).outs = (g.node m).outs ∧ ((setPos g n p).node m).layer = (g.node m).layer ∧
    ((setPos g n p).node m).ins = (g.node m).ins := by
  unfold setPos
  rw [G.node_modNode]
  split <;> simp

theorem kidsOf_setPos (down : Bool) (g : G) (n : Nat) (p : Int) : kidsOf down (setPos g n p) = kidsOf down g := by
  funext m
  unfold kidsOf
  rw [(node_setPos g n m p).1, (node_setPos g n m p).2.2]
  rfl

theorem layerOf_setPos (g : G) (n m : Nat) (p : Int) : (setPos g n p).layerOf m = g.layerOf m := by
  unfold G.layerOf; exact (node_setPos g n m p).2.1

theorem size_setPos (g : G) (n : Nat) (p : Int) : (setPos g n p).nodes.size = g.nodes.size := by
  unfold setPos; simp

theorem fold_frame (down : Bool) : ∀ (l : List Nat) (acc : List (Int × Int) × G),
    kidsOf down (l.foldl visit1 acc).2 = kidsOf down acc.2 ∧ (∀ m, (l.foldl visit1 acc).2.layerOf m = acc.2.layerOf m) ∧
    (l.foldl visit1 acc).2.nodes.size = acc.2.nodes.size
  | [], _ => ⟨rfl, fun _ => rfl, rfl⟩
  | x :: l, acc => by
    obtain ⟨h1, h2, h3⟩ := fold_frame down l (visit1 acc x)
    simp only [List.foldl_cons]
    refine ⟨h1.trans (kidsOf_setPos down _ _ _), fun m => (h2 m).trans (layerOf_setPos _ _ _ _), h3.trans (size_setPos _ _ _)⟩

/-- one step of the machine on a node that was not visited yet -/
theorem initDfs_visit (down : Bool) (fuel : Nat) (n : Nat) (rest : List Nat) (tl : List (List Nat)) (vis : List Nat)
    (idx : List (Int × Int)) (g : G) (hv : vis.contains n = false) :
    initDfs down (fuel + 1) ((n :: rest) :: tl) vis idx g =
      initDfs down fuel (kidsOf down g n :: rest :: tl) (n :: vis) (visit1 (idx, g) n).1 (visit1 (idx, g) n).2 := by
  rw [initDfs]
  simp only [hv, Bool.false_eq_true, if_false]
  have hk : kidsOf down (setPos g n (lookupD 0 idx (g.layerOf n))) n = kidsOf down g n := by rw [kidsOf_setPos]
  simp only [visit1, bump]
  rw [← hk]
  rfl

mutual
/-- the machine works through a subtree in `cost t` steps, visiting its nodes in pre-order -/
theorem run_tree (down : Bool) : ∀ (t : T) (f : Nat) (rest : List Nat) (tl : List (List Nat)) (vis : List Nat) (idx : List (Int × Int)) (g : G),
    KidsOK (kidsOf down g) t → (∀ x ∈ ids t, x ∉ vis) → (ids t).Nodup →
    initDfs down (cost t + f) ((t.id :: rest) :: tl) vis idx g =
      initDfs down f (rest :: tl) ((ids t).reverse ++ vis) ((ids t).foldl visit1 (idx, g)).1 ((ids t).foldl visit1 (idx, g)).2
  | .node x ks, f, rest, tl, vis, idx, g, hk, hvis, hnd => by
    simp only [KidsOK] at hk
    have hx : vis.contains x = false := by
      have := hvis x (by simp [ids])
      simpa using this
    have hnd' := List.nodup_cons.1 (by simpa [ids] using hnd : (x :: idss ks).Nodup)
    rw [show cost (.node x ks) + f = (costs ks + (f + 1)) + 1 by simp only [cost]; omega]
    simp only [T.id]
    rw [initDfs_visit down _ x rest tl vis idx g hx, hk.1]
    have hkids : KidsOKs (kidsOf down (visit1 (idx, g) x).2) ks := by
      simp only [visit1, kidsOf_setPos]; exact hk.2
    have hvis' : ∀ y ∈ idss ks, y ∉ x :: vis := by
      intro y hy hmem
      rcases List.mem_cons.1 hmem with rfl | hmem
      · exact hnd'.1 hy
      · exact hvis y (by simp [ids, hy]) hmem
    have := run_forest down ks (f + 1) [] (rest :: tl) (x :: vis) (visit1 (idx, g) x).1 (visit1 (idx, g) x).2 hkids hvis' hnd'.2
    rw [List.append_nil] at this
    rw [this, initDfs]
    simp only [ids, List.foldl_cons, List.reverse_cons, List.append_assoc, List.singleton_append]
  termination_by t => sizeOf t
theorem run_forest (down : Bool) : ∀ (ks : List T) (f : Nat) (rest : List Nat) (tl : List (List Nat)) (vis : List Nat) (idx : List (Int × Int)) (g : G),
    KidsOKs (kidsOf down g) ks → (∀ x ∈ idss ks, x ∉ vis) → (idss ks).Nodup →
    initDfs down (costs ks + f) ((ks.map T.id ++ rest) :: tl) vis idx g =
      initDfs down f (rest :: tl) ((idss ks).reverse ++ vis) ((idss ks).foldl visit1 (idx, g)).1 ((idss ks).foldl visit1 (idx, g)).2
  | [], f, rest, tl, vis, idx, g, _, _, _ => by simp [costs, idss]
  | k :: ks, f, rest, tl, vis, idx, g, hk, hvis, hnd => by
    simp only [KidsOKs] at hk
    have hnd' := List.nodup_append.1 (by simpa [idss] using hnd : (ids k ++ idss ks).Nodup)
    rw [show costs (k :: ks) + f = cost k + (costs ks + f) by simp only [costs]; omega]
    simp only [List.map_cons, List.cons_append]
    rw [run_tree down k (costs ks + f) (ks.map T.id ++ rest) tl vis idx g hk.1 (fun y hy => hvis y (by simp [idss, hy])) hnd'.1]
    have hfr := fold_frame down (ids k) (idx, g)
    have hkids : KidsOKs (kidsOf down ((ids k).foldl visit1 (idx, g)).2) ks := by rw [hfr.1]; exact hk.2
    have hvis' : ∀ y ∈ idss ks, y ∉ (ids k).reverse ++ vis := by
      intro y hy hmem
      rcases List.mem_append.1 hmem with h1 | h1
      · exact hnd'.2.2 y (List.mem_reverse.1 h1) y hy rfl
      · exact hvis y (by simp [idss, hy]) h1
    rw [run_forest down ks f rest tl _ _ _ hkids hvis' hnd'.2.1]
    simp only [idss, List.foldl_append, List.reverse_append, List.append_assoc]
  termination_by ks => sizeOf ks
end


/-! ## the positions the visits leave behind -/

def bumpF (l : Int) (x : Int × Int) : Int × Int := if x.1 == l then (x.1, x.2 + 1) else (x.1, x.2)

theorem lookupD_map_other (l l' : Int) (h : l ≠ l') : ∀ (idx : List (Int × Int)),
    lookupD 0 (idx.map (bumpF l)) l' = lookupD 0 idx l'
  | [] => rfl
  | (k, c) :: idx => by
    simp only [List.map_cons, bumpF]
    by_cases hk : (k == l) = true
    · have hkl : k = l := by simpa using hk
      have h2 : (k == l') = false := by rw [hkl]; simpa using h
      simp only [hk, if_true, lookupD, h2, Bool.false_eq_true, if_false]
      exact lookupD_map_other l l' h idx
    · have hk' : (k == l) = false := by simpa using hk
      simp only [hk', Bool.false_eq_true, if_false, lookupD]
      by_cases h2 : (k == l') = true
      · simp [h2]
      · have h2' : (k == l') = false := by simpa using h2
        simp only [h2', Bool.false_eq_true, if_false]
        exact lookupD_map_other l l' h idx

theorem lookupD_map_same (l : Int) : ∀ (idx : List (Int × Int)), idx.any (·.1 == l) = true →
    lookupD 0 (idx.map (bumpF l)) l = lookupD 0 idx l + 1
  | [], h => by simp at h
  | (k, c) :: idx, h => by
    simp only [List.map_cons, bumpF]
    by_cases hk : (k == l) = true
    · simp only [hk, if_true, lookupD]
    · have hk' : (k == l) = false := by simpa using hk
      simp only [hk', Bool.false_eq_true, if_false, lookupD]
      have : idx.any (·.1 == l) = true := by simpa [List.any_cons, hk'] using h
      exact lookupD_map_same l idx this

theorem lookupD_append_new (l l' : Int) : ∀ (idx : List (Int × Int)), idx.any (·.1 == l) = false →
    lookupD 0 (idx ++ [(l, 1)]) l' = lookupD 0 idx l' + (if l == l' then 1 else 0)
  | [], _ => by
    simp only [List.nil_append, lookupD]
    by_cases h : (l == l') = true <;> simp [h]
  | (k, c) :: idx, h => by
    simp only [List.any_cons, Bool.or_eq_false_iff] at h
    simp only [List.cons_append, lookupD]
    by_cases h2 : (k == l') = true
    · have hkl' : k = l' := by simpa using h2
      have h3 : (l == l') = false := by
        rw [← hkl']
        have : k ≠ l := by simpa using h.1
        simpa using (fun e => this e.symm)
      simp [h2, h3]
    · have h2' : (k == l') = false := by simpa using h2
      simp only [h2', Bool.false_eq_true, if_false]
      exact lookupD_append_new l l' idx h.2

theorem bump_eq (idx : List (Int × Int)) (l : Int) :
    bump idx l = if idx.any (·.1 == l) then idx.map (bumpF l) else idx ++ [(l, 1)] := by
  unfold bump
  split
  · congr 1
  · rfl

theorem lookupD_bump (idx : List (Int × Int)) (l l' : Int) :
    lookupD 0 (bump idx l) l' = lookupD 0 idx l' + (if l == l' then 1 else 0) := by
  rw [bump_eq]
  by_cases hany : idx.any (·.1 == l) = true
  · rw [if_pos hany]
    by_cases hl : l = l'
    · subst hl; simp [lookupD_map_same l idx hany]
    · have : (l == l') = false := by simpa using hl
      simp [lookupD_map_other l l' hl idx, this]
  · rw [if_neg hany]
    have : idx.any (·.1 == l) = false := by
      cases h : idx.any (·.1 == l)
      · rfl
      · exact absurd h hany
    exact lookupD_append_new l l' idx this

/-- number of entries of `l` strictly before the first `x` that sit in x's layer -/
def rankIn (lay : Nat → Int) (x : Nat) : List Nat → Nat
  | [] => 0
  | y :: l => if y = x then 0 else (if lay y = lay x then 1 else 0) + rankIn lay x l

theorem pos_setPos (g : G) (n m : Nat) (p : Int) :
    ((setPos g n p).node m).pos = if n = m ∧ m < g.nodes.size then p else (g.node m).pos := by
  unfold setPos
  rw [G.node_modNode]
  split <;> simp

theorem fold_pos_other : ∀ (l : List Nat) (acc : List (Int × Int) × G) (x : Nat), x ∉ l →
    ((l.foldl visit1 acc).2.node x).pos = (acc.2.node x).pos
  | [], _, _, _ => rfl
  | y :: l, acc, x, h => by
    simp only [List.foldl_cons]
    rw [fold_pos_other l _ x (fun hx => h (List.mem_cons_of_mem _ hx))]
    simp only [visit1, pos_setPos]
    have : y ≠ x := fun e => h (e ▸ List.mem_cons_self ..)
    simp [this]

/-- the position a node gets: its layer's counter at the start plus the number of earlier visits in its layer -/
theorem fold_pos : ∀ (l : List Nat) (acc : List (Int × Int) × G), l.Nodup → (∀ y ∈ l, y < acc.2.nodes.size) →
    ∀ x ∈ l, ((l.foldl visit1 acc).2.node x).pos =
      lookupD 0 acc.1 (acc.2.layerOf x) + (rankIn (fun y => acc.2.layerOf y) x l : Nat)
  | [], _, _, _, x, hx => by cases hx
  | y :: l, acc, hnd, hb, x, hx => by
    have hnd' := List.nodup_cons.1 hnd
    simp only [List.foldl_cons]
    by_cases hyx : y = x
    · subst hyx
      rw [fold_pos_other l _ y hnd'.1]
      simp only [visit1, pos_setPos, rankIn, if_true]
      have := hb y (List.mem_cons_self ..)
      simp [this]
    · have hxl : x ∈ l := by
        rcases List.mem_cons.1 hx with e | e
        · exact absurd e.symm hyx
        · exact e
      have hb' : ∀ z ∈ l, z < (visit1 acc y).2.nodes.size := by
        intro z hz; simp only [visit1, size_setPos]; exact hb z (List.mem_cons_of_mem _ hz)
      rw [fold_pos l (visit1 acc y) hnd'.2 hb' x hxl]
      simp only [visit1, layerOf_setPos, lookupD_bump, rankIn, if_neg hyx]
      by_cases hl : acc.2.layerOf y = acc.2.layerOf x
      · simp only [hl, beq_self_eq_true, if_true]
        omega
      · have : (acc.2.layerOf y == acc.2.layerOf x) = false := by simpa using hl
        simp only [this, Bool.false_eq_true, if_false, if_neg hl]
        omega


/-! ## putting it together: `initPositions` on a state that represents a tree -/

mutual
theorem cost_eq : ∀ (t : T), cost t = 2 * (ids t).length
  | .node x ks => by simp only [cost, ids, List.length_cons, costs_eq ks]; omega
theorem costs_eq : ∀ (ks : List T), costs ks = 2 * (idss ks).length
  | [] => rfl
  | k :: ks => by simp only [costs, idss, List.length_append, cost_eq k, costs_eq ks]; omega
end

/-- nodes that were all visited already are skipped, one step each -/
theorem skip_all (down : Bool) : ∀ (rest : List Nat) (f : Nat) (vis : List Nat) (idx : List (Int × Int)) (g : G),
    (∀ n ∈ rest, vis.contains n = true) → initDfs down (rest.length + 2 + f) [rest] vis idx g = .ok (vis, idx, g)
  | [], f, vis, idx, g, _ => by
    rw [show ([] : List Nat).length + 2 + f = (f + 1) + 1 by simp; omega, initDfs, initDfs]; rfl
  | n :: rest, f, vis, idx, g, h => by
    rw [show (n :: rest).length + 2 + f = (rest.length + 2 + f) + 1 by simp only [List.length_cons]; omega, initDfs]
    simp only [h n (List.mem_cons_self ..), if_true]
    exact skip_all down rest f vis idx g (fun m hm => h m (List.mem_cons_of_mem _ hm))

theorem rankIn_idxOf (lay : Nat → Int) (x : Nat) : ∀ (l : List Nat), x ∈ l →
    rankIn lay x l = (l.filter fun y => lay y == lay x).idxOf x
  | [], h => by cases h
  | y :: l, h => by
    by_cases hyx : y = x
    · subst hyx
      simp [rankIn]
    · have hxl : x ∈ l := by
        rcases List.mem_cons.1 h with e | e
        · exact absurd e.symm hyx
        · exact e
      have ih := rankIn_idxOf lay x l hxl
      simp only [rankIn, if_neg hyx, List.filter_cons]
      by_cases hl : lay y = lay x
      · have hb : (lay y == lay x) = true := by simpa using hl
        have hne : (y == x) = false := by simpa using hyx
        rw [if_pos hl, if_pos hb, List.idxOf_cons, hne, ih]
        simp only [cond_false]; omega
      · have hb : (lay y == lay x) = false := by simpa using hl
        simp only [if_neg hl, hb, Bool.false_eq_true, if_false, Nat.zero_add]
        exact ih

/-- the state represents the rooted tree `t` for the run from the top (`down = true`: out-lists are the children in order, the root
    is alone in the first layer list) or from the bottom (`down = false`: in-lists are the children, the root is alone in the last
    layer list); the layer of a node is an injective function `L` of its depth; every node of the state is a tree node -/
structure TreeRep (down : Bool) (g : G) (t : T) (L : Nat → Int) : Prop where
  kids : KidsOK (kidsOf down g) t
  nd : (ids t).Nodup
  first : (if down then (g.layers.getD 0 default).nodes else (g.layers.getD (g.layers.size - 1) default).nodes) = [t.id]
  span : ∀ n ∈ g.nodeIds, n ∈ ids t
  bound : ∀ x ∈ ids t, x < g.nodes.size
  size : (ids t).length ≤ g.nodes.size
  inj : ∀ a b, L a = L b → a = b
  lay : ∀ p ∈ pre t 0, g.layerOf p.1 = L p.2

theorem ids_filter_depth (g : G) (t : T) (L : Nat → Int) (hinj : ∀ a b, L a = L b → a = b)
    (hlay : ∀ p ∈ pre t 0, g.layerOf p.1 = L p.2) (d : Nat) :
    (ids t).filter (fun y => g.layerOf y == L d) = lvl t d := by
  rw [← pre_ids t 0, List.filter_map, ← pre_lvl t 0 d]
  simp only [atDepth, Nat.zero_add]
  congr 1
  apply List.filter_congr
  intro p hp
  simp only [Function.comp, hlay p hp]
  by_cases h : p.2 = d
  · simp [h]
  · have h1 : (p.2 == d) = false := by simpa using h
    have h2 : (L p.2 == L d) = false := by
      rw [beq_eq_false_iff_ne]; exact fun e => h (hinj _ _ e)
    rw [h1, h2]

/-- C13 bridge: the DFS initialisation (from the top on an out-tree state, from the bottom on an in-tree state) returns, and gives
    every node its index in the pre-order level list of its depth -/
theorem initPositions_tree (down : Bool) (g : G) (t : T) (L : Nat → Int) (h : TreeRep down g t L) :
    ∃ g', initPositions down g = .ok g' ∧
      ∀ d, ∀ x ∈ lvl t d, (g'.node x).pos = (((lvl t d).idxOf x : Nat) : Int) := by
  unfold initPositions
  simp only [h.first]
  have hcost := cost_eq t
  have hV : g.nodeIds.length = g.nodes.size := by simp [G.nodeIds]
  have hfuel : 2 * (g.edges.size + g.nodes.size) + 2 * g.nodes.size + 8 =
      cost t + (g.nodeIds.length + 2 + (2 * (g.edges.size + g.nodes.size) + 2 * g.nodes.size + 8 - cost t - g.nodes.size - 2)) := by
    have := h.size
    omega
  rw [hfuel]
  have hrun := run_tree down t (g.nodeIds.length + 2 + (2 * (g.edges.size + g.nodes.size) + 2 * g.nodes.size + 8 - cost t - g.nodes.size - 2))
    g.nodeIds [] [] [] g h.kids (fun x _ hx => by cases hx) h.nd
  simp only [List.singleton_append]
  rw [hrun, skip_all]
  · refine ⟨_, rfl, ?_⟩
    intro d x hx
    have hxa : x ∈ atDepth (0 + d) (pre t 0) := by rw [pre_lvl]; exact hx
    simp only [atDepth, Nat.zero_add] at hxa
    obtain ⟨p, hp, hpx⟩ := List.mem_map.1 hxa
    have hpmem := (List.mem_filter.1 hp).1
    have hpd : p.2 = d := by simpa using (List.mem_filter.1 hp).2
    have hxid : x ∈ ids t := by rw [← pre_ids t 0]; exact List.mem_map.2 ⟨p, hpmem, hpx⟩
    have hlayx : g.layerOf x = L d := by rw [← hpx, h.lay p hpmem, hpd]
    have hpos := fold_pos (ids t) ([], g) h.nd h.bound x hxid
    simp only [lookupD, Int.zero_add] at hpos
    rw [hpos, rankIn_idxOf _ x (ids t) hxid]
    simp only [hlayx]
    rw [ids_filter_depth g t L h.inj h.lay d]
  · intro n hn
    have := h.span n hn
    simpa using this

theorem pairwise_idxOf : ∀ (l : List Nat), l.Nodup → List.Pairwise (fun a b => l.idxOf a < l.idxOf b) l
  | [], _ => .nil
  | x :: l, h => by
    have hnd := List.nodup_cons.1 h
    refine List.Pairwise.cons ?_ ?_
    · intro b hb
      have hne : (x == b) = false := by
        rw [beq_eq_false_iff_ne]; intro e; exact hnd.1 (e ▸ hb)
      simp [List.idxOf_cons, hne]
    · refine (pairwise_idxOf l hnd.2).imp_of_mem ?_
      intro a b ha hb hab
      have h1 : (x == a) = false := by rw [beq_eq_false_iff_ne]; intro e; exact hnd.1 (e ▸ ha)
      have h2 : (x == b) = false := by rw [beq_eq_false_iff_ne]; intro e; exact hnd.1 (e ▸ hb)
      simp only [List.idxOf_cons, h1, h2, cond_false]
      omega

/-- C13: after the DFS initialisation of a tree state no two tree edges between consecutive depths cross: listed parent by parent,
    parent positions never decrease and child positions strictly increase -/
theorem initPositions_tree_no_crossing (down : Bool) (g : G) (t : T) (L : Nat → Int) (h : TreeRep down g t L) :
    ∃ g', initPositions down g = .ok g' ∧
      ∀ d, List.Pairwise (fun e f => (g'.node e.1).pos ≤ (g'.node f.1).pos ∧ (g'.node e.2).pos < (g'.node f.2).pos) (edg t d) := by
  obtain ⟨g', hg, hpos⟩ := initPositions_tree down g t L h
  refine ⟨g', hg, fun d => ?_⟩
  have hnd : ∀ d, (lvl t d).Nodup := by
    intro d; rw [← ids_filter_depth g t L h.inj h.lay d]; exact h.nd.filter _
  have hinc : ∀ d, List.Pairwise (fun a b => (g'.node a).pos.toNat < (g'.node b).pos.toNat) (lvl t d) := by
    intro d
    refine (pairwise_idxOf (lvl t d) (hnd d)).imp_of_mem ?_
    intro a b ha hb hab
    rw [hpos d a ha, hpos d b hb]
    simpa using hab
  have := no_crossing t d (fun x => (g'.node x).pos.toNat) (fun x => (g'.node x).pos.toNat) (hinc d) (hinc (d + 1))
  -- back from `toNat` to the integer positions: all of them are indices, hence non-negative
  have hmem1 : ∀ e ∈ edg t d, e.1 ∈ lvl t d := by
    intro e he
    have hs := edg_fst t d
    have : ∀ {us ps}, Stutter us ps → ∀ b ∈ ps, b ∈ us := by
      intro us ps hst
      induction hst with
      | nil => intro b hb; cases hb
      | skip _ ih => intro b hb; exact List.mem_cons_of_mem _ (ih b hb)
      | rep _ ih => intro b hb
                    rcases List.mem_cons.1 hb with rfl | hb
                    · exact List.mem_cons_self ..
                    · exact ih b hb
    exact this hs e.1 (List.mem_map.2 ⟨e, he, rfl⟩)
  have hmem2 : ∀ e ∈ edg t d, e.2 ∈ lvl t (d + 1) := by
    intro e he
    rw [← edg_snd]; exact List.mem_map.2 ⟨e, he, rfl⟩
  refine this.imp_of_mem ?_
  intro e f he hf hef
  have e1 := hpos d e.1 (hmem1 e he)
  have f1 := hpos d f.1 (hmem1 f hf)
  have e2 := hpos (d + 1) e.2 (hmem2 e he)
  have f2 := hpos (d + 1) f.2 (hmem2 f hf)
  rw [e1, f1, e2, f2] at hef ⊢
  simp only [Int.toNat_natCast] at hef
  omega

end Autog.TreeInitDfs
