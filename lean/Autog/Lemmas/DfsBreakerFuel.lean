import Autog.Lemmas.DfsBreakerMinimal
import Autog.Lemmas.HasCyclesFuel
/-! Termination of the depth-first breaker machine within an explicit budget: (out-degree + 2) per unvisited node,
    (todo + 1) per frame. No acyclicity needed: a node is pushed only when it is not in `visited`, and pushing adds it. Core-only. -/

namespace Autog.DfsBreakerMinimal

variable (out : Nat → List OutE)

def wNode (n : Nat) : Nat := (out n).length + 2
def sumW (l : List Nat) : Nat := (l.map (wNode out)).sum
def sumF (st : List Frame) : Nat := (st.map fun f => f.2.1.length + 1).sum
def unseen (univ : List Nat) (c : Cfg) : List Nat := univ.filter fun n => !c.visited.contains n
def mu (univ : List Nat) (c : Cfg) : Nat := sumF c.stack + sumW out (unseen univ c)

theorem sumW_eq (l : List Nat) : sumW out l = DfsHasCyclesSound.sumW (fun n => (out n).map Prod.snd) l := by
  unfold sumW DfsHasCyclesSound.sumW
  congr 1
  apply List.map_congr_left
  intro n _
  simp [wNode, DfsHasCyclesSound.wNode]

/-- rests only mention targets inside the universe -/
def RWF (univ : List Nat) (c : Cfg) : Prop := ∀ f ∈ c.stack, ∀ em ∈ f.2.1, em.2 ∈ univ

theorem run_no_fuelOut (univ : List Nat) (hnd : univ.Nodup) (hadj : ∀ n ∈ univ, ∀ em ∈ out n, em.2 ∈ univ) :
    ∀ (fuel : Nat) (c : Cfg), RWF univ c → mu out univ c < fuel → run out fuel c ≠ none := by
  intro fuel
  induction fuel with
  | zero => intro c _ h; omega
  | succ fuel ih =>
    intro c hw hmu
    unfold run
    match hs : c.stack, hw, hmu with
    | [], _, _ => simp
    | (n, [], via) :: tl, hw, hmu =>
      simp only []
      apply ih
      · intro f hf; exact hw f (by simp [RWF, hs] at *; exact Or.inr hf)
      · simp only [mu, sumF, hs, List.map_cons, List.sum_cons, List.length_nil, unseen] at hmu ⊢
        omega
    | (n, (e, m) :: ms, via) :: tl, hw, hmu =>
      simp only []
      have hsub : ∀ f ∈ (n, ms, via) :: tl, ∀ em ∈ f.2.1, em.2 ∈ univ := by
        intro f hf em hem
        rcases List.mem_cons.1 hf with rfl | hf
        · exact hw (n, (e, m) :: ms, via) (by simp [hs]) em (List.mem_cons_of_mem _ hem)
        · exact hw f (by simp [hs, hf]) em hem
      have hstep : ∀ (c' : Cfg), c'.stack = (n, ms, via) :: tl → c'.visited = c.visited → run out fuel c' ≠ none := by
        intro c' h1 h2
        apply ih
        · intro f hf; rw [h1] at hf; exact hsub f hf
        · simp only [mu, sumF, hs, h1, List.map_cons, List.sum_cons, List.length_cons, unseen, h2] at hmu ⊢
          omega
      by_cases h1 : m = n
      · rw [if_pos h1]; exact hstep _ rfl rfl
      · rw [if_neg h1]
        by_cases h2 : (act ((n, ms, via) :: tl)).contains m = true
        · rw [if_pos h2]; exact hstep _ rfl rfl
        · rw [if_neg h2]
          by_cases h3 : c.visited.contains m = true
          · rw [if_pos h3]; exact hstep _ rfl rfl
          · rw [if_neg h3]
            have hm_univ : m ∈ univ := hw (n, (e, m) :: ms, via) (by simp [hs]) (e, m) (List.mem_cons_self ..)
            apply ih
            · intro f hf
              simp only at hf
              rcases List.mem_cons.1 hf with rfl | hf
              · exact fun em hem => hadj m hm_univ em hem
              · exact hsub f hf
            · have hp : (!c.visited.contains m) = true := by simpa using h3
              have hrem := DfsHasCyclesSound.sumW_filter_remove (fun n => (out n).map Prod.snd) univ hnd
                (fun x => !c.visited.contains x) m hm_univ hp
              have hnew : (univ.filter fun x => !(m :: c.visited).contains x) =
                  univ.filter fun x => (!c.visited.contains x) && x != m := by
                apply List.filter_congr
                intro x _
                simp only [List.contains_cons, bne]
                cases (x == m) <;> cases (c.visited.contains x) <;> rfl
              simp only [mu, sumF, hs, List.map_cons, List.sum_cons, List.length_cons, unseen] at hmu ⊢
              rw [hnew]
              simp only [sumW_eq, DfsHasCyclesSound.wNode, List.length_map] at hrem hmu ⊢
              omega

end Autog.DfsBreakerMinimal
