/-! Spike (C01, phase1 greedy): the arc-diagram ranking assigns every node exactly once, for every choice
    of the max-outflow pick (so also for the random option). Machine + invariants. Core-only.
    Go structure (repaired code):
      A: drain `sinks`   (rank nextRight--)     B: drain `sources` (rank nextLeft++)
      C: while i > 0 pick an unassigned node    (rank nextLeft++)        — the outer loop runs once
    updateNeighbors(n): for s in n.In: skip if assigned; outdeg[s]--; if outdeg[s] ≤ 0 ∧ indeg[s] > 0: sinks += s
                        for t in n.Out: skip if assigned; indeg[t]--;  if indeg[t] ≤ 0 ∧ outdeg[t] > 0: sources += t -/


namespace Autog.GreedyAssignedOnce

inductive Mode where | A | B | C
deriving DecidableEq, Repr

structure Cfg where
  mode : Mode
  cur  : Option (Nat × List Nat × List Nat)      -- updateNeighbors in progress: node, rest of In (sources), rest of Out (targets)
  asg  : List Nat                                 -- assigned nodes (keys of arcdiag), newest first
  sinks : List Nat
  sources : List Nat
  outdeg : Nat → Int
  indeg  : Nat → Int
  i : Int
  una : List Nat                                  -- ghost: unassigned nodes

def upd {β} (f : Nat → β) (k : Nat) (v : β) : Nat → β := fun x => if x = k then v else f x
theorem upd_same {β} (f : Nat → β) (k : Nat) (v : β) : upd f k v k = v := by simp [upd]
theorem upd_other {β} (f : Nat → β) (k : Nat) (v : β) {x : Nat} (h : x ≠ k) : upd f k v x = f x := by simp [upd, h]

/-- one step; `pick` is the oracle for the max-outflow choice (any function; the theorem needs it to return
    an unassigned node when one exists, which the Go scan does) -/
def step (ins outs : Nat → List Nat) (pick : Cfg → Nat) (c : Cfg) : Option Cfg :=
  match c.cur with
  | some (n, s :: ri, ro) =>
      if c.asg.contains s then some { c with cur := some (n, ri, ro) }
      else
        let od := upd c.outdeg s (c.outdeg s - 1)
        some { c with cur := some (n, ri, ro), outdeg := od,
                      sinks := if od s ≤ 0 ∧ c.indeg s > 0 then c.sinks ++ [s] else c.sinks }
  | some (n, [], t :: ro) =>
      if c.asg.contains t then some { c with cur := some (n, [], ro) }
      else
        let id := upd c.indeg t (c.indeg t - 1)
        some { c with cur := some (n, [], ro), indeg := id,
                      sources := if id t ≤ 0 ∧ c.outdeg t > 0 then c.sources ++ [t] else c.sources }
  | some (_, [], []) => some { c with cur := none, i := c.i - 1 }
  | none =>
    match c.mode with
    | .A => match c.sinks with
        | s :: q => some { c with sinks := q, asg := s :: c.asg, una := c.una.erase s, cur := some (s, ins s, outs s) }
        | [] => some { c with mode := .B }
    | .B => match c.sources with
        | s :: q => some { c with sources := q, asg := s :: c.asg, una := c.una.erase s, cur := some (s, ins s, outs s) }
        | [] => some { c with mode := .C }
    | .C => if c.i > 0 then
              let n := pick c
              some { c with asg := n :: c.asg, una := c.una.erase n, cur := some (n, ins n, outs n) }
            else none                                                       -- loop exits

def cnt (l : List Nat) (x : Nat) : Int := (l.count x : Nat)
def sumL : List Int → Int
  | [] => 0
  | a :: l => a + sumL l

theorem sumL_nonneg (l : List Int) (h : ∀ a ∈ l, 0 ≤ a) : 0 ≤ sumL l := by
  induction l with
  | nil => simp [sumL]
  | cons a l ih =>
    have := h a (List.mem_cons_self ..)
    have := ih (fun b hb => h b (List.mem_cons_of_mem _ hb))
    simp only [sumL]; omega

theorem sum_erase (f : Nat → Int) : ∀ (l : List Nat) (n : Nat), n ∈ l →
    sumL (l.map f) = f n + sumL ((l.erase n).map f) := by
  intro l
  induction l with
  | nil => intro n h; cases h
  | cons a l ih =>
    intro n hn
    by_cases e : a = n
    · subst e; simp [sumL, List.erase_cons_head]
    · have hn' : n ∈ l := by
        rcases List.mem_cons.1 hn with h | h
        · exact absurd h.symm e
        · exact h
      have hne : (a == n) = false := by simp [e]
      simp only [List.map_cons, sumL, List.erase_cons, hne, Bool.false_eq_true, if_false]
      rw [ih n hn']; omega

theorem cnt_cons (a : Nat) (l : List Nat) (x : Nat) : cnt (a :: l) x = cnt l x + (if a = x then 1 else 0) := by
  unfold cnt; simp only [List.count_cons, beq_iff_eq]; split <;> simp
theorem cnt_nonneg (l : List Nat) (x : Nat) : 0 ≤ cnt l x := by unfold cnt; omega

/-- remaining out-edges of x: pending in the current In list + into still unassigned targets -/
def remOut (ins : Nat → List Nat) (c : Cfg) (x : Nat) : Int :=
  (match c.cur with | none => 0 | some (_, ri, _) => cnt ri x) + sumL (c.una.map (fun t => cnt (ins t) x))
/-- remaining in-edges of x: pending in the current Out list + from still unassigned sources -/
def remIn (outs : Nat → List Nat) (c : Cfg) (x : Nat) : Int :=
  (match c.cur with | none => 0 | some (_, _, ro) => cnt ro x) + sumL (c.una.map (fun s => cnt (outs s) x))

/-- invariant of modes A and B (while queues are being drained) -/
structure GInv (ins outs : Nat → List Nat) (ns : List Nat) (c : Cfg) : Prop where
  exO   : ∀ x ∈ c.una, c.outdeg x = remOut ins c x
  exI   : ∀ x ∈ c.una, c.indeg x = remIn outs c x
  qsk   : ∀ x ∈ c.sinks, c.outdeg x ≤ 0
  qsr   : ∀ x ∈ c.sources, c.indeg x ≤ 0
  quna  : ∀ x ∈ c.sinks ++ c.sources, x ∈ c.una
  qnd   : (c.sinks ++ c.sources).Nodup
  part  : ∀ x ∈ ns, x ∈ c.una ∨ x ∈ c.asg
  disj  : ∀ x ∈ c.una, x ∉ c.asg
  asgnd : c.asg.Nodup
  unand : c.una.Nodup
  curok : ∀ n ri ro, c.cur = some (n, ri, ro) → (∀ s ∈ ri, s ∈ ns) ∧ (∀ t ∈ ro, t ∈ ns)

theorem nodup_insert_mid {a b : List Nat} {s : Nat} (h : (a ++ b).Nodup) (ha : s ∉ a) (hb : s ∉ b) :
    ((a ++ [s]) ++ b).Nodup := by
  have : ((a ++ [s]) ++ b).Perm (s :: (a ++ b)) := by
    rw [List.append_assoc]
    exact (List.perm_middle (l₁ := a) (l₂ := b) (a := s))
  rw [this.nodup_iff]
  exact List.nodup_cons.2 ⟨by simp [ha, hb], h⟩

theorem nodup_insert_end {a b : List Nat} {s : Nat} (h : (a ++ b).Nodup) (ha : s ∉ a) (hb : s ∉ b) :
    (a ++ (b ++ [s])).Nodup := by
  have : (a ++ (b ++ [s])).Perm (s :: (a ++ b)) := by
    rw [← List.append_assoc]
    exact List.perm_append_singleton s (a ++ b)
  rw [this.nodup_iff]
  exact List.nodup_cons.2 ⟨by simp [ha, hb], h⟩

section
variable {ins outs : Nat → List Nat} {ns : List Nat} {pick : Cfg → Nat}

/-- updateNeighbors steps and queue pops keep the invariant (modes A and B) -/
theorem stepAB (hins : ∀ n, ∀ s ∈ ins n, s ∈ ns) (houts : ∀ n, ∀ t ∈ outs n, t ∈ ns)
    (c c' : Cfg) (hm : c.mode ≠ .C) (hI : GInv ins outs ns c) (h : step ins outs pick c = some c') :
    GInv ins outs ns c' := by
  obtain ⟨mode, cur, asg, sinks, sources, outdeg, indeg, i, una⟩ := c
  obtain ⟨hexO, hexI, hqsk, hqsr, hquna, hqnd, hpart, hdisj, hasg, huna, hcur⟩ := hI
  dsimp only at hexO hexI hqsk hqsr hquna hqnd hpart hdisj hasg huna hm hcur
  unfold step at h
  match cur, hexO, hexI, hcur, h with
  | some (n, s :: ri, ro), hexO, hexI, hcur, h =>
    dsimp only at h
    split at h
    · -- s already assigned: nothing changes but the todo list
      rename_i hs
      have hs' : s ∈ asg := by simpa using hs
      simp only [Option.some.injEq] at h; subst h
      refine ⟨?_, ?_, hqsk, hqsr, hquna, hqnd, hpart, hdisj, hasg, huna, ?cu⟩
      case cu =>
        intro n' ri' ro' he
        simp only [Option.some.injEq, Prod.mk.injEq] at he
        obtain ⟨_, rfl, rfl⟩ := he
        exact ⟨fun a ha => (hcur n (s :: ri) ro rfl).1 a (List.mem_cons_of_mem _ ha), (hcur n (s :: ri) ro rfl).2⟩
      · intro x hx
        have hxs : s ≠ x := fun e => hdisj x hx (e ▸ hs')
        have := hexO x hx
        simp only [remOut, cnt_cons, hxs, if_false] at this ⊢
        omega
      · intro x hx; exact hexI x hx
    · rename_i hs
      have hs' : s ∉ asg := by simpa using hs
      simp only [Option.some.injEq] at h; subst h
      have hs_ns : s ∈ ns := (hcur n (s :: ri) ro rfl).1 s (List.mem_cons_self ..)
      have hs_una : s ∈ una := by
        rcases hpart s hs_ns with h1 | h1
        · exact h1
        · exact absurd h1 hs'
      have hpos : 1 ≤ outdeg s := by
        have := hexO s hs_una
        have h2 : 0 ≤ sumL (una.map (fun t => cnt (ins t) s)) :=
          sumL_nonneg _ (by intro a ha; obtain ⟨u, _, rfl⟩ := List.mem_map.1 ha; exact cnt_nonneg _ _)
        have h3 := cnt_nonneg ri s
        simp only [remOut, cnt_cons, if_true] at this
        omega
      have hs_sk : s ∉ sinks := fun hh => by have := hqsk s hh; omega
      refine ⟨?_, ?_, ?_, hqsr, ?_, ?_, hpart, hdisj, hasg, huna, ?cu⟩ <;> dsimp only
      case cu =>
        intro n' ri' ro' he
        simp only [Option.some.injEq, Prod.mk.injEq] at he
        obtain ⟨_, rfl, rfl⟩ := he
        exact ⟨fun a ha => (hcur n (s :: ri) ro rfl).1 a (List.mem_cons_of_mem _ ha), (hcur n (s :: ri) ro rfl).2⟩
      · intro x hx
        have := hexO x hx
        simp only [remOut, cnt_cons] at this ⊢
        by_cases e : x = s
        · subst e; rw [upd_same]; simp only [if_true] at this; omega
        · rw [upd_other _ _ _ e]
          have : ¬ (s = x) := fun h => e h.symm
          simp only [this, if_false] at *
          omega
      · intro x hx; exact hexI x hx
      · intro x hx
        have hle : ∀ y, upd outdeg s (outdeg s - 1) y ≤ outdeg y := by
          intro y; by_cases e : y = s
          · subst e; rw [upd_same]; omega
          · rw [upd_other _ _ _ e]; exact Int.le_refl _
        split at hx
        · rcases List.mem_append.1 hx with h1 | h1
          · have := hqsk x h1; have := hle x; omega
          · have : x = s := by simpa using h1
            subst this; rename_i hc; exact hc.1
        · have := hqsk x hx; have := hle x; omega
      · intro x hx
        split at hx
        · rcases List.mem_append.1 hx with h1 | h1
          · rcases List.mem_append.1 h1 with h2 | h2
            · exact hquna x (List.mem_append_left _ h2)
            · have : x = s := by simpa using h2
              subst this; exact hs_una
          · exact hquna x (List.mem_append_right _ h1)
        · exact hquna x hx
      · split
        · rename_i hc
          have hs_sr : s ∉ sources := fun hh => by have := hqsr s hh; omega
          exact nodup_insert_mid hqnd hs_sk hs_sr
        · exact hqnd
  | some (n, [], t :: ro), hexO, hexI, hcur, h =>
    dsimp only at h
    split at h
    · rename_i ht
      have ht' : t ∈ asg := by simpa using ht
      simp only [Option.some.injEq] at h; subst h
      refine ⟨?_, ?_, hqsk, hqsr, hquna, hqnd, hpart, hdisj, hasg, huna, ?cu⟩
      case cu =>
        intro n' ri' ro' he
        simp only [Option.some.injEq, Prod.mk.injEq] at he
        obtain ⟨_, rfl, rfl⟩ := he
        exact ⟨fun a ha => (by cases ha), fun a ha => (hcur n [] (t :: ro) rfl).2 a (List.mem_cons_of_mem _ ha)⟩
      · intro x hx; exact hexO x hx
      · intro x hx
        have hxt : t ≠ x := fun e => hdisj x hx (e ▸ ht')
        have := hexI x hx
        simp only [remIn, cnt_cons, hxt, if_false] at this ⊢
        omega
    · rename_i ht
      have ht' : t ∉ asg := by simpa using ht
      simp only [Option.some.injEq] at h; subst h
      have ht_ns : t ∈ ns := (hcur n [] (t :: ro) rfl).2 t (List.mem_cons_self ..)
      have ht_una : t ∈ una := by
        rcases hpart t ht_ns with h1 | h1
        · exact h1
        · exact absurd h1 ht'
      have hpos : 1 ≤ indeg t := by
        have := hexI t ht_una
        have h2 : 0 ≤ sumL (una.map (fun s => cnt (outs s) t)) :=
          sumL_nonneg _ (by intro a ha; obtain ⟨u, _, rfl⟩ := List.mem_map.1 ha; exact cnt_nonneg _ _)
        have h3 := cnt_nonneg ro t
        simp only [remIn, cnt_cons, if_true] at this
        omega
      have ht_sr : t ∉ sources := fun hh => by have := hqsr t hh; omega
      refine ⟨?_, ?_, hqsk, ?_, ?_, ?_, hpart, hdisj, hasg, huna, ?cu⟩ <;> dsimp only
      case cu =>
        intro n' ri' ro' he
        simp only [Option.some.injEq, Prod.mk.injEq] at he
        obtain ⟨_, rfl, rfl⟩ := he
        exact ⟨fun a ha => (by cases ha), fun a ha => (hcur n [] (t :: ro) rfl).2 a (List.mem_cons_of_mem _ ha)⟩
      · intro x hx; exact hexO x hx
      · intro x hx
        have := hexI x hx
        simp only [remIn, cnt_cons] at this ⊢
        by_cases e : x = t
        · subst e; rw [upd_same]; simp only [if_true] at this; omega
        · rw [upd_other _ _ _ e]
          have : ¬ (t = x) := fun h => e h.symm
          simp only [this, if_false] at *
          omega
      · intro x hx
        have hle : ∀ y, upd indeg t (indeg t - 1) y ≤ indeg y := by
          intro y; by_cases e : y = t
          · subst e; rw [upd_same]; omega
          · rw [upd_other _ _ _ e]; exact Int.le_refl _
        split at hx
        · rcases List.mem_append.1 hx with h1 | h1
          · have := hqsr x h1; have := hle x; omega
          · have : x = t := by simpa using h1
            subst this; rename_i hc; exact hc.1
        · have := hqsr x hx; have := hle x; omega
      · intro x hx
        split at hx
        · rcases List.mem_append.1 hx with h1 | h1
          · exact hquna x (List.mem_append_left _ h1)
          · rcases List.mem_append.1 h1 with h2 | h2
            · exact hquna x (List.mem_append_right _ h2)
            · have : x = t := by simpa using h2
              subst this; exact ht_una
        · exact hquna x hx
      · split
        · rename_i hc
          have ht_sk : t ∉ sinks := fun hh => by have := hqsk t hh; omega
          exact nodup_insert_end hqnd ht_sk ht_sr
        · exact hqnd
  | some (n, [], []), hexO, hexI, hcur, h =>
    simp only [Option.some.injEq] at h; subst h
    refine ⟨?_, ?_, hqsk, hqsr, hquna, hqnd, hpart, hdisj, hasg, huna, fun _ _ _ he => by cases he⟩
    · intro x hx
      have := hexO x hx
      simp only [remOut, cnt, List.count_nil] at this ⊢; omega
    · intro x hx
      have := hexI x hx
      simp only [remIn, cnt, List.count_nil] at this ⊢; omega
  | none, hexO, hexI, hcur, h =>
    dsimp only at h
    match mode, hm, h with
    | .A, _, h =>
      dsimp only at h
      match sinks, hqsk, hquna, hqnd, h with
      | [], hqsk, hquna, hqnd, h =>
        simp only [Option.some.injEq] at h; subst h
        exact ⟨hexO, hexI, hqsk, hqsr, hquna, hqnd, hpart, hdisj, hasg, huna, hcur⟩
      | s :: q, hqsk, hquna, hqnd, h =>
        simp only [Option.some.injEq] at h; subst h
        have hs_una : s ∈ una := hquna s (by simp)
        have hs_rest : s ∉ q ++ sources := by
          have := List.nodup_cons.1 (by simpa using hqnd : (s :: (q ++ sources)).Nodup)
          exact this.1
        refine ⟨?_, ?_, fun x hx => hqsk x (List.mem_cons_of_mem _ hx), hqsr, ?_, ?_, ?_, ?_, ?_, huna.erase s, ?cu⟩ <;> dsimp only
        case cu =>
          intro n' ri' ro' he
          simp only [Option.some.injEq, Prod.mk.injEq] at he
          obtain ⟨rfl, rfl, rfl⟩ := he
          exact ⟨hins s, houts s⟩
        · intro x hx
          have hx' : x ∈ una := List.mem_of_mem_erase hx
          have := hexO x hx'
          simp only [remOut] at this ⊢
          rw [this, sum_erase (fun t => cnt (ins t) x) una s hs_una]; omega
        · intro x hx
          have hx' : x ∈ una := List.mem_of_mem_erase hx
          have := hexI x hx'
          simp only [remIn] at this ⊢
          rw [this, sum_erase (fun s' => cnt (outs s') x) una s hs_una]; omega
        · intro x hx
          have hne : x ≠ s := fun e => hs_rest (e ▸ hx)
          exact (List.mem_erase_of_ne hne).2 (hquna x (by simp at hx ⊢; exact .inr hx))
        · have := List.nodup_cons.1 (by simpa using hqnd : (s :: (q ++ sources)).Nodup)
          exact this.2
        · intro x hx
          by_cases e : x = s
          · subst e; exact .inr (List.mem_cons_self ..)
          · rcases hpart x hx with h1 | h1
            · exact .inl ((List.mem_erase_of_ne e).2 h1)
            · exact .inr (List.mem_cons_of_mem _ h1)
        · intro x hx hmem
          have hx' : x ∈ una := List.mem_of_mem_erase hx
          rcases List.mem_cons.1 hmem with h1 | h1
          · subst h1; exact (List.Nodup.mem_erase_iff huna).1 hx |>.1 rfl
          · exact hdisj x hx' h1
        · exact List.nodup_cons.2 ⟨hdisj s hs_una, hasg⟩
    | .B, _, h =>
      dsimp only at h
      match sources, hqsr, hquna, hqnd, h with
      | [], hqsr, hquna, hqnd, h =>
        simp only [Option.some.injEq] at h; subst h
        exact ⟨hexO, hexI, hqsk, hqsr, hquna, hqnd, hpart, hdisj, hasg, huna, hcur⟩
      | s :: q, hqsr, hquna, hqnd, h =>
        simp only [Option.some.injEq] at h; subst h
        have hs_una : s ∈ una := hquna s (by simp)
        have hperm : (sinks ++ s :: q).Perm (s :: (sinks ++ q)) := List.perm_middle
        have hnd' := hperm.nodup_iff.1 hqnd
        have hs_rest : s ∉ sinks ++ q := (List.nodup_cons.1 hnd').1
        refine ⟨?_, ?_, hqsk, fun x hx => hqsr x (List.mem_cons_of_mem _ hx), ?_, (List.nodup_cons.1 hnd').2, ?_, ?_, ?_, huna.erase s, ?cu⟩ <;> dsimp only
        case cu =>
          intro n' ri' ro' he
          simp only [Option.some.injEq, Prod.mk.injEq] at he
          obtain ⟨rfl, rfl, rfl⟩ := he
          exact ⟨hins s, houts s⟩
        · intro x hx
          have hx' : x ∈ una := List.mem_of_mem_erase hx
          have := hexO x hx'
          simp only [remOut] at this ⊢
          rw [this, sum_erase (fun t => cnt (ins t) x) una s hs_una]; omega
        · intro x hx
          have hx' : x ∈ una := List.mem_of_mem_erase hx
          have := hexI x hx'
          simp only [remIn] at this ⊢
          rw [this, sum_erase (fun s' => cnt (outs s') x) una s hs_una]; omega
        · intro x hx
          have hne : x ≠ s := fun e => hs_rest (e ▸ hx)
          refine (List.mem_erase_of_ne hne).2 (hquna x ?_)
          rcases List.mem_append.1 hx with h1 | h1
          · exact List.mem_append_left _ h1
          · exact List.mem_append_right _ (List.mem_cons_of_mem _ h1)
        · intro x hx
          by_cases e : x = s
          · subst e; exact .inr (List.mem_cons_self ..)
          · rcases hpart x hx with h1 | h1
            · exact .inl ((List.mem_erase_of_ne e).2 h1)
            · exact .inr (List.mem_cons_of_mem _ h1)
        · intro x hx hmem
          have hx' : x ∈ una := List.mem_of_mem_erase hx
          rcases List.mem_cons.1 hmem with h1 | h1
          · subst h1; exact (List.Nodup.mem_erase_iff huna).1 hx |>.1 rfl
          · exact hdisj x hx' h1
        · exact List.nodup_cons.2 ⟨hdisj s hs_una, hasg⟩
end


/-! ### mode C and the final count -/

/-- what is needed once the queues are no longer popped -/
structure CInv (ns : List Nat) (c : Cfg) : Prop where
  part  : ∀ x ∈ ns, x ∈ c.una ∨ x ∈ c.asg
  disj  : ∀ x ∈ c.una, x ∉ c.asg
  asgnd : c.asg.Nodup
  unand : c.una.Nodup
  asub  : ∀ x ∈ c.asg, x ∈ ns
  usub  : ∀ x ∈ c.una, x ∈ ns

/-- the loop counter: `i` lags one behind while updateNeighbors is running -/
def Count (n : Nat) (c : Cfg) : Prop :=
  c.i + (c.asg.length : Int) = (n : Int) + (if c.cur.isSome then 1 else 0)

section
variable {ins outs : Nat → List Nat} {ns : List Nat} {pick : Cfg → Nat}

theorem step_count (n : Nat) (c c' : Cfg) (hc : Count n c) (h : step ins outs pick c = some c') : Count n c' := by
  obtain ⟨mode, cur, asg, sinks, sources, outdeg, indeg, i, una⟩ := c
  unfold Count at *
  unfold step at h
  dsimp only at hc h
  match cur, hc, h with
  | some (m, s :: ri, ro), hc, h =>
    dsimp only at h
    split at h <;> (simp only [Option.some.injEq] at h; subst h; simpa using hc)
  | some (m, [], t :: ro), hc, h =>
    dsimp only at h
    split at h <;> (simp only [Option.some.injEq] at h; subst h; simpa using hc)
  | some (m, [], []), hc, h =>
    simp only [Option.some.injEq] at h; subst h
    simp at hc ⊢; omega
  | none, hc, h =>
    dsimp only at h
    match mode, h with
    | .A, h =>
      dsimp only at h
      match sinks, h with
      | [], h => simp only [Option.some.injEq] at h; subst h; simpa using hc
      | s :: q, h => simp only [Option.some.injEq] at h; subst h; simp at hc ⊢; omega
    | .B, h =>
      dsimp only at h
      match sources, h with
      | [], h => simp only [Option.some.injEq] at h; subst h; simpa using hc
      | s :: q, h => simp only [Option.some.injEq] at h; subst h; simp at hc ⊢; omega
    | .C, h =>
      dsimp only at h
      split at h
      · simp only [Option.some.injEq] at h; subst h; simp at hc ⊢; omega
      · cases h

theorem CInv.congr {ns : List Nat} {c c' : Cfg} (hI : CInv ns c) (ha : c'.asg = c.asg) (hu : c'.una = c.una) : CInv ns c' := by
  obtain ⟨h1, h2, h3, h4, h5, h6⟩ := hI
  exact ⟨by rw [ha, hu]; exact h1, by rw [ha, hu]; exact h2, by rw [ha]; exact h3, by rw [hu]; exact h4,
         by rw [ha]; exact h5, by rw [hu]; exact h6⟩

theorem CInv.assign {ns : List Nat} {c c' : Cfg} (hI : CInv ns c) (s : Nat) (hs : s ∈ c.una)
    (ha : c'.asg = s :: c.asg) (hu : c'.una = c.una.erase s) : CInv ns c' := by
  obtain ⟨hpart, hdisj, hasg, huna, hasub, husub⟩ := hI
  refine ⟨?_, ?_, ?_, ?_, ?_, ?_⟩
  · intro x hx
    rw [ha, hu]
    by_cases e : x = s
    · subst e; exact .inr (List.mem_cons_self ..)
    · rcases hpart x hx with h1 | h1
      · exact .inl ((List.mem_erase_of_ne e).2 h1)
      · exact .inr (List.mem_cons_of_mem _ h1)
  · intro x hx hmem
    rw [hu] at hx; rw [ha] at hmem
    rcases List.mem_cons.1 hmem with h1 | h1
    · subst h1; exact (List.Nodup.mem_erase_iff huna).1 hx |>.1 rfl
    · exact hdisj x (List.mem_of_mem_erase hx) h1
  · rw [ha]; exact List.nodup_cons.2 ⟨hdisj s hs, hasg⟩
  · rw [hu]; exact huna.erase s
  · intro x hx
    rw [ha] at hx
    rcases List.mem_cons.1 hx with h1 | h1
    · subst h1; exact husub x hs
    · exact hasub x h1
  · intro x hx; rw [hu] at hx; exact husub x (List.mem_of_mem_erase hx)

/-- all steps keep CInv, provided queue members (modes A/B) and picks (mode C) are unassigned nodes -/
theorem step_cinv (c c' : Cfg) (hI : CInv ns c)
    (hq : c.mode ≠ .C → ∀ x ∈ c.sinks ++ c.sources, x ∈ c.una)       -- from GInv in modes A/B
    (hpick : c.mode = .C → c.cur = none → 0 < c.i → pick c ∈ c.una)
    (h : step ins outs pick c = some c') : CInv ns c' := by
  obtain ⟨mode, cur, asg, sinks, sources, outdeg, indeg, i, una⟩ := c
  dsimp only at hq hpick
  unfold step at h
  match cur, hpick, h with
  | some (m, s :: ri, ro), _, h =>
    dsimp only at h
    split at h <;> (simp only [Option.some.injEq] at h; subst h; exact hI.congr rfl rfl)
  | some (m, [], t :: ro), _, h =>
    dsimp only at h
    split at h <;> (simp only [Option.some.injEq] at h; subst h; exact hI.congr rfl rfl)
  | some (m, [], []), _, h =>
    simp only [Option.some.injEq] at h; subst h
    exact hI.congr rfl rfl
  | none, hpick, h =>
    dsimp only at h
    match mode, hq, hpick, hI, h with
    | .A, hq, _, hI, h =>
      dsimp only at h
      match sinks, hq, hI, h with
      | [], _, hI, h => simp only [Option.some.injEq] at h; subst h; exact hI.congr rfl rfl
      | s :: q, hq, hI, h =>
        simp only [Option.some.injEq] at h; subst h
        exact hI.assign s (hq (by decide) s (by simp)) rfl rfl
    | .B, hq, _, hI, h =>
      dsimp only at h
      match sources, hq, hI, h with
      | [], _, hI, h => simp only [Option.some.injEq] at h; subst h; exact hI.congr rfl rfl
      | s :: q, hq, hI, h =>
        simp only [Option.some.injEq] at h; subst h
        exact hI.assign s (hq (by decide) s (by simp)) rfl rfl
    | .C, _, hpick, hI, h =>
      dsimp only at h
      split at h
      · rename_i hi
        simp only [Option.some.injEq] at h; subst h
        exact hI.assign _ (hpick rfl rfl hi) rfl rfl
      · cases h
end

/-- pigeonhole: a duplicate-free sublist-by-membership that is at least as long contains everything -/
theorem subset_of_nodup_length {l₁ l₂ : List Nat} (hnd : l₁.Nodup) (hsub : l₁ ⊆ l₂) (hlen : l₂.length ≤ l₁.length) :
    l₂ ⊆ l₁ := by
  intro x hx
  apply Classical.byContradiction
  intro hnx
  have h1 : l₁ ⊆ l₂.erase x := by
    intro y hy
    have : y ≠ x := fun e => hnx (e ▸ hy)
    exact (List.mem_erase_of_ne this).2 (hsub hy)
  have h2 := hnd.length_le_of_subset h1
  have h3 := List.length_erase_of_mem hx
  have : 0 < l₂.length := List.length_pos_of_mem hx
  omega

/-- C01 (greedy): when the ranking loop exits, every node has been assigned exactly once -/
theorem all_assigned_once {ins outs : Nat → List Nat} {ns : List Nat} {pick : Cfg → Nat}
    (c : Cfg) (hI : CInv ns c) (hc : Count ns.length c)
    (hexit : step ins outs pick c = none) :
    c.asg.Nodup ∧ (∀ x ∈ ns, x ∈ c.asg) ∧ c.asg.length = ns.length := by
  obtain ⟨mode, cur, asg, sinks, sources, outdeg, indeg, i, una⟩ := c
  -- the only way out is mode C with no updateNeighbors pending and i ≤ 0
  have hform : cur = none ∧ i ≤ 0 := by
    unfold step at hexit
    dsimp only at hexit
    match cur, hexit with
    | some (m, s :: ri, ro), h => dsimp only at h; split at h <;> cases h
    | some (m, [], t :: ro), h => dsimp only at h; split at h <;> cases h
    | some (m, [], []), h => cases h
    | none, h =>
      dsimp only at h
      match mode, h with
      | .A, h => dsimp only at h; match sinks, h with
        | [], h => cases h
        | _ :: _, h => cases h
      | .B, h => dsimp only at h; match sources, h with
        | [], h => cases h
        | _ :: _, h => cases h
      | .C, h =>
        dsimp only at h
        split at h
        · cases h
        · rename_i hi; exact ⟨rfl, by omega⟩
  obtain ⟨rfl, hi⟩ := hform
  unfold Count at hc
  dsimp only at hc
  simp at hc
  have hsub : asg ⊆ ns := hI.asub
  have hnd : asg.Nodup := hI.asgnd
  have hle : asg.length ≤ ns.length := hnd.length_le_of_subset hsub
  have hlen : ns.length ≤ asg.length := by omega
  exact ⟨hnd, subset_of_nodup_length hnd hsub hlen, by show asg.length = ns.length; omega⟩

end Autog.GreedyAssignedOnce
