import Autog.Lemmas.LongestPath
import Autog.Lemmas.HasCyclesFuel
/-! Termination of the longest-path machine within an explicit budget on graphs with a rank witness (acyclic):
    same measure as for the cycle test — (out-degree + 2) per node without memo entry and not on the stack, (todo + 1)
    per frame. Core-only. -/

namespace Autog.LongestPath

variable (out : Nat → List Nat)

def stackNodes (st : List Frame) : List Nat := st.map (·.1)

def unseen (univ : List Nat) (c : Cfg) : List Nat :=
  univ.filter fun n => (look c.memo n).isNone && !(stackNodes c.stack).contains n

def wNode (n : Nat) : Nat := (out n).length + 2
def sumW (l : List Nat) : Nat := (l.map (wNode out)).sum
def sumF (st : List Frame) : Nat := (st.map fun f => f.2.1.length + 1).sum
def mu (univ : List Nat) (c : Cfg) : Nat := sumF c.stack + sumW out (unseen univ c)

theorem sumW_eq (l : List Nat) : sumW out l = DfsHasCyclesSound.sumW out l := rfl

/-- the light invariant needed for termination -/
structure JInv (rank : Nat → Nat) (univ : List Nat) (c : Cfg) : Prop where
  sfx   : ∀ f ∈ c.stack, ∀ m ∈ f.2.1, m ∈ out f.1
  ranks : List.Pairwise (fun a b => rank a < rank b) (stackNodes c.stack)
  fresh : ∀ f ∈ c.stack, look c.memo f.1 = none
  sub   : ∀ f ∈ c.stack, f.1 ∈ univ

theorem look_cons_isNone (memo : List (Nat × Nat)) (n h x : Nat) :
    (look ((n, h) :: memo) x).isNone = ((look memo x).isNone && (x != n)) := by
  simp only [look]
  by_cases e : n = x
  · subst e; simp
  · have : (x != n) = true := by simpa using fun h => e h.symm
    simp [e, this]

theorem unseen_pop (univ : List Nat) (n h : Nat) (r : List Nat) (tl : List Frame) (memo : List (Nat × Nat))
    (hfresh : look memo n = none) :
    unseen univ ⟨tl, (n, h) :: memo⟩ = unseen univ ⟨(n, r, h) :: tl, memo⟩ := by
  unfold unseen stackNodes
  apply List.filter_congr
  intro x _
  simp only [look_cons_isNone, List.map_cons, List.contains_cons]
  cases hx : (x == n)
  · simp [bne, hx]
  · have : x = n := by simpa using hx
    subst this
    simp [hfresh, bne]

theorem run_no_fuelOut (rank : Nat → Nat) (hR : ∀ v w, w ∈ out v → w ≠ v → rank w < rank v)
    (univ : List Nat) (hnd : univ.Nodup) (hadj : ∀ n ∈ univ, ∀ m ∈ out n, m ∈ univ) :
    ∀ (fuel : Nat) (c : Cfg), JInv out rank univ c → mu out univ c < fuel → run out fuel c ≠ none := by
  intro fuel
  induction fuel with
  | zero => intro c _ h; omega
  | succ fuel ih =>
    intro c hJ hmu
    obtain ⟨stack, memo⟩ := c
    match stack, hJ, hmu with
    | [], _, _ => simp [run]
    | [(n, [], h)], hJ, hmu =>
      simp only [run]
      apply ih
      · exact ⟨fun f hf => (by cases hf), List.Pairwise.nil, fun f hf => (by cases hf), fun f hf => (by cases hf)⟩
      · have hfr := hJ.fresh (n, [], h) (List.mem_cons_self ..)
        simp only [mu, sumF, List.map_cons, List.map_nil, List.sum_cons, List.sum_nil, List.length_nil] at hmu ⊢
        rw [unseen_pop univ n h [] [] memo hfr]; omega
    | (n, [], h) :: (p, ms, hp) :: tl, hJ, hmu =>
      simp only [run]
      have hfr := hJ.fresh (n, [], h) (List.mem_cons_self ..)
      have hrk := hJ.ranks
      simp only [stackNodes, List.map_cons, List.pairwise_cons] at hrk
      apply ih
      · refine ⟨fun f hf => ?_, ?_, fun f hf => ?_, fun f hf => ?_⟩
        · rcases List.mem_cons.1 hf with rfl | hf
          · exact hJ.sfx (p, ms, hp) (by simp)
          · exact hJ.sfx f (by simp [hf])
        · simpa [stackNodes] using hrk.2
        · have hne : f.1 ≠ n := by
            intro e
            have : f.1 ∈ (p :: tl.map (·.1)) := by
              rcases List.mem_cons.1 hf with rfl | hf
              · simp
              · exact List.mem_cons_of_mem _ (List.mem_map.2 ⟨f, hf, rfl⟩)
            have := hrk.1 f.1 this
            rw [e] at this; omega
          rw [look_cons_ne (fun e => hne e.symm)]
          rcases List.mem_cons.1 hf with rfl | hf
          · exact hJ.fresh (p, ms, hp) (by simp)
          · exact hJ.fresh f (by simp [hf])
        · rcases List.mem_cons.1 hf with rfl | hf
          · exact hJ.sub (p, ms, hp) (by simp)
          · exact hJ.sub f (by simp [hf])
      · simp only [mu, sumF, List.map_cons, List.sum_cons, List.length_nil] at hmu ⊢
        have e1 : unseen univ ⟨(p, ms, max hp (h + 1)) :: tl, (n, h) :: memo⟩ =
            unseen univ ⟨(n, [], h) :: (p, ms, hp) :: tl, memo⟩ :=
          unseen_pop univ n h [] ((p, ms, max hp (h + 1)) :: tl) memo hfr
        rw [e1]; omega
    | (n, m :: ms, h) :: tl, hJ, hmu =>
      simp only [run]
      have hsfx := hJ.sfx (n, m :: ms, h) (List.mem_cons_self ..)
      have retop : ∀ h', JInv out rank univ ⟨(n, ms, h') :: tl, memo⟩ := fun h' =>
        { sfx := fun f hf => by
            rcases List.mem_cons.1 hf with rfl | hf
            · exact fun x hx => hsfx x (List.mem_cons_of_mem _ hx)
            · exact hJ.sfx f (List.mem_cons_of_mem _ hf)
          ranks := hJ.ranks
          fresh := fun f hf => by
            rcases List.mem_cons.1 hf with rfl | hf
            · exact hJ.fresh (n, m :: ms, h) (List.mem_cons_self ..)
            · exact hJ.fresh f (List.mem_cons_of_mem _ hf)
          sub := fun f hf => by
            rcases List.mem_cons.1 hf with rfl | hf
            · exact hJ.sub (n, m :: ms, h) (List.mem_cons_self ..)
            · exact hJ.sub f (List.mem_cons_of_mem _ hf) }
      have hmu' : ∀ h', mu out univ ⟨(n, ms, h') :: tl, memo⟩ < fuel := by
        intro h'
        simp only [mu, sumF, List.map_cons, List.sum_cons, List.length_cons] at hmu ⊢
        have : unseen univ ⟨(n, ms, h') :: tl, memo⟩ = unseen univ ⟨(n, m :: ms, h) :: tl, memo⟩ := rfl
        rw [this]; omega
      by_cases hmn : m = n
      · rw [if_pos hmn]; exact ih _ (retop h) (hmu' h)
      · rw [if_neg hmn]
        cases hl : look memo m with
        | some hm => simp only []; exact ih _ (retop _) (hmu' _)
        | none =>
          simp only []
          have hm_out : m ∈ out n := hsfx m (List.mem_cons_self ..)
          have hn_univ := hJ.sub (n, m :: ms, h) (List.mem_cons_self ..)
          have hm_univ : m ∈ univ := hadj n hn_univ m hm_out
          have hrank : rank m < rank n := hR n m hm_out hmn
          have hrk := hJ.ranks
          simp only [stackNodes, List.map_cons, List.pairwise_cons] at hrk
          have hm_stack : m ∉ stackNodes ((n, ms, h) :: tl) := by
            simp only [stackNodes, List.map_cons, List.mem_cons]
            rintro (e | e)
            · omega
            · have := hrk.1 m e; omega
          apply ih
          · refine ⟨fun f hf => ?_, ?_, fun f hf => ?_, fun f hf => ?_⟩
            · rcases List.mem_cons.1 hf with rfl | hf
              · exact fun x hx => hx
              · exact (retop h).sfx f hf
            · simp only [stackNodes, List.map_cons, List.pairwise_cons]
              refine ⟨fun x hx => ?_, hrk⟩
              rcases List.mem_cons.1 hx with rfl | hx
              · exact hrank
              · exact Nat.lt_trans hrank (hrk.1 x hx)
            · rcases List.mem_cons.1 hf with rfl | hf
              · exact hl
              · exact (retop h).fresh f hf
            · rcases List.mem_cons.1 hf with rfl | hf
              · exact hm_univ
              · exact (retop h).sub f hf
          · have hp : ((look memo m).isNone && !(stackNodes ((n, ms, h) :: tl)).contains m) = true := by
              have e2 : (stackNodes ((n, ms, h) :: tl)).contains m = false := by simpa using hm_stack
              rw [hl, e2]; rfl
            have hrem := DfsHasCyclesSound.sumW_filter_remove out univ hnd
              (fun x => (look memo x).isNone && !(stackNodes ((n, ms, h) :: tl)).contains x) m hm_univ hp
            have hnew : unseen univ ⟨(m, out m, 1) :: (n, ms, h) :: tl, memo⟩ =
                univ.filter fun x => ((look memo x).isNone && !(stackNodes ((n, ms, h) :: tl)).contains x) && x != m := by
              unfold unseen stackNodes
              apply List.filter_congr
              intro x _
              simp only [List.map_cons, List.contains_cons, bne]
              cases (x == m) <;> cases ((look memo x).isNone) <;> cases ((x == n) || (List.map (fun f => f.1) tl).contains x) <;> rfl
            have hold : unseen univ ⟨(n, m :: ms, h) :: tl, memo⟩ =
                univ.filter fun x => (look memo x).isNone && !(stackNodes ((n, ms, h) :: tl)).contains x := rfl
            simp only [mu, sumF, List.map_cons, List.sum_cons, List.length_cons] at hmu ⊢
            rw [hnew]
            rw [hold] at hmu
            simp only [sumW_eq, DfsHasCyclesSound.wNode] at hrem hmu ⊢
            omega

end Autog.LongestPath
