/-! Spike (C12, continued): inversions of the target sequence = crossings, for a lexicographically sorted,
    duplicate-free list of (upper position, lower position) pairs. Core-only. -/


namespace Autog.InversionsAreCrossings

/-- number of earlier elements greater than each later one; the head of the list is the LAST inserted -/
def inversions : List Nat → Nat
  | [] => 0
  | p :: ps => inversions ps + ps.countP (fun q => decide (p < q))

/-- two edges cross: their ends are ordered oppositely -/
def crossP (e f : Nat × Nat) : Bool := (decide (e.1 < f.1) && decide (f.2 < e.2)) || (decide (f.1 < e.1) && decide (e.2 < f.2))

theorem crossP_symm (e f : Nat × Nat) : crossP e f = crossP f e := by
  unfold crossP; rw [Bool.or_comm]

/-- crossing pairs of a list of edges: each unordered pair once -/
def crossings : List (Nat × Nat) → Nat
  | [] => 0
  | e :: es => crossings es + es.countP (crossP e)

/-- the count does not depend on the order of the edges -/
theorem crossings_perm : ∀ {l₁ l₂ : List (Nat × Nat)}, l₁.Perm l₂ → crossings l₁ = crossings l₂ := by
  intro l₁ l₂ h
  induction h with
  | nil => rfl
  | cons x hp ih => simp only [crossings, ih, hp.countP_eq]
  | swap x y l =>
    simp only [crossings, List.countP_cons, crossP_symm x y]
    omega
  | trans _ _ ih1 ih2 => rw [ih1, ih2]

/-- sorted in DEcreasing lexicographic order from the head (the head is the last inserted = the largest) -/
def LexSorted : List (Nat × Nat) → Prop
  | [] => True
  | e :: es => (∀ f ∈ es, f.1 < e.1 ∨ (f.1 = e.1 ∧ f.2 < e.2)) ∧ LexSorted es

/-- for a lex-sorted list the inversions of the lower positions are the crossings -/
theorem inversions_eq_crossings : ∀ (es : List (Nat × Nat)), LexSorted es →
    inversions (es.map (·.2)) = crossings es
  | [], _ => rfl
  | e :: es, h => by
    obtain ⟨h1, h2⟩ := h
    simp only [List.map_cons, inversions, crossings, inversions_eq_crossings es h2]
    congr 1
    rw [List.countP_map]
    apply List.countP_congr
    intro f hf
    simp only [Function.comp, crossP, decide_eq_true_eq, Bool.or_eq_true, Bool.and_eq_true]
    rcases h1 f hf with h | ⟨h3, h4⟩
    · constructor
      · intro hh; exact .inr ⟨h, hh⟩
      · rintro (⟨h5, _⟩ | ⟨_, h6⟩)
        · omega
        · exact h6
    · constructor
      · intro hh; omega
      · rintro (⟨h5, _⟩ | ⟨h5, _⟩) <;> omega


#eval crossings [(0, 2), (1, 0), (1, 3), (2, 1)]          -- 3
#eval inversions ([(2, 1), (1, 3), (1, 0), (0, 2)].map (·.2))   -- 3 (list given last-inserted first)

end Autog.InversionsAreCrossings
