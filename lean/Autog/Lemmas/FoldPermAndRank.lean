/-! Spike: small reusable lemmas. Core-only. -/


namespace Autog.FoldPermAndRank

/-! ## C07: ranging over a map in any order — right-commutative bodies -/

/-- a fold with a right-commutative step does not depend on the order of the entries -/
theorem foldl_perm {α β} (f : β → α → β) (hcomm : ∀ b x y, f (f b x) y = f (f b y) x) :
    ∀ {l₁ l₂ : List α}, l₁.Perm l₂ → ∀ b, l₁.foldl f b = l₂.foldl f b := by
  intro l₁ l₂ h
  induction h with
  | nil => intro b; rfl
  | cons x _ ih => intro b; simp only [List.foldl_cons]; exact ih _
  | swap x y l => intro b; simp only [List.foldl_cons]; rw [hcomm]
  | trans _ _ ih1 ih2 => intro b; rw [ih1, ih2]

def upd {β} (f : Nat → β) (k : Nat) (v : β) : Nat → β := fun x => if x = k then v else f x

/-- phase2 `for n := range treeNodes { n.Layer += d }` -/
def shiftStep (d : Int) (y : Nat → Int) (n : Nat) : Nat → Int := upd y n (y n + d)

theorem shiftStep_comm (d : Int) (y : Nat → Int) (a b : Nat) :
    shiftStep d (shiftStep d y a) b = shiftStep d (shiftStep d y b) a := by
  by_cases hab : a = b
  · subst hab; rfl
  · have hba : ¬ b = a := fun h => hab h.symm
    funext x
    simp only [shiftStep, upd]
    by_cases h1 : x = a
    · subst h1; simp [hab, hba]
    · by_cases h2 : x = b
      · subst h2; simp [hab, hba]
      · simp [h1, h2]

/-- the tree-node shift is the same for every iteration order of the set -/
theorem shift_order_irrelevant (d : Int) (y : Nat → Int) {l₁ l₂ : List Nat} (h : l₁.Perm l₂) :
    l₁.foldl (shiftStep d) y = l₂.foldl (shiftStep d) y :=
  foldl_perm _ (fun b x y => shiftStep_comm d b x y) h y

/-- phase4 `for n, x := range xcoord { blockmax[root n] = max(blockmax[root n], x) }` over Int for the spike -/
def maxStep (root : Nat → Nat) (bm : Nat → Int) (nx : Nat × Int) : Nat → Int :=
  upd bm (root nx.1) (max (bm (root nx.1)) nx.2)

theorem maxStep_comm (root : Nat → Nat) (bm : Nat → Int) (a b : Nat × Int) :
    maxStep root (maxStep root bm a) b = maxStep root (maxStep root bm b) a := by
  funext x
  simp only [maxStep, upd]
  by_cases hab : root a.1 = root b.1
  · rw [hab]
    by_cases h1 : x = root b.1
    · simp [h1]; omega
    · simp [h1]
  · have hba : ¬ root b.1 = root a.1 := fun h => hab h.symm
    by_cases h1 : x = root a.1
    · subst h1; simp [hab, hba]
    · by_cases h2 : x = root b.1
      · subst h2; simp [hab, hba]
      · simp [h1, h2]

theorem blockmax_order_irrelevant (root : Nat → Nat) (bm : Nat → Int) {l₁ l₂ : List (Nat × Int)} (h : l₁.Perm l₂) :
    l₁.foldl (maxStep root) bm = l₂.foldl (maxStep root) bm :=
  foldl_perm _ (fun b x y => maxStep_comm root b x y) h bm

/-- B&K `Size()`: min/max over the map -/
theorem minmax_order_irrelevant {l₁ l₂ : List Int} (h : l₁.Perm l₂) (a : Int) :
    l₁.foldl min a = l₂.foldl min a ∧ l₁.foldl max a = l₂.foldl max a :=
  ⟨foldl_perm _ (fun b x y => by omega) h a, foldl_perm _ (fun b x y => by omega) h a⟩

/-! ## a strictly decreasing rank excludes closed walks -/

/-- a walk: consecutive nodes joined by an edge of `adj` -/
inductive Walk (adj : Nat → List Nat) : Nat → Nat → Prop
  | single {a b} : b ∈ adj a → Walk adj a b
  | cons {a b c} : b ∈ adj a → Walk adj b c → Walk adj a c

theorem rank_walk {adj : Nat → List Nat} (rank : Nat → Nat) (hr : ∀ a, ∀ b ∈ adj a, rank b < rank a) :
    ∀ {a b}, Walk adj a b → rank b < rank a := by
  intro a b w
  induction w with
  | single h => exact hr _ _ h
  | cons h _ ih => exact Nat.lt_trans ih (hr _ _ h)

/-- acyclic: no closed walk -/
theorem no_cycle_of_rank {adj : Nat → List Nat} (rank : Nat → Nat) (hr : ∀ a, ∀ b ∈ adj a, rank b < rank a) :
    ∀ a, ¬ Walk adj a a := fun a w => Nat.lt_irrefl _ (rank_walk rank hr w)

end Autog.FoldPermAndRank
