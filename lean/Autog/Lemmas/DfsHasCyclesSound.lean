/-! Spike (C14a): soundness of phase1/cycle.go — if the model answers "cycle" there is a closed walk.
    Same machine as DfsHasCycles.lean. Core-only. -/


namespace Autog.DfsHasCyclesSound

abbrev Frame := Nat × List Nat

structure Cfg where
  stack : List Frame
  fin   : List Nat

inductive Res where
  | cyc (n m : Nat) (stack : List Frame)     -- `return true`, with the evidence
  | done (fin : List Nat)
  | fuelOut

def run (adj : Nat → List Nat) : Nat → Cfg → Res
  | 0, _ => .fuelOut
  | _+1, ⟨[], fin⟩ => .done fin
  | fuel+1, ⟨(n, []) :: tl, fin⟩ => run adj fuel ⟨tl, n :: fin⟩
  | fuel+1, ⟨(n, m :: ms) :: tl, fin⟩ =>
    if (n :: tl.map Prod.fst).contains m then .cyc n m tl
    else if fin.contains m then run adj fuel ⟨(n, ms) :: tl, fin⟩
    else run adj fuel ⟨(m, adj m) :: (n, ms) :: tl, fin⟩

/-- reachability in ≥ 1 steps -/
inductive Reach (adj : Nat → List Nat) : Nat → Nat → Prop
  | step {a b} : b ∈ adj a → Reach adj a b
  | trans {a b c} : Reach adj a b → Reach adj b c → Reach adj a c

/-- each frame's todo list is a suffix of its adjacency list, and each frame's node is a
    neighbour of the node of the frame below it -/
def Chain (adj : Nat → List Nat) : List Frame → Prop
  | [] => True
  | [(n, rest)] => ∃ pre, adj n = pre ++ rest
  | (c, rest) :: (p, rp) :: tl => (∃ pre, adj c = pre ++ rest) ∧ c ∈ adj p ∧ Chain adj ((p, rp) :: tl)

theorem Chain.tail {adj} : ∀ {f tl}, Chain adj (f :: tl) → Chain adj tl
  | _, [], _ => trivial
  | (_, _), (_, _) :: _, h => h.2.2

theorem Chain.head {adj n rest tl} (h : Chain adj ((n, rest) :: tl)) : ∃ pre, adj n = pre ++ rest := by
  cases tl with
  | nil => exact h
  | cons f tl => obtain ⟨p, rp⟩ := f; exact h.1

theorem Chain.retarget {adj n rest rest' tl} (h : Chain adj ((n, rest) :: tl))
    (h' : ∃ pre, adj n = pre ++ rest') : Chain adj ((n, rest') :: tl) := by
  cases tl with
  | nil => exact h'
  | cons f tl => obtain ⟨p, rp⟩ := f; exact ⟨h', h.2.1, h.2.2⟩

/-- every node lower in the stack reaches the top node -/
theorem Chain.reach {adj} : ∀ {n rest tl}, Chain adj ((n, rest) :: tl) → ∀ x ∈ tl.map Prod.fst, Reach adj x n
  | _, _, [], _, x, hx => by cases hx
  | n, rest, (p, rp) :: tl, h, x, hx => by
    obtain ⟨_, hnp, htl⟩ := h
    rcases List.mem_cons.1 hx with rfl | hx
    · exact .step hnp
    · exact .trans (Chain.reach htl x hx) (.step hnp)

theorem run_cyc (adj : Nat → List Nat) : ∀ (fuel : Nat) (c : Cfg) (n m : Nat) (st : List Frame),
    Chain adj c.stack → run adj fuel c = .cyc n m st → Reach adj m m := by
  intro fuel
  induction fuel with
  | zero => intro c n m st _ h; simp [run] at h
  | succ fuel ih =>
    intro c n m st hc h
    obtain ⟨stack, fin⟩ := c
    match stack, hc, h with
    | [], _, h => simp [run] at h
    | (n', []) :: tl, hc, h =>
      simp only [run] at h
      exact ih ⟨tl, n' :: fin⟩ n m st hc.tail h
    | (n', m' :: ms) :: tl, hc, h =>
      simp only [run] at h
      obtain ⟨pre, hpre⟩ := hc.head
      have hm' : m' ∈ adj n' := by rw [hpre]; simp
      have hnext : ∃ pre, adj n' = pre ++ ms := ⟨pre ++ [m'], by simp [hpre]⟩
      split at h
      · -- found: m' is n' itself or lower in the stack
        rename_i hmem
        simp only [Res.cyc.injEq] at h
        obtain ⟨rfl, rfl, rfl⟩ := h
        have : m' ∈ n' :: tl.map Prod.fst := by simpa using hmem
        rcases List.mem_cons.1 this with rfl | hx
        · exact .step hm'
        · exact .trans (hc.reach m' hx) (.step hm')
      · split at h
        · exact ih ⟨(n', ms) :: tl, fin⟩ n m st (hc.retarget hnext) h
        · refine ih ⟨(m', adj m') :: (n', ms) :: tl, fin⟩ n m st ?_ h
          exact ⟨⟨[], rfl⟩, hm', hc.retarget hnext⟩

end Autog.DfsHasCyclesSound
