import Autog.Lemmas.ComponentsDfs
/-! Termination of the component walk `connected.walkDfs` within an explicit budget. The walk recurses once per EDGE it marks
    (not once per node), so the measure charges every still unmarked edge `w e`, at least one more than the number of
    incident edges of either end, plus (todo + 1) per stack frame; every step lowers it. Core-only. -/

namespace Autog.ComponentsDfs

def sumBy (w : Nat → Nat) (l : List Nat) : Nat := (l.map w).sum
def sumFr (st : List Frame) : Nat := (st.map fun f => f.2.length + 1).sum

def unmarked (univ : List Nat) (ve : List Nat) : List Nat := univ.filter fun e => !ve.contains e

def mu (w : Nat → Nat) (univ : List Nat) (c : Cfg) : Nat := sumFr c.stack + sumBy w (unmarked univ c.visE)

theorem sumBy_filter_remove (w : Nat → Nat) (univ : List Nat) (hnd : univ.Nodup) (p : Nat → Bool) (m : Nat) (hm : m ∈ univ)
    (hp : p m = true) : sumBy w (univ.filter fun n => p n && n != m) + w m = sumBy w (univ.filter p) := by
  induction univ with
  | nil => cases hm
  | cons a l ih =>
    have hnd' := List.nodup_cons.1 hnd
    by_cases ham : a = m
    · subst ham
      have hrest : (l.filter fun n => p n && n != a) = l.filter p := by
        apply List.filter_congr
        intro x hx
        have : x ≠ a := fun e => hnd'.1 (e ▸ hx)
        simp [this]
      simp only [List.filter_cons, hp, bne_self_eq_false, Bool.and_false, Bool.false_eq_true, if_false, if_true, hrest]
      simp only [sumBy, List.map_cons, List.sum_cons]; omega
    · have hml : m ∈ l := by
        rcases List.mem_cons.1 hm with e | e
        · exact absurd e.symm ham
        · exact e
      have := ih hnd'.2 hml
      have hne : (a != m) = true := by simpa using ham
      simp only [List.filter_cons, hne, Bool.and_true]
      by_cases hpa : p a = true
      · simp only [hpa, if_true, sumBy, List.map_cons, List.sum_cons] at this ⊢
        omega
      · have hpa' : p a = false := by simpa using hpa
        simp only [hpa', Bool.false_eq_true, if_false]; exact this

theorem sumBy_filter_le (w : Nat → Nat) (p : Nat → Bool) : ∀ (l : List Nat), sumBy w (l.filter p) ≤ sumBy w l
  | [] => Nat.le_refl _
  | a :: l => by
    have ih := sumBy_filter_le w p l
    simp only [List.filter_cons]
    split
    · simp only [sumBy, List.map_cons, List.sum_cons] at ih ⊢; omega
    · simp only [sumBy, List.map_cons, List.sum_cons] at ih ⊢; omega

theorem unmarked_cons (univ : List Nat) (ve : List Nat) (e : Nat) :
    unmarked univ (e :: ve) = univ.filter fun x => (!ve.contains x) && x != e := by
  unfold unmarked
  apply List.filter_congr
  intro x _
  simp only [List.contains_cons, bne]
  cases (x == e) <;> cases (ve.contains x) <;> rfl

/-- the walk does not run out of fuel when it has more than `mu` -/
theorem run_some (inc : Nat → List Inc) (w : Nat → Nat) (univ : List Nat) (hnd : univ.Nodup)
    (hw : ∀ n, ∀ em ∈ inc n, em.1 ∈ univ ∧ (inc em.2).length + 1 ≤ w em.1) :
    ∀ (fuel : Nat) (c : Cfg), (∀ f ∈ c.stack, ∀ em ∈ f.2, em ∈ inc f.1) → mu w univ c < fuel →
      ∃ c', run inc fuel c = some c' := by
  intro fuel
  induction fuel with
  | zero => intro c _ h; omega
  | succ fuel ih =>
    intro c hst hmu
    obtain ⟨stack, vn, ve⟩ := c
    match stack, hst, hmu with
    | [], _, _ => exact ⟨⟨[], vn, ve⟩, by simp [run]⟩
    | (n, []) :: tl, hst, hmu =>
      simp only [run]
      apply ih
      · exact fun f hf => hst f (List.mem_cons_of_mem _ hf)
      · simp only [mu, sumFr, List.map_cons, List.sum_cons, List.length_nil] at hmu ⊢; omega
    | (n, (e, m) :: ms) :: tl, hst, hmu =>
      simp only [run]
      have htop := hst (n, (e, m) :: ms) (List.mem_cons_self ..)
      by_cases hve : ve.contains e = true
      · rw [if_pos hve]
        apply ih
        · intro f hf
          rcases List.mem_cons.1 hf with rfl | hf
          · exact fun em hem => htop em (List.mem_cons_of_mem _ hem)
          · exact hst f (List.mem_cons_of_mem _ hf)
        · simp only [mu, sumFr, List.map_cons, List.sum_cons, List.length_cons] at hmu ⊢; omega
      · rw [if_neg hve]
        have hem : (e, m) ∈ inc n := htop (e, m) (List.mem_cons_self ..)
        obtain ⟨heu, hwe⟩ := hw n (e, m) hem
        apply ih
        · intro f hf
          rcases List.mem_cons.1 hf with rfl | hf
          · exact fun em hem => hem
          · rcases List.mem_cons.1 hf with rfl | hf
            · exact fun em hem => htop em (List.mem_cons_of_mem _ hem)
            · exact hst f (List.mem_cons_of_mem _ hf)
        · have hp : (!ve.contains e) = true := by
            have : ve.contains e = false := by simpa using hve
            rw [this]; rfl
          have hrem := sumBy_filter_remove w univ hnd (fun x => !ve.contains x) e heu hp
          have hold : unmarked univ ve = univ.filter fun x => !ve.contains x := rfl
          simp only [mu, sumFr, List.map_cons, List.sum_cons, List.length_cons] at hmu ⊢
          rw [unmarked_cons]
          rw [hold] at hmu
          simp only at hwe
          omega

/-- one call `walkDfs(start)`: it terminates within `|inc start| + 1 + Σ w` steps -/
theorem walk_terminates (inc : Nat → List Inc) (w : Nat → Nat) (univ : List Nat) (hnd : univ.Nodup)
    (hw : ∀ n, ∀ em ∈ inc n, em.1 ∈ univ ∧ (inc em.2).length + 1 ≤ w em.1)
    (start : Nat) (fuel : Nat) (hfuel : (inc start).length + 1 + sumBy w univ < fuel) :
    ∃ c', run inc fuel ⟨[(start, inc start)], [start], []⟩ = some c' := by
  apply run_some inc w univ hnd hw
  · intro f hf em hem
    have : f = (start, inc start) := by simpa using hf
    subst this; exact hem
  · have hle : sumBy w (unmarked univ []) ≤ sumBy w univ := sumBy_filter_le w _ _
    simp only [mu, sumFr, List.map_cons, List.map_nil, List.sum_cons, List.sum_nil]
    omega

end Autog.ComponentsDfs
