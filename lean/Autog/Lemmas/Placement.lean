import Autog.Lemmas.Phase4Simple
/-! More list-level facts about left-to-right and right-to-left placement (C04, C16). Core-only. -/

namespace Autog.Phase4Simple

/-- Σ (w + ns) -/
def tot (ns : Rat) : List Rat → Rat
  | [] => 0
  | w :: ws => (w + ns) + tot ns ws

theorem tot_append (ns : Rat) (a b : List Rat) : tot ns (a ++ b) = tot ns a + tot ns b := by
  induction a with
  | nil => simp only [List.nil_append, tot]; grind
  | cons w a ih => simp only [List.cons_append, tot, ih]; grind

theorem tot_reverse (ns : Rat) (a : List Rat) : tot ns a.reverse = tot ns a := by
  induction a with
  | nil => rfl
  | cons w a ih => simp only [List.reverse_cons, tot_append, ih, tot]; grind

theorem placeFrom_append (pos ns : Rat) (a b : List Rat) :
    placeFrom pos ns (a ++ b) = placeFrom pos ns a ++ placeFrom (pos + tot ns a) ns b := by
  induction a generalizing pos with
  | nil => simp only [List.nil_append, placeFrom, tot]; congr 1; grind
  | cons w a ih =>
    simp only [List.cons_append, placeFrom, ih, tot]
    have : pos + w + ns + tot ns a = pos + (w + ns + tot ns a) := by grind
    rw [this]

@[simp] theorem placeFrom_length (pos ns : Rat) (ws : List Rat) : (placeFrom pos ns ws).length = ws.length := by
  induction ws generalizing pos with
  | nil => rfl
  | cons w ws ih => simp [placeFrom, ih]

/-- PackRight's right-to-left placement is a left-to-right placement starting at `x0 − Σ(w + ns)` -/
theorem packBack_reverse (ns : Rat) : ∀ (l : List Rat) (x0 : Rat),
    (packBack ns x0 l).reverse = placeFrom (x0 - tot ns l) ns l.reverse
  | [], x0 => by simp [packBack, placeFrom]
  | w :: rest, x0 => by
    simp only [packBack, List.reverse_cons, packBack_reverse ns rest, placeFrom_append, tot_reverse, tot, placeFrom]
    congr 2 <;> grind

theorem packRight_eq_placeFrom (ns x0 : Rat) (ws : List Rat) :
    (packBack ns x0 ws.reverse).reverse = placeFrom (x0 - tot ns ws) ns ws := by
  rw [packBack_reverse, tot_reverse, List.reverse_reverse]

/-- Σ(w + ns) = layerW + ns for a non-empty layer -/
theorem tot_eq_layerW (ns w : Rat) (ws : List Rat) : tot ns (w :: ws) = layerW ns (w :: ws) + ns := by
  induction ws generalizing w with
  | nil => simp only [tot, layerW]; grind
  | cons w2 ws ih =>
    have := ih w2
    simp only [tot, layerW] at this ⊢
    grind

/-- C16 (PackRight): in every non-empty band the right end of the last node is `x0 − ns` -/
theorem packRight_right (ns x0 w : Rat) (ws : List Rat) :
    lastRight ((packBack ns x0 (w :: ws).reverse).reverse) (w :: ws) = x0 - ns := by
  rw [packRight_eq_placeFrom, extent, tot_eq_layerW]; grind

/-- shifting all coordinates keeps the spacing and moves the right end -/
theorem spaced_shift (ns d : Rat) : ∀ (xs ws : List Rat), Spaced ns xs ws → Spaced ns (xs.map (· - d)) ws
  | [], _, _ => by simp [Spaced]
  | [_], _, _ => by simp [Spaced]
  | x :: y :: xs, [], _ => by simp [Spaced]
  | x :: y :: xs, w :: ws, h => by
    simp only [List.map_cons, Spaced] at h ⊢
    exact ⟨by rw [h.1]; grind, by simpa using spaced_shift ns d (y :: xs) ws h.2⟩

theorem lastRight_shift (d : Rat) : ∀ (xs ws : List Rat), xs.length = ws.length → xs ≠ [] →
    lastRight (xs.map (· - d)) ws = lastRight xs ws - d
  | [], _, _, h => by simp at h
  | [x], [w], _, _ => by simp [lastRight]; grind
  | [x], [], h, _ => by simp at h
  | [x], _ :: _ :: _, h, _ => by simp at h
  | x :: y :: xs, [], h, _ => by simp at h
  | x :: y :: xs, w :: ws, h, _ => by
    simp only [List.map_cons, lastRight]
    exact lastRight_shift d (y :: xs) ws (by simpa using h) (by simp)

/-- separation (C04) from exact spacing: consecutive left edges are at least `w + ns` apart -/
def Separated (ns : Rat) : List Rat → List Rat → Prop
  | x :: y :: xs, w :: ws => x + w + ns ≤ y ∧ Separated ns (y :: xs) ws
  | _, _ => True

theorem Spaced.separated (ns : Rat) : ∀ (xs ws : List Rat), Spaced ns xs ws → Separated ns xs ws
  | [], _, _ => by simp [Separated]
  | [_], _, _ => by simp [Separated]
  | x :: y :: xs, [], _ => by simp [Separated]
  | x :: y :: xs, w :: ws, h => by
    simp only [Spaced, Separated] at h ⊢
    exact ⟨by rw [h.1]; exact Rat.le_refl, Spaced.separated ns (y :: xs) ws h.2⟩

end Autog.Phase4Simple
