/-! Spike (C14 b): the DFS breaker marks only edges whose un-marking would close a cycle: for every marked
    edge u→v there is a path v ⇝ u of examined, never-marked (tree) edges. Same machine as
    DfsBreakerOrientation.lean with two ghost fields. Core-only. -/


namespace Autog.DfsBreakerMinimal

abbrev OutE := Nat × Nat                          -- (edge id, target)
abbrev Frame := Nat × List OutE × Option Nat      -- node, out-edges still to examine, edge by which it was entered

structure Cfg where
  stack   : List Frame
  visited : List Nat
  rev     : List Nat                              -- marked edge ids
  exam    : List Nat                              -- ghost: ids of examined edges
  wit     : List (Nat × Nat × Nat × List (Nat × Nat × Nat))
            -- ghost: (marked edge id, u, v, path of tree edges (id, from, to) from v to u)

def act (st : List Frame) : List Nat := st.map (·.1)

/-- tree edges (id, parent, child) from the frame of `m` (exclusive) up to the top frame `n`, bottom-up:
    the stack is top-first, so we collect entry edges while walking down until we meet m -/
def pathTo (m : Nat) : List Frame → List (Nat × Nat × Nat)
  | [] => []
  | [_] => []
  | (c, _, via) :: (p, rp, vp) :: tl =>
      if c = m then [] else
      match via with
      | some e => pathTo m ((p, rp, vp) :: tl) ++ [(e, p, c)]
      | none => pathTo m ((p, rp, vp) :: tl)

def run (out : Nat → List OutE) : Nat → Cfg → Option Cfg
  | 0, _ => none
  | fuel+1, c =>
    match c.stack with
    | [] => some c
    | (_, [], _) :: tl => run out fuel { c with stack := tl }
    | (n, (e, m) :: ms, via) :: tl =>
      if m = n then run out fuel { c with stack := (n, ms, via) :: tl, exam := e :: c.exam }
      else if (act ((n, ms, via) :: tl)).contains m then
        run out fuel { c with stack := (n, ms, via) :: tl, rev := e :: c.rev, exam := e :: c.exam,
                              wit := (e, n, m, pathTo m ((n, ms, via) :: tl)) :: c.wit }
      else if c.visited.contains m then run out fuel { c with stack := (n, ms, via) :: tl, exam := e :: c.exam }
      else run out fuel { c with stack := (m, out m, some e) :: (n, ms, via) :: tl, visited := m :: c.visited,
                                 exam := e :: c.exam }

/-- a walk along given edges: each (id, a, b) is an out-edge of a, and consecutive ones meet -/
def IsWalkE (out : Nat → List OutE) : Nat → List (Nat × Nat × Nat) → Nat → Prop
  | a, [], b => a = b
  | a, (e, x, y) :: l, b => x = a ∧ (e, y) ∈ out x ∧ IsWalkE out y l b

theorem IsWalkE.append {out} : ∀ {a l₁ b l₂ c}, IsWalkE out a l₁ b → IsWalkE out b l₂ c → IsWalkE out a (l₁ ++ l₂) c
  | a, [], b, l₂, c, h1, h2 => by simp only [IsWalkE] at h1; subst h1; simpa using h2
  | a, (e, x, y) :: l, b, l₂, c, h1, h2 => by
    obtain ⟨h3, h4, h5⟩ := h1
    exact ⟨h3, h4, IsWalkE.append h5 h2⟩

/-- the stack is a chain of entry edges -/
def ChainOK (out : Nat → List OutE) : List Frame → Prop
  | [] => True
  | [_] => True
  | (c, _, via) :: (p, rp, vp) :: tl => (∃ e, via = some e ∧ (e, c) ∈ out p) ∧ ChainOK out ((p, rp, vp) :: tl)

/-- `pathTo m` is a walk from m up to the top node, when m is on the stack -/
theorem pathTo_walk {out} : ∀ (st : List Frame) (m : Nat), ChainOK out st → m ∈ act st →
    ∀ n r v tl, st = (n, r, v) :: tl → IsWalkE out m (pathTo m st) n
  | [], _, _, hm, _, _, _, _, _ => by cases hm
  | [(c, rc, vc)], m, _, hm, n, r, v, tl, heq => by
    simp only [List.cons.injEq, Prod.mk.injEq] at heq
    obtain ⟨⟨rfl, _, _⟩, _⟩ := heq
    have : m = c := by simpa [act] using hm
    simp [pathTo, IsWalkE, this]
  | (c, rc, vc) :: (p, rp, vp) :: tl', m, hch, hm, n, r, v, tl, heq => by
    simp only [List.cons.injEq, Prod.mk.injEq] at heq
    obtain ⟨⟨rfl, _, _⟩, _⟩ := heq
    obtain ⟨⟨e, hvia, hedge⟩, hch'⟩ := hch
    by_cases hcm : c = m
    · simp [pathTo, hcm, IsWalkE]
    · have hm' : m ∈ act ((p, rp, vp) :: tl') := by
        simp only [act, List.map_cons, List.mem_cons] at hm ⊢
        rcases hm with h | h
        · exact absurd h.symm hcm
        · exact h
      have ih := pathTo_walk ((p, rp, vp) :: tl') m hch' hm' p rp vp tl' rfl
      simp only [pathTo, hcm, if_false, hvia]
      exact ih.append ⟨rfl, hedge, rfl⟩

/-- ids of the edges on a path -/
def pathIds (l : List (Nat × Nat × Nat)) : List Nat := l.map (·.1)

/-- the entry edges of the stack -/
def vias : List Frame → List Nat
  | [] => []
  | (_, _, some e) :: tl => e :: vias tl
  | (_, _, none) :: tl => vias tl

theorem pathTo_ids_sub : ∀ (st : List Frame) (m : Nat), ∀ e ∈ pathIds (pathTo m st), e ∈ vias st
  | [], _, e, h => by simp [pathTo, pathIds] at h
  | [_], _, e, h => by simp [pathTo, pathIds] at h
  | (c, rc, vc) :: (p, rp, vp) :: tl, m, e, h => by
    by_cases hcm : c = m
    · simp [pathTo, hcm, pathIds] at h
    · cases vc with
      | none =>
        simp only [pathTo, hcm, if_false] at h
        have := pathTo_ids_sub ((p, rp, vp) :: tl) m e h
        simpa [vias] using this
      | some e' =>
        simp only [pathTo, hcm, if_false, pathIds, List.map_append, List.mem_append, List.map_cons,
          List.map_nil, List.mem_singleton] at h
        rcases h with h | h
        · have := pathTo_ids_sub ((p, rp, vp) :: tl) m e (by simpa [pathIds] using h)
          simp [vias, this]
        · simp [vias, h]


/-- edge ids are unique: `src e` is the only node having `e` in its out list, once -/
structure Uniq (out : Nat → List OutE) (src : Nat → Nat) : Prop where
  own : ∀ u, ∀ em ∈ out u, src em.1 = u
  nd  : ∀ u, ((out u).map Prod.fst).Nodup

structure MInv (out : Nat → List OutE) (src : Nat → Nat) (c : Cfg) : Prop where
  chain : ChainOK out c.stack
  /-- every witness: the marked edge u→v, a walk v ⇝ u along examined edges that are not marked -/
  wok   : ∀ w ∈ c.wit, w.1 ∈ c.rev ∧ (w.1, w.2.2.1) ∈ out w.2.1 ∧ IsWalkE out w.2.2.1 w.2.2.2 w.2.1 ∧
            ∀ id ∈ pathIds w.2.2.2, id ∈ c.exam ∧ id ∉ c.rev
  wcov  : ∀ id ∈ c.rev, ∃ w ∈ c.wit, w.1 = id
  vok   : ∀ id ∈ vias c.stack, id ∈ c.exam ∧ id ∉ c.rev
  rsub  : ∀ id ∈ c.rev, id ∈ c.exam
  sfx   : ∀ f ∈ c.stack, ∃ pre, out f.1 = pre ++ f.2.1
  fresh : ∀ f ∈ c.stack, ∀ em ∈ f.2.1, em.1 ∉ c.exam
  unv   : ∀ id ∈ c.exam, src id ∈ c.visited
  svis  : ∀ f ∈ c.stack, f.1 ∈ c.visited
  nd    : (act c.stack).Nodup

theorem vias_tail (f : Frame) (tl : List Frame) : ∀ id ∈ vias tl, id ∈ vias (f :: tl) := by
  intro id h
  obtain ⟨n, r, v⟩ := f
  cases v <;> simp [vias, h]

theorem vias_retop (n : Nat) (r r' : List OutE) (v : Option Nat) (tl : List Frame) :
    vias ((n, r, v) :: tl) = vias ((n, r', v) :: tl) := by cases v <;> simp [vias]

theorem chain_retop {out} (n : Nat) (r r' : List OutE) (v : Option Nat) (tl : List Frame)
    (h : ChainOK out ((n, r, v) :: tl)) : ChainOK out ((n, r', v) :: tl) := by
  cases tl with
  | nil => trivial
  | cons f tl => obtain ⟨p, rp, vp⟩ := f; exact h

theorem chain_tail {out} (f : Frame) (tl : List Frame) (h : ChainOK out (f :: tl)) : ChainOK out tl := by
  cases tl with
  | nil => trivial
  | cons g tl => obtain ⟨c, rc, vc⟩ := f; obtain ⟨p, rp, vp⟩ := g; exact h.2

theorem run_inv {out : Nat → List OutE} {src : Nat → Nat} (hU : Uniq out src) :
    ∀ (fuel : Nat) (c c' : Cfg), MInv out src c → run out fuel c = some c' → MInv out src c' ∧ c'.stack = [] := by
  intro fuel
  induction fuel with
  | zero => intro c c' _ h; simp [run] at h
  | succ fuel ih =>
    intro c c' hI h
    obtain ⟨stack, vis, rev, exam, wit⟩ := c
    obtain ⟨hch, hwok, hwcov, hvok, hrsub, hsfx, hfresh, hunv, hsvis, hnd⟩ := hI
    dsimp only at hch hwok hwcov hvok hrsub hsfx hfresh hunv hsvis hnd
    unfold run at h
    match stack, hch, hvok, hsfx, hfresh, hsvis, hnd, h with
    | [], hch, hvok, hsfx, hfresh, hsvis, hnd, h =>
      simp only [Option.some.injEq] at h; subst h
      exact ⟨⟨hch, hwok, hwcov, hvok, hrsub, hsfx, hfresh, hunv, hsvis, hnd⟩, rfl⟩
    | (n, [], via) :: tl, hch, hvok, hsfx, hfresh, hsvis, hnd, h =>
      dsimp only at h
      refine ih ⟨tl, vis, rev, exam, wit⟩ c' ⟨chain_tail _ _ hch, hwok, hwcov,
        fun id hid => hvok id (vias_tail _ _ id hid), hrsub,
        fun f hf => hsfx f (List.mem_cons_of_mem _ hf), fun f hf => hfresh f (List.mem_cons_of_mem _ hf), hunv,
        fun f hf => hsvis f (List.mem_cons_of_mem _ hf), ?_⟩ h
      simp only [act, List.map_cons] at hnd ⊢
      exact (List.nodup_cons.1 hnd).2
    | (n, (e, m) :: ms, via) :: tl, hch, hvok, hsfx, hfresh, hsvis, hnd, h =>
      dsimp only at h
      -- facts about the edge being examined
      obtain ⟨pre, hpre⟩ := hsfx (n, (e, m) :: ms, via) (List.mem_cons_self ..)
      dsimp only at hpre
      have hem : (e, m) ∈ out n := by rw [hpre]; simp
      have hsrc : src e = n := hU.own n (e, m) hem
      have he_ex : e ∉ exam := hfresh (n, (e, m) :: ms, via) (List.mem_cons_self ..) (e, m) (List.mem_cons_self ..)
      have he_rev : e ∉ rev := fun h' => he_ex (hrsub e h')
      have hn_tl : n ∉ act tl := by
        simp only [act, List.map_cons] at hnd; exact (List.nodup_cons.1 hnd).1
      -- the remaining todo entries of all frames have ids different from e
      have hfresh' : ∀ f ∈ ((n, ms, via) :: tl), ∀ em ∈ f.2.1, em.1 ∉ e :: exam := by
        intro f hf em hem' hmem
        rcases List.mem_cons.1 hmem with h1 | h1
        · rcases List.mem_cons.1 hf with rfl | hf
          · -- same out-list: ids are distinct
            have hnd' := hU.nd n
            rw [hpre, List.map_append, List.map_cons, List.nodup_append] at hnd'
            have := (List.nodup_cons.1 hnd'.2.1).1
            exact this (List.mem_map.2 ⟨em, hem', h1⟩)
          · obtain ⟨pre', hp'⟩ := hsfx f (List.mem_cons_of_mem _ hf)
            have : em ∈ out f.1 := by rw [hp']; exact List.mem_append_right _ hem'
            have hown := hU.own f.1 em this
            rw [h1, hsrc] at hown
            exact hn_tl (hown ▸ List.mem_map_of_mem (f := (·.1)) hf)
        · rcases List.mem_cons.1 hf with rfl | hf
          · exact hfresh (n, (e, m) :: ms, via) (List.mem_cons_self ..) em (List.mem_cons_of_mem _ hem') h1
          · exact hfresh f (List.mem_cons_of_mem _ hf) em hem' h1
      have hsfx' : ∀ f ∈ ((n, ms, via) :: tl), ∃ pre, out f.1 = pre ++ f.2.1 := by
        intro f hf
        rcases List.mem_cons.1 hf with rfl | hf
        · exact ⟨pre ++ [(e, m)], by simp [hpre]⟩
        · exact hsfx f (List.mem_cons_of_mem _ hf)
      have hsvis' : ∀ f ∈ ((n, ms, via) :: tl), f.1 ∈ vis := by
        intro f hf
        rcases List.mem_cons.1 hf with rfl | hf
        · exact hsvis (n, (e, m) :: ms, via) (List.mem_cons_self ..)
        · exact hsvis f (List.mem_cons_of_mem _ hf)
      have hunv' : ∀ id ∈ e :: exam, src id ∈ vis := by
        intro id hid
        rcases List.mem_cons.1 hid with rfl | hid
        · rw [hsrc]; exact hsvis (n, (id, m) :: ms, via) (List.mem_cons_self ..)
        · exact hunv id hid
      have hvok' : ∀ id ∈ vias ((n, ms, via) :: tl), id ∈ e :: exam ∧ id ∉ rev := by
        intro id hid
        rw [← vias_retop n ((e, m) :: ms) ms via tl] at hid
        have := hvok id hid
        exact ⟨List.mem_cons_of_mem _ this.1, this.2⟩
      have hwok' : ∀ w ∈ wit, w.1 ∈ rev ∧ (w.1, w.2.2.1) ∈ out w.2.1 ∧ IsWalkE out w.2.2.1 w.2.2.2 w.2.1 ∧
            ∀ id ∈ pathIds w.2.2.2, id ∈ e :: exam ∧ id ∉ rev := by
        intro w hw
        obtain ⟨h1, h2, h3, h4⟩ := hwok w hw
        exact ⟨h1, h2, h3, fun id hid => ⟨List.mem_cons_of_mem _ (h4 id hid).1, (h4 id hid).2⟩⟩
      have hnd' : (act ((n, ms, via) :: tl)).Nodup := by simpa [act] using hnd
      split at h
      · -- self loop
        exact ih ⟨(n, ms, via) :: tl, vis, rev, e :: exam, wit⟩ c'
          ⟨chain_retop _ _ _ _ _ hch, hwok', hwcov, hvok', fun id hid => List.mem_cons_of_mem _ (hrsub id hid),
           hsfx', hfresh', hunv', hsvis', hnd'⟩ h
      · split at h
        · -- back edge: mark it and record the witness path
          rename_i hmn hact
          have hm_act : m ∈ act ((n, ms, via) :: tl) := by simpa using hact
          have hne_ex : ∀ id, id ∈ exam → id ≠ e := fun id hid h' => he_ex (h' ▸ hid)
          refine ih ⟨(n, ms, via) :: tl, vis, e :: rev, e :: exam,
            (e, n, m, pathTo m ((n, ms, via) :: tl)) :: wit⟩ c'
            ⟨chain_retop _ _ _ _ _ hch, ?_, ?_, ?_, ?_, hsfx', hfresh', hunv', hsvis', hnd'⟩ h
          · intro w hw
            rcases List.mem_cons.1 hw with rfl | hw
            · refine ⟨List.mem_cons_self .., hem,
                pathTo_walk _ m (chain_retop _ _ _ _ _ hch) hm_act n ms via tl rfl, ?_⟩
              intro id hid
              have := hvok' id (pathTo_ids_sub _ m id hid)
              have h1 : id ∈ exam := by
                rw [← vias_retop n ((e, m) :: ms) ms via tl] at *
                exact (hvok id (by
                  have := pathTo_ids_sub ((n, ms, via) :: tl) m id hid
                  rwa [← vias_retop n ((e, m) :: ms) ms via tl] at this)).1
              exact ⟨this.1, fun h' => by
                rcases List.mem_cons.1 h' with h2 | h2
                · exact hne_ex id h1 h2
                · exact this.2 h2⟩
            · obtain ⟨h1, h2, h3, h4⟩ := hwok' w hw
              refine ⟨List.mem_cons_of_mem _ h1, h2, h3, fun id hid => ⟨(h4 id hid).1, fun h' => ?_⟩⟩
              rcases List.mem_cons.1 h' with h5 | h5
              · exact hne_ex id ((hwok w hw).2.2.2 id hid).1 h5
              · exact (h4 id hid).2 h5
          · intro id hid
            rcases List.mem_cons.1 hid with rfl | hid
            · exact ⟨_, List.mem_cons_self .., rfl⟩
            · obtain ⟨w, hw, h1⟩ := hwcov id hid
              exact ⟨w, List.mem_cons_of_mem _ hw, h1⟩
          · intro id hid
            have := hvok' id hid
            have h1 : id ∈ exam := by
              rw [← vias_retop n ((e, m) :: ms) ms via tl] at hid
              exact (hvok id hid).1
            exact ⟨this.1, fun h' => by
              rcases List.mem_cons.1 h' with h2 | h2
              · exact hne_ex id h1 h2
              · exact this.2 h2⟩
          · intro id hid
            rcases List.mem_cons.1 hid with rfl | hid
            · exact List.mem_cons_self ..
            · exact List.mem_cons_of_mem _ (hrsub id hid)
        · split at h
          · exact ih ⟨(n, ms, via) :: tl, vis, rev, e :: exam, wit⟩ c'
              ⟨chain_retop _ _ _ _ _ hch, hwok', hwcov, hvok', fun id hid => List.mem_cons_of_mem _ (hrsub id hid),
               hsfx', hfresh', hunv', hsvis', hnd'⟩ h
          · -- visit(m)
            rename_i hmn hact hv
            have hmvis : m ∉ vis := by simpa using hv
            have hm_act : m ∉ act ((n, ms, via) :: tl) := by simpa using hact
            refine ih ⟨(m, out m, some e) :: (n, ms, via) :: tl, m :: vis, rev, e :: exam, wit⟩ c'
              ⟨⟨⟨e, rfl, hem⟩, chain_retop _ _ _ _ _ hch⟩, hwok', hwcov, ?_,
               fun id hid => List.mem_cons_of_mem _ (hrsub id hid), ?_, ?_, ?_, ?_, ?_⟩ h
            · intro id hid
              simp only [vias, List.mem_cons] at hid
              rcases hid with rfl | hid
              · exact ⟨List.mem_cons_self .., he_rev⟩
              · exact hvok' id hid
            · intro f hf
              rcases List.mem_cons.1 hf with rfl | hf
              · exact ⟨[], rfl⟩
              · exact hsfx' f hf
            · intro f hf em hem' hmem
              rcases List.mem_cons.1 hf with rfl | hf
              · -- edges of the unvisited node m are unexamined
                rcases List.mem_cons.1 hmem with h1 | h1
                · have := hU.own m em hem'
                  rw [h1, hsrc] at this
                  exact hmn this.symm
                · have := hunv em.1 h1
                  rw [hU.own m em hem'] at this
                  exact hmvis this
              · exact hfresh' f hf em hem' hmem
            · intro id hid; exact List.mem_cons_of_mem _ (hunv' id hid)
            · intro f hf
              rcases List.mem_cons.1 hf with rfl | hf
              · exact List.mem_cons_self ..
              · exact List.mem_cons_of_mem _ (hsvis' f hf)
            · simp only [act, List.map_cons] at hm_act hnd' ⊢
              exact List.nodup_cons.2 ⟨hm_act, hnd'⟩


/-- C14 (b): after the walk every marked edge u→v comes with a path v ⇝ u of edges that are not marked:
    un-marking it alone closes a directed cycle in the drawn orientation -/
theorem minimal {out : Nat → List OutE} {src : Nat → Nat} (hU : Uniq out src)
    (fuel : Nat) (c c' : Cfg) (hI : MInv out src c) (h : run out fuel c = some c') :
    ∀ id ∈ c'.rev, ∃ u v path, (id, v) ∈ out u ∧ IsWalkE out v path u ∧ ∀ x ∈ pathIds path, x ∉ c'.rev := by
  obtain ⟨hI', _⟩ := run_inv hU fuel c c' hI h
  intro id hid
  obtain ⟨w, hw, rfl⟩ := hI'.wcov id hid
  obtain ⟨_, h2, h3, h4⟩ := hI'.wok w hw
  exact ⟨w.2.1, w.2.2.1, w.2.2.2, h2, h3, fun x hx => (h4 x hx).2⟩

end Autog.DfsBreakerMinimal
