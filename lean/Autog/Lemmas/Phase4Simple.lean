/-! Spike (C03 ii, C04, C16, C17): the simple parts of phase 4 over Rat. Core-only.
    A layer is the list of its node widths (helper nodes included, width 0), in layer order. -/


namespace Autog.Phase4Simple

/-! ## assignYCoords -/

/-- `y := 0; for l in layers { l.Y = y; y += l.H + layerSpacing }` : the Y of every layer -/
def assignY (ls : Rat) : Rat → List Rat → List Rat
  | _, [] => []
  | y, h :: hs => y :: assignY ls (y + h + ls) hs

/-- every later band starts at least `ls` below the bottom of every earlier band (C03 ii) -/
theorem assignY_bands (ls : Rat) (hls : 0 ≤ ls) : ∀ (hs : List Rat) (y : Rat), (∀ h ∈ hs, 0 ≤ h) →
    List.Pairwise (fun (a b : Rat × Rat) => a.1 + a.2 + ls ≤ b.1) ((assignY ls y hs).zip hs) := by
  intro hs
  induction hs with
  | nil => intro y _; simp [assignY]
  | cons h hs ih =>
    intro y hpos
    have hh := hpos h (List.mem_cons_self ..)
    have hrest := fun a ha => hpos a (List.mem_cons_of_mem _ ha)
    simp only [assignY, List.zip_cons_cons]
    refine List.Pairwise.cons ?_ (ih _ hrest)
    -- every later Y is ≥ the running y
    have ge : ∀ (hs : List Rat) (y0 : Rat), (∀ a ∈ hs, 0 ≤ a) → ∀ p ∈ (assignY ls y0 hs).zip hs, y0 ≤ p.1 := by
      intro hs
      induction hs with
      | nil => intro y0 _ p hp; simp [assignY] at hp
      | cons a hs ih2 =>
        intro y0 hp0 p hp
        simp only [assignY, List.zip_cons_cons] at hp
        rcases List.mem_cons.1 hp with rfl | hp
        · exact Rat.le_refl
        · have := ih2 (y0 + a + ls) (fun b hb => hp0 b (List.mem_cons_of_mem _ hb)) p hp
          have := hp0 a (List.mem_cons_self ..)
          grind
    intro p hp
    exact ge hs (y + h + ls) hrest p hp

/-! ## VAlign / PackRight -/

/-- cumulative placement `pos; pos += w + ns` -/
def placeFrom (pos ns : Rat) : List Rat → List Rat
  | [] => []
  | w :: ws => pos :: placeFrom (pos + w + ns) ns ws

/-- `layer.W`: widths plus spacing between consecutive nodes -/
def layerW (ns : Rat) : List Rat → Rat
  | [] => 0
  | [w] => w
  | w :: ws => w + ns + layerW ns ws

/-- right end of the last node -/
def lastRight : List Rat → List Rat → Rat
  | [x], [w] => x + w
  | _ :: xs, _ :: ws => lastRight xs ws
  | _, _ => 0

theorem extent (pos ns : Rat) (w : Rat) (ws : List Rat) :
    lastRight (placeFrom pos ns (w :: ws)) (w :: ws) = pos + layerW ns (w :: ws) := by
  induction ws generalizing pos w with
  | nil => simp [placeFrom, lastRight, layerW]
  | cons w2 ws ih =>
    have := ih (pos + w + ns) w2
    simp only [placeFrom, lastRight, layerW] at this ⊢
    rw [this]; grind

/-- consecutive nodes are exactly `w + ns` apart (C16), hence separated (C04) -/
def Spaced (ns : Rat) : List Rat → List Rat → Prop
  | x :: y :: xs, w :: ws => y = x + w + ns ∧ Spaced ns (y :: xs) ws
  | _, _ => True

theorem placeFrom_spaced (pos ns : Rat) (ws : List Rat) : Spaced ns (placeFrom pos ns ws) ws := by
  induction ws generalizing pos with
  | nil => simp [placeFrom, Spaced]
  | cons w ws ih =>
    cases ws with
    | nil => simp [placeFrom, Spaced]
    | cons w2 ws2 =>
      simp only [placeFrom, Spaced, true_and]
      simpa [placeFrom] using ih (pos + w + ns)

/-- VAlign: `pos := (maxW - layer.W)/2` -/
def valign (ns maxW : Rat) (ws : List Rat) : List Rat := placeFrom ((maxW - layerW ns ws) / 2) ns ws

/-- C16: the horizontal midpoint of every non-empty band is maxW/2, whatever the band -/
theorem valign_mid (ns maxW w : Rat) (ws : List Rat) :
    ((maxW - layerW ns (w :: ws)) / 2 + lastRight (valign ns maxW (w :: ws)) (w :: ws)) / 2 = maxW / 2 := by
  unfold valign
  rw [extent]; grind

/-- C04/C16: the widest band starts at x = 0 and no band starts left of 0 -/
theorem valign_nonneg (ns maxW : Rat) (ws : List Rat) (h : layerW ns ws ≤ maxW) :
    0 ≤ (maxW - layerW ns ws) / 2 := by grind

/-- PackRight places from the right: the last node's right end is at `-ns - leftBound` in every band.
    Backward cumulative placement `x -= w + ns; n.X = x`, modelled on the reversed width list. -/
def packBack (ns : Rat) : Rat → List Rat → List Rat
  | _, [] => []
  | x, w :: ws => (x - (w + ns)) :: packBack ns (x - (w + ns)) ws

/-- first placed (= rightmost) node: its right end is x0 - ns, whatever the widths (C16: right ends coincide) -/
theorem packBack_right (ns x0 w : Rat) (ws : List Rat) :
    ∃ rest, packBack ns x0 (w :: ws) = (x0 - (w + ns)) :: rest ∧ (x0 - (w + ns)) + w = x0 - ns :=
  ⟨packBack ns (x0 - (w + ns)) ws, rfl, by grind⟩

/-- and consecutive nodes (right to left) are exactly `w + ns` apart -/
theorem packBack_step (ns x0 w1 w2 : Rat) (ws : List Rat) :
    ∃ rest, packBack ns x0 (w1 :: w2 :: ws) = (x0 - (w1 + ns)) :: (x0 - (w1 + ns) - (w2 + ns)) :: rest :=
  ⟨packBack ns (x0 - (w1 + ns) - (w2 + ns)) ws, rfl⟩

/-! ## C17: placement commutes with scaling -/

theorem placeFrom_scale (c pos ns : Rat) (ws : List Rat) :
    placeFrom (c * pos) (c * ns) (ws.map (c * ·)) = (placeFrom pos ns ws).map (c * ·) := by
  induction ws generalizing pos with
  | nil => rfl
  | cons w ws ih =>
    simp only [List.map_cons, placeFrom]
    have : c * pos + c * w + c * ns = c * (pos + w + ns) := by grind
    rw [this, ih]

theorem layerW_scale (c ns : Rat) (ws : List Rat) : layerW (c * ns) (ws.map (c * ·)) = c * layerW ns ws := by
  induction ws with
  | nil => simp [layerW]
  | cons w ws ih =>
    cases ws with
    | nil => simp [layerW]
    | cons w2 ws2 =>
      simp only [List.map_cons, layerW] at ih ⊢
      rw [ih]; grind

theorem valign_scale (c ns maxW : Rat) (ws : List Rat) :
    valign (c * ns) (c * maxW) (ws.map (c * ·)) = (valign ns maxW ws).map (c * ·) := by
  unfold valign
  rw [layerW_scale, ← placeFrom_scale]
  congr 1; grind

theorem assignY_scale (c ls y : Rat) (hs : List Rat) :
    assignY (c * ls) (c * y) (hs.map (c * ·)) = (assignY ls y hs).map (c * ·) := by
  induction hs generalizing y with
  | nil => rfl
  | cons h hs ih =>
    simp only [List.map_cons, assignY]
    have : c * y + c * h + c * ls = c * (y + h + ls) := by grind
    rw [this, ih]

#eval valign 10 200 [20, 0, 40]
#eval assignY 15 0 [10, 30, 5]

/-- scaling commutes with `max` for a positive factor (comparisons in SinkColoring/B&K are scale-invariant) -/
theorem max_scale (a b c : Rat) (hc : 0 < c) : max (c*a) (c*b) = c * max a b := by
  rcases Rat.le_total (a := a) (b := b) with h | h
  · have h2 : c*a ≤ c*b := Rat.mul_le_mul_of_nonneg_left h (Rat.le_of_lt hc)
    simp [Rat.max_def, h, h2]
  · have h2 : c*b ≤ c*a := Rat.mul_le_mul_of_nonneg_left h (Rat.le_of_lt hc)
    grind

theorem lt_scale (a b c : Rat) (hc : 0 < c) : c * a < c * b ↔ a < b := by
  constructor
  · intro h
    rcases Rat.le_total (a := b) (b := a) with h1 | h1
    · have := Rat.mul_le_mul_of_nonneg_left h1 (Rat.le_of_lt hc); grind
    · grind
  · intro h; exact Rat.mul_lt_mul_of_pos_left h hc

end Autog.Phase4Simple
