import Autog.Model.Pipeline
import Autog.Lemmas.PopulateRename
import Autog.Lemmas.GraphOps
/-! C08: renaming the node ids by an injective map commutes with the whole composed model. Pre-processing is the only part of the
    pipeline that sees ids; everything it does besides interning them and looking up sizes depends on the node table only through
    the incidence lists. Core-only. -/

namespace Autog

def renameG (ρ : String → String) (g : G) : G := { g with nodes := g.nodes.map fun n => { n with id := ρ n.id } }

/-- the size list with its keys renamed -/
def renameCfg (ρ : String → String) (cfg : Cfg) : Cfg :=
  { cfg with sizes := cfg.sizes.map fun m => m.map fun (k, v) => (ρ k, v) }

/-- the first `n0` nodes renamed -/
def renameFirst (ρ : String → String) (n0 : Nat) (g : G) : G :=
  { g with nodes := g.nodes.mapIdx fun i n => if i < n0 then { n with id := ρ n.id } else n }

theorem node_renameG (ρ : String → String) (g : G) (i : Nat) :
    (renameG ρ g).node i = if i < g.nodes.size then { g.node i with id := ρ (g.node i).id } else g.node i := by
  simp only [renameG, G.node, Array.getD_eq_getD_getElem?, Array.getElem?_map]
  by_cases h : i < g.nodes.size
  · simp [h]
  · have : g.nodes[i]? = none := by simp; omega
    simp [h, this]

theorem node_renameG_fields (ρ : String → String) (g : G) (i : Nat) :
    ((renameG ρ g).node i).ins = (g.node i).ins ∧ ((renameG ρ g).node i).outs = (g.node i).outs ∧
    ((renameG ρ g).node i).w = (g.node i).w ∧ ((renameG ρ g).node i).h = (g.node i).h := by
  rw [node_renameG]; split <;> simp

theorem eraseIds_renameG (ρ : String → String) (g : G) : eraseIds (renameG ρ g) = eraseIds g := by
  simp [eraseIds, renameG, Array.map_map, Function.comp]

theorem idTable_renameG (ρ : String → String) (g : G) : idTable (renameG ρ g) = (idTable g).map ρ := by
  simp [idTable, renameG, Array.map_map, Function.comp]

theorem reattach_rename (ρ : String → String) (tbl : Array String) (gf : G) :
    reattach (tbl.map ρ) gf = renameFirst ρ tbl.size (reattach tbl gf) := by
  simp only [reattach, renameFirst, Array.size_map, Array.mapIdx_mapIdx, G.mk.injEq, and_true, true_and]
  apply Array.ext
  · simp
  · intro i h1 h2
    simp only [Array.getElem_mapIdx, Function.comp]
    by_cases h : i < tbl.size
    · simp [h, Array.getD_eq_getD_getElem?]
    · simp [h]

/-! ### pre-processing -/

theorem lookup_rename (ρ : String → String) (hρ : ∀ a b, ρ a = ρ b → a = b) (id : String) :
    ∀ (m : List (String × Rat × Rat)), (m.map fun (k, v) => (ρ k, v)).lookup (ρ id) = m.lookup id
  | [] => rfl
  | (k, v) :: m => by
    simp only [List.map_cons, List.lookup_cons]
    by_cases h : id = k
    · subst h; simp
    · have h1 : (ρ id == ρ k) = false := by rw [beq_eq_false_iff_ne]; exact fun e => h (hρ _ _ e)
      have h2 : (id == k) = false := by rw [beq_eq_false_iff_ne]; exact h
      simp only [h1, h2]; exact lookup_rename ρ hρ id m

theorem sizeOf_rename (ρ : String → String) (hρ : ∀ a b, ρ a = ρ b → a = b) (cfg : Cfg) (id : String) :
    sizeOf (renameCfg ρ cfg) (ρ id) = sizeOf cfg id := by
  unfold sizeOf renameCfg
  cases hs : cfg.sizes with
  | none => simp
  | some m =>
    simp only [Option.map_some, Option.bind_some]
    rw [lookup_rename ρ hρ id m]

theorem applySizes_rename (ρ : String → String) (hρ : ∀ a b, ρ a = ρ b → a = b) (cfg : Cfg) (g : G) :
    applySizes (renameCfg ρ cfg) (renameG ρ g) = renameG ρ (applySizes cfg g) := by
  simp only [applySizes, renameG, Array.map_map, G.mk.injEq, and_true, true_and]
  apply Array.ext
  · simp
  · intro i h1 h2
    simp [sizeOf_rename ρ hρ]

theorem incident_renameG (ρ : String → String) (g : G) (n : Nat) : (renameG ρ g).incident n = g.incident n := by
  unfold G.incident
  rw [(node_renameG_fields ρ g n).1, (node_renameG_fields ρ g n).2.1]

theorem incOf_renameG (ρ : String → String) (g : G) : incOf (renameG ρ g) = incOf g := by
  funext n
  unfold incOf
  rw [incident_renameG]
  rfl

theorem walkDfs_renameG (ρ : String → String) (g : G) (start : Nat) : walkDfs (renameG ρ g) start = walkDfs g start := by
  unfold walkDfs walkFuel
  rw [incOf_renameG]
  rfl

theorem subgraph_renameG (ρ : String → String) (g : G) (ns es : List Nat) :
    subgraph (renameG ρ g) ns es = renameG ρ (subgraph g ns es) := by
  have hids : (renameG ρ g).nodeIds = g.nodeIds := by simp [G.nodeIds, renameG]
  have hel : (renameG ρ g).elist = g.elist := rfl
  have hed : ∀ e, (renameG ρ g).edge e = g.edge e := fun _ => rfl
  unfold subgraph
  simp only [hids, hel, hed]
  show (_ : G) = renameG ρ _
  simp only [renameG, G.mk.injEq, and_true]
  apply Array.ext
  · simp
  · intro i h1 h2
    simp only [List.getElem_toArray, List.getElem_map, Array.getElem_map]
    have hmem : (g.nodeIds.filter ns.contains)[i]'(by simpa using h1) ∈ g.nodeIds.filter ns.contains := List.getElem_mem _
    have hn' : (g.nodeIds.filter ns.contains)[i]'(by simpa using h1) < g.nodes.size := by
      have := (List.mem_filter.1 hmem).1
      simpa [G.nodeIds] using this
    have := node_renameG ρ g ((g.nodeIds.filter ns.contains)[i]'(by simpa using h1))
    simp only [hn', if_true, renameG] at this
    rw [this]

theorem componentsLoop_renameG (ρ : String → String) (g : G) : ∀ (ns visited : List Nat) (out : List G),
    componentsLoop (renameG ρ g) ns visited (out.map (renameG ρ)) = (componentsLoop g ns visited out).map (List.map (renameG ρ))
  | [], _, out => rfl
  | n :: rest, visited, out => by
    unfold componentsLoop
    split
    · exact componentsLoop_renameG ρ g rest visited out
    · rw [walkDfs_renameG]
      cases hw : walkDfs g n with
      | error e => rfl
      | ok r =>
        simp only [bind, Except.bind]
        have := componentsLoop_renameG ρ g rest (visited ++ r.1) (out ++ [subgraph g r.1 r.2])
        simp only [List.map_append, List.map_cons, List.map_nil] at this
        rw [subgraph_renameG]
        exact this

theorem components_renameG (ρ : String → String) (g : G) :
    components (renameG ρ g) = (components g).map (List.map (renameG ρ)) := by
  unfold components
  have hsz : (renameG ρ g).nodes.size = g.nodes.size := by simp [renameG]
  have hids : (renameG ρ g).nodeIds = g.nodeIds := by simp [G.nodeIds, renameG]
  simp only [hsz, hids, walkDfs_renameG, bind, Except.bind, pure, Except.pure]
  split
  · rfl
  · cases hw : walkDfs g 0 with
    | error e => rfl
    | ok r =>
      simp only
      split
      · rfl
      · have := componentsLoop_renameG ρ g g.nodeIds r.1 [subgraph g r.1 r.2]
        simp only [List.map_cons, List.map_nil] at this
        rw [subgraph_renameG]
        exact this

theorem renameG_modNode (ρ : String → String) (g : G) (i : Nat) (f : Node → Node)
    (hf : ∀ n : Node, f { n with id := ρ n.id } = { f n with id := ρ (f n).id }) :
    (renameG ρ g).modNode i f = renameG ρ (g.modNode i f) := by
  simp only [renameG, G.modNode, G.mk.injEq, and_true, true_and]
  apply Array.ext
  · simp
  · intro j h1 h2
    simp only [Array.getElem_modify, Array.getElem_map, Array.size_map]
    split <;> simp [hf]

theorem stripLoop_renameG (ρ : String → String) (g : G) (e : Nat) : stripLoop (renameG ρ g) e = renameG ρ (stripLoop g e) := by
  unfold stripLoop
  have hed : (renameG ρ g).edge e = g.edge e := rfl
  simp only [hed]
  rw [renameG_modNode ρ g (g.edge e).src (fun n => { n with outs := G.removeE n.outs e }) (fun _ => rfl),
      renameG_modNode ρ _ (g.edge e).src (fun n => { n with ins := G.removeE n.ins e }) (fun _ => rfl)]
  rfl

theorem foldl_comm {α σ} (R : σ → σ) (f : σ → α → σ) (h : ∀ s x, f (R s) x = R (f s x)) :
    ∀ (l : List α) (s : σ), l.foldl f (R s) = R (l.foldl f s)
  | [], _ => rfl
  | x :: l, s => by simp only [List.foldl_cons, h]; exact foldl_comm R f h l (f s x)

theorem ignoreSelfLoops_renameG (ρ : String → String) (g : G) :
    ignoreSelfLoops (renameG ρ g) = (renameG ρ (ignoreSelfLoops g).1, (ignoreSelfLoops g).2) := by
  unfold ignoreSelfLoops
  have hsl : (renameG ρ g).selfLoops = g.selfLoops := rfl
  have hel : (renameG ρ g).elist = g.elist := rfl
  simp only [hsl, hel, Prod.mk.injEq]
  exact ⟨foldl_comm (renameG ρ) stripLoop (stripLoop_renameG ρ) _ g, rfl⟩

theorem preProcess_rename (ρ : String → String) (hρ : ∀ a b, ρ a = ρ b → a = b) (cfg : Cfg) (es : InEdges)
    (hpop : populate (es.map fun e => (ρ e.1, ρ e.2)) = renameG ρ (populate es)) :
    preProcess (renameCfg ρ cfg) (es.map fun e => (ρ e.1, ρ e.2)) =
      (preProcess cfg es).map (List.map fun c => (renameG ρ c.1, c.2)) := by
  unfold preProcess
  rw [hpop, applySizes_rename ρ hρ]
  simp only [components_renameG]
  cases hc : components (applySizes cfg (populate es)) with
  | error e => rfl
  | ok cs =>
    simp only [Except.map, bind, Except.bind, pure, Except.pure, List.map_map, Except.ok.injEq]
    apply List.map_congr_left
    intro g _
    simp [Function.comp, ignoreSelfLoops_renameG]

end Autog

namespace Autog

/-- the phases read algorithms, spacings and tuning parameters of the configuration, never the size list -/
theorem layoutComponent_renameCfg (ρ : String → String) (ord : G → M G) (cfg : Cfg) (c : G × List Nat) :
    layoutComponent ord (renameCfg ρ cfg) c = layoutComponent ord cfg c := rfl

theorem collect_renameCfg (ρ : String → String) (cfg : Cfg) : ∀ (gs : List G) (shift : Rat) (ci : Nat),
    collect (renameCfg ρ cfg) shift ci gs = collect cfg shift ci gs
  | [], _, _ => rfl
  | g :: gs, shift, ci => by
    simp only [collect]
    rw [collect_renameCfg ρ cfg gs]
    rfl

theorem layoutComponentP_rename (ρ : String → String) (ord : G → M G) (cfg : Cfg) (c : G × List Nat) :
    layoutComponentP ord (renameCfg ρ cfg) (renameG ρ c.1, c.2) =
      (layoutComponentP ord cfg c).map (renameFirst ρ c.1.nodes.size) := by
  unfold layoutComponentP
  simp only [layoutComponent_renameCfg, eraseIds_renameG, idTable_renameG, reattach_rename]
  have hsz : (idTable c.1).size = c.1.nodes.size := by simp [idTable]
  cases layoutComponent ord cfg (eraseIds c.1, c.2) with
  | error e => rfl
  | ok gf => simp [bind, Except.bind, pure, Except.pure, Except.map, hsz]

theorem mapM_map_rename {α β} (f g : α → M β) (r : α → α) (h : ∀ a, f (r a) = g a) :
    ∀ (l : List α), (l.map r).mapM f = l.mapM g
  | [] => rfl
  | a :: l => by simp only [List.map_cons, List.mapM_cons, h, mapM_map_rename f g r h l]

/-- C08, END TO END on the composed model: for every injective renaming ρ of the node ids (onto "V1", "NE0", "", anything),
    `Layout(ρ G)` with the size list re-keyed runs through exactly the same computation and returns the same final states with the
    first (= real) nodes of every component renamed by ρ — coordinates, sizes, routes, flags, helper nodes and their names all
    unchanged -/
theorem layoutModelP_rename (ρ : String → String) (hρ : ∀ a b, ρ a = ρ b → a = b) (ord : G → M G) (cfg : Cfg) (es : InEdges)
    (hpop : populate (es.map fun e => (ρ e.1, ρ e.2)) = renameG ρ (populate es)) :
    layoutModelP ord (renameCfg ρ cfg) (es.map fun e => (ρ e.1, ρ e.2)) =
      (do
        let comps ← preProcess cfg es
        let finals ← comps.mapM fun c => (layoutComponentP ord cfg c).map (renameFirst ρ c.1.nodes.size)
        pure (collect cfg 0 0 finals)) := by
  unfold layoutModelP
  rw [preProcess_rename ρ hρ cfg es hpop]
  cases hp : preProcess cfg es with
  | error e => rfl
  | ok comps =>
    simp only [Except.map, bind, Except.bind]
    rw [mapM_map_rename (layoutComponentP ord (renameCfg ρ cfg))
      (fun c => (layoutComponentP ord cfg c).map (renameFirst ρ c.1.nodes.size)) (fun c => (renameG ρ c.1, c.2))
      (fun c => layoutComponentP_rename ρ ord cfg c)]
    simp only [Except.map, collect_renameCfg]

/-- renaming the first nodes changes nothing but their ids -/
theorem renameFirst_geom (ρ : String → String) (n0 : Nat) (g : G) (i : Nat) :
    ((renameFirst ρ n0 g).node i).x = (g.node i).x ∧ ((renameFirst ρ n0 g).node i).y = (g.node i).y ∧
    ((renameFirst ρ n0 g).node i).w = (g.node i).w ∧ ((renameFirst ρ n0 g).node i).h = (g.node i).h ∧
    ((renameFirst ρ n0 g).node i).virt = (g.node i).virt ∧ ((renameFirst ρ n0 g).node i).layer = (g.node i).layer ∧
    ((renameFirst ρ n0 g).node i).id = (if i < n0 ∧ i < g.nodes.size then ρ (g.node i).id else (g.node i).id) ∧
    (renameFirst ρ n0 g).edges = g.edges ∧ (renameFirst ρ n0 g).elist = g.elist ∧ (renameFirst ρ n0 g).layers = g.layers := by
  simp only [renameFirst, G.node, Array.getD_eq_getD_getElem?, Array.getElem?_mapIdx, and_true]
  by_cases h : i < g.nodes.size
  · simp only [h, Array.getElem?_eq_getElem, Option.map_some, Option.getD_some, and_true]
    by_cases h0 : i < n0 <;> simp [h0]
  · have : g.nodes[i]? = none := by simp; omega
    simp [this, h]

end Autog
