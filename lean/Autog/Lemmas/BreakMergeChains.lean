/-! Spike (C02, C05, C06): phase3.breakLongEdges / phase5.mergeLongEdges on the topology part of the state.
    Ghost chains, the `Linked` predicate, one break step keeps the invariant, merging a chain restores the
    target and erases exactly the chain. Core-only. -/


namespace Autog.BreakMergeChains

structure G where
  src   : Nat → Nat            -- edge → node
  dst   : Nat → Nat
  rev   : Nat → Bool
  virt  : Nat → Bool           -- node → is helper
  vout  : Nat → Nat            -- helper node → its single out edge  (e.To.Out[0])
  layer : Nat → Int
  order : List Nat             -- g.Edges
  nextE : Nat                  -- fresh edge / node numbers
  nextN : Nat

def upd {β} (f : Nat → β) (k : Nat) (v : β) : Nat → β := fun x => if x = k then v else f x
theorem upd_same {β} (f : Nat → β) (k : Nat) (v : β) : upd f k v k = v := by simp [upd]
theorem upd_other {β} (f : Nat → β) (k : Nat) (v : β) {x : Nat} (h : x ≠ k) : upd f k v x = f x := by simp [upd, h]

/-- `breakEdge(g, e, v)` -/
def breakEdge (g : G) (e : Nat) : G :=
  let v := g.nextN
  let f := g.nextE
  { g with
    dst := upd (upd g.dst e v) f (g.dst e),
    src := upd g.src f v,
    rev := upd g.rev f (g.rev e),
    virt := upd g.virt v true,
    vout := upd g.vout v f,
    layer := upd g.layer v (g.layer (g.src e) + 1),
    order := g.order ++ [f],
    nextE := g.nextE + 1, nextN := g.nextN + 1 }

/-- e leads through the helper chain `ch` (link edges) to the real node t -/
def Linked (g : G) : Nat → List Nat → Nat → Prop
  | e, [], t => g.dst e = t ∧ g.virt t = false
  | e, f :: fs, t => g.virt (g.dst e) = true ∧ g.vout (g.dst e) = f ∧ g.src f = g.dst e ∧ Linked g f fs t

/-- a link whose target is real is the last one -/
theorem Linked.last_of_real {g : G} : ∀ {e ch t}, Linked g e ch t → ∀ e0 ∈ e :: ch, g.virt (g.dst e0) = false →
    e0 = (e :: ch).getLast (by simp)
  | e, [], t, _, e0, he0, _ => by simpa using he0
  | e, f :: fs, t, h, e0, he0, hreal => by
    obtain ⟨h1, _, _, h4⟩ := h
    rcases List.mem_cons.1 he0 with rfl | he0
    · rw [h1] at hreal; cases hreal
    · have := Linked.last_of_real h4 e0 he0 hreal
      rw [List.getLast_cons (by simp)]; exact this

theorem Linked.last_real {g : G} : ∀ {e ch t}, Linked g e ch t →
    g.dst ((e :: ch).getLast (by simp)) = t ∧ g.virt t = false
  | e, [], t, h => by simpa [Linked] using h
  | e, f :: fs, t, h => by
    rw [List.getLast_cons (by simp)]; exact Linked.last_real h.2.2.2

/-- well-formedness of numbers: everything in use is below the fresh counters -/
structure Bounds (g : G) (es : List Nat) : Prop where
  eb : ∀ e ∈ es, e < g.nextE
  nb : ∀ e ∈ es, g.dst e < g.nextN ∧ g.src e < g.nextN

/-- frame: a chain that does not contain e0 is untouched by breaking e0 -/
theorem Linked.frame {g : G} {e0 : Nat} : ∀ {e ch t}, Linked g e ch t → e0 ∉ e :: ch →
    (∀ x ∈ e :: ch, x < g.nextE) → (∀ x ∈ e :: ch, g.dst x < g.nextN) → Linked (breakEdge g e0) e ch t
  | e, [], t, h, hne, hb, hn => by
    have he : e ≠ e0 := fun h' => hne (by simp [h'])
    have hf : e ≠ g.nextE := by have := hb e (by simp); omega
    have ht : t ≠ g.nextN := by have := hn e (by simp); rw [h.1] at this; omega
    simp only [Linked, breakEdge, upd_other _ _ _ hf, upd_other _ _ _ he, upd_other _ _ _ ht]
    exact h
  | e, f :: fs, t, h, hne, hb, hn => by
    obtain ⟨h1, h2, h3, h4⟩ := h
    have he : e ≠ e0 := fun h' => hne (by simp [h'])
    have hf : e ≠ g.nextE := by have := hb e (by simp); omega
    have hv : g.dst e ≠ g.nextN := by have := hn e (by simp); omega
    have hff : f ≠ g.nextE := by have := hb f (by simp); omega
    have ih := Linked.frame h4 (fun h' => hne (List.mem_cons_of_mem _ h'))
      (fun x hx => hb x (List.mem_cons_of_mem _ hx)) (fun x hx => hn x (List.mem_cons_of_mem _ hx))
    simp only [Linked, breakEdge, upd_other _ _ _ hf, upd_other _ _ _ he, upd_other _ _ _ hv, upd_other _ _ _ hff]
    exact ⟨h1, h2, h3, ih⟩

/-- breaking the tail e0 of a chain appends the new link -/
theorem Linked.extend {g : G} {e0 : Nat} : ∀ {e ch t}, Linked g e ch t → (e :: ch).Nodup →
    e0 = (e :: ch).getLast (by simp) →
    (∀ x ∈ e :: ch, x < g.nextE) → (∀ x ∈ e :: ch, g.dst x < g.nextN) →
    Linked (breakEdge g e0) e (ch ++ [g.nextE]) t
  | e, [], t, h, _, he0, hb, hn => by
    have he0' : e0 = e := by simpa using he0
    subst he0'
    have hf : e0 ≠ g.nextE := by have := hb e0 (by simp); omega
    have ht : t ≠ g.nextN := by have := hn e0 (by simp); rw [h.1] at this; omega
    have h1 := h.1; have h2 := h.2
    simp [Linked, breakEdge, upd_same, upd_other _ _ _ hf, upd_other _ _ _ ht, h1, h2]
  | e, f :: fs, t, h, hnd, he0, hb, hn => by
    obtain ⟨h1, h2, h3, h4⟩ := h
    rw [List.getLast_cons (by simp)] at he0
    have hnd' : (f :: fs).Nodup := (List.nodup_cons.1 hnd).2
    have he_ne : e ≠ e0 := by
      intro h'
      have : e0 ∈ f :: fs := by rw [he0]; exact List.getLast_mem _
      exact (List.nodup_cons.1 hnd).1 (h' ▸ this)
    have hf : e ≠ g.nextE := by have := hb e (by simp); omega
    have hv : g.dst e ≠ g.nextN := by have := hn e (by simp); omega
    have hff : f ≠ g.nextE := by have := hb f (by simp); omega
    have ih := Linked.extend h4 hnd' he0
      (fun x hx => hb x (List.mem_cons_of_mem _ hx)) (fun x hx => hn x (List.mem_cons_of_mem _ hx))
    simp only [List.cons_append, Linked, breakEdge, upd_other _ _ _ hf, upd_other _ _ _ he_ne,
      upd_other _ _ _ hv, upd_other _ _ _ hff]
    exact ⟨h1, h2, h3, ih⟩


/-! ### mergeLongEdges / reduceForward -/

/-- one iteration of `for e.To.IsVirtual { f := e.To.Out[0]; e.To = f.To; g.Edges.Remove(f) }` -/
def mergeStep (g : G) (e : Nat) : G :=
  let f := g.vout (g.dst e)
  { g with dst := upd g.dst e (g.dst f), order := g.order.erase f }

def reduce : Nat → G → Nat → G
  | 0, g, _ => g
  | fuel+1, g, e => if g.virt (g.dst e) then reduce fuel (mergeStep g e) e else g

theorem reduce_succ_virt {g : G} {e : Nat} (n : Nat) (h : g.virt (g.dst e) = true) :
    reduce (n+1) g e = reduce n (mergeStep g e) e := by simp [reduce, h]

/-- changing e's target does not disturb a chain that does not contain e -/
theorem Linked.frame_merge {g : G} {e0 : Nat} : ∀ {e ch t}, Linked g e ch t → e0 ∉ e :: ch →
    Linked (mergeStep g e0) e ch t
  | e, [], t, h, hne => by
    have he : e ≠ e0 := fun h' => hne (by simp [h'])
    simp only [Linked, mergeStep, upd_other _ _ _ he]; exact h
  | e, f :: fs, t, h, hne => by
    obtain ⟨h1, h2, h3, h4⟩ := h
    have he : e ≠ e0 := fun h' => hne (by simp [h'])
    have ih := Linked.frame_merge h4 (fun h' => hne (List.mem_cons_of_mem _ h'))
    simp only [Linked, mergeStep, upd_other _ _ _ he]
    exact ⟨h1, h2, h3, ih⟩

/-- merging consumes the chain front to back -/
theorem reduce_chain : ∀ (ch : List Nat) (g : G) (e t : Nat), Linked g e ch t → (e :: ch).Nodup →
    let g' := reduce (ch.length + 1) g e
    g'.dst e = t ∧ g'.order = ch.foldl (fun o f => o.erase f) g.order ∧
    g'.src = g.src ∧ g'.rev = g.rev ∧ g'.virt = g.virt ∧ g'.vout = g.vout ∧
    (∀ x, x ≠ e → g'.dst x = g.dst x)
  | [], g, e, t, h, _ => by
    simp only [Linked] at h
    simp [reduce, h.1, h.2]
  | f :: fs, g, e, t, h, hnd => by
    obtain ⟨h1, h2, h3, h4⟩ := h
    have hef : e ≠ f := fun h' => (List.nodup_cons.1 hnd).1 (by simp [h'])
    have he_fs : e ∉ f :: fs := (List.nodup_cons.1 hnd).1
    -- after one step e points where f pointed, and the rest of the chain is intact
    have hstep : Linked (mergeStep g e) e fs t := by
      have hfr : Linked (mergeStep g e) f fs t := Linked.frame_merge h4 he_fs
      have hd : (mergeStep g e).dst e = g.dst f := by simp [mergeStep, h2, upd_same]
      have hdf : (mergeStep g e).dst f = g.dst f := by simp [mergeStep, upd_other _ _ _ (Ne.symm hef)]
      cases fs with
      | nil =>
        simp only [Linked] at hfr ⊢
        rw [hd, ← hdf]; exact hfr
      | cons f2 fs2 =>
        simp only [Linked] at hfr ⊢
        rw [hd, ← hdf]; exact hfr
    have hnd' : (e :: fs).Nodup := by
      have := List.nodup_cons.1 hnd
      exact List.nodup_cons.2 ⟨fun h' => this.1 (List.mem_cons_of_mem _ h'), (List.nodup_cons.1 this.2).2⟩
    have ih := reduce_chain fs (mergeStep g e) e t hstep hnd'
    simp only [List.length_cons, List.foldl_cons]
    rw [reduce_succ_virt _ h1]
    obtain ⟨r1, r2, r3, r4, r5, r6, r7⟩ := ih
    refine ⟨r1, ?_, r3, r4, r5, r6, ?_⟩
    · rw [r2]; simp [mergeStep, h2]
    · intro x hx; rw [r7 x hx]; simp [mergeStep, upd_other _ _ _ hx]

/-- erasing a duplicate-free list that is exactly the appended part gives back the original part -/
theorem erase_all : ∀ (added orig : List Nat), (orig ++ added).Nodup →
    added.foldl (fun o f => o.erase f) (orig ++ added) = orig
  | [], orig, _ => by simp
  | a :: added, orig, h => by
    have hperm : (orig ++ a :: added).Perm (a :: (orig ++ added)) := List.perm_middle
    have hnd := hperm.nodup_iff.1 h
    have ha : a ∉ orig := fun h' => (List.nodup_cons.1 hnd).1 (List.mem_append_left _ h')
    have : (orig ++ a :: added).erase a = orig ++ added := by
      rw [List.erase_append_right _ ha]; simp
    simp only [List.foldl_cons, this]
    exact erase_all added orig (List.nodup_cons.1 hnd).2

end Autog.BreakMergeChains
