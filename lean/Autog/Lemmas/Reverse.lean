import Autog.Lemmas.GraphOps
import Autog.Model.Pre
/-! `Edge.Reverse` keeps the original direction recoverable, and `UnreverseEdges` restores it. Core-only. -/

namespace Autog
namespace G

theorem edge_modEdge (g : G) (i j : Nat) (f : Edge → Edge) :
    (g.modEdge i f).edge j = if i = j ∧ j < g.edges.size then f (g.edge j) else g.edge j := by
  by_cases h : i = j
  · subst h
    by_cases hb : i < g.edges.size
    · simp [hb, modEdge, edge, Array.getD_eq_getD_getElem?, Array.getElem_modify]
    · simp only [hb, and_false, if_false]
      simp [modEdge, edge, Array.getD_eq_getD_getElem?, Array.getElem?_modify]
      have : g.edges[i]? = none := by simp; omega
      simp [this]
  · simp [h, modEdge, edge, Array.getD_eq_getD_getElem?, Array.getElem?_modify]

@[simp] theorem modEdge_size (g : G) (i : Nat) (f : Edge → Edge) : (g.modEdge i f).edges.size = g.edges.size := by
  simp [modEdge]
@[simp] theorem modEdge_elist (g : G) (i : Nat) (f : Edge → Edge) : (g.modEdge i f).elist = g.elist := rfl
@[simp] theorem modNode_edge (g : G) (i j : Nat) (f : Node → Node) : (g.modNode i f).edge j = g.edge j := rfl

/-- the direction the edge had when it was created -/
def orig (g : G) (e : Nat) : Nat × Nat :=
  if (g.edge e).rev then ((g.edge e).dst, (g.edge e).src) else ((g.edge e).src, (g.edge e).dst)

theorem reverse_edge (g : G) (e j : Nat) :
    (g.reverse e).edge j = if e = j ∧ j < g.edges.size
      then { g.edge j with src := (g.edge e).dst, dst := (g.edge e).src, rev := !(g.edge j).rev } else g.edge j := by
  unfold reverse
  simp only [edge_modEdge, modNode_edge, modNode_edges]
  by_cases h : e = j ∧ j < g.edges.size <;> simp [h]

@[simp] theorem reverse_elist (g : G) (e : Nat) : (g.reverse e).elist = g.elist := by simp [reverse]
@[simp] theorem reverse_esize (g : G) (e : Nat) : (g.reverse e).edges.size = g.edges.size := by simp [reverse]

/-- Reverse never changes the original direction of any edge -/
theorem reverse_orig (g : G) (e j : Nat) : (g.reverse e).orig j = g.orig j := by
  unfold orig
  rw [reverse_edge]
  split
  · rename_i h
    obtain ⟨rfl, _⟩ := h
    cases (g.edge e).rev <;> simp
  · rfl

/-- … and toggles the flag of exactly that edge -/
theorem reverse_rev (g : G) (e j : Nat) :
    ((g.reverse e).edge j).rev = if e = j ∧ j < g.edges.size then !(g.edge j).rev else (g.edge j).rev := by
  rw [reverse_edge]; split <;> rfl

end G

open G in
/-- `UnreverseEdges`: afterwards no listed edge is flagged, and every edge has its original direction back -/
theorem unreverse_spec : ∀ (l : List Nat) (g : G), l.Nodup → (∀ e ∈ l, e < g.edges.size) →
    let g' := l.foldl (fun g e => if (g.edge e).rev then g.reverse e else g) g
    (∀ j, g'.orig j = g.orig j) ∧ (∀ e ∈ l, (g'.edge e).rev = false) ∧ (∀ j, j ∉ l → g'.edge j = g.edge j) ∧
    g'.edges.size = g.edges.size
  | [], g, _, _ => ⟨fun _ => rfl, fun _ h => (by cases h), fun _ _ => rfl, rfl⟩
  | e :: l, g, hnd, hb => by
    have hnd' := List.nodup_cons.1 hnd
    have he := hb e (List.mem_cons_self ..)
    simp only [List.foldl_cons]
    -- the state after the first step
    let g1 := if (g.edge e).rev then g.reverse e else g
    have hg1o : ∀ j, g1.orig j = g.orig j := by
      intro j; simp only [g1]; split
      · exact reverse_orig g e j
      · rfl
    have hg1s : g1.edges.size = g.edges.size := by simp only [g1]; split <;> simp
    have hg1e : (g1.edge e).rev = false := by
      simp only [g1]; split
      · rename_i h; rw [reverse_rev]; simp [he, h]
      · rename_i h; simpa using h
    have hg1other : ∀ j, j ≠ e → g1.edge j = g.edge j := by
      intro j hj; simp only [g1]; split
      · rw [reverse_edge]; simp [Ne.symm hj]
      · rfl
    obtain ⟨ih1, ih2, ih3, ih4⟩ := unreverse_spec l g1 hnd'.2 (fun x hx => by rw [hg1s]; exact hb x (List.mem_cons_of_mem _ hx))
    refine ⟨fun j => (ih1 j).trans (hg1o j), ?_, ?_, ih4.trans hg1s⟩
    · intro x hx
      rcases List.mem_cons.1 hx with rfl | hx
      · rw [ih3 x hnd'.1]; exact hg1e
      · exact ih2 x hx
    · intro j hj
      have hje : j ≠ e := fun h => hj (h ▸ List.mem_cons_self ..)
      rw [ih3 j (fun h => hj (List.mem_cons_of_mem _ h))]
      exact hg1other j hje

/-- C02 (directions): after `unreverseEdges` every listed edge runs from its original source to its original target -/
theorem unreverseEdges_direction (g : G) (hnd : g.elist.Nodup) (hb : ∀ e ∈ g.elist, e < g.edges.size) :
    ∀ e ∈ g.elist, (((unreverseEdges g).edge e).src, ((unreverseEdges g).edge e).dst) = g.orig e := by
  intro e he
  obtain ⟨h1, h2, _, _⟩ := unreverse_spec g.elist g hnd hb
  have := h1 e
  rw [← this]
  unfold G.orig unreverseEdges
  rw [h2 e he]
  simp

end Autog
