/-! Spike (C01/C14): small-step model of phase1/dfs.go and the orientation theorem:
    after reversing the marked edges every edge goes from a node that finishes later to one that
    finishes earlier, hence the result is acyclic. Core-only. -/


namespace Autog.DfsBreakerOrientation

abbrev OutE := Nat × Nat                 -- (edge id, target)
abbrev Frame := Nat × List OutE          -- node, out-edges still to examine

structure Cfg where
  stack   : List Frame
  visited : List Nat
  fin     : List Nat                     -- finished, newest first
  rev     : List Nat                     -- edge ids marked reversable
deriving Repr

def act (st : List Frame) : List Nat := st.map Prod.fst

/-- `none` = fuel exhausted -/
def run (out : Nat → List OutE) : Nat → Cfg → Option Cfg
  | 0, _ => none
  | _+1, c@⟨[], _, _, _⟩ => some c
  | fuel+1, ⟨(n, []) :: tl, vis, fin, rev⟩ => run out fuel ⟨tl, vis, n :: fin, rev⟩            -- active[n]=false
  | fuel+1, ⟨(n, (e, m) :: ms) :: tl, vis, fin, rev⟩ =>
    if m = n then run out fuel ⟨(n, ms) :: tl, vis, fin, rev⟩                                   -- self loop
    else if (act ((n, ms) :: tl)).contains m then run out fuel ⟨(n, ms) :: tl, vis, fin, e :: rev⟩  -- back edge
    else if vis.contains m then run out fuel ⟨(n, ms) :: tl, vis, fin, rev⟩                     -- visit returns at once
    else run out fuel ⟨(m, out m) :: (n, ms) :: tl, m :: vis, fin, rev⟩                         -- visit(m)

section
variable (out : Nat → List OutE) (src : Nat → Nat)

/-- what has to hold for a *finished* node u whose finished-earlier part of the list is l₂ -/
def EdgeOK (rev : List Nat) (u : Nat) (l₂ : List Nat) (em : OutE) : Prop :=
  em.2 = u ∨ (em.1 ∉ rev ∧ em.2 ∈ l₂) ∨ (em.1 ∈ rev ∧ em.2 ∉ u :: l₂)

def FinOK (rev fin : List Nat) : Prop :=
  ∀ l₁ u l₂, fin = l₁ ++ u :: l₂ → ∀ em ∈ out u, EdgeOK rev u l₂ em

/-- classification of an examined edge of a node that is still on the stack -/
def Cls (rev fin : List Nat) (child : Option Nat) (n : Nat) (below : List Nat) (em : OutE) : Prop :=
  em.2 = n ∨ (em.1 ∉ rev ∧ (em.2 ∈ fin ∨ some em.2 = child)) ∨ (em.1 ∈ rev ∧ em.2 ∈ below)

def FrameOK (rev fin : List Nat) (child : Option Nat) (n : Nat) (rest : List OutE) (below : List Nat) : Prop :=
  ∃ pre, out n = pre ++ rest ∧ ∀ em ∈ pre, Cls rev fin child n below em

def StackOK (rev fin : List Nat) : Option Nat → List Frame → Prop
  | _, [] => True
  | c, (n, rest) :: tl => FrameOK out rev fin c n rest (act tl) ∧ StackOK rev fin (some n) tl

structure DInv (c : Cfg) : Prop where
  finok  : FinOK out c.rev c.fin
  stk    : StackOK out c.rev c.fin none c.stack
  disj   : ∀ x ∈ act c.stack, x ∉ c.fin
  nodup  : (act c.stack).Nodup
  vis    : ∀ x, x ∈ c.visited ↔ (x ∈ act c.stack ∨ x ∈ c.fin)
  fresh  : ∀ f ∈ c.stack, ∀ em ∈ f.2, em.1 ∉ c.rev
  revown : ∀ e ∈ c.rev, src e ∈ c.visited

/-- edge ids are unique: `src e` is the only node having `e` in its out list, once -/
structure Uniq : Prop where
  own : ∀ u, ∀ em ∈ out u, src em.1 = u
  nd  : ∀ u, ((out u).map Prod.fst).Nodup
end

variable {out : Nat → List OutE} {src : Nat → Nat}

theorem Cls.mono_fin {rev fin : List Nat} {c n below em} (x : Nat) (h : Cls rev fin c n below em) :
    Cls rev (x :: fin) c n below em := by
  rcases h with h1 | ⟨h1, h2 | h2⟩ | h1
  · exact .inl h1
  · exact .inr (.inl ⟨h1, .inl (List.mem_cons_of_mem _ h2)⟩)
  · exact .inr (.inl ⟨h1, .inr h2⟩)
  · exact .inr (.inr h1)

theorem Cls.add_rev {rev fin : List Nat} {c n below em} (e : Nat) (hne : em.1 ≠ e) (h : Cls rev fin c n below em) :
    Cls (e :: rev) fin c n below em := by
  rcases h with h1 | ⟨h1, h2⟩ | ⟨h1, h2⟩
  · exact .inl h1
  · exact .inr (.inl ⟨by simp [hne, h1], h2⟩)
  · exact .inr (.inr ⟨List.mem_cons_of_mem _ h1, h2⟩)

theorem StackOK.mono_fin {rev fin : List Nat} (x : Nat) :
    ∀ {c st}, StackOK out rev fin c st → StackOK out rev (x :: fin) c st
  | _, [], _ => trivial
  | _, (_, _) :: _, h => by
    obtain ⟨⟨pre, hp, hc⟩, h2⟩ := h
    exact ⟨⟨pre, hp, fun em hem => (hc em hem).mono_fin x⟩, StackOK.mono_fin x h2⟩

/-- the child just finished: "is the child" becomes "is finished" -/
theorem StackOK.child_done {rev fin : List Nat} {n : Nat} (hn : n ∈ fin) :
    ∀ {st}, StackOK out rev fin (some n) st → StackOK out rev fin none st
  | [], _ => trivial
  | (_, _) :: _, h => by
    obtain ⟨⟨pre, hp, hc⟩, h2⟩ := h
    refine ⟨⟨pre, hp, fun em hem => ?_⟩, h2⟩
    rcases hc em hem with h1 | ⟨h1, h2 | h2⟩ | h1
    · exact .inl h1
    · exact .inr (.inl ⟨h1, .inl h2⟩)
    · have : em.2 = n := by simpa using h2
      exact .inr (.inl ⟨h1, .inl (this ▸ hn)⟩)
    · exact .inr (.inr h1)

/-- marking an edge owned by node `n` does not disturb frames of other nodes -/
theorem StackOK.add_rev (hU : Uniq out src) {rev fin : List Nat} (e n : Nat) (hsrc : src e = n) :
    ∀ {c st}, n ∉ act st → StackOK out rev fin c st → StackOK out (e :: rev) fin c st
  | _, [], _, _ => trivial
  | c, (p, rest) :: tl, hn, h => by
    obtain ⟨⟨pre, hpre, hc⟩, h2⟩ := h
    have hp : p ≠ n := by intro h; apply hn; simp [act, h]
    have hn' : n ∉ act tl := by intro h; apply hn; simp [act] at h ⊢; exact .inr h
    refine ⟨⟨pre, hpre, fun em hem => (hc em hem).add_rev e ?_⟩, StackOK.add_rev hU e n hsrc hn' h2⟩
    intro h1
    have : em ∈ out p := by rw [hpre]; exact List.mem_append_left _ hem
    have := hU.own p em this
    rw [h1, hsrc] at this; exact hp this.symm

theorem FinOK.add_rev (hU : Uniq out src) {rev fin : List Nat} (e n : Nat) (hsrc : src e = n)
    (hn : n ∉ fin) (h : FinOK out rev fin) : FinOK out (e :: rev) fin := by
  intro l₁ u l₂ heq em hem
  have hu : u ≠ n := by intro h; apply hn; rw [heq, ← h]; simp
  have hne : em.1 ≠ e := by
    intro h1
    have := hU.own u em hem
    rw [h1, hsrc] at this; exact hu this.symm
  rcases h l₁ u l₂ heq em hem with h1 | ⟨h1, h2⟩ | ⟨h1, h2⟩
  · exact .inl h1
  · exact .inr (.inl ⟨by simp [hne, h1], h2⟩)
  · exact .inr (.inr ⟨List.mem_cons_of_mem _ h1, h2⟩)

theorem FinOK.cons {rev fin : List Nat} {n : Nat} (h : FinOK out rev fin)
    (hn : ∀ em ∈ out n, EdgeOK rev n fin em) : FinOK out rev (n :: fin) := by
  intro l₁ u l₂ heq em hem
  cases l₁ with
  | nil =>
    simp only [List.nil_append, List.cons.injEq] at heq
    obtain ⟨rfl, rfl⟩ := heq
    exact hn em hem
  | cons a l₁ =>
    simp only [List.cons_append, List.cons.injEq] at heq
    exact h l₁ u l₂ heq.2 em hem

/-- ids in the examined prefix differ from the id of the edge being examined -/
theorem pre_ne (hU : Uniq out src) {n : Nat} {pre : List OutE} {e m : Nat} {ms : List OutE}
    (hp : out n = pre ++ (e, m) :: ms) : (∀ em ∈ pre, em.1 ≠ e) ∧ (∀ em ∈ ms, em.1 ≠ e) := by
  have := hU.nd n
  rw [hp, List.map_append, List.map_cons, List.nodup_append] at this
  obtain ⟨_, h2, h3⟩ := this
  constructor
  · intro em hem heq
    exact h3 em.1 (List.mem_map.2 ⟨em, hem, rfl⟩) e (List.mem_cons_self ..) heq
  · intro em hem heq
    have := (List.nodup_cons.1 h2).1
    exact this (List.mem_map.2 ⟨em, hem, heq⟩)

/-- one examined edge more -/
theorem FrameOK.step {rev fin : List Nat} {c n e m ms below}
    (h : FrameOK out rev fin c n ((e, m) :: ms) below) (hc : Cls rev fin c n below (e, m)) :
    FrameOK out rev fin c n ms below := by
  obtain ⟨pre, hp, hcl⟩ := h
  refine ⟨pre ++ [(e, m)], by simp [hp], fun em hem => ?_⟩
  rcases List.mem_append.1 hem with h1 | h1
  · exact hcl em h1
  · have : em = (e, m) := by simpa using h1
    exact this ▸ hc

theorem act_cons (n : Nat) (r : List OutE) (tl : List Frame) : act ((n, r) :: tl) = n :: act tl := rfl

/-- main invariant lemma: a terminated run preserves the invariant and empties the stack -/
theorem run_inv (hU : Uniq out src) : ∀ (fuel : Nat) (c c' : Cfg),
    DInv out src c → run out fuel c = some c' →
    DInv out src c' ∧ c'.stack = [] := by
  intro fuel
  induction fuel with
  | zero => intro c c' _ h; simp [run] at h
  | succ fuel ih =>
    intro c c' hI h
    obtain ⟨stack, vis, fin, rev⟩ := c
    match stack, hI, h with
    | [], hI, h =>
      simp only [run, Option.some.injEq] at h
      subst h; exact ⟨hI, rfl⟩
    | (n, []) :: tl, hI, h =>
      simp only [run] at h
      refine ih ⟨tl, vis, n :: fin, rev⟩ c' ?_ h
      obtain ⟨hfin, hstk, hdisj, hnd, hvis, hfresh, hrev⟩ := hI
      simp only [act_cons] at hdisj hnd hvis
      have hn_tl : n ∉ act tl := (List.nodup_cons.1 hnd).1
      obtain ⟨⟨pre, hp, hc⟩, hstk2⟩ := hstk
      simp only [List.append_nil] at hp
      refine ⟨?_, ?_, ?_, (List.nodup_cons.1 hnd).2, ?_, ?_, hrev⟩
      · -- finok
        apply hfin.cons
        intro em hem
        rcases hc em (hp ▸ hem) with h1 | ⟨h1, h2 | h2⟩ | ⟨h1, h2⟩
        · exact .inl h1
        · exact .inr (.inl ⟨h1, h2⟩)
        · simp at h2
        · refine .inr (.inr ⟨h1, ?_⟩)
          intro hmem
          rcases List.mem_cons.1 hmem with h3 | h3
          · exact hn_tl (h3 ▸ h2)
          · exact hdisj _ (List.mem_cons_of_mem _ h2) h3
      · exact (StackOK.mono_fin n hstk2).child_done (List.mem_cons_self ..)
      · intro x hx hmem
        rcases List.mem_cons.1 hmem with h3 | h3
        · exact hn_tl (h3 ▸ hx)
        · exact hdisj x (List.mem_cons_of_mem _ hx) h3
      · intro x; rw [hvis x]; simp only [List.mem_cons]
        constructor
        · rintro ((h1 | h1) | h1)
          · exact .inr (.inl h1)
          · exact .inl h1
          · exact .inr (.inr h1)
        · rintro (h1 | h1 | h1)
          · exact .inl (.inr h1)
          · exact .inl (.inl h1)
          · exact .inr h1
      · intro f hf; exact hfresh f (List.mem_cons_of_mem _ hf)
    | (n, (e, m) :: ms) :: tl, hI, h =>
      simp only [run] at h
      obtain ⟨hfin, hstk, hdisj, hnd, hvis, hfresh, hrev⟩ := hI
      obtain ⟨hframe, hstk2⟩ := hstk
      have hn_tl : n ∉ act tl := (List.nodup_cons.1 hnd).1
      have hfresh' : ∀ f ∈ ((n, ms) :: tl), ∀ em ∈ f.2, em.1 ∉ rev := by
        intro f hf em hem
        rcases List.mem_cons.1 hf with rfl | hf
        · exact hfresh (n, (e, m) :: ms) (List.mem_cons_self ..) em (List.mem_cons_of_mem _ hem)
        · exact hfresh f (List.mem_cons_of_mem _ hf) em hem
      have he_fresh : e ∉ rev := hfresh (n, (e, m) :: ms) (List.mem_cons_self ..) (e, m) (List.mem_cons_self ..)
      split at h
      · -- self loop
        rename_i hmn
        refine ih ⟨(n, ms) :: tl, vis, fin, rev⟩ c' ⟨hfin, ⟨hframe.step (.inl hmn), hstk2⟩, hdisj, hnd, hvis, hfresh', hrev⟩ h
      · split at h
        · -- back edge: m is active
          rename_i hmn hact
          have hm_tl : m ∈ act tl := by
            have : m ∈ act ((n, ms) :: tl) := by simpa using hact
            rw [act_cons] at this
            rcases List.mem_cons.1 this with h1 | h1
            · exact absurd h1 hmn
            · exact h1
          obtain ⟨pre, hp, hc⟩ := hframe
          have hsrc : src e = n := hU.own n (e, m) (by rw [hp]; simp)
          obtain ⟨hne1, hne2⟩ := pre_ne hU hp
          refine ih ⟨(n, ms) :: tl, vis, fin, e :: rev⟩ c' ⟨?_, ⟨?_, ?_⟩, hdisj, hnd, hvis, ?_, ?_⟩ h
          · exact hfin.add_rev hU e n hsrc (hdisj n (by simp [act_cons]))
          · refine ⟨pre ++ [(e, m)], by simp [hp], fun em hem => ?_⟩
            rcases List.mem_append.1 hem with h1 | h1
            · exact (hc em h1).add_rev e (hne1 em h1)
            · have : em = (e, m) := by simpa using h1
              subst this
              exact .inr (.inr ⟨List.mem_cons_self .., hm_tl⟩)
          · exact hstk2.add_rev hU e n hsrc hn_tl
          · intro f hf em hem hmem
            rcases List.mem_cons.1 hmem with h1 | h1
            · -- em.1 = e : impossible by uniqueness
              rcases List.mem_cons.1 hf with rfl | hf
              · exact hne2 em hem h1
              · have hfn : f.1 ≠ n := by
                  intro h2; apply hn_tl; rw [← h2]; exact List.mem_map_of_mem (f := Prod.fst) hf
                -- the frame invariant of f gives out f.1 = pre' ++ f.2
                have : ∀ {c st}, StackOK out rev fin c st → ∀ f ∈ st, ∀ em ∈ f.2, em ∈ out f.1 := by
                  intro c st
                  induction st generalizing c with
                  | nil => intro _ f hf; cases hf
                  | cons g st ih2 =>
                    intro hs f hf em hem
                    obtain ⟨p, r⟩ := g
                    rcases List.mem_cons.1 hf with rfl | hf
                    · obtain ⟨⟨pre', hp', _⟩, _⟩ := hs
                      rw [hp']; exact List.mem_append_right _ hem
                    · exact ih2 hs.2 f hf em hem
                have hown := hU.own f.1 em (this hstk2 f hf em hem)
                rw [h1, hsrc] at hown
                exact hfn hown.symm
            · exact hfresh' f hf em hem h1
          · intro e' he'
            rcases List.mem_cons.1 he' with rfl | h1
            · rw [hsrc, hvis]; exact .inl (by simp [act_cons])
            · exact hrev e' h1
        · split at h
          · -- already visited and not active: finished
            rename_i hmn hact hv
            have hmfin : m ∈ fin := by
              have h1 : m ∈ vis := by simpa using hv
              rcases (hvis m).1 h1 with h2 | h2
              · exfalso; apply hact
                have : m ∈ act ((n, ms) :: tl) := by
                  rw [act_cons] at h2 ⊢; exact h2
                simpa using this
              · exact h2
            refine ih ⟨(n, ms) :: tl, vis, fin, rev⟩ c' ⟨hfin, ⟨hframe.step (.inr (.inl ⟨he_fresh, .inl hmfin⟩)), hstk2⟩, hdisj, hnd, hvis, hfresh', hrev⟩ h
          · -- visit(m): push
            rename_i hmn hact hv
            have hmvis : m ∉ vis := by simpa using hv
            have hm_act : m ∉ act ((n, (e, m) :: ms) :: tl) := fun h1 => hmvis ((hvis m).2 (.inl h1))
            have hm_fin : m ∉ fin := fun h1 => hmvis ((hvis m).2 (.inr h1))
            refine ih ⟨(m, out m) :: (n, ms) :: tl, m :: vis, fin, rev⟩ c' ⟨hfin, ⟨⟨[], rfl, fun _ h => by cases h⟩, ?_, hstk2⟩, ?_, ?_, ?_, ?_, ?_⟩ h
            · -- the parent frame now has child m
              obtain ⟨pre, hp, hc⟩ := hframe
              refine ⟨pre ++ [(e, m)], by simp [hp], fun em hem => ?_⟩
              rcases List.mem_append.1 hem with h1 | h1
              · -- older examined edges: child was none
                rcases hc em h1 with h2 | ⟨h2, h3 | h3⟩ | h2
                · exact .inl h2
                · exact .inr (.inl ⟨h2, .inl h3⟩)
                · simp at h3
                · exact .inr (.inr h2)
              · have : em = (e, m) := by simpa using h1
                subst this
                exact .inr (.inl ⟨he_fresh, .inr rfl⟩)
            · intro x hx
              rw [act_cons] at hx
              rcases List.mem_cons.1 hx with rfl | hx
              · exact hm_fin
              · exact hdisj x (by rw [act_cons] at hx ⊢; exact hx)
            · rw [act_cons]
              exact List.nodup_cons.2 ⟨by rw [act_cons] at hm_act ⊢; exact hm_act, by rw [act_cons] at hnd ⊢; exact hnd⟩
            · intro x
              simp only [List.mem_cons, act_cons, hvis x]
              constructor
              · rintro (h1 | (h1 | h1) | h1)
                · exact .inl (.inl h1)
                · exact .inl (.inr (.inl h1))
                · exact .inl (.inr (.inr h1))
                · exact .inr h1
              · rintro ((h1 | h1 | h1) | h1)
                · exact .inl h1
                · exact .inr (.inl (.inl h1))
                · exact .inr (.inl (.inr h1))
                · exact .inr (.inr h1)
            · intro f hf em hem
              rcases List.mem_cons.1 hf with rfl | hf
              · -- edges of the unvisited node m cannot be marked yet
                intro hmem
                have h1 := hrev em.1 hmem
                rw [hU.own m em hem] at h1
                exact hmvis h1
              · exact hfresh' f hf em hem
            · intro e' he'; exact List.mem_cons_of_mem _ (hrev e' he')

end Autog.DfsBreakerOrientation
