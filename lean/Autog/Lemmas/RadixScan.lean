/-! Spike (C12, continued): the radix-sort step of countCrossings. Scanning the m×n presence matrix row by row
    lists the edges in ascending lexicographic order, without duplicates, and it lists exactly the marked cells. -/


namespace Autog.RadixScan

def lexLt (a b : Nat × Nat) : Prop := a.1 < b.1 ∨ (a.1 = b.1 ∧ a.2 < b.2)

/-- `for i in rows { for j in cols { if mat[i][j] != nil { emit } } }` -/
def scan (m n : Nat) (present : Nat → Nat → Bool) : List (Nat × Nat) :=
  (List.range m).flatMap (fun i => (List.range n).filterMap (fun j => if present i j then some (i, j) else none))

theorem ite_some {β} {c : Bool} {v x : β} (h : (if c then some v else none) = some x) : c = true ∧ x = v := by
  cases c <;> simp at h ⊢; exact h.symm

theorem mem_scan {m n : Nat} {present : Nat → Nat → Bool} {p : Nat × Nat} :
    p ∈ scan m n present ↔ p.1 < m ∧ p.2 < n ∧ present p.1 p.2 = true := by
  unfold scan
  simp only [List.mem_flatMap, List.mem_range, List.mem_filterMap]
  constructor
  · rintro ⟨i, hi, j, hj, h⟩
    split at h
    · rename_i hp
      simp only [Option.some.injEq] at h
      subst h; exact ⟨hi, hj, hp⟩
    · cases h
  · rintro ⟨h1, h2, h3⟩
    exact ⟨p.1, h1, p.2, h2, by simp [h3]⟩

/-- ascending lexicographic order -/
theorem scan_sorted (m n : Nat) (present : Nat → Nat → Bool) : List.Pairwise lexLt (scan m n present) := by
  unfold scan
  rw [List.pairwise_flatMap]
  constructor
  · intro i _
    rw [List.pairwise_filterMap]
    refine List.Pairwise.imp ?_ (List.pairwise_lt_range (n := n))
    intro a b hab x hx y hy
    obtain ⟨_, rfl⟩ := ite_some hx
    obtain ⟨_, rfl⟩ := ite_some hy
    exact .inr ⟨rfl, hab⟩
  · refine List.Pairwise.imp ?_ (List.pairwise_lt_range (n := m))
    intro a b hab x hx y hy
    simp only [List.mem_filterMap, List.mem_range] at hx hy
    obtain ⟨j, _, hj⟩ := hx
    obtain ⟨k, _, hk⟩ := hy
    obtain ⟨_, rfl⟩ := ite_some hj
    obtain ⟨_, rfl⟩ := ite_some hk
    exact .inl hab

theorem lexLt_irrefl (a : Nat × Nat) : ¬ lexLt a a := by
  unfold lexLt; omega

theorem scan_nodup (m n : Nat) (present : Nat → Nat → Bool) : (scan m n present).Nodup := by
  have := scan_sorted m n present
  refine this.imp ?_
  intro a b h heq
  rw [heq] at h
  exact lexLt_irrefl b h

/-- the scan is a permutation of any duplicate-free edge list that marks exactly the same cells -/
theorem scan_perm (m n : Nat) (es : List (Nat × Nat)) (hnd : es.Nodup)
    (hb : ∀ e ∈ es, e.1 < m ∧ e.2 < n) :
    (scan m n (fun i j => es.contains (i, j))).Perm es := by
  rw [List.perm_ext_iff_of_nodup (scan_nodup ..) hnd]
  intro a
  rw [mem_scan]
  constructor
  · rintro ⟨_, _, h⟩; simpa using h
  · intro h; exact ⟨(hb a h).1, (hb a h).2, by simpa using h⟩

/-- inserted-last-first view: the reversed scan is sorted descending from the head -/
def LexSorted : List (Nat × Nat) → Prop
  | [] => True
  | e :: es => (∀ f ∈ es, f.1 < e.1 ∨ (f.1 = e.1 ∧ f.2 < e.2)) ∧ LexSorted es

theorem lexSorted_of_pairwise : ∀ (l : List (Nat × Nat)), List.Pairwise (fun a b => lexLt b a) l → LexSorted l
  | [], _ => trivial
  | e :: es, h => by
    rw [List.pairwise_cons] at h
    exact ⟨fun f hf => h.1 f hf, lexSorted_of_pairwise es h.2⟩

theorem scan_reverse_lexSorted (m n : Nat) (present : Nat → Nat → Bool) :
    LexSorted (scan m n present).reverse :=
  lexSorted_of_pairwise _ (List.pairwise_reverse.2 (scan_sorted m n present))

#eval scan 3 4 (fun i j => [(0,2),(1,0),(1,3),(2,1)].contains (i,j))

end Autog.RadixScan
