import Autog.Lemmas.SetXs
/-! `placeAllWith`: one value list per layer, written to pairwise distinct nodes, read back. Core-only. -/

namespace Autog

variable (upd : Node → Rat → Node)

/-- any projection that the update does not change is preserved for every node -/
theorem setCoord_keep {α} (proj : Node → α) (hp : ∀ nd v, proj (upd nd v) = proj nd) :
    ∀ (ns : List Nat) (xs : List Rat) (g : G) (m : Nat), proj ((setCoord upd g ns xs).node m) = proj (g.node m)
  | [], xs, g, m => by simp [setCoord_nil upd]
  | n :: ns, [], g, m => by simp [setCoord]
  | n :: ns, x :: xs, g, m => by
    rw [setCoord_cons upd, setCoord_keep proj hp ns xs _ m, G.node_modNode]
    split <;> simp [hp]

theorem placeAllWith_nil (g : G) : placeAllWith upd g [] = g := rfl
theorem placeAllWith_cons (g : G) (p : List Nat × List Rat) (pl : List (List Nat × List Rat)) :
    placeAllWith upd g (p :: pl) = placeAllWith upd (setCoord upd g p.1 p.2) pl := by simp [placeAllWith]

theorem placeAllWith_keep {α} (proj : Node → α) (hp : ∀ nd v, proj (upd nd v) = proj nd) :
    ∀ (pl : List (List Nat × List Rat)) (g : G) (m : Nat), proj ((placeAllWith upd g pl).node m) = proj (g.node m)
  | [], g, m => rfl
  | p :: pl, g, m => by rw [placeAllWith_cons, placeAllWith_keep proj hp pl, setCoord_keep upd proj hp]

theorem placeAllWith_frame : ∀ (pl : List (List Nat × List Rat)) (g : G), (∀ p ∈ pl, p.1.length = p.2.length) →
    (placeAllWith upd g pl).nodes.size = g.nodes.size ∧ (placeAllWith upd g pl).layers = g.layers ∧
    (placeAllWith upd g pl).edges = g.edges ∧ (placeAllWith upd g pl).elist = g.elist
  | [], g, _ => by simp [placeAllWith_nil]
  | p :: pl, g, h => by
    rw [placeAllWith_cons]
    have h1 := setCoord_frame upd p.1 p.2 g (h p (List.mem_cons_self ..))
    have h2 := placeAllWith_frame pl (setCoord upd g p.1 p.2) (fun q hq => h q (List.mem_cons_of_mem _ hq))
    exact ⟨h2.1.trans h1.1, h2.2.1.trans h1.2.1, h2.2.2.1.trans h1.2.2.1, h2.2.2.2.trans h1.2.2.2⟩

theorem placeAllWith_other : ∀ (pl : List (List Nat × List Rat)) (g : G) (m : Nat),
    m ∉ pl.flatMap (·.1) → (placeAllWith upd g pl).node m = g.node m
  | [], g, m, _ => rfl
  | p :: pl, g, m, hm => by
    rw [placeAllWith_cons, placeAllWith_other pl _ m (fun h => hm (by simp [List.flatMap_cons]; exact Or.inr (by simpa using h)))]
    exact setCoord_other upd p.1 p.2 g m (fun h => hm (by simp [List.flatMap_cons]; exact Or.inl h))

/-- well-formed placement: node lists pairwise disjoint and duplicate free, in bounds, one value per node -/
structure PlWF (g : G) (pl : List (List Nat × List Rat)) : Prop where
  nodup : (pl.flatMap (·.1)).Nodup
  bound : ∀ n ∈ pl.flatMap (·.1), n < g.nodes.size
  len   : ∀ p ∈ pl, p.1.length = p.2.length

theorem placeAllWith_read : ∀ (pl : List (List Nat × List Rat)) (g : G), PlWF g pl →
    ∀ p ∈ pl, ∀ (i : Nat) (h1 : i < p.1.length) (h2 : i < p.2.length),
      (placeAllWith upd g pl).node p.1[i] = upd (g.node p.1[i]) p.2[i]
  | [], _, _, p, hp, _, _, _ => by cases hp
  | q :: pl, g, hwf, p, hp, i, h1, h2 => by
    rw [placeAllWith_cons]
    have hnd : (q.1 ++ pl.flatMap (·.1)).Nodup := by simpa [List.flatMap_cons] using hwf.nodup
    obtain ⟨hq, hrest, hdisj⟩ := List.nodup_append.1 hnd
    have hlenq := hwf.len q (List.mem_cons_self ..)
    have hfr := setCoord_frame upd q.1 q.2 g hlenq
    rcases List.mem_cons.1 hp with rfl | hp'
    · have hnot : p.1[i] ∉ pl.flatMap (·.1) := fun h => hdisj _ (List.getElem_mem h1) _ h rfl
      rw [placeAllWith_other upd pl _ _ hnot]
      exact setCoord_read upd p.1 p.2 g hq (fun n hn => hwf.bound n (by simp [List.flatMap_cons]; exact Or.inl hn)) hlenq i h1 h2
    · have hwf' : PlWF (setCoord upd g q.1 q.2) pl :=
        ⟨hrest, fun n hn => by rw [hfr.1]; exact hwf.bound n (by simp [List.flatMap_cons]; exact Or.inr (by simpa using hn)),
         fun r hr => hwf.len r (List.mem_cons_of_mem _ hr)⟩
      rw [placeAllWith_read pl _ hwf' p hp' i h1 h2]
      have hmem : p.1[i] ∈ pl.flatMap (·.1) := List.mem_flatMap.2 ⟨p, hp', List.getElem_mem h1⟩
      have hnq : p.1[i] ∉ q.1 := fun h => hdisj _ h _ hmem rfl
      rw [setCoord_other upd q.1 q.2 g _ hnq]

/-- the values of a layer, read back as a list through any reader that returns what the update wrote -/
theorem placeAllWith_vals (rd : Node → Rat) (hrd : ∀ nd v, rd (upd nd v) = v)
    (pl : List (List Nat × List Rat)) (g : G) (hwf : PlWF g pl) (p : List Nat × List Rat) (hp : p ∈ pl) :
    p.1.map (fun n => rd ((placeAllWith upd g pl).node n)) = p.2 := by
  apply List.ext_getElem
  · simp [hwf.len p hp]
  · intro i h1 h2
    have h1' : i < p.1.length := by simpa using h1
    simp only [List.getElem_map]
    rw [placeAllWith_read upd pl g hwf p hp i h1' h2, hrd]

/-! ### the two instances -/

theorem placeAll_xs (pl : List (List Nat × List Rat)) (g : G) (hwf : PlWF g pl) (p : List Nat × List Rat) (hp : p ∈ pl) :
    p.1.map (fun n => ((placeAll g pl).node n).x) = p.2 :=
  placeAllWith_vals updX Node.x (fun _ _ => rfl) pl g hwf p hp

theorem placeAll_dropX (pl : List (List Nat × List Rat)) (g : G) (m : Nat) :
    ((placeAll g pl).node m).dropX = (g.node m).dropX :=
  placeAllWith_keep updX Node.dropX (fun _ _ => rfl) pl g m

theorem placeY_ys (pl : List (List Nat × List Rat)) (g : G) (hwf : PlWF g pl) (p : List Nat × List Rat) (hp : p ∈ pl) :
    p.1.map (fun n => ((placeAllWith updY g pl).node n).y) = p.2 :=
  placeAllWith_vals updY Node.y (fun _ _ => rfl) pl g hwf p hp

theorem placeY_dropY (pl : List (List Nat × List Rat)) (g : G) (m : Nat) :
    ((placeAllWith updY g pl).node m).dropY = (g.node m).dropY :=
  placeAllWith_keep updY Node.dropY (fun _ _ => rfl) pl g m

end Autog
