/-! Spike (C15, C18): state machine of internal/monitor (globals m, p, a) and of the way autog.Layout
    uses it (Set; defer Reset; PrefixFor/Log …). Core-only. -/


namespace Autog.MonitorMachine

/-- the three package-level variables; monitors are identified by a number -/
structure MonSt where
  m : Option Nat
  p : Nat
  a : Nat
deriving DecidableEq, Repr

def MonSt.init : MonSt := ⟨none, 0, 0⟩

inductive Op where
  | set (mon : Option Nat)       -- monitor.Set(layoutOpts.monitor)
  | prefixFor (phase alg : Nat)  -- monitor.PrefixFor(proc)
  | log (key : Nat)              -- monitor.Log(key, val)
  | reset                        -- monitor.Reset()   (deferred)
deriving Repr

/-- an event delivered to a monitor -/
structure Ev where
  mon : Nat
  phase : Nat
  alg : Nat
  key : Nat
deriving Repr

/-- one operation: new state, event delivered (if any), and whether a global was WRITTEN -/
def step (s : MonSt) : Op → MonSt × Option Ev × Bool
  | .set none => (s, none, false)                              -- `if monitor != nil` is false: no write
  | .set (some k) => ({ s with m := some k }, none, true)
  | .prefixFor ph al => match s.m with
      | none => (s, none, false)
      | some _ => ({ s with p := ph, a := al }, none, true)
  | .log key => match s.m with
      | none => (s, none, false)
      | some k => (s, some ⟨k, s.p, s.a, key⟩, false)
  | .reset => match s.m with
      | none => (s, none, false)
      | some _ => (MonSt.init, none, true)

/-- body operations of a call: anything but set/reset -/
def Op.isBody : Op → Bool
  | .prefixFor _ _ => true
  | .log _ => true
  | _ => false

/-- a Layout call = Set o ; body (cut short anywhere by a panic) ; Reset (deferred, always runs) -/
def callOps (o : Option Nat) (body : List Op) : List Op := .set o :: body ++ [.reset]

def runOps (s : MonSt) : List Op → MonSt × List Ev × Bool
  | [] => (s, [], false)
  | op :: ops =>
    let (s1, ev, w) := step s op
    let (s2, evs, w2) := runOps s1 ops
    (s2, ev.toList ++ evs, w || w2)

/-! ## C15: with no monitor, no global is ever written — under ANY interleaving of ANY calls -/

/-- every operation of every monitor-less call is one of these -/
def Op.noMon : Op → Bool
  | .set (some _) => false
  | _ => true

theorem step_noMon (s : MonSt) (op : Op) (hs : s.m = none) (hop : op.noMon) :
    step s op = (s, none, false) := by
  cases op with
  | set o => cases o <;> simp_all [step, Op.noMon]
  | prefixFor ph al => simp [step, hs]
  | log k => simp [step, hs]
  | reset => simp [step, hs]

/-- any sequence (= any interleaving) of monitor-less operations from the initial state:
    state unchanged, nothing delivered, nothing written -/
theorem C15_no_shared_write (ops : List Op) (h : ∀ op ∈ ops, op.noMon) (s : MonSt) (hs : s.m = none) :
    runOps s ops = (s, [], false) := by
  induction ops with
  | nil => rfl
  | cons op ops ih =>
    have h1 := step_noMon s op hs (h op (List.mem_cons_self ..))
    have h2 := ih (fun o ho => h o (List.mem_cons_of_mem _ ho))
    simp [runOps, h1, h2]

/-! ## C18: sequential histories -/

theorem body_keeps_m (s : MonSt) (body : List Op) (hb : ∀ op ∈ body, op.isBody) :
    (runOps s body).1.m = s.m ∧ ∀ ev ∈ (runOps s body).2.1, some ev.mon = s.m := by
  induction body generalizing s with
  | nil => simp [runOps]
  | cons op body ih =>
    have hop := hb op (List.mem_cons_self ..)
    have hrest := fun o ho => hb o (List.mem_cons_of_mem _ ho)
    cases op with
    | set o => simp [Op.isBody] at hop
    | reset => simp [Op.isBody] at hop
    | prefixFor ph al =>
      cases hm : s.m with
      | none =>
        have := ih s hrest
        simp [runOps, step, hm] at this ⊢; exact this
      | some k =>
        have := ih { s with p := ph, a := al } hrest
        simp [runOps, step, hm] at this ⊢; exact this
    | log key =>
      cases hm : s.m with
      | none =>
        have := ih s hrest
        simp [runOps, step, hm] at this ⊢; exact this
      | some k =>
        have := ih s hrest
        simp [runOps, step, hm] at this ⊢
        exact ⟨this.1, this.2⟩

theorem runOps_append (s : MonSt) (l₁ l₂ : List Op) : runOps s (l₁ ++ l₂) =
    ((runOps (runOps s l₁).1 l₂).1, (runOps s l₁).2.1 ++ (runOps (runOps s l₁).1 l₂).2.1,
     ((runOps s l₁).2.2 || (runOps (runOps s l₁).1 l₂).2.2)) := by
  induction l₁ generalizing s with
  | nil => simp [runOps]
  | cons op l₁ ih => simp [runOps, ih, Bool.or_assoc]

/-- one call started in the clean state: every event goes to the call's own monitor, and the state is clean
    again afterwards — whatever the body, i.e. also when it is cut short by a panic -/
theorem C18_call (o : Option Nat) (body : List Op) (hb : ∀ op ∈ body, op.isBody) :
    (runOps MonSt.init (callOps o body)).1 = MonSt.init ∧
    ∀ ev ∈ (runOps MonSt.init (callOps o body)).2.1, some ev.mon = o := by
  cases o with
  | none =>
    have h : ∀ op ∈ callOps none body, op.noMon := by
      intro op hop
      unfold callOps at hop
      rcases List.mem_cons.1 hop with h1 | h1
      · subst h1; rfl
      · rcases List.mem_append.1 h1 with h2 | h2
        · have := hb op h2; cases op <;> simp_all [Op.isBody, Op.noMon]
        · have : op = .reset := by simpa using h2
          subst this; rfl
    rw [C15_no_shared_write _ h MonSt.init rfl]
    exact ⟨rfl, fun ev hev => by cases hev⟩
  | some k =>
    have hk := body_keeps_m { MonSt.init with m := some k } body hb
    have e : runOps MonSt.init (callOps (some k) body) =
        (let r := runOps { MonSt.init with m := some k } (body ++ [.reset]); (r.1, r.2.1, true || r.2.2)) := by
      simp [callOps, runOps, step]
    rw [e, runOps_append]
    have hm : (runOps { MonSt.init with m := some k } body).1.m = some k := hk.1
    have hreset : ∀ s : MonSt, s.m = some k → runOps s [.reset] = (MonSt.init, [], true) := by
      intro s hs; simp [runOps, step, hs]
    rw [hreset _ hm]
    refine ⟨rfl, ?_⟩
    intro ev hev
    simp only [List.append_nil] at hev
    exact hk.2 ev hev

/-- a history of calls: each starts clean, so events of call i all carry monitor i; none leaks -/
theorem C18_history (calls : List (Option Nat × List Op)) (hb : ∀ c ∈ calls, ∀ op ∈ c.2, op.isBody) :
    ∀ c ∈ calls, (runOps MonSt.init (callOps c.1 c.2)).1 = MonSt.init :=
  fun c hc => (C18_call c.1 c.2 (hb c hc)).1

#eval runOps MonSt.init (callOps (some 7) [.prefixFor 3 1, .log 42, .log 43])

end Autog.MonitorMachine
