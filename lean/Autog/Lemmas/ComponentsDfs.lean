/-! Spike (C01/C02/C09): small-step model of connected.walkDfs (edge-marking DFS over In then Out edges)
    and its two guarantees: the visited node set is closed under incident edges, and every visited node
    is connected to the start node. Core-only. -/


namespace Autog.ComponentsDfs

abbrev Inc := Nat × Nat                    -- (edge id, other end)
abbrev Frame := Nat × List Inc

structure Cfg where
  stack : List Frame
  visN  : List Nat
  visE  : List Nat

/-- `none` = fuel exhausted -/
def run (inc : Nat → List Inc) : Nat → Cfg → Option Cfg
  | 0, _ => none
  | _+1, c@⟨[], _, _⟩ => some c
  | fuel+1, ⟨(_, []) :: tl, vn, ve⟩ => run inc fuel ⟨tl, vn, ve⟩
  | fuel+1, ⟨(n, (e, m) :: ms) :: tl, vn, ve⟩ =>
    if ve.contains e then run inc fuel ⟨(n, ms) :: tl, vn, ve⟩
    else run inc fuel ⟨(m, inc m) :: (n, ms) :: tl, m :: vn, e :: ve⟩     -- visitedE[e]=true; walkDfs(m)

/-- undirected connection through incident edges -/
inductive Conn (inc : Nat → List Inc) : Nat → Nat → Prop
  | refl (a) : Conn inc a a
  | step {a b c e} : Conn inc a b → (e, c) ∈ inc b → Conn inc a c

structure CInv (inc : Nat → List Inc) (start : Nat) (c : Cfg) : Prop where
  /-- an unmarked incident edge of a visited node is still on somebody's todo list -/
  pend  : ∀ n ∈ c.visN, ∀ em ∈ inc n, em.1 ∉ c.visE → ∃ f ∈ c.stack, f.1 = n ∧ em ∈ f.2
  /-- both ends of a marked edge are visited -/
  mark  : ∀ n, ∀ em ∈ inc n, em.1 ∈ c.visE → n ∈ c.visN ∧ em.2 ∈ c.visN
  conn  : ∀ n ∈ c.visN, Conn inc start n
  stk   : ∀ f ∈ c.stack, f.1 ∈ c.visN ∧ ∀ em ∈ f.2, em ∈ inc f.1

/-- the two ends of an edge see the same id: if (e, m) is incident to n then (e, n) is incident to m -/
def Sym (inc : Nat → List Inc) : Prop := ∀ n e m, (e, m) ∈ inc n → (e, n) ∈ inc m

/-- an edge id belongs to one pair of ends only -/
def IdEnds (inc : Nat → List Inc) : Prop :=
  ∀ n n' e m m', (e, m) ∈ inc n → (e, m') ∈ inc n' → (n' = n ∧ m' = m) ∨ (n' = m ∧ m' = n)

theorem run_inv {inc : Nat → List Inc} {start : Nat} (hid : IdEnds inc) :
    ∀ (fuel : Nat) (c c' : Cfg), CInv inc start c → run inc fuel c = some c' →
      CInv inc start c' ∧ c'.stack = [] := by
  intro fuel
  induction fuel with
  | zero => intro c c' _ h; simp [run] at h
  | succ fuel ih =>
    intro c c' hI h
    obtain ⟨stack, vn, ve⟩ := c
    obtain ⟨hpend, hmark, hconn, hstk⟩ := hI
    match stack, hpend, hstk, h with
    | [], hpend, hstk, h =>
      simp only [run, Option.some.injEq] at h
      subst h; exact ⟨⟨hpend, hmark, hconn, hstk⟩, rfl⟩
    | (n, []) :: tl, hpend, hstk, h =>
      simp only [run] at h
      refine ih ⟨tl, vn, ve⟩ c' ⟨?_, hmark, hconn, fun f hf => hstk f (List.mem_cons_of_mem _ hf)⟩ h
      intro x hx em hem hne
      obtain ⟨f, hf, h1, h2⟩ := hpend x hx em hem hne
      rcases List.mem_cons.1 hf with rfl | hf
      · cases h2
      · exact ⟨f, hf, h1, h2⟩
    | (n, (e, m) :: ms) :: tl, hpend, hstk, h =>
      simp only [run] at h
      have hn := hstk (n, (e, m) :: ms) (List.mem_cons_self ..)
      have hem : (e, m) ∈ inc n := hn.2 (e, m) (List.mem_cons_self ..)
      split at h
      · -- edge already marked: drop it from this todo list
        rename_i hve
        have hve' : e ∈ ve := by simpa using hve
        refine ih ⟨(n, ms) :: tl, vn, ve⟩ c' ⟨?_, hmark, hconn, ?_⟩ h
        · intro x hx em' hem' hne
          obtain ⟨f, hf, h1, h2⟩ := hpend x hx em' hem' hne
          rcases List.mem_cons.1 hf with rfl | hf
          · rcases List.mem_cons.1 h2 with rfl | h2
            · exact absurd hve' hne
            · exact ⟨(n, ms), List.mem_cons_self .., h1, h2⟩
          · exact ⟨f, List.mem_cons_of_mem _ hf, h1, h2⟩
        · intro f hf
          rcases List.mem_cons.1 hf with rfl | hf
          · exact ⟨hn.1, fun em' h' => hn.2 em' (List.mem_cons_of_mem _ h')⟩
          · exact hstk f (List.mem_cons_of_mem _ hf)
      · -- traverse e to m
        rename_i hve
        have hve' : e ∉ ve := by simpa using hve
        refine ih ⟨(m, inc m) :: (n, ms) :: tl, m :: vn, e :: ve⟩ c' ⟨?_, ?_, ?_, ?_⟩ h
        · -- pend
          intro x hx em' hem' hne
          have hne' : em'.1 ∉ ve := fun h' => hne (List.mem_cons_of_mem _ h')
          have hne'' : em'.1 ≠ e := fun h' => hne (h' ▸ List.mem_cons_self ..)
          by_cases hxm : x = m
          · subst hxm
            exact ⟨(x, inc x), List.mem_cons_self .., rfl, hem'⟩
          · have hx' : x ∈ vn := by
              rcases List.mem_cons.1 hx with h1 | h1
              · exact absurd h1 hxm
              · exact h1
            obtain ⟨f, hf, h1, h2⟩ := hpend x hx' em' hem' hne'
            rcases List.mem_cons.1 hf with rfl | hf
            · rcases List.mem_cons.1 h2 with rfl | h2
              · exact absurd rfl hne''
              · exact ⟨(n, ms), by simp, h1, h2⟩
            · exact ⟨f, by simp [hf], h1, h2⟩
        · -- mark
          intro x em' hem' hmem
          rcases List.mem_cons.1 hmem with h1 | h1
          · obtain ⟨e', m'⟩ := em'
            simp only at h1
            subst h1
            rcases hid n x e' m m' hem hem' with ⟨h2, h3⟩ | ⟨h2, h3⟩
            · subst h2; subst h3
              exact ⟨List.mem_cons_of_mem _ hn.1, List.mem_cons_self ..⟩
            · subst h2; subst h3
              exact ⟨List.mem_cons_self .., List.mem_cons_of_mem _ hn.1⟩
          · have := hmark x em' hem' h1
            exact ⟨List.mem_cons_of_mem _ this.1, List.mem_cons_of_mem _ this.2⟩
        · -- conn
          intro x hx
          rcases List.mem_cons.1 hx with rfl | hx
          · exact .step (hconn n hn.1) hem
          · exact hconn x hx
        · -- stk
          intro f hf
          rcases List.mem_cons.1 hf with rfl | hf
          · exact ⟨List.mem_cons_self .., fun _ h' => h'⟩
          · rcases List.mem_cons.1 hf with rfl | hf
            · exact ⟨List.mem_cons_of_mem _ hn.1, fun em' h' => hn.2 em' (List.mem_cons_of_mem _ h')⟩
            · have := hstk f (List.mem_cons_of_mem _ hf)
              exact ⟨List.mem_cons_of_mem _ this.1, this.2⟩


/-- at the end: the visited set is closed (every incident edge of a visited node is marked and leads to a
    visited node) and connected to the start -/
theorem closed_connected {inc : Nat → List Inc} {start : Nat} (hid : IdEnds inc)
    (fuel : Nat) (c c' : Cfg) (hI : CInv inc start c) (h : run inc fuel c = some c') :
    (∀ n ∈ c'.visN, ∀ em ∈ inc n, em.1 ∈ c'.visE ∧ em.2 ∈ c'.visN) ∧ (∀ n ∈ c'.visN, Conn inc start n) := by
  obtain ⟨hI', hs⟩ := run_inv hid fuel c c' hI h
  refine ⟨fun n hn em hem => ?_, hI'.conn⟩
  have hmk : em.1 ∈ c'.visE := by
    apply Classical.byContradiction
    intro hne
    obtain ⟨f, hf, _, _⟩ := hI'.pend n hn em hem hne
    rw [hs] at hf; cases hf
  exact ⟨hmk, (hI'.mark n em hem hmk).2⟩

end Autog.ComponentsDfs
