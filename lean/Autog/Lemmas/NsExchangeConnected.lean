/-! Spike (NS exchange keeps a spanning tree): from the parent structure of the tree walk.
    Abstract setting extracted from NsTreeIntervals.lean: every non-root node w has a parent record
    (w, p, e) with `anc w = p :: anc p`, the root has `anc root = []`, and e joins p and w. Core-only. -/


namespace Autog.NsExchangeConnected

/-- adjacency through a set of edges given as (id, a, b), undirected -/
inductive Conn (E : List (Nat × Nat × Nat)) : Nat → Nat → Prop
  | refl (a) : Conn E a a
  | fwd {a b c e} : Conn E a b → (e, b, c) ∈ E → Conn E a c
  | bwd {a b c e} : Conn E a b → (e, c, b) ∈ E → Conn E a c

theorem Conn.trans {E} {a b c : Nat} (h1 : Conn E a b) (h2 : Conn E b c) : Conn E a c := by
  induction h2 with
  | refl => exact h1
  | fwd _ he ih => exact .fwd ih he
  | bwd _ he ih => exact .bwd ih he

theorem Conn.symm {E} {a b : Nat} (h : Conn E a b) : Conn E b a := by
  induction h with
  | refl => exact .refl _
  | fwd _ he ih => exact Conn.trans (.bwd (.refl _) he) ih
  | bwd _ he ih => exact Conn.trans (.fwd (.refl _) he) ih

theorem Conn.mono {E E'} (hsub : ∀ x ∈ E, x ∈ E') {a b : Nat} (h : Conn E a b) : Conn E' a b := by
  induction h with
  | refl => exact .refl _
  | fwd _ he ih => exact .fwd ih (hsub _ he)
  | bwd _ he ih => exact .bwd ih (hsub _ he)

/-- the rooted tree as produced by the walk: parent records (child, parent, edge id) -/
structure Rooted (root : Nat) (nodes : List Nat) (anc : Nat → List Nat) (par : List (Nat × Nat × Nat)) : Prop where
  rootanc : anc root = []
  hasrec  : ∀ w ∈ nodes, w ≠ root → ∃ r ∈ par, r.1 = w
  recok   : ∀ r ∈ par, r.1 ∈ nodes ∧ r.2.1 ∈ nodes ∧ anc r.1 = r.2.1 :: anc r.2.1
  /-- one record per child -/
  uniq    : ∀ r ∈ par, ∀ r' ∈ par, r.1 = r'.1 → r = r'

/-- tree edges as (id, parent, child) -/
def treeEdges (par : List (Nat × Nat × Nat)) : List (Nat × Nat × Nat) := par.map (fun r => (r.2.2, r.2.1, r.1))

/-- subtree of x -/
def inSub (anc : Nat → List Nat) (x w : Nat) : Prop := x ∈ w :: anc w

section
variable {root : Nat} {nodes : List Nat} {anc : Nat → List Nat} {par : List (Nat × Nat × Nat)}

/-- nodes outside the subtree of x reach the root without the edge entering x -/
theorem outside_conn (hR : Rooted root nodes anc par) (rx : Nat × Nat × Nat) (hrx : rx ∈ par) :
    ∀ (k : Nat) (w : Nat), (anc w).length = k → w ∈ nodes → ¬ inSub anc rx.1 w →
      Conn ((treeEdges par).erase (rx.2.2, rx.2.1, rx.1)) root w := by
  intro k
  induction k with
  | zero =>
    intro w hk hw _
    by_cases hwr : w = root
    · subst hwr; exact .refl _
    · obtain ⟨r, hr, rfl⟩ := hR.hasrec w hw hwr
      have := (hR.recok r hr).2.2
      rw [this] at hk; simp at hk
  | succ k ih =>
    intro w hk hw hout
    by_cases hwr : w = root
    · subst hwr; exact .refl _
    · obtain ⟨r, hr, rfl⟩ := hR.hasrec w hw hwr
      obtain ⟨_, hp, hanc⟩ := hR.recok r hr
      have hlen : (anc r.2.1).length = k := by rw [hanc] at hk; simpa using hk
      have hpout : ¬ inSub anc rx.1 r.2.1 := by
        intro h
        apply hout
        unfold inSub at h ⊢
        rw [hanc]
        exact List.mem_cons_of_mem _ h
      have hconn := ih r.2.1 hlen hp hpout
      have hne : r ≠ rx := by
        intro e; apply hout; unfold inSub; rw [e]; exact List.mem_cons_self ..
      have hmem : (r.2.2, r.2.1, r.1) ∈ (treeEdges par).erase (rx.2.2, rx.2.1, rx.1) := by
        have h1 : (r.2.2, r.2.1, r.1) ∈ treeEdges par := List.mem_map.2 ⟨r, hr, rfl⟩
        have h2 : (r.2.2, r.2.1, r.1) ≠ (rx.2.2, rx.2.1, rx.1) := by
          intro e
          simp only [Prod.mk.injEq] at e
          exact hne (hR.uniq r hr rx hrx e.2.2)
        exact (List.mem_erase_of_ne h2).2 h1
      exact .fwd hconn hmem

/-- nodes inside the subtree of x reach x without the edge entering x -/
theorem inside_conn (hR : Rooted root nodes anc par) (rx : Nat × Nat × Nat) (hrx : rx ∈ par) :
    ∀ (k : Nat) (w : Nat), (anc w).length = k → w ∈ nodes → inSub anc rx.1 w →
      Conn ((treeEdges par).erase (rx.2.2, rx.2.1, rx.1)) rx.1 w := by
  intro k
  induction k with
  | zero =>
    intro w hk hw hin
    unfold inSub at hin
    have : anc w = [] := List.eq_nil_of_length_eq_zero hk
    rw [this] at hin
    have : rx.1 = w := by simpa using hin
    rw [this]; exact .refl _
  | succ k ih =>
    intro w hk hw hin
    by_cases hwx : w = rx.1
    · rw [hwx]; exact .refl _
    · have hwr : w ≠ root := by
        intro e; rw [e, hR.rootanc] at hk; simp at hk
      obtain ⟨r, hr, rfl⟩ := hR.hasrec w hw hwr
      obtain ⟨_, hp, hanc⟩ := hR.recok r hr
      have hlen : (anc r.2.1).length = k := by rw [hanc] at hk; simpa using hk
      have hpin : inSub anc rx.1 r.2.1 := by
        unfold inSub at hin ⊢
        rw [hanc] at hin
        rcases List.mem_cons.1 hin with h | h
        · exact absurd h.symm hwx
        · exact h
      have hconn := ih r.2.1 hlen hp hpin
      have hne : r ≠ rx := fun e => hwx (by rw [e])
      have hmem : (r.2.2, r.2.1, r.1) ∈ (treeEdges par).erase (rx.2.2, rx.2.1, rx.1) := by
        have h1 : (r.2.2, r.2.1, r.1) ∈ treeEdges par := List.mem_map.2 ⟨r, hr, rfl⟩
        have h2 : (r.2.2, r.2.1, r.1) ≠ (rx.2.2, rx.2.1, rx.1) := by
          intro e
          simp only [Prod.mk.injEq] at e
          exact hne (hR.uniq r hr rx hrx e.2.2)
        exact (List.mem_erase_of_ne h2).2 h1
      exact .fwd hconn hmem

/-- NS `exchange`: removing the tree edge entering x and adding an edge f = (a, b) with exactly one end in the
    subtree of x leaves every node connected to the root -/
theorem exchange_connected (hR : Rooted root nodes anc par) (rx : Nat × Nat × Nat) (hrx : rx ∈ par)
    (f : Nat × Nat × Nat) (ha : f.2.1 ∈ nodes) (hb : f.2.2 ∈ nodes)
    (hcross : inSub anc rx.1 f.2.1 ↔ ¬ inSub anc rx.1 f.2.2) :
    ∀ w ∈ nodes, Conn (f :: (treeEdges par).erase (rx.2.2, rx.2.1, rx.1)) root w := by
  intro w hw
  have up : ∀ {a b}, Conn ((treeEdges par).erase (rx.2.2, rx.2.1, rx.1)) a b →
      Conn (f :: (treeEdges par).erase (rx.2.2, rx.2.1, rx.1)) a b :=
    fun h => h.mono (fun x hx => List.mem_cons_of_mem _ hx)
  by_cases hin : inSub anc rx.1 w
  · -- reach x through f, then go down to w
    have hxw := up (inside_conn hR rx hrx _ w rfl hw hin)
    have hrootx : Conn (f :: (treeEdges par).erase (rx.2.2, rx.2.1, rx.1)) root rx.1 := by
      by_cases hain : inSub anc rx.1 f.2.1
      · have hbout : ¬ inSub anc rx.1 f.2.2 := hcross.1 hain
        have h1 := up (outside_conn hR rx hrx _ f.2.2 rfl hb hbout)
        have h2 : Conn (f :: (treeEdges par).erase (rx.2.2, rx.2.1, rx.1)) root f.2.1 :=
          .bwd h1 (by simp : (f.1, f.2.1, f.2.2) ∈ f :: _)
        exact h2.trans (up (inside_conn hR rx hrx _ f.2.1 rfl ha hain)).symm
      · have hbin : inSub anc rx.1 f.2.2 := by
          apply Classical.byContradiction
          intro h; exact hain (hcross.2 h)
        have h1 := up (outside_conn hR rx hrx _ f.2.1 rfl ha hain)
        have h2 : Conn (f :: (treeEdges par).erase (rx.2.2, rx.2.1, rx.1)) root f.2.2 :=
          .fwd h1 (by simp : (f.1, f.2.1, f.2.2) ∈ f :: _)
        exact h2.trans (up (inside_conn hR rx hrx _ f.2.2 rfl hb hbin)).symm
    exact hrootx.trans hxw
  · exact up (outside_conn hR rx hrx _ w rfl hw hin)
end

end Autog.NsExchangeConnected
