/-! Spike (NS tree, continued): "every node is entered exactly once" from counting.
    Same traversal machine as NsTreeIntervals.lean, restricted to the fields that matter here. Core-only. -/


namespace Autog.NsTreeEnteredOnce

abbrev TInc := Nat × Nat
abbrev Frame := Nat × List TInc

structure Cfg where
  stack : List Frame
  visE  : List Nat
  ent   : List Nat

def run (tinc : Nat → List TInc) : Nat → Cfg → Option Cfg
  | 0, _ => none
  | fuel+1, c =>
    match c.stack with
    | [] => some c
    | (_, []) :: tl => run tinc fuel { c with stack := tl }
    | (n, (e, m) :: ms) :: tl =>
        if c.visE.contains e then run tinc fuel { c with stack := (n, ms) :: tl }
        else run tinc fuel { stack := (m, tinc m) :: (n, ms) :: tl, visE := e :: c.visE, ent := m :: c.ent }

/-- pigeonhole: a list that is no longer than a duplicate-free list it contains has no duplicates -/
theorem nodup_of_covers : ∀ (l ns : List Nat), ns.Nodup → ns ⊆ l → l.length ≤ ns.length → l.Nodup
  | [], _, _, _, _ => List.nodup_nil
  | a :: l', ns, hnd, hsub, hlen => by
    have ha : a ∉ l' := by
      intro ha
      have : ns ⊆ l' := fun x hx => by
        rcases List.mem_cons.1 (hsub hx) with h | h
        · exact h ▸ ha
        · exact h
      have := hnd.length_le_of_subset this
      simp at hlen; omega
    have ha_ns : a ∈ ns := by
      apply Classical.byContradiction
      intro hn
      have : ns ⊆ l' := fun x hx => by
        rcases List.mem_cons.1 (hsub hx) with h | h
        · exact absurd (h ▸ hx) hn
        · exact h
      have := hnd.length_le_of_subset this
      simp at hlen; omega
    refine List.nodup_cons.2 ⟨ha, nodup_of_covers l' (ns.erase a) (hnd.erase a) ?_ ?_⟩
    · intro x hx
      have hx' := List.mem_of_mem_erase hx
      have hne : x ≠ a := fun e => by
        rw [e] at hx
        exact (List.Nodup.mem_erase_iff hnd).1 hx |>.1 rfl
      rcases List.mem_cons.1 (hsub hx') with h | h
      · exact absurd h hne
      · exact h
    · rw [List.length_erase_of_mem ha_ns]; simp at hlen; omega

structure CInv (tinc : Nat → List TInc) (T : List Nat) (root : Nat) (c : Cfg) : Prop where
  /-- one entry per traversed edge, plus the root -/
  len   : c.ent.length = c.visE.length + 1
  vnd   : c.visE.Nodup
  vsub  : ∀ e ∈ c.visE, e ∈ T
  /-- todo lists only hold tree edges of their node -/
  stk   : ∀ f ∈ c.stack, f.1 ∈ c.ent ∧ ∀ em ∈ f.2, em ∈ tinc f.1
  /-- an untraversed tree edge of an entered node is still on somebody's todo list -/
  pend  : ∀ n ∈ c.ent, ∀ em ∈ tinc n, em.1 ∉ c.visE → ∃ f ∈ c.stack, f.1 = n ∧ em ∈ f.2
  /-- both ends of a traversed edge are entered -/
  mark  : ∀ n, ∀ em ∈ tinc n, em.1 ∈ c.visE → n ∈ c.ent ∧ em.2 ∈ c.ent

def IdEnds (tinc : Nat → List TInc) : Prop :=
  ∀ n n' e m m', (e, m) ∈ tinc n → (e, m') ∈ tinc n' → (n' = n ∧ m' = m) ∨ (n' = m ∧ m' = n)

theorem run_inv {tinc : Nat → List TInc} {T : List Nat} {root : Nat} (hid : IdEnds tinc)
    (hT : ∀ n, ∀ em ∈ tinc n, em.1 ∈ T) :
    ∀ (fuel : Nat) (c c' : Cfg), CInv tinc T root c → run tinc fuel c = some c' →
      CInv tinc T root c' ∧ c'.stack = [] := by
  intro fuel
  induction fuel with
  | zero => intro c c' _ h; simp [run] at h
  | succ fuel ih =>
    intro c c' hI h
    obtain ⟨stack, visE, ent⟩ := c
    obtain ⟨hlen, hvnd, hvsub, hstk, hpend, hmark⟩ := hI
    dsimp only at hlen hvnd hvsub hstk hpend hmark
    unfold run at h
    match stack, hstk, hpend, h with
    | [], hstk, hpend, h =>
      simp only [Option.some.injEq] at h; subst h
      exact ⟨⟨hlen, hvnd, hvsub, hstk, hpend, hmark⟩, rfl⟩
    | (n, []) :: tl, hstk, hpend, h =>
      dsimp only at h
      refine ih ⟨tl, visE, ent⟩ c' ⟨hlen, hvnd, hvsub, fun f hf => hstk f (List.mem_cons_of_mem _ hf), ?_, hmark⟩ h
      intro x hx em hem hne
      obtain ⟨f, hf, h1, h2⟩ := hpend x hx em hem hne
      rcases List.mem_cons.1 hf with rfl | hf
      · cases h2
      · exact ⟨f, hf, h1, h2⟩
    | (n, (e, m) :: ms) :: tl, hstk, hpend, h =>
      dsimp only at h
      have hn := hstk (n, (e, m) :: ms) (List.mem_cons_self ..)
      have hem : (e, m) ∈ tinc n := hn.2 (e, m) (List.mem_cons_self ..)
      split at h
      · rename_i hve
        have hve' : e ∈ visE := by simpa using hve
        refine ih ⟨(n, ms) :: tl, visE, ent⟩ c' ⟨hlen, hvnd, hvsub, ?_, ?_, hmark⟩ h
        · intro f hf
          rcases List.mem_cons.1 hf with rfl | hf
          · exact ⟨hn.1, fun em' h' => hn.2 em' (List.mem_cons_of_mem _ h')⟩
          · exact hstk f (List.mem_cons_of_mem _ hf)
        · intro x hx em' hem' hne
          obtain ⟨f, hf, h1, h2⟩ := hpend x hx em' hem' hne
          rcases List.mem_cons.1 hf with rfl | hf
          · rcases List.mem_cons.1 h2 with rfl | h2
            · exact absurd hve' hne
            · exact ⟨(n, ms), List.mem_cons_self .., h1, h2⟩
          · exact ⟨f, List.mem_cons_of_mem _ hf, h1, h2⟩
      · rename_i hve
        have hve' : e ∉ visE := by simpa using hve
        refine ih ⟨(m, tinc m) :: (n, ms) :: tl, e :: visE, m :: ent⟩ c' ⟨?_, ?_, ?_, ?_, ?_, ?_⟩ h
        · simp [hlen]
        · exact List.nodup_cons.2 ⟨hve', hvnd⟩
        · intro e' he'
          rcases List.mem_cons.1 he' with rfl | h1
          · exact hT n (e', m) hem
          · exact hvsub e' h1
        · intro f hf
          rcases List.mem_cons.1 hf with rfl | hf
          · exact ⟨List.mem_cons_self .., fun _ h' => h'⟩
          · rcases List.mem_cons.1 hf with rfl | hf
            · exact ⟨List.mem_cons_of_mem _ hn.1, fun em' h' => hn.2 em' (List.mem_cons_of_mem _ h')⟩
            · have := hstk f (List.mem_cons_of_mem _ hf)
              exact ⟨List.mem_cons_of_mem _ this.1, this.2⟩
        · intro x hx em' hem' hne
          have hne' : em'.1 ∉ visE := fun h' => hne (List.mem_cons_of_mem _ h')
          have hne'' : em'.1 ≠ e := fun h' => hne (h' ▸ List.mem_cons_self ..)
          by_cases hxm : x = m
          · subst hxm
            exact ⟨(x, tinc x), List.mem_cons_self .., rfl, hem'⟩
          · have hx' : x ∈ ent := by
              rcases List.mem_cons.1 hx with h1 | h1
              · exact absurd h1 hxm
              · exact h1
            obtain ⟨f, hf, h1, h2⟩ := hpend x hx' em' hem' hne'
            rcases List.mem_cons.1 hf with rfl | hf
            · rcases List.mem_cons.1 h2 with rfl | h2
              · exact absurd rfl hne''
              · exact ⟨(n, ms), by simp, h1, h2⟩
            · exact ⟨f, by simp [hf], h1, h2⟩
        · intro x em' hem' hmem
          rcases List.mem_cons.1 hmem with h1 | h1
          · obtain ⟨e', m'⟩ := em'
            simp only at h1
            subst h1
            rcases hid n x e' m m' hem hem' with ⟨h2, h3⟩ | ⟨h2, h3⟩
            · subst h2; subst h3
              exact ⟨List.mem_cons_of_mem _ hn.1, List.mem_cons_self ..⟩
            · subst h2; subst h3
              exact ⟨List.mem_cons_self .., List.mem_cons_of_mem _ hn.1⟩
          · have := hmark x em' hem' h1
            exact ⟨List.mem_cons_of_mem _ this.1, List.mem_cons_of_mem _ this.2⟩

/-- undirected connection through tree edges -/
inductive Conn (tinc : Nat → List TInc) : Nat → Nat → Prop
  | refl (a) : Conn tinc a a
  | step {a b c e} : Conn tinc a b → (e, c) ∈ tinc b → Conn tinc a c

/-- a spanning tree (n−1 edges, everything connected to the root) is walked entering every node exactly once -/
theorem entered_once {tinc : Nat → List TInc} {T ns : List Nat} {root : Nat} (hid : IdEnds tinc)
    (hT : ∀ n, ∀ em ∈ tinc n, em.1 ∈ T) (hTn : T.Nodup) (hns : ns.Nodup) (hcount : T.length + 1 = ns.length)
    (hconn : ∀ x ∈ ns, Conn tinc root x)
    (fuel : Nat) (c' : Cfg)
    (h : run tinc fuel ⟨[(root, tinc root)], [], [root]⟩ = some c') :
    c'.ent.Nodup ∧ ns ⊆ c'.ent := by
  have hI0 : CInv tinc T root ⟨[(root, tinc root)], [], [root]⟩ := by
    refine ⟨rfl, List.nodup_nil, (fun _ h => by cases h), ?_, ?_, (fun _ _ _ h => by cases h)⟩
    · intro f hf
      have : f = (root, tinc root) := by simpa using hf
      subst this; exact ⟨by simp, fun _ h => h⟩
    · intro n hn em hem _
      have : n = root := by simpa using hn
      subst this
      exact ⟨(n, tinc n), by simp, rfl, hem⟩
  obtain ⟨hI, hs⟩ := run_inv hid hT fuel _ c' hI0 h
  -- closure: every tree edge of an entered node is traversed and leads to an entered node
  have hclosed : ∀ n ∈ c'.ent, ∀ em ∈ tinc n, em.2 ∈ c'.ent := by
    intro n hn em hem
    have hmk : em.1 ∈ c'.visE := by
      apply Classical.byContradiction
      intro hne
      obtain ⟨f, hf, _, _⟩ := hI.pend n hn em hem hne
      rw [hs] at hf; cases hf
    exact (hI.mark n em hem hmk).2
  have hroot : root ∈ c'.ent := by
    -- the root is in the initial entry list and entries are never removed: use `mark`/`stk`-free argument
    -- via the length/closure facts we need membership; get it from the invariant of the initial frame
    have : ∀ (fuel : Nat) (c c' : Cfg), run tinc fuel c = some c' → ∀ x ∈ c.ent, x ∈ c'.ent := by
      intro fuel
      induction fuel with
      | zero => intro c c' h; simp [run] at h
      | succ fuel ih =>
        intro c c' h x hx
        obtain ⟨stack, visE, ent⟩ := c
        unfold run at h
        match stack, h with
        | [], h => simp only [Option.some.injEq] at h; subst h; exact hx
        | (_, []) :: tl, h => dsimp only at h; exact ih _ c' h x hx
        | (n, (e, m) :: ms) :: tl, h =>
          dsimp only at h
          split at h
          · exact ih _ c' h x hx
          · exact ih _ c' h x (List.mem_cons_of_mem _ hx)
    exact this fuel _ c' h root (by simp)
  have hreach : ∀ x, Conn tinc root x → x ∈ c'.ent := by
    intro x hx
    induction hx with
    | refl => exact hroot
    | step _ hstep ih => exact hclosed _ ih _ hstep
  have hall : ns ⊆ c'.ent := fun x hx => hreach x (hconn x hx)
  have hlen : c'.ent.length ≤ ns.length := by
    have h1 := hI.len
    have h2 : c'.visE.length ≤ T.length := hI.vnd.length_le_of_subset (fun e he => hI.vsub e he)
    omega
  exact ⟨nodup_of_covers c'.ent ns hns hall hlen, hall⟩

end Autog.NsTreeEnteredOnce
