import Autog.Lemmas.WeakDuality
/-! C10, second half ("no empty band lies between two used ones") as a CONSEQUENCE of optimality: in a layering of minimum total
    weighted length of a connected graph with positive weights and unit minimum lengths no level between two used levels is
    empty — otherwise everything below the empty level could move one level up, which keeps every edge feasible (an edge across
    the gap spans at least two levels) and shortens every edge across the gap, and connectivity puts at least one edge across it.
    Core-only. -/

namespace Autog.Contiguous
open WeakDuality

/-- close the (empty) level `k`: every node below it moves one level up -/
def squeeze (y : Nat → Int) (k : Int) : Nat → Int := fun v => if k < y v then y v - 1 else y v

theorem squeeze_feasible (y : Nat → Int) (k : Int) (es : List E)
    (hfeas : ∀ e ∈ es, e.d ≤ y e.dst - y e.src) (hd : ∀ e ∈ es, e.d = 1)
    (hgap : ∀ e ∈ es, y e.src ≠ k ∧ y e.dst ≠ k) :
    ∀ e ∈ es, e.d ≤ squeeze y k e.dst - squeeze y k e.src := by
  intro e he
  have h1 := hfeas e he
  have h2 := hd e he
  have h3 := hgap e he
  unfold squeeze
  split <;> split <;> omega

theorem S_squeeze_le (y : Nat → Int) (k : Int) : ∀ (es : List E),
    (∀ e ∈ es, e.d ≤ y e.dst - y e.src) → (∀ e ∈ es, e.d = 1) → (∀ e ∈ es, 0 < e.w) →
    S (·.w) (squeeze y k) es ≤ S (·.w) y es
  | [], _, _, _ => Int.le_refl _
  | e :: es, hf, hd, hw => by
    have ih := S_squeeze_le y k es (fun x hx => hf x (List.mem_cons_of_mem _ hx)) (fun x hx => hd x (List.mem_cons_of_mem _ hx))
      (fun x hx => hw x (List.mem_cons_of_mem _ hx))
    have h1 := hf e (List.mem_cons_self ..)
    have h2 := hd e (List.mem_cons_self ..)
    have h3 := hw e (List.mem_cons_self ..)
    have hle : squeeze y k e.dst - squeeze y k e.src ≤ y e.dst - y e.src := by
      unfold squeeze; split <;> split <;> omega
    have := Int.mul_le_mul_of_nonneg_left hle (Int.le_of_lt h3)
    simp only [S]
    omega

theorem S_squeeze_lt (y : Nat → Int) (k : Int) : ∀ (es : List E),
    (∀ e ∈ es, e.d ≤ y e.dst - y e.src) → (∀ e ∈ es, e.d = 1) → (∀ e ∈ es, 0 < e.w) →
    (∃ e ∈ es, y e.src < k ∧ k < y e.dst) →
    S (·.w) (squeeze y k) es < S (·.w) y es
  | [], _, _, _, hc => by obtain ⟨e, he, _⟩ := hc; cases he
  | e :: es, hf, hd, hw, hc => by
    have hf' : ∀ x ∈ es, x.d ≤ y x.dst - y x.src := fun x hx => hf x (List.mem_cons_of_mem _ hx)
    have hd' : ∀ x ∈ es, x.d = 1 := fun x hx => hd x (List.mem_cons_of_mem _ hx)
    have hw' : ∀ x ∈ es, 0 < x.w := fun x hx => hw x (List.mem_cons_of_mem _ hx)
    have h1 := hf e (List.mem_cons_self ..)
    have h2 := hd e (List.mem_cons_self ..)
    have h3 := hw e (List.mem_cons_self ..)
    have hle : squeeze y k e.dst - squeeze y k e.src ≤ y e.dst - y e.src := by
      unfold squeeze; split <;> split <;> omega
    have hm := Int.mul_le_mul_of_nonneg_left hle (Int.le_of_lt h3)
    simp only [S]
    by_cases hce : y e.src < k ∧ k < y e.dst
    · have heq : squeeze y k e.dst - squeeze y k e.src = (y e.dst - y e.src) - 1 := by
        unfold squeeze
        have a := hce.1; have b := hce.2
        split <;> split <;> omega
      have ih := S_squeeze_le y k es hf' hd' hw'
      rw [heq, Int.mul_sub, Int.mul_one]
      omega
    · have hc' : ∃ x ∈ es, y x.src < k ∧ k < y x.dst := by
        obtain ⟨x, hx, hxc⟩ := hc
        rcases List.mem_cons.1 hx with rfl | hx'
        · exact absurd hxc hce
        · exact ⟨x, hx', hxc⟩
      have ih := S_squeeze_lt y k es hf' hd' hw' hc'
      omega

/-- in an optimal layering no edge crosses an empty level -/
theorem no_edge_across_empty_level (es : List E) (y : Nat → Int)
    (hfeas : ∀ e ∈ es, e.d ≤ y e.dst - y e.src)
    (hopt : ∀ y' : Nat → Int, (∀ e ∈ es, e.d ≤ y' e.dst - y' e.src) → cost y es ≤ cost y' es)
    (hw : ∀ e ∈ es, 0 < e.w) (hd : ∀ e ∈ es, e.d = 1) (k : Int)
    (hgap : ∀ e ∈ es, y e.src ≠ k ∧ y e.dst ≠ k) :
    ¬ ∃ e ∈ es, y e.src < k ∧ k < y e.dst := by
  intro hc
  have h1 := hopt (squeeze y k) (squeeze_feasible y k es hfeas hd hgap)
  have h2 := S_squeeze_lt y k es hfeas hd hw hc
  unfold cost at h1
  omega

/-- `a` and `b` are joined by a path of edges of `es`, whatever their direction -/
inductive Conn (es : List E) : Nat → Nat → Prop
  | refl (a : Nat) : Conn es a a
  | step {a b c : Nat} : Conn es a b → (∃ e ∈ es, (e.src = b ∧ e.dst = c) ∨ (e.src = c ∧ e.dst = b)) → Conn es a c

/-- a path from above an empty level to below it has an edge across the level -/
theorem edge_across_of_conn (es : List E) (y : Nat → Int) (k : Int)
    (hfeas : ∀ e ∈ es, e.d ≤ y e.dst - y e.src) (hd : ∀ e ∈ es, e.d = 1)
    (hgap : ∀ e ∈ es, y e.src ≠ k ∧ y e.dst ≠ k) {a b : Nat} (hab : Conn es a b) :
    y a < k → k < y b → ∃ e ∈ es, y e.src < k ∧ k < y e.dst := by
  induction hab with
  | refl => intro h1 h2; omega
  | step hab' hedge ih =>
    intro h1 h2
    obtain ⟨e, he, hends⟩ := hedge
    have f := hfeas e he
    have d := hd e he
    have g := hgap e he
    rcases hends with ⟨hs, ht⟩ | ⟨hs, ht⟩
    · -- e runs from the previous node of the path to its last node
      by_cases hb : y e.src < k
      · exact ⟨e, he, hb, by rw [ht]; exact h2⟩
      · have : k < y e.src := by omega
        exact ih h1 (by rw [← hs]; exact this)
    · -- e runs from the last node back to the previous one: the previous one lies even lower
      have : k < y e.dst := by rw [hs] at f; omega
      exact ih h1 (by rw [← ht]; exact this)

/-- C10: bands are contiguous. In an optimal layering of a graph with positive weights and unit minimum lengths, every level
    strictly between the levels of two connected nodes holds an end point of some edge. -/
theorem bands_contiguous (es : List E) (y : Nat → Int)
    (hfeas : ∀ e ∈ es, e.d ≤ y e.dst - y e.src)
    (hopt : ∀ y' : Nat → Int, (∀ e ∈ es, e.d ≤ y' e.dst - y' e.src) → cost y es ≤ cost y' es)
    (hw : ∀ e ∈ es, 0 < e.w) (hd : ∀ e ∈ es, e.d = 1)
    (a b : Nat) (hab : Conn es a b) (k : Int) (h1 : y a < k) (h2 : k < y b) :
    ∃ e ∈ es, y e.src = k ∨ y e.dst = k := by
  apply Classical.byContradiction
  intro hno
  have hgap : ∀ e ∈ es, y e.src ≠ k ∧ y e.dst ≠ k := by
    intro e he
    constructor
    · intro h; exact hno ⟨e, he, Or.inl h⟩
    · intro h; exact hno ⟨e, he, Or.inr h⟩
  exact no_edge_across_empty_level es y hfeas hopt hw hd k hgap (edge_across_of_conn es y k hfeas hd hgap hab h1 h2)

end Autog.Contiguous

namespace Autog.Contiguous
open WeakDuality

theorem Conn.trans {es : List E} {a b c : Nat} (h1 : Conn es a b) (h2 : Conn es b c) : Conn es a c := by
  induction h2 with
  | refl => exact h1
  | step _ he ih => exact .step ih he

theorem Conn.symm {es : List E} {a b : Nat} (h : Conn es a b) : Conn es b a := by
  induction h with
  | refl => exact .refl _
  | step _ he ih =>
    obtain ⟨e, hm, hends⟩ := he
    exact Conn.trans (.step (.refl _) ⟨e, hm, hends.symm.imp (fun h => ⟨h.1, h.2⟩) (fun h => ⟨h.1, h.2⟩)⟩) ih

/-! ### decidable forms of the hypotheses, evaluated by the driver on the traced state (`K:ns-contiguity-hyp`) -/

/-- one round of reachability: add the other end of every edge that touches the set -/
def expand (es : List E) (s : List Nat) : List Nat :=
  s ++ es.flatMap fun e => if s.contains e.src then [e.dst] else if s.contains e.dst then [e.src] else []

def reach (es : List E) : Nat → List Nat → List Nat
  | 0, s => s
  | k + 1, s => reach es k (expand es s)

/-- every node `< n` is joined to node 0 -/
def connB (es : List E) (n : Nat) : Bool := (List.range n).all fun v => (reach es n [0]).contains v

/-- positive weights, unit minimum lengths -/
def unitB (es : List E) : Bool := es.all fun e => decide (0 < e.w) && decide (e.d = 1)

theorem expand_conn (es : List E) (s : List Nat) (h : ∀ x ∈ s, Conn es 0 x) : ∀ x ∈ expand es s, Conn es 0 x := by
  intro x hx
  unfold expand at hx
  rcases List.mem_append.1 hx with h1 | h1
  · exact h x h1
  · obtain ⟨e, he, hxe⟩ := List.mem_flatMap.1 h1
    split at hxe
    · rename_i hs
      have : x = e.dst := by simpa using hxe
      subst this
      exact .step (h e.src (by simpa using hs)) ⟨e, he, Or.inl ⟨rfl, rfl⟩⟩
    · split at hxe
      · rename_i hs
        have : x = e.src := by simpa using hxe
        subst this
        exact .step (h e.dst (by simpa using hs)) ⟨e, he, Or.inr ⟨rfl, rfl⟩⟩
      · cases hxe

theorem reach_conn (es : List E) : ∀ (k : Nat) (s : List Nat), (∀ x ∈ s, Conn es 0 x) → ∀ x ∈ reach es k s, Conn es 0 x
  | 0, _, h => h
  | k + 1, s, h => reach_conn es k _ (expand_conn es s h)

theorem connB_sound (es : List E) (n : Nat) (h : connB es n = true) : ∀ a b, a < n → b < n → Conn es a b := by
  unfold connB at h
  simp only [List.all_eq_true, List.mem_range, List.contains_iff_mem] at h
  have hs : ∀ x ∈ [0], Conn es 0 x := by
    intro x hx
    have : x = 0 := by simpa using hx
    subst this; exact .refl _
  have h0 : ∀ v, v < n → Conn es 0 v := fun v hv => reach_conn es n [0] hs v (h v hv)
  intro a b ha hb
  exact Conn.trans (h0 a ha).symm (h0 b hb)

theorem unitB_sound (es : List E) (h : unitB es = true) : (∀ e ∈ es, 0 < e.w) ∧ (∀ e ∈ es, e.d = 1) := by
  unfold unitB at h
  simp only [List.all_eq_true, Bool.and_eq_true, decide_eq_true_eq] at h
  exact ⟨fun e he => (h e he).1, fun e he => (h e he).2⟩

end Autog.Contiguous
