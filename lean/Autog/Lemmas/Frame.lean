import Autog.Lemmas.Reverse
import Autog.Model.Phase5
import Autog.Model.Layout
/-! Frame lemmas: phase 5 (merge + routers) and the post-processing never change the geometry of a node (id, x, y, w, h,
    helper flag, layer) nor the layer lists. Hence the nodes of the public result are those of the state after phase 4. Core-only. -/

namespace Autog

def Node.geom (n : Node) : String × Rat × Rat × Rat × Rat × Bool × Int := (n.id, n.x, n.y, n.w, n.h, n.virt, n.layer)

/-- same node store size, same geometry of every node, same layer lists -/
structure GeomEq (g g' : G) : Prop where
  size : g'.nodes.size = g.nodes.size
  geom : ∀ i, (g'.node i).geom = (g.node i).geom
  layers : g'.layers = g.layers

theorem GeomEq.refl (g : G) : GeomEq g g := ⟨rfl, fun _ => rfl, rfl⟩
theorem GeomEq.trans {a b c : G} (h1 : GeomEq a b) (h2 : GeomEq b c) : GeomEq a c :=
  ⟨h2.size.trans h1.size, fun i => (h2.geom i).trans (h1.geom i), h2.layers.trans h1.layers⟩

theorem geomEq_modNode (g : G) (i : Nat) (f : Node → Node) (hf : ∀ nd, (f nd).geom = nd.geom) : GeomEq g (g.modNode i f) :=
  ⟨by simp, fun j => by rw [G.node_modNode]; split <;> simp [hf], rfl⟩

theorem geomEq_modEdge (g : G) (e : Nat) (f : Edge → Edge) : GeomEq g (g.modEdge e f) := ⟨rfl, fun _ => rfl, rfl⟩

theorem geomEq_edges (g : G) (es : Array Edge) (el : List Nat) : GeomEq g { g with edges := es, elist := el } :=
  ⟨rfl, fun _ => rfl, rfl⟩

theorem geomEq_reverse (g : G) (e : Nat) : GeomEq g (g.reverse e) := by
  have h1 : GeomEq g (g.modNode (g.edge e).src fun n => { n with outs := G.removeE n.outs e }) :=
    geomEq_modNode _ _ _ (fun _ => rfl)
  have h2 := h1.trans (geomEq_modNode _ (g.edge e).dst (fun n => { n with ins := G.removeE n.ins e }) (fun _ => rfl))
  have h3 := h2.trans (geomEq_modNode _ (g.edge e).src (fun n => { n with ins := n.ins ++ [e] }) (fun _ => rfl))
  have h4 := h3.trans (geomEq_modNode _ (g.edge e).dst (fun n => { n with outs := n.outs ++ [e] }) (fun _ => rfl))
  exact h4.trans (geomEq_modEdge _ e (fun ed => { ed with src := (g.edge e).dst, dst := (g.edge e).src, rev := !ed.rev }))

/-- a monadic left fold keeps a relation to the start state that every step keeps -/
theorem foldlM_inv {α σ} (R : σ → σ → Prop) (hrefl : ∀ s, R s s) (htrans : ∀ a b c, R a b → R b c → R a c)
    (f : σ → α → M σ) (hf : ∀ s x s', f s x = .ok s' → R s s') :
    ∀ (l : List α) (s s' : σ), l.foldlM f s = .ok s' → R s s'
  | [], s, s', h => by
    simp only [List.foldlM_nil, pure, Except.pure, Except.ok.injEq] at h; subst h; exact hrefl _
  | x :: l, s, s', h => by
    simp only [List.foldlM_cons, bind, Except.bind] at h
    cases hx : f s x with
    | error e => rw [hx] at h; cases h
    | ok s1 =>
      rw [hx] at h
      exact htrans _ _ _ (hf s x s1 hx) (foldlM_inv R hrefl htrans f hf l s1 s' h)

/-! ### phase 5 -/

theorem reduceForward_geom : ∀ (fuel : Nat) (s : MergeSt) (e : Nat) (ns : List Nat) (s' : MergeSt) (ns' : List Nat),
    reduceForward fuel s e ns = .ok (s', ns') → GeomEq s.g s'.g
  | 0, _, _, _, _, _, h => by simp [reduceForward] at h
  | fuel + 1, s, e, ns, s', ns', h => by
    unfold reduceForward at h
    simp only at h
    split at h
    · split at h
      · rename_i f hf
        have ih := reduceForward_geom fuel _ e _ s' ns' h
        refine GeomEq.trans ?_ ih
        have h1 : GeomEq s.g (s.g.modNode (s.g.edge f).dst fun n => { n with ins := G.removeE n.ins f }) :=
          geomEq_modNode _ _ _ (fun _ => rfl)
        have h2 := h1.trans (geomEq_modNode _ (s.g.edge f).dst (fun n => { n with ins := n.ins ++ [e] }) (fun _ => rfl))
        exact h2.trans (geomEq_modEdge _ e (fun ed => { ed with dst := (s.g.edge f).dst }))
      · cases h
    · simp only [pure, Except.pure, Except.ok.injEq, Prod.mk.injEq] at h
      obtain ⟨rfl, _⟩ := h
      exact geomEq_modEdge _ _ _

theorem mergeStep_geom (acc : MergeSt × List (Nat × List Nat)) (k : Nat) (acc' : MergeSt × List (Nat × List Nat)) (h : mergeStep acc k = .ok acc') :
    GeomEq acc.1.g acc'.1.g := by
  unfold mergeStep at h
  simp only at h
  split at h
  · simp only [pure, Except.pure, Except.ok.injEq] at h
    subst h; exact geomEq_modEdge _ _ _
  · split at h
    · simp only [bind, Except.bind] at h
      cases hr : reduceForward (acc.1.g.nodes.size + 2) acc.1 (acc.1.arr.getD k 0) [(acc.1.g.edge (acc.1.arr.getD k 0)).src] with
      | error e => rw [hr] at h; cases h
      | ok r =>
        rw [hr] at h
        simp only [pure, Except.pure, Except.ok.injEq] at h
        subst h
        exact reduceForward_geom _ _ _ _ r.1 r.2 hr
    · simp only [pure, Except.pure, Except.ok.injEq] at h
      subst h; exact GeomEq.refl _
  · simp only [pure, Except.pure, Except.ok.injEq] at h
    subst h; exact GeomEq.refl _

theorem mergeLongEdges_geom (g g' : G) (routes : List (Nat × List Nat)) (h : mergeLongEdges g = .ok (g', routes)) :
    GeomEq g g' := by
  unfold mergeLongEdges at h
  simp only [bind, Except.bind] at h
  cases hf : (List.range g.elist.length).foldlM mergeStep ({ g := g, arr := g.elist, len := g.elist.length }, []) with
  | error e => rw [hf] at h; cases h
  | ok r =>
    rw [hf] at h
    simp only [pure, Except.pure, Except.ok.injEq, Prod.mk.injEq] at h
    obtain ⟨rfl, _⟩ := h
    have := foldlM_inv (fun (a b : MergeSt × List (Nat × List Nat)) => GeomEq a.1.g b.1.g) (fun _ => GeomEq.refl _)
      (fun _ _ _ => GeomEq.trans) mergeStep mergeStep_geom _ _ r hf
    exact GeomEq.trans this (by unfold MergeSt.sync; exact geomEq_edges _ _ _)

theorem setPts_geom (g : G) (e : Nat) (p : List Pt) : GeomEq g (setPts g e p) := geomEq_modEdge _ _ _

/-- what one routing step does: it only writes the points of the routed edge -/
theorem straightStep_is_setPts (g g1 : G) (r : Nat × List Nat) (h : straightStep g r = .ok g1) :
    g1 = setPts g r.1 (straight g r.2.head! r.2.getLast!) := by
  unfold straightStep at h
  simp only [bind, Except.bind, pure, Except.pure] at h
  split at h
  · cases h
  · simp only [Except.ok.injEq] at h; exact h.symm

theorem polylineStep_is_setPts (g g1 : G) (r : Nat × List Nat) (h : polylineStep g r = .ok g1) :
    ∃ p : List Pt, g1 = setPts g r.1 p ∧
      (p = straight g r.2.head! r.2.getLast! ∨
       ∃ mids, (r.2.tail.dropLast).mapM (nonTerminalPoint g) = .ok mids ∧
         p = (g.edge r.1).pts ++ [startPoint g r.2.head!] ++ mids ++ [endPoint g r.2.getLast!]) := by
  unfold polylineStep at h
  split at h
  · cases h
  · split at h
    · simp only [pure, Except.pure, Except.ok.injEq] at h; exact ⟨_, h.symm, Or.inl rfl⟩
    · simp only [bind, Except.bind] at h
      cases hm : (r.2.tail.dropLast).mapM (nonTerminalPoint g) with
      | error e => rw [hm] at h; cases h
      | ok mids =>
        rw [hm] at h
        simp only [pure, Except.pure, Except.ok.injEq] at h
        exact ⟨_, h.symm, Or.inr ⟨mids, rfl, rfl⟩⟩

theorem orthoStep_is_setPts (ls : Rat) (g g1 : G) (r : Nat × List Nat) (h : orthoStep ls g r = .ok g1) :
    ∃ p : List Pt, g1 = setPts g r.1 p ∧
      (p = straight g r.2.head! r.2.getLast! ∨
       p = (g.edge r.1).pts ++ orthoPoints g ls (layerH g (g.layerOf (g.edge r.1).src)) r.2) := by
  unfold orthoStep at h
  simp only at h
  split at h
  · cases h
  · split at h
    · simp only [pure, Except.pure, Except.ok.injEq] at h; exact ⟨_, h.symm, Or.inl rfl⟩
    · simp only [pure, Except.pure, Except.ok.injEq] at h; exact ⟨_, h.symm, Or.inr rfl⟩

theorem routeStraight_geom (g g' : G) (routes : List (Nat × List Nat)) (h : routeStraight g routes = .ok g') : GeomEq g g' := by
  unfold routeStraight at h
  refine foldlM_inv GeomEq GeomEq.refl (fun _ _ _ => GeomEq.trans) _ ?_ routes g g' h
  intro s x s' hs
  rw [straightStep_is_setPts s s' x hs]; exact setPts_geom _ _ _

theorem routePolyline_geom (g g' : G) (routes : List (Nat × List Nat)) (h : routePolyline g routes = .ok g') : GeomEq g g' := by
  unfold routePolyline at h
  refine foldlM_inv GeomEq GeomEq.refl (fun _ _ _ => GeomEq.trans) _ ?_ routes g g' h
  intro s x s' hs
  obtain ⟨p, hp, _⟩ := polylineStep_is_setPts s s' x hs
  rw [hp]; exact setPts_geom _ _ _

theorem routeOrtho_geom (ls : Rat) (g g' : G) (routes : List (Nat × List Nat)) (h : routeOrtho ls g routes = .ok g') : GeomEq g g' := by
  unfold routeOrtho at h
  refine foldlM_inv GeomEq GeomEq.refl (fun _ _ _ => GeomEq.trans) _ ?_ routes g g' h
  intro s x s' hs
  obtain ⟨p, hp, _⟩ := orthoStep_is_setPts ls s s' x hs
  rw [hp]; exact setPts_geom _ _ _

/-- phase 5 never changes node geometry or layer lists -/
theorem phase5_geom (alg : Nat) (ls : Rat) (g g' : G) (h : phase5 alg ls g = .ok g') : GeomEq g g' := by
  unfold phase5 at h
  simp only [bind, Except.bind] at h
  split at h
  · simp only [pure, Except.pure, Except.ok.injEq] at h; subst h; exact GeomEq.refl _
  · cases hm : mergeLongEdges g with
    | error e => rw [hm] at h; cases h
    | ok r =>
      rw [hm] at h
      obtain ⟨g1, routes⟩ := r
      have h1 := mergeLongEdges_geom g g1 routes hm
      simp only at h
      split at h
      · simp only [pure, Except.pure, Except.ok.injEq] at h; subst h; exact h1
      · exact GeomEq.trans h1 (routeStraight_geom _ _ _ h)
      · exact GeomEq.trans h1 (routePolyline_geom _ _ _ h)
      · exact GeomEq.trans h1 (routeOrtho_geom _ _ _ _ h)
      · cases h

/-! ### post-processing -/

theorem foldl_inv {α σ} (R : σ → σ → Prop) (hrefl : ∀ s, R s s) (htrans : ∀ a b c, R a b → R b c → R a c)
    (f : σ → α → σ) (hf : ∀ s x, R s (f s x)) : ∀ (l : List α) (s : σ), R s (l.foldl f s)
  | [], s => hrefl s
  | x :: l, s => htrans _ _ _ (hf s x) (foldl_inv R hrefl htrans f hf l (f s x))

theorem postProcess_geom (g : G) (loops : List Nat) : GeomEq g (postProcess g loops) := by
  unfold postProcess
  refine GeomEq.trans (?_ : GeomEq g (restoreSelfLoops g loops)) ?_
  · unfold restoreSelfLoops
    apply foldl_inv GeomEq GeomEq.refl (fun _ _ _ => GeomEq.trans)
    intro s v
    have h0 : GeomEq s { s with edges := s.edges.push { src := v, dst := v } } := ⟨rfl, fun _ => rfl, rfl⟩
    have h1 := h0.trans (geomEq_modNode _ v (fun n => { n with outs := n.outs ++ [s.edges.size] }) (fun _ => rfl))
    have h2 := h1.trans (geomEq_modNode _ v (fun n => { n with ins := n.ins ++ [s.edges.size] }) (fun _ => rfl))
    exact h2.trans ⟨rfl, fun _ => rfl, rfl⟩
  · unfold unreverseEdges
    apply foldl_inv GeomEq GeomEq.refl (fun _ _ _ => GeomEq.trans)
    intro s e
    split
    · exact geomEq_reverse _ _
    · exact GeomEq.refl _

/-! ### the public result -/

theorem toList_eq_range_map (g : G) : g.nodes.toList = (List.range g.nodes.size).map g.node := by
  apply List.ext_getElem
  · simp
  · intro i h1 h2
    simp [G.node, Array.getD_eq_getD_getElem?]
    have : i < g.nodes.size := by simpa using h1
    simp [this]

/-- the nodes (and the right border) of a component in the public result depend only on node geometry and layer lists -/
theorem collectComp_nodes_geom (cfg : Cfg) (shift : Rat) (ci : Nat) (g g' : G) (h : GeomEq g g') :
    (collectComp cfg shift ci g').nodes = (collectComp cfg shift ci g).nodes ∧ rightmostX g' = rightmostX g := by
  constructor
  · unfold collectComp
    simp only
    rw [toList_eq_range_map g', toList_eq_range_map g, h.size]
    simp only [List.filter_map, List.map_map]
    have hg : ∀ i, (g'.node i).geom = (g.node i).geom := h.geom
    have hfilter : (List.range g.nodes.size).filter ((fun n => !n.virt || cfg.virt) ∘ g'.node) =
        (List.range g.nodes.size).filter ((fun n => !n.virt || cfg.virt) ∘ g.node) := by
      apply List.filter_congr
      intro i _
      have := hg i
      simp only [Node.geom, Prod.mk.injEq] at this
      simp [Function.comp, this.2.2.2.2.2.1]
    rw [hfilter]
    apply List.map_congr_left
    intro i _
    have := hg i
    simp only [Node.geom, Prod.mk.injEq] at this
    simp [Function.comp, this.1, this.2.1, this.2.2.1, this.2.2.2.1, this.2.2.2.2.1, this.2.2.2.2.2.1, this.2.2.2.2.2.2]
  · unfold rightmostX
    rw [h.layers]
    congr 1
    funext m l
    split
    · rfl
    · rename_i n _
      have := h.geom n
      simp only [Node.geom, Prod.mk.injEq] at this
      rw [this.2.1, this.2.2.2.1]

/-- END TO END: in the composed model, the public nodes of a component and the shift handed to the next component are
    those of the state after phase 4 — whatever router runs and however many self-loops are restored -/
theorem public_nodes_from_phase4 (cfg : Cfg) (shift : Rat) (ci : Nat) (g4 g5 : G) (loops : List Nat)
    (h5 : phase5 cfg.p5 cfg.ls g4 = .ok g5) :
    (collectComp cfg shift ci (postProcess g5 loops)).nodes = (collectComp cfg shift ci g4).nodes ∧
    rightmostX (postProcess g5 loops) = rightmostX g4 :=
  collectComp_nodes_geom cfg shift ci g4 _ (GeomEq.trans (phase5_geom _ _ _ _ h5) (postProcess_geom g5 loops))

end Autog
