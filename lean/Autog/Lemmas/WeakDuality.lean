/-! Spike: weak duality for the layering LP (C10). Core-only. -/

namespace Autog.WeakDuality

structure E where
  src : Nat
  dst : Nat
  w : Int      -- weight
  d : Int      -- minimum length (Delta)
  x : Int      -- dual value (flow)

def ind (k v : Nat) : Int := if v = k then 1 else 0

/-- Σ z_e · (y dst − y src) -/
def S (z : E → Int) (y : Nat → Int) : List E → Int
  | [] => 0
  | e :: es => z e * (y e.dst - y e.src) + S z y es

/-- net inflow of z at node k -/
def net (z : E → Int) (k : Nat) : List E → Int
  | [] => 0
  | e :: es => z e * (ind k e.dst - ind k e.src) + net z k es

theorem S_bump (z : E → Int) (y : Nat → Int) (k : Nat) (c : Int) (es : List E) :
    S z (fun v => y v + c * ind k v) es = S z y es + c * net z k es := by
  induction es with
  | nil => simp [S, net]
  | cons e es ih => simp only [S, net, ih]; grind

/-- y truncated to nodes < k -/
def trunc (y : Nat → Int) (k : Nat) : Nat → Int := fun v => if v < k then y v else 0

theorem trunc_succ (y : Nat → Int) (k : Nat) :
    trunc y (k+1) = fun v => trunc y k v + y k * ind k v := by
  funext v
  unfold trunc ind
  by_cases h1 : v = k
  · subst h1; simp
  · by_cases h2 : v < k
    · have : v < k + 1 := by omega
      simp [h1, h2, this]
    · have : ¬ v < k + 1 := by omega
      simp [h1, h2, this]

theorem S_zero (z : E → Int) (es : List E) : S z (fun _ => 0) es = 0 := by
  induction es with
  | nil => rfl
  | cons e es ih => simp [S, ih]

theorem S_trunc_zero (z : E → Int) (y : Nat → Int) (es : List E)
    (hnet : ∀ k, net z k es = 0) : ∀ n, S z (trunc y n) es = 0 := by
  intro n
  induction n with
  | zero =>
    have : trunc y 0 = fun _ => 0 := by funext v; simp [trunc]
    rw [this, S_zero]
  | succ k ih => rw [trunc_succ, S_bump, ih, hnet]; simp

theorem S_trunc_eq (z : E → Int) (y : Nat → Int) (n : Nat) (es : List E)
    (hb : ∀ e ∈ es, e.src < n ∧ e.dst < n) : S z (trunc y n) es = S z y es := by
  induction es with
  | nil => rfl
  | cons e es ih =>
    have h1 := hb e (List.mem_cons_self ..)
    have h2 := ih (fun e he => hb e (List.mem_cons_of_mem _ he))
    simp [S, trunc, h1.1, h1.2] at *
    rw [h2]

theorem S_sub (z1 z2 : E → Int) (y : Nat → Int) (es : List E) :
    S (fun e => z1 e - z2 e) y es = S z1 y es - S z2 y es := by
  induction es with
  | nil => simp [S]
  | cons e es ih => simp only [S, ih]; grind

def cost (y : Nat → Int) (es : List E) : Int := S (·.w) y es
def dualObj : List E → Int
  | [] => 0
  | e :: es => e.d * e.x + dualObj es

theorem S_ge_dual (y : Nat → Int) (es : List E)
    (hfeas : ∀ e ∈ es, e.d ≤ y e.dst - y e.src) (hx : ∀ e ∈ es, 0 ≤ e.x) :
    dualObj es ≤ S (·.x) y es := by
  induction es with
  | nil => simp [S, dualObj]
  | cons e es ih =>
    have h1 := hfeas e (List.mem_cons_self ..)
    have h2 := hx e (List.mem_cons_self ..)
    have h3 := ih (fun e he => hfeas e (List.mem_cons_of_mem _ he)) (fun e he => hx e (List.mem_cons_of_mem _ he))
    have h4 : e.d * e.x ≤ e.x * (y e.dst - y e.src) := by
      rw [Int.mul_comm]; exact Int.mul_le_mul_of_nonneg_left h1 h2
    simp only [S, dualObj]; omega

/-- C10 (a): weak duality. Any feasible layering costs at least the dual objective of any
    non-negative flow that satisfies conservation w.r.t. the weights. -/
theorem weak_duality (es : List E) (y : Nat → Int) (n : Nat)
    (hb : ∀ e ∈ es, e.src < n ∧ e.dst < n)
    (hfeas : ∀ e ∈ es, e.d ≤ y e.dst - y e.src)
    (hx : ∀ e ∈ es, 0 ≤ e.x)
    (hcons : ∀ k, net (fun e => e.w - e.x) k es = 0) :
    dualObj es ≤ cost y es := by
  have h0 := S_trunc_zero (fun e => e.w - e.x) y es hcons n
  rw [S_trunc_eq _ _ _ _ hb] at h0
  have h1 : S (·.w) y es - S (·.x) y es = 0 := by rw [← S_sub]; exact h0
  have := S_ge_dual y es hfeas hx
  unfold cost; omega

/-- corollary: a certificate with equal objectives proves optimality -/
theorem optimal_of_certificate (es : List E) (y y' : Nat → Int) (n : Nat)
    (hb : ∀ e ∈ es, e.src < n ∧ e.dst < n)
    (hx : ∀ e ∈ es, 0 ≤ e.x)
    (hcons : ∀ k, net (fun e => e.w - e.x) k es = 0)
    (heq : cost y es = dualObj es)
    (hfeas' : ∀ e ∈ es, e.d ≤ y' e.dst - y' e.src) :
    cost y es ≤ cost y' es := by
  have := weak_duality es y' n hb hfeas' hx hcons; omega

end Autog.WeakDuality
