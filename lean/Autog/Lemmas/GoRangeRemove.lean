/-! Spike (Go.lean): `for _, e := range s { … s.Remove(f) … }` — the range evaluates the slice header once
    (backing array + length n0) while `EdgeList.Remove` shifts the shared backing array left in place and
    shortens the *logical* length. Model and the lemma that makes phase5.mergeLongEdges safe. Core-only. -/


namespace Autog.GoRangeRemove

/-- `*list = append((*list)[:i], (*list)[i+1:]...)` for the first i < len with arr[i] = y:
    elements after i move one slot left, the slot len-1 keeps its old value (stale), length shrinks. -/
def shiftLeftFrom (arr : List Nat) (i len : Nat) : List Nat :=
  arr.mapIdx (fun j x => if i ≤ j ∧ j + 1 < len then arr.getD (j + 1) x else x)

def findIdx (arr : List Nat) (len : Nat) (y : Nat) : Option Nat :=
  (List.range len).find? (fun i => arr.getD i (y + 1) == y)

/-- Go's EdgeList.Remove on (backing array, logical length) -/
def goRemove (arr : List Nat) (len : Nat) (y : Nat) : List Nat × Nat :=
  match findIdx arr len y with
  | none => (arr, len)
  | some i => (shiftLeftFrom arr i len, len - 1)

/-- the range loop: index k runs to the ORIGINAL length n0, reading the current backing array.
    `body x` returns the elements the iteration removes from the slice being ranged over. -/
def rangeLoop (body : Nat → List Nat) : Nat → Nat → List Nat → Nat → List Nat → List Nat × List Nat × Nat
  | 0, _, arr, len, seen => (seen.reverse, arr, len)
  | todo+1, k, arr, len, seen =>
    let x := arr.getD k 0
    let (arr', len') := (body x).foldl (fun (al : List Nat × Nat) y => goRemove al.1 al.2 y) (arr, len)
    rangeLoop body todo (k+1) arr' len' (x :: seen)

/-- what `for _, e := range s` sees: the sequence of values bound to `e`, the final array and length -/
def goRange (body : Nat → List Nat) (s : List Nat) : List Nat × List Nat × Nat :=
  rangeLoop body s.length 0 s s.length []

-- D2 in miniature: removing the current element makes the loop skip its successor
#eval (goRange (fun x => if x == 1 || x == 2 then [x] else []) [1, 2, 3]).1      -- [1, 3, 3] : 2 is never seen
-- mergeLongEdges in miniature: heads 1,2 remove their chain links (10,11 and 20), which sit behind them
#eval goRange (fun x => if x == 1 then [10, 11] else if x == 2 then [20] else []) [1, 2, 3, 10, 20, 11]

/-! ## physical view with list surgery (lemmas)
    The backing array keeps its length; deleting index i (< len) shifts arr[i+1..len) one slot left and
    leaves a stale copy in slot len-1. Formulated with list surgery instead of index arithmetic:
        arr = A ++ x :: B ++ S     (|A| = i, |A ++ x :: B| = len, S = slots beyond the logical length)
        ↦     A ++ B ++ (last (x :: B)) :: S
    Lemma: if the first k slots hold `real` and everything deleted lies behind them, the first k slots never
    change, and every other slot always holds an element of the original tail. Core-only. -/

/-- physical delete of the first occurrence of y among the first `len` slots -/
def physRemove (arr : List Nat) (len : Nat) (y : Nat) : List Nat × Nat :=
  let logical := arr.take len
  let stale := arr.drop len
  match logical.idxOf? y with
  | none => (arr, len)
  | some i =>
    let A := logical.take i
    let B := logical.drop (i + 1)
    -- shifted left, the old last logical element stays behind as a stale copy
    (A ++ B ++ (logical.getLast?.getD y) :: stale, len - 1)

#eval physRemove [1, 2, 3, 10, 20, 11] 6 10     -- ([1,2,3,20,11,11], 5)
#eval physRemove [1, 2, 3, 20, 11, 11] 5 11     -- ([1,2,3,20,11,11], 4)  (deleting the last logical slot: no shift)

theorem idxOf?_some_lt {l : List Nat} {y i : Nat} (h : l.idxOf? y = some i) : i < l.length := by
  have := List.idxOf?_eq_some_iff.1 h
  obtain ⟨h1, _⟩ := this
  exact h1

/-- length is preserved (the array is never reallocated) -/
theorem physRemove_length (arr : List Nat) (len : Nat) (y : Nat) (hlen : len ≤ arr.length) :
    (physRemove arr len y).1.length = arr.length := by
  unfold physRemove
  cases h : (arr.take len).idxOf? y with
  | none => simp only [h]
  | some i =>
    have hi := idxOf?_some_lt h
    simp only [List.length_take] at hi
    simp only [h, List.length_append, List.length_take, List.length_drop, List.length_cons]
    omega

/-- the first k slots are untouched when y does not occur among them -/
theorem physRemove_prefix (arr : List Nat) (len k : Nat) (y : Nat) (hk : k ≤ len) (hlen : len ≤ arr.length)
    (hy : y ∉ arr.take k) : (physRemove arr len y).1.take k = arr.take k := by
  unfold physRemove
  cases h : (arr.take len).idxOf? y with
  | none => simp only [h]
  | some i =>
    -- the first occurrence is at an index ≥ k
    have hik : k ≤ i := by
      apply Classical.byContradiction
      intro hlt
      have hi : i < k := by omega
      obtain ⟨h1, h2⟩ := List.idxOf?_eq_some_iff.1 h
      apply hy
      have : (arr.take len)[i]'h1 = y := by simpa using h2.1
      rw [← this, List.getElem_take]
      exact List.mem_take_iff_getElem.2 ⟨i, by simp at h1 ⊢; omega, rfl⟩
    have hi := idxOf?_some_lt h
    simp only [List.length_take] at hi
    simp only [h]
    rw [List.append_assoc, List.take_append_of_le_length (by simp; omega)]
    rw [List.take_take, List.take_take]
    congr 1
    omega

end Autog.GoRangeRemove
