import Autog.Lemmas.Adj
import Autog.Lemmas.AdjSub
/-! The converse half of adjacency consistency: every LISTED edge sits in the out-list of its source and in the in-list of its
    target (`Listed`). Together with `AdjL` (every In/Out entry is a listed edge that really starts / ends there) the edge list
    and the incidence lists describe the same graph. True of what `Populate` builds from any edge list; kept by `Edge.Reverse`,
    the two-cycle pre-pass, self-loop stripping, component extraction and both cycle breakers. Core-only. -/

namespace Autog
open G

def Listed (g : G) : Prop := ∀ e ∈ g.elist, e ∈ (g.node (g.edge e).src).outs ∧ e ∈ (g.node (g.edge e).dst).ins

/-- adjacency consistency in both directions -/
structure AdjLL (g : G) : Prop where
  adj : AdjL g
  listed : Listed g

theorem listed_reverse (g : G) (hA : AdjL g) (hL : Listed g) (e : Nat) (he : e ∈ g.elist) : Listed (g.reverse e) := by
  have hes := hA.el e he
  have hends := hA.ends e hes
  intro x hx
  rw [reverse_elist] at hx
  have hxL := hL x hx
  rw [reverse_edge]
  by_cases hxe : e = x
  · subst hxe
    simp only [hes, and_self, if_true]
    rw [(reverse_node_lists g e (g.edge e).dst).1, (reverse_node_lists g e (g.edge e).src).2]
    simp only [hends.1, hends.2, and_self, if_true, true_and]
    exact ⟨List.mem_append.2 (Or.inr (List.mem_singleton.2 rfl)), List.mem_append.2 (Or.inr (List.mem_singleton.2 rfl))⟩
  · have hne : ¬ (e = x ∧ x < g.edges.size) := fun h => hxe h.1
    rw [if_neg hne]
    rw [(reverse_node_lists g e (g.edge x).src).1, (reverse_node_lists g e (g.edge x).dst).2]
    have ho : x ∈ (if (g.edge e).src = (g.edge x).src ∧ (g.edge x).src < g.nodes.size then ((g.node (g.edge x).src).outs.erase e)
        else (g.node (g.edge x).src).outs) := by
      split
      · exact (List.mem_erase_of_ne (fun h => hxe h.symm)).2 hxL.1
      · exact hxL.1
    have hi : x ∈ (if (g.edge e).dst = (g.edge x).dst ∧ (g.edge x).dst < g.nodes.size then ((g.node (g.edge x).dst).ins.erase e)
        else (g.node (g.edge x).dst).ins) := by
      split
      · exact (List.mem_erase_of_ne (fun h => hxe h.symm)).2 hxL.2
      · exact hxL.2
    constructor
    · split
      · exact List.mem_append.2 (Or.inl ho)
      · exact ho
    · split
      · exact List.mem_append.2 (Or.inl hi)
      · exact hi

theorem adjLL_reverse (g : G) (h : AdjLL g) (e : Nat) (he : e ∈ g.elist) : AdjLL (g.reverse e) :=
  ⟨adjL_reverse g h.adj e he, listed_reverse g h.adj h.listed e he⟩

theorem adjLL_foldl_reverse : ∀ (l : List Nat) (g : G), AdjLL g → (∀ e ∈ l, e ∈ g.elist) → AdjLL (l.foldl G.reverse g)
  | [], g, h, _ => h
  | e :: l, g, h, hb => by
    simp only [List.foldl_cons]
    exact adjLL_foldl_reverse l _ (adjLL_reverse g h e (hb e (List.mem_cons_self ..)))
      (fun x hx => by rw [reverse_elist]; exact hb x (List.mem_cons_of_mem _ hx))

theorem adjLL_removeTwoNodeCycles (g : G) (h : AdjLL g) : AdjLL (removeTwoNodeCycles g) := by
  unfold removeTwoNodeCycles
  simp only
  apply adjLL_foldl_reverse _ g h
  intro e he
  exact removeTwoNodeCycles_sub g g.elist ([], []) (fun _ h0 => by cases h0) (fun _ hx => hx) e he

end Autog

namespace Autog
open G

theorem populate_node_lists_lt (cfg : Cfg) (es : InEdges) (n : Nat) (hn : n < (PopulateRename.populate es).ids.length) :
    ((applySizes cfg (populate es)).node n).ins =
        ((PopulateRename.populate es).edges.zipIdx.filter fun x => x.1.2 == n).map (·.2) ∧
     ((applySizes cfg (populate es)).node n).outs =
        ((PopulateRename.populate es).edges.zipIdx.filter fun x => x.1.1 == n).map (·.2) := by
  simp only [G.node, applySizes, populate, Array.getD_eq_getD_getElem?, Array.getElem?_map, List.getElem?_toArray,
    List.getElem?_map]
  cases h : (PopulateRename.populate es).ids.zipIdx[n]? with
  | none =>
    have := List.getElem?_eq_none_iff.1 h
    simp only [List.length_zipIdx] at this
    omega
  | some x =>
    obtain ⟨id, i⟩ := x
    have hi : i = n := by
      rw [List.getElem?_zipIdx] at h
      cases h2 : (PopulateRename.populate es).ids[n]? with
      | none => rw [h2] at h; cases h
      | some a => rw [h2] at h; simp at h; omega
    subst hi
    exact ⟨by simp, by simp⟩

theorem mem_zipIdx_filter {α} (l : List α) (p : α × Nat → Bool) (e : Nat) (he : e < l.length) (hp : p (l[e], e) = true) :
    e ∈ (l.zipIdx.filter p).map (·.2) := by
  refine List.mem_map.2 ⟨(l[e], e), List.mem_filter.2 ⟨?_, hp⟩, rfl⟩
  rw [List.mem_zipIdx_iff_getElem?]
  simp [he]

theorem listed_populate (cfg : Cfg) (es : InEdges) : Listed (applySizes cfg (populate es)) := by
  have hel : (applySizes cfg (populate es)).elist = List.range (PopulateRename.populate es).edges.length := by
    simp [applySizes, populate]
  have hA := adj_populate cfg es
  have hV : (applySizes cfg (populate es)).nodes.size = (PopulateRename.populate es).ids.length := by simp [applySizes, populate]
  intro e he
  rw [hel] at he
  have hlt : e < (PopulateRename.populate es).edges.length := List.mem_range.1 he
  have hends := hA.ends e (by rw [populate_edges_size]; exact hlt)
  rw [hV] at hends
  rw [(populate_node_lists_lt cfg es _ hends.1).2, (populate_node_lists_lt cfg es _ hends.2).1]
  constructor
  · apply mem_zipIdx_filter _ _ e hlt
    simp [(populate_edge cfg es e hlt).1]
  · apply mem_zipIdx_filter _ _ e hlt
    simp [(populate_edge cfg es e hlt).2]

theorem adjLL_populate (cfg : Cfg) (es : InEdges) : AdjLL (applySizes cfg (populate es)) :=
  ⟨adjL_populate cfg es, listed_populate cfg es⟩

end Autog

namespace Autog
open G

theorem stripLoop_node_lists (g : G) (e n : Nat) :
    ((stripLoop g e).node n).outs = (if (g.edge e).src = n ∧ n < g.nodes.size then (g.node n).outs.erase e else (g.node n).outs) ∧
    ((stripLoop g e).node n).ins = (if (g.edge e).src = n ∧ n < g.nodes.size then (g.node n).ins.erase e else (g.node n).ins) := by
  unfold stripLoop
  have hme : ∀ (g0 : G) (l : List Nat), ({ g0 with elist := l } : G).node n = g0.node n := fun _ _ => rfl
  simp only [hme]
  simp only [G.node_modNode, modNode_size, G.removeE]
  by_cases hc : (g.edge e).src = n ∧ n < g.nodes.size
  · simp [hc]
  · simp [hc]

theorem stripLoop_edge (g : G) (e x : Nat) : (stripLoop g e).edge x = g.edge x := rfl
theorem stripLoop_elist (g : G) (e : Nat) : (stripLoop g e).elist = g.elist.erase e := rfl

theorem listed_stripLoop (g : G) (hA : AdjL g) (hL : Listed g) (e : Nat) : Listed (stripLoop g e) := by
  intro x hx
  rw [stripLoop_elist] at hx
  have hxe : x ≠ e := ((List.Nodup.mem_erase_iff hA.elnd).1 hx).1
  have hxl := hL x (List.mem_of_mem_erase hx)
  rw [stripLoop_edge, (stripLoop_node_lists g e _).1, (stripLoop_node_lists g e _).2]
  constructor
  · split
    · exact (List.mem_erase_of_ne hxe).2 hxl.1
    · exact hxl.1
  · split
    · exact (List.mem_erase_of_ne hxe).2 hxl.2
    · exact hxl.2

theorem adjLL_ignoreSelfLoops (g : G) (h : AdjLL g) : AdjLL (ignoreSelfLoops g).1 := by
  unfold ignoreSelfLoops
  simp only
  have : ∀ (l : List Nat) (g0 : G), AdjLL g0 → (∀ e ∈ l, (g0.edge e).src = (g0.edge e).dst) → AdjLL (l.foldl stripLoop g0) := by
    intro l
    induction l with
    | nil => intro g0 h0 _; exact h0
    | cons e l ih =>
      intro g0 h0 hl
      simp only [List.foldl_cons]
      refine ih _ ⟨adjL_stripLoop g0 h0.adj e (hl e (List.mem_cons_self ..)), listed_stripLoop g0 h0.adj h0.listed e⟩ ?_
      intro x hx
      rw [stripLoop_edge]; exact hl x (List.mem_cons_of_mem _ hx)
  apply this _ g h
  intro e he
  have := (List.mem_filter.1 he).2
  unfold G.selfLoops at this
  simpa using this

end Autog

namespace Autog
open G

theorem listed_subgraph (g : G) (h : AdjL g) (hL : Listed g) (ns es : List Nat)
    (hends : ∀ e ∈ es, e ∈ g.elist → (g.edge e).src ∈ ns ∧ (g.edge e).dst ∈ ns) :
    Listed (subgraph g ns es) := by
  have hNOnd : (g.nodeIds.filter ns.contains).Nodup := List.Nodup.sublist List.filter_sublist List.nodup_range
  have hEOnd : (g.elist.filter es.contains).Nodup := List.Nodup.sublist List.filter_sublist h.elnd
  have hNOmem : ∀ n, n ∈ g.nodeIds.filter ns.contains ↔ n < g.nodes.size ∧ n ∈ ns := by
    intro n; simp [G.nodeIds, List.mem_filter]
  have hEOmem : ∀ e, e ∈ g.elist.filter es.contains ↔ e ∈ g.elist ∧ e ∈ es := by
    intro e; simp [List.mem_filter]
  intro k hk
  have hel : (subgraph g ns es).elist = List.range (g.elist.filter es.contains).length := by simp [subgraph]
  rw [hel] at hk
  have hk' : k < (g.elist.filter es.contains).length := List.mem_range.1 hk
  have hm := (hEOmem _).1 (List.getElem_mem hk')
  have hsd := hends _ hm.2 hm.1
  have hlt := h.ends _ (h.el _ hm.1)
  have hl := hL _ hm.1
  have hsrc := (hNOmem _).2 ⟨hlt.1, hsd.1⟩
  have hdst := (hNOmem _).2 ⟨hlt.2, hsd.2⟩
  have hs' := List.idxOf_lt_length_of_mem hsrc
  have hd' := List.idxOf_lt_length_of_mem hdst
  rw [(subgraph_edge g ns es k hk').1, (subgraph_edge g ns es k hk').2]
  rw [(subgraph_node g ns es _ hs').2, (subgraph_node g ns es _ hd').1]
  rw [List.getElem_idxOf hs', List.getElem_idxOf hd']
  have hkk : (g.elist.filter es.contains).idxOf (g.elist.filter es.contains)[k] = k := hEOnd.idxOf_getElem k hk'
  constructor
  · exact List.mem_map.2 ⟨_, hl.1, hkk⟩
  · exact List.mem_map.2 ⟨_, hl.2, hkk⟩

theorem adjLL_walk_subgraph (g : G) (h : AdjLL g) (start : Nat) (ns es : List Nat) (hw : walkDfs g start = .ok (ns, es)) :
    AdjLL (subgraph g ns es) := by
  obtain ⟨_, h2, _⟩ := walkDfs_closed g h.adj start ns es hw
  exact ⟨adjL_walk_subgraph g h.adj start ns es hw, listed_subgraph g h.adj h.listed ns es (fun e he _ => h2 e he)⟩

theorem adjLL_componentsLoop (g : G) (h : AdjLL g) : ∀ (ns visited : List Nat) (out r : List G),
    (∀ c ∈ out, AdjLL c) → componentsLoop g ns visited out = .ok r → ∀ c ∈ r, AdjLL c
  | [], _, out, r, ho, hr => by
    simp only [componentsLoop, pure, Except.pure, Except.ok.injEq] at hr
    subst hr; exact ho
  | n :: rest, visited, out, r, ho, hr => by
    unfold componentsLoop at hr
    by_cases hv : visited.contains n = true
    · rw [if_pos hv] at hr; exact adjLL_componentsLoop g h rest visited out r ho hr
    · rw [if_neg hv] at hr
      cases hw : walkDfs g n with
      | error e => simp [hw, bind, Except.bind] at hr
      | ok p =>
        obtain ⟨vn, ve⟩ := p
        simp only [hw, bind, Except.bind] at hr
        refine adjLL_componentsLoop g h rest _ _ r ?_ hr
        intro c hc
        rcases List.mem_append.1 hc with hc | hc
        · exact ho c hc
        · simp only [List.mem_singleton] at hc; subst hc
          exact adjLL_walk_subgraph g h n vn ve hw

theorem adjLL_components (g : G) (h : AdjLL g) (cs : List G) (hc : components g = .ok cs) : ∀ c ∈ cs, AdjLL c := by
  unfold components at hc
  by_cases h0 : (g.nodes.size == 0) = true
  · simp [h0, throw, throwThe, MonadExceptOf.throw, bind, Except.bind] at hc
  · have h0' : (g.nodes.size == 0) = false := by simpa using h0
    cases hw : walkDfs g 0 with
    | error e => simp [h0', hw, bind, Except.bind] at hc
    | ok p =>
      obtain ⟨vn, ve⟩ := p
      simp only [h0', Bool.false_eq_true, if_false, hw, bind, Except.bind, pure, Except.pure] at hc
      by_cases hl : (vn.length == g.nodes.size) = true
      · simp only [hl, if_true, Except.ok.injEq] at hc
        subst hc
        intro c hc; simp only [List.mem_singleton] at hc; subst hc; exact h
      · have hl' : (vn.length == g.nodes.size) = false := by simpa using hl
        simp only [hl', Bool.false_eq_true, if_false] at hc
        refine adjLL_componentsLoop g h _ _ _ cs ?_ hc
        intro c hc'
        simp only [List.mem_singleton] at hc'; subst hc'
        exact adjLL_walk_subgraph g h 0 vn ve hw

/-- every state the pipeline starts from is adjacency consistent in both directions -/
theorem adjLL_preProcess (cfg : Cfg) (es : InEdges) (cs : List (G × List Nat)) (h : preProcess cfg es = .ok cs) :
    ∀ c ∈ cs, AdjLL c.1 := by
  unfold preProcess at h
  cases hc : components (applySizes cfg (populate es)) with
  | error e => simp [hc, bind, Except.bind] at h
  | ok comps =>
    simp only [hc, bind, Except.bind, pure, Except.pure, Except.ok.injEq] at h
    subst h
    intro c hc'
    obtain ⟨c0, hc0, rfl⟩ := List.mem_map.1 hc'
    exact adjLL_ignoreSelfLoops c0 (adjLL_components _ (adjLL_populate cfg es) comps hc c0 hc0)

end Autog
