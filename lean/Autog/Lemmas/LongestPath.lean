/-! Spike (C11, C03): small-step model of the repaired phase2/longest_path.go (memoised DFS computing
    height = 1 + max child height) and the two recurrence facts from which "bands = nodes on a longest
    path" follows. Core-only. -/


namespace Autog.LongestPath

abbrev Frame := Nat × List Nat × Nat       -- node, out-neighbours still to follow, running nodeh

structure Cfg where
  stack : List Frame
  memo  : List (Nat × Nat)                  -- height map, newest first
deriving Repr

def look : List (Nat × Nat) → Nat → Option Nat
  | [], _ => none
  | (k, h) :: l, v => if k = v then some h else look l v

/-- `followLongestPath`; `none` = fuel exhausted (only possible on a cyclic graph) -/
def run (out : Nat → List Nat) : Nat → Cfg → Option (List (Nat × Nat))
  | 0, _ => none
  | _+1, ⟨[], memo⟩ => some memo
  | fuel+1, ⟨[(n, [], h)], memo⟩ => run out fuel ⟨[], (n, h) :: memo⟩
  | fuel+1, ⟨(n, [], h) :: (p, ms, hp) :: tl, memo⟩ =>                       -- return h to the caller
      run out fuel ⟨(p, ms, max hp (h + 1)) :: tl, (n, h) :: memo⟩
  | fuel+1, ⟨(n, m :: ms, h) :: tl, memo⟩ =>
      if m = n then run out fuel ⟨(n, ms, h) :: tl, memo⟩                   -- self loop
      else match look memo m with
        | some hm => run out fuel ⟨(n, ms, max h (hm + 1)) :: tl, memo⟩      -- memo hit
        | none => run out fuel ⟨(m, out m, 1) :: (n, ms, h) :: tl, memo⟩     -- recurse

/-- the facts about a finished node -/
def NodeOK (out : Nat → List Nat) (memo : List (Nat × Nat)) (v h : Nat) : Prop :=
  1 ≤ h ∧
  (∀ w ∈ out v, w ≠ v → ∃ hw, look memo w = some hw ∧ hw + 1 ≤ h) ∧
  (h = 1 ∨ ∃ w ∈ out v, w ≠ v ∧ look memo w = some (h - 1))

/-- memo entries are never overwritten with a different value: we only add keys that are absent -/
def MemoOK (out : Nat → List Nat) (memo : List (Nat × Nat)) : Prop :=
  ∀ l₁ v h l₂, memo = l₁ ++ (v, h) :: l₂ → look l₂ v = none ∧ NodeOK out l₂ v h

theorem look_cons_ne {memo : List (Nat × Nat)} {v w h : Nat} (hne : w ≠ v) :
    look ((w, h) :: memo) v = look memo v := by
  simp [look, hne]

theorem look_cons_eq {memo : List (Nat × Nat)} {v h : Nat} : look ((v, h) :: memo) v = some h := by
  simp [look]

/-- adding a fresh key keeps earlier lookups -/
theorem look_mono {memo : List (Nat × Nat)} {v w hv h : Nat} (hw : look memo w = none)
    (hl : look memo v = some hv) : look ((w, h) :: memo) v = some hv := by
  have : w ≠ v := by intro e; subst e; rw [hw] at hl; cases hl
  rw [look_cons_ne this]; exact hl

theorem NodeOK.mono {out memo v h w hw'} (hw : look memo w = none) (hn : NodeOK out memo v h) :
    NodeOK out ((w, hw') :: memo) v h := by
  obtain ⟨h1, h2, h3⟩ := hn
  refine ⟨h1, fun x hx hne => ?_, ?_⟩
  · obtain ⟨hx', e1, e2⟩ := h2 x hx hne
    exact ⟨hx', look_mono hw e1, e2⟩
  · rcases h3 with h3 | ⟨x, hx, hne, e⟩
    · exact .inl h3
    · exact .inr ⟨x, hx, hne, look_mono hw e⟩

section
variable (out : Nat → List Nat)

def childL : Option Nat → List Nat
  | none => []
  | some c => [c]

/-- a frame whose pending child (the frame above it) is `child` -/
def FrameOK (memo : List (Nat × Nat)) (child : Option Nat) (f : Frame) : Prop :=
  ∃ pre, out f.1 = pre ++ childL child ++ f.2.1 ∧ 1 ≤ f.2.2 ∧
    (∀ w ∈ pre, w ≠ f.1 → ∃ hw, look memo w = some hw ∧ hw + 1 ≤ f.2.2) ∧
    (f.2.2 = 1 ∨ ∃ w ∈ pre, w ≠ f.1 ∧ look memo w = some (f.2.2 - 1))

def StackOK (memo : List (Nat × Nat)) : Option Nat → List Frame → Prop
  | _, [] => True
  | c, f :: tl => FrameOK out memo c f ∧ StackOK memo (some f.1) tl

structure LInv (rank : Nat → Nat) (c : Cfg) : Prop where
  memo  : MemoOK out c.memo
  stk   : StackOK out c.memo none c.stack
  ranks : List.Pairwise (fun a b => rank a.1 < rank b.1) c.stack
  fresh : ∀ f ∈ c.stack, look c.memo f.1 = none
end

variable {out : Nat → List Nat}

theorem FrameOK.mono {memo child f w hw'} (hw : look memo w = none) (h : FrameOK out memo child f) :
    FrameOK out ((w, hw') :: memo) child f := by
  obtain ⟨pre, e, h1, h2, h3⟩ := h
  refine ⟨pre, e, h1, fun x hx hne => ?_, ?_⟩
  · obtain ⟨hx', e1, e2⟩ := h2 x hx hne
    exact ⟨hx', look_mono hw e1, e2⟩
  · rcases h3 with h3 | ⟨x, hx, hne, e⟩
    · exact .inl h3
    · exact .inr ⟨x, hx, hne, look_mono hw e⟩

theorem StackOK.mono {memo w hw'} (hw : look memo w = none) :
    ∀ {c st}, StackOK out memo c st → StackOK out ((w, hw') :: memo) c st
  | _, [], _ => trivial
  | _, _ :: _, h => ⟨h.1.mono hw, StackOK.mono hw h.2⟩

theorem MemoOK.cons {memo v h} (hm : MemoOK out memo) (hf : look memo v = none) (hn : NodeOK out memo v h) :
    MemoOK out ((v, h) :: memo) := by
  intro l₁ v' h' l₂ heq
  cases l₁ with
  | nil =>
    simp only [List.nil_append, List.cons.injEq, Prod.mk.injEq] at heq
    obtain ⟨⟨rfl, rfl⟩, rfl⟩ := heq
    exact ⟨hf, hn⟩
  | cons a l₁ =>
    simp only [List.cons_append, List.cons.injEq] at heq
    exact hm l₁ v' h' l₂ heq.2

/-- one more examined neighbour `m` with known height `hm` -/
theorem FrameOK.absorb {memo : List (Nat × Nat)} {n m : Nat} {ms : List Nat} {h hm : Nat} {pre : List Nat}
    (e : out n = pre ++ [m] ++ ms) (h1 : 1 ≤ h)
    (h2 : ∀ w ∈ pre, w ≠ n → ∃ hw, look memo w = some hw ∧ hw + 1 ≤ h)
    (h3 : h = 1 ∨ ∃ w ∈ pre, w ≠ n ∧ look memo w = some (h - 1))
    (hne : m ≠ n) (hl : look memo m = some hm) (hm1 : 1 ≤ hm) :
    FrameOK out memo none (n, ms, max h (hm + 1)) := by
  refine ⟨pre ++ [m], by simp [childL, e], ?_, fun w hw hwn => ?_, ?_⟩
  · show 1 ≤ max h (hm + 1)
    omega
  · rcases List.mem_append.1 hw with hw | hw
    · obtain ⟨hw', e1, e2⟩ := h2 w hw hwn
      exact ⟨hw', e1, by simp only; omega⟩
    · have : w = m := by simpa using hw
      subst this
      exact ⟨hm, hl, by simp only; omega⟩
  · by_cases hc : h < hm + 1
    · have : max h (hm + 1) = hm + 1 := by omega
      refine .inr ⟨m, by simp, hne, ?_⟩
      simp only [this]; simpa using hl
    · have hmax : max h (hm + 1) = h := by omega
      rcases h3 with h3 | ⟨w, hw, hwn, e1⟩
      · omega
      · refine .inr ⟨w, List.mem_append_left _ hw, hwn, ?_⟩
        simp only [hmax]; exact e1

/-- finished heights are at least 1 -/
theorem MemoOK.pos {memo : List (Nat × Nat)} (hm : MemoOK out memo) : ∀ {v h}, look memo v = some h → 1 ≤ h := by
  intro v h hl
  induction memo with
  | nil => simp [look] at hl
  | cons a memo ih =>
    obtain ⟨k, hk⟩ := a
    by_cases e : k = v
    · subst e
      have := (hm [] k hk memo rfl).2.1
      simp [look] at hl; omega
    · rw [look_cons_ne e] at hl
      exact ih (fun l₁ v h l₂ heq => hm ((k, hk) :: l₁) v h l₂ (by simp [heq])) hl

theorem run_inv (rank : Nat → Nat) (hR : ∀ v w, w ∈ out v → w ≠ v → rank w < rank v) :
    ∀ (fuel : Nat) (c : Cfg) (memo' : List (Nat × Nat)),
    LInv out rank c → run out fuel c = some memo' →
    MemoOK out memo' ∧ (∀ f ∈ c.stack, ∃ h, look memo' f.1 = some h) ∧
      (∀ v h, look c.memo v = some h → look memo' v = some h) := by
  intro fuel
  induction fuel with
  | zero => intro c m _ h; simp [run] at h
  | succ fuel ih =>
    intro c memo' hI h
    obtain ⟨stack, memo⟩ := c
    obtain ⟨hmemo, hstk, hranks, hfresh⟩ := hI
    match stack, hstk, hranks, hfresh, h with
    | [], _, _, _, h =>
      simp only [run, Option.some.injEq] at h
      subst h
      exact ⟨hmemo, by simp, fun _ _ h => h⟩
    | [(n, [], hn)], hstk, _, hfresh, h =>
      simp only [run] at h
      have hf : look memo n = none := hfresh (n, [], hn) (List.mem_cons_self ..)
      obtain ⟨⟨pre, e, h1, h2, h3⟩, _⟩ := hstk
      simp only [childL, List.append_nil] at e
      have hnode : NodeOK out memo n hn := ⟨h1, fun w hw hne => h2 w (e ▸ hw) hne, by
        rcases h3 with h3 | ⟨w, hw, hne, e1⟩
        · exact .inl h3
        · exact .inr ⟨w, e ▸ hw, hne, e1⟩⟩
      obtain ⟨r1, _, r3⟩ := ih ⟨[], (n, hn) :: memo⟩ memo' ⟨hmemo.cons hf hnode, trivial, .nil, by simp⟩ h
      refine ⟨r1, ?_, fun v h hl => r3 v h (look_mono hf hl)⟩
      intro f hf'
      have : f = (n, [], hn) := by simpa using hf'
      subst this
      exact ⟨hn, r3 n hn look_cons_eq⟩
    | (n, [], hn) :: (p, ms, hp) :: tl, hstk, hranks, hfresh, h =>
      simp only [run] at h
      have hf : look memo n = none := hfresh (n, [], hn) (List.mem_cons_self ..)
      obtain ⟨⟨pre, e, h1, h2, h3⟩, ⟨pre', e', h1', h2', h3'⟩, hstk3⟩ := hstk
      simp only [childL, List.append_nil] at e e'
      have hnode : NodeOK out memo n hn := ⟨h1, fun w hw hne => h2 w (e ▸ hw) hne, by
        rcases h3 with h3 | ⟨w, hw, hne, e1⟩
        · exact .inl h3
        · exact .inr ⟨w, e ▸ hw, hne, e1⟩⟩
      have hnp : n ≠ p := by
        have := List.rel_of_pairwise_cons hranks (List.mem_cons_self (a := (p, ms, hp)) (l := tl))
        intro e; simp [e] at this
      have hparent : FrameOK out ((n, hn) :: memo) none (p, ms, max hp (hn + 1)) :=
        FrameOK.absorb (pre := pre') e' h1'
          (fun w hw hne => by
            obtain ⟨hw', e1, e2⟩ := h2' w hw hne
            exact ⟨hw', look_mono hf e1, e2⟩)
          (by
            rcases h3' with h3' | ⟨w, hw, hne, e1⟩
            · exact .inl h3'
            · exact .inr ⟨w, hw, hne, look_mono hf e1⟩)
          hnp look_cons_eq h1
      have hfresh' : ∀ f ∈ ((p, ms, max hp (hn + 1)) :: tl), look ((n, hn) :: memo) f.1 = none := by
        intro f hf'
        have hfn : f.1 ≠ n := by
          rcases List.mem_cons.1 hf' with rfl | hf'
          · exact fun e => hnp e.symm
          · have := List.rel_of_pairwise_cons hranks (List.mem_cons_of_mem _ hf')
            intro e; simp [e] at this
        rw [look_cons_ne (Ne.symm hfn)]
        rcases List.mem_cons.1 hf' with rfl | hf'
        · exact hfresh (p, ms, hp) (by simp)
        · exact hfresh f (by simp [hf'])
      have hranks' : List.Pairwise (fun a b : Frame => rank a.1 < rank b.1) ((p, ms, max hp (hn + 1)) :: tl) := by
        have := List.Pairwise.of_cons hranks
        rw [List.pairwise_cons] at this ⊢
        exact this
      obtain ⟨r1, r2, r3⟩ := ih ⟨(p, ms, max hp (hn + 1)) :: tl, (n, hn) :: memo⟩ memo'
        ⟨hmemo.cons hf hnode, ⟨hparent, StackOK.mono hf hstk3⟩, hranks', hfresh'⟩ h
      refine ⟨r1, ?_, fun v h hl => r3 v h (look_mono hf hl)⟩
      intro f hf'
      rcases List.mem_cons.1 hf' with rfl | hf'
      · exact ⟨hn, r3 n hn look_cons_eq⟩
      · rcases List.mem_cons.1 hf' with rfl | hf'
        · exact r2 (p, ms, max hp (hn + 1)) (List.mem_cons_self ..)
        · exact r2 f (List.mem_cons_of_mem _ hf')
    | (n, m :: ms, hn) :: tl, hstk, hranks, hfresh, h =>
      simp only [run] at h
      obtain ⟨⟨pre, e, h1, h2, h3⟩, hstk2⟩ := hstk
      simp only [childL, List.append_nil] at e
      split at h
      · -- self loop
        rename_i hmn
        subst hmn
        have hfr : FrameOK out memo none (m, ms, hn) :=
          ⟨pre ++ [m], by simp [childL, e], h1,
            fun w hw hne => by
              rcases List.mem_append.1 hw with hw | hw
              · exact h2 w hw hne
              · exact absurd (by simpa using hw) hne,
            by
              rcases h3 with h3 | ⟨w, hw, hne, e1⟩
              · exact .inl h3
              · exact .inr ⟨w, List.mem_append_left _ hw, hne, e1⟩⟩
        obtain ⟨r1, r2, r3⟩ := ih ⟨(m, ms, hn) :: tl, memo⟩ memo' ⟨hmemo, ⟨hfr, hstk2⟩,
          by rw [List.pairwise_cons] at hranks ⊢; exact hranks,
          by intro f hf; rcases List.mem_cons.1 hf with rfl | hf
             · exact hfresh (m, m :: ms, hn) (List.mem_cons_self ..)
             · exact hfresh f (List.mem_cons_of_mem _ hf)⟩ h
        refine ⟨r1, ?_, r3⟩
        intro f hf
        rcases List.mem_cons.1 hf with rfl | hf
        · exact r2 (m, ms, hn) (List.mem_cons_self ..)
        · exact r2 f (List.mem_cons_of_mem _ hf)
      · rename_i hmn
        split at h
        · -- memo hit
          rename_i hm hl
          have hfr : FrameOK out memo none (n, ms, max hn (hm + 1)) :=
            FrameOK.absorb (pre := pre) (by simp [e]) h1 h2 h3 hmn hl (hmemo.pos hl)
          obtain ⟨r1, r2, r3⟩ := ih ⟨(n, ms, max hn (hm + 1)) :: tl, memo⟩ memo' ⟨hmemo, ⟨hfr, hstk2⟩,
            by rw [List.pairwise_cons] at hranks ⊢; exact hranks,
            by intro f hf; rcases List.mem_cons.1 hf with rfl | hf
               · exact hfresh (n, m :: ms, hn) (List.mem_cons_self ..)
               · exact hfresh f (List.mem_cons_of_mem _ hf)⟩ h
          refine ⟨r1, ?_, r3⟩
          intro f hf
          rcases List.mem_cons.1 hf with rfl | hf
          · exact r2 (n, ms, max hn (hm + 1)) (List.mem_cons_self ..)
          · exact r2 f (List.mem_cons_of_mem _ hf)
        · -- recurse into m
          rename_i hl
          have hmem : m ∈ out n := by rw [e]; simp
          have hrk := hR n m hmem hmn
          have hparent : FrameOK out memo (some m) (n, ms, hn) := ⟨pre, by simp [childL, e], h1, h2, h3⟩
          have hchild : FrameOK out memo none (m, out m, 1) := by
            refine ⟨[], by simp [childL], Nat.le_refl _, ?_, .inl rfl⟩
            intro w hw; cases hw
          have hranks' : List.Pairwise (fun a b : Frame => rank a.1 < rank b.1) ((m, out m, 1) :: (n, ms, hn) :: tl) := by
            rw [List.pairwise_cons] at hranks
            refine List.Pairwise.cons ?_ (List.Pairwise.cons hranks.1 hranks.2)
            intro f hf
            rcases List.mem_cons.1 hf with rfl | hf
            · exact hrk
            · exact Nat.lt_trans hrk (hranks.1 f hf)
          obtain ⟨r1, r2, r3⟩ := ih ⟨(m, out m, 1) :: (n, ms, hn) :: tl, memo⟩ memo'
            ⟨hmemo, ⟨hchild, hparent, hstk2⟩, hranks',
             by intro f hf
                rcases List.mem_cons.1 hf with rfl | hf
                · exact hl
                · rcases List.mem_cons.1 hf with rfl | hf
                  · exact hfresh (n, m :: ms, hn) (List.mem_cons_self ..)
                  · exact hfresh f (List.mem_cons_of_mem _ hf)⟩ h
          refine ⟨r1, ?_, r3⟩
          intro f hf
          rcases List.mem_cons.1 hf with rfl | hf
          · exact r2 (n, ms, hn) (by simp)
          · exact r2 f (by simp [hf])


def outEx : Nat → List Nat
  | 0 => [1, 2] | 1 => [2, 3] | 2 => [3] | 3 => [] | _ => []
#eval run outEx 100 ⟨[(0, outEx 0, 1)], []⟩

/-! ### from the recurrence to paths (C11) -/

/-- a directed path (list of nodes, consecutive ones joined by a non-loop edge) -/
def IsPath (out : Nat → List Nat) : List Nat → Prop
  | [] => False
  | [_] => True
  | a :: b :: l => b ∈ out a ∧ b ≠ a ∧ IsPath out (b :: l)

/-- a total height function satisfying the two recurrence facts -/
structure Heights (out : Nat → List Nat) (ht : Nat → Nat) : Prop where
  pos  : ∀ v, 1 ≤ ht v
  ge   : ∀ v, ∀ w ∈ out v, w ≠ v → ht w + 1 ≤ ht v
  att  : ∀ v, ht v = 1 ∨ ∃ w ∈ out v, w ≠ v ∧ ht w + 1 = ht v

/-- no path starting at v has more nodes than ht v -/
theorem path_le {out ht} (H : Heights out ht) : ∀ (p : List Nat) (v : Nat), IsPath out (v :: p) → (v :: p).length ≤ ht v
  | [], v, _ => by simpa using H.pos v
  | b :: l, v, hp => by
    obtain ⟨h1, h2, h3⟩ := hp
    have := path_le H l b h3
    have := H.ge v b h1 h2
    simp only [List.length_cons] at *
    omega

/-- and there is a path with exactly ht v nodes -/
theorem path_attained {out ht} (H : Heights out ht) : ∀ (k : Nat) (v : Nat), ht v = k →
    ∃ p, IsPath out (v :: p) ∧ (v :: p).length = k := by
  intro k
  induction k using Nat.strongRecOn with
  | _ k ih =>
    intro v hv
    rcases H.att v with h1 | ⟨w, hw, hne, e⟩
    · exact ⟨[], trivial, by simp; omega⟩
    · obtain ⟨p, hp, hl⟩ := ih (ht w) (by omega) w rfl
      exact ⟨w :: p, ⟨hw, hne, hp⟩, by simp only [List.length_cons] at *; omega⟩

end Autog.LongestPath
