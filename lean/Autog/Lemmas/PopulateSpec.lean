import Autog.Lemmas.PopulateRename
/-! What `populate` builds: edge k of the result joins the table entries named by the k-th input pair, and the id
    table has no duplicates. Core-only. -/

namespace Autog.PopulateRename

variable {α : Type} [DecidableEq α]

theorem idx_some {tbl : List α} {s : α} {i : Nat} (h : idx tbl s = some i) : tbl[i]? = some s := by
  induction tbl generalizing i with
  | nil => simp [idx] at h
  | cons a l ih =>
    simp only [idx] at h
    by_cases ha : a = s
    · simp [ha] at h; subst h; simp [ha]
    · simp only [ha, if_false, Option.map_eq_some_iff] at h
      obtain ⟨j, hj, rfl⟩ := h
      simpa using ih hj

theorem idx_none {tbl : List α} {s : α} (h : idx tbl s = none) : s ∉ tbl := by
  induction tbl with
  | nil => simp
  | cons a l ih =>
    simp only [idx] at h
    by_cases ha : a = s
    · simp [ha] at h
    · simp only [ha, if_false, Option.map_eq_none_iff] at h
      intro hm
      rcases List.mem_cons.1 hm with rfl | hm
      · exact ha rfl
      · exact ih h hm

/-- interning returns an index at which the (possibly extended) table holds the name; the table only grows at the end;
    a duplicate-free table stays duplicate free -/
theorem intern_spec (tbl : List α) (s : α) :
    (intern tbl s).1[(intern tbl s).2]? = some s ∧ (∃ ext, (intern tbl s).1 = tbl ++ ext) ∧
    (tbl.Nodup → (intern tbl s).1.Nodup) := by
  unfold intern
  cases h : idx tbl s with
  | some i => exact ⟨idx_some h, ⟨[], by simp⟩, id⟩
  | none =>
    refine ⟨by simp, ⟨[s], rfl⟩, fun hnd => ?_⟩
    exact List.nodup_append.2 ⟨hnd, by simp, fun a ha b hb => by
      have : b = s := by simpa using hb
      subst this; intro e; subst e; exact idx_none h ha⟩

theorem getElem?_append_left' {l ext : List α} {i : Nat} {s : α} (h : l[i]? = some s) : (l ++ ext)[i]? = some s := by
  have hi : i < l.length := by
    rcases Nat.lt_or_ge i l.length with h1 | h1
    · exact h1
    · rw [List.getElem?_eq_none h1] at h; cases h
  rw [List.getElem?_append_left hi]; exact h

/-- the invariant of the population loop -/
theorem populateFrom_spec : ∀ (es : List (α × α)) (g : PG α), g.ids.Nodup →
    (populateFrom g es).ids.Nodup ∧ (∃ ext, (populateFrom g es).ids = g.ids ++ ext) ∧
    ∃ new, (populateFrom g es).edges = g.edges ++ new ∧ new.length = es.length ∧
      ∀ (j : Nat) (h1 : j < new.length) (h2 : j < es.length),
        (populateFrom g es).ids[new[j].1]? = some es[j].1 ∧ (populateFrom g es).ids[new[j].2]? = some es[j].2
  | [], g, hnd => ⟨hnd, ⟨[], by simp [populateFrom]⟩, [], by simp [populateFrom], rfl, fun j h1 _ => by simp at h1⟩
  | (s, t) :: es, g, hnd => by
    simp only [populateFrom]
    obtain ⟨hs1, ⟨ext1, he1⟩, hs3⟩ := intern_spec g.ids s
    obtain ⟨ht1, ⟨ext2, he2⟩, ht3⟩ := intern_spec (intern g.ids s).1 t
    have hnd2 := ht3 (hs3 hnd)
    obtain ⟨ih1, ⟨ext3, he3⟩, new, hn1, hn2, hn3⟩ := populateFrom_spec es
      ⟨(intern (intern g.ids s).1 t).1, g.edges ++ [((intern g.ids s).2, (intern (intern g.ids s).1 t).2)]⟩ hnd2
    refine ⟨ih1, ⟨ext1 ++ ext2 ++ ext3, by rw [he3]; simp only []; rw [he2, he1]; simp⟩,
      ((intern g.ids s).2, (intern (intern g.ids s).1 t).2) :: new, by rw [hn1]; simp, by simp [hn2], ?_⟩
    intro j h1 h2
    cases j with
    | zero =>
      simp only [List.getElem_cons_zero]
      rw [he3]; simp only []
      constructor
      · apply getElem?_append_left'
        rw [he2]; exact getElem?_append_left' hs1
      · exact getElem?_append_left' ht1
    | succ j =>
      simp only [List.getElem_cons_succ]
      exact hn3 j (by simpa using h1) (by simpa using h2)

/-- Populate: a duplicate-free id table, one edge per input pair in order, joining the entries named by the pair -/
theorem populate_spec (es : List (α × α)) :
    (populate es).ids.Nodup ∧ (populate es).edges.length = es.length ∧
    ∀ (j : Nat) (h1 : j < (populate es).edges.length) (h2 : j < es.length),
      (populate es).ids[((populate es).edges[j]).1]? = some es[j].1 ∧
      (populate es).ids[((populate es).edges[j]).2]? = some es[j].2 := by
  obtain ⟨h1, _, new, hn1, hn2, hn3⟩ := populateFrom_spec es ⟨[], []⟩ List.nodup_nil
  have he : (populate es).edges = new := by simpa [populate] using hn1
  refine ⟨h1, by rw [he]; exact hn2, fun j hj1 hj2 => ?_⟩
  have := hn3 j (by rw [← he]; exact hj1) hj2
  have hj : (populate es).edges[j] = new[j]'(by rw [← he]; exact hj1) := by simp [he]
  rw [hj]
  exact this

end Autog.PopulateRename
