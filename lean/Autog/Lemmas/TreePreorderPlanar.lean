/-! Spike (C13): in a rooted tree, numbering the nodes of each depth in DFS pre-order
    (what wmedian.initPositionsFromTop does on an out-tree) gives a drawing without crossings:
    listing the edges between depth d and d+1 parent by parent (parents in level order)
    lists the children exactly in level order. Core-only. -/


namespace Autog.TreePreorderPlanar

inductive T where
  | node : Nat → List T → T

def T.id : T → Nat | .node x _ => x

mutual
/-- nodes at depth d, in pre-order -/
def lvl : T → Nat → List Nat
  | .node x _, 0 => [x]
  | .node _ ks, d+1 => lvls ks d
def lvls : List T → Nat → List Nat
  | [], _ => []
  | k :: ks, d => lvl k d ++ lvls ks d
end

mutual
/-- edges (parent, child) from depth d to depth d+1, parents in level order, children in Out order -/
def edg : T → Nat → List (Nat × Nat)
  | .node x ks, 0 => ks.map (fun k => (x, k.id))
  | .node _ ks, d+1 => edgs ks d
def edgs : List T → Nat → List (Nat × Nat)
  | [], _ => []
  | k :: ks, d => edg k d ++ edgs ks d
end

theorem lvls_zero (ks : List T) : lvls ks 0 = ks.map T.id := by
  induction ks with
  | nil => rfl
  | cons k ks ih => cases k; simp [lvls, lvl, ih, T.id]

mutual
/-- children, read off the edge list, are exactly the next level in order -/
theorem edg_snd : ∀ (t : T) (d : Nat), (edg t d).map Prod.snd = lvl t (d+1)
  | .node x ks, 0 => by
      simp only [edg, lvl, lvls_zero, List.map_map]; rfl
  | .node x ks, d+1 => by
      simp only [edg, lvl]; exact edgs_snd ks d
theorem edgs_snd : ∀ (ks : List T) (d : Nat), (edgs ks d).map Prod.snd = lvls ks (d+1)
  | [], d => by simp [edgs, lvls]
  | k :: ks, d => by
      simp only [edgs, lvls, List.map_append, edg_snd k d, edgs_snd ks d]
end

/-- `ps` is `us` with each element repeated some number of times (possibly zero) -/
inductive Stutter : List Nat → List Nat → Prop
  | nil : Stutter [] []
  | skip {u us ps} : Stutter us ps → Stutter (u :: us) ps
  | rep {u us ps} : Stutter (u :: us) ps → Stutter (u :: us) (u :: ps)

theorem Stutter.append {us₁ ps₁ us₂ ps₂} (h₁ : Stutter us₁ ps₁) (h₂ : Stutter us₂ ps₂) :
    Stutter (us₁ ++ us₂) (ps₁ ++ ps₂) := by
  induction h₁ with
  | nil => simpa using h₂
  | skip _ ih => exact .skip ih
  | rep _ ih => exact .rep ih

theorem stutter_replicate (x : Nat) : ∀ n, Stutter [x] (List.replicate n x)
  | 0 => .skip .nil
  | n+1 => .rep (stutter_replicate x n)

mutual
/-- parents, read off the edge list, follow the level order (each parent repeated once per child) -/
theorem edg_fst : ∀ (t : T) (d : Nat), Stutter (lvl t d) ((edg t d).map Prod.fst)
  | .node x ks, 0 => by
      simp only [edg, lvl, List.map_map]
      have : (ks.map ((Prod.fst : Nat × Nat → Nat) ∘ fun k => (x, k.id))) = List.replicate ks.length x := by
        induction ks with
        | nil => rfl
        | cons k ks ih => simp [List.replicate_succ, ih]
      rw [this]; exact stutter_replicate x _
  | .node x ks, d+1 => by
      simp only [edg, lvl]; exact edgs_fst ks d
theorem edgs_fst : ∀ (ks : List T) (d : Nat), Stutter (lvls ks d) ((edgs ks d).map Prod.fst)
  | [], d => by simp [edgs, lvls]; exact .nil
  | k :: ks, d => by
      simp only [edgs, lvls, List.map_append]
      exact (edg_fst k d).append (edgs_fst ks d)
end

/-- position = index in the level list -/
def Mono (pos : Nat → Nat) : List Nat → Prop
  | [] => True
  | [_] => True
  | a :: b :: l => pos a ≤ pos b ∧ Mono pos (b :: l)

/-- a stutter of a list on which `pos` is strictly increasing is non-decreasing -/
theorem Stutter.mono {pos : Nat → Nat} : ∀ {us ps}, Stutter us ps →
    (List.Pairwise (fun a b => pos a < pos b) us) → List.Pairwise (fun a b => pos a ≤ pos b) ps := by
  intro us ps h
  induction h with
  | nil => intro _; exact .nil
  | skip _ ih => intro hp; exact ih (List.Pairwise.of_cons hp)
  | @rep u us ps h ih =>
    intro hp
    have ihp := ih hp
    refine List.Pairwise.cons ?_ ihp
    -- every later parent is u or comes after u in `us`
    have mem : ∀ {us ps}, Stutter us ps → ∀ b ∈ ps, b ∈ us := by
      intro us ps h
      induction h with
      | nil => intro b hb; cases hb
      | skip _ ih => intro b hb; exact List.mem_cons_of_mem _ (ih b hb)
      | rep _ ih => intro b hb
                    rcases List.mem_cons.1 hb with rfl | hb
                    · exact List.mem_cons_self ..
                    · exact ih b hb
    intro b hb
    rcases List.mem_cons.1 (mem h b hb) with rfl | hb'
    · exact Nat.le_refl _
    · exact Nat.le_of_lt (List.rel_of_pairwise_cons hp hb')

/-- C13 core: for any position functions that are strictly increasing along the two level lists,
    the edges between the levels, taken in the order `edg t d`, have non-decreasing parent positions
    and strictly increasing child positions — so no two of them cross. -/
theorem no_crossing (t : T) (d : Nat) (pu pl : Nat → Nat)
    (hu : List.Pairwise (fun a b => pu a < pu b) (lvl t d))
    (hl : List.Pairwise (fun a b => pl a < pl b) (lvl t (d+1))) :
    List.Pairwise (fun e f => pu e.1 ≤ pu f.1 ∧ pl e.2 < pl f.2) (edg t d) := by
  have h1 := (edg_fst t d).mono hu
  have h2 : List.Pairwise (fun a b => pl a < pl b) ((edg t d).map Prod.snd) := by rw [edg_snd]; exact hl
  rw [List.pairwise_map] at h1 h2
  exact List.Pairwise.and h1 h2 |>.imp (fun h => h)


-- non-vacuity
def ex : T := .node 0 [.node 1 [.node 3 [], .node 4 []], .node 2 [.node 5 []]]
#eval (lvl ex 1, lvl ex 2, edg ex 1)

end Autog.TreePreorderPlanar
