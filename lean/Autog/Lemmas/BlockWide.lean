import Autog.Model.SinkColoring
import Autog.Lemmas.GraphOps
import Autog.Lemmas.Layers
/-! SinkColoring: every block is at least as wide as each of its nodes (`BlockWide`), on every properly layered state.
    `setColor(n)` climbs from n along one in-edge per step, so it only ever rewrites `roots` at n itself and at nodes in strictly
    higher bands; the loops visit the bands bottom-up, so once a node has been visited its root is final, and the running maximum
    `blockwidth[roots[k]] = max(…, w)` taken at that moment stays valid (block widths only grow). Core-only. -/

namespace Autog

/-- what phase 4 may assume about the layered state it receives -/
structure LayeredWF (g : G) : Prop where
  /-- an in-edge ends at its node and starts at a node of the store -/
  ins : ∀ n, ∀ e ∈ (g.node n).ins, (g.edge e).dst = n ∧ (g.edge e).src < g.nodes.size
  /-- edges never point upwards -/
  down : ∀ n, ∀ e ∈ (g.node n).ins, g.layerOf (g.edge e).src ≤ g.layerOf n
  /-- the block-building loops visit the nodes band by band, bottom-up -/
  order : List.Pairwise (fun a b => g.layerOf b ≤ g.layerOf a) (scOrder g)
  nodup : (scOrder g).Nodup
  bound : ∀ n ∈ scOrder g, n < g.nodes.size

/-- a block is at least as wide as each of its nodes -/
def BlockWide (g : G) (bw : Array Rat) (roots : Array Nat) : Prop :=
  ∀ n ∈ g.layers.toList.flatMap (·.nodes), (g.node n).w ≤ bw.getD (roots.getD n n) 0

theorem pick_spec (g : G) (nd : Node) : ∀ (k : Nat) (e : Option Nat) (i : Nat) (x : Nat),
    (∀ y, e = some y → y ∈ nd.ins) → setColor.pick g nd k e i = some x →
    x ∈ nd.ins ∧ g.selfLoops x = false ∧ g.isFlat x = false
  | 0, _, _, _, _, h => by simp [setColor.pick] at h
  | k + 1, some y, i, x, he, h => by
    simp only [setColor.pick] at h
    by_cases hc : (g.selfLoops y || g.isFlat y) = true
    · rw [if_pos hc] at h
      cases hi : nd.ins[i]? with
      | none => rw [hi] at h; cases h
      | some z =>
        rw [hi] at h
        exact pick_spec g nd k (some z) (i + 1) x (fun y' hy' => by
          cases hy'; exact List.mem_of_getElem? hi) h
    · rw [if_neg hc] at h
      have hxy : y = x := by simpa using h
      subst hxy
      have : g.selfLoops y = false ∧ g.isFlat y = false := by
        cases h1 : g.selfLoops y <;> cases h2 : g.isFlat y <;> simp_all
      exact ⟨he y rfl, this⟩
  | k + 1, none, i, x, _, h => by
    simp only [setColor.pick] at h
    cases hi : nd.ins[i]? with
    | none => rw [hi] at h; cases h
    | some z =>
      rw [hi] at h
      exact pick_spec g nd k (some z) (i + 1) x (fun y' hy' => by
        cases hy'; exact List.mem_of_getElem? hi) h

theorem foldl_last_virt_mem (g : G) (n : Nat) : ∀ (l : List Nat) (acc : Option Nat) (S : List Nat),
    (∀ y, acc = some y → y ∈ S) → (∀ y ∈ l, y ∈ S) →
    ∀ y, l.foldl (fun acc f => if (g.node (g.other f n)).virt then some f else acc) acc = some y → y ∈ S
  | [], acc, S, ha, _, y, h => ha y h
  | f :: l, acc, S, ha, hl, y, h => by
    simp only [List.foldl_cons] at h
    refine foldl_last_virt_mem g n l _ S ?_ (fun z hz => hl z (List.mem_cons_of_mem _ hz)) y h
    intro z hz
    split at hz
    · cases hz; exact hl f (List.mem_cons_self ..)
    · exact ha z hz

theorem le_maxRat_l (a b : Rat) : a ≤ maxRat a b := by
  unfold maxRat; split
  · assumption
  · exact Rat.le_refl
theorem le_maxRat_r (a b : Rat) : b ≤ maxRat a b := by
  unfold maxRat; split
  · exact Rat.le_refl
  · rename_i h; exact Rat.le_of_lt (Rat.not_le.1 h)

/-- the three facts about one call of `setColor`: the width it reports covers the node; it rewrites `roots` only at the node itself and
    strictly above; and the array keeps its size -/
theorem setColor_spec (g : G) (hL : LayeredWF g) : ∀ (fuel : Nat) (s s' : SCSt) (n root : Nat) (w : Rat),
    setColor g fuel s n = .ok (s', root, w) → n < g.nodes.size →
    (∀ i, i < g.nodes.size → s.roots.getD i i < g.nodes.size) →
    (g.node n).w ≤ w ∧ s'.roots.size = s.roots.size ∧
    (∀ x, x ≠ n → g.layerOf n ≤ g.layerOf x → s'.roots.getD x x = s.roots.getD x x) ∧
    root < g.nodes.size ∧ (∀ i, i < g.nodes.size → s'.roots.getD i i < g.nodes.size)
  | 0, _, _, _, _, _, h, _, _ => by simp [setColor] at h
  | fuel + 1, s, s', n, root, w, h, hn, hrv => by
    unfold setColor at h
    simp only at h
    split at h
    · simp only [pure, Except.pure, Except.ok.injEq, Prod.mk.injEq] at h
      obtain ⟨rfl, rfl, rfl⟩ := h
      exact ⟨Rat.le_refl, rfl, fun _ _ _ => rfl, hn, hrv⟩
    · split at h
      · simp only [pure, Except.pure, Except.ok.injEq, Prod.mk.injEq] at h
        obtain ⟨rfl, rfl, rfl⟩ := h
        exact ⟨Rat.le_refl, rfl, fun _ _ _ => rfl, hn, hrv⟩
      · rename_i e hpick
        have hpe := pick_spec g (g.node n) _ _ 0 e
          (fun y hy => foldl_last_virt_mem g n (g.node n).ins none (g.node n).ins (fun _ h0 => by cases h0) (fun _ hz => hz) y hy) hpick
        split at h
        · simp only [pure, Except.pure, Except.ok.injEq, Prod.mk.injEq] at h
          obtain ⟨rfl, rfl, rfl⟩ := h
          exact ⟨Rat.le_refl, rfl, fun _ _ _ => rfl, hn, hrv⟩
        · split at h
          · simp only [pure, Except.pure, Except.ok.injEq, Prod.mk.injEq] at h
            obtain ⟨rfl, rfl, rfl⟩ := h
            exact ⟨Rat.le_refl, rfl, fun _ _ _ => rfl, hn, hrv⟩
          · simp only [bind, Except.bind] at h
            split at h
            · cases h
            · rename_i r hrec
              obtain ⟨s1, root1, rootw⟩ := r
              simp only [pure, Except.pure, Except.ok.injEq, Prod.mk.injEq] at h
              obtain ⟨rfl, rfl, rfl⟩ := h
              -- the upper neighbour sits strictly above n
              have hin := hL.ins n e hpe.1
              have hother : g.other e n = (g.edge e).src := by
                unfold G.other; simp [hin.1]
              obtain ⟨_, hsz, hfr, hroot, hrv1⟩ := setColor_spec g hL fuel _ s1 (g.other e n) root1 rootw hrec
                (by rw [hother]; exact hin.2) hrv
              have hlt : g.layerOf (g.other e n) < g.layerOf n := by
                rw [hother]
                have hle := hL.down n e hpe.1
                have hnf : g.layerOf (g.edge e).src ≠ g.layerOf (g.edge e).dst := by
                  have := hpe.2.2
                  unfold G.isFlat at this
                  simpa using this
                rw [hin.1] at hnf
                omega
              refine ⟨le_maxRat_l _ _, by simp [hsz], fun x hxn hlx => ?_, hroot, fun i hi => ?_⟩
              · simp only
                have hxm : x ≠ g.other e n := by
                  intro e'; rw [e'] at hlx; omega
                rw [Array.getD_eq_getD_getElem?, Array.getElem?_setIfInBounds_ne (Ne.symm hxn), ← Array.getD_eq_getD_getElem?]
                exact hfr x hxm (by omega)
              · simp only
                by_cases hni : n = i
                · subst hni
                  by_cases hb : n < s1.roots.size
                  · rw [Array.getD_eq_getD_getElem?, Array.getElem?_setIfInBounds_self_of_lt hb, Option.getD_some]
                    exact hroot
                  · rw [Array.setIfInBounds_eq_of_size_le (by omega)]
                    exact hrv1 n hi
                · rw [Array.getD_eq_getD_getElem?, Array.getElem?_setIfInBounds_ne hni, ← Array.getD_eq_getD_getElem?]
                  exact hrv1 i hi

theorem getD_set_mono (bw : Array Rat) (r i : Nat) (w : Rat) :
    bw.getD i 0 ≤ (bw.setIfInBounds r (maxRat (bw.getD r 0) w)).getD i 0 := by
  by_cases h : r = i
  · subst h
    by_cases hb : r < bw.size
    · simp only [Array.getD_eq_getD_getElem?, Array.getElem?_setIfInBounds_self_of_lt hb, Option.getD_some]
      exact le_maxRat_l _ _
    · rw [Array.setIfInBounds_eq_of_size_le (by omega)]
      exact Rat.le_refl
  · rw [Array.getD_eq_getD_getElem?, Array.getD_eq_getD_getElem?, Array.getElem?_setIfInBounds_ne h]
    exact Rat.le_refl

/-- invariant of the block-building loop over a suffix of the visiting order -/
theorem scFold_inv (g : G) (hL : LayeredWF g) : ∀ (todo : List Nat) (done : List Nat) (s : SCSt) (bw : Array Rat) (s' : SCSt) (bw' : Array Rat),
    todo.foldlM (scStep g) (s, bw) = .ok (s', bw') →
    List.Pairwise (fun a b => g.layerOf b ≤ g.layerOf a) (done.reverse ++ todo) → (done.reverse ++ todo).Nodup →
    (∀ n ∈ todo, n < g.nodes.size) → bw.size = g.nodes.size → s.roots.size = g.nodes.size →
    (∀ i, i < g.nodes.size → s.roots.getD i i < g.nodes.size) →
    (∀ k ∈ done, (g.node k).w ≤ bw.getD (s.roots.getD k k) 0) →
    ∀ k, k ∈ done ∨ k ∈ todo → (g.node k).w ≤ bw'.getD (s'.roots.getD k k) 0
  | [], done, s, bw, s', bw', h, _, _, _, _, _, _, hinv => by
    simp only [List.foldlM_nil, pure, Except.pure, Except.ok.injEq, Prod.mk.injEq] at h
    obtain ⟨rfl, rfl⟩ := h
    intro k hk
    rcases hk with hk | hk
    · exact hinv k hk
    · cases hk
  | k' :: todo, done, s, bw, s', bw', h, hpw, hnd, hb, hbs, hrs, hrv, hinv => by
    simp only [List.foldlM_cons, bind, Except.bind] at h
    cases hstep : scStep g (s, bw) k' with
    | error e => rw [hstep] at h; cases h
    | ok acc1 =>
      rw [hstep] at h
      simp only at h
      obtain ⟨s1, bw1⟩ := acc1
      unfold scStep at hstep
      simp only [bind, Except.bind] at hstep
      cases hsc : setColor g (g.layers.size + 2) s k' with
      | error e => rw [hsc] at hstep; cases hstep
      | ok r =>
        rw [hsc] at hstep
        obtain ⟨s1', root, w⟩ := r
        simp only [pure, Except.pure, Except.ok.injEq, Prod.mk.injEq] at hstep
        obtain ⟨rfl, rfl⟩ := hstep
        have hk'b := hb k' (List.mem_cons_self ..)
        -- roots stay inside the store: needed to know the write to bw takes effect
        obtain ⟨hw, hsz, hfr, _, hrv1⟩ := setColor_spec g hL _ s s1' k' root w hsc hk'b hrv
        have hr_lt : s1'.roots.getD k' k' < g.nodes.size := hrv1 k' hk'b
        have hgoal := scFold_inv g hL todo (k' :: done) s1' _ s' bw' h
          (by simpa [List.reverse_cons, List.append_assoc] using hpw)
          (by simpa [List.reverse_cons, List.append_assoc] using hnd)
          (fun n hn => hb n (List.mem_cons_of_mem _ hn)) (by simp [hbs]) (by rw [hsz, hrs]) hrv1
        intro k hk
        refine hgoal ?_ k (by
          rcases hk with hk | hk
          · exact Or.inl (List.mem_cons_of_mem _ hk)
          · rcases List.mem_cons.1 hk with rfl | hk
            · exact Or.inl (List.mem_cons_self ..)
            · exact Or.inr hk)
        · intro k hk
          rcases List.mem_cons.1 hk with rfl | hk
          · -- the node just visited
            rw [Array.getD_eq_getD_getElem?, Array.getElem?_setIfInBounds_self_of_lt (by rw [hbs]; exact hr_lt), Option.getD_some]
            exact Rat.le_trans hw (le_maxRat_r _ _)
          · -- an earlier node: same root (it sits at or below k'), and block widths only grow
            have hne : k ≠ k' := by
              intro e
              exact (List.nodup_append.1 hnd).2.2 k (List.mem_reverse.2 hk) k' (List.mem_cons_self ..) e
            have hlay : g.layerOf k' ≤ g.layerOf k := by
              have := List.pairwise_append.1 hpw
              exact this.2.2 k (List.mem_reverse.2 hk) k' (List.mem_cons_self ..)
            rw [hfr k hne hlay]
            exact Rat.le_trans (hinv k hk) (getD_set_mono bw _ _ w)
termination_by todo => todo.length

end Autog

namespace Autog

/-- C04: on every properly layered state the blocks SinkColoring builds are at least as wide as each of their nodes -/
theorem scBlocks_blockWide (g : G) (hL : LayeredWF g) (bw : Array Rat) (roots : Array Nat) (h : scBlocks g = .ok (bw, roots)) :
    BlockWide g bw roots := by
  unfold scBlocks at h
  simp only [bind, Except.bind] at h
  split at h
  · cases h
  · rename_i r hfold
    obtain ⟨s', bw'⟩ := r
    simp only [pure, Except.pure, Except.ok.injEq, Prod.mk.injEq] at h
    obtain ⟨rfl, rfl⟩ := h
    have := scFold_inv g hL (scOrder g) []
      { colors := (List.range g.nodes.size).toArray, roots := (List.range g.nodes.size).toArray, priority := [] }
      (Array.replicate g.nodes.size 0) s' bw' hfold (by simpa using hL.order) (by simpa using hL.nodup)
      hL.bound (by simp) (by simp)
      (fun i hi => by simp [Array.getD_eq_getD_getElem?, hi])
      (fun k hk => by cases hk)
    intro n hn
    refine this n (Or.inr ?_)
    unfold scOrder
    obtain ⟨l, hl, hnl⟩ := List.mem_flatMap.1 hn
    exact List.mem_flatMap.2 ⟨l, List.mem_reverse.2 hl, hnl⟩

/-- executable form of `LayeredWF` (driver contract `K:layered`) -/
def layeredWFb (g : G) : Bool :=
  (List.range g.nodes.size).all (fun n => (g.node n).ins.all fun e =>
    (g.edge e).dst == n && decide ((g.edge e).src < g.nodes.size) && decide (g.layerOf (g.edge e).src ≤ g.layerOf n)) &&
  (scOrder g).all (fun n => decide (n < g.nodes.size)) &&
  decide ((scOrder g).Nodup) &&
  decide (List.Pairwise (fun a b => g.layerOf b ≤ g.layerOf a) (scOrder g))

theorem layeredWFb_sound (g : G) (h : layeredWFb g = true) : LayeredWF g := by
  unfold layeredWFb at h
  simp only [Bool.and_eq_true, List.all_eq_true, List.mem_range, decide_eq_true_eq, beq_iff_eq] at h
  obtain ⟨⟨⟨h1, h2⟩, h3⟩, h4⟩ := h
  have hins : ∀ n, ∀ e ∈ (g.node n).ins, (g.edge e).dst = n ∧ (g.edge e).src < g.nodes.size ∧
      g.layerOf (g.edge e).src ≤ g.layerOf n := by
    intro n e he
    by_cases hn : n < g.nodes.size
    · have := h1 n hn e he
      exact ⟨this.1.1, this.1.2, this.2⟩
    · -- beyond the store the node is the default node: no in-edges
      have : (g.node n).ins = [] := by
        simp only [G.node, Array.getD_eq_getD_getElem?]
        have : g.nodes[n]? = none := by simp; omega
        simp [this, default, instInhabitedNode.default]
      rw [this] at he; cases he
  exact ⟨fun n e he => ⟨(hins n e he).1, (hins n e he).2.1⟩, fun n e he => (hins n e he).2.2, h4, h3, h2⟩

end Autog

namespace Autog

/-- C01: `setColor` climbs one band per recursive call, so it returns whenever its fuel exceeds the band index of the node -/
theorem setColor_total (g : G) (hL : LayeredWF g) (hnn : ∀ x, 0 ≤ g.layerOf x) : ∀ (fuel : Nat) (s : SCSt) (n : Nat),
    (g.layerOf n).toNat < fuel → ∃ r, setColor g fuel s n = .ok r
  | 0, _, _, h => by omega
  | fuel + 1, s, n, h => by
    unfold setColor
    simp only
    split
    · exact ⟨_, rfl⟩
    · split
      · exact ⟨_, rfl⟩
      · rename_i e hpick
        have hpe := pick_spec g (g.node n) _ _ 0 e
          (fun y hy => foldl_last_virt_mem g n (g.node n).ins none (g.node n).ins (fun _ h0 => by cases h0) (fun _ hz => hz) y hy) hpick
        split
        · exact ⟨_, rfl⟩
        · split
          · exact ⟨_, rfl⟩
          · have hin := hL.ins n e hpe.1
            have hother : g.other e n = (g.edge e).src := by
              unfold G.other; simp [hin.1]
            have hlt : g.layerOf (g.other e n) < g.layerOf n := by
              rw [hother]
              have hle := hL.down n e hpe.1
              have hnf : g.layerOf (g.edge e).src ≠ g.layerOf (g.edge e).dst := by
                have := hpe.2.2
                unfold G.isFlat at this
                simpa using this
              rw [hin.1] at hnf
              omega
            have h0 := hnn (g.other e n)
            obtain ⟨r, hr⟩ := setColor_total g hL hnn fuel _ (g.other e n) (by omega)
            simp only [bind, Except.bind]
            rw [hr]
            exact ⟨_, rfl⟩

/-- C01: block building returns on every properly layered state whose band indices fit the layer list -/
theorem scBlocks_total (g : G) (hL : LayeredWF g) (hnn : ∀ x, 0 ≤ g.layerOf x)
    (hfit : ∀ n ∈ scOrder g, (g.layerOf n).toNat < g.layers.size + 2) : ∃ r, scBlocks g = .ok r := by
  unfold scBlocks
  simp only
  have : ∀ (todo : List Nat) (acc : SCSt × Array Rat), (∀ n ∈ todo, (g.layerOf n).toNat < g.layers.size + 2) →
      ∃ r, todo.foldlM (scStep g) acc = .ok r := by
    intro todo
    induction todo with
    | nil => intro acc _; exact ⟨acc, rfl⟩
    | cons k todo ih =>
      intro acc hk
      obtain ⟨r, hr⟩ := setColor_total g hL hnn (g.layers.size + 2) acc.1 k (hk k (List.mem_cons_self ..))
      have hstep : ∃ a1, scStep g acc k = .ok a1 := by
        unfold scStep
        simp only [bind, Except.bind, hr]
        exact ⟨_, rfl⟩
      obtain ⟨a1, ha1⟩ := hstep
      obtain ⟨r2, hr2⟩ := ih a1 (fun n hn => hk n (List.mem_cons_of_mem _ hn))
      exact ⟨r2, by simp only [List.foldlM_cons, bind, Except.bind, ha1, hr2]⟩
  obtain ⟨r, hr⟩ := this (scOrder g)
    ({ colors := (List.range g.nodes.size).toArray, roots := (List.range g.nodes.size).toArray, priority := [] },
      Array.replicate g.nodes.size 0) hfit
  simp only [bind, Except.bind]
  rw [hr]
  exact ⟨_, rfl⟩

end Autog
