/-! Spike (C20): Bezier basics over Rat, core-only. -/


namespace Autog.BezierHull

def bez (p0 p1 p2 p3 t : Rat) : Rat :=
  (1-t)*(1-t)*(1-t)*p0 + 3*t*(1-t)*(1-t)*p1 + 3*t*t*(1-t)*p2 + t*t*t*p3

/-- de Casteljau, left half: control points of the curve restricted to [0, 1/2] -/
theorem bez_left (p0 p1 p2 p3 t : Rat) :
    bez p0 ((p0+p1)/2) ((p0+2*p1+p2)/4) ((p0+3*p1+3*p2+p3)/8) t = bez p0 p1 p2 p3 (t/2) := by
  unfold bez; grind

theorem bez_right (p0 p1 p2 p3 t : Rat) :
    bez ((p0+3*p1+3*p2+p3)/8) ((p1+2*p2+p3)/4) ((p2+p3)/2) p3 t = bez p0 p1 p2 p3 (1/2 + t/2) := by
  unfold bez; grind

/-- hull: the curve stays above any lower bound of the control values -/
theorem bez_ge (p0 p1 p2 p3 t lo : Rat) (h0 : lo ≤ p0) (h1 : lo ≤ p1) (h2 : lo ≤ p2) (h3 : lo ≤ p3)
    (ht0 : 0 ≤ t) (ht1 : t ≤ 1) : lo ≤ bez p0 p1 p2 p3 t := by
  have hs : 0 ≤ 1 - t := by grind
  have w0 : 0 ≤ (1-t)*(1-t)*(1-t) := Rat.mul_nonneg (Rat.mul_nonneg hs hs) hs
  have w1 : 0 ≤ 3*t*(1-t)*(1-t) := Rat.mul_nonneg (Rat.mul_nonneg (Rat.mul_nonneg (by decide) ht0) hs) hs
  have w2 : 0 ≤ 3*t*t*(1-t) := Rat.mul_nonneg (Rat.mul_nonneg (Rat.mul_nonneg (by decide) ht0) ht0) hs
  have w3 : 0 ≤ t*t*t := Rat.mul_nonneg (Rat.mul_nonneg ht0 ht0) ht0
  have e0 := Rat.mul_le_mul_of_nonneg_left h0 w0
  have e1 := Rat.mul_le_mul_of_nonneg_left h1 w1
  have e2 := Rat.mul_le_mul_of_nonneg_left h2 w2
  have e3 := Rat.mul_le_mul_of_nonneg_left h3 w3
  have sum : (1-t)*(1-t)*(1-t) + 3*t*(1-t)*(1-t) + 3*t*t*(1-t) + t*t*t = 1 := by grind
  have : lo = ((1-t)*(1-t)*(1-t) + 3*t*(1-t)*(1-t) + 3*t*t*(1-t) + t*t*t) * lo := by rw [sum]; grind
  unfold bez
  grind

end Autog.BezierHull
