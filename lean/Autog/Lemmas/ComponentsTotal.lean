import Autog.Lemmas.ComponentsFuel
import Autog.Model.Pre
import Autog.Lemmas.PopulateSpec
/-! `connected.Components` of the model never runs out of fuel and never fails on the graph `Populate` builds from a
    non-empty edge list: every incident edge id is below the number of edges and no incidence list is longer than 2·E.
    Core-only. -/

namespace Autog
open ComponentsDfs

/-- the incidence lists stay inside the edge store -/
structure IncWF (g : G) : Prop where
  lt : ∀ n, ∀ e ∈ g.incident n, e < g.edges.size
  len : ∀ n, (g.incident n).length ≤ 2 * g.edges.size

theorem sumBy_const (k : Nat) : ∀ (l : List Nat), sumBy (fun _ => k) l = l.length * k
  | [] => by simp [sumBy]
  | a :: l => by
    have := sumBy_const k l
    simp only [sumBy, List.map_cons, List.sum_cons, List.length_cons] at this ⊢
    rw [this, Nat.succ_mul]; omega

/-- C01: one component walk of the model terminates within its fuel -/
theorem walkDfs_total (g : G) (h : IncWF g) (start : Nat) : ∃ r, walkDfs g start = .ok r := by
  unfold walkDfs
  have hw : ∀ n, ∀ em ∈ incOf g n, em.1 ∈ List.range g.edges.size ∧ (incOf g em.2).length + 1 ≤ 2 * g.edges.size + 1 := by
    intro n em hem
    unfold incOf at hem ⊢
    obtain ⟨e, he, rfl⟩ := List.mem_map.1 hem
    refine ⟨List.mem_range.2 (h.lt n e he), ?_⟩
    simp only [List.length_map]
    have := h.len (g.other e n)
    omega
  have hfuel : (incOf g start).length + 1 + sumBy (fun _ => 2 * g.edges.size + 1) (List.range g.edges.size) < walkFuel g := by
    rw [sumBy_const]
    have h1 : (incOf g start).length ≤ 2 * g.edges.size := by
      unfold incOf; simp only [List.length_map]; exact h.len start
    simp only [List.length_range]
    unfold walkFuel
    generalize g.edges.size = E at *
    have : (E + 2) * (2 * E + 2) = E * (2 * E + 1) + E + 2 * (2 * E + 2) := by
      rw [Nat.add_mul, Nat.mul_add E (2 * E) 2, Nat.mul_add E (2 * E) 1]; omega
    omega
  obtain ⟨c', hc⟩ := walk_terminates (incOf g) (fun _ => 2 * g.edges.size + 1) (List.range g.edges.size) List.nodup_range hw
    start (walkFuel g) hfuel
  rw [hc]
  exact ⟨_, rfl⟩

theorem componentsLoop_total (g : G) (h : IncWF g) : ∀ (ns visited : List Nat) (out : List G),
    ∃ r, componentsLoop g ns visited out = .ok r
  | [], _, out => ⟨out, rfl⟩
  | n :: rest, visited, out => by
    unfold componentsLoop
    by_cases hv : visited.contains n = true
    · rw [if_pos hv]; exact componentsLoop_total g h rest visited out
    · rw [if_neg hv]
      obtain ⟨r, hr⟩ := walkDfs_total g h n
      simp only [hr, bind, Except.bind]
      exact componentsLoop_total g h rest _ _

/-- C01: `connected.Components` of the model returns for every non-empty well-formed graph state -/
theorem components_total (g : G) (h : IncWF g) (hne : g.nodes.size ≠ 0) : ∃ cs, components g = .ok cs := by
  unfold components
  have h0 : (g.nodes.size == 0) = false := by simpa using hne
  obtain ⟨r, hr⟩ := walkDfs_total g h 0
  obtain ⟨vn, ve⟩ := r
  simp only [h0, Bool.false_eq_true, if_false, hr, bind, Except.bind, pure, Except.pure]
  by_cases hl : (vn.length == g.nodes.size) = true
  · simp [hl]
  · have hl' : (vn.length == g.nodes.size) = false := by simpa using hl
    simp only [hl', Bool.false_eq_true, if_false]
    exact componentsLoop_total g h _ _ _

end Autog

namespace Autog
open ComponentsDfs

theorem zipIdx_filter_snd_lt {α} (l : List α) (p : α × Nat → Bool) :
    ∀ e ∈ (l.zipIdx.filter p).map (·.2), e < l.length := by
  intro e he
  obtain ⟨x, hx, rfl⟩ := List.mem_map.1 he
  have := (List.mem_filter.1 hx).1
  obtain ⟨a, i⟩ := x
  have := List.mem_zipIdx this
  simp at this
  omega

theorem zipIdx_filter_len_le {α} (l : List α) (p : α × Nat → Bool) :
    ((l.zipIdx.filter p).map (·.2)).length ≤ l.length := by
  simp only [List.length_map]
  have := List.length_filter_le p l.zipIdx
  simpa using this

/-- the node the model of `Populate` builds for position `n`, or the default node beyond the store -/
theorem populate_node_cases (cfg : Cfg) (es : InEdges) (n : Nat) :
    ((applySizes cfg (populate es)).node n).ins = [] ∧ ((applySizes cfg (populate es)).node n).outs = [] ∨
    ∃ p q : (Nat × Nat) × Nat → Bool,
      ((applySizes cfg (populate es)).node n).ins = ((PopulateRename.populate es).edges.zipIdx.filter p).map (·.2) ∧
      ((applySizes cfg (populate es)).node n).outs = ((PopulateRename.populate es).edges.zipIdx.filter q).map (·.2) := by
  simp only [G.node, applySizes, populate, Array.getD_eq_getD_getElem?, Array.getElem?_map, List.getElem?_toArray,
    List.getElem?_map]
  cases h : (PopulateRename.populate es).ids.zipIdx[n]? with
  | none => left; simp [default, instInhabitedNode.default]
  | some x =>
    right
    obtain ⟨id, i⟩ := x
    exact ⟨fun x => x.1.2 == i, fun x => x.1.1 == i, by simp, by simp⟩

theorem populate_edges_size (cfg : Cfg) (es : InEdges) :
    (applySizes cfg (populate es)).edges.size = (PopulateRename.populate es).edges.length := by
  simp [applySizes, populate]

/-- the graph state built from ANY edge list has well-formed incidence lists -/
theorem populate_incWF (cfg : Cfg) (es : InEdges) : IncWF (applySizes cfg (populate es)) := by
  constructor
  · intro n e he
    rw [populate_edges_size]
    unfold G.incident at he
    rcases populate_node_cases cfg es n with ⟨h1, h2⟩ | ⟨p, q, h1, h2⟩
    · rw [h1, h2] at he; cases he
    · rw [h1, h2] at he
      rcases List.mem_append.1 he with he | he
      · exact zipIdx_filter_snd_lt _ p e he
      · exact zipIdx_filter_snd_lt _ q e he
  · intro n
    rw [populate_edges_size]
    unfold G.incident
    rcases populate_node_cases cfg es n with ⟨h1, h2⟩ | ⟨p, q, h1, h2⟩
    · rw [h1, h2]; simp
    · rw [h1, h2, List.length_append]
      have := zipIdx_filter_len_le (PopulateRename.populate es).edges p
      have := zipIdx_filter_len_le (PopulateRename.populate es).edges q
      omega

end Autog

namespace Autog

theorem populate_nodes_size (cfg : Cfg) (es : InEdges) :
    (applySizes cfg (populate es)).nodes.size = (PopulateRename.populate es).ids.length := by
  simp [applySizes, populate]

theorem populate_nonempty (cfg : Cfg) (es : InEdges) (h : es ≠ []) : (applySizes cfg (populate es)).nodes.size ≠ 0 := by
  rw [populate_nodes_size]
  obtain ⟨_, hlen, hspec⟩ := PopulateRename.populate_spec es
  have hpos : 0 < es.length := List.length_pos_iff.2 h
  have := (hspec 0 (by omega) hpos).1
  intro h0
  have hnil : (PopulateRename.populate es).ids = [] := List.eq_nil_of_length_eq_zero h0
  rw [hnil] at this
  simp at this

/-- C01: everything `autog.Layout` does before phase 1 — interning the ids, the size options, the split into connected
    components, the stripping of self-loops — returns on the model for EVERY non-empty edge list (any mix of cycles,
    parallel and antiparallel edges, self-loops, components, id strings) -/
theorem preProcess_total (cfg : Cfg) (es : InEdges) (h : es ≠ []) : ∃ cs, preProcess cfg es = .ok cs := by
  unfold preProcess
  obtain ⟨cs, hcs⟩ := components_total _ (populate_incWF cfg es) (populate_nonempty cfg es h)
  simp only [hcs, bind, Except.bind, pure, Except.pure]
  exact ⟨_, rfl⟩

end Autog
