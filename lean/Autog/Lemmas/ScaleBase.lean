import Autog.Properties.C16
import Autog.Properties.C03
import Autog.Model.Phase5
/-! Scaling a graph state by a positive factor: the state `scaleG c g`, and the basic facts the scale theorems (C17) share. Core-only. -/

namespace Autog
open Phase4Simple

/-- all sizes and coordinates of the nodes, the layer sizes and the route points of the edges, multiplied by c -/
def scalePt (c : Rat) (p : Pt) : Pt := (c * p.1, c * p.2)

def scaleG (c : Rat) (g : G) : G :=
  { g with nodes := g.nodes.map fun n => { n with x := c * n.x, y := c * n.y, w := c * n.w, h := c * n.h },
           layers := g.layers.map fun l => { l with w := c * l.w, h := c * l.h },
           edges := g.edges.map fun ed => { ed with pts := ed.pts.map (scalePt c) } }

theorem scaleG_node_w (c : Rat) (g : G) (n : Nat) : ((scaleG c g).node n).w = c * (g.node n).w := by
  simp only [scaleG, G.node, Array.getD_eq_getD_getElem?, Array.getElem?_map]
  cases g.nodes[n]? with
  | none => simp [default, instInhabitedNode.default]
  | some nd => simp

theorem widthsOf_scaleG (c : Rat) (g : G) (l : Layer) (l' : Layer) (hn : l'.nodes = l.nodes) :
    widthsOf (scaleG c g) l' = (widthsOf g l).map (c * ·) := by
  simp [widthsOf, hn, scaleG_node_w, List.map_map, Function.comp]

theorem maxRat_scale (a b c : Rat) (hc : 0 < c) : maxRat (c * a) (c * b) = c * maxRat a b := by
  unfold maxRat
  by_cases h : a ≤ b
  · have : c * a ≤ c * b := Rat.mul_le_mul_of_nonneg_left h (Rat.le_of_lt hc)
    simp [h, this]
  · have h' : b < a := Rat.not_le.1 h
    have : ¬ c * a ≤ c * b := by
      intro hle
      have := (lt_scale b a c hc).2 h'
      exact absurd hle (Rat.not_le.2 this)
    simp [h, this]

theorem foldl_maxRat_scale (c : Rat) (hc : 0 < c) : ∀ (l : List Rat) (d : Rat),
    (l.map (c * ·)).foldl maxRat (c * d) = c * l.foldl maxRat d
  | [], _ => rfl
  | x :: l, d => by
    simp only [List.map_cons, List.foldl_cons, maxRat_scale _ _ _ hc]
    exact foldl_maxRat_scale c hc l _

theorem scaleG_layers_nodes (c : Rat) (g : G) :
    (scaleG c g).layers.toList.map (·.nodes) = g.layers.toList.map (·.nodes) := by
  simp [scaleG, List.map_map, Function.comp]

theorem rat_mul_cancel (a b c : Rat) (hc : 0 < c) (he : c * a = c * b) : a = b := by
  have h1 : c * (a - b) = 0 := by grind
  have hc0 : c ≠ 0 := fun e => by rw [e] at hc; exact absurd hc (by decide)
  rcases Rat.mul_eq_zero.1 h1 with h | h
  · exact absurd h hc0
  · grind

end Autog
