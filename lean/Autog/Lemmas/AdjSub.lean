import Autog.Lemmas.Adj
import Autog.Lemmas.ComponentsDfs
/-! Adjacency consistency of the sub-graphs `connected.Components` extracts: a node set that is closed under incidence,
    together with exactly the edges whose ends lie in it, gives a graph on which `AdjL` holds again after the
    renumbering of `subgraph`. Core-only. -/

namespace Autog
open ComponentsDfs

theorem idxOf_inj_of_mem {l : List Nat} {a b : Nat} (ha : a ∈ l) (hb : b ∈ l) (h : l.idxOf a = l.idxOf b) : a = b := by
  have h1 := List.getElem_idxOf (List.idxOf_lt_length_of_mem ha)
  have h2 := List.getElem_idxOf (List.idxOf_lt_length_of_mem hb)
  rw [← h1, ← h2]; simp only [h]

theorem nodup_map_idxOf {l : List Nat} : ∀ (xs : List Nat), xs.Nodup → (∀ x ∈ xs, x ∈ l) → (xs.map l.idxOf).Nodup
  | [], _, _ => by simp
  | x :: xs, hnd, hm => by
    rw [List.nodup_cons] at hnd
    rw [List.map_cons, List.nodup_cons]
    refine ⟨?_, nodup_map_idxOf xs hnd.2 fun y hy => hm y (List.mem_cons_of_mem _ hy)⟩
    intro hx
    obtain ⟨y, hy, hxy⟩ := List.mem_map.1 hx
    have := idxOf_inj_of_mem (hm y (List.mem_cons_of_mem _ hy)) (hm x (List.mem_cons_self ..)) hxy
    subst this; exact hnd.1 hy

section
variable (g : G) (ns es : List Nat)

/-- node `j` of the sub-graph -/
theorem subgraph_nsize : (subgraph g ns es).nodes.size = (g.nodeIds.filter ns.contains).length := by
  simp [subgraph]
theorem subgraph_esize : (subgraph g ns es).edges.size = (g.elist.filter es.contains).length := by
  simp [subgraph]

theorem subgraph_node (j : Nat) (hj : j < (g.nodeIds.filter ns.contains).length) :
    ((subgraph g ns es).node j).ins = (g.node (g.nodeIds.filter ns.contains)[j]).ins.map (g.elist.filter es.contains).idxOf ∧
    ((subgraph g ns es).node j).outs = (g.node (g.nodeIds.filter ns.contains)[j]).outs.map (g.elist.filter es.contains).idxOf := by
  simp only [subgraph, G.node, Array.getD_eq_getD_getElem?, List.getElem?_toArray, List.getElem?_map]
  rw [List.getElem?_eq_getElem hj]
  simp

theorem subgraph_edge (k : Nat) (hk : k < (g.elist.filter es.contains).length) :
    ((subgraph g ns es).edge k).src = (g.nodeIds.filter ns.contains).idxOf (g.edge (g.elist.filter es.contains)[k]).src ∧
    ((subgraph g ns es).edge k).dst = (g.nodeIds.filter ns.contains).idxOf (g.edge (g.elist.filter es.contains)[k]).dst := by
  simp only [subgraph, G.edge, Array.getD_eq_getD_getElem?, List.getElem?_toArray, List.getElem?_map]
  rw [List.getElem?_eq_getElem hk]
  simp
end

/-- the extraction keeps adjacency consistency when the node set is closed under incidence and the kept edges end in it -/
theorem adjL_subgraph (g : G) (h : AdjL g) (ns es : List Nat)
    (hcl : ∀ n ∈ ns, n < g.nodes.size → ∀ e ∈ g.incident n, e ∈ es)
    (hends : ∀ e ∈ es, e ∈ g.elist → (g.edge e).src ∈ ns ∧ (g.edge e).dst ∈ ns) :
    AdjL (subgraph g ns es) := by
  -- abbreviations
  have hNOnd : (g.nodeIds.filter ns.contains).Nodup := List.Nodup.sublist List.filter_sublist List.nodup_range
  have hEOnd : (g.elist.filter es.contains).Nodup := List.Nodup.sublist List.filter_sublist h.elnd
  have hNOmem : ∀ n, n ∈ g.nodeIds.filter ns.contains ↔ n < g.nodes.size ∧ n ∈ ns := by
    intro n; simp [G.nodeIds, List.mem_filter]
  have hEOmem : ∀ e, e ∈ g.elist.filter es.contains ↔ e ∈ g.elist ∧ e ∈ es := by
    intro e; simp [List.mem_filter]
  -- an incident edge of a kept node is a kept edge
  have hkeep : ∀ j (hj : j < (g.nodeIds.filter ns.contains).length), ∀ e ∈ g.incident (g.nodeIds.filter ns.contains)[j],
      e ∈ g.elist.filter es.contains := by
    intro j hj e he
    have hm := (hNOmem _).1 (List.getElem_mem hj)
    exact (hEOmem e).2 ⟨h.inEl _ e he, hcl _ hm.2 hm.1 e he⟩
  have houts : ∀ n e, e ∈ ((subgraph g ns es).node n).outs →
      e < (subgraph g ns es).edges.size ∧ ((subgraph g ns es).edge e).src = n := by
    intro n e' he'
    by_cases hn : n < (g.nodeIds.filter ns.contains).length
    · rw [(subgraph_node g ns es n hn).2] at he'
      obtain ⟨e, he, rfl⟩ := List.mem_map.1 he'
      have hek := hkeep n hn e (by simp only [G.incident, List.mem_append]; exact Or.inr he)
      have hlt := List.idxOf_lt_length_of_mem hek
      refine ⟨by rw [subgraph_esize]; exact hlt, ?_⟩
      rw [(subgraph_edge g ns es _ hlt).1, List.getElem_idxOf hlt, (h.outs _ e he).2]
      exact hNOnd.idxOf_getElem n hn
    · have := (node_default_lists (subgraph g ns es) n (by rw [subgraph_nsize]; exact hn)).2
      rw [this] at he'; cases he'
  have hins : ∀ n e, e ∈ ((subgraph g ns es).node n).ins →
      e < (subgraph g ns es).edges.size ∧ ((subgraph g ns es).edge e).dst = n := by
    intro n e' he'
    by_cases hn : n < (g.nodeIds.filter ns.contains).length
    · rw [(subgraph_node g ns es n hn).1] at he'
      obtain ⟨e, he, rfl⟩ := List.mem_map.1 he'
      have hek := hkeep n hn e (by simp only [G.incident, List.mem_append]; exact Or.inl he)
      have hlt := List.idxOf_lt_length_of_mem hek
      refine ⟨by rw [subgraph_esize]; exact hlt, ?_⟩
      rw [(subgraph_edge g ns es _ hlt).2, List.getElem_idxOf hlt, (h.ins _ e he).2]
      exact hNOnd.idxOf_getElem n hn
    · have := (node_default_lists (subgraph g ns es) n (by rw [subgraph_nsize]; exact hn)).1
      rw [this] at he'; cases he'
  refine { outs := houts, ins := hins, ndo := ?_, ndi := ?_, ends := ?_, el := ?_, elnd := ?_, inEl := ?_ }
  · intro n
    by_cases hn : n < (g.nodeIds.filter ns.contains).length
    · rw [(subgraph_node g ns es n hn).2]
      exact nodup_map_idxOf _ (h.ndo _) fun e he =>
        hkeep n hn e (by simp only [G.incident, List.mem_append]; exact Or.inr he)
    · rw [(node_default_lists (subgraph g ns es) n (by rw [subgraph_nsize]; exact hn)).2]; exact List.nodup_nil
  · intro n
    by_cases hn : n < (g.nodeIds.filter ns.contains).length
    · rw [(subgraph_node g ns es n hn).1]
      exact nodup_map_idxOf _ (h.ndi _) fun e he =>
        hkeep n hn e (by simp only [G.incident, List.mem_append]; exact Or.inl he)
    · rw [(node_default_lists (subgraph g ns es) n (by rw [subgraph_nsize]; exact hn)).1]; exact List.nodup_nil
  · intro k hk
    rw [subgraph_esize] at hk
    have hm := (hEOmem _).1 (List.getElem_mem hk)
    have hsd := hends _ hm.2 hm.1
    have hlt := h.ends _ (h.el _ hm.1)
    rw [(subgraph_edge g ns es k hk).1, (subgraph_edge g ns es k hk).2, subgraph_nsize]
    exact ⟨List.idxOf_lt_length_of_mem ((hNOmem _).2 ⟨hlt.1, hsd.1⟩),
           List.idxOf_lt_length_of_mem ((hNOmem _).2 ⟨hlt.2, hsd.2⟩)⟩
  · intro e he
    rw [subgraph_esize]
    have : (subgraph g ns es).elist = List.range (g.elist.filter es.contains).length := by simp [subgraph]
    rw [this] at he; exact List.mem_range.1 he
  · have : (subgraph g ns es).elist = List.range (g.elist.filter es.contains).length := by simp [subgraph]
    rw [this]; exact List.nodup_range
  · intro n e he
    have : (subgraph g ns es).elist = List.range (g.elist.filter es.contains).length := by simp [subgraph]
    rw [this, List.mem_range, ← subgraph_esize g ns es]
    simp only [G.incident, List.mem_append] at he
    rcases he with he | he
    · exact (hins n e he).1
    · exact (houts n e he).1

theorem mem_dedup_nat : ∀ (l : List Nat) (x : Nat), x ∈ dedup l ↔ x ∈ l
  | [], x => by simp [dedup]
  | a :: l, x => by
    have ih := mem_dedup_nat l x
    simp only [dedup, List.mem_cons, List.mem_filter, ih]
    by_cases hxa : x = a
    · simp [hxa]
    · simp [hxa]

theorem run_mono {inc : Nat → List Inc} : ∀ (fuel : Nat) (c c' : ComponentsDfs.Cfg),
    run inc fuel c = some c' → ∀ x ∈ c.visN, x ∈ c'.visN := by
  intro fuel
  induction fuel with
  | zero => intro c c' h; simp [run] at h
  | succ fuel ih =>
    intro c c' h
    obtain ⟨stack, vn, ve⟩ := c
    match stack, h with
    | [], h =>
      simp only [run, Option.some.injEq] at h
      subst h; exact fun _ hx => hx
    | (n, []) :: tl, h =>
      simp only [run] at h
      exact ih ⟨tl, vn, ve⟩ _ h
    | (n, (e, m) :: ms) :: tl, h =>
      simp only [run] at h
      split at h
      · exact ih ⟨(n, ms) :: tl, vn, ve⟩ _ h
      · exact fun x hx => ih ⟨(m, inc m) :: (n, ms) :: tl, m :: vn, e :: ve⟩ _ h x (List.mem_cons_of_mem _ hx)

/-- every marked edge was taken from the incidence list of a visited node -/
theorem run_src {inc : Nat → List Inc} : ∀ (fuel : Nat) (c c' : ComponentsDfs.Cfg),
    (∀ f ∈ c.stack, f.1 ∈ c.visN ∧ ∀ em ∈ f.2, em ∈ inc f.1) →
    (∀ e ∈ c.visE, ∃ n ∈ c.visN, ∃ m, (e, m) ∈ inc n) →
    run inc fuel c = some c' → ∀ e ∈ c'.visE, ∃ n ∈ c'.visN, ∃ m, (e, m) ∈ inc n := by
  intro fuel
  induction fuel with
  | zero => intro c c' _ _ h; simp [run] at h
  | succ fuel ih =>
    intro c c' hstk hsrc h
    obtain ⟨stack, vn, ve⟩ := c
    match stack, hstk, h with
    | [], _, h =>
      simp only [run, Option.some.injEq] at h
      subst h; exact hsrc
    | (n, []) :: tl, hstk, h =>
      simp only [run] at h
      exact ih ⟨tl, vn, ve⟩ c' (fun f hf => hstk f (List.mem_cons_of_mem _ hf)) hsrc h
    | (n, (e, m) :: ms) :: tl, hstk, h =>
      simp only [run] at h
      have hn := hstk (n, (e, m) :: ms) (List.mem_cons_self ..)
      split at h
      · refine ih ⟨(n, ms) :: tl, vn, ve⟩ c' ?_ hsrc h
        intro f hf
        rcases List.mem_cons.1 hf with rfl | hf
        · exact ⟨hn.1, fun em' h' => hn.2 em' (List.mem_cons_of_mem _ h')⟩
        · exact hstk f (List.mem_cons_of_mem _ hf)
      · refine ih ⟨(m, inc m) :: (n, ms) :: tl, m :: vn, e :: ve⟩ c' ?_ ?_ h
        · intro f hf
          rcases List.mem_cons.1 hf with rfl | hf
          · exact ⟨List.mem_cons_self .., fun _ h' => h'⟩
          · rcases List.mem_cons.1 hf with rfl | hf
            · exact ⟨List.mem_cons_of_mem _ hn.1, fun em' h' => hn.2 em' (List.mem_cons_of_mem _ h')⟩
            · have := hstk f (List.mem_cons_of_mem _ hf)
              exact ⟨List.mem_cons_of_mem _ this.1, this.2⟩
        · intro x hx
          rcases List.mem_cons.1 hx with rfl | hx
          · exact ⟨n, List.mem_cons_of_mem _ hn.1, m, hn.2 _ (List.mem_cons_self ..)⟩
          · obtain ⟨a, ha, b, hb⟩ := hsrc x hx
            exact ⟨a, List.mem_cons_of_mem _ ha, b, hb⟩

/-- `IdEnds` of the incidence function of an adjacency-consistent graph -/
theorem Adj.idEnds {g : G} (h : Adj g) : IdEnds (incOf g) := by
  intro n n' e m m' h1 h2
  unfold incOf at h1 h2
  obtain ⟨e1, he1, hq1⟩ := List.mem_map.1 h1
  obtain ⟨e2, he2, hq2⟩ := List.mem_map.1 h2
  simp only [Prod.mk.injEq] at hq1 hq2
  obtain ⟨rfl, rfl⟩ := hq1
  obtain ⟨rfl, rfl⟩ := hq2
  simp only [G.incident, List.mem_append] at he1 he2
  unfold G.other
  rcases he1 with a | a <;> rcases he2 with b | b
  · have := (h.ins _ _ a).2; have := (h.ins _ _ b).2; grind
  · have := (h.ins _ _ a).2; have := (h.outs _ _ b).2; grind
  · have := (h.outs _ _ a).2; have := (h.ins _ _ b).2; grind
  · have := (h.outs _ _ a).2; have := (h.outs _ _ b).2; grind

/-- what a component walk returns: a node set closed under incidence, and edges that end in it -/
theorem walkDfs_closed (g : G) (h : AdjL g) (start : Nat) (ns es : List Nat) (hw : walkDfs g start = .ok (ns, es)) :
    (∀ n ∈ ns, ∀ e ∈ g.incident n, e ∈ es) ∧ (∀ e ∈ es, (g.edge e).src ∈ ns ∧ (g.edge e).dst ∈ ns) ∧ start ∈ ns := by
  unfold walkDfs at hw
  split at hw
  · rename_i c hc
    simp only [pure, Except.pure, Except.ok.injEq, Prod.mk.injEq] at hw
    obtain ⟨rfl, rfl⟩ := hw
    have hI0 : CInv (incOf g) start ⟨[(start, incOf g start)], [start], []⟩ := by
      refine ⟨?_, ?_, ?_, ?_⟩
      · intro n hn em hem _
        simp only [List.mem_singleton] at hn; subst hn
        exact ⟨_, List.mem_singleton.2 rfl, rfl, hem⟩
      · intro n em _ hm; cases hm
      · intro n hn; simp only [List.mem_singleton] at hn; subst hn; exact .refl _
      · intro f hf; simp only [List.mem_singleton] at hf; subst hf
        exact ⟨List.mem_singleton.2 rfl, fun _ h' => h'⟩
    obtain ⟨hclosed, _⟩ := closed_connected h.toAdj.idEnds _ _ _ hI0 hc
    have hsrc := run_src (inc := incOf g) _ _ _ hI0.stk (fun e he => by cases he) hc
    have hmono : start ∈ c.visN := run_mono _ _ _ hc start (List.mem_singleton.2 rfl)
    refine ⟨?_, ?_, ?_⟩
    · intro n hn e he
      have hn' : n ∈ c.visN := (mem_dedup_nat _ _).1 hn
      exact (hclosed n hn' (e, g.other e n) (by unfold incOf; exact List.mem_map.2 ⟨e, he, rfl⟩)).1
    · intro e he
      obtain ⟨n, hn, m, hm⟩ := hsrc e he
      have hcl := hclosed n hn (e, m) hm
      unfold incOf at hm
      obtain ⟨e1, he1, hq⟩ := List.mem_map.1 hm
      simp only [Prod.mk.injEq] at hq
      obtain ⟨rfl, rfl⟩ := hq
      simp only [G.incident, List.mem_append] at he1
      unfold G.other at hcl
      rcases he1 with a | a
      · have h1 := (h.ins _ _ a).2
        refine ⟨(mem_dedup_nat _ _).2 ?_, (mem_dedup_nat _ _).2 ?_⟩
        · by_cases hq : (g.edge e1).src = n
          · rw [hq]; exact hn
          · have := hcl.2; grind
        · rw [h1]; exact hn
      · have h1 := (h.outs _ _ a).2
        refine ⟨(mem_dedup_nat _ _).2 ?_, (mem_dedup_nat _ _).2 ?_⟩
        · rw [h1]; exact hn
        · by_cases hq : (g.edge e1).dst = n
          · rw [hq]; exact hn
          · have := hcl.2; grind
    · exact (mem_dedup_nat _ _).2 hmono
  · cases hw

theorem adjL_walk_subgraph (g : G) (h : AdjL g) (start : Nat) (ns es : List Nat) (hw : walkDfs g start = .ok (ns, es)) :
    AdjL (subgraph g ns es) := by
  obtain ⟨h1, h2, _⟩ := walkDfs_closed g h start ns es hw
  exact adjL_subgraph g h ns es (fun n hn _ => h1 n hn) (fun e he _ => h2 e he)

theorem adjL_componentsLoop (g : G) (h : AdjL g) : ∀ (ns visited : List Nat) (out r : List G),
    (∀ c ∈ out, AdjL c) → componentsLoop g ns visited out = .ok r → ∀ c ∈ r, AdjL c
  | [], _, out, r, ho, hr => by
    simp only [componentsLoop, pure, Except.pure, Except.ok.injEq] at hr
    subst hr; exact ho
  | n :: rest, visited, out, r, ho, hr => by
    unfold componentsLoop at hr
    by_cases hv : visited.contains n = true
    · rw [if_pos hv] at hr; exact adjL_componentsLoop g h rest visited out r ho hr
    · rw [if_neg hv] at hr
      cases hw : walkDfs g n with
      | error e => simp [hw, bind, Except.bind] at hr
      | ok p =>
        obtain ⟨vn, ve⟩ := p
        simp only [hw, bind, Except.bind] at hr
        refine adjL_componentsLoop g h rest _ _ r ?_ hr
        intro c hc
        rcases List.mem_append.1 hc with hc | hc
        · exact ho c hc
        · simp only [List.mem_singleton] at hc; subst hc
          exact adjL_walk_subgraph g h n vn ve hw

/-- every component `connected.Components` returns is adjacency consistent -/
theorem adjL_components (g : G) (h : AdjL g) (cs : List G) (hc : components g = .ok cs) : ∀ c ∈ cs, AdjL c := by
  unfold components at hc
  by_cases h0 : (g.nodes.size == 0) = true
  · simp [h0, throw, throwThe, MonadExceptOf.throw, bind, Except.bind] at hc
  · have h0' : (g.nodes.size == 0) = false := by simpa using h0
    cases hw : walkDfs g 0 with
    | error e => simp [h0', hw, bind, Except.bind] at hc
    | ok p =>
      obtain ⟨vn, ve⟩ := p
      simp only [h0', Bool.false_eq_true, if_false, hw, bind, Except.bind, pure, Except.pure] at hc
      by_cases hl : (vn.length == g.nodes.size) = true
      · simp only [hl, if_true, Except.ok.injEq] at hc
        subst hc
        intro c hc; simp only [List.mem_singleton] at hc; subst hc; exact h
      · have hl' : (vn.length == g.nodes.size) = false := by simpa using hl
        simp only [hl', Bool.false_eq_true, if_false] at hc
        refine adjL_componentsLoop g h _ _ _ cs ?_ hc
        intro c hc'
        simp only [List.mem_singleton] at hc'; subst hc'
        exact adjL_walk_subgraph g h 0 vn ve hw

/-- **every state the pipeline starts from is adjacency consistent**: for any edge list and any options, each
    component handed to phase 1 (after self-loop stripping) satisfies `AdjL` -/
theorem adjL_preProcess (cfg : Cfg) (es : InEdges) (cs : List (G × List Nat)) (h : preProcess cfg es = .ok cs) :
    ∀ c ∈ cs, AdjL c.1 := by
  unfold preProcess at h
  cases hc : components (applySizes cfg (populate es)) with
  | error e => simp [hc, bind, Except.bind] at h
  | ok comps =>
    simp only [hc, bind, Except.bind, pure, Except.pure, Except.ok.injEq] at h
    subst h
    intro c hc'
    obtain ⟨c0, hc0, rfl⟩ := List.mem_map.1 hc'
    exact adjL_ignoreSelfLoops c0 (adjL_components _ (adjL_populate cfg es) comps hc c0 hc0)

end Autog
