/-! Spike (C03, NS feasibleTree): shifting all tree nodes by the slack of a minimum-slack incident edge
    keeps every edge feasible. Core-only. -/


namespace Autog.NsShiftFeasible

structure E where
  src : Nat
  dst : Nat
  d : Int                      -- Delta

def slack (y : Nat → Int) (e : E) : Int := y e.dst - y e.src - e.d

def Feasible (y : Nat → Int) (es : List E) : Prop := ∀ e ∈ es, 0 ≤ slack y e

/-- incident = exactly one end in the tree node set S -/
def incident (S : Nat → Bool) (e : E) : Bool := S e.src != S e.dst

/-- `for n := range treeNodes { n.Layer += d }` -/
def shift (S : Nat → Bool) (dl : Int) (y : Nat → Int) : Nat → Int := fun v => if S v then y v + dl else y v

/-- feasibleTree's step: `d := slack(e); if treeNodes[e.To] { d = -d }` -/
def delta (S : Nat → Bool) (y : Nat → Int) (e : E) : Int := if S e.dst then - slack y e else slack y e

theorem shift_feasible (S : Nat → Bool) (y : Nat → Int) (es : List E) (e : E)
    (hf : Feasible y es) (hinc : incident S e = true)
    (hmin : ∀ f ∈ es, incident S f = true → slack y e ≤ slack y f) (he : 0 ≤ slack y e) :
    Feasible (shift S (delta S y e) y) es := by
  intro f hfm
  have h0 := hf f hfm
  have hm := hmin f hfm
  simp only [slack, shift, delta, incident] at *
  cases hs : S f.src <;> cases ht : S f.dst <;> cases hes : S e.src <;> cases het : S e.dst <;>
    simp only [hs, ht, hes, het, bne_self_eq_false, Bool.false_eq_true, false_implies, if_true, if_false,
      Bool.true_bne, Bool.false_bne, Bool.not_false, Bool.not_true, forall_const, ite_true, ite_false,
      Bool.bne_true, Bool.bne_false] at hm hinc ⊢ <;> omega

/-- and the chosen edge becomes tight -/
theorem shift_tight (S : Nat → Bool) (y : Nat → Int) (e : E) (hinc : incident S e = true) :
    slack (shift S (delta S y e) y) e = 0 := by
  simp only [slack, shift, delta, incident] at *
  cases hes : S e.src <;> cases het : S e.dst <;> simp_all <;> omega


/-- `exchange`: nodes outside the head component H move up by d = slack(f). Feasibility survives as soon as
    every edge from H to its complement has slack ≥ d — for non-tree edges that is the choice of f
    (minimum slack among them); for tree edges it is what `NsTreeInv` must provide (the leaving edge is the
    only tree edge between the two components and it points INTO H). -/
theorem exchange_feasible (H : Nat → Bool) (y : Nat → Int) (es : List E) (d : Int) (hd : 0 ≤ d)
    (hf : Feasible y es)
    (hcross : ∀ f ∈ es, H f.src = true → H f.dst = false → d ≤ slack y f) :
    Feasible (fun v => if H v then y v else y v - d) es := by
  intro f hfm
  have h0 := hf f hfm
  have hc := hcross f hfm
  simp only [slack] at *
  cases hs : H f.src <;> cases ht : H f.dst <;>
    simp only [hs, ht, Bool.false_eq_true, if_false, if_true, forall_const, false_implies] at hc ⊢ <;> omega

end Autog.NsShiftFeasible
