import Autog.Graph
/-! Read-after-write lemmas for the graph state (arrays indexed by node number). Core-only. -/

namespace Autog
namespace G

@[simp] theorem modNode_size (g : G) (i : Nat) (f : Node → Node) : (g.modNode i f).nodes.size = g.nodes.size := by
  simp [modNode]

@[simp] theorem modNode_layers (g : G) (i : Nat) (f : Node → Node) : (g.modNode i f).layers = g.layers := rfl
@[simp] theorem modNode_edges (g : G) (i : Nat) (f : Node → Node) : (g.modNode i f).edges = g.edges := rfl
@[simp] theorem modNode_elist (g : G) (i : Nat) (f : Node → Node) : (g.modNode i f).elist = g.elist := rfl

theorem node_modNode_ne (g : G) (i j : Nat) (f : Node → Node) (h : i ≠ j) : (g.modNode i f).node j = g.node j := by
  simp [modNode, node, Array.getD_eq_getD_getElem?, Array.getElem?_modify, h]

theorem node_modNode_eq (g : G) (i : Nat) (f : Node → Node) (h : i < g.nodes.size) :
    (g.modNode i f).node i = f (g.node i) := by
  simp [modNode, node, Array.getD_eq_getD_getElem?, h, Array.getElem_modify]

end G
end Autog

namespace Autog
namespace G

theorem node_modNode (g : G) (i j : Nat) (f : Node → Node) :
    (g.modNode i f).node j = if i = j ∧ j < g.nodes.size then f (g.node j) else g.node j := by
  by_cases h : i = j
  · subst h
    by_cases hb : i < g.nodes.size
    · simp [hb, node_modNode_eq g i f hb]
    · simp only [hb, and_false, if_false]
      simp [modNode, node, Array.getD_eq_getD_getElem?, Array.getElem?_modify]
      have : g.nodes[i]? = none := by simp; omega
      simp [this]
  · simp [h, node_modNode_ne g i j f h]

end G

/-- a node without its x coordinate -/
def Node.dropX (n : Node) : Node := { n with x := 0 }
def Node.dropY (n : Node) : Node := { n with y := 0 }

theorem w_of_dropX {a b : Node} (h : a.dropX = b.dropX) : a.w = b.w := by
  have := congrArg Node.w h; simpa [Node.dropX] using this
theorem h_of_dropX {a b : Node} (h : a.dropX = b.dropX) : a.h = b.h := by
  have := congrArg Node.h h; simpa [Node.dropX] using this
theorem y_of_dropX {a b : Node} (h : a.dropX = b.dropX) : a.y = b.y := by
  have := congrArg Node.y h; simpa [Node.dropX] using this
theorem layer_of_dropX {a b : Node} (h : a.dropX = b.dropX) : a.layer = b.layer := by
  have := congrArg Node.layer h; simpa [Node.dropX] using this

end Autog
