import Autog.Lemmas.StaticNS
import Autog.Model.WMedian
/-! The static part of the node table through the remaining positioners (network simplex on the auxiliary graph,
    Brandes–Köpf) and through the phase glue of the composed model. Core-only. -/

namespace Autog

theorem statEq_mapNodes (g : G) (f : Node → Node) (hf : ∀ nd, (f nd).stat = nd.stat) :
    StatEq g { g with nodes := g.nodes.map f } := by
  refine ⟨by simp, fun i hi => ?_, fun i h1 h2 => by simp at h2; omega⟩
  simp [G.node, Array.getD_eq_getD_getElem?, hi, hf]

theorem statEq_growAllH (g : G) : StatEq g (growAllH g) := StatEq.of_nodes rfl

theorem statEq_nsReadOut (g aux : G) : StatEq g (nsReadOut g aux) := by
  unfold nsReadOut
  simp only
  have hbase : ∀ xs, StatEq g (growAllH (placeAll g [((g.layers.toList.flatMap (·.nodes)), xs)])) :=
    fun xs => (statEq_placeAllWith updX (fun _ _ => rfl) g _).trans (statEq_growAllH _)
  split
  · exact hbase _
  · exact (hbase _).trans (statEq_mapNodes _ _ (fun _ => rfl))

theorem statEq_nsPositioner (thor : Nat) (wf : Int) (ns : Rat) (g g' : G) (h : execNsPositioner thor wf ns g = .ok g') :
    StatEq g g' := by
  unfold execNsPositioner at h
  simp only [bind, Except.bind] at h
  split at h
  · cases h
  · simp only [pure, Except.pure, Except.ok.injEq] at h; subst h; exact statEq_nsReadOut _ _

namespace BK

theorem statEq_bkPush (ns : Rat) (g : G) (p : Nat × Nat) : StatEq g (bkPush ns g p) := by
  unfold bkPush
  simp only
  split
  · exact statEq_modNode g _ _ (fun _ => rfl)
  · exact StatEq.refl g

theorem statEq_bkWrite (ns : Rat) (g : G) (final : Array Rat) : StatEq g (bkWrite ns g final) := by
  unfold bkWrite
  simp only
  have hbase : ∀ xs, StatEq g (growAllH (placeAll g [((g.layers.toList.flatMap (·.nodes)), xs)])) :=
    fun xs => (statEq_placeAllWith updX (fun _ _ => rfl) g _).trans (statEq_growAllH _)
  refine StatEq.trans ?_ (statEq_foldl _ (fun g l => statEq_foldl _ (statEq_bkPush ns) _ g) _ _)
  split
  · exact (hbase _).trans (statEq_mapNodes _ _ (fun _ => rfl))
  · exact hbase _

theorem statEq_bk (forced : Int) (ns : Rat) (g g' : G) (h : execBrandesKoepf forced ns g = .ok g') : StatEq g g' := by
  unfold execBrandesKoepf at h
  simp only [bind, Except.bind] at h
  split at h
  · cases h
  · simp only [pure, Except.pure, Except.ok.injEq] at h
    subst h
    exact statEq_bkWrite _ _ _

end BK
end Autog

namespace Autog

theorem statEq_phase2Model (cfg : Cfg) (g g' : G) (h : phase2Model cfg g = .ok g') : StatEq g g' := by
  unfold phase2Model at h
  split at h
  · exact statEq_buildLayers _ _ h
  · split at h
    · simp only [bind, Except.bind] at h
      split at h
      · cases h
      · rename_i g1 h1
        exact (statEq_execLongestPath _ _ h1).trans (statEq_buildLayers _ _ h)
    · simp only [bind, Except.bind] at h
      split at h
      · cases h
      · rename_i r h1
        obtain ⟨g1, p, m⟩ := r
        exact (statEq_execNetworkSimplex _ _ _ _ _ _ _ h1).trans (statEq_buildLayers _ _ h)

theorem statEq_phase3Model (ord : G → M G) (hord : ∀ g g', ord g = .ok g' → StatEq g g') (g g' : G)
    (h : phase3Model ord g = .ok g') : StatEq g g' := by
  unfold phase3Model at h
  split at h
  · simp only [pure, Except.pure, Except.ok.injEq] at h; subst h; exact StatEq.refl _
  · simp only [bind, Except.bind] at h
    split at h
    · cases h
    · rename_i g1 h1
      exact (statEq_breakLongEdges _ _ h1).trans (hord _ _ h)

theorem statEq_phase4Model (cfg : Cfg) (g g' : G) (h : phase4Model cfg g = .ok g') : StatEq g g' := by
  unfold phase4Model at h
  split at h
  · exact statEq_phase4Simple _ _ _ _ _ h
  · split at h
    · simp only [bind, Except.bind] at h
      split at h
      · cases h
      · rename_i r h1
        obtain ⟨g1, d⟩ := r
        simp only [pure, Except.pure, Except.ok.injEq] at h; subst h
        exact (statEq_sinkColoring _ _ _ _ h1).trans (statEq_assignY _ _)
    · exact statEq_phase4Simple _ _ _ _ _ h
    · exact statEq_phase4Simple _ _ _ _ _ h
    · cases h1 : execNsPositioner (thorOf cfg) 4 cfg.ns g with
      | error e => simp [h1, Except.map] at h
      | ok g1 =>
        simp only [h1, Except.map, Except.ok.injEq] at h; subst h
        exact (statEq_nsPositioner _ _ _ _ _ h1).trans (statEq_assignY _ _)
    · cases h1 : BK.execBrandesKoepf cfg.bk cfg.ns g with
      | error e => simp [h1, Except.map] at h
      | ok g1 =>
        simp only [h1, Except.map, Except.ok.injEq] at h; subst h
        exact (BK.statEq_bk _ _ _ _ h1).trans (statEq_assignY _ _)
    · simp only [pure, Except.pure, Except.ok.injEq] at h; subst h; exact StatEq.refl _
    · cases h

/-- END TO END: one component through the whole composed model, for every configuration with exact models and every ordering
    heuristic that keeps the node table: the real nodes keep id, size and position in the node table; helper nodes are appended -/
theorem statEq_layoutComponent (ord : G → M G) (hord : ∀ g g', ord g = .ok g' → StatEq g g') (cfg : Cfg) (c : G × List Nat) (gf : G)
    (h : layoutComponent ord cfg c = .ok gf) : StatEq c.1 gf := by
  unfold layoutComponent at h
  simp only [bind, Except.bind] at h
  cases h1 : phase1 cfg.p1 c.1 with
  | error e => rw [h1] at h; cases h
  | ok g1 =>
    rw [h1] at h; simp only at h
    cases h2 : phase2Model cfg g1 with
    | error e => rw [h2] at h; cases h
    | ok g2 =>
      rw [h2] at h; simp only at h
      cases h3 : phase3Model ord g2 with
      | error e => rw [h3] at h; cases h
      | ok g3 =>
        rw [h3] at h; simp only at h
        cases h4 : phase4Model cfg g3 with
        | error e => rw [h4] at h; cases h
        | ok g4 =>
          rw [h4] at h; simp only at h
          cases h5 : phase5 cfg.p5 cfg.ls g4 with
          | error e => rw [h5] at h; cases h
          | ok g5 =>
            rw [h5] at h
            simp only [pure, Except.pure, Except.ok.injEq] at h
            subst h
            exact ((((statEq_phase1 _ _ _ h1).trans (statEq_phase2Model _ _ _ h2)).trans
              (statEq_phase3Model ord hord _ _ h3)).trans (statEq_phase4Model _ _ _ h4)).trans
              ((statEq_phase5 _ _ _ _ h5).trans (statEq_postProcess _ _))

end Autog

namespace Autog

/-- what a successful run of the ordering model returns -/
theorem orderWMedianP_ok (maxiter : Nat) (g g2 : G) (x : Nat) (h : orderWMedianP maxiter g = .ok (g2, x)) :
    ∃ g1, orderWMedian maxiter g = .ok (g1, x) ∧ sameLayers g.layers g1.layers = true ∧
      g2 = { g with nodes := g.nodes.mapIdx fun i nd => { nd with pos := (g1.node i).pos }, layers := g1.layers } := by
  unfold orderWMedianP at h
  cases ho : orderWMedian maxiter g with
  | error e => simp [ho, bind, Except.bind] at h
  | ok r =>
    obtain ⟨g1, x1⟩ := r
    simp only [ho, bind, Except.bind] at h
    by_cases hs : sameLayers g.layers g1.layers = true
    · simp only [hs, Bool.not_true, Bool.false_eq_true, if_false] at h
      split at h
      · simp [throw, throwThe, MonadExceptOf.throw] at h
      · simp only [pure, Except.pure, Except.ok.injEq, Prod.mk.injEq] at h
        exact ⟨g1, by rw [h.2], hs, h.1.symm⟩
    · have hs' : sameLayers g.layers g1.layers = false := by simpa using hs
      simp [hs', throw, throwThe, MonadExceptOf.throw] at h

/-- … and that result is an order: every layer list is sorted by LayerPos 0..k−1 and holds the nodes of its own layer -/
theorem orderWMedianP_ordered (maxiter : Nat) (g g2 : G) (x : Nat) (h : orderWMedianP maxiter g = .ok (g2, x)) :
    orderedOK g2 = true := by
  unfold orderWMedianP at h
  cases ho : orderWMedian maxiter g with
  | error e => simp [ho, bind, Except.bind] at h
  | ok r =>
    obtain ⟨g1, x1⟩ := r
    simp only [ho, bind, Except.bind] at h
    split at h
    · simp [throw, throwThe, MonadExceptOf.throw] at h
    · split at h
      · simp [throw, throwThe, MonadExceptOf.throw] at h
      · rename_i hok
        simp only [pure, Except.pure, Except.ok.injEq, Prod.mk.injEq] at h
        rw [← h.1]
        simpa using hok

/-- the ordering phase of the composed model keeps the node table -/
theorem statEq_orderWMedianP (maxiter : Nat) (g g' : G) (h : (orderWMedianP maxiter g).map (·.1) = .ok g') : StatEq g g' := by
  cases hp : orderWMedianP maxiter g with
  | error e => simp [hp, Except.map] at h
  | ok r =>
    obtain ⟨g2, x⟩ := r
    simp only [hp, Except.map, Except.ok.injEq] at h
    subst h
    obtain ⟨g1, _, _, rfl⟩ := orderWMedianP_ok maxiter g g2 x hp
    refine ⟨by simp, fun i hi => ?_, fun i h1 h2 => by simp at h2; omega⟩
    simp [G.node, Array.getD_eq_getD_getElem?, hi, Node.stat]

/-- END TO END, with the exact model of the ordering phase plugged in -/
theorem statEq_layoutComponent_wmedian (cfg : Cfg) (c : G × List Nat) (gf : G)
    (h : layoutComponent (fun g => (orderWMedianP 24 g).map (·.1)) cfg c = .ok gf) : StatEq c.1 gf :=
  statEq_layoutComponent _ (fun g g' hg => statEq_orderWMedianP 24 g g' hg) cfg c gf h

end Autog
