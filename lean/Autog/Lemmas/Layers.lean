import Autog.Lemmas.PlaceAll
import Autog.Lemmas.Placement
/-! Well-formed layer lists and the coordinates of a layer as lists. Core-only. -/

namespace Autog
open Phase4Simple

/-- every node occurs in at most one layer list, at most once, and exists -/
structure LayersWF (g : G) : Prop where
  nodup : (g.layers.toList.flatMap (·.nodes)).Nodup
  bound : ∀ n ∈ g.layers.toList.flatMap (·.nodes), n < g.nodes.size

def xsOf (g : G) (l : Layer) : List Rat := l.nodes.map fun n => (g.node n).x
def ysOf (g : G) (l : Layer) : List Rat := l.nodes.map fun n => (g.node n).y

theorem le_maxRat_left (a b : Rat) : a ≤ maxRat a b := by
  unfold maxRat; split
  · assumption
  · exact Rat.le_refl
theorem le_maxRat_right (a b : Rat) : b ≤ maxRat a b := by
  unfold maxRat; split
  · exact Rat.le_refl
  · rename_i h; exact Rat.le_of_lt (Rat.not_le.1 h)

theorem foldl_maxRat_ge_init : ∀ (l : List Rat) (d : Rat), d ≤ l.foldl maxRat d
  | [], d => Rat.le_refl
  | x :: l, d => Rat.le_trans (le_maxRat_left d x) (foldl_maxRat_ge_init l _)

theorem le_foldl_maxRat : ∀ (l : List Rat) (d x : Rat), x ∈ l → x ≤ l.foldl maxRat d
  | y :: l, d, x, h => by
    rcases List.mem_cons.1 h with rfl | h
    · exact Rat.le_trans (le_maxRat_right d x) (foldl_maxRat_ge_init l _)
    · exact le_foldl_maxRat l _ x h

theorem minRat_le_left (a b : Rat) : minRat a b ≤ a := by
  unfold minRat; split
  · exact Rat.le_refl
  · rename_i h; exact Rat.le_of_lt (Rat.not_le.1 h)
theorem minRat_le_right (a b : Rat) : minRat a b ≤ b := by
  unfold minRat; split
  · assumption
  · exact Rat.le_refl

theorem foldl_minRat_le_init : ∀ (l : List Rat) (d : Rat), l.foldl minRat d ≤ d
  | [], d => Rat.le_refl
  | x :: l, d => Rat.le_trans (foldl_minRat_le_init l _) (minRat_le_left d x)

theorem foldl_minRat_le : ∀ (l : List Rat) (d x : Rat), x ∈ l → l.foldl minRat d ≤ x
  | y :: l, d, x, h => by
    rcases List.mem_cons.1 h with rfl | h
    · exact Rat.le_trans (foldl_minRat_le_init l _) (minRat_le_right d x)
    · exact foldl_minRat_le l _ x h

/-- the fold returns its initial value or an element of the list -/
theorem foldl_minRat_mem : ∀ (l : List Rat) (d : Rat), l.foldl minRat d = d ∨ l.foldl minRat d ∈ l
  | [], d => Or.inl rfl
  | x :: l, d => by
    simp only [List.foldl_cons]
    rcases foldl_minRat_mem l (minRat d x) with h | h
    · rw [h]; unfold minRat; split
      · exact Or.inl rfl
      · exact Or.inr (List.mem_cons_self ..)
    · exact Or.inr (List.mem_cons_of_mem _ h)

theorem foldl_maxRat_mem : ∀ (l : List Rat) (d : Rat), l.foldl maxRat d = d ∨ l.foldl maxRat d ∈ l
  | [], d => Or.inl rfl
  | x :: l, d => by
    simp only [List.foldl_cons]
    rcases foldl_maxRat_mem l (maxRat d x) with h | h
    · rw [h]; unfold maxRat; split
      · exact Or.inr (List.mem_cons_self ..)
      · exact Or.inl rfl
    · exact Or.inr (List.mem_cons_of_mem _ h)

/-- a placement built layer by layer from a well-formed layer list is well formed -/
theorem plwf_of_layers (g g0 : G) (hsz : g.nodes.size = g0.nodes.size) (hwf : LayersWF g0)
    (f : Layer → List Rat) (hlen : ∀ l ∈ g0.layers.toList, (f l).length = l.nodes.length) :
    PlWF g (g0.layers.toList.map fun l => (l.nodes, f l)) := by
  have hfm : (g0.layers.toList.map fun l => (l.nodes, f l)).flatMap (·.1) = g0.layers.toList.flatMap (·.nodes) := by
    rw [List.flatMap_map]
  refine ⟨by rw [hfm]; exact hwf.nodup, fun n hn => by rw [hfm] at hn; rw [hsz]; exact hwf.bound n hn, ?_⟩
  intro p hp
  obtain ⟨l, hl, rfl⟩ := List.mem_map.1 hp
  exact (hlen l hl).symm

end Autog

namespace Autog

/-- executable well-formedness check (driver contract `K:layersWF`) -/
def layersWFb (g : G) : Bool :=
  let ns := g.layers.toList.flatMap (·.nodes)
  allPairs (fun a b => a != b) ns && ns.all (fun n => decide (n < g.nodes.size))

theorem allPairs_ne_nodup : ∀ (l : List Nat), allPairs (fun a b => a != b) l = true → l.Nodup
  | [], _ => List.nodup_nil
  | x :: xs, h => by
    simp only [allPairs, Bool.and_eq_true, List.all_eq_true, bne_iff_ne, ne_eq] at h
    exact List.nodup_cons.2 ⟨fun hm => h.1 x hm rfl, allPairs_ne_nodup xs h.2⟩

theorem layersWFb_sound (g : G) (h : layersWFb g = true) : LayersWF g := by
  unfold layersWFb at h
  simp only [Bool.and_eq_true, List.all_eq_true, decide_eq_true_eq] at h
  exact ⟨allPairs_ne_nodup _ h.1, h.2⟩

end Autog
