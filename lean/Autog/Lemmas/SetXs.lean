import Autog.Lemmas.GraphOps
import Autog.Model.Phase4
/-! Writing a list of coordinates to a list of distinct nodes, and reading them back. Core-only. -/

namespace Autog

variable (upd : Node → Rat → Node)

theorem setCoord_nil (g : G) (xs : List Rat) : setCoord upd g [] xs = g := by simp [setCoord]
theorem setCoord_cons (g : G) (n : Nat) (ns : List Nat) (x : Rat) (xs : List Rat) :
    setCoord upd g (n :: ns) (x :: xs) = setCoord upd (g.modNode n fun nd => upd nd x) ns xs := by
  simp [setCoord]

/-- frame: sizes, layers, edges untouched -/
theorem setCoord_frame : ∀ (ns : List Nat) (xs : List Rat) (g : G), ns.length = xs.length →
    (setCoord upd g ns xs).nodes.size = g.nodes.size ∧ (setCoord upd g ns xs).layers = g.layers ∧
    (setCoord upd g ns xs).edges = g.edges ∧ (setCoord upd g ns xs).elist = g.elist
  | [], xs, g, _ => by simp [setCoord_nil upd]
  | n :: ns, [], g, h => by simp at h
  | n :: ns, x :: xs, g, h => by
    rw [setCoord_cons upd]
    have ih := setCoord_frame ns xs (g.modNode n fun nd => upd nd x) (by simpa using h)
    simpa using ih

/-- nodes outside the list are untouched -/
theorem setCoord_other : ∀ (ns : List Nat) (xs : List Rat) (g : G) (m : Nat), m ∉ ns →
    (setCoord upd g ns xs).node m = g.node m
  | [], xs, g, m, _ => by simp [setCoord_nil upd]
  | n :: ns, [], g, m, _ => by simp [setCoord]
  | n :: ns, x :: xs, g, m, hm => by
    rw [setCoord_cons upd, setCoord_other ns xs _ m (fun h => hm (List.mem_cons_of_mem _ h))]
    exact G.node_modNode_ne g n m _ (fun h => hm (h ▸ List.mem_cons_self ..))

/-- the i-th node of a duplicate-free list carries the i-th coordinate; its other fields are unchanged -/
theorem setCoord_read : ∀ (ns : List Nat) (xs : List Rat) (g : G), ns.Nodup → (∀ n ∈ ns, n < g.nodes.size) →
    ns.length = xs.length → ∀ (i : Nat) (h1 : i < ns.length) (h2 : i < xs.length),
    (setCoord upd g ns xs).node ns[i] = upd (g.node ns[i]) xs[i]
  | [], _, _, _, _, _, i, h1, _ => by simp at h1
  | n :: ns, [], _, _, _, h, _, _, _ => by simp at h
  | n :: ns, x :: xs, g, hnd, hb, hl, i, h1, h2 => by
    rw [setCoord_cons upd]
    have hnd' := List.nodup_cons.1 hnd
    cases i with
    | zero =>
      simp only [List.getElem_cons_zero]
      rw [setCoord_other upd ns xs _ n hnd'.1]
      exact G.node_modNode_eq g n _ (hb n (List.mem_cons_self ..))
    | succ i =>
      simp only [List.getElem_cons_succ]
      have h1' : i < ns.length := by simpa using h1
      have h2' : i < xs.length := by simpa using h2
      have := setCoord_read ns xs (g.modNode n fun nd => upd nd x) hnd'.2
        (fun m hm => by simpa using hb m (List.mem_cons_of_mem _ hm)) (by simpa using hl) i h1' h2'
      rw [this]
      have hne : n ≠ ns[i] := fun h => hnd'.1 (h ▸ List.getElem_mem h1')
      rw [G.node_modNode_ne g n ns[i] _ hne]

end Autog
