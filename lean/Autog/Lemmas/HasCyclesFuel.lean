import Autog.Lemmas.DfsHasCyclesSound
/-! Termination of the cycle-test machine within an explicit budget: with a weight of (out-degree + 2) per node that is
    neither finished nor on the stack, plus (todo + 1) per stack frame, every step lowers the measure. Hence the machine
    never reports `fuelOut` when started with more fuel than the measure — in particular not with the model's
    `dfsFuel = 2·E + 2·V + 4`. Core-only. -/

namespace Autog.DfsHasCyclesSound

variable (adj : Nat → List Nat)

def stackNodes (st : List Frame) : List Nat := st.map Prod.fst

def unseen (univ : List Nat) (c : Cfg) : List Nat :=
  univ.filter fun n => !c.fin.contains n && !(stackNodes c.stack).contains n

def wNode (n : Nat) : Nat := (adj n).length + 2
def sumW (l : List Nat) : Nat := (l.map (wNode adj)).sum
def sumF (st : List Frame) : Nat := (st.map fun f => f.2.length + 1).sum

def mu (univ : List Nat) (c : Cfg) : Nat := sumF c.stack + sumW adj (unseen univ c)

theorem sumW_filter_remove (univ : List Nat) (hnd : univ.Nodup) (p : Nat → Bool) (m : Nat) (hm : m ∈ univ) (hp : p m = true) :
    sumW adj (univ.filter fun n => p n && n != m) + wNode adj m = sumW adj (univ.filter p) := by
  induction univ with
  | nil => cases hm
  | cons a l ih =>
    have hnd' := List.nodup_cons.1 hnd
    by_cases ham : a = m
    · subst ham
      -- m is the head and occurs nowhere else
      have hrest : (l.filter fun n => p n && n != a) = l.filter p := by
        apply List.filter_congr
        intro x hx
        have : x ≠ a := fun e => hnd'.1 (e ▸ hx)
        simp [this]
      simp only [List.filter_cons, hp, bne_self_eq_false, Bool.and_false, Bool.false_eq_true, if_false, if_true, hrest]
      simp only [sumW, List.map_cons, List.sum_cons]; omega
    · have hml : m ∈ l := by
        rcases List.mem_cons.1 hm with e | e
        · exact absurd e.symm ham
        · exact e
      have := ih hnd'.2 hml
      have hne : (a != m) = true := by simpa using ham
      simp only [List.filter_cons, hne, Bool.and_true]
      by_cases hpa : p a = true
      · simp only [hpa, if_true, sumW, List.map_cons, List.sum_cons] at this ⊢
        omega
      · have hpa' : p a = false := by simpa using hpa
        simp only [hpa', Bool.false_eq_true, if_false]; exact this

theorem sumW_filter_le (p : Nat → Bool) : ∀ (l : List Nat), sumW adj (l.filter p) ≤ sumW adj l
  | [] => Nat.le_refl _
  | a :: l => by
    have ih := sumW_filter_le p l
    simp only [List.filter_cons]
    split
    · simp only [sumW, List.map_cons, List.sum_cons] at ih ⊢; omega
    · simp only [sumW, List.map_cons, List.sum_cons] at ih ⊢; omega

/-- well-formedness of a configuration w.r.t. the node universe -/
structure FWF (univ : List Nat) (c : Cfg) : Prop where
  sub  : ∀ f ∈ c.stack, f.1 ∈ univ ∧ ∀ m ∈ f.2, m ∈ univ
  nofin : ∀ f ∈ c.stack, f.1 ∉ c.fin
  nd : (stackNodes c.stack).Nodup

theorem unseen_pop (univ : List Nat) (n : Nat) (tl : List Frame) (fin : List Nat) :
    unseen univ ⟨tl, n :: fin⟩ = unseen univ ⟨(n, []) :: tl, fin⟩ := by
  unfold unseen stackNodes
  apply List.filter_congr
  intro x _
  simp only [List.map_cons, List.contains_cons]
  cases (x == n) <;> cases (fin.contains x) <;> cases ((List.map Prod.fst tl).contains x) <;> rfl

theorem unseen_retop (univ : List Nat) (n : Nat) (r r' : List Nat) (tl : List Frame) (fin : List Nat) :
    unseen univ ⟨(n, r) :: tl, fin⟩ = unseen univ ⟨(n, r') :: tl, fin⟩ := rfl

theorem unseen_push (univ : List Nat) (m : Nat) (r : List Nat) (st : List Frame) (fin : List Nat) :
    unseen univ ⟨(m, r) :: st, fin⟩ =
      univ.filter fun x => (!fin.contains x && !(stackNodes st).contains x) && x != m := by
  unfold unseen stackNodes
  apply List.filter_congr
  intro x _
  simp only [List.map_cons, List.contains_cons, bne]
  cases (x == m) <;> cases (fin.contains x) <;> cases ((List.map Prod.fst st).contains x) <;> rfl

/-- the machine does not run out of fuel when it has more than `mu` -/
theorem run_no_fuelOut (univ : List Nat) (hnd : univ.Nodup) (hadj : ∀ n ∈ univ, ∀ m ∈ adj n, m ∈ univ) :
    ∀ (fuel : Nat) (c : Cfg), FWF univ c → mu adj univ c < fuel → run adj fuel c ≠ .fuelOut := by
  intro fuel
  induction fuel with
  | zero => intro c _ h; omega
  | succ fuel ih =>
    intro c hwf hmu
    obtain ⟨stack, fin⟩ := c
    match stack, hwf, hmu with
    | [], _, _ => simp [run]
    | (n, []) :: tl, hwf, hmu =>
      simp only [run]
      have hndS : n ∉ stackNodes tl ∧ (stackNodes tl).Nodup := by
        have := hwf.nd; simpa [stackNodes] using this
      apply ih
      · refine ⟨fun f hf => hwf.sub f (List.mem_cons_of_mem _ hf), fun f hf hmem => ?_, hndS.2⟩
        rcases List.mem_cons.1 hmem with e | e
        · exact hndS.1 (e ▸ List.mem_map.2 ⟨f, hf, rfl⟩)
        · exact hwf.nofin f (List.mem_cons_of_mem _ hf) e
      · simp only [mu, sumF, List.map_cons, List.sum_cons, List.length_nil] at hmu ⊢
        rw [unseen_pop]; omega
    | (n, m :: ms) :: tl, hwf, hmu =>
      simp only [run]
      by_cases h1 : (n :: tl.map Prod.fst).contains m = true
      · rw [if_pos h1]; exact fun h => by cases h
      · rw [if_neg h1]
        have hsub := hwf.sub (n, m :: ms) (List.mem_cons_self ..)
        by_cases h2 : fin.contains m = true
        · rw [if_pos h2]
          apply ih
          · refine ⟨fun f hf => ?_, fun f hf => ?_, by have := hwf.nd; simpa [stackNodes] using this⟩
            · rcases List.mem_cons.1 hf with rfl | hf
              · exact ⟨hsub.1, fun x hx => hsub.2 x (List.mem_cons_of_mem _ hx)⟩
              · exact hwf.sub f (List.mem_cons_of_mem _ hf)
            · rcases List.mem_cons.1 hf with rfl | hf
              · exact hwf.nofin (n, m :: ms) (List.mem_cons_self ..)
              · exact hwf.nofin f (List.mem_cons_of_mem _ hf)
          · simp only [mu, sumF, List.map_cons, List.sum_cons, List.length_cons] at hmu ⊢
            rw [unseen_retop univ n ms (m :: ms)]; omega
        · rw [if_neg h2]
          have hm_univ : m ∈ univ := hsub.2 m (List.mem_cons_self ..)
          have hm_stack : m ∉ stackNodes ((n, ms) :: tl) := by
            simpa [stackNodes] using h1
          have hm_fin : m ∉ fin := by simpa using h2
          apply ih
          · refine ⟨fun f hf => ?_, fun f hf => ?_, ?_⟩
            · rcases List.mem_cons.1 hf with rfl | hf
              · exact ⟨hm_univ, hadj m hm_univ⟩
              · rcases List.mem_cons.1 hf with rfl | hf
                · exact ⟨hsub.1, fun x hx => hsub.2 x (List.mem_cons_of_mem _ hx)⟩
                · exact hwf.sub f (List.mem_cons_of_mem _ hf)
            · rcases List.mem_cons.1 hf with rfl | hf
              · exact hm_fin
              · rcases List.mem_cons.1 hf with rfl | hf
                · exact hwf.nofin (n, m :: ms) (List.mem_cons_self ..)
                · exact hwf.nofin f (List.mem_cons_of_mem _ hf)
            · have := hwf.nd
              simp only [stackNodes, List.map_cons, List.nodup_cons] at this hm_stack ⊢
              exact ⟨hm_stack, this⟩
          · have hp : (!fin.contains m && !(stackNodes ((n, ms) :: tl)).contains m) = true := by
              have e1 : fin.contains m = false := by simpa using h2
              have e2 : (stackNodes ((n, ms) :: tl)).contains m = false := by simpa using hm_stack
              rw [e1, e2]; rfl
            have hrem := sumW_filter_remove adj univ hnd
              (fun x => !fin.contains x && !(stackNodes ((n, ms) :: tl)).contains x) m hm_univ hp
            have hold : unseen univ ⟨(n, m :: ms) :: tl, fin⟩ =
                univ.filter fun x => !fin.contains x && !(stackNodes ((n, ms) :: tl)).contains x := rfl
            simp only [mu, sumF, List.map_cons, List.sum_cons, List.length_cons] at hmu ⊢
            rw [unseen_push, ← (rfl : stackNodes ((n, ms) :: tl) = stackNodes ((n, ms) :: tl))]
            rw [hold] at hmu
            simp only [wNode] at hrem
            omega

/-- one top-level call `visit(n)` from a configuration with an empty stack: at most `Σ (deg + 2)` over the unfinished nodes,
    plus the frame, steps — in particular at most E + 2·V + 1 -/
theorem visit_terminates (univ : List Nat) (hnd : univ.Nodup) (hadj : ∀ n ∈ univ, ∀ m ∈ adj n, m ∈ univ)
    (n : Nat) (hn : n ∈ univ) (fin : List Nat) (hf : n ∉ fin) (fuel : Nat)
    (hfuel : (adj n).length + 1 + sumW adj univ < fuel) :
    run adj fuel ⟨[(n, adj n)], fin⟩ ≠ .fuelOut := by
  apply run_no_fuelOut adj univ hnd hadj
  · refine ⟨fun f hf' => ?_, fun f hf' => ?_, by simp [stackNodes]⟩
    · have : f = (n, adj n) := by simpa using hf'
      subst this; exact ⟨hn, hadj n hn⟩
    · have : f = (n, adj n) := by simpa using hf'
      subst this; exact hf
  · have hle : sumW adj (unseen univ ⟨[(n, adj n)], fin⟩) ≤ sumW adj univ := sumW_filter_le adj _ _
    simp only [mu, sumF, List.map_cons, List.map_nil, List.sum_cons, List.sum_nil]
    omega

end Autog.DfsHasCyclesSound
