/-! Spike (C04, SinkColoring.placeBlock after the repair): one sweep tests adjacent pairs and shifts the right
    one when it is too close; if a sweep shifts nothing, every tested pair is separated. Core-only, over Rat. -/


namespace Autog.SinkColoringSweep

def upd (f : Nat → Rat) (k : Nat) (v : Rat) : Nat → Rat := fun x => if x = k then v else f x

/-- one test of the sweep: `if x[suc] < x[cur] + bw[cur] + sp { x[suc] = x[cur] + bw[cur] + sp; shift = true }` -/
def check (bw : Nat → Rat) (sp : Rat) (st : (Nat → Rat) × Bool) (p : Nat × Nat) : (Nat → Rat) × Bool :=
  if st.1 p.2 < st.1 p.1 + bw p.1 + sp then (upd st.1 p.2 (st.1 p.1 + bw p.1 + sp), true) else st

def sweep (bw : Nat → Rat) (sp : Rat) (x : Nat → Rat) (pairs : List (Nat × Nat)) : (Nat → Rat) × Bool :=
  pairs.foldl (check bw sp) (x, false)

/-- once the flag is set it stays set -/
theorem foldl_flag (bw : Nat → Rat) (sp : Rat) : ∀ (pairs : List (Nat × Nat)) (x : Nat → Rat),
    (pairs.foldl (check bw sp) (x, true)).2 = true := by
  intro pairs
  induction pairs with
  | nil => intro x; rfl
  | cons p ps ih =>
    intro x
    simp only [List.foldl_cons, check]
    split
    · exact ih _
    · exact ih _

/-- C04 core: a sweep that reports "no shift" changed nothing and found every tested pair separated -/
theorem sweep_quiet (bw : Nat → Rat) (sp : Rat) : ∀ (pairs : List (Nat × Nat)) (x : Nat → Rat),
    (sweep bw sp x pairs).2 = false →
    (sweep bw sp x pairs).1 = x ∧ ∀ p ∈ pairs, x p.1 + bw p.1 + sp ≤ x p.2 := by
  intro pairs
  induction pairs with
  | nil => intro x _; exact ⟨rfl, fun _ h => by cases h⟩
  | cons p ps ih =>
    intro x h
    unfold sweep at h ⊢
    simp only [List.foldl_cons, check] at h ⊢
    by_cases hc : x p.2 < x p.1 + bw p.1 + sp
    · simp only [hc, if_true] at h
      rw [foldl_flag] at h; cases h
    · simp only [hc, if_false] at h ⊢
      obtain ⟨h1, h2⟩ := ih x h
      refine ⟨h1, fun q hq => ?_⟩
      rcases List.mem_cons.1 hq with rfl | hq
      · exact Rat.not_lt.1 hc
      · exact h2 q hq


/-! The pairs the Go loop tests: `for k in 0..lmax { for l in layers { (l[k], l[k+1]) if k < len-1 } }` —
    every adjacent pair of every layer is among them. -/

def adjPairs : List Nat → List (Nat × Nat)
  | a :: b :: l => (a, b) :: adjPairs (b :: l)
  | _ => []

/-- the k-th adjacent pair of a layer, if any -/
def pairAt (l : List Nat) (k : Nat) : List (Nat × Nat) :=
  match l[k]?, l[k+1]? with
  | some a, some b => [(a, b)]
  | _, _ => []

def sweepPairs (layers : List (List Nat)) (lmax : Nat) : List (Nat × Nat) :=
  (List.range lmax).flatMap (fun k => layers.flatMap (fun l => pairAt l k))

theorem adjPairs_mem : ∀ (l : List Nat) (p : Nat × Nat), p ∈ adjPairs l →
    ∃ k, k + 1 < l.length ∧ l[k]? = some p.1 ∧ l[k+1]? = some p.2
  | [], p, h => by simp [adjPairs] at h
  | [_], p, h => by simp [adjPairs] at h
  | a :: b :: l, p, h => by
    simp only [adjPairs, List.mem_cons] at h
    rcases h with rfl | h
    · exact ⟨0, by simp, by simp, by simp⟩
    · obtain ⟨k, h1, h2, h3⟩ := adjPairs_mem (b :: l) p h
      exact ⟨k + 1, by simp at h1 ⊢; omega, by simpa using h2, by simpa using h3⟩

/-- coverage: with lmax ≥ the longest layer, the sweep tests every adjacent pair of every layer -/
theorem sweep_covers (layers : List (List Nat)) (lmax : Nat) (hl : ∀ l ∈ layers, l.length ≤ lmax) :
    ∀ l ∈ layers, ∀ p ∈ adjPairs l, p ∈ sweepPairs layers lmax := by
  intro l hlmem p hp
  obtain ⟨k, h1, h2, h3⟩ := adjPairs_mem l p hp
  unfold sweepPairs
  rw [List.mem_flatMap]
  refine ⟨k, by have := hl l hlmem; simp; omega, ?_⟩
  rw [List.mem_flatMap]
  refine ⟨l, hlmem, ?_⟩
  simp [pairAt, h2, h3]

end Autog.SinkColoringSweep
