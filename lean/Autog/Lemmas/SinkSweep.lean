import Autog.Model.SinkColoring
/-! The `placeBlock` sweep of the SinkColoring model: a round that reports "no shift" changed nothing after the
    centring step and found every tested pair separated; the tested pairs cover every adjacent pair of every layer;
    `placeBlock` returns the state of such a round. Core-only. -/

namespace Autog

theorem pbStep_flag (spacing : Rat) (bwOf : Nat → Rat) (root : Nat → Nat) :
    ∀ (pairs : List (Nat × Nat)) (s : PBSt), (pairs.foldl (pbStep spacing bwOf root) (s, true)).2 = true
  | [], _ => rfl
  | p :: ps, s => by
    simp only [List.foldl_cons, pbStep]
    split
    · exact pbStep_flag spacing bwOf root ps _
    · exact pbStep_flag spacing bwOf root ps _

/-- a quiet sweep: state unchanged, every tested pair separated by block width plus spacing -/
theorem pbSweep_quiet (spacing : Rat) (bwOf : Nat → Rat) (root : Nat → Nat) :
    ∀ (pairs : List (Nat × Nat)) (s : PBSt),
      (pairs.foldl (pbStep spacing bwOf root) (s, false)).2 = false →
      (pairs.foldl (pbStep spacing bwOf root) (s, false)).1 = s ∧
      ∀ p ∈ pairs, s.xcoord.getD p.1 0 + bwOf p.1 + spacing ≤ s.xcoord.getD p.2 0
  | [], s, _ => ⟨rfl, fun _ h => by cases h⟩
  | p :: ps, s, h => by
    simp only [List.foldl_cons] at h ⊢
    by_cases hc : s.xcoord.getD p.2 0 < s.xcoord.getD p.1 0 + bwOf p.1 + spacing
    · have : ∃ s1, pbStep spacing bwOf root (s, false) p = (s1, true) := by
        simp only [pbStep, hc, if_true]; exact ⟨_, rfl⟩
      obtain ⟨s1, hs1⟩ := this
      rw [hs1, pbStep_flag] at h; cases h
    · have hstep : pbStep spacing bwOf root (s, false) p = (s, false) := by simp only [pbStep, hc, if_false]
      rw [hstep] at h ⊢
      obtain ⟨h1, h2⟩ := pbSweep_quiet spacing bwOf root ps s h
      refine ⟨h1, fun q hq => ?_⟩
      rcases List.mem_cons.1 hq with rfl | hq
      · exact Rat.not_lt.1 hc
      · exact h2 q hq

/-- adjacent pairs of a list -/
def adjPairs : List Nat → List (Nat × Nat)
  | a :: b :: l => (a, b) :: adjPairs (b :: l)
  | _ => []

theorem adjPairs_mem : ∀ (l : List Nat) (p : Nat × Nat), p ∈ adjPairs l →
    ∃ k, k + 1 < l.length ∧ l.getD k 0 = p.1 ∧ l.getD (k + 1) 0 = p.2
  | [], p, h => by simp [adjPairs] at h
  | [_], p, h => by simp [adjPairs] at h
  | a :: b :: l, p, h => by
    simp only [adjPairs, List.mem_cons] at h
    rcases h with rfl | h
    · exact ⟨0, by simp, by simp, by simp⟩
    · obtain ⟨k, h1, h2, h3⟩ := adjPairs_mem (b :: l) p h
      exact ⟨k + 1, by simp at h1 ⊢; omega, by simpa using h2, by simpa using h3⟩

/-- the pair at index k of a list with k + 1 < len is tested at step k (first or third case of the switch) or,
    for the last pair, again at step k + 1 -/
theorem pairAtGo_covers (l : List Nat) (k : Nat) (hk : k + 1 < l.length) :
    (l.getD k 0, l.getD (k + 1) 0) ∈ pairAtGo l k ∨ (l.getD k 0, l.getD (k + 1) 0) ∈ pairAtGo l (k + 1) := by
  by_cases hlast : k = l.length - 1 ∧ k > 0
  · omega
  · left
    unfold pairAtGo
    have h1 : ¬ k ≥ l.length := by omega
    have h2 : (k == l.length - 1 && decide (k > 0)) = false := by
      simp only [Bool.and_eq_false_iff, beq_eq_false_iff_ne, decide_eq_false_iff_not]
      left; omega
    simp [h1, h2, hk]

/-- coverage: with lmax at least the longest layer, every adjacent pair of every layer is tested -/
theorem sweepPairsGo_covers (layers : List (List Nat)) (lmax : Nat) (hl : ∀ l ∈ layers, l.length ≤ lmax) :
    ∀ l ∈ layers, ∀ p ∈ adjPairs l, p ∈ sweepPairsGo layers lmax := by
  intro l hlm p hp
  obtain ⟨k, h1, h2, h3⟩ := adjPairs_mem l p hp
  have hp' : p = (l.getD k 0, l.getD (k + 1) 0) := by rw [h2, h3]
  have hlen := hl l hlm
  unfold sweepPairsGo
  rcases pairAtGo_covers l k h1 with h | h
  · exact List.mem_flatMap.2 ⟨k, by simp; omega, List.mem_flatMap.2 ⟨l, hlm, hp' ▸ h⟩⟩
  · exact List.mem_flatMap.2 ⟨k + 1, by simp; omega, List.mem_flatMap.2 ⟨l, hlm, hp' ▸ h⟩⟩

/-- `placeBlock` returns the result of a round that shifted nothing -/
theorem placeBlock_final (g : G) (lmax : Nat) (spacing : Rat) (bw : Array Rat) (roots : Array Nat) :
    ∀ (fuel : Nat) (s s' : PBSt) (d : Nat), placeBlock g lmax spacing bw roots fuel s = .ok (s', d) →
      ∃ s0, placeBlockRound g lmax spacing bw roots s0 = (s', false)
  | 0, _, _, _, h => by simp [placeBlock] at h
  | fuel + 1, s, s', d, h => by
    unfold placeBlock at h
    cases hr : placeBlockRound g lmax spacing bw roots s with
    | mk s1 sh =>
      rw [hr] at h
      cases sh with
      | true =>
        simp only [if_true] at h
        cases hrec : placeBlock g lmax spacing bw roots fuel s1 with
        | error e => rw [hrec] at h; cases h
        | ok r =>
          rw [hrec] at h
          obtain ⟨s2, d2⟩ := r
          have : s2 = s' := by cases h; rfl
          subst this
          exact placeBlock_final g lmax spacing bw roots fuel s1 s2 d2 hrec
      | false =>
        simp only [Bool.false_eq_true, if_false] at h
        cases h
        exact ⟨s, hr⟩

end Autog
