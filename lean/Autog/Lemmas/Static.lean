import Autog.Lemmas.Frame
import Autog.Lemmas.PlaceAll
import Autog.Model.Pipeline
/-! Frame lemmas for the STATIC part of the node table — id, width, height, helper flag — along the whole pipeline: no phase
    ever changes these fields of an existing node, nodes are only ever appended, and every appended node is a helper node.
    Hence the real nodes the caller gets back are, in order, exactly the nodes of the component that went in. Core-only. -/

namespace Autog

def Node.stat (n : Node) : String × Rat × Rat × Bool := (n.id, n.w, n.h, n.virt)

/-- `g'` extends the node table of `g`: the old nodes keep id, size and helper flag; every new node is a helper node -/
structure StatEq (g g' : G) : Prop where
  size : g.nodes.size ≤ g'.nodes.size
  stat : ∀ i, i < g.nodes.size → (g'.node i).stat = (g.node i).stat
  fresh : ∀ i, g.nodes.size ≤ i → i < g'.nodes.size → (g'.node i).virt = true ∧ (g'.node i).w = 0 ∧ (g'.node i).h = 0

theorem StatEq.refl (g : G) : StatEq g g := ⟨Nat.le_refl _, fun _ _ => rfl, fun i h1 h2 => by omega⟩

theorem StatEq.trans {a b c : G} (h1 : StatEq a b) (h2 : StatEq b c) : StatEq a c := by
  refine ⟨Nat.le_trans h1.size h2.size, fun i hi => ?_, fun i hi1 hi2 => ?_⟩
  · rw [h2.stat i (Nat.lt_of_lt_of_le hi h1.size), h1.stat i hi]
  · by_cases hb : i < b.nodes.size
    · have := h2.stat i hb
      have hv := h1.fresh i hi1 hb
      simp only [Node.stat, Prod.mk.injEq] at this
      rw [this.2.2.2, this.2.1, this.2.2.1]
      exact hv
    · exact h2.fresh i (by omega) hi2

/-- states with the same node table -/
theorem StatEq.of_nodes {g g' : G} (h : g'.nodes = g.nodes) : StatEq g g' :=
  ⟨by rw [h]; exact Nat.le_refl _, fun i _ => by simp [G.node, h], fun i h1 h2 => by rw [h] at h2; omega⟩

theorem statEq_modNode (g : G) (i : Nat) (f : Node → Node) (hf : ∀ nd, (f nd).stat = nd.stat) : StatEq g (g.modNode i f) :=
  ⟨by simp, fun j _ => by rw [G.node_modNode]; split <;> simp [hf], fun j h1 h2 => by simp at h2; omega⟩

theorem statEq_of_geomEq {g g' : G} (h : GeomEq g g') : StatEq g g' := by
  refine ⟨by rw [h.size]; exact Nat.le_refl _, fun i _ => ?_, fun i h1 h2 => by rw [h.size] at h2; omega⟩
  have := h.geom i
  simp only [Node.geom, Prod.mk.injEq] at this
  simp [Node.stat, this.1, this.2.2.2.1, this.2.2.2.2.1, this.2.2.2.2.2.1]

theorem statEq_reverse (g : G) (e : Nat) : StatEq g (g.reverse e) := statEq_of_geomEq (geomEq_reverse g e)

theorem statEq_foldl {α} (f : G → α → G) (hf : ∀ g x, StatEq g (f g x)) : ∀ (l : List α) (g : G), StatEq g (l.foldl f g)
  | [], g => StatEq.refl g
  | x :: l, g => (hf g x).trans (statEq_foldl f hf l (f g x))

/-! ### phase 1 -/

theorem statEq_removeTwoNodeCycles (g : G) : StatEq g (removeTwoNodeCycles g) := by
  unfold removeTwoNodeCycles
  exact statEq_foldl _ (fun g e => statEq_reverse g e) _ g

theorem statEq_execDepthFirst (g g' : G) (h : execDepthFirst g = .ok g') : StatEq g g' := by
  unfold execDepthFirst at h
  cases hm : dfsMarked g with
  | error e => simp [hm, bind, Except.bind] at h
  | ok marked =>
    simp only [hm, bind, Except.bind, pure, Except.pure, Except.ok.injEq] at h
    subst h
    exact statEq_foldl _ (fun g e => statEq_reverse g e) _ g

/-! ### phase 2 -/

theorem statEq_setLayers (g : G) (f : Nat → Node → Int) :
    StatEq g { g with nodes := g.nodes.mapIdx fun i n => { n with layer := f i n } } := by
  refine ⟨by simp, fun i hi => ?_, fun i h1 h2 => by simp at h2; omega⟩
  simp [G.node, Array.getD_eq_getD_getElem?, hi, Node.stat]

theorem statEq_execLongestPath (g g' : G) (h : execLongestPath g = .ok g') : StatEq g g' := by
  unfold execLongestPath at h
  cases hm : heights g with
  | error e => simp [hm, bind, Except.bind] at h
  | ok memo =>
    simp only [hm, bind, Except.bind, pure, Except.pure, Except.ok.injEq] at h
    subst h
    exact statEq_setLayers g _

theorem statEq_buildLayers (g g' : G) (h : buildLayers g = .ok g') : StatEq g g' := by
  unfold buildLayers at h
  simp only [bind, Except.bind, pure, Except.pure] at h
  split at h
  · cases h
  · simp only [Except.ok.injEq] at h
    subst h
    exact StatEq.of_nodes rfl

/-! ### phase 3: long edges are cut by appending helper nodes -/

/-- the `To.In[i] = f` patch of `breakEdge` -/
def patchIn (e f : Nat) (n : Node) : Node :=
  match n.ins.idxOf? e with
  | some i => { n with ins := n.ins.set i f }
  | none => n

theorem patchIn_stat (e f : Nat) (n : Node) : (patchIn e f n).stat = n.stat := by
  unfold patchIn; split <;> rfl

theorem breakEdge_nodes (g : G) (e v : Nat) :
    (breakEdge g e v).1.nodes = (g.nodes.push
      { id := "V" ++ toString v, layer := g.layerOf (g.edge e).src + 1, virt := true, ins := [e], outs := [g.edges.size] }).modify
        (g.edge e).dst (patchIn e g.edges.size) := rfl

theorem statEq_breakEdge (g : G) (e v : Nat) : StatEq g (breakEdge g e v).1 := by
  refine ⟨by rw [breakEdge_nodes]; simp, fun i hi => ?_, fun i hi1 hi2 => ?_⟩
  · simp only [G.node, breakEdge_nodes, Array.getD_eq_getD_getElem?, Array.getElem?_modify, Array.getElem?_push,
      Nat.ne_of_lt hi, if_false, Array.getElem?_eq_getElem hi]
    split <;> simp [patchIn_stat]
  · rw [breakEdge_nodes] at hi2
    have : i = g.nodes.size := by simp at hi2; omega
    subst this
    simp only [G.node, breakEdge_nodes, Array.getD_eq_getD_getElem?, Array.getElem?_modify, Array.getElem?_push, if_true]
    split
    · have := patchIn_stat e g.edges.size
        { id := "V" ++ toString v, layer := g.layerOf (g.edge e).src + 1, virt := true, ins := [e], outs := [g.edges.size] }
      simp only [Node.stat, Prod.mk.injEq] at this
      exact ⟨by simpa using this.2.2.2, by simpa using this.2.1, by simpa using this.2.2.1⟩
    · simp

theorem statEq_breakLongEdges_go : ∀ (fuel i v : Nat) (g g' : G), breakLongEdges.go fuel i v g = .ok g' → StatEq g g'
  | 0, _, _, _, _, h => by simp [breakLongEdges.go] at h
  | fuel + 1, i, v, g, g', h => by
    unfold breakLongEdges.go at h
    split at h
    · simp only [pure, Except.pure, Except.ok.injEq] at h; subst h; exact StatEq.refl _
    · simp only at h
      split at h
      · exact (statEq_breakEdge g _ v).trans (statEq_breakLongEdges_go fuel _ _ _ _ h)
      · split at h
        · rename_i e _ _ _
          refine StatEq.trans ?_ (statEq_breakLongEdges_go fuel _ _ _ _ h)
          have h1 : StatEq g (g.reverse e) := statEq_reverse g e
          have h2 : StatEq g (breakEdge (g.reverse e) e v).1 := h1.trans (statEq_breakEdge (g.reverse e) e v)
          have h3 : StatEq g ((breakEdge (g.reverse e) e v).1.reverse e) := h2.trans (statEq_reverse _ e)
          exact h3.trans (statEq_reverse _ _)
        · exact statEq_breakLongEdges_go fuel _ _ _ _ h

theorem statEq_breakLongEdges (g g' : G) (h : breakLongEdges g = .ok g') : StatEq g g' := by
  unfold breakLongEdges at h
  exact statEq_breakLongEdges_go _ _ _ _ _ h

/-! ### phase 4 -/

theorem statEq_setCoord (upd : Node → Rat → Node) (hupd : ∀ nd v, (upd nd v).stat = nd.stat) :
    ∀ (ns : List Nat) (xs : List Rat) (g : G), StatEq g (setCoord upd g ns xs) := by
  intro ns xs g
  unfold setCoord
  exact statEq_foldl (fun g (p : Nat × Rat) => g.modNode p.1 fun nd => upd nd p.2)
    (fun g p => statEq_modNode g p.1 _ (fun nd => hupd nd p.2)) _ g

theorem statEq_placeAllWith (upd : Node → Rat → Node) (hupd : ∀ nd v, (upd nd v).stat = nd.stat)
    (g : G) (pl : List (List Nat × List Rat)) : StatEq g (placeAllWith upd g pl) := by
  unfold placeAllWith
  exact statEq_foldl (fun g (p : List Nat × List Rat) => setCoord upd g p.1 p.2)
    (fun g p => statEq_setCoord upd hupd p.1 p.2 g) _ g

theorem statEq_assignY (ls : Rat) (g : G) : StatEq g (assignYCoords ls g) :=
  statEq_placeAllWith updY (fun _ _ => rfl) g _

theorem statEq_valign (ns : Rat) (g : G) : StatEq g (execVerticalAlign ns g) := by
  unfold execVerticalAlign
  have h1 : StatEq g { g with layers := valignLayers ns g } := StatEq.of_nodes rfl
  exact h1.trans (statEq_placeAllWith updX (fun _ _ => rfl) { g with layers := valignLayers ns g } (valignPlan ns g))

theorem statEq_packRight (ns : Rat) (g : G) : StatEq g (execPackRight ns g) := by
  unfold execPackRight growAllH
  exact (statEq_placeAllWith updX (fun _ _ => rfl) g _).trans (StatEq.of_nodes rfl)

theorem statEq_phase4Simple (alg : Nat) (ns ls : Rat) (g g' : G) (h : phase4Simple alg ns ls g = .ok g') : StatEq g g' := by
  unfold phase4Simple at h
  split at h
  · simp only [pure, Except.pure, Except.ok.injEq] at h; subst h; exact StatEq.of_nodes rfl
  · simp only [bind, Except.bind] at h
    split at h
    · simp only [pure, Except.pure, Except.ok.injEq] at h; subst h
      exact (statEq_valign ns g).trans (statEq_assignY ls _)
    · simp only [pure, Except.pure, Except.ok.injEq] at h; subst h
      exact (statEq_packRight ns g).trans (statEq_assignY ls _)
    · cases h

theorem statEq_sinkColoring (ns : Rat) (g g' : G) (d : Nat) (h : execSinkColoring ns g = .ok (g', d)) : StatEq g g' := by
  unfold execSinkColoring at h
  cases hb : scBlocks g with
  | error e => simp [hb, bind, Except.bind] at h
  | ok r =>
    obtain ⟨bw, roots⟩ := r
    simp only [hb, bind, Except.bind] at h
    cases hp : placeBlock g (scLmax g) ns bw roots (placeBlockFuel g) (scInit ns g bw roots) with
    | error e => simp [hp] at h
    | ok r2 =>
      simp only [hp, pure, Except.pure, Except.ok.injEq, Prod.mk.injEq] at h
      rw [← h.1]
      unfold scWrite growAllH
      exact (statEq_placeAllWith updX (fun _ _ => rfl) g _).trans (StatEq.of_nodes rfl)

/-! ### phase 5 and post-processing: from the geometry frame -/

theorem statEq_phase5 (alg : Nat) (ls : Rat) (g g' : G) (h : phase5 alg ls g = .ok g') : StatEq g g' :=
  statEq_of_geomEq (phase5_geom _ _ _ _ h)

theorem statEq_postProcess (g : G) (loops : List Nat) : StatEq g (postProcess g loops) :=
  statEq_of_geomEq (postProcess_geom g loops)

end Autog

namespace Autog

theorem statEq_execGreedy (g g' : G) (h : execGreedy g = .ok g') : StatEq g g' := by
  unfold execGreedy at h
  simp only [bind, Except.bind, pure, Except.pure] at h
  split at h
  · cases h
  · split at h
    · cases h
    · simp only [Except.ok.injEq] at h
      subst h
      exact statEq_foldl _ (fun g e => by split; exact statEq_reverse g e; exact StatEq.refl g) _ g

theorem statEq_phase1 (alg : Nat) (g g' : G) (h : phase1 alg g = .ok g') : StatEq g g' := by
  unfold phase1 at h
  simp only [bind, Except.bind, pure, Except.pure] at h
  split at h
  · simp only [Except.ok.injEq] at h; subst h; exact StatEq.refl _
  · cases hc : hasCycles (removeTwoNodeCycles g) with
    | error e => rw [hc] at h; cases h
    | ok b =>
      rw [hc] at h
      simp only at h
      cases b with
      | false => simp only [Bool.not_false, if_true, Except.ok.injEq] at h; subst h; exact statEq_removeTwoNodeCycles g
      | true =>
        simp only [Bool.not_true, Bool.false_eq_true, if_false] at h
        cases hb : breakCycles alg (removeTwoNodeCycles g) with
        | error e => rw [hb] at h; cases h
        | ok g2 =>
          rw [hb] at h
          simp only at h
          have hg2 : StatEq (removeTwoNodeCycles g) g2 := by
            unfold breakCycles at hb
            split at hb
            · exact statEq_execGreedy _ _ hb
            · exact statEq_execDepthFirst _ _ hb
          cases hc2 : hasCycles g2 with
          | error e => rw [hc2] at h; cases h
          | ok b2 =>
            rw [hc2] at h
            cases b2 with
            | true => simp [throw, throwThe, MonadExceptOf.throw] at h
            | false =>
              simp only [Bool.false_eq_true, if_false, Except.ok.injEq] at h
              subst h
              exact (statEq_removeTwoNodeCycles g).trans hg2

end Autog
