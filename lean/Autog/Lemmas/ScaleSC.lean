import Autog.Lemmas.ScaleBase
import Autog.Model.SinkColoring
/-! Unit independence of the SinkColoring positioner (C17): scaling every node size and NodeSpacing by a positive factor c
    leaves the blocks (colours, roots, priorities) and the number of `placeBlock` rounds unchanged and multiplies every
    block width and every coordinate by c. Core-only. -/

namespace Autog
open Phase4Simple

/-! ### what scaling leaves alone -/

theorem scaleG_edge_full (c : Rat) (g : G) (e : Nat) :
    (scaleG c g).edge e = { g.edge e with pts := (g.edge e).pts.map (scalePt c) } := by
  simp only [scaleG, G.edge, Array.getD_eq_getD_getElem?, Array.getElem?_map]
  cases g.edges[e]? with
  | none => simp [default, instInhabitedEdge.default]
  | some ed => rfl
theorem scaleG_edge_src (c : Rat) (g : G) (e : Nat) : ((scaleG c g).edge e).src = (g.edge e).src := by rw [scaleG_edge_full]
theorem scaleG_edge_dst (c : Rat) (g : G) (e : Nat) : ((scaleG c g).edge e).dst = (g.edge e).dst := by rw [scaleG_edge_full]
theorem scaleG_nsize (c : Rat) (g : G) : (scaleG c g).nodes.size = g.nodes.size := by simp [scaleG]
theorem scaleG_lsize (c : Rat) (g : G) : (scaleG c g).layers.size = g.layers.size := by simp [scaleG]

theorem scaleG_node_top (c : Rat) (g : G) (n : Nat) :
    ((scaleG c g).node n).ins = (g.node n).ins ∧ ((scaleG c g).node n).outs = (g.node n).outs ∧
    ((scaleG c g).node n).layer = (g.node n).layer ∧ ((scaleG c g).node n).pos = (g.node n).pos ∧
    ((scaleG c g).node n).virt = (g.node n).virt := by
  simp only [scaleG, G.node, Array.getD_eq_getD_getElem?, Array.getElem?_map]
  cases g.nodes[n]? with
  | none => simp [default, instInhabitedNode.default]
  | some nd => simp

theorem scaleG_other (c : Rat) (g : G) (e n : Nat) : (scaleG c g).other e n = g.other e n := by
  simp only [G.other, scaleG_edge_src, scaleG_edge_dst]
theorem scaleG_selfLoops (c : Rat) (g : G) (e : Nat) : (scaleG c g).selfLoops e = g.selfLoops e := by
  simp only [G.selfLoops, scaleG_edge_src, scaleG_edge_dst]
theorem scaleG_layerOf (c : Rat) (g : G) (n : Nat) : (scaleG c g).layerOf n = g.layerOf n := by
  simp only [G.layerOf, (scaleG_node_top c g n).2.2.1]
theorem scaleG_isFlat (c : Rat) (g : G) (e : Nat) : (scaleG c g).isFlat e = g.isFlat e := by
  simp only [G.isFlat, scaleG_layerOf, scaleG_edge_src, scaleG_edge_dst]
theorem scaleG_crossesE (c : Rat) (g : G) (e f : Nat) : crossesE (scaleG c g) e f = crossesE g e f := by
  simp only [crossesE, scaleG_layerOf, scaleG_edge_src, scaleG_edge_dst, (scaleG_node_top c g _).2.2.2.1]

theorem scaleG_crossesE' (c : Rat) (g : G) (e : Nat) : crossesE (scaleG c g) e = crossesE g e :=
  funext (scaleG_crossesE c g e)

theorem scaleG_pick (c : Rat) (g : G) (nd : Node) : ∀ (k : Nat) (e : Option Nat) (i : Nat),
    setColor.pick (scaleG c g) nd k e i = setColor.pick g nd k e i
  | 0, _, _ => rfl
  | k + 1, e, i => by
    cases e with
    | none =>
      simp only [setColor.pick]
      cases nd.ins[i]? with
      | none => rfl
      | some y => exact scaleG_pick c g nd k _ _
    | some x =>
      simp only [setColor.pick, scaleG_selfLoops, scaleG_isFlat]
      split
      · cases nd.ins[i]? with
        | none => rfl
        | some y => exact scaleG_pick c g nd k _ _
      · rfl

/-! ### block building -/

/-- `setColor` on the scaled state: the same blocks, the width multiplied by c -/
theorem setColor_scale (c : Rat) (hc : 0 < c) (g : G) : ∀ (fuel : Nat) (s : SCSt) (n : Nat),
    setColor (scaleG c g) fuel s n = (setColor g fuel s n).map fun r => (r.1, r.2.1, c * r.2.2)
  | 0, _, _ => rfl
  | fuel + 1, s, n => by
    have ht := scaleG_node_top c g n
    unfold setColor
    simp only [ht.1, ht.2.2.1, scaleG_node_w, scaleG_other, (scaleG_node_top c g _).2.2.2.2, scaleG_crossesE']
    split
    · rfl
    · rw [show setColor.pick (scaleG c g) ((scaleG c g).node n) = setColor.pick g (g.node n) from by
        funext k e i
        rw [scaleG_pick]
        -- `pick` reads only the in-list of the node
        have : ∀ (k : Nat) (e : Option Nat) (i : Nat),
            setColor.pick g ((scaleG c g).node n) k e i = setColor.pick g (g.node n) k e i := by
          intro k
          induction k with
          | zero => intro e i; rfl
          | succ k ih =>
            intro e i
            cases e with
            | none =>
              simp only [setColor.pick, ht.1]
              cases (g.node n).ins[i]? with
              | none => rfl
              | some y => exact ih _ _
            | some x =>
              simp only [setColor.pick, ht.1]
              split
              · cases (g.node n).ins[i]? with
                | none => rfl
                | some y => exact ih _ _
              · rfl
        exact this k e i]
      split
      · rfl
      · split
        · rfl
        · split
          · rfl
          · simp only [bind, Except.bind]
            rw [setColor_scale c hc g fuel]
            cases setColor g fuel _ _ with
            | error e => rfl
            | ok r =>
              simp only [Except.map, pure, Except.pure, maxRat_scale _ _ _ hc]

/-! ### arrays of coordinates -/

theorem getD_map_scale (c : Rat) (a : Array Rat) (i : Nat) : (a.map (c * ·)).getD i 0 = c * a.getD i 0 := by
  simp only [Array.getD_eq_getD_getElem?, Array.getElem?_map]
  cases a[i]? with
  | none => simp only [Option.map_none, Option.getD_none]; grind
  | some v => rfl

theorem set_map_scale (c : Rat) (a : Array Rat) (i : Nat) (v : Rat) :
    (a.map (c * ·)).setIfInBounds i (c * v) = (a.setIfInBounds i v).map (c * ·) := by
  rw [Array.map_setIfInBounds]

theorem scStep_scale (c : Rat) (hc : 0 < c) (g : G) (s : SCSt) (bw : Array Rat) (k : Nat) :
    scStep (scaleG c g) (s, bw.map (c * ·)) k = (scStep g (s, bw) k).map fun r => (r.1, r.2.map (c * ·)) := by
  unfold scStep
  simp only [bind, Except.bind, scaleG_lsize, setColor_scale c hc]
  cases setColor g (g.layers.size + 2) s k with
  | error e => rfl
  | ok r =>
    simp only [Except.map, pure, Except.pure, getD_map_scale, maxRat_scale _ _ _ hc, set_map_scale]

theorem foldlM_scStep_scale (c : Rat) (hc : 0 < c) (g : G) : ∀ (l : List Nat) (s : SCSt) (bw : Array Rat),
    l.foldlM (scStep (scaleG c g)) (s, bw.map (c * ·)) = (l.foldlM (scStep g) (s, bw)).map fun r => (r.1, r.2.map (c * ·))
  | [], _, _ => rfl
  | k :: l, s, bw => by
    simp only [List.foldlM_cons, bind, Except.bind, scStep_scale c hc]
    cases scStep g (s, bw) k with
    | error e => rfl
    | ok r =>
      obtain ⟨s', bw'⟩ := r
      simp only [Except.map]
      exact foldlM_scStep_scale c hc g l s' bw'

theorem scOrder_scale (c : Rat) (g : G) : scOrder (scaleG c g) = scOrder g := by
  simp only [scOrder, List.flatMap_def, List.map_reverse]
  rw [scaleG_layers_nodes]

/-- the blocks do not depend on the unit; every block width is multiplied by c -/
theorem scBlocks_scale (c : Rat) (hc : 0 < c) (g : G) :
    scBlocks (scaleG c g) = (scBlocks g).map fun r => (r.1.map (c * ·), r.2) := by
  unfold scBlocks
  simp only [scaleG_nsize, scOrder_scale]
  have key := foldlM_scStep_scale c hc g (scOrder g)
    { colors := (List.range g.nodes.size).toArray, roots := (List.range g.nodes.size).toArray, priority := [] }
    (Array.replicate g.nodes.size 0)
  rw [Array.map_replicate, show c * (0 : Rat) = 0 by grind] at key
  simp only [bind, Except.bind, key]
  cases List.foldlM (scStep g) _ (scOrder g) with
  | error e => rfl
  | ok r => rfl

/-! ### initial coordinates -/

theorem foldl_set_scale (c : Rat) : ∀ (l : List (Nat × Rat)) (xc : Array Rat),
    l.foldl (fun (xc : Array Rat) p => xc.setIfInBounds p.1 (c * p.2)) (xc.map (c * ·)) =
    (l.foldl (fun (xc : Array Rat) p => xc.setIfInBounds p.1 p.2) xc).map (c * ·)
  | [], _ => rfl
  | p :: l, xc => by
    simp only [List.foldl_cons, set_map_scale]
    exact foldl_set_scale c l _

theorem scInitLayer_scale (c ns : Rat) (bw : Array Rat) (roots : Array Nat) (xc : Array Rat) (nodes : List Nat) :
    scInitLayer (c * ns) (bw.map (c * ·)) roots (xc.map (c * ·)) nodes = (scInitLayer ns bw roots xc nodes).map (c * ·) := by
  unfold scInitLayer
  have h1 : (nodes.map fun k => (bw.map (c * ·)).getD (roots.getD k k) 0) =
      (nodes.map fun k => bw.getD (roots.getD k k) 0).map (c * ·) := by
    simp only [List.map_map, Function.comp_def, getD_map_scale]
  have h0 : (0 : Rat) = c * 0 := by grind
  rw [h1]
  have h2 := placeFrom_scale c 0 ns (nodes.map fun k => bw.getD (roots.getD k k) 0)
  rw [← h0] at h2
  rw [h2, List.zip_map_right, List.foldl_map]
  exact foldl_set_scale c _ xc

theorem foldl_scInitLayer_scale (c ns : Rat) (bw : Array Rat) (roots : Array Nat) : ∀ (ls : List (List Nat)) (xc : Array Rat),
    ls.foldl (scInitLayer (c * ns) (bw.map (c * ·)) roots) (xc.map (c * ·)) =
    (ls.foldl (scInitLayer ns bw roots) xc).map (c * ·)
  | [], _ => rfl
  | l :: ls, xc => by
    simp only [List.foldl_cons, scInitLayer_scale]
    exact foldl_scInitLayer_scale c ns bw roots ls _

theorem replicate_zero_scale (c : Rat) (n : Nat) : Array.replicate n (0 : Rat) = (Array.replicate n (0 : Rat)).map (c * ·) := by
  rw [Array.map_replicate, show c * (0 : Rat) = 0 by grind]

theorem scInitX_scale (c ns : Rat) (g : G) (bw : Array Rat) (roots : Array Nat) :
    scInitX (c * ns) (scaleG c g) (bw.map (c * ·)) roots = (scInitX ns g bw roots).map (c * ·) := by
  unfold scInitX
  rw [scaleG_layers_nodes, scaleG_nsize]
  conv => lhs; rw [replicate_zero_scale c]
  exact foldl_scInitLayer_scale c ns bw roots _ _

theorem bmStep_scale (c : Rat) (hc : 0 < c) (roots : Array Nat) (xc bm : Array Rat) (k : Nat) :
    bmStep roots (xc.map (c * ·)) (bm.map (c * ·)) k = (bmStep roots xc bm k).map (c * ·) := by
  simp only [bmStep, getD_map_scale, maxRat_scale _ _ _ hc, set_map_scale]

theorem foldl_bmStep_scale (c : Rat) (hc : 0 < c) (roots : Array Nat) (xc : Array Rat) : ∀ (l : List Nat) (bm : Array Rat),
    l.foldl (bmStep roots (xc.map (c * ·))) (bm.map (c * ·)) = (l.foldl (bmStep roots xc) bm).map (c * ·)
  | [], _ => rfl
  | k :: l, bm => by
    simp only [List.foldl_cons, bmStep_scale c hc]
    exact foldl_bmStep_scale c hc roots xc l _

theorem scKeys_scale (c : Rat) (g : G) : scKeys (scaleG c g) = scKeys g := by
  unfold scKeys
  have h : ∀ k, (scaleG c g).layers.toList.any (·.nodes.contains k) = g.layers.toList.any (·.nodes.contains k) := by
    intro k
    have := congrArg (fun l => l.any (·.contains k)) (scaleG_layers_nodes c g)
    simpa only [List.any_map, Function.comp_def] using this
  simp only [G.nodeIds, scaleG_nsize, h]

/-- a `placeBlock` state, multiplied by c -/
def scalePB (c : Rat) (s : PBSt) : PBSt := { xcoord := s.xcoord.map (c * ·), blockmax := s.blockmax.map (c * ·) }

theorem scInit_scale (c ns : Rat) (hc : 0 < c) (g : G) (bw : Array Rat) (roots : Array Nat) :
    scInit (c * ns) (scaleG c g) (bw.map (c * ·)) roots = scalePB c (scInit ns g bw roots) := by
  unfold scInit scalePB
  simp only [scInitX_scale, scKeys_scale, scaleG_nsize]
  congr 1
  conv => lhs; rw [replicate_zero_scale c]
  exact foldl_bmStep_scale c hc roots _ _ _

/-! ### the fixpoint iteration -/

theorem pbStep_scale (c sp : Rat) (hc : 0 < c) (bwOf : Nat → Rat) (root : Nat → Nat) (acc : PBSt × Bool) (p : Nat × Nat) :
    pbStep (c * sp) (fun n => c * bwOf n) root (scalePB c acc.1, acc.2) p =
    (scalePB c (pbStep sp bwOf root acc p).1, (pbStep sp bwOf root acc p).2) := by
  unfold pbStep
  simp only [scalePB, getD_map_scale]
  have hl : c * acc.1.xcoord.getD p.1 0 + c * bwOf p.1 + c * sp = c * (acc.1.xcoord.getD p.1 0 + bwOf p.1 + sp) := by grind
  rw [hl]
  by_cases hlt : acc.1.xcoord.getD p.2 0 < acc.1.xcoord.getD p.1 0 + bwOf p.1 + sp
  · rw [if_pos hlt, if_pos ((lt_scale _ _ _ hc).2 hlt)]
    simp only [maxRat_scale _ _ _ hc, set_map_scale]
  · rw [if_neg hlt, if_neg (fun h => hlt ((lt_scale _ _ _ hc).1 h))]

theorem foldl_pbStep_scale (c sp : Rat) (hc : 0 < c) (bwOf : Nat → Rat) (root : Nat → Nat) :
    ∀ (l : List (Nat × Nat)) (acc : PBSt × Bool),
    l.foldl (pbStep (c * sp) (fun n => c * bwOf n) root) (scalePB c acc.1, acc.2) =
    (scalePB c (l.foldl (pbStep sp bwOf root) acc).1, (l.foldl (pbStep sp bwOf root) acc).2)
  | [], _ => rfl
  | p :: l, acc => by
    simp only [List.foldl_cons, pbStep_scale c sp hc]
    exact foldl_pbStep_scale c sp hc bwOf root l _

theorem foldl_map_commute {α : Type} (c : Rat) (F F' : Array Rat → α → Array Rat)
    (h : ∀ xc a, F' (xc.map (c * ·)) a = (F xc a).map (c * ·)) : ∀ (l : List α) (xc : Array Rat),
    l.foldl F' (xc.map (c * ·)) = (l.foldl F xc).map (c * ·)
  | [], _ => rfl
  | a :: l, xc => by
    simp only [List.foldl_cons, h]
    exact foldl_map_commute c F F' h l _

theorem centre_fold_scale (c : Rat) (hc : 0 < c) (g : G) (bwOf : Nat → Rat) (root : Nat → Nat) (bm : Array Rat)
    (l : List Nat) (xc : Array Rat) :
    l.foldl (fun (xc : Array Rat) n =>
      let x := (bm.map (c * ·)).getD (root n) 0
      xc.setIfInBounds n (maxRat x (x + (c * bwOf n - ((scaleG c g).node n).w) / 2))) (xc.map (c * ·)) =
    (l.foldl (fun (xc : Array Rat) n =>
      let x := bm.getD (root n) 0
      xc.setIfInBounds n (maxRat x (x + (bwOf n - (g.node n).w) / 2))) xc).map (c * ·) := by
  apply foldl_map_commute
  intro xc n
  simp only [getD_map_scale, scaleG_node_w]
  have h : c * bm.getD (root n) 0 + (c * bwOf n - c * (g.node n).w) / 2 =
      c * (bm.getD (root n) 0 + (bwOf n - (g.node n).w) / 2) := by
    rw [Rat.div_def, Rat.div_def]; grind
  rw [h, maxRat_scale _ _ _ hc, set_map_scale]

theorem centreBlocks_scale (c : Rat) (hc : 0 < c) (g : G) (bwOf : Nat → Rat) (root : Nat → Nat) (s : PBSt) :
    centreBlocks (scaleG c g) (fun n => c * bwOf n) root (scalePB c s) = scalePB c (centreBlocks g bwOf root s) := by
  unfold centreBlocks scalePB
  simp only [G.nodeIds, scaleG_nsize]
  congr 1
  exact centre_fold_scale c hc g bwOf root s.blockmax _ s.xcoord

theorem placeBlockRound_scale (c sp : Rat) (hc : 0 < c) (g : G) (lmax : Nat) (bw : Array Rat) (roots : Array Nat) (s : PBSt) :
    placeBlockRound (scaleG c g) lmax (c * sp) (bw.map (c * ·)) roots (scalePB c s) =
    (scalePB c (placeBlockRound g lmax sp bw roots s).1, (placeBlockRound g lmax sp bw roots s).2) := by
  unfold placeBlockRound
  simp only [getD_map_scale]
  rw [scaleG_layers_nodes, centreBlocks_scale c hc]
  exact foldl_pbStep_scale c sp hc _ _ _ (centreBlocks g _ _ s, false)

theorem placeBlock_scale (c sp : Rat) (hc : 0 < c) (g : G) (lmax : Nat) (bw : Array Rat) (roots : Array Nat) :
    ∀ (fuel : Nat) (s : PBSt),
    placeBlock (scaleG c g) lmax (c * sp) (bw.map (c * ·)) roots fuel (scalePB c s) =
    (placeBlock g lmax sp bw roots fuel s).map fun r => (scalePB c r.1, r.2)
  | 0, _ => rfl
  | fuel + 1, s => by
    unfold placeBlock
    simp only [placeBlockRound_scale c sp hc]
    split
    · simp only [bind, Except.bind, placeBlock_scale c sp hc g lmax bw roots fuel]
      cases placeBlock g lmax sp bw roots fuel _ with
      | error e => rfl
      | ok r => rfl
    · rfl

theorem scLmax_scale (c : Rat) (g : G) : scLmax (scaleG c g) = scLmax g := by
  unfold scLmax
  have := congrArg (fun l => l.foldl (fun m (ns : List Nat) => max m ns.length) 0) (scaleG_layers_nodes c g)
  simpa only [List.foldl_map] using this

theorem placeBlockFuel_scale (c : Rat) (g : G) : placeBlockFuel (scaleG c g) = placeBlockFuel g := by
  simp only [placeBlockFuel, scaleG_nsize]

/-- **SinkColoring is unit independent**: on the state with every node size multiplied by c > 0 and with NodeSpacing c·ns
    the positioner computes c times the coordinates it computes on the original state, in the same number of rounds
    (and fails exactly when it fails there) -/
theorem scCoords_scale (c ns : Rat) (hc : 0 < c) (g : G) :
    scCoords (c * ns) (scaleG c g) = (scCoords ns g).map fun r => (r.1.map (c * ·), r.2) := by
  unfold scCoords
  simp only [scBlocks_scale c hc, bind, Except.bind]
  cases scBlocks g with
  | error e => rfl
  | ok r =>
    obtain ⟨bw, roots⟩ := r
    simp only [Except.map, scLmax_scale, placeBlockFuel_scale, scInit_scale c ns hc, placeBlock_scale c ns hc]
    cases placeBlock g (scLmax g) ns bw roots (placeBlockFuel g) (scInit ns g bw roots) with
    | error e => rfl
    | ok r2 => rfl

/-- … and so does what is written to the nodes of every layer -/
theorem scPlan_scale (c : Rat) (g : G) (xc : Array Rat) :
    scPlan (scaleG c g) (xc.map (c * ·)) = (scPlan g xc).map fun p => (p.1, p.2.map (c * ·)) := by
  unfold scPlan
  simp only [scaleG, List.map_map, Function.comp_def, Array.toList_map, getD_map_scale]

end Autog
