/-! Spike (C03/C01, phase2 initLayers): Kahn-style initial layering. Small-step machine, exact bookkeeping
    "unseen[x] = number of remaining edges into x", and the theorem: every processed edge is feasible at the
    end (layer(target) ≥ layer(source) + delta). Core-only. -/


namespace Autog.NsInitLayersKahn

abbrev OutE := Nat × Int                          -- (target, Delta)

structure Cfg where
  queue  : List Nat                                -- `sources`
  cur    : Option (Nat × List OutE)                -- node being processed, out-edges still to do
  y      : Nat → Int                               -- n.Layer
  unseen : Nat → Int                               -- unseenInEdges
  done   : List Nat                                -- fully processed nodes
  undone : List Nat                                -- nodes never dequeued so far (ghost)

def upd {β} (f : Nat → β) (k : Nat) (v : β) : Nat → β := fun x => if x = k then v else f x

def run (out : Nat → List OutE) : Nat → Cfg → Option Cfg
  | 0, _ => none
  | fuel+1, c =>
    match c.cur, c.queue with
    | none, [] => some c
    | none, n :: q => run out fuel { c with queue := q, cur := some (n, out n), undone := c.undone.erase n }
    | some (n, []), _ => run out fuel { c with cur := none, done := n :: c.done }
    | some (n, (m, d) :: rest), q =>
      let y' := upd c.y m (max (c.y m) (c.y n + d))
      let u' := upd c.unseen m (c.unseen m - 1)
      run out fuel { c with cur := some (n, rest), y := y', unseen := u',
                            queue := if u' m = 0 then q ++ [m] else q }

/-- number of edges into x in a list of out-edges -/
def tc (l : List OutE) (x : Nat) : Int := (l.countP (fun p => p.1 == x) : Nat)

def sumL : List Int → Int
  | [] => 0
  | a :: l => a + sumL l

/-- remaining edges into x: rest of the current node + everything of the undone nodes -/
def remaining (out : Nat → List OutE) (c : Cfg) (x : Nat) : Int :=
  (match c.cur with | none => 0 | some (_, rest) => tc rest x) + sumL (c.undone.map (fun u => tc (out u) x))

theorem tc_cons (p : OutE) (l : List OutE) (x : Nat) :
    tc (p :: l) x = tc l x + (if p.1 = x then 1 else 0) := by
  unfold tc; simp only [List.countP_cons, beq_iff_eq]; split <;> simp

theorem tc_nonneg (l : List OutE) (x : Nat) : 0 ≤ tc l x := by unfold tc; omega

theorem sumL_nonneg (l : List Int) (h : ∀ a ∈ l, 0 ≤ a) : 0 ≤ sumL l := by
  induction l with
  | nil => simp [sumL]
  | cons a l ih =>
    have := h a (List.mem_cons_self ..)
    have := ih (fun b hb => h b (List.mem_cons_of_mem _ hb))
    simp only [sumL]; omega

/-- removing one present node from `undone` takes its edges out of the sum -/
theorem sum_erase (f : Nat → Int) : ∀ (l : List Nat) (n : Nat), n ∈ l →
    sumL (l.map f) = f n + sumL ((l.erase n).map f) := by
  intro l
  induction l with
  | nil => intro n h; cases h
  | cons a l ih =>
    intro n hn
    by_cases e : a = n
    · subst e
      simp [sumL, List.erase_cons_head]
    · have hn' : n ∈ l := by
        rcases List.mem_cons.1 hn with h | h
        · exact absurd h.symm e
        · exact h
      have hne : (a == n) = false := by simp [e]
      simp only [List.map_cons, sumL, List.erase_cons, hne, Bool.false_eq_true, if_false]
      rw [ih n hn']
      omega

structure KInv (out : Nat → List OutE) (ns : List Nat) (c : Cfg) : Prop where
  /-- bookkeeping is exact -/
  exact  : ∀ x, c.unseen x = remaining out c x
  /-- processed edges of finished nodes are feasible -/
  fdone  : ∀ u ∈ c.done, ∀ p ∈ out u, c.y u + p.2 ≤ c.y p.1
  /-- and so is the processed prefix of the current node -/
  fcur   : ∀ n rest, c.cur = some (n, rest) → ∃ pre, out n = pre ++ rest ∧ ∀ p ∈ pre, c.y n + p.2 ≤ c.y p.1
  /-- whoever has been enqueued has no remaining in-edge -/
  zeroQ  : ∀ x ∈ c.queue, c.unseen x = 0
  zeroD  : ∀ x ∈ c.done, c.unseen x = 0
  zeroC  : ∀ n rest, c.cur = some (n, rest) → c.unseen n = 0
  /-- queued nodes are still undone, and queued once -/
  qund   : ∀ x ∈ c.queue, x ∈ c.undone
  qnd    : c.queue.Nodup
  /-- every node is undone, done, or the current one -/
  part   : ∀ x ∈ ns, x ∈ c.undone ∨ x ∈ c.done ∨ ∃ rest, c.cur = some (x, rest)
  /-- an undone node without remaining in-edge is waiting in the queue -/
  waitQ  : ∀ x ∈ c.undone, c.unseen x = 0 → x ∈ c.queue
  und    : c.undone.Nodup

theorem upd_same {β} (f : Nat → β) (k : Nat) (v : β) : upd f k v k = v := by simp [upd]
theorem upd_other {β} (f : Nat → β) (k : Nat) (v : β) {x : Nat} (h : x ≠ k) : upd f k v x = f x := by simp [upd, h]

theorem run_inv {out : Nat → List OutE} {ns : List Nat} (htgt : ∀ u, ∀ p ∈ out u, p.1 ∈ ns) :
    ∀ (fuel : Nat) (c c' : Cfg), KInv out ns c → run out fuel c = some c' →
      KInv out ns c' ∧ c'.cur = none ∧ c'.queue = [] := by
  intro fuel
  induction fuel with
  | zero => intro c c' _ h; simp [run] at h
  | succ fuel ih =>
    intro c c' hI h
    obtain ⟨queue, cur, y, unseen, done, undone⟩ := c
    obtain ⟨hex, hfd, hfc, hzq, hzd, hzc, hqu, hqn, hpart, hwq, hund⟩ := hI
    dsimp only at hex hfd hfc hzq hzd hzc hqu hqn hpart hwq hund
    unfold run at h
    match cur, queue, hex, hfc, hzq, hzc, hqu, hqn, hpart, hwq, h with
    | none, [], hex, hfc, hzq, hzc, hqu, hqn, hpart, hwq, h =>
      simp only [Option.some.injEq] at h
      subst h
      exact ⟨⟨hex, hfd, hfc, hzq, hzd, hzc, hqu, hqn, hpart, hwq, hund⟩, rfl, rfl⟩
    | none, n :: q, hex, hfc, hzq, hzc, hqu, hqn, hpart, hwq, h =>
      simp only at h
      have hn_und : n ∈ undone := hqu n (List.mem_cons_self ..)
      have hn_q : n ∉ q := (List.nodup_cons.1 hqn).1
      refine ih ⟨q, some (n, out n), y, unseen, done, undone.erase n⟩ c' ⟨?_, hfd, ?_, ?_, hzd, ?_, ?_, (List.nodup_cons.1 hqn).2, ?_, ?wq, hund.erase n⟩ h <;> try dsimp only
      case wq =>
        intro x hx hz
        have hx' : x ∈ undone := List.mem_of_mem_erase hx
        have hxn : x ≠ n := fun e => by rw [e] at hx; exact (List.Nodup.mem_erase_iff hund).1 hx |>.1 rfl
        rcases List.mem_cons.1 (hwq x hx' hz) with h1 | h1
        · exact absurd h1 hxn
        · exact h1
      · intro x
        have := hex x
        simp only [remaining] at this ⊢
        rw [this, sum_erase (fun u => tc (out u) x) undone n hn_und]; omega
      · intro n' rest' he
        simp only [Option.some.injEq, Prod.mk.injEq] at he
        obtain ⟨rfl, rfl⟩ := he
        exact ⟨[], rfl, fun _ h => by cases h⟩
      · intro x hx; exact hzq x (List.mem_cons_of_mem _ hx)
      · intro n' rest' he
        simp only [Option.some.injEq, Prod.mk.injEq] at he
        rw [← he.1]
        exact hzq n (List.mem_cons_self ..)
      · intro x hx
        have hne : x ≠ n := fun e => hn_q (e ▸ hx)
        exact (List.mem_erase_of_ne hne).2 (hqu x (List.mem_cons_of_mem _ hx))
      · intro x hx
        by_cases e : x = n
        · subst e; exact .inr (.inr ⟨out x, rfl⟩)
        · rcases hpart x hx with h1 | h1 | ⟨r, h1⟩
          · exact .inl ((List.mem_erase_of_ne e).2 h1)
          · exact .inr (.inl h1)
          · cases h1
    | some (n, []), q, hex, hfc, hzq, hzc, hqu, hqn, hpart, hwq, h =>
      simp only at h
      obtain ⟨pre, hp, hpre⟩ := hfc n [] rfl
      simp only [List.append_nil] at hp
      refine ih ⟨q, none, y, unseen, n :: done, undone⟩ c' ⟨?_, ?_, ?_, hzq, ?_, ?_, hqu, hqn, ?_, hwq, hund⟩ h <;> try dsimp only
      · intro x
        have := hex x
        simp only [remaining, tc, List.countP_nil] at this ⊢
        omega
      · intro u hu p hp'
        rcases List.mem_cons.1 hu with rfl | hu
        · exact hpre p (hp ▸ hp')
        · exact hfd u hu p hp'
      · intro n' rest' he; cases he
      · intro x hx
        rcases List.mem_cons.1 hx with rfl | hx
        · exact hzc x [] rfl
        · exact hzd x hx
      · intro n' rest' he; cases he
      · intro x hx
        rcases hpart x hx with h1 | h1 | ⟨r, h1⟩
        · exact .inl h1
        · exact .inr (.inl (List.mem_cons_of_mem _ h1))
        · simp only [Option.some.injEq, Prod.mk.injEq] at h1
          exact .inr (.inl (h1.1 ▸ List.mem_cons_self ..))
    | some (n, (m, d) :: rest), q, hex, hfc, hzq, hzc, hqu, hqn, hpart, hwq, h =>
      simp only at h
      obtain ⟨pre, hp, hpre⟩ := hfc n ((m, d) :: rest) rfl
      -- m still has a remaining in-edge, hence was never enqueued
      have hsum : 0 ≤ sumL (undone.map (fun u => tc (out u) m)) :=
        sumL_nonneg _ (by intro a ha; obtain ⟨u, _, rfl⟩ := List.mem_map.1 ha; exact tc_nonneg _ _)
      have hm1 : 1 ≤ unseen m := by
        have := hex m
        simp only [remaining, tc_cons, if_true] at this
        have := tc_nonneg rest m
        omega
      have hm_q : m ∉ q := fun hh => by have := hzq m hh; omega
      have hm_d : m ∉ done := fun hh => by have := hzd m hh; omega
      have hmn : m ≠ n := fun e => by have := hzc n _ rfl; rw [e] at hm1; omega
      have hm_und : m ∈ undone := by
        have : m ∈ ns := htgt n (m, d) (by rw [hp]; simp)
        rcases hpart m this with h1 | h1 | ⟨r, h1⟩
        · exact h1
        · exact absurd h1 hm_d
        · simp only [Option.some.injEq, Prod.mk.injEq] at h1
          exact absurd h1.1.symm hmn
      have hy_ge : ∀ x, y x ≤ upd y m (max (y m) (y n + d)) x := by
        intro x
        by_cases e : x = m
        · subst e; rw [upd_same]; omega
        · rw [upd_other _ _ _ e]; omega
      refine ih ⟨if upd unseen m (unseen m - 1) m = 0 then q ++ [m] else q, some (n, rest), upd y m (max (y m) (y n + d)), upd unseen m (unseen m - 1), done, undone⟩ c' ⟨?_, ?_, ?_, ?_, ?_, ?_, ?_, ?_, ?_, ?wq, hund⟩ h <;> try dsimp only
      case wq =>
        intro x hx hz
        by_cases e : x = m
        · subst e
          simp only [hz, if_true]
          exact List.mem_append_right _ (by simp)
        · rw [upd_other _ _ _ e] at hz
          have := hwq x hx hz
          split
          · exact List.mem_append_left _ this
          · exact this
      · -- exact
        intro x
        have := hex x
        simp only [remaining, tc_cons] at this ⊢
        by_cases e : x = m
        · subst e; rw [upd_same]; simp only [if_true] at this; omega
        · rw [upd_other _ _ _ e]
          have : ¬ (m = x) := fun h => e h.symm
          simp only [this, if_false] at *
          omega
      · -- fdone
        intro u hu p hp'
        have hum : u ≠ m := fun e => hm_d (e ▸ hu)
        have := hfd u hu p hp'
        have := hy_ge p.1
        rw [upd_other _ _ _ hum]; omega
      · -- fcur
        intro n' rest' he
        simp only [Option.some.injEq, Prod.mk.injEq] at he
        obtain ⟨rfl, rfl⟩ := he
        refine ⟨pre ++ [(m, d)], by simp [hp], fun p hp' => ?_⟩
        rw [upd_other _ _ _ (Ne.symm hmn)]
        rcases List.mem_append.1 hp' with h1 | h1
        · have := hpre p h1; have := hy_ge p.1; omega
        · have : p = (m, d) := by simpa using h1
          subst this
          simp only [upd_same]; omega
      · -- zeroQ
        intro x hx
        by_cases hz : upd unseen m (unseen m - 1) m = 0
        · simp only [hz, if_true] at hx
          rcases List.mem_append.1 hx with h1 | h1
          · have : x ≠ m := fun e => hm_q (e ▸ h1)
            rw [upd_other _ _ _ this]; exact hzq x h1
          · have : x = m := by simpa using h1
            subst this; exact hz
        · simp only [hz, if_false] at hx
          have : x ≠ m := fun e => hm_q (e ▸ hx)
          rw [upd_other _ _ _ this]; exact hzq x hx
      · -- zeroD
        intro x hx
        have : x ≠ m := fun e => hm_d (e ▸ hx)
        rw [upd_other _ _ _ this]; exact hzd x hx
      · -- zeroC
        intro n' rest' he
        simp only [Option.some.injEq, Prod.mk.injEq] at he
        rw [← he.1, upd_other _ _ _ (Ne.symm hmn)]; exact hzc n _ rfl
      · -- qund
        intro x hx
        by_cases hz : upd unseen m (unseen m - 1) m = 0
        · simp only [hz, if_true] at hx
          rcases List.mem_append.1 hx with h1 | h1
          · exact hqu x h1
          · have : x = m := by simpa using h1
            subst this; exact hm_und
        · simp only [hz, if_false] at hx; exact hqu x hx
      · -- qnd
        by_cases hz : upd unseen m (unseen m - 1) m = 0
        · simp only [hz, if_true]
          refine List.nodup_append.2 ⟨hqn, by simp, ?_⟩
          intro a ha b hb
          have : b = m := by simpa using hb
          subst this
          exact fun e => hm_q (e ▸ ha)
        · simp only [hz, if_false]; exact hqn
      · -- part
        intro x hx
        rcases hpart x hx with h1 | h1 | ⟨r, h1⟩
        · exact .inl h1
        · exact .inr (.inl h1)
        · simp only [Option.some.injEq, Prod.mk.injEq] at h1
          exact .inr (.inr ⟨rest, by rw [← h1.1]⟩)


/-- C03 (NS init): at the end every out-edge of every processed node is feasible -/
theorem init_feasible {out : Nat → List OutE} {ns : List Nat} (htgt : ∀ u, ∀ p ∈ out u, p.1 ∈ ns)
    (fuel : Nat) (c c' : Cfg) (hI : KInv out ns c) (h : run out fuel c = some c') :
    ∀ u ∈ c'.done, ∀ p ∈ out u, c'.y u + p.2 ≤ c'.y p.1 :=
  (run_inv htgt fuel c c' hI h).1.fdone

/-! ### on a DAG nothing is left over -/

/-- a positive sum has a positive term -/
theorem exists_pos_of_sumL_pos : ∀ (l : List Int), (∀ a ∈ l, 0 ≤ a) → 0 < sumL l → ∃ a ∈ l, 0 < a
  | [], _, h => by simp [sumL] at h
  | a :: l, hnn, h => by
    by_cases ha : 0 < a
    · exact ⟨a, List.mem_cons_self .., ha⟩
    · have h0 := hnn a (List.mem_cons_self ..)
      have : 0 < sumL l := by simp only [sumL] at h; omega
      obtain ⟨b, hb, hb'⟩ := exists_pos_of_sumL_pos l (fun b hb => hnn b (List.mem_cons_of_mem _ hb)) this
      exact ⟨b, List.mem_cons_of_mem _ hb, hb'⟩

theorem tc_pos_mem {l : List OutE} {x : Nat} (h : 0 < tc l x) : ∃ p ∈ l, p.1 = x := by
  unfold tc at h
  have : 0 < l.countP (fun p => p.1 == x) := by omega
  obtain ⟨p, hp, hpx⟩ := List.countP_pos_iff.1 this
  exact ⟨p, hp, by simpa using hpx⟩

/-- every non-empty list has an element of minimal rank -/
theorem exists_min (rank : Nat → Nat) : ∀ (l : List Nat), l ≠ [] → ∃ x ∈ l, ∀ y ∈ l, rank x ≤ rank y
  | [], h => absurd rfl h
  | [a], _ => by
    refine ⟨a, by simp, fun y hy => ?_⟩
    have : y = a := by simpa using hy
    subst this; exact Nat.le_refl _
  | a :: b :: l, _ => by
    obtain ⟨x, hx, hmin⟩ := exists_min rank (b :: l) (by simp)
    by_cases h : rank a ≤ rank x
    · refine ⟨a, by simp, fun y hy => ?_⟩
      rcases List.mem_cons.1 hy with rfl | hy
      · exact Nat.le_refl _
      · exact Nat.le_trans h (hmin y hy)
    · refine ⟨x, List.mem_cons_of_mem _ hx, fun y hy => ?_⟩
      rcases List.mem_cons.1 hy with rfl | hy
      · omega
      · exact hmin y hy

/-- C01/C03 (NS init): with an acyclicity witness, when the queue runs dry every node has been processed -/
theorem all_processed {out : Nat → List OutE} {ns : List Nat} (htgt : ∀ u, ∀ p ∈ out u, p.1 ∈ ns)
    (rank : Nat → Nat) (hrank : ∀ u, ∀ p ∈ out u, rank u < rank p.1)
    (fuel : Nat) (c c' : Cfg) (hI : KInv out ns c) (h : run out fuel c = some c') :
    c'.undone = [] := by
  obtain ⟨hI', hcur, hq⟩ := run_inv htgt fuel c c' hI h
  apply Classical.byContradiction
  intro hne
  obtain ⟨x, hx, hmin⟩ := exists_min rank c'.undone hne
  -- x is not waiting in the (empty) queue, so it still has an in-edge from an undone node
  have hpos : 0 < c'.unseen x := by
    have h1 := hI'.exact x
    have h2 : 0 ≤ remaining out c' x := by
      unfold remaining; rw [hcur]
      have := sumL_nonneg (c'.undone.map (fun u => tc (out u) x))
        (by intro a ha; obtain ⟨u, _, rfl⟩ := List.mem_map.1 ha; exact tc_nonneg _ _)
      simp only; omega
    have h3 : c'.unseen x ≠ 0 := fun h0 => by
      have := hI'.waitQ x hx h0
      rw [hq] at this; cases this
    omega
  have hsum : 0 < sumL (c'.undone.map (fun u => tc (out u) x)) := by
    have h1 := hI'.exact x
    unfold remaining at h1; rw [hcur] at h1
    simp only at h1; omega
  obtain ⟨a, ha, hapos⟩ := exists_pos_of_sumL_pos _
    (by intro a ha; obtain ⟨u, _, rfl⟩ := List.mem_map.1 ha; exact tc_nonneg _ _) hsum
  obtain ⟨u, hu, rfl⟩ := List.mem_map.1 ha
  obtain ⟨p, hp, hpx⟩ := tc_pos_mem hapos
  have := hrank u p hp
  have := hmin u hu
  rw [hpx] at *
  omega

end Autog.NsInitLayersKahn
