/-! Spike (C08): model of graph/source_edgeslice.go `Populate` (intern ids by first appearance) and
    renaming invariance: for every injective ρ the interned graph of ρ(G) is the interned graph of G,
    with the id table mapped by ρ. Core-only, generic in the id type. -/


namespace Autog.PopulateRename

variable {α β : Type} [DecidableEq α] [DecidableEq β]

/-- position of `s` in the table, or none -/
def idx : List α → α → Option Nat
  | [], _ => none
  | a :: l, s => if a = s then some 0 else (idx l s).map (· + 1)

/-- `nodeMap[id]` lookup-or-create; returns the table and the node number -/
def intern (tbl : List α) (s : α) : List α × Nat :=
  match idx tbl s with
  | some i => (tbl, i)
  | none => (tbl ++ [s], tbl.length)

structure PG (α : Type) where
  ids : List α                 -- nodeList, first-appearance order
  edges : List (Nat × Nat)     -- edgeList, as node numbers
deriving Repr

def populateFrom (g : PG α) : List (α × α) → PG α
  | [] => g
  | (s, t) :: es =>
    let (tbl1, i) := intern g.ids s
    let (tbl2, j) := intern tbl1 t
    populateFrom ⟨tbl2, g.edges ++ [(i, j)]⟩ es

def populate (es : List (α × α)) : PG α := populateFrom ⟨[], []⟩ es

theorem idx_map (ρ : α → β) (hρ : ∀ a b, ρ a = ρ b → a = b) (tbl : List α) (s : α) :
    idx (tbl.map ρ) (ρ s) = idx tbl s := by
  induction tbl with
  | nil => rfl
  | cons a l ih =>
    simp only [List.map_cons, idx, ih]
    by_cases h : a = s
    · simp [h]
    · have : ρ a ≠ ρ s := fun e => h (hρ a s e)
      simp [h, this]

theorem intern_map (ρ : α → β) (hρ : ∀ a b, ρ a = ρ b → a = b) (tbl : List α) (s : α) :
    intern (tbl.map ρ) (ρ s) = ((intern tbl s).1.map ρ, (intern tbl s).2) := by
  unfold intern
  rw [idx_map ρ hρ]
  cases idx tbl s <;> simp

theorem populateFrom_map (ρ : α → β) (hρ : ∀ a b, ρ a = ρ b → a = b) (es : List (α × α)) :
    ∀ g : PG α, populateFrom ⟨g.ids.map ρ, g.edges⟩ (es.map (fun e => (ρ e.1, ρ e.2))) =
      ⟨(populateFrom g es).ids.map ρ, (populateFrom g es).edges⟩ := by
  induction es with
  | nil => intro g; rfl
  | cons e es ih =>
    intro g
    obtain ⟨s, t⟩ := e
    simp only [List.map_cons, populateFrom]
    rw [intern_map ρ hρ, intern_map ρ hρ]
    exact ih ⟨(intern (intern g.ids s).1 t).1, g.edges ++ [((intern g.ids s).2, (intern (intern g.ids s).1 t).2)]⟩

/-- C08 core: renaming the node ids by an injective map changes nothing but the id table -/
theorem populate_rename (ρ : α → β) (hρ : ∀ a b, ρ a = ρ b → a = b) (es : List (α × α)) :
    populate (es.map (fun e => (ρ e.1, ρ e.2))) = ⟨(populate es).ids.map ρ, (populate es).edges⟩ := by
  have := populateFrom_map ρ hρ es ⟨[], []⟩
  simpa [populate] using this

#eval populate [("b", "a"), ("a", "c"), ("b", "c"), ("c", "c")]

end Autog.PopulateRename
