import Autog.Lemmas.BreakFuel
/-! What `breakLongEdges` achieves (not only that it ends): on a state whose listed edges go at least one layer down (self-loops
    aside), the loop returns a PROPER layering — every listed edge that is not a self-loop spans exactly one layer, downward.
    Invariant of the index loop: the state stays well formed (`BreakWF`), every listed edge still goes down, and the edges at the
    positions already passed are short. Core-only. -/

namespace Autog

/-- every listed edge that is not a self-loop goes at least one layer down -/
def DownNL (g : G) : Prop := ∀ e ∈ g.elist, (g.edge e).src ≠ (g.edge e).dst → g.layerOf (g.edge e).src + 1 ≤ g.layerOf (g.edge e).dst

/-- the listed edges at positions below `i` span at most one layer -/
def ShortUpto (g : G) (i : Nat) : Prop := ∀ k, k < i → ∀ e, g.elist[k]? = some e → g.layerOf (g.edge e).dst - g.layerOf (g.edge e).src ≤ 1

/-- proper layering: every listed edge that is not a self-loop spans exactly one layer, downward -/
def Proper (g : G) : Prop := ∀ e ∈ g.elist, (g.edge e).src ≠ (g.edge e).dst → g.layerOf (g.edge e).dst = g.layerOf (g.edge e).src + 1

theorem breakEdge_keeps (g : G) (h : BreakWF g) (hd : DownNL g) (i e v : Nat) (hs : ShortUpto g i) (hi : g.elist[i]? = some e)
    (hlong : g.layerOf (g.edge e).dst - g.layerOf (g.edge e).src > 1) :
    DownNL (breakEdge g e v).1 ∧ ShortUpto (breakEdge g e v).1 (i + 1) := by
  have hem : e ∈ g.elist := List.mem_of_getElem? hi
  obtain ⟨hsrc, hdst⟩ := h.ends e hem
  have hedge : ∀ j, j ∈ g.elist →
      ((breakEdge g e v).1.edge j).src = (g.edge j).src ∧
      ((breakEdge g e v).1.edge j).dst = if e = j then g.nodes.size else (g.edge j).dst := by
    intro j hj
    rw [breakEdge_edge_old g e v j (h.inStore j hj)]
    split <;> simp
  have hold : ∀ j ∈ g.elist,
      (breakEdge g e v).1.layerOf ((breakEdge g e v).1.edge j).src = g.layerOf (g.edge j).src ∧
      (breakEdge g e v).1.layerOf ((breakEdge g e v).1.edge j).dst =
        if e = j then g.layerOf (g.edge e).src + 1 else g.layerOf (g.edge j).dst := by
    intro j hj
    obtain ⟨h1, h2⟩ := hedge j hj
    obtain ⟨hs', hd'⟩ := h.ends j hj
    rw [h1, h2, breakEdge_layerOf_old g e v _ hs']
    refine ⟨rfl, ?_⟩
    by_cases hej : e = j
    · simp only [hej, if_true]; rw [← hej]; exact breakEdge_layerOf_new g e v
    · simp only [hej, if_false]; exact breakEdge_layerOf_old g e v _ hd'
  constructor
  · intro j hj hne
    rw [breakEdge_elist] at hj
    rcases List.mem_append.1 hj with hj | hj
    · obtain ⟨l1, l2⟩ := hold j hj
      rw [l1, l2]
      by_cases hej : e = j
      · subst hej; simp only [if_true]; omega
      · simp only [hej, if_false]
        obtain ⟨h1, h2⟩ := hedge j hj
        rw [h1, h2] at hne
        simp only [hej, if_false] at hne
        exact hd j hj hne
    · simp only [List.mem_singleton] at hj; subst hj
      obtain ⟨h1, h2⟩ := breakEdge_edge_new g e v
      rw [h1, h2, breakEdge_layerOf_new, breakEdge_layerOf_old g e v _ hdst]
      omega
  · intro k hk j hkj
    have hlt : i < g.elist.length := by
      apply Classical.byContradiction; intro hn
      rw [List.getElem?_eq_none (by omega)] at hi; cases hi
    rw [breakEdge_elist] at hkj
    have hk' : k < g.elist.length := by omega
    rw [List.getElem?_append_left hk'] at hkj
    have hjm : j ∈ g.elist := List.mem_of_getElem? hkj
    obtain ⟨l1, l2⟩ := hold j hjm
    rw [l1, l2]
    by_cases hej : e = j
    · subst hej; simp only [if_true]; omega
    · simp only [hej, if_false]
      by_cases hki : k < i
      · exact hs k hki j hkj
      · have : k = i := by omega
        subst this
        rw [hi] at hkj
        exact absurd (Option.some.inj hkj) hej

/-- the loop, from any position: what it returns is well formed, goes down, and is short everywhere -/
theorem breakLongEdges_go_proper : ∀ (fuel i v : Nat) (g g' : G), BreakWF g → DownNL g → ShortUpto g i →
    breakLongEdges.go fuel i v g = .ok g' → BreakWF g' ∧ DownNL g' ∧ ShortUpto g' g'.elist.length
  | 0, _, _, _, _, _, _, _, hr => by unfold breakLongEdges.go at hr; cases hr
  | fuel + 1, i, v, g, g', h, hd, hs, hr => by
    unfold breakLongEdges.go at hr
    cases hi : g.elist[i]? with
    | none =>
      rw [hi] at hr
      simp only [pure, Except.pure, Except.ok.injEq] at hr
      subst hr
      have hge : g.elist.length ≤ i := by
        apply Classical.byContradiction; intro hn
        rw [List.getElem?_eq_getElem (by omega)] at hi; cases hi
      exact ⟨h, hd, fun k hk e hke => hs k (by omega) e hke⟩
    | some e =>
      rw [hi] at hr
      simp only at hr
      have hem : e ∈ g.elist := List.mem_of_getElem? hi
      by_cases hlong : g.layerOf (g.edge e).dst - g.layerOf (g.edge e).src > 1
      · rw [if_pos hlong] at hr
        obtain ⟨hwf', _⟩ := breakEdge_step g h i e v hi hlong
        obtain ⟨hd', hs'⟩ := breakEdge_keeps g h hd i e v hs hi hlong
        exact breakLongEdges_go_proper fuel (i + 1) (v + 1) _ g' hwf' hd' hs' hr
      · rw [if_neg hlong, if_neg (h.noUp e hem)] at hr
        refine breakLongEdges_go_proper fuel (i + 1) v g g' h hd ?_ hr
        intro k hk j hkj
        by_cases hki : k < i
        · exact hs k hki j hkj
        · have : k = i := by omega
          subst this
          rw [hi] at hkj
          have := Option.some.inj hkj
          subst this
          omega

/-- **`breakLongEdges` returns a proper layering** on every well-formed state whose listed edges go down -/
theorem breakLongEdges_proper (g g' : G) (h : BreakWF g) (hd : DownNL g) (hr : breakLongEdges g = .ok g') :
    BreakWF g' ∧ Proper g' := by
  unfold breakLongEdges at hr
  obtain ⟨hwf, hd', hs'⟩ := breakLongEdges_go_proper _ 0 1 g g' h hd (fun k hk => by omega) hr
  refine ⟨hwf, ?_⟩
  intro e he hne
  obtain ⟨k, hk, hke⟩ := List.getElem_of_mem he
  have h1 := hs' k hk e (by rw [List.getElem?_eq_getElem hk, hke])
  have h2 := hd' e he hne
  omega

end Autog
