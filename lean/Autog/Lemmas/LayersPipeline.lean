import Autog.Lemmas.StaticP4
import Autog.Lemmas.Layers
/-! `LayersWF` — every node sits in at most one layer list, at most once, and exists — holds for the state the composed model hands to
    phase 4, for every input: the layer list construction of phase 2 partitions the node numbers by layer, cutting a long edge appends
    a fresh helper node to one list, and the ordering model only reorders each list. So the hypothesis `LayersWF` of the positioner
    theorems (C03, C04, C12, C16) is discharged on the composed model. Core-only. -/

namespace Autog

def allLayerNodes (g : G) : List Nat := g.layers.toList.flatMap (·.nodes)

theorem nodup_flatMap_of_disjoint {β} (f : Nat → List β) : ∀ (l : List Nat), l.Nodup → (∀ i ∈ l, (f i).Nodup) →
    (∀ i ∈ l, ∀ j ∈ l, i ≠ j → ∀ x ∈ f i, x ∉ f j) → (l.flatMap f).Nodup
  | [], _, _, _ => List.nodup_nil
  | a :: l, hnd, hf, hd => by
    have hnd' := List.nodup_cons.1 hnd
    simp only [List.flatMap_cons]
    refine List.nodup_append.2 ⟨hf a (List.mem_cons_self ..),
      nodup_flatMap_of_disjoint f l hnd'.2 (fun i hi => hf i (List.mem_cons_of_mem _ hi))
        (fun i hi j hj => hd i (List.mem_cons_of_mem _ hi) j (List.mem_cons_of_mem _ hj)), ?_⟩
    intro x hx y hy hxy
    subst hxy
    obtain ⟨j, hj, hxj⟩ := List.mem_flatMap.1 hy
    exact hd a (List.mem_cons_self ..) j (List.mem_cons_of_mem _ hj) (fun e => hnd'.1 (e ▸ hj)) x hx hxj

/-- phase 2: the layer lists `buildLayers` makes partition the node numbers -/
theorem layersWF_buildLayers (g g' : G) (h : buildLayers g = .ok g') : LayersWF g' := by
  unfold buildLayers at h
  simp only [bind, Except.bind, pure, Except.pure] at h
  split at h
  · cases h
  · simp only [Except.ok.injEq] at h
    subst h
    constructor
    · simp only [List.toList_toArray, List.flatMap_map]
      apply nodup_flatMap_of_disjoint _ _ List.nodup_range
      · intro i _
        exact (show g.nodeIds.Nodup by simp [G.nodeIds, List.nodup_range]).filter _
      · intro i _ j _ hij x hx hxj
        have h1 := (List.mem_filter.1 hx).2
        have h2 := (List.mem_filter.1 hxj).2
        simp only [beq_iff_eq] at h1 h2
        rw [h1] at h2
        exact hij (by exact_mod_cast h2)
    · intro n hn
      simp only [List.toList_toArray, List.flatMap_map] at hn
      obtain ⟨i, _, hni⟩ := List.mem_flatMap.1 hn
      have := (List.mem_filter.1 hni).1
      simpa [G.nodeIds] using this

/-- appending one fresh node to one layer list -/
theorem nodup_modify_append (v : Nat) : ∀ (ls : List Layer) (i : Nat), (ls.flatMap (·.nodes)).Nodup → v ∉ ls.flatMap (·.nodes) →
    ((ls.modify i fun l => { l with nodes := l.nodes ++ [v] }).flatMap (·.nodes)).Nodup ∧
    ∀ x ∈ (ls.modify i fun l => { l with nodes := l.nodes ++ [v] }).flatMap (·.nodes), x = v ∨ x ∈ ls.flatMap (·.nodes)
  | [], i, h, _ => by simp
  | a :: ls, 0, h, hv => by
    simp only [List.modify_zero_cons, List.flatMap_cons] at *
    constructor
    · have hp : (a.nodes ++ [v] ++ ls.flatMap (·.nodes)).Perm (v :: (a.nodes ++ ls.flatMap (·.nodes))) := by
        rw [List.append_assoc]; exact List.perm_middle
      rw [hp.nodup_iff]
      exact List.nodup_cons.2 ⟨hv, h⟩
    · intro x hx
      simp only [List.mem_append, List.mem_singleton] at hx ⊢
      rcases hx with (h1 | h1) | h1
      · exact Or.inr (Or.inl h1)
      · exact Or.inl h1
      · exact Or.inr (Or.inr h1)
  | a :: ls, i + 1, h, hv => by
    simp only [List.modify_succ_cons, List.flatMap_cons] at *
    have hna := List.nodup_append.1 h
    have hva : v ∉ ls.flatMap (·.nodes) := fun hm => hv (List.mem_append.2 (Or.inr hm))
    obtain ⟨ih1, ih2⟩ := nodup_modify_append v ls i hna.2.1 hva
    constructor
    · refine List.nodup_append.2 ⟨hna.1, ih1, ?_⟩
      intro x hx y hy hxy
      subst hxy
      rcases ih2 x hy with rfl | h1
      · exact hv (List.mem_append.2 (Or.inl hx))
      · exact hna.2.2 x hx x h1 rfl
    · intro x hx
      rcases List.mem_append.1 hx with h1 | h1
      · exact Or.inr (List.mem_append.2 (Or.inl h1))
      · rcases ih2 x h1 with rfl | h2
        · exact Or.inl rfl
        · exact Or.inr (List.mem_append.2 (Or.inr h2))

theorem breakEdge_layers (g : G) (e v : Nat) :
    (breakEdge g e v).1.layers =
      g.layers.modify (g.layerOf (g.edge e).src + 1).toNat fun l => { l with nodes := l.nodes ++ [g.nodes.size] } := rfl

theorem layersWF_breakEdge (g : G) (e v : Nat) (h : LayersWF g) : LayersWF (breakEdge g e v).1 := by
  have hv : g.nodes.size ∉ g.layers.toList.flatMap (·.nodes) := fun hm => by
    have := h.bound _ hm; omega
  obtain ⟨h1, h2⟩ := nodup_modify_append g.nodes.size g.layers.toList
    (g.layerOf (g.edge e).src + 1).toNat h.nodup hv
  have hsz : (breakEdge g e v).1.nodes.size = g.nodes.size + 1 := by rw [breakEdge_nodes]; simp
  constructor
  · rw [breakEdge_layers, Array.toList_modify]; exact h1
  · intro n hn
    rw [breakEdge_layers, Array.toList_modify] at hn
    rw [hsz]
    rcases h2 n hn with rfl | h3
    · omega
    · have := h.bound n h3; omega

theorem layersWF_reverse (g : G) (e : Nat) (h : LayersWF g) : LayersWF (g.reverse e) := by
  have hg := geomEq_reverse g e
  exact ⟨by rw [hg.layers]; exact h.nodup, fun n hn => by rw [hg.size]; exact h.bound n (by rw [hg.layers] at hn; exact hn)⟩

theorem layersWF_breakLongEdges_go : ∀ (fuel i v : Nat) (g g' : G), breakLongEdges.go fuel i v g = .ok g' → LayersWF g → LayersWF g'
  | 0, _, _, _, _, h, _ => by simp [breakLongEdges.go] at h
  | fuel + 1, i, v, g, g', h, hwf => by
    unfold breakLongEdges.go at h
    split at h
    · simp only [pure, Except.pure, Except.ok.injEq] at h; subst h; exact hwf
    · simp only at h
      split at h
      · exact layersWF_breakLongEdges_go fuel _ _ _ _ h (layersWF_breakEdge g _ v hwf)
      · split at h
        · rename_i e _ _ _
          exact layersWF_breakLongEdges_go fuel _ _ _ _ h
            (layersWF_reverse _ _ (layersWF_reverse _ _ (layersWF_breakEdge _ e v (layersWF_reverse g e hwf))))
        · exact layersWF_breakLongEdges_go fuel _ _ _ _ h hwf

theorem layersWF_breakLongEdges (g g' : G) (h : breakLongEdges g = .ok g') (hwf : LayersWF g) : LayersWF g' := by
  unfold breakLongEdges at h
  exact layersWF_breakLongEdges_go _ _ _ _ _ h hwf

/-- reordering every list keeps the flattened list a permutation -/
theorem sameLayers_perm : ∀ (a b : List Layer), a.length = b.length →
    ((a.zip b).all fun (x, y) => x.nodes.isPerm y.nodes) = true → (a.flatMap (·.nodes)).Perm (b.flatMap (·.nodes))
  | [], [], _, _ => List.Perm.refl _
  | [], _ :: _, h, _ => by simp at h
  | _ :: _, [], h, _ => by simp at h
  | x :: a, y :: b, hl, h => by
    simp only [List.zip_cons_cons, List.all_cons, Bool.and_eq_true] at h
    simp only [List.flatMap_cons]
    exact List.Perm.append (List.isPerm_iff.1 h.1) (sameLayers_perm a b (by simpa using hl) h.2)

/-- phase 3: the ordering model keeps the layer lists well formed -/
theorem layersWF_orderWMedianP (maxiter : Nat) (g g' : G) (h : (orderWMedianP maxiter g).map (·.1) = .ok g') (hwf : LayersWF g) :
    LayersWF g' := by
  cases hp : orderWMedianP maxiter g with
  | error e => simp [hp, Except.map] at h
  | ok r =>
    obtain ⟨g2, x⟩ := r
    simp only [hp, Except.map, Except.ok.injEq] at h
    subst h
    obtain ⟨g1, _, hs, rfl⟩ := orderWMedianP_ok maxiter g g2 x hp
    unfold sameLayers at hs
    simp only [Bool.and_eq_true, beq_iff_eq] at hs
    have hperm := sameLayers_perm g.layers.toList g1.layers.toList (by simpa using hs.1) hs.2
    constructor
    · simp only
      exact (hperm.nodup_iff).1 hwf.nodup
    · intro n hn
      simp only at hn
      have := hwf.bound n (hperm.mem_iff.2 hn)
      simpa using this

/-- END TO END: the state the composed model hands to phase 4 has well-formed layer lists — for every input, both layerers -/
theorem layersWF_upto_phase3 (cfg : Cfg) (g1 g2 g3 : G) (h2 : phase2Model cfg g1 = .ok g2)
    (h3 : phase3Model (fun g => (orderWMedianP 24 g).map (·.1)) g2 = .ok g3) : LayersWF g3 := by
  have hwf2 : LayersWF g2 := by
    unfold phase2Model at h2
    split at h2
    · exact layersWF_buildLayers _ _ h2
    · split at h2
      · simp only [bind, Except.bind] at h2
        split at h2
        · cases h2
        · exact layersWF_buildLayers _ _ h2
      · simp only [bind, Except.bind] at h2
        split at h2
        · cases h2
        · exact layersWF_buildLayers _ _ h2
  unfold phase3Model at h3
  split at h3
  · simp only [pure, Except.pure, Except.ok.injEq] at h3; subst h3; exact hwf2
  · simp only [bind, Except.bind] at h3
    split at h3
    · cases h3
    · rename_i gb hb
      exact layersWF_orderWMedianP 24 gb g3 h3 (layersWF_breakLongEdges g2 gb hb hwf2)

end Autog

namespace Autog

/-! ### phase 4 keeps the layer lists' membership -/

/-- same node store size, same node list in every layer -/
structure SameLayerNodes (g g' : G) : Prop where
  size : g'.nodes.size = g.nodes.size
  nodes : g'.layers.toList.map (·.nodes) = g.layers.toList.map (·.nodes)

theorem SameLayerNodes.refl (g : G) : SameLayerNodes g g := ⟨rfl, rfl⟩
theorem SameLayerNodes.trans {a b c : G} (h1 : SameLayerNodes a b) (h2 : SameLayerNodes b c) : SameLayerNodes a c :=
  ⟨h2.size.trans h1.size, h2.nodes.trans h1.nodes⟩

theorem SameLayerNodes.wf {g g' : G} (h : SameLayerNodes g g') (hwf : LayersWF g) : LayersWF g' := by
  have hf : g'.layers.toList.flatMap (·.nodes) = g.layers.toList.flatMap (·.nodes) := by
    rw [List.flatMap_def, h.nodes, ← List.flatMap_def]
  exact ⟨by rw [hf]; exact hwf.nodup, fun n hn => by rw [h.size]; exact hwf.bound n (by rw [hf] at hn; exact hn)⟩

theorem sameLayerNodes_placeAllWith (upd : Node → Rat → Node) (g : G) (pl : List (List Nat × List Rat))
    (hpl : ∀ p ∈ pl, p.1.length = p.2.length) : SameLayerNodes g (placeAllWith upd g pl) := by
  have := placeAllWith_frame (upd := upd) pl g hpl
  exact ⟨this.1, by rw [this.2.1]⟩

theorem sameLayerNodes_mapLayers (g : G) (f : Layer → Layer) (hf : ∀ l, (f l).nodes = l.nodes) :
    SameLayerNodes g { g with layers := g.layers.map f } := by
  refine ⟨rfl, ?_⟩
  simp only [Array.toList_map, List.map_map]
  apply List.map_congr_left
  intro l _
  exact hf l

theorem sameLayerNodes_mapNodes (g : G) (f : Node → Node) : SameLayerNodes g { g with nodes := g.nodes.map f } :=
  ⟨by simp, rfl⟩

theorem sameLayerNodes_modNode (g : G) (i : Nat) (f : Node → Node) : SameLayerNodes g (g.modNode i f) := ⟨by simp, rfl⟩

theorem sameLayerNodes_foldl {α} (f : G → α → G) (hf : ∀ g x, SameLayerNodes g (f g x)) : ∀ (l : List α) (g : G),
    SameLayerNodes g (l.foldl f g)
  | [], g => SameLayerNodes.refl g
  | x :: l, g => (hf g x).trans (sameLayerNodes_foldl f hf l (f g x))

theorem sameLayerNodes_assignY (ls : Rat) (g : G) : SameLayerNodes g (assignYCoords ls g) := by
  unfold assignYCoords
  apply sameLayerNodes_placeAllWith
  intro p hp
  unfold assignYPlan at hp
  obtain ⟨q, _, rfl⟩ := List.mem_map.1 hp
  simp

theorem sameLayerNodes_valign (ns : Rat) (g : G) : SameLayerNodes g (execVerticalAlign ns g) := by
  unfold execVerticalAlign
  have h1 : SameLayerNodes g { g with layers := valignLayers ns g } := by
    unfold valignLayers; exact sameLayerNodes_mapLayers g _ (fun _ => rfl)
  refine h1.trans (sameLayerNodes_placeAllWith updX _ _ ?_)
  intro p hp
  unfold valignPlan at hp
  obtain ⟨l, _, rfl⟩ := List.mem_map.1 hp
  simp [Phase4Simple.valign, widthsOf]

theorem sameLayerNodes_growAllH (g : G) : SameLayerNodes g (growAllH g) := by
  unfold growAllH; exact sameLayerNodes_mapLayers g _ (fun _ => rfl)

theorem sameLayerNodes_packRight (ns : Rat) (g : G) : SameLayerNodes g (execPackRight ns g) := by
  unfold execPackRight
  refine (sameLayerNodes_placeAllWith updX g _ ?_).trans (sameLayerNodes_growAllH _)
  intro p hp
  unfold packRightPlan at hp
  obtain ⟨l, _, rfl⟩ := List.mem_map.1 hp
  simp [packRightRaw, Phase4Simple.packRight_eq_placeFrom, widthsOf]

theorem sameLayerNodes_single (g : G) (xs : List Rat) (hx : xs.length = (g.layers.toList.flatMap (·.nodes)).length) :
    SameLayerNodes g (growAllH (placeAll g [(g.layers.toList.flatMap (·.nodes), xs)])) := by
  refine (sameLayerNodes_placeAllWith updX g _ ?_).trans (sameLayerNodes_growAllH _)
  intro p hp
  have : p = (g.layers.toList.flatMap (·.nodes), xs) := by simpa using hp
  subst this; exact hx.symm

theorem sameLayerNodes_nsReadOut (g aux : G) : SameLayerNodes g (nsReadOut g aux) := by
  unfold nsReadOut
  simp only
  have hb := sameLayerNodes_single g
    ((g.layers.toList.flatMap (·.nodes)).map fun n => ((aux.node n).layer : Rat) - (g.node n).w / 2) (by simp)
  split
  · exact hb
  · exact hb.trans (sameLayerNodes_mapNodes _ _)

theorem sameLayerNodes_bkWrite (ns : Rat) (g : G) (final : Array Rat) : SameLayerNodes g (BK.bkWrite ns g final) := by
  unfold BK.bkWrite
  simp only
  refine SameLayerNodes.trans ?_ (sameLayerNodes_foldl _ (fun g l => sameLayerNodes_foldl _ (fun g p => by
    unfold BK.bkPush; simp only; split
    · exact sameLayerNodes_modNode g _ _
    · exact SameLayerNodes.refl g) _ g) _ _)
  have hb := sameLayerNodes_single g ((g.layers.toList.flatMap (·.nodes)).map fun n => final.getD n 0) (by simp)
  split
  · exact hb.trans (sameLayerNodes_mapNodes _ _)
  · exact hb

theorem sameLayerNodes_phase4Model (cfg : Cfg) (g g' : G) (h : phase4Model cfg g = .ok g') : SameLayerNodes g g' := by
  have hsimple : ∀ alg, phase4Simple alg cfg.ns cfg.ls g = .ok g' → SameLayerNodes g g' := by
    intro alg hs
    unfold phase4Simple at hs
    split at hs
    · simp only [pure, Except.pure, Except.ok.injEq] at hs; subst hs
      refine ⟨rfl, ?_⟩
      simp only [Array.toList_modify]
      cases g.layers.toList with
      | nil => rfl
      | cons a ls => simp [List.modify_zero_cons]
    · simp only [bind, Except.bind] at hs
      split at hs
      · simp only [pure, Except.pure, Except.ok.injEq] at hs; subst hs
        exact (sameLayerNodes_valign _ g).trans (sameLayerNodes_assignY _ _)
      · simp only [pure, Except.pure, Except.ok.injEq] at hs; subst hs
        exact (sameLayerNodes_packRight _ g).trans (sameLayerNodes_assignY _ _)
      · cases hs
  unfold phase4Model at h
  split at h
  · exact hsimple 1 h
  · split at h
    · -- SinkColoring
      simp only [bind, Except.bind] at h
      split at h
      · cases h
      · rename_i r h1
        obtain ⟨g1, d⟩ := r
        simp only [pure, Except.pure, Except.ok.injEq] at h; subst h
        refine SameLayerNodes.trans ?_ (sameLayerNodes_assignY _ _)
        unfold execSinkColoring at h1
        simp only [bind, Except.bind] at h1
        split at h1
        · cases h1
        · split at h1
          · cases h1
          · simp only [pure, Except.pure, Except.ok.injEq, Prod.mk.injEq] at h1
            rw [← h1.1]
            unfold scWrite
            refine (sameLayerNodes_placeAllWith updX g _ ?_).trans (sameLayerNodes_growAllH _)
            intro p hp
            unfold scPlan at hp
            obtain ⟨l, _, rfl⟩ := List.mem_map.1 hp
            simp
    · exact hsimple 1 h
    · exact hsimple 2 h
    · -- network simplex positioner
      cases h1 : execNsPositioner (thorOf cfg) 4 cfg.ns g with
      | error e => simp [h1, Except.map] at h
      | ok g1 =>
        simp only [h1, Except.map, Except.ok.injEq] at h; subst h
        refine SameLayerNodes.trans ?_ (sameLayerNodes_assignY _ _)
        unfold execNsPositioner at h1
        simp only [bind, Except.bind] at h1
        split at h1
        · cases h1
        · simp only [pure, Except.pure, Except.ok.injEq] at h1; subst h1
          exact sameLayerNodes_nsReadOut _ _
    · -- Brandes–Köpf
      cases h1 : BK.execBrandesKoepf cfg.bk cfg.ns g with
      | error e => simp [h1, Except.map] at h
      | ok g1 =>
        simp only [h1, Except.map, Except.ok.injEq] at h; subst h
        refine SameLayerNodes.trans ?_ (sameLayerNodes_assignY _ _)
        unfold BK.execBrandesKoepf at h1
        simp only [bind, Except.bind] at h1
        split at h1
        · cases h1
        · simp only [pure, Except.pure, Except.ok.injEq] at h1; subst h1
          exact sameLayerNodes_bkWrite _ _ _
    · simp only [pure, Except.pure, Except.ok.injEq] at h; subst h; exact SameLayerNodes.refl _
    · cases h

/-- END TO END: also after positioning the layer lists are well formed -/
theorem layersWF_upto_phase4 (cfg : Cfg) (g1 g2 g3 g4 : G) (h2 : phase2Model cfg g1 = .ok g2)
    (h3 : phase3Model (fun g => (orderWMedianP 24 g).map (·.1)) g2 = .ok g3) (h4 : phase4Model cfg g3 = .ok g4) : LayersWF g4 :=
  (sameLayerNodes_phase4Model cfg g3 g4 h4).wf (layersWF_upto_phase3 cfg g1 g2 g3 h2 h3)

theorem statEq_width (g g' : G) (h : StatEq g g') (n : Nat) (hn : n < g'.nodes.size) :
    (g'.node n).w = if n < g.nodes.size then (g.node n).w else 0 := by
  by_cases h0 : n < g.nodes.size
  · have := h.stat n h0
    simp only [Node.stat, Prod.mk.injEq] at this
    simp [h0, this.2.1]
  · simp only [h0, if_false]
    exact (h.fresh n (by omega) hn).2.1

/-- the state the positioner receives: cycle breaking, layering, long-edge cutting and ordering have kept the node table -/
theorem statEq_upto_phase3 (ord : G → M G) (hord : ∀ g g', ord g = .ok g' → StatEq g g') (cfg : Cfg) (g0 g1 g2 g3 : G)
    (h1 : phase1 cfg.p1 g0 = .ok g1) (h2 : phase2Model cfg g1 = .ok g2) (h3 : phase3Model ord g2 = .ok g3) : StatEq g0 g3 :=
  ((statEq_phase1 _ _ _ h1).trans (statEq_phase2Model _ _ _ h2)).trans (statEq_phase3Model ord hord _ _ h3)


end Autog
