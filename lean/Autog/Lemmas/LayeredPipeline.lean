import Autog.Lemmas.BreakProper
import Autog.Lemmas.BlockWide
import Autog.Lemmas.LayersPipeline
import Autog.Lemmas.Adj
/-! The state the ordering phase hands to SinkColoring is properly layered (`LayeredWF`) — as a theorem about the pipeline
    (LongestPath layerer), not a contract: in-lists stay consistent with the edge store through the cutting of long edges
    (`InsOK`), every node of the i-th layer list has layer i (`MemLayer`), and the layering is proper (`BreakProper`). Core-only. -/

namespace Autog

/-- every entry of an in-list is a listed edge of the store that ends at that node and starts inside the node store; no duplicates -/
structure InsOK (g : G) : Prop where
  ent : ∀ n, ∀ x ∈ (g.node n).ins, x ∈ g.elist ∧ (g.edge x).dst = n ∧ (g.edge x).src < g.nodes.size
  nd : ∀ n, (g.node n).ins.Nodup

/-- the nodes of the i-th layer list are nodes of the store and have layer i -/
def MemLayer (g : G) : Prop := ∀ i (h : i < g.layers.size), ∀ n ∈ (g.layers[i]).nodes, n < g.nodes.size ∧ g.layerOf n = (i : Int)

/-- listed edges start on a non-negative layer -/
def NonnegSrc (g : G) : Prop := ∀ e ∈ g.elist, 0 ≤ g.layerOf (g.edge e).src

theorem breakEdge_ins (g : G) (e v n : Nat) (hdst : (g.edge e).dst < g.nodes.size) :
    ((breakEdge g e v).1.node n).ins =
      if n = g.nodes.size then [e]
      else if n = (g.edge e).dst then (patchIn e g.edges.size (g.node n)).ins
      else (g.node n).ins := by
  simp only [G.node, breakEdge_nodes, Array.getD_eq_getD_getElem?, Array.getElem?_modify, Array.getElem?_push]
  by_cases h1 : n = g.nodes.size
  · subst h1
    have : ¬ (g.edge e).dst = g.nodes.size := by omega
    simp [this]
  · simp only [h1, if_false]
    by_cases h2 : n = (g.edge e).dst
    · subst h2
      simp [Array.getElem?_eq_getElem hdst]
    · have h2' : ¬ (g.edge e).dst = n := fun h => h2 h.symm
      simp only [h2', if_false, h2]

theorem nodup_set_fresh : ∀ (l : List Nat) (i f : Nat), l.Nodup → f ∉ l → (l.set i f).Nodup
  | [], _, _, _, _ => List.nodup_nil
  | a :: t, 0, f, hnd, hf => by
    rw [List.set_cons_zero, List.nodup_cons]
    exact ⟨fun h => hf (List.mem_cons_of_mem _ h), (List.nodup_cons.1 hnd).2⟩
  | a :: t, k + 1, f, hnd, hf => by
    rw [List.set_cons_succ, List.nodup_cons]
    obtain ⟨ha, ht⟩ := List.nodup_cons.1 hnd
    refine ⟨fun h => ?_, nodup_set_fresh t k f ht (fun h => hf (List.mem_cons_of_mem _ h))⟩
    rcases List.mem_or_eq_of_mem_set h with h1 | h1
    · exact ha h1
    · exact hf (by rw [h1]; exact List.mem_cons_self ..)

/-- one cut keeps the in-lists consistent -/
theorem insOK_breakEdge (g : G) (h : BreakWF g) (hi : InsOK g) (e v : Nat) (hem : e ∈ g.elist) : InsOK (breakEdge g e v).1 := by
  obtain ⟨hsrc, hdst⟩ := h.ends e hem
  have hes := h.inStore e hem
  have hedge : ∀ j, j < g.edges.size →
      ((breakEdge g e v).1.edge j).src = (g.edge j).src ∧
      ((breakEdge g e v).1.edge j).dst = if e = j then g.nodes.size else (g.edge j).dst := by
    intro j hj
    rw [breakEdge_edge_old g e v j hj]
    split <;> simp
  have hlt : ∀ n, ∀ x ∈ (g.node n).ins, x < g.edges.size := fun n x hx => h.inStore x (hi.ent n x hx).1
  constructor
  · intro n x hx
    rw [breakEdge_ins g e v n hdst] at hx
    rw [breakEdge_elist, breakEdge_nsize]
    by_cases h1 : n = g.nodes.size
    · rw [if_pos h1] at hx
      have : x = e := by simpa using hx
      subst this
      obtain ⟨e1, e2⟩ := hedge x hes
      rw [e1, e2]
      simp only [if_true]
      exact ⟨List.mem_append.2 (Or.inl hem), h1.symm, by omega⟩
    · rw [if_neg h1] at hx
      by_cases h2 : n = (g.edge e).dst
      · rw [if_pos h2] at hx
        unfold patchIn at hx
        split at hx
        · rename_i i hidx
          -- the in-list of the old target with the cut edge replaced by the new one
          rcases List.mem_or_eq_of_mem_set hx with hx' | hx'
          · have hxe : x ≠ e := by
              intro hxe; subst hxe
              -- x = e sits at position i only; after the replacement it is gone
              have hnd := hi.nd n
              have hi' := List.idxOf?_eq_some_iff.1 hidx
              obtain ⟨hlen, hget, _⟩ := hi'
              have : x ∈ (g.node n).ins.set i g.edges.size := hx
              rw [List.mem_iff_getElem] at this
              obtain ⟨k, hk, hkx⟩ := this
              rw [List.length_set] at hk
              rw [List.getElem_set] at hkx
              split at hkx
              · have := hlt n x hx'; omega
              · rename_i hik
                have := (List.getElem_inj (h₀ := hlen) (h₁ := hk) hnd).1 (by rw [hget, hkx])
                exact hik this
            obtain ⟨a1, a2, a3⟩ := hi.ent n x hx'
            obtain ⟨e1, e2⟩ := hedge x (hlt n x hx')
            rw [e1, e2, if_neg (fun h => hxe h.symm)]
            exact ⟨List.mem_append.2 (Or.inl a1), a2, by omega⟩
          · subst hx'
            obtain ⟨f1, f2⟩ := breakEdge_edge_new g e v
            rw [f1, f2]
            exact ⟨List.mem_append.2 (Or.inr (List.mem_singleton.2 rfl)), h2.symm, by omega⟩
        · rename_i hnone
          have hxe : x ≠ e := by
            intro hxe; subst hxe
            have := List.idxOf?_eq_none_iff.1 hnone
            exact this hx
          obtain ⟨a1, a2, a3⟩ := hi.ent n x hx
          obtain ⟨e1, e2⟩ := hedge x (hlt n x hx)
          rw [e1, e2, if_neg (fun h => hxe h.symm)]
          exact ⟨List.mem_append.2 (Or.inl a1), a2, by omega⟩
      · rw [if_neg h2] at hx
        obtain ⟨a1, a2, a3⟩ := hi.ent n x hx
        have hxe : x ≠ e := by
          intro hxe; subst hxe; exact h2 a2.symm
        obtain ⟨e1, e2⟩ := hedge x (hlt n x hx)
        rw [e1, e2, if_neg (fun h => hxe h.symm)]
        exact ⟨List.mem_append.2 (Or.inl a1), a2, by omega⟩
  · intro n
    rw [breakEdge_ins g e v n hdst]
    by_cases h1 : n = g.nodes.size
    · rw [if_pos h1]; exact List.nodup_cons.2 ⟨by simp, List.nodup_nil⟩
    · rw [if_neg h1]
      by_cases h2 : n = (g.edge e).dst
      · rw [if_pos h2]
        unfold patchIn
        split
        · rename_i i hidx
          have hfresh : g.edges.size ∉ (g.node n).ins := fun hm => by have := hlt n _ hm; omega
          exact nodup_set_fresh _ _ _ (hi.nd n) hfresh
        · exact hi.nd n
      · rw [if_neg h2]; exact hi.nd n

theorem memLayer_breakEdge (g : G) (h : BreakWF g) (hm : MemLayer g) (hn : NonnegSrc g) (e v : Nat) (hem : e ∈ g.elist) :
    MemLayer (breakEdge g e v).1 ∧ NonnegSrc (breakEdge g e v).1 := by
  obtain ⟨hsrc, hdst⟩ := h.ends e hem
  have h0 := hn e hem
  constructor
  · intro i hi n hmem
    rw [breakEdge_nsize]
    simp only [breakEdge_layers, Array.size_modify] at hi
    simp only [breakEdge_layers, Array.getElem_modify] at hmem
    by_cases hk : (g.layerOf (g.edge e).src + 1).toNat = i
    · rw [if_pos hk] at hmem
      rcases List.mem_append.1 hmem with h1 | h1
      · obtain ⟨b1, b2⟩ := hm i hi n h1
        exact ⟨by omega, by rw [breakEdge_layerOf_old g e v n b1]; exact b2⟩
      · have : n = g.nodes.size := by simpa using h1
        subst this
        refine ⟨by omega, ?_⟩
        rw [breakEdge_layerOf_new]
        omega
    · rw [if_neg hk] at hmem
      obtain ⟨b1, b2⟩ := hm i hi n hmem
      exact ⟨by omega, by rw [breakEdge_layerOf_old g e v n b1]; exact b2⟩
  · intro j hj
    rw [breakEdge_elist] at hj
    rcases List.mem_append.1 hj with hj | hj
    · have hjs := h.inStore j hj
      rw [breakEdge_edge_old g e v j hjs]
      have : (if e = j then { g.edge j with dst := g.nodes.size } else g.edge j).src = (g.edge j).src := by split <;> rfl
      rw [this, breakEdge_layerOf_old g e v _ (h.ends j hj).1]
      exact hn j hj
    · simp only [List.mem_singleton] at hj; subst hj
      rw [(breakEdge_edge_new g e v).1, breakEdge_layerOf_new]
      omega

/-- the loop keeps the in-lists consistent, the layer lists in step with the layers, and returns a proper layering -/
theorem breakLongEdges_go_layered : ∀ (fuel i v : Nat) (g g' : G), BreakWF g → InsOK g → MemLayer g → NonnegSrc g →
    breakLongEdges.go fuel i v g = .ok g' → InsOK g' ∧ MemLayer g'
  | 0, _, _, _, _, _, _, _, _, hr => by unfold breakLongEdges.go at hr; cases hr
  | fuel + 1, i, v, g, g', h, hi, hm, hn, hr => by
    unfold breakLongEdges.go at hr
    cases hidx : g.elist[i]? with
    | none =>
      rw [hidx] at hr
      simp only [pure, Except.pure, Except.ok.injEq] at hr
      subst hr; exact ⟨hi, hm⟩
    | some e =>
      rw [hidx] at hr
      simp only at hr
      have hem : e ∈ g.elist := List.mem_of_getElem? hidx
      by_cases hlong : g.layerOf (g.edge e).dst - g.layerOf (g.edge e).src > 1
      · rw [if_pos hlong] at hr
        obtain ⟨hwf', _⟩ := breakEdge_step g h i e v hidx hlong
        obtain ⟨hm', hn'⟩ := memLayer_breakEdge g h hm hn e v hem
        exact breakLongEdges_go_layered fuel (i + 1) (v + 1) _ g' hwf' (insOK_breakEdge g h hi e v hem) hm' hn' hr
      · rw [if_neg hlong, if_neg (h.noUp e hem)] at hr
        exact breakLongEdges_go_layered fuel (i + 1) v g g' h hi hm hn hr

theorem breakLongEdges_layered (g g' : G) (h : BreakWF g) (hi : InsOK g) (hm : MemLayer g) (hn : NonnegSrc g)
    (hr : breakLongEdges g = .ok g') : InsOK g' ∧ MemLayer g' := by
  unfold breakLongEdges at hr
  exact breakLongEdges_go_layered _ 0 1 g g' h hi hm hn hr

/-! ### from the loop's invariants to `LayeredWF` of the state the ordering phase returns -/

/-- layer lists in step with a level function: listing them from the last to the first gives a non-increasing sequence of levels -/
theorem pairwise_rev_flatMap (f : Nat → Int) : ∀ (L : List (List Nat)) (k : Int),
    (∀ i (h : i < L.length), ∀ n ∈ L[i], f n = k + (i : Int)) →
    List.Pairwise (fun a b => f b ≤ f a) (L.reverse.flatMap id)
  | [], _, _ => by simp
  | l :: t, k, hL => by
    have ht : ∀ i (h : i < t.length), ∀ n ∈ t[i], f n = (k + 1) + (i : Int) := by
      intro i hi n hn
      have := hL (i + 1) (by simp; omega) n (by simpa using hn)
      rw [this]; push_cast; omega
    have ih := pairwise_rev_flatMap f t (k + 1) ht
    have hl : ∀ n ∈ l, f n = k := by
      intro n hn
      have := hL 0 (by simp) n (by simpa using hn)
      simpa using this
    simp only [List.reverse_cons, List.flatMap_append, List.flatMap_cons, List.flatMap_nil, List.append_nil, id]
    rw [List.pairwise_append]
    refine ⟨ih, ?_, ?_⟩
    · rw [List.pairwise_iff_forall_sublist]
      intro a b hab
      have ha := hl a (hab.subset (List.mem_cons_self ..))
      have hb := hl b (hab.subset (List.mem_cons_of_mem _ (List.mem_cons_self ..)))
      omega
    · intro a ha b hb
      obtain ⟨m, hm, ham⟩ := List.mem_flatMap.1 ha
      have hm' : m ∈ t := List.mem_reverse.1 hm
      obtain ⟨j, hj, hjm⟩ := List.getElem_of_mem hm'
      have := ht j hj a (by rw [hjm]; exact ham)
      have := hl b hb
      omega

theorem sameLayers_getElem (a b : Array Layer) (hs : sameLayers a b = true) (i : Nat) (ha : i < a.size) (hb : i < b.size) :
    (a[i]).nodes.Perm (b[i]).nodes := by
  unfold sameLayers at hs
  simp only [Bool.and_eq_true, beq_iff_eq, List.all_eq_true] at hs
  have hz : (a[i], b[i]) ∈ a.toList.zip b.toList := by
    rw [List.mem_iff_getElem]
    refine ⟨i, by simp; omega, ?_⟩
    simp
  exact List.isPerm_iff.1 (hs.2 _ hz)

/-- the ordering projection keeps the invariants and returns a properly layered state -/
theorem layeredWF_orderWMedianP (k : Nat) (g r : G) (x : Nat) (h : orderWMedianP k g = .ok (r, x))
    (hi : InsOK g) (hm : MemLayer g) (hp : ∀ e ∈ g.elist, (g.edge e).src ≠ (g.edge e).dst → g.layerOf (g.edge e).dst = g.layerOf (g.edge e).src + 1)
    (hwf : LayersWF r) : LayeredWF r := by
  obtain ⟨g1, _, hs, rfl⟩ := orderWMedianP_ok k g r x h
  have hl : ∀ n, G.layerOf { g with nodes := g.nodes.mapIdx fun i nd => { nd with pos := (g1.node i).pos }, layers := g1.layers } n
      = g.layerOf n := by
    intro n
    simp only [G.layerOf, G.node, Array.getD_eq_getD_getElem?, Array.getElem?_mapIdx]
    cases g.nodes[n]? <;> simp
  have hins : ∀ n, (G.node { g with nodes := g.nodes.mapIdx fun i nd => { nd with pos := (g1.node i).pos }, layers := g1.layers } n).ins
      = (g.node n).ins := by
    intro n
    simp only [G.node, Array.getD_eq_getD_getElem?, Array.getElem?_mapIdx]
    cases g.nodes[n]? <;> simp
  have hsz : g.layers.size = g1.layers.size := by
    unfold sameLayers at hs; simp only [Bool.and_eq_true, beq_iff_eq] at hs; exact hs.1
  -- the layer lists of the result are in step with the layers
  have hmem : ∀ i (hh : i < g1.layers.size), ∀ n ∈ (g1.layers[i]).nodes, n < g.nodes.size ∧ g.layerOf n = (i : Int) := by
    intro i hh n hn
    have hperm := sameLayers_getElem g.layers g1.layers hs i (by omega) hh
    exact hm i (by omega) n (hperm.mem_iff.2 hn)
  refine { ins := ?_, down := ?_, order := ?_, nodup := ?_, bound := ?_ }
  · intro n e he
    rw [hins] at he
    obtain ⟨_, a2, a3⟩ := hi.ent n e he
    refine ⟨a2, ?_⟩
    show (g.edge e).src < (g.nodes.mapIdx fun i nd => { nd with pos := (g1.node i).pos }).size
    rw [Array.size_mapIdx]; exact a3
  · intro n e he
    rw [hins] at he
    obtain ⟨a1, a2, _⟩ := hi.ent n e he
    rw [hl, hl]
    show g.layerOf (g.edge e).src ≤ g.layerOf n
    by_cases hne : (g.edge e).src = (g.edge e).dst
    · rw [hne, a2]; exact Int.le_refl _
    · have := hp e a1 hne
      rw [a2] at this; omega
  · -- bottom-up order of the layer lists
    unfold scOrder
    have heq : (g1.layers.toList.reverse.flatMap (·.nodes)) = (g1.layers.toList.map (·.nodes)).reverse.flatMap id := by
      rw [← List.map_reverse, List.flatMap_map]; rfl
    show List.Pairwise _ (g1.layers.toList.reverse.flatMap (·.nodes))
    rw [heq]
    refine (pairwise_rev_flatMap g.layerOf (g1.layers.toList.map (·.nodes)) 0 ?_).imp ?_
    · intro i hh n hn
      simp only [List.length_map, Array.length_toList] at hh
      simp only [List.getElem_map, Array.getElem_toList] at hn
      have := (hmem i hh n hn).2
      omega
    · intro a b hab
      rw [hl, hl]; exact hab
  · unfold scOrder
    exact ((List.reverse_perm _).flatMap_right _).nodup_iff.2 hwf.nodup
  · intro n hn
    unfold scOrder at hn
    exact hwf.bound n (((List.reverse_perm _).flatMap_right _).mem_iff.1 hn)

/-- the same conclusion for a state that satisfies the invariants itself (a component with a single layer skips the ordering phase) -/
theorem layeredWF_of_invariants (g : G) (hi : InsOK g) (hm : MemLayer g)
    (hd : ∀ e ∈ g.elist, (g.edge e).src ≠ (g.edge e).dst → g.layerOf (g.edge e).src + 1 ≤ g.layerOf (g.edge e).dst)
    (hwf : LayersWF g) : LayeredWF g := by
  refine { ins := ?_, down := ?_, order := ?_, nodup := ?_, bound := ?_ }
  · intro n e he
    obtain ⟨_, a2, a3⟩ := hi.ent n e he
    exact ⟨a2, a3⟩
  · intro n e he
    obtain ⟨a1, a2, _⟩ := hi.ent n e he
    by_cases hne : (g.edge e).src = (g.edge e).dst
    · rw [hne, a2]; exact Int.le_refl _
    · have := hd e a1 hne
      rw [a2] at this; omega
  · unfold scOrder
    have heq : (g.layers.toList.reverse.flatMap (·.nodes)) = (g.layers.toList.map (·.nodes)).reverse.flatMap id := by
      rw [← List.map_reverse, List.flatMap_map]; rfl
    rw [heq]
    refine pairwise_rev_flatMap g.layerOf (g.layers.toList.map (·.nodes)) 0 ?_
    intro i hh n hn
    simp only [List.length_map, Array.length_toList] at hh
    simp only [List.getElem_map, Array.getElem_toList] at hn
    have := (hm i hh n hn).2
    omega
  · unfold scOrder
    exact ((List.reverse_perm _).flatMap_right _).nodup_iff.2 hwf.nodup
  · intro n hn
    unfold scOrder at hn
    exact hwf.bound n (((List.reverse_perm _).flatMap_right _).mem_iff.1 hn)

/-- adjacency consistency gives the in-list invariant -/
theorem insOK_of_adjL (g : G) (h : AdjL g) : InsOK g := by
  constructor
  · intro n x hx
    obtain ⟨b1, b2⟩ := h.toAdj.ins n x hx
    exact ⟨h.inEl n x (List.mem_append.2 (Or.inl hx)), b2, (h.toAdj.ends x b1).1⟩
  · exact h.toAdj.ndi

end Autog
