import Autog.Lemmas.HasCyclesTotal
import Autog.Lemmas.ComponentsTotal
import Autog.Lemmas.DfsBreakerMinimal
import Autog.Lemmas.GraphOps
import Autog.Lemmas.Reverse
/-! Adjacency consistency of the graph state: the In/Out lists and the edge store agree. It holds for the graph `Populate` builds from
    ANY edge list and is kept by `Edge.Reverse` and by self-loop stripping; the well-formedness hypotheses of the phase-1 theorems
    (`EdgesWF`, `IncWF`, `Uniq`) all follow from it. Core-only. -/

namespace Autog

structure Adj (g : G) : Prop where
  outs : ∀ n e, e ∈ (g.node n).outs → e < g.edges.size ∧ (g.edge e).src = n
  ins : ∀ n e, e ∈ (g.node n).ins → e < g.edges.size ∧ (g.edge e).dst = n
  ndo : ∀ n, (g.node n).outs.Nodup
  ndi : ∀ n, (g.node n).ins.Nodup
  ends : ∀ e, e < g.edges.size → (g.edge e).src < g.nodes.size ∧ (g.edge e).dst < g.nodes.size

theorem nodup_lt_length : ∀ (k : Nat) (l : List Nat), l.Nodup → (∀ x ∈ l, x < k) → l.length ≤ k
  | 0, l, _, h => by
    cases l with
    | nil => simp
    | cons a l => have := h a (List.mem_cons_self ..); omega
  | k + 1, l, hnd, h => by
    by_cases hk : k ∈ l
    · have h1 : (l.erase k).Nodup := hnd.sublist (List.erase_sublist ..)
      have h2 : ∀ x ∈ l.erase k, x < k := by
        intro x hx
        have hxl := List.mem_of_mem_erase hx
        have := h x hxl
        have hne : x ≠ k := by
          intro e; subst e
          exact (List.Nodup.mem_erase_iff hnd).1 hx |>.1 rfl
        omega
      have := nodup_lt_length k (l.erase k) h1 h2
      rw [List.length_erase_of_mem hk] at this
      omega
    · have h2 : ∀ x ∈ l, x < k := by
        intro x hx
        have := h x hx
        have : x ≠ k := fun e => hk (e ▸ hx)
        omega
      have := nodup_lt_length k l hnd h2
      omega

/-- the incidence lists stay inside the edge store (hypothesis of the component walk, tight-tree search, numbering walk) -/
theorem Adj.incWF {g : G} (h : Adj g) : IncWF g := by
  constructor
  · intro n e he
    unfold G.incident at he
    rcases List.mem_append.1 he with h1 | h1
    · exact (h.ins n e h1).1
    · exact (h.outs n e h1).1
  · intro n
    unfold G.incident
    have h1 := nodup_lt_length g.edges.size (g.node n).ins (h.ndi n) (fun e he => (h.ins n e he).1)
    have h2 := nodup_lt_length g.edges.size (g.node n).outs (h.ndo n) (fun e he => (h.outs n e he).1)
    rw [List.length_append]; omega

/-- the out-lists name each edge once (hypothesis of the minimality theorem of the depth-first breaker) -/
theorem Adj.uniq {g : G} (h : Adj g) : DfsBreakerMinimal.Uniq (outE g) (fun e => (g.edge e).src) := by
  constructor
  · intro u em hem
    unfold outE at hem
    obtain ⟨e, he, rfl⟩ := List.mem_map.1 hem
    exact (h.outs u e he).2
  · intro u
    unfold outE
    rw [List.map_map]
    have : (Prod.fst ∘ fun e => (e, (g.edge e).dst)) = id := rfl
    rw [this, List.map_id]
    exact h.ndo u

/-- all out-lists together hold at most as many entries as there are edges -/
theorem Adj.outs_total {g : G} (h : Adj g) : (g.nodeIds.map fun n => (g.node n).outs.length).sum ≤ g.edges.size := by
  -- the concatenation of all out-lists is duplicate-free (an edge has one source) and stays below the store size
  have hcat : ∀ (l : List Nat), l.Nodup → ((l.flatMap fun n => (g.node n).outs).Nodup ∧
      (l.map fun n => (g.node n).outs.length).sum = (l.flatMap fun n => (g.node n).outs).length) := by
    intro l
    induction l with
    | nil => intro _; exact ⟨List.nodup_nil, rfl⟩
    | cons a l ih =>
      intro hnd
      have hnd' := List.nodup_cons.1 hnd
      obtain ⟨ih1, ih2⟩ := ih hnd'.2
      simp only [List.flatMap_cons, List.map_cons, List.sum_cons, List.length_append, ih2, and_true]
      refine List.nodup_append.2 ⟨h.ndo a, ih1, ?_⟩
      intro x hx y hy hxy
      subst hxy
      obtain ⟨b, hb, hxb⟩ := List.mem_flatMap.1 hy
      have h1 := (h.outs a x hx).2
      have h2 := (h.outs b x hxb).2
      exact hnd'.1 (by rw [← h1, h2]; exact hb)
  obtain ⟨hn, hs⟩ := hcat g.nodeIds (by simp [G.nodeIds, List.nodup_range])
  rw [hs]
  apply nodup_lt_length _ _ hn
  intro e he
  obtain ⟨n, _, hen⟩ := List.mem_flatMap.1 he
  exact (h.outs n e hen).1

/-- the edges of the state stay inside the node store (hypothesis of the cycle test / DFS breaker / longest path totality) -/
theorem Adj.edgesWF {g : G} (h : Adj g) : EdgesWF g :=
  ⟨fun n _ e he => (h.ends e (h.outs n e he).1).2, h.outs_total⟩

end Autog

namespace Autog

theorem populate_node_lists (cfg : Cfg) (es : InEdges) (n : Nat) :
    (((applySizes cfg (populate es)).node n).ins = [] ∧ ((applySizes cfg (populate es)).node n).outs = []) ∨
    (((applySizes cfg (populate es)).node n).ins =
        ((PopulateRename.populate es).edges.zipIdx.filter fun x => x.1.2 == n).map (·.2) ∧
     ((applySizes cfg (populate es)).node n).outs =
        ((PopulateRename.populate es).edges.zipIdx.filter fun x => x.1.1 == n).map (·.2)) := by
  simp only [G.node, applySizes, populate, Array.getD_eq_getD_getElem?, Array.getElem?_map, List.getElem?_toArray,
    List.getElem?_map]
  cases h : (PopulateRename.populate es).ids.zipIdx[n]? with
  | none => left; simp [default, instInhabitedNode.default]
  | some x =>
    right
    obtain ⟨id, i⟩ := x
    have hi : i = n := by
      rw [List.getElem?_zipIdx] at h
      cases h2 : (PopulateRename.populate es).ids[n]? with
      | none => rw [h2] at h; cases h
      | some a => rw [h2] at h; simp at h; omega
    subst hi
    exact ⟨by simp, by simp⟩

theorem populate_edge (cfg : Cfg) (es : InEdges) (e : Nat) (he : e < (PopulateRename.populate es).edges.length) :
    ((applySizes cfg (populate es)).edge e).src = ((PopulateRename.populate es).edges[e]).1 ∧
    ((applySizes cfg (populate es)).edge e).dst = ((PopulateRename.populate es).edges[e]).2 := by
  simp [G.edge, applySizes, populate, Array.getD_eq_getD_getElem?, he]

theorem zipIdx_filter_mem {α} (l : List α) (p : α × Nat → Bool) (e : Nat) (he : e ∈ (l.zipIdx.filter p).map (·.2)) :
    ∃ h : e < l.length, p (l[e], e) = true := by
  obtain ⟨x, hx, rfl⟩ := List.mem_map.1 he
  obtain ⟨hx1, hx2⟩ := List.mem_filter.1 hx
  obtain ⟨a, i⟩ := x
  obtain ⟨_, h2, h3⟩ := List.mem_zipIdx hx1
  have h2' : i < l.length := by omega
  refine ⟨h2', ?_⟩
  have h3' : a = l[i] := by simpa using h3
  rw [← h3']; exact hx2

theorem zipIdx_filter_nodup {α} (l : List α) (p : α × Nat → Bool) : ((l.zipIdx.filter p).map (·.2)).Nodup := by
  have hsub : ((l.zipIdx.filter p).map (·.2)).Sublist (l.zipIdx.map (·.2)) := (List.filter_sublist).map _
  have hr : l.zipIdx.map (·.2) = List.range l.length := by
    have := List.zipIdx_map_snd 0 l
    rw [List.range_eq_range']; exact this
  rw [hr] at hsub
  exact List.nodup_range.sublist hsub

/-- the graph `Populate` builds from ANY edge list is adjacency-consistent -/
theorem adj_populate (cfg : Cfg) (es : InEdges) : Adj (applySizes cfg (populate es)) := by
  have hE : (applySizes cfg (populate es)).edges.size = (PopulateRename.populate es).edges.length := populate_edges_size cfg es
  have hV : (applySizes cfg (populate es)).nodes.size = (PopulateRename.populate es).ids.length := by simp [applySizes, populate]
  constructor
  · intro n e he
    rcases populate_node_lists cfg es n with ⟨_, h2⟩ | ⟨_, h2⟩
    · rw [h2] at he; cases he
    · rw [h2] at he
      obtain ⟨hlt, hp⟩ := zipIdx_filter_mem _ _ e he
      rw [hE]
      refine ⟨hlt, ?_⟩
      rw [(populate_edge cfg es e hlt).1]
      simpa using hp
  · intro n e he
    rcases populate_node_lists cfg es n with ⟨h1, _⟩ | ⟨h1, _⟩
    · rw [h1] at he; cases he
    · rw [h1] at he
      obtain ⟨hlt, hp⟩ := zipIdx_filter_mem _ _ e he
      rw [hE]
      refine ⟨hlt, ?_⟩
      rw [(populate_edge cfg es e hlt).2]
      simpa using hp
  · intro n
    rcases populate_node_lists cfg es n with ⟨_, h2⟩ | ⟨_, h2⟩
    · rw [h2]; exact List.nodup_nil
    · rw [h2]; exact zipIdx_filter_nodup _ _
  · intro n
    rcases populate_node_lists cfg es n with ⟨h1, _⟩ | ⟨h1, _⟩
    · rw [h1]; exact List.nodup_nil
    · rw [h1]; exact zipIdx_filter_nodup _ _
  · intro e he
    rw [hE] at he
    rw [hV, (populate_edge cfg es e he).1, (populate_edge cfg es e he).2]
    obtain ⟨_, hlen, hspec⟩ := PopulateRename.populate_spec es
    have := hspec e he (by omega)
    constructor
    · rcases Nat.lt_or_ge ((PopulateRename.populate es).edges[e]).1 (PopulateRename.populate es).ids.length with h1 | h1
      · exact h1
      · rw [List.getElem?_eq_none h1] at this; cases this.1
    · rcases Nat.lt_or_ge ((PopulateRename.populate es).edges[e]).2 (PopulateRename.populate es).ids.length with h1 | h1
      · exact h1
      · rw [List.getElem?_eq_none h1] at this; cases this.2

end Autog

namespace Autog
open G

theorem reverse_node_lists (g : G) (e n : Nat) :
    ((g.reverse e).node n).outs =
      (if (g.edge e).dst = n ∧ n < g.nodes.size then
        (if (g.edge e).src = n ∧ n < g.nodes.size then (g.node n).outs.erase e else (g.node n).outs) ++ [e]
       else (if (g.edge e).src = n ∧ n < g.nodes.size then (g.node n).outs.erase e else (g.node n).outs)) ∧
    ((g.reverse e).node n).ins =
      (if (g.edge e).src = n ∧ n < g.nodes.size then
        (if (g.edge e).dst = n ∧ n < g.nodes.size then (g.node n).ins.erase e else (g.node n).ins) ++ [e]
       else (if (g.edge e).dst = n ∧ n < g.nodes.size then (g.node n).ins.erase e else (g.node n).ins)) := by
  unfold G.reverse
  simp only [modNode_edge]
  have hme : ∀ (g0 : G) (f : Edge → Edge), (g0.modEdge e f).node n = g0.node n := fun _ _ => rfl
  rw [hme]
  simp only [G.node_modNode, modNode_size, G.removeE]
  by_cases hn : n < g.nodes.size
  · by_cases hs : (g.edge e).src = n <;> by_cases hd : (g.edge e).dst = n <;> simp [hn, hs, hd]
  · simp [hn]

theorem reverse_nsize (g : G) (e : Nat) : (g.reverse e).nodes.size = g.nodes.size := by
  unfold G.reverse; simp [G.modEdge]

/-- `Edge.Reverse` keeps the In/Out lists and the edge store consistent -/
theorem adj_reverse (g : G) (h : Adj g) (e : Nat) (he : e < g.edges.size) : Adj (g.reverse e) := by
  have hends := h.ends e he
  have hedge : ∀ j, ((g.reverse e).edge j).src = (if e = j then (g.edge e).dst else (g.edge j).src) ∧
      ((g.reverse e).edge j).dst = (if e = j then (g.edge e).src else (g.edge j).dst) := by
    intro j
    rw [reverse_edge]
    by_cases hj : e = j
    · subst hj; simp [he]
    · simp [hj]
  constructor
  · -- out-lists
    intro n x hx
    rw [(reverse_node_lists g e n).1] at hx
    rw [reverse_esize, (hedge x).1]
    by_cases ht : (g.edge e).dst = n ∧ n < g.nodes.size
    · rw [if_pos ht] at hx
      rcases List.mem_append.1 hx with h1 | h1
      · have hmem : x ∈ (g.node n).outs := by
          split at h1
          · exact List.mem_of_mem_erase h1
          · exact h1
        have hne : e ≠ x := by
          intro e'; subst e'
          split at h1
          · rename_i hf
            exact (List.Nodup.mem_erase_iff (h.ndo n)).1 h1 |>.1 rfl
          · rename_i hf
            have := (h.outs n e hmem).2
            exact hf ⟨this, ht.2⟩
        simp only [if_neg hne]
        exact h.outs n x hmem
      · have : x = e := by simpa using h1
        subst this
        simp [he, ht.1]
    · rw [if_neg ht] at hx
      have hmem : x ∈ (g.node n).outs := by
        split at hx
        · exact List.mem_of_mem_erase hx
        · exact hx
      have hne : e ≠ x := by
        intro e'; subst e'
        split at hx
        · exact (List.Nodup.mem_erase_iff (h.ndo n)).1 hx |>.1 rfl
        · rename_i hf
          have hs := (h.outs n e hmem).2
          have hn : n < g.nodes.size := by rw [← hs]; exact hends.1
          exact hf ⟨hs, hn⟩
      simp only [if_neg hne]
      exact h.outs n x hmem
  · -- in-lists
    intro n x hx
    rw [(reverse_node_lists g e n).2] at hx
    rw [reverse_esize, (hedge x).2]
    by_cases hf : (g.edge e).src = n ∧ n < g.nodes.size
    · rw [if_pos hf] at hx
      rcases List.mem_append.1 hx with h1 | h1
      · have hmem : x ∈ (g.node n).ins := by
          split at h1
          · exact List.mem_of_mem_erase h1
          · exact h1
        have hne : e ≠ x := by
          intro e'; subst e'
          split at h1
          · exact (List.Nodup.mem_erase_iff (h.ndi n)).1 h1 |>.1 rfl
          · rename_i ht
            have := (h.ins n e hmem).2
            exact ht ⟨this, hf.2⟩
        simp only [if_neg hne]
        exact h.ins n x hmem
      · have : x = e := by simpa using h1
        subst this
        simp [he, hf.1]
    · rw [if_neg hf] at hx
      have hmem : x ∈ (g.node n).ins := by
        split at hx
        · exact List.mem_of_mem_erase hx
        · exact hx
      have hne : e ≠ x := by
        intro e'; subst e'
        split at hx
        · exact (List.Nodup.mem_erase_iff (h.ndi n)).1 hx |>.1 rfl
        · rename_i ht
          have hs := (h.ins n e hmem).2
          have hn : n < g.nodes.size := by rw [← hs]; exact hends.2
          exact ht ⟨hs, hn⟩
      simp only [if_neg hne]
      exact h.ins n x hmem
  · -- out-lists stay duplicate-free
    intro n
    rw [(reverse_node_lists g e n).1]
    have hbase : (if (g.edge e).src = n ∧ n < g.nodes.size then (g.node n).outs.erase e else (g.node n).outs).Nodup := by
      split
      · exact (h.ndo n).sublist (List.erase_sublist ..)
      · exact h.ndo n
    by_cases ht : (g.edge e).dst = n ∧ n < g.nodes.size
    · rw [if_pos ht]
      refine List.nodup_append.2 ⟨hbase, (by simp), ?_⟩
      intro a ha b hb hab
      have hb' : b = e := by simpa using hb
      subst hb'; subst hab
      split at ha
      · exact (List.Nodup.mem_erase_iff (h.ndo n)).1 ha |>.1 rfl
      · rename_i hf
        have hs := (h.outs n a ha).2
        exact hf ⟨hs, ht.2⟩
    · rw [if_neg ht]; exact hbase
  · intro n
    rw [(reverse_node_lists g e n).2]
    have hbase : (if (g.edge e).dst = n ∧ n < g.nodes.size then (g.node n).ins.erase e else (g.node n).ins).Nodup := by
      split
      · exact (h.ndi n).sublist (List.erase_sublist ..)
      · exact h.ndi n
    by_cases hf : (g.edge e).src = n ∧ n < g.nodes.size
    · rw [if_pos hf]
      refine List.nodup_append.2 ⟨hbase, (by simp), ?_⟩
      intro a ha b hb hab
      have hb' : b = e := by simpa using hb
      subst hb'; subst hab
      split at ha
      · exact (List.Nodup.mem_erase_iff (h.ndi n)).1 ha |>.1 rfl
      · rename_i ht
        have hs := (h.ins n a ha).2
        exact ht ⟨hs, hf.2⟩
    · rw [if_neg hf]; exact hbase
  · intro j hj
    rw [reverse_esize] at hj
    rw [reverse_nsize, (hedge j).1, (hedge j).2]
    by_cases hej : e = j
    · subst hej; simp only [if_true]; exact ⟨hends.2, hends.1⟩
    · simp only [if_neg hej]; exact h.ends j hj

end Autog

namespace Autog
open G

/-- … and with it the edge list: duplicate-free, inside the store, and holding every edge that occurs in an In/Out list -/
structure AdjL (g : G) : Prop extends Adj g where
  el : ∀ e ∈ g.elist, e < g.edges.size
  elnd : g.elist.Nodup
  inEl : ∀ n, ∀ e ∈ g.incident n, e ∈ g.elist

theorem adjL_populate (cfg : Cfg) (es : InEdges) : AdjL (applySizes cfg (populate es)) := by
  have hel : (applySizes cfg (populate es)).elist = List.range (PopulateRename.populate es).edges.length := by
    simp [applySizes, populate]
  have hA := adj_populate cfg es
  refine { toAdj := hA, el := ?_, elnd := by rw [hel]; exact List.nodup_range, inEl := ?_ }
  · intro e he
    rw [hel] at he
    rw [populate_edges_size]
    exact List.mem_range.1 he
  · intro n e he
    rw [hel]
    have := (hA.incWF).lt n e he
    rw [populate_edges_size] at this
    exact List.mem_range.2 this

theorem adjL_reverse (g : G) (h : AdjL g) (e : Nat) (he : e ∈ g.elist) : AdjL (g.reverse e) := by
  refine { toAdj := adj_reverse g h.toAdj e (h.el e he), el := fun x hx => by rw [reverse_esize]; exact h.el x (by simpa using hx),
           elnd := by simpa using h.elnd, inEl := ?_ }
  intro n x hx
  rw [reverse_elist]
  unfold G.incident at hx
  rw [(reverse_node_lists g e n).1, (reverse_node_lists g e n).2] at hx
  -- every entry of the new lists is an old entry of the same node or e itself
  have hold : x = e ∨ x ∈ g.incident n := by
    unfold G.incident
    rcases List.mem_append.1 hx with h1 | h1
    · split at h1
      · rcases List.mem_append.1 h1 with h2 | h2
        · right; refine List.mem_append.2 (Or.inl ?_)
          split at h2
          · exact List.mem_of_mem_erase h2
          · exact h2
        · left; simpa using h2
      · right; refine List.mem_append.2 (Or.inl ?_)
        split at h1
        · exact List.mem_of_mem_erase h1
        · exact h1
    · split at h1
      · rcases List.mem_append.1 h1 with h2 | h2
        · right; refine List.mem_append.2 (Or.inr ?_)
          split at h2
          · exact List.mem_of_mem_erase h2
          · exact h2
        · left; simpa using h2
      · right; refine List.mem_append.2 (Or.inr ?_)
        split at h1
        · exact List.mem_of_mem_erase h1
        · exact h1
  rcases hold with rfl | h1
  · exact he
  · exact h.inEl n x h1

theorem adjL_foldl_reverse : ∀ (l : List Nat) (g : G), AdjL g → (∀ e ∈ l, e ∈ g.elist) → AdjL (l.foldl G.reverse g)
  | [], g, h, _ => h
  | e :: l, g, h, hb => by
    simp only [List.foldl_cons]
    exact adjL_foldl_reverse l _ (adjL_reverse g h e (hb e (List.mem_cons_self ..)))
      (fun x hx => by rw [reverse_elist]; exact hb x (List.mem_cons_of_mem _ hx))

/-- the two-cycle pre-pass reverses listed edges only -/
theorem removeTwoNodeCycles_sub (g : G) : ∀ (l : List Nat) (acc : List (Nat × Nat) × List Nat),
    (∀ e ∈ acc.2, e ∈ l ∨ e ∈ g.elist) → (∀ e ∈ l, e ∈ g.elist) →
    ∀ e ∈ (l.foldl (fun (acc : List (Nat × Nat) × List Nat) (e : Nat) =>
        if acc.1.contains ((g.edge e).dst, (g.edge e).src) then (acc.1, acc.2 ++ [e]) else (((g.edge e).src, (g.edge e).dst) :: acc.1, acc.2)) acc).2,
      e ∈ g.elist
  | [], acc, ha, _, e, he => by
    rcases ha e he with h1 | h1
    · cases h1
    · exact h1
  | x :: l, acc, ha, hl, e, he => by
    simp only [List.foldl_cons] at he
    refine removeTwoNodeCycles_sub g l _ ?_ (fun y hy => hl y (List.mem_cons_of_mem _ hy)) e he
    intro y hy
    split at hy
    · rcases List.mem_append.1 hy with h1 | h1
      · rcases ha y h1 with h2 | h2
        · rcases List.mem_cons.1 h2 with rfl | h3
          · exact Or.inr (hl _ (List.mem_cons_self ..))
          · exact Or.inl h3
        · exact Or.inr h2
      · have : y = x := by simpa using h1
        subst this; exact Or.inr (hl _ (List.mem_cons_self ..))
    · rcases ha y hy with h2 | h2
      · rcases List.mem_cons.1 h2 with rfl | h3
        · exact Or.inr (hl _ (List.mem_cons_self ..))
        · exact Or.inl h3
      · exact Or.inr h2

theorem adjL_removeTwoNodeCycles (g : G) (h : AdjL g) : AdjL (removeTwoNodeCycles g) := by
  unfold removeTwoNodeCycles
  simp only
  apply adjL_foldl_reverse _ g h
  intro e he
  exact removeTwoNodeCycles_sub g g.elist ([], []) (fun _ h0 => by cases h0) (fun _ hx => hx) e he

/-- self-loop stripping -/
theorem adjL_stripLoop (g : G) (h : AdjL g) (e : Nat) (hs : (g.edge e).src = (g.edge e).dst) : AdjL (stripLoop g e) := by
  unfold stripLoop
  simp only
  have hnode : ∀ n, ((((g.modNode (g.edge e).src fun n => { n with outs := G.removeE n.outs e }).modNode (g.edge e).src
        fun n => { n with ins := G.removeE n.ins e }).node n).outs =
          if (g.edge e).src = n ∧ n < g.nodes.size then (g.node n).outs.erase e else (g.node n).outs) ∧
      ((((g.modNode (g.edge e).src fun n => { n with outs := G.removeE n.outs e }).modNode (g.edge e).src
        fun n => { n with ins := G.removeE n.ins e }).node n).ins =
          if (g.edge e).src = n ∧ n < g.nodes.size then (g.node n).ins.erase e else (g.node n).ins) := by
    intro n
    simp only [G.node_modNode, modNode_size, G.removeE]
    by_cases hc : (g.edge e).src = n ∧ n < g.nodes.size
    · simp [hc]
    · simp [hc]
  have hsubo : ∀ n, ((((g.modNode (g.edge e).src fun n => { n with outs := G.removeE n.outs e }).modNode (g.edge e).src
        fun n => { n with ins := G.removeE n.ins e }).node n).outs).Sublist (g.node n).outs := by
    intro n; rw [(hnode n).1]; split
    · exact List.erase_sublist ..
    · exact List.Sublist.refl _
  have hsubi : ∀ n, ((((g.modNode (g.edge e).src fun n => { n with outs := G.removeE n.outs e }).modNode (g.edge e).src
        fun n => { n with ins := G.removeE n.ins e }).node n).ins).Sublist (g.node n).ins := by
    intro n; rw [(hnode n).2]; split
    · exact List.erase_sublist ..
    · exact List.Sublist.refl _
  refine { outs := ?_, ins := ?_, ndo := ?_, ndi := ?_, ends := ?_, el := ?_, elnd := ?_, inEl := ?_ }
  · intro n x hx; exact h.outs n x ((hsubo n).subset hx)
  · intro n x hx; exact h.ins n x ((hsubi n).subset hx)
  · intro n; exact (h.ndo n).sublist (hsubo n)
  · intro n; exact (h.ndi n).sublist (hsubi n)
  · intro j hj
    have hsz : ((g.modNode (g.edge e).src fun n => { n with outs := G.removeE n.outs e }).modNode (g.edge e).src
        fun n => { n with ins := G.removeE n.ins e }).nodes.size = g.nodes.size := by simp
    have := h.ends j hj
    simp only [hsz]
    exact this
  · intro x hx
    exact h.el x (List.mem_of_mem_erase hx)
  · exact h.elnd.sublist (List.erase_sublist ..)
  · -- an entry that survives is a listed edge other than e
    intro n x hx
    simp only [G.removeE]
    have hxold : x ∈ g.incident n := by
      have hx2 : x ∈ (((g.modNode (g.edge e).src fun n => { n with outs := G.removeE n.outs e }).modNode (g.edge e).src
          fun n => { n with ins := G.removeE n.ins e }).node n).ins ++
          (((g.modNode (g.edge e).src fun n => { n with outs := G.removeE n.outs e }).modNode (g.edge e).src
          fun n => { n with ins := G.removeE n.ins e }).node n).outs := hx
      unfold G.incident
      rcases List.mem_append.1 hx2 with h1 | h1
      · exact List.mem_append.2 (Or.inl ((hsubi n).subset h1))
      · exact List.mem_append.2 (Or.inr ((hsubo n).subset h1))
    have hne : x ≠ e := by
      intro hxe; subst hxe
      have hx2 : x ∈ (((g.modNode (g.edge x).src fun n => { n with outs := G.removeE n.outs x }).modNode (g.edge x).src
          fun n => { n with ins := G.removeE n.ins x }).node n).ins ++
          (((g.modNode (g.edge x).src fun n => { n with outs := G.removeE n.outs x }).modNode (g.edge x).src
          fun n => { n with ins := G.removeE n.ins x }).node n).outs := hx
      rcases List.mem_append.1 hx2 with h1 | h1
      · rw [(hnode n).2] at h1
        split at h1
        · exact (List.Nodup.mem_erase_iff (h.ndi n)).1 h1 |>.1 rfl
        · rename_i hc
          have hd := (h.ins n x h1).2
          have hn : n < g.nodes.size := by rw [← hd]; exact (h.ends x (h.ins n x h1).1).2
          exact hc ⟨by rw [hs]; exact hd, hn⟩
      · rw [(hnode n).1] at h1
        split at h1
        · exact (List.Nodup.mem_erase_iff (h.ndo n)).1 h1 |>.1 rfl
        · rename_i hc
          have hd := (h.outs n x h1).2
          have hn : n < g.nodes.size := by rw [← hd]; exact (h.ends x (h.outs n x h1).1).1
          exact hc ⟨hd, hn⟩
    exact (List.mem_erase_of_ne hne).2 (h.inEl n x hxold)

theorem adjL_ignoreSelfLoops (g : G) (h : AdjL g) : AdjL (ignoreSelfLoops g).1 := by
  unfold ignoreSelfLoops
  simp only
  -- edges of the store are never rewritten by stripping, so "is a self-loop" can be read off the original state
  have hedge : ∀ (l : List Nat) (g0 : G), (l.foldl stripLoop g0).edges = g0.edges := by
    intro l
    induction l with
    | nil => intro g0; rfl
    | cons e l ih => intro g0; simp only [List.foldl_cons]; rw [ih]; rfl
  have : ∀ (l : List Nat) (g0 : G), AdjL g0 → (∀ e ∈ l, (g0.edge e).src = (g0.edge e).dst) → AdjL (l.foldl stripLoop g0) := by
    intro l
    induction l with
    | nil => intro g0 h0 _; exact h0
    | cons e l ih =>
      intro g0 h0 hl
      simp only [List.foldl_cons]
      refine ih _ (adjL_stripLoop g0 h0 e (hl e (List.mem_cons_self ..))) ?_
      intro x hx
      have : (stripLoop g0 e).edge x = g0.edge x := rfl
      rw [this]; exact hl x (List.mem_cons_of_mem _ hx)
  apply this _ g h
  intro e he
  have := (List.mem_filter.1 he).2
  unfold G.selfLoops at this
  simpa using this

end Autog

namespace Autog

/-- executable form of `AdjL` (driver contract `K:adj`, evaluated on the components the pipeline receives) -/
def adjLb (g : G) : Bool :=
  (List.range g.nodes.size).all (fun n =>
    (g.node n).outs.all (fun e => decide (e < g.edges.size) && (g.edge e).src == n) &&
    (g.node n).ins.all (fun e => decide (e < g.edges.size) && (g.edge e).dst == n) &&
    decide ((g.node n).outs.Nodup) && decide ((g.node n).ins.Nodup)) &&
  (List.range g.edges.size).all (fun e => decide ((g.edge e).src < g.nodes.size) && decide ((g.edge e).dst < g.nodes.size)) &&
  g.elist.all (fun e => decide (e < g.edges.size)) && decide (g.elist.Nodup) &&
  (List.range g.nodes.size).all (fun n => (g.incident n).all fun e => g.elist.contains e)

theorem node_default_lists (g : G) (n : Nat) (hn : ¬ n < g.nodes.size) : (g.node n).ins = [] ∧ (g.node n).outs = [] := by
  simp only [G.node, Array.getD_eq_getD_getElem?]
  have : g.nodes[n]? = none := by simp; omega
  simp [this, default, instInhabitedNode.default]

theorem adjLb_sound (g : G) (h : adjLb g = true) : AdjL g := by
  unfold adjLb at h
  simp only [Bool.and_eq_true, List.all_eq_true, List.mem_range, decide_eq_true_eq, beq_iff_eq] at h
  obtain ⟨⟨⟨⟨h1, h2⟩, h3⟩, h4⟩, h5⟩ := h
  refine { outs := ?_, ins := ?_, ndo := ?_, ndi := ?_, ends := ?_, el := h3, elnd := h4, inEl := ?_ }
  rotate_right
  · intro n e he
    by_cases hn : n < g.nodes.size
    · have := h5 n hn e he; simpa using this
    · unfold G.incident at he
      rw [(node_default_lists g n hn).1, (node_default_lists g n hn).2] at he; cases he
  · intro n e he
    by_cases hn : n < g.nodes.size
    · exact (h1 n hn).1.1.1 e he
    · rw [(node_default_lists g n hn).2] at he; cases he
  · intro n e he
    by_cases hn : n < g.nodes.size
    · exact (h1 n hn).1.1.2 e he
    · rw [(node_default_lists g n hn).1] at he; cases he
  · intro n
    by_cases hn : n < g.nodes.size
    · exact (h1 n hn).1.2
    · rw [(node_default_lists g n hn).2]; exact List.nodup_nil
  · intro n
    by_cases hn : n < g.nodes.size
    · exact (h1 n hn).2
    · rw [(node_default_lists g n hn).1]; exact List.nodup_nil
  · intro e he; exact h2 e he

end Autog
