import Autog.Lemmas.LongestPathFuel
import Autog.Lemmas.HasCyclesTotal
import Autog.Model.Phase2
/-! The longest-path model never runs out of fuel on a well-formed acyclic graph state. Core-only. -/

namespace Autog
open LongestPath

theorem lp_sumW_le (g : G) (h : EdgesWF g) : LongestPath.sumW (outNbrs g) g.nodeIds ≤ g.edges.size + 2 * g.nodes.size := by
  have h1 : ∀ l : List Nat, LongestPath.sumW (outNbrs g) l = (l.map fun n => (g.node n).outs.length).sum + 2 * l.length := by
    intro l
    induction l with
    | nil => simp [LongestPath.sumW]
    | cons a l ih =>
      simp only [LongestPath.sumW, List.map_cons, List.sum_cons, List.length_cons, LongestPath.wNode] at ih ⊢
      have : (outNbrs g a).length = (g.node a).outs.length := by simp [outNbrs]
      omega
  have := h1 g.nodeIds
  have hl : g.nodeIds.length = g.nodes.size := by simp [G.nodeIds]
  have := h.outs_total
  omega

theorem heightsLoop_total (g : G) (h : EdgesWF g) (rank : Nat → Nat)
    (hR : ∀ v w, w ∈ outNbrs g v → w ≠ v → rank w < rank v) :
    ∀ (ns : List Nat) (memo : List (Nat × Nat)), (∀ n ∈ ns, n ∈ g.nodeIds) → ∃ memo', heightsLoop g ns memo = .ok memo'
  | [], memo, _ => ⟨memo, rfl⟩
  | n :: ns, memo, hns => by
    unfold heightsLoop
    by_cases hs : (look memo n).isSome = true
    · rw [if_pos hs]; exact heightsLoop_total g h rank hR ns memo (fun x hx => hns x (List.mem_cons_of_mem _ hx))
    · rw [if_neg hs]
      have hnone : look memo n = none := by simpa using hs
      have hn := hns n (List.mem_cons_self ..)
      have hnd : g.nodeIds.Nodup := by simp [G.nodeIds, List.nodup_range]
      have hadj : ∀ a ∈ g.nodeIds, ∀ m ∈ outNbrs g a, m ∈ g.nodeIds := by
        intro a ha m hm
        unfold outNbrs at hm
        obtain ⟨e, he, rfl⟩ := List.mem_map.1 hm
        have ha' : a < g.nodes.size := by simpa [G.nodeIds] using ha
        have := h.dst a ha' e he
        simpa [G.nodeIds] using this
      have hJ : JInv (outNbrs g) rank g.nodeIds ⟨[(n, outNbrs g n, 1)], memo⟩ :=
        { sfx := fun f hf => by
            have : f = (n, outNbrs g n, 1) := by simpa using hf
            subst this; exact fun x hx => hx
          ranks := by simp [LongestPath.stackNodes]
          fresh := fun f hf => by
            have : f = (n, outNbrs g n, 1) := by simpa using hf
            subst this; exact hnone
          sub := fun f hf => by
            have : f = (n, outNbrs g n, 1) := by simpa using hf
            subst this; exact hn }
      have hmu : LongestPath.mu (outNbrs g) g.nodeIds ⟨[(n, outNbrs g n, 1)], memo⟩ < lpFuel g := by
        have h1 := lp_sumW_le g h
        have hle : LongestPath.sumW (outNbrs g) (LongestPath.unseen g.nodeIds ⟨[(n, outNbrs g n, 1)], memo⟩)
            ≤ LongestPath.sumW (outNbrs g) g.nodeIds := by
          rw [sumW_eq, sumW_eq]; exact DfsHasCyclesSound.sumW_filter_le _ _ _
        have h2 : (outNbrs g n).length ≤ g.edges.size := by
          have : (outNbrs g n).length = (g.node n).outs.length := by simp [outNbrs]
          have hsum : (g.node n).outs.length ≤ (g.nodeIds.map fun n => (g.node n).outs.length).sum :=
            le_sum_of_mem' _ _ (List.mem_map.2 ⟨n, hn, rfl⟩)
          have := h.outs_total
          omega
        simp only [LongestPath.mu, LongestPath.sumF, List.map_cons, List.map_nil, List.sum_cons, List.sum_nil]
        unfold lpFuel; omega
      have hne := run_no_fuelOut (outNbrs g) rank hR g.nodeIds hnd hadj (lpFuel g) _ hJ hmu
      cases hr : run (outNbrs g) (lpFuel g) ⟨[(n, outNbrs g n, 1)], memo⟩ with
      | none => exact absurd hr hne
      | some m => exact heightsLoop_total g h rank hR ns m (fun x hx => hns x (List.mem_cons_of_mem _ hx))

/-- C01 / C11: on a well-formed acyclic state the longest-path traversal returns -/
theorem heights_total (g : G) (h : EdgesWF g) (rank : Nat → Nat)
    (hR : ∀ v w, w ∈ outNbrs g v → w ≠ v → rank w < rank v) : ∃ memo, heights g = .ok memo :=
  heightsLoop_total g h rank hR g.nodeIds [] (fun _ hn => hn)

end Autog
