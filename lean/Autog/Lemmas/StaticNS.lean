import Autog.Lemmas.Static
/-! The static part of the node table through the network simplex (layerer and, run on its auxiliary graph, positioner):
    the simplex only ever writes `Node.Layer` and edge attributes. Core-only. -/

namespace Autog

theorem statEq_setLayer (g : G) (n : Nat) (l : Int) : StatEq g (setLayer g n l) :=
  statEq_modNode g n _ (fun _ => rfl)

theorem statEq_modEdge (g : G) (e : Nat) (f : Edge → Edge) : StatEq g (g.modEdge e f) := StatEq.of_nodes rfl

theorem statEq_foldl_proj {α σ} (proj : σ → G) (f : σ → α → σ) (hf : ∀ s x, StatEq (proj s) (proj (f s x))) :
    ∀ (l : List α) (s : σ), StatEq (proj s) (proj (l.foldl f s))
  | [], _ => StatEq.refl _
  | x :: l, s => (hf s x).trans (statEq_foldl_proj proj f hf l (f s x))

theorem statEq_nsInitLayers_go : ∀ (fuel : Nat) (queue : List Nat) (unseen : Array Int) (g g' : G),
    nsInitLayers.go fuel queue unseen g = .ok g' → StatEq g g'
  | 0, _, _, _, _, h => by simp [nsInitLayers.go] at h
  | fuel + 1, queue, unseen, g, g', h => by
    unfold nsInitLayers.go at h
    split at h
    · simp only [pure, Except.pure, Except.ok.injEq] at h; subst h; exact StatEq.refl _
    · rename_i n rest
      simp only at h
      refine StatEq.trans ?_ (statEq_nsInitLayers_go fuel _ _ _ _ h)
      -- the fold over the out-edges only sets layers
      refine statEq_foldl_proj (fun (acc : G × Array Int × List Nat) => acc.1) _ ?_ _ (g, unseen, rest)
      intro acc e
      obtain ⟨g0, u0, q0⟩ := acc
      exact statEq_setLayer g0 _ _

theorem statEq_nsInitLayers (g g' : G) (h : nsInitLayers g = .ok g') : StatEq g g' := by
  unfold nsInitLayers at h
  exact statEq_nsInitLayers_go _ _ _ _ _ h

theorem statEq_tightTreeRun : ∀ (fuel : Nat) (st : List (Nat × List Nat)) (s s' : TTSt),
    tightTreeRun fuel st s = .ok s' → StatEq s.g s'.g
  | 0, _, _, _, h => by simp [tightTreeRun] at h
  | fuel + 1, [], s, s', h => by
    simp only [tightTreeRun, pure, Except.pure, Except.ok.injEq] at h; subst h; exact StatEq.refl _
  | fuel + 1, (_, []) :: tl, s, s', h => by
    simp only [tightTreeRun] at h; exact statEq_tightTreeRun fuel tl s s' h
  | fuel + 1, (n, e :: es) :: tl, s, s', h => by
    simp only [tightTreeRun] at h
    split at h
    · exact statEq_tightTreeRun fuel _ s s' h
    · split at h
      · have := statEq_tightTreeRun fuel _ _ s' h; exact this
      · split at h
        · have := statEq_tightTreeRun fuel _ _ s' h
          exact (statEq_modEdge s.g e _).trans this
        · have := statEq_tightTreeRun fuel _ _ s' h; exact this

theorem statEq_tightTree (g g' : G) (tn : List Nat) (h : tightTree g = .ok (g', tn)) : StatEq g g' := by
  unfold tightTree at h
  simp only [bind, Except.bind] at h
  split at h
  · cases h
  · rename_i s hs
    simp only [pure, Except.pure, Except.ok.injEq, Prod.mk.injEq] at h
    rw [← h.1]
    exact statEq_tightTreeRun _ _ _ _ hs

theorem statEq_walkStree : ∀ (fuel : Nat) (st : List (Nat × List Nat × Int × Int)) (vis : List Nat) (s s' : NS),
    walkStree fuel st vis s = .ok s' → s'.g = s.g
  | 0, _, _, _, _, h => by simp [walkStree] at h
  | fuel + 1, [], _, s, s', h => by
    simp only [walkStree, pure, Except.pure, Except.ok.injEq] at h; subst h; rfl
  | fuel + 1, (n, [], _, lim) :: tl, vis, s, s', h => by
    simp only [walkStree] at h
    split at h
    · have := statEq_walkStree fuel _ _ _ s' h; exact this
    · have := statEq_walkStree fuel _ _ _ s' h; exact this
  | fuel + 1, (n, e :: es, lo, lim) :: tl, vis, s, s', h => by
    simp only [walkStree] at h
    split at h
    · have := statEq_walkStree fuel _ _ _ s' h; exact this
    · have := statEq_walkStree fuel _ _ _ s' h; exact this

theorem setStreeValues_g (s s' : NS) (h : setStreeValues s = .ok s') : s'.g = s.g := by
  unfold setStreeValues at h
  simp only at h
  have := statEq_walkStree _ _ _ _ _ h
  exact this

theorem statEq_setCutValues (s : NS) : StatEq s.g (setCutValues s).g := by
  unfold setCutValues
  simp only
  exact statEq_foldl _ (fun g e => by split; exact StatEq.refl _; exact statEq_modEdge _ _ _) _ s.g


theorem statEq_rounds : ∀ (fuel : Nat) (g g' : G), feasibleTree.rounds fuel g = .ok g' → StatEq g g'
  | 0, _, _, h => by simp [feasibleTree.rounds] at h
  | fuel + 1, g, g', h => by
    unfold feasibleTree.rounds at h
    simp only [bind, Except.bind] at h
    have h0 : StatEq g (g.elist.foldl (fun g e => g.modEdge e fun ed => { ed with tree := false }) g) :=
      statEq_foldl _ (fun g e => statEq_modEdge g e _) _ g
    cases ht : tightTree (g.elist.foldl (fun g e => g.modEdge e fun ed => { ed with tree := false }) g) with
    | error e => rw [ht] at h; cases h
    | ok r =>
      obtain ⟨g1, tn⟩ := r
      rw [ht] at h
      simp only at h
      have h1 := h0.trans (statEq_tightTree _ _ _ ht)
      split at h
      · simp only [pure, Except.pure, Except.ok.injEq] at h; subst h; exact h1
      · cases hi : incidentNonTreeEdge g1 tn with
        | error e => rw [hi] at h; cases h
        | ok e =>
          rw [hi] at h
          simp only at h
          refine h1.trans (StatEq.trans ?_ (statEq_rounds fuel _ _ h))
          exact statEq_foldl _ (fun g n => statEq_setLayer g n _) _ g1

theorem statEq_feasibleTree (g : G) (s : NS) (h : feasibleTree g = .ok s) : StatEq g s.g := by
  unfold feasibleTree at h
  simp only [bind, Except.bind] at h
  cases h1 : nsInitLayers g with
  | error e => rw [h1] at h; cases h
  | ok g1 =>
    rw [h1] at h
    simp only at h
    cases h2 : feasibleTree.rounds (g1.nodes.size + 2) g1 with
    | error e => rw [h2] at h; cases h
    | ok g2 =>
      rw [h2] at h
      simp only at h
      cases h3 : setStreeValues { g := g2, lim := #[], low := #[] } with
      | error e => rw [h3] at h; cases h
      | ok s3 =>
        rw [h3] at h
        simp only [pure, Except.pure, Except.ok.injEq] at h
        subst h
        have hg := setStreeValues_g _ _ h3
        have := statEq_setCutValues s3
        rw [hg] at this
        exact ((statEq_nsInitLayers _ _ h1).trans (statEq_rounds _ _ _ h2)).trans this

theorem statEq_exchange (s s' : NS) (e f : Nat) (h : exchange s e f = .ok s') : StatEq s.g s'.g := by
  unfold exchange at h
  simp only [bind, Except.bind, pure, Except.pure] at h
  split at h
  · cases h
  · split at h
    · cases h
    · split at h
      · cases h
      · rename_i s3 h3
        simp only [Except.ok.injEq] at h
        subst h
        have hg := setStreeValues_g _ _ h3
        have := statEq_setCutValues s3
        rw [hg] at this
        refine StatEq.trans ?_ this
        simp only
        refine StatEq.trans ?_ (statEq_modEdge _ f _)
        refine StatEq.trans ?_ (statEq_modEdge _ e _)
        split
        · exact statEq_foldl _ (fun g n => by split; exact statEq_setLayer g n _; exact StatEq.refl g) _ s.g
        · exact StatEq.refl _

theorem statEq_nsLoop (maxitr : Nat) : ∀ (fuel i : Nat) (s s' : NS) (p : Nat),
    execNetworkSimplex.loop maxitr fuel i s = .ok (s', p) → StatEq s.g s'.g
  | 0, _, s, s', p, h => by
    simp only [execNetworkSimplex.loop, pure, Except.pure, Except.ok.injEq, Prod.mk.injEq] at h
    rw [← h.1]; exact StatEq.refl _
  | fuel + 1, i, s, s', p, h => by
    unfold execNetworkSimplex.loop at h
    split at h
    · simp only [pure, Except.pure, Except.ok.injEq, Prod.mk.injEq] at h; rw [← h.1]; exact StatEq.refl _
    · split at h
      · simp only [pure, Except.pure, Except.ok.injEq, Prod.mk.injEq] at h; rw [← h.1]; exact StatEq.refl _
      · split at h
        · simp only [pure, Except.pure, Except.ok.injEq, Prod.mk.injEq] at h; rw [← h.1]; exact StatEq.refl _
        · simp only [bind, Except.bind] at h
          split at h
          · cases h
          · rename_i s2 h2
            exact (statEq_exchange _ _ _ _ h2).trans (statEq_nsLoop maxitr fuel _ _ _ _ h)

theorem statEq_nsNormalize (g : G) : StatEq g (nsNormalize g) := by
  unfold nsNormalize
  split
  · exact StatEq.refl _
  · simp only
    split
    · exact StatEq.refl _
    · exact statEq_foldl _ (fun g n => statEq_setLayer g n _) _ g

theorem statEq_vbalanceStep (lmax : Int) (acc : G × List (Int × Int)) (n : Nat) : StatEq acc.1 (vbalanceStep lmax acc n).1 := by
  obtain ⟨g0, ls⟩ := acc
  unfold vbalanceStep
  simp only
  split
  · exact StatEq.refl _
  · split
    · exact statEq_setLayer g0 n _
    · exact StatEq.refl _

theorem statEq_vbalance (g : G) : StatEq g (vbalance g) := by
  unfold vbalance
  exact statEq_foldl_proj (fun (acc : G × List (Int × Int)) => acc.1) _ (statEq_vbalanceStep _) _ (g, _)

theorem statEq_adjustLayers (s : NS) : ∀ (fuel : Nat) (st : List (Nat × Int)) (g g' : G),
    adjustLayers s fuel st g = .ok g' → StatEq g g'
  | 0, _, _, _, h => by simp [adjustLayers] at h
  | fuel + 1, [], g, g', h => by
    simp only [adjustLayers, pure, Except.pure, Except.ok.injEq] at h; subst h; exact StatEq.refl _
  | fuel + 1, (n, delta) :: tl, g, g', h => by
    simp only [adjustLayers] at h
    exact (statEq_setLayer g n _).trans (statEq_adjustLayers s fuel _ _ _ h)

theorem statEq_hbalance (s : NS) (g' : G) (h : hbalance s = .ok g') : StatEq s.g g' := by
  unfold hbalance at h
  refine foldlM_inv StatEq StatEq.refl (fun _ _ _ => StatEq.trans) _ ?_ _ _ _ h
  intro g e g1 hg
  simp only at hg
  split at hg
  · simp only [pure, Except.pure, Except.ok.injEq] at hg; subst hg; exact StatEq.refl _
  · split at hg
    · simp only [pure, Except.pure, Except.ok.injEq] at hg; subst hg; exact StatEq.refl _
    · split at hg
      · simp only [pure, Except.pure, Except.ok.injEq] at hg; subst hg; exact StatEq.refl _
      · split at hg
        · exact statEq_adjustLayers _ _ _ _ _ hg
        · exact statEq_adjustLayers _ _ _ _ _ hg

/-- the whole network simplex: only layers and edge attributes change -/
theorem statEq_execNetworkSimplex (thor mif bal : Nat) (g g' : G) (p m : Nat)
    (h : execNetworkSimplex thor mif bal g = .ok (g', p, m)) : StatEq g g' := by
  unfold execNetworkSimplex at h
  simp only [bind, Except.bind] at h
  cases h1 : feasibleTree g with
  | error e => rw [h1] at h; cases h
  | ok s =>
    rw [h1] at h
    simp only at h
    split at h
    · cases h
    · rename_i r hr
      obtain ⟨s2, piv⟩ := r
      have hloop := statEq_nsLoop _ _ _ _ _ _ hr
      have hbase := (statEq_feasibleTree g s h1).trans hloop
      simp only at h
      split at h
      · simp only [pure, Except.pure, Except.ok.injEq, Prod.mk.injEq] at h
        rw [← h.1]
        exact hbase.trans ((statEq_nsNormalize s2.g).trans (statEq_vbalance _))
      · simp only [pure, Except.pure] at h
        cases hh : hbalance { s2 with g := nsNormalize s2.g } with
        | error e => rw [hh] at h; cases h
        | ok g4 =>
          rw [hh] at h
          simp only [Except.ok.injEq, Prod.mk.injEq] at h
          rw [← h.1]
          have := statEq_hbalance { s2 with g := nsNormalize s2.g } g4 hh
          exact hbase.trans ((statEq_nsNormalize s2.g).trans (this.trans (statEq_nsNormalize g4)))
      · simp only [pure, Except.pure, Except.ok.injEq, Prod.mk.injEq] at h
        rw [← h.1]
        exact hbase.trans (statEq_nsNormalize s2.g)

end Autog
