/-! Spike (C12): the accumulator-tree walk of phase3/crossings.go counts, for the inserted
    position p, the previously inserted positions greater than p. Core-only.
    1-based heap index j = i+1 (Go uses i): left child ⇔ j even ⇔ i odd; parent j/2; sibling j+1. -/


namespace Autog.C12CountCrossingsComposed

def upd (T : Nat → Nat) (i : Nat) : Nat → Nat := fun x => if x = i then T x + 1 else T x

/-- `for i > 0 { if i%2 != 0 { cc += tree[i+1] }; i = (i-1)/2; tree[i]++ }` in 1-based indices -/
def walk (j : Nat) (T : Nat → Nat) (acc : Nat) : (Nat → Nat) × Nat :=
  if h : j ≤ 1 then (T, acc)
  else walk (j / 2) (upd T (j / 2)) (if j % 2 = 0 then acc + T (j + 1) else acc)
termination_by j
decreasing_by omega

/-- `i := pos + k; tree[i]++; …` with k+1 = 2^c leaves -/
def ins (c : Nat) (T : Nat → Nat) (p : Nat) : (Nat → Nat) × Nat :=
  walk (2 ^ c + p) (upd T (2 ^ c + p)) 0

/-- inserted positions below node `a` of height `d` -/
def cnt (ps : List Nat) (a d : Nat) : Nat := ps.countP (fun q => q >>> d == a)
/-- inserted positions greater than p inside p's subtree of height d -/
def G (ps : List Nat) (p d : Nat) : Nat := ps.countP (fun q => decide (p < q) && (q >>> d == p >>> d))

theorem shr_mono {a b : Nat} (h : a ≤ b) (d : Nat) : a >>> d ≤ b >>> d := by
  simp only [Nat.shiftRight_eq_div_pow]; exact Nat.div_le_div_right h

/-- one level up: the greater positions in the bigger subtree are those of the smaller subtree plus,
    if we are a left child, everything under the right sibling -/
theorem G_succ (ps : List Nat) (p d : Nat) :
    G ps p (d + 1) = G ps p d + (if (p >>> d) % 2 = 0 then cnt ps (p >>> d + 1) d else 0) := by
  unfold G cnt
  induction ps with
  | nil => simp
  | cons q ps ih =>
    simp only [List.countP_cons, ih]
    have e1 : q >>> (d + 1) = (q >>> d) / 2 := by simp [Nat.shiftRight_succ]
    have e2 : p >>> (d + 1) = (p >>> d) / 2 := by simp [Nat.shiftRight_succ]
    have m1 : q ≤ p → q >>> d ≤ p >>> d := fun h => shr_mono h d
    have m2 : p ≤ q → p >>> d ≤ q >>> d := fun h => shr_mono h d
    rw [e1, e2]
    generalize q >>> d = a at *
    generalize p >>> d = b at *
    simp only [Bool.and_eq_true, decide_eq_true_eq, beq_iff_eq]
    repeat' split
    all_goals omega

theorem G_zero (ps : List Nat) (p : Nat) : G ps p 0 = 0 := by
  unfold G
  simp only [Nat.shiftRight_zero]
  induction ps with
  | nil => rfl
  | cons q ps ih =>
    simp only [List.countP_cons, ih, Bool.and_eq_true, decide_eq_true_eq, beq_iff_eq]
    split <;> omega

theorem G_top (c : Nat) (ps : List Nat) (p : Nat) (hps : ∀ q ∈ ps, q < 2 ^ c) (hp : p < 2 ^ c) :
    G ps p c = ps.countP (fun q => decide (p < q)) := by
  unfold G
  induction ps with
  | nil => rfl
  | cons q ps ih =>
    have hq := hps q (List.mem_cons_self ..)
    have := ih (fun q h => hps q (List.mem_cons_of_mem _ h))
    simp only [List.countP_cons, this]
    have h1 : q >>> c = 0 := by simp [Nat.shiftRight_eq_div_pow, Nat.div_eq_of_lt hq]
    have h2 : p >>> c = 0 := by simp [Nat.shiftRight_eq_div_pow, Nat.div_eq_of_lt hp]
    simp [h1, h2]

/-- the tree stores, at heap index 2^m + a (level m, a-th node), the number of inserted positions below it -/
def TreeInv (c : Nat) (ps : List Nat) (T : Nat → Nat) : Prop :=
  ∀ m d a, m + d = c → a < 2 ^ m → T (2 ^ m + a) = cnt ps a d

/-- reads of the walk are not disturbed by the bumps already made: `T` differs from `T₀` only at
    the current node or at indices ≥ 2j -/
theorem walk_acc (c : Nat) (ps : List Nat) (p : Nat) (T₀ : Nat → Nat) (hT₀ : TreeInv c ps T₀) :
    ∀ m d, m + d = c → p >>> d < 2 ^ m →
    ∀ (T : Nat → Nat) (acc : Nat),
      (∀ x, x ≠ 2 ^ m + p >>> d → x < 2 * (2 ^ m + p >>> d) → T x = T₀ x) →
      acc = G ps p d →
      (walk (2 ^ m + p >>> d) T acc).2 = G ps p c := by
  intro m
  induction m with
  | zero =>
    intro d hd ha T acc _ hacc
    have : p >>> d = 0 := by simpa using ha
    rw [walk]; simp [this]
    have : d = c := by omega
    subst this; exact hacc
  | succ m ih =>
    intro d hd ha T acc hT hacc
    have hpow : 2 ^ (m + 1) = 2 * 2 ^ m := by rw [Nat.pow_succ]; omega
    have hpos : 0 < 2 ^ m := Nat.two_pow_pos m
    have e2 : p >>> (d + 1) = (p >>> d) / 2 := by simp [Nat.shiftRight_succ]
    have hsib := hT₀ (m + 1) d (p >>> d + 1) hd
    have hG := G_succ ps p d
    specialize ih (d + 1) (by omega)
    rw [e2] at ih
    generalize p >>> d = b at *
    rw [hpow] at ha hT hsib ⊢
    clear hpow
    generalize 2 ^ m = P at *
    rw [walk]
    have hj : ¬ (2 * P + b ≤ 1) := by omega
    simp only [hj, dite_false]
    have hhalf : (2 * P + b) / 2 = P + b / 2 := by omega
    have hpar : (2 * P + b) % 2 = b % 2 := by omega
    rw [hhalf, hpar]
    apply ih (by omega)
    · intro x hx1 hx2
      unfold upd
      simp only [hx1, if_false]
      apply hT x <;> omega
    · rw [hG, hacc]
      by_cases hb : b % 2 = 0
      · simp only [hb, if_true]
        congr 1
        have hs : T (2 * P + b + 1) = T₀ (2 * P + b + 1) := hT _ (by omega) (by omega)
        rw [hs, ← hsib (by omega)]
        congr 1
      · simp [hb]

/-- C12 core, counting half: inserting position p returns the number of earlier positions > p -/
theorem insert_count (c : Nat) (ps : List Nat) (p : Nat) (T₀ : Nat → Nat)
    (hT₀ : TreeInv c ps T₀) (hps : ∀ q ∈ ps, q < 2 ^ c) (hp : p < 2 ^ c) :
    (ins c T₀ p).2 = ps.countP (fun q => decide (p < q)) := by
  unfold ins
  have h := walk_acc c ps p T₀ hT₀ c 0 (by omega) (by simpa using hp) (upd T₀ (2 ^ c + p)) 0
  simp only [Nat.shiftRight_zero] at h
  rw [h ?_ (G_zero ps p).symm, G_top c ps p hps hp]
  intro x hx _
  simp [upd, hx]


/-! ### the updated tree satisfies the invariant for `p :: ps` -/

theorem cnt_cons (ps : List Nat) (p a d : Nat) :
    cnt (p :: ps) a d = cnt ps a d + (if p >>> d = a then 1 else 0) := by
  simp [cnt, List.countP_cons]

/-- heap indices `2^m + a` with `a < 2^m` are unique -/
theorem heap_inj {m m' a a' : Nat} (ha : a < 2 ^ m) (ha' : a' < 2 ^ m') (h : 2 ^ m + a = 2 ^ m' + a') :
    m = m' ∧ a = a' := by
  have key : ∀ {m m' a a' : Nat}, a < 2 ^ m → a' < 2 ^ m' → 2 ^ m + a = 2 ^ m' + a' → ¬ m < m' := by
    intro m m' a a' ha ha' h hlt
    have : 2 ^ (m + 1) ≤ 2 ^ m' := Nat.pow_le_pow_right (by omega) hlt
    have : 2 ^ (m + 1) = 2 * 2 ^ m := by rw [Nat.pow_succ]; omega
    omega
  have h1 := key ha ha' h
  have h2 := key ha' ha h.symm
  have : m = m' := by omega
  subst this
  exact ⟨rfl, by omega⟩

/-- the walk bumps exactly the proper ancestors of the start node -/
theorem walk_tree (c : Nat) (ps : List Nat) (p : Nat) :
    ∀ m d, m + d = c → p >>> d < 2 ^ m →
    ∀ (T : Nat → Nat) (acc : Nat),
      (∀ m' d' a, m' + d' = c → a < 2 ^ m' →
          T (2 ^ m' + a) = cnt ps a d' + (if d' ≤ d ∧ p >>> d' = a then 1 else 0)) →
      TreeInv c (p :: ps) (walk (2 ^ m + p >>> d) T acc).1 := by
  intro m
  induction m with
  | zero =>
    intro d hd ha T acc hT
    have hb : p >>> d = 0 := by simpa using ha
    rw [walk]; simp only [hb]
    simp only [Nat.pow_zero, Nat.add_zero, Nat.le_refl, dite_true]
    intro m' d' a hmd ha'
    rw [hT m' d' a hmd ha', cnt_cons]
    have : d' ≤ d := by omega
    simp [this]
  | succ m ih =>
    intro d hd ha T acc hT
    have hpow : 2 ^ (m + 1) = 2 * 2 ^ m := by rw [Nat.pow_succ]; omega
    have hpos : 0 < 2 ^ m := Nat.two_pow_pos m
    have e2 : p >>> (d + 1) = (p >>> d) / 2 := by simp [Nat.shiftRight_succ]
    have hb' : p >>> (d + 1) < 2 ^ m := by
      rw [e2]; generalize p >>> d = b at *; omega
    have hhalf : (2 ^ (m + 1) + p >>> d) / 2 = 2 ^ m + p >>> (d + 1) := by
      rw [e2]; generalize p >>> d = b at *; omega
    have hj : ¬ (2 ^ (m + 1) + p >>> d ≤ 1) := by
      clear hhalf hb' e2 hT; generalize p >>> d = b at *; omega
    rw [walk]
    simp only [hj, dite_false]
    rw [hhalf]
    apply ih (d + 1) (by omega) hb'
    intro m' d' a hmd ha'
    unfold upd
    by_cases hx : 2 ^ m' + a = 2 ^ m + p >>> (d + 1)
    · -- the bumped parent
      obtain ⟨rfl, rfl⟩ := heap_inj ha' hb' hx
      have hd' : d' = d + 1 := by omega
      subst hd'
      rw [if_pos rfl, hT m' (d + 1) _ hmd ha']
      have h1 : ¬ (d + 1 ≤ d ∧ p >>> (d + 1) = p >>> (d + 1)) := by omega
      have h2 : (d + 1 ≤ d + 1 ∧ p >>> (d + 1) = p >>> (d + 1)) := ⟨Nat.le_refl _, rfl⟩
      rw [if_neg h1, if_pos h2]
    · rw [if_neg hx, hT m' d' a hmd ha']
      congr 1
      by_cases h1 : d' ≤ d
      · have : d' ≤ d + 1 := by omega
        simp [h1, this]
      · by_cases h2 : d' = d + 1
        · subst h2
          have hm : m' = m := by omega
          subst hm
          have h3 : ¬ (p >>> (d + 1) = a) := by intro h; apply hx; rw [h]
          simp [h3]
        · have : ¬ d' ≤ d + 1 := by omega
          simp [h1, this]

/-- C12 core, tree half -/
theorem insert_tree (c : Nat) (ps : List Nat) (p : Nat) (T₀ : Nat → Nat)
    (hT₀ : TreeInv c ps T₀) (hp : p < 2 ^ c) :
    TreeInv c (p :: ps) (ins c T₀ p).1 := by
  unfold ins
  have h := walk_tree c ps p c 0 (by omega) (by simpa using hp) (upd T₀ (2 ^ c + p)) 0
  simp only [Nat.shiftRight_zero] at h
  apply h
  intro m' d' a hmd ha'
  unfold upd
  by_cases hx : 2 ^ m' + a = 2 ^ c + p
  · obtain ⟨rfl, rfl⟩ := heap_inj ha' hp hx
    have : d' = 0 := by omega
    subst this
    simp [hT₀ m' 0 a hmd ha']
  · simp only [hx, if_false, hT₀ m' d' a hmd ha']
    by_cases h0 : d' = 0
    · subst h0
      have hm : m' = c := by omega
      subst hm
      have : ¬ (p = a) := by intro h; apply hx; rw [h]
      simp [this]
    · have : ¬ d' ≤ 0 := by omega
      simp [this]


-- execution / non-vacuity: insert 2,0,3,1 into a tree with 4 leaves; inversions so far
def runAll (c : Nat) : List Nat → (Nat → Nat) × Nat
  | [] => (fun _ => 0, 0)
  | p :: ps => let (T, n) := runAll c ps; let (T', k) := ins c T p; (T', n + k)


/-! ### the whole loop: inserting a sequence counts its inversions -/

def inversions : List Nat → Nat
  | [] => 0
  | p :: ps => inversions ps + ps.countP (fun q => decide (p < q))

theorem treeInv_zero (c : Nat) : TreeInv c [] (fun _ => 0) := by
  intro m d a _ _; simp [cnt]

/-- the accumulator tree loop of `countCrossings`, on positions below 2^c (head of the list = last inserted) -/
theorem runAll_spec (c : Nat) : ∀ (ps : List Nat), (∀ q ∈ ps, q < 2 ^ c) →
    TreeInv c ps (runAll c ps).1 ∧ (runAll c ps).2 = inversions ps
  | [], _ => ⟨treeInv_zero c, rfl⟩
  | p :: ps, h => by
    have hps := fun q hq => h q (List.mem_cons_of_mem _ hq)
    have hp := h p (List.mem_cons_self ..)
    obtain ⟨ih1, ih2⟩ := runAll_spec c ps hps
    have h1 := insert_tree c ps p (runAll c ps).1 ih1 hp
    have h2 := insert_count c ps p (runAll c ps).1 ih1 hps hp
    simp only [runAll, inversions]
    exact ⟨h1, by rw [h2, ih2]⟩


/-! Spike (C12, continued): inversions of the target sequence = crossings, for a lexicographically sorted,
    duplicate-free list of (upper position, lower position) pairs. Core-only. -/

-- number of earlier elements greater than each later one; the head of the list is the LAST inserted

/-- two edges cross: their ends are ordered oppositely -/
def crossP (e f : Nat × Nat) : Bool := (decide (e.1 < f.1) && decide (f.2 < e.2)) || (decide (f.1 < e.1) && decide (e.2 < f.2))

theorem crossP_symm (e f : Nat × Nat) : crossP e f = crossP f e := by
  unfold crossP; rw [Bool.or_comm]

/-- crossing pairs of a list of edges: each unordered pair once -/
def crossings : List (Nat × Nat) → Nat
  | [] => 0
  | e :: es => crossings es + es.countP (crossP e)

/-- the count does not depend on the order of the edges -/
theorem crossings_perm : ∀ {l₁ l₂ : List (Nat × Nat)}, l₁.Perm l₂ → crossings l₁ = crossings l₂ := by
  intro l₁ l₂ h
  induction h with
  | nil => rfl
  | cons x hp ih => simp only [crossings, ih, hp.countP_eq]
  | swap x y l =>
    simp only [crossings, List.countP_cons, crossP_symm x y]
    omega
  | trans _ _ ih1 ih2 => rw [ih1, ih2]

/-- sorted in DEcreasing lexicographic order from the head (the head is the last inserted = the largest) -/
def LexSorted : List (Nat × Nat) → Prop
  | [] => True
  | e :: es => (∀ f ∈ es, f.1 < e.1 ∨ (f.1 = e.1 ∧ f.2 < e.2)) ∧ LexSorted es

/-- for a lex-sorted list the inversions of the lower positions are the crossings -/
theorem inversions_eq_crossings : ∀ (es : List (Nat × Nat)), LexSorted es →
    inversions (es.map (·.2)) = crossings es
  | [], _ => rfl
  | e :: es, h => by
    obtain ⟨h1, h2⟩ := h
    simp only [List.map_cons, inversions, crossings, inversions_eq_crossings es h2]
    congr 1
    rw [List.countP_map]
    apply List.countP_congr
    intro f hf
    simp only [Function.comp, crossP, decide_eq_true_eq, Bool.or_eq_true, Bool.and_eq_true]
    rcases h1 f hf with h | ⟨h3, h4⟩
    · constructor
      · intro hh; exact .inr ⟨h, hh⟩
      · rintro (⟨h5, _⟩ | ⟨_, h6⟩)
        · omega
        · exact h6
    · constructor
      · intro hh; omega
      · rintro (⟨h5, _⟩ | ⟨h5, _⟩) <;> omega



/-! Spike (C12, continued): the radix-sort step of countCrossings. Scanning the m×n presence matrix row by row
    lists the edges in ascending lexicographic order, without duplicates, and it lists exactly the marked cells. -/

def lexLt (a b : Nat × Nat) : Prop := a.1 < b.1 ∨ (a.1 = b.1 ∧ a.2 < b.2)

/-- `for i in rows { for j in cols { if mat[i][j] != nil { emit } } }` -/
def scan (m n : Nat) (present : Nat → Nat → Bool) : List (Nat × Nat) :=
  (List.range m).flatMap (fun i => (List.range n).filterMap (fun j => if present i j then some (i, j) else none))

theorem ite_some {β} {c : Bool} {v x : β} (h : (if c then some v else none) = some x) : c = true ∧ x = v := by
  cases c <;> simp at h ⊢; exact h.symm

theorem mem_scan {m n : Nat} {present : Nat → Nat → Bool} {p : Nat × Nat} :
    p ∈ scan m n present ↔ p.1 < m ∧ p.2 < n ∧ present p.1 p.2 = true := by
  unfold scan
  simp only [List.mem_flatMap, List.mem_range, List.mem_filterMap]
  constructor
  · rintro ⟨i, hi, j, hj, h⟩
    split at h
    · rename_i hp
      simp only [Option.some.injEq] at h
      subst h; exact ⟨hi, hj, hp⟩
    · cases h
  · rintro ⟨h1, h2, h3⟩
    exact ⟨p.1, h1, p.2, h2, by simp [h3]⟩

/-- ascending lexicographic order -/
theorem scan_sorted (m n : Nat) (present : Nat → Nat → Bool) : List.Pairwise lexLt (scan m n present) := by
  unfold scan
  rw [List.pairwise_flatMap]
  constructor
  · intro i _
    rw [List.pairwise_filterMap]
    refine List.Pairwise.imp ?_ (List.pairwise_lt_range (n := n))
    intro a b hab x hx y hy
    obtain ⟨_, rfl⟩ := ite_some hx
    obtain ⟨_, rfl⟩ := ite_some hy
    exact .inr ⟨rfl, hab⟩
  · refine List.Pairwise.imp ?_ (List.pairwise_lt_range (n := m))
    intro a b hab x hx y hy
    simp only [List.mem_filterMap, List.mem_range] at hx hy
    obtain ⟨j, _, hj⟩ := hx
    obtain ⟨k, _, hk⟩ := hy
    obtain ⟨_, rfl⟩ := ite_some hj
    obtain ⟨_, rfl⟩ := ite_some hk
    exact .inl hab

theorem lexLt_irrefl (a : Nat × Nat) : ¬ lexLt a a := by
  unfold lexLt; omega

theorem scan_nodup (m n : Nat) (present : Nat → Nat → Bool) : (scan m n present).Nodup := by
  have := scan_sorted m n present
  refine this.imp ?_
  intro a b h heq
  rw [heq] at h
  exact lexLt_irrefl b h

/-- the scan is a permutation of any duplicate-free edge list that marks exactly the same cells -/
theorem scan_perm (m n : Nat) (es : List (Nat × Nat)) (hnd : es.Nodup)
    (hb : ∀ e ∈ es, e.1 < m ∧ e.2 < n) :
    (scan m n (fun i j => es.contains (i, j))).Perm es := by
  rw [List.perm_ext_iff_of_nodup (scan_nodup ..) hnd]
  intro a
  rw [mem_scan]
  constructor
  · rintro ⟨_, _, h⟩; simpa using h
  · intro h; exact ⟨(hb a h).1, (hb a h).2, by simpa using h⟩

/-- inserted-last-first view: the reversed scan is sorted descending from the head -/

theorem lexSorted_of_pairwise : ∀ (l : List (Nat × Nat)), List.Pairwise (fun a b => lexLt b a) l → LexSorted l
  | [], _ => trivial
  | e :: es, h => by
    rw [List.pairwise_cons] at h
    exact ⟨fun f hf => h.1 f hf, lexSorted_of_pairwise es h.2⟩

theorem scan_reverse_lexSorted (m n : Nat) (present : Nat → Nat → Bool) :
    LexSorted (scan m n present).reverse :=
  lexSorted_of_pairwise _ (List.pairwise_reverse.2 (scan_sorted m n present))


/-! ## composition: the loop of countCrossings returns the crossing count -/

/-- `countCrossings` on an m×n bilayer with duplicate-free edges (upper pos, lower pos), n ≤ 2^c leaves -/
def countCrossingsModel (c m n : Nat) (es : List (Nat × Nat)) : Nat :=
  (runAll c (((scan m n (fun i j => es.contains (i, j))).reverse).map (·.2))).2

theorem countCrossings_spec (c m n : Nat) (es : List (Nat × Nat)) (hnd : es.Nodup)
    (hb : ∀ e ∈ es, e.1 < m ∧ e.2 < n) (hn : n ≤ 2 ^ c) :
    countCrossingsModel c m n es = crossings es := by
  unfold countCrossingsModel
  have hperm := scan_perm m n es hnd hb
  have hlt : ∀ q ∈ ((scan m n (fun i j => es.contains (i, j))).reverse).map (·.2), q < 2 ^ c := by
    intro q hq
    obtain ⟨e, he, rfl⟩ := List.mem_map.1 hq
    have he' : e ∈ es := hperm.mem_iff.1 (List.mem_reverse.1 he)
    have := (hb e he').2
    omega
  rw [(runAll_spec c _ hlt).2]
  rw [inversions_eq_crossings _ (scan_reverse_lexSorted m n _)]
  exact crossings_perm ((List.reverse_perm _).trans hperm)

#eval countCrossingsModel 2 3 4 [(0, 2), (1, 0), (1, 3), (2, 1)]

end Autog.C12CountCrossingsComposed
