/-! Spike (C10 d, core): tree-flow conservation. In the rooted tree left by the walk (parent records,
    `anc w = p :: anc p`), let s(x) = Σ_{w in subtree of x} b(w). Then for every node v
        s(v) = b(v) + Σ_{children c of v} s(c),
    i.e. sending s(child) along every tree edge satisfies the demands b. Core-only. -/


namespace Autog.TreeFlowConservation

def sumL : List Int → Int
  | [] => 0
  | a :: l => a + sumL l

theorem sumL_append (l₁ l₂ : List Int) : sumL (l₁ ++ l₂) = sumL l₁ + sumL l₂ := by
  induction l₁ with
  | nil => simp [sumL]
  | cons a l ih => simp only [List.cons_append, sumL, ih]; omega

theorem sumL_map_add {α} (l : List α) (f g : α → Int) :
    sumL (l.map (fun x => f x + g x)) = sumL (l.map f) + sumL (l.map g) := by
  induction l with
  | nil => simp [sumL]
  | cons a l ih => simp only [List.map_cons, sumL, ih]; omega

theorem sumL_map_congr {α} (l : List α) (f g : α → Int) (h : ∀ x ∈ l, f x = g x) :
    sumL (l.map f) = sumL (l.map g) := by
  induction l with
  | nil => rfl
  | cons a l ih =>
    simp only [List.map_cons, sumL]
    rw [h a (List.mem_cons_self ..), ih (fun x hx => h x (List.mem_cons_of_mem _ hx))]

theorem sumL_zero {α} (l : List α) : sumL (l.map (fun _ => (0 : Int))) = 0 := by
  induction l with
  | nil => rfl
  | cons _ _ ih => simp only [List.map_cons, sumL, ih]; omega

/-- swap two finite sums -/
theorem sumL_swap {α β} (l₁ : List α) (l₂ : List β) (f : α → β → Int) :
    sumL (l₁.map (fun a => sumL (l₂.map (fun b => f a b)))) =
    sumL (l₂.map (fun b => sumL (l₁.map (fun a => f a b)))) := by
  induction l₁ with
  | nil => simp only [List.map_nil, sumL]; exact (sumL_zero l₂).symm
  | cons a l ih =>
    simp only [List.map_cons, sumL, ih]
    rw [← sumL_map_add]

theorem sumL_map_mul_left {α} (l : List α) (c : Int) (f : α → Int) :
    sumL (l.map (fun x => c * f x)) = c * sumL (l.map f) := by
  induction l with
  | nil => simp [sumL]
  | cons a l ih => simp only [List.map_cons, sumL, ih, Int.mul_add]

structure Rooted (root : Nat) (nodes : List Nat) (anc : Nat → List Nat) (par : List (Nat × Nat × Nat)) : Prop where
  rootanc : anc root = []
  hasrec  : ∀ w ∈ nodes, w ≠ root → ∃ r ∈ par, r.1 = w
  recok   : ∀ r ∈ par, r.1 ∈ nodes ∧ r.2.1 ∈ nodes ∧ anc r.1 = r.2.1 :: anc r.2.1
  uniq    : ∀ r ∈ par, ∀ r' ∈ par, r.1 = r'.1 → r = r'
  norec   : ∀ r ∈ par, r.1 ≠ root
  pnd     : par.Nodup

def ind (p : Prop) [Decidable p] : Int := if p then 1 else 0

section
variable {root : Nat} {nodes : List Nat} {anc : Nat → List Nat} {par : List (Nat × Nat × Nat)}

/-- ancestors have strictly shorter ancestor lists -/
theorem anc_shorter (hR : Rooted root nodes anc par) : ∀ (k : Nat) (w : Nat), (anc w).length = k → w ∈ nodes →
    ∀ u ∈ anc w, (anc u).length < k := by
  intro k
  induction k with
  | zero => intro w hk _ u hu; rw [List.eq_nil_of_length_eq_zero hk] at hu; cases hu
  | succ k ih =>
    intro w hk hw u hu
    have hwr : w ≠ root := by intro e; rw [e, hR.rootanc] at hk; simp at hk
    obtain ⟨r, hr, rfl⟩ := hR.hasrec w hw hwr
    obtain ⟨_, hp, hanc⟩ := hR.recok r hr
    have hlen : (anc r.2.1).length = k := by rw [hanc] at hk; simpa using hk
    rw [hanc] at hu
    rcases List.mem_cons.1 hu with rfl | hu
    · omega
    · have := ih r.2.1 hlen hp u hu; omega

/-- the number of records (c, v, _) whose child c lies on the chain `w :: anc w` is the number of times v
    occurs in `anc w` -/
theorem children_on_chain (hR : Rooted root nodes anc par) (v : Nat) : ∀ (k : Nat) (w : Nat),
    (anc w).length = k → w ∈ nodes →
    sumL (par.map (fun r => ind (r.2.1 = v) * ind (r.1 ∈ w :: anc w))) = ((anc w).count v : Nat) := by
  intro k
  induction k with
  | zero =>
    intro w hk hw
    have hnil : anc w = [] := List.eq_nil_of_length_eq_zero hk
    rw [hnil]
    -- w has no ancestors: w is the root, which is nobody's child
    have hwr : w = root := by
      apply Classical.byContradiction
      intro hne
      obtain ⟨r, hr, rfl⟩ := hR.hasrec w hw hne
      have := (hR.recok r hr).2.2
      rw [this] at hnil; cases hnil
    subst hwr
    have : ∀ r ∈ par, ind (r.2.1 = v) * ind (r.1 ∈ [w]) = (0 : Int) := by
      intro r hr
      have : r.1 ≠ w := hR.norec r hr
      simp [ind, this]
    rw [sumL_map_congr _ _ (fun _ => 0) this]
    simp only [List.count_nil]
    exact sumL_zero par
  | succ k ih =>
    intro w hk hw
    have hwr : w ≠ root := by intro e; rw [e, hR.rootanc] at hk; simp at hk
    obtain ⟨rw, hrw, rfl⟩ := hR.hasrec w hw hwr
    obtain ⟨_, hp, hanc⟩ := hR.recok rw hrw
    have hlen : (anc rw.2.1).length = k := by rw [hanc] at hk; simpa using hk
    have ihp := ih rw.2.1 hlen hp
    -- split membership in the chain: r.1 = w  or  r.1 on the parent's chain
    have hsplit : ∀ r ∈ par, ind (r.2.1 = v) * ind (r.1 ∈ rw.1 :: anc rw.1) =
        ind (r.2.1 = v) * ind (r.1 = rw.1) + ind (r.2.1 = v) * ind (r.1 ∈ rw.2.1 :: anc rw.2.1) := by
      intro r hr
      rw [hanc]
      by_cases h1 : r.1 = rw.1
      · -- then r.1 is not on the parent's chain (it would be its own ancestor)
        have hnot : r.1 ∉ rw.2.1 :: anc rw.2.1 := by
          intro hmem
          rw [h1, ← hanc] at hmem
          have := anc_shorter hR _ rw.1 rfl hw rw.1 hmem
          omega
        simp [ind, h1, hnot]
        have : rw.1 ∉ rw.2.1 :: anc rw.2.1 := by rw [← h1]; exact hnot
        simp at this
        simp [this.1, this.2]
      · simp [ind, h1]
    rw [sumL_map_congr _ _ _ hsplit, sumL_map_add, ihp, hanc]
    -- the first sum: exactly the record of w counts, iff its parent is v
    have hfirst : sumL (par.map (fun r => ind (r.2.1 = v) * ind (r.1 = rw.1))) = ind (rw.2.1 = v) := by
      have hcases : ∀ r ∈ par, ind (r.2.1 = v) * ind (r.1 = rw.1) = ind (rw.2.1 = v) * ind (r = rw) := by
        intro r hr
        by_cases h1 : r.1 = rw.1
        · have := hR.uniq r hr rw hrw h1
          subst this; simp [ind]
        · have : r ≠ rw := fun e => h1 (by rw [e])
          simp [ind, h1, this]
      rw [sumL_map_congr _ _ _ hcases, sumL_map_mul_left]
      -- Σ_r [r = rw] = 1 since rw ∈ par, par Nodup
      have hone : ∀ (l : List (Nat × Nat × Nat)), l.Nodup → rw ∈ l → sumL (l.map (fun r => ind (r = rw))) = 1 := by
        intro l
        induction l with
        | nil => intro _ h; cases h
        | cons a l ih2 =>
          intro hnd hmem
          simp only [List.map_cons, sumL]
          by_cases ha : a = rw
          · subst ha
            have hnot : ∀ r ∈ l, ind (r = a) = (0 : Int) := by
              intro r hr
              have : r ≠ a := fun e => (List.nodup_cons.1 hnd).1 (e ▸ hr)
              simp [ind, this]
            rw [sumL_map_congr _ _ (fun _ => 0) hnot, sumL_zero]
            simp [ind]
          · have hmem' : rw ∈ l := by
              rcases List.mem_cons.1 hmem with h | h
              · exact absurd h.symm ha
              · exact h
            rw [ih2 (List.nodup_cons.1 hnd).2 hmem']
            simp [ind, ha]
      rw [hone par hR.pnd hrw]; omega
    rw [hfirst]
    simp only [List.count_cons, beq_iff_eq, ind]
    split <;> simp <;> omega
end

section
variable {root : Nat} {nodes : List Nat} {anc : Nat → List Nat} {par : List (Nat × Nat × Nat)}

/-- ancestor lists have no duplicates -/
theorem anc_nodup (hR : Rooted root nodes anc par) : ∀ (k : Nat) (w : Nat), (anc w).length = k → w ∈ nodes →
    (anc w).Nodup := by
  intro k
  induction k with
  | zero => intro w hk _; rw [List.eq_nil_of_length_eq_zero hk]; exact List.nodup_nil
  | succ k ih =>
    intro w hk hw
    have hwr : w ≠ root := by intro e; rw [e, hR.rootanc] at hk; simp at hk
    obtain ⟨r, hr, rfl⟩ := hR.hasrec w hw hwr
    obtain ⟨_, hp, hanc⟩ := hR.recok r hr
    have hlen : (anc r.2.1).length = k := by rw [hanc] at hk; simpa using hk
    rw [hanc]
    refine List.nodup_cons.2 ⟨fun hmem => ?_, ih r.2.1 hlen hp⟩
    have := anc_shorter hR _ r.2.1 rfl hp r.2.1 hmem
    omega

/-- membership in the chain as an indicator sum -/
theorem chain_ind (hR : Rooted root nodes anc par) (v w : Nat) (hw : w ∈ nodes) :
    ind (v ∈ w :: anc w) = ind (w = v) + ((anc w).count v : Nat) := by
  have hnd := anc_nodup hR _ w rfl hw
  by_cases hvw : w = v
  · subst hvw
    have hnot : w ∉ anc w := fun hmem => by
      have := anc_shorter hR _ w rfl hw w hmem; omega
    have : (anc w).count w = 0 := List.count_eq_zero_of_not_mem hnot
    simp [ind, this]
  · by_cases hmem : v ∈ anc w
    · have : (anc w).count v = 1 := by rw [hnd.count]; simp [hmem]
      have hvw' : v ≠ w := fun e => hvw e.symm
      simp [ind, hvw, hvw', hmem, this]
    · have : (anc w).count v = 0 := List.count_eq_zero_of_not_mem hmem
      have hvw' : v ≠ w := fun e => hvw e.symm
      simp [ind, hvw, hvw', hmem, this]

/-- Σ_w [w = v]·b(w) = b(v) over a duplicate-free node list containing v -/
theorem sum_pick (b : Nat → Int) (v : Nat) : ∀ (l : List Nat), l.Nodup → v ∈ l →
    sumL (l.map (fun w => ind (w = v) * b w)) = b v := by
  intro l
  induction l with
  | nil => intro _ h; cases h
  | cons a l ih =>
    intro hnd hmem
    simp only [List.map_cons, sumL]
    by_cases ha : a = v
    · subst ha
      have : ∀ w ∈ l, ind (w = a) * b w = 0 := by
        intro w hw
        have : w ≠ a := fun e => (List.nodup_cons.1 hnd).1 (e ▸ hw)
        simp [ind, this]
      rw [sumL_map_congr _ _ (fun _ => 0) this, sumL_zero]; simp [ind]
    · have hmem' : v ∈ l := by
        rcases List.mem_cons.1 hmem with h | h
        · exact absurd h.symm ha
        · exact h
      rw [ih (List.nodup_cons.1 hnd).2 hmem']; simp [ind, ha]

/-- subtree demand -/
def s (nodes : List Nat) (anc : Nat → List Nat) (b : Nat → Int) (x : Nat) : Int :=
  sumL (nodes.map (fun w => ind (x ∈ w :: anc w) * b w))

/-- C10 (d) core: tree-flow conservation  s(v) = b(v) + Σ_{children c of v} s(c) -/
theorem conservation (hR : Rooted root nodes anc par) (hnd : nodes.Nodup) (b : Nat → Int) (v : Nat) (hv : v ∈ nodes) :
    s nodes anc b v = b v + sumL (par.map (fun r => ind (r.2.1 = v) * s nodes anc b r.1)) := by
  -- right-hand sum: swap the order of summation and count children on each chain
  have hR1 : sumL (par.map (fun r => ind (r.2.1 = v) * s nodes anc b r.1)) =
      sumL (nodes.map (fun w => ((anc w).count v : Nat) * b w)) := by
    have e1 : ∀ r ∈ par, ind (r.2.1 = v) * s nodes anc b r.1 =
        sumL (nodes.map (fun w => (ind (r.2.1 = v) * ind (r.1 ∈ w :: anc w)) * b w)) := by
      intro r _
      unfold s
      rw [← sumL_map_mul_left]
      apply sumL_map_congr
      intro w _; rw [Int.mul_assoc]
    rw [sumL_map_congr _ _ _ e1, sumL_swap]
    apply sumL_map_congr
    intro w hw
    have e2 : ∀ r ∈ par, (ind (r.2.1 = v) * ind (r.1 ∈ w :: anc w)) * b w =
        b w * (ind (r.2.1 = v) * ind (r.1 ∈ w :: anc w)) := fun r _ => Int.mul_comm _ _
    rw [sumL_map_congr _ _ _ e2, sumL_map_mul_left, children_on_chain hR v _ w rfl hw, Int.mul_comm]
  rw [hR1]
  unfold s
  have e3 : ∀ w ∈ nodes, ind (v ∈ w :: anc w) * b w = ind (w = v) * b w + ((anc w).count v : Nat) * b w := by
    intro w hw
    rw [chain_ind hR v w hw, Int.add_mul]
  rw [sumL_map_congr _ _ _ e3, sumL_map_add, sum_pick b v nodes hnd hv]

end

end Autog.TreeFlowConservation
