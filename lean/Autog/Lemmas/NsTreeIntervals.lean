/-! Spike (C03/C10, NS `walkStreeDfs` + `inHeadComponent`): post-order numbering of the spanning tree.
    Machine, ghost ancestor lists, and the subtree-interval theorem
        low x ≤ lim w ≤ lim x   ⇔   x = w ∨ x is an ancestor of w
    for all finished w and entered x, provided every node is entered once. Core-only. -/


namespace Autog.NsTreeIntervals

abbrev TInc := Nat × Nat                         -- (tree edge id, other end)
abbrev Frame := Nat × List TInc

def upd {β} (f : Nat → β) (k : Nat) (v : β) : Nat → β := fun x => if x = k then v else f x
theorem upd_same {β} (f : Nat → β) (k : Nat) (v : β) : upd f k v k = v := by simp [upd]
theorem upd_other {β} (f : Nat → β) (k : Nat) (v : β) {x : Nat} (h : x ≠ k) : upd f k v x = f x := by simp [upd, h]

structure Cfg where
  stack : List Frame
  visE  : List Nat
  c     : Nat                                     -- the running number (`low` argument / returned lim+1)
  low   : Nat → Nat
  lim   : Nat → Nat
  ent   : List Nat                                -- ghost: entered nodes, newest first
  fin   : List Nat                                -- ghost: finished nodes, newest first
  anc   : Nat → List Nat                          -- ghost: nodes below on the stack when the node was entered
  par   : List (Nat × Nat × Nat)                  -- ghost: (child, parent, edge) of every traversal

def act (st : List Frame) : List Nat := st.map Prod.fst

def run (tinc : Nat → List TInc) : Nat → Cfg → Option Cfg
  | 0, _ => none
  | fuel+1, c =>
    match c.stack with
    | [] => some c
    | (n, []) :: tl =>
        run tinc fuel { c with stack := tl, lim := upd c.lim n c.c, c := c.c + 1, fin := n :: c.fin }
    | (n, (e, m) :: ms) :: tl =>
        if c.visE.contains e then run tinc fuel { c with stack := (n, ms) :: tl }
        else run tinc fuel { c with stack := (m, tinc m) :: (n, ms) :: tl, visE := e :: c.visE,
                                    low := upd c.low m c.c, ent := m :: c.ent,
                                    anc := upd c.anc m (n :: act tl), par := (m, n, e) :: c.par }

/-- `w` lies in the interval of `x` -/
def sub (c : Cfg) (x w : Nat) : Prop := c.low x ≤ c.lim w ∧ c.lim w ≤ c.lim x

structure TInv (c : Cfg) : Prop where
  cnt    : c.c = c.fin.length + 1
  /-- finishing ranks -/
  rank   : ∀ l₁ x l₂, c.fin = l₁ ++ x :: l₂ → c.lim x = l₂.length + 1
  lowle  : ∀ x ∈ c.ent, 1 ≤ c.low x ∧ c.low x ≤ c.c
  /-- entered = on the stack or finished, disjointly -/
  split  : ∀ x, x ∈ c.ent ↔ (x ∈ act c.stack ∨ x ∈ c.fin)
  disj   : ∀ x ∈ act c.stack, x ∉ c.fin
  nd     : (act c.stack).Nodup
  /-- the ghost ancestor list of a stack node is what is below it -/
  stk    : ∀ l₁ x l₂, act c.stack = l₁ ++ x :: l₂ → c.anc x = l₂
  ancent : ∀ w ∈ c.ent, ∀ x ∈ c.anc w, x ∈ c.ent
  /-- the theorem, for finished w; x finished … -/
  subF   : ∀ w ∈ c.fin, ∀ x ∈ c.fin, (x ∈ w :: c.anc w ↔ sub c x w)
  /-- … or x still active -/
  subA   : ∀ w ∈ c.fin, ∀ x ∈ act c.stack, (x ∈ w :: c.anc w ↔ c.low x ≤ c.lim w)
  /-- every traversal goes from a node to a new child, whose ancestors are the parent and its ancestors -/
  parok  : ∀ r ∈ c.par, r.1 ∈ c.ent ∧ r.2.1 ∈ c.ent ∧ c.anc r.1 = r.2.1 :: c.anc r.2.1

theorem act_cons (n : Nat) (r : List TInc) (tl : List Frame) : act ((n, r) :: tl) = n :: act tl := rfl

/-- finished nodes have ranks below the running number -/
theorem lim_lt {c : Cfg} (hI : TInv c) {x : Nat} (hx : x ∈ c.fin) : c.lim x < c.c := by
  obtain ⟨l₁, l₂, h⟩ := List.append_of_mem hx
  have := hI.rank l₁ x l₂ h
  have hl : c.fin.length = l₁.length + (l₂.length + 1) := by rw [h]; simp
  have := hI.cnt
  omega

/-- the entry list only grows -/
theorem run_ent_suffix (tinc : Nat → List TInc) : ∀ (fuel : Nat) (c c' : Cfg),
    run tinc fuel c = some c' → ∃ l, c'.ent = l ++ c.ent := by
  intro fuel
  induction fuel with
  | zero => intro c c' h; simp [run] at h
  | succ fuel ih =>
    intro c c' h
    obtain ⟨stack, visE, cc, low, lim, ent, fin, anc, par⟩ := c
    unfold run at h
    match stack, h with
    | [], h => simp only [Option.some.injEq] at h; subst h; exact ⟨[], rfl⟩
    | (n, []) :: tl, h => dsimp only at h; have := ih _ c' h; exact this
    | (n, (e, m) :: ms) :: tl, h =>
      dsimp only at h
      split at h
      · have := ih _ c' h; exact this
      · obtain ⟨l, hl⟩ := ih _ c' h
        exact ⟨l ++ [m], by simp [hl]⟩

theorem run_inv (tinc : Nat → List TInc) : ∀ (fuel : Nat) (c c' : Cfg),
    TInv c → run tinc fuel c = some c' → c'.ent.Nodup →
      TInv c' ∧ c'.stack = [] ∧ ∃ l, c'.ent = l ++ c.ent := by
  intro fuel
  induction fuel with
  | zero => intro c c' _ h; simp [run] at h
  | succ fuel ih =>
    intro c c' hI h hfin
    obtain ⟨stack, visE, cc, low, lim, ent, fin, anc, par⟩ := c
    have hlt := fun x (hx : x ∈ fin) => lim_lt hI hx
    obtain ⟨hcnt, hrank, hlow, hsplit, hdisj, hnd, hstk, hanc, hsubF, hsubA, hpar⟩ := hI
    dsimp only at hcnt hrank hlow hsplit hdisj hnd hstk hanc hsubF hsubA hlt hpar
    unfold run at h
    match stack, hsplit, hdisj, hnd, hstk, hsubA, h with
    | [], hsplit, hdisj, hnd, hstk, hsubA, h =>
      simp only [Option.some.injEq] at h; subst h
      exact ⟨⟨hcnt, hrank, hlow, hsplit, hdisj, hnd, hstk, hanc, hsubF, hsubA, hpar⟩, rfl, [], rfl⟩
    | (n, []) :: tl, hsplit, hdisj, hnd, hstk, hsubA, h =>
      dsimp only at h
      simp only [act_cons] at hsplit hdisj hnd hstk hsubA
      have hn_tl : n ∉ act tl := (List.nodup_cons.1 hnd).1
      have hn_fin : n ∉ fin := hdisj n (List.mem_cons_self ..)
      have hn_ent : n ∈ ent := (hsplit n).2 (.inl (List.mem_cons_self ..))
      have hanc_n : anc n = act tl := hstk [] n (act tl) rfl
      have hlim' : ∀ x, x ≠ n → upd lim n cc x = lim x := fun x hx => upd_other _ _ _ hx
      have hres := ih ⟨tl, visE, cc + 1, low, upd lim n cc, ent, n :: fin, anc, par⟩ c' ?_ h hfin
      · exact ⟨hres.1, hres.2.1, hres.2.2⟩
      refine ⟨by simp [hcnt], ?_, ?_, ?_, ?_, (List.nodup_cons.1 hnd).2, ?_, hanc, ?_, ?_, hpar⟩ <;> dsimp only
      · -- rank
        intro l₁ x l₂ heq
        cases l₁ with
        | nil =>
          simp only [List.nil_append, List.cons.injEq] at heq
          obtain ⟨rfl, rfl⟩ := heq
          rw [upd_same]; omega
        | cons a l₁ =>
          simp only [List.cons_append, List.cons.injEq] at heq
          have hx : x ∈ fin := by rw [heq.2]; simp
          have : x ≠ n := fun e => hn_fin (e ▸ hx)
          rw [hlim' x this]; exact hrank l₁ x l₂ heq.2
      · intro x hx; have := hlow x hx; omega
      · intro x; rw [hsplit x]; simp only [List.mem_cons]
        constructor
        · rintro ((h1 | h1) | h1)
          · exact .inr (.inl h1)
          · exact .inl h1
          · exact .inr (.inr h1)
        · rintro (h1 | h1 | h1)
          · exact .inl (.inr h1)
          · exact .inl (.inl h1)
          · exact .inr h1
      · intro x hx hmem
        rcases List.mem_cons.1 hmem with h1 | h1
        · exact hn_tl (h1 ▸ hx)
        · exact hdisj x (List.mem_cons_of_mem _ hx) h1
      · intro l₁ x l₂ heq
        exact hstk (n :: l₁) x l₂ (by simp [heq])
      · -- subF
        intro w hw x hx
        unfold sub; dsimp only
        rcases List.mem_cons.1 hw with hw' | hw' <;> rcases List.mem_cons.1 hx with hx' | hx'
        · -- w = x = n
          subst hw'; subst hx'
          have := (hlow _ hn_ent).2
          simp [upd_same]; omega
        · -- w = n, x finished earlier
          subst hw'
          have hxn : x ≠ w := fun e => hn_fin (e ▸ hx')
          rw [upd_same, hlim' x hxn, hanc_n]
          have h1 : x ∉ act tl := fun hh => hdisj x (List.mem_cons_of_mem _ hh) hx'
          have h2 := hlt x hx'
          constructor
          · intro hh
            rcases List.mem_cons.1 hh with h3 | h3
            · exact absurd h3 hxn
            · exact absurd h3 h1
          · intro hh; omega
        · -- w finished earlier, x = n
          subst hx'
          have hwn : w ≠ x := fun e => hn_fin (e ▸ hw')
          rw [upd_same, hlim' w hwn]
          have h1 := hsubA w hw' x (List.mem_cons_self ..)
          have h2 := hlt w hw'
          rw [h1]; constructor
          · intro hh; exact ⟨hh, by omega⟩
          · intro hh; exact hh.1
        · have hwn : w ≠ n := fun e => hn_fin (e ▸ hw')
          have hxn : x ≠ n := fun e => hn_fin (e ▸ hx')
          rw [hlim' w hwn, hlim' x hxn]
          exact hsubF w hw' x hx'
      · -- subA
        intro w hw x hx
        have hx_ent : x ∈ ent := (hsplit x).2 (.inl (List.mem_cons_of_mem _ hx))
        rcases List.mem_cons.1 hw with hw' | hw'
        · subst hw'
          rw [upd_same, hanc_n]
          have := (hlow x hx_ent).2
          constructor
          · intro _; exact this
          · intro _; exact List.mem_cons_of_mem _ hx
        · have hwn : w ≠ n := fun e => hn_fin (e ▸ hw')
          rw [hlim' w hwn]
          exact hsubA w hw' x (List.mem_cons_of_mem _ hx)
    | (n, (e, m) :: ms) :: tl, hsplit, hdisj, hnd, hstk, hsubA, h =>
      dsimp only at h
      simp only [act_cons] at hsplit hdisj hnd hstk hsubA
      split at h
      · -- edge already traversed
        have hres := ih ⟨(n, ms) :: tl, visE, cc, low, lim, ent, fin, anc, par⟩ c'
          ⟨hcnt, hrank, hlow, hsplit, hdisj, hnd, hstk, hanc, hsubF, hsubA, hpar⟩ h hfin
        exact ⟨hres.1, hres.2.1, hres.2.2⟩
      · -- enter m
        have hres := ih ⟨(m, tinc m) :: (n, ms) :: tl, e :: visE, cc, upd low m cc, lim, m :: ent, fin,
            upd anc m (n :: act tl), (m, n, e) :: par⟩ c' ?_ h hfin
        · obtain ⟨r1, r2, l, r3⟩ := hres
          exact ⟨r1, r2, l ++ [m], by simp [r3]⟩
        -- m is new, because the final entry list has no duplicates
        have hm_ent : m ∉ ent := by
          obtain ⟨l, hl⟩ := run_ent_suffix tinc fuel _ c' h
          dsimp only at hl
          rw [hl] at hfin
          have := (List.nodup_append.1 hfin).2.1
          exact (List.nodup_cons.1 this).1
        have hm_act : m ∉ n :: act tl := fun hh => hm_ent ((hsplit m).2 (.inl hh))
        have hm_fin : m ∉ fin := fun hh => hm_ent ((hsplit m).2 (.inr hh))
        have hlow' : ∀ x, x ≠ m → upd low m cc x = low x := fun x hx => upd_other _ _ _ hx
        have hanc' : ∀ x, x ≠ m → upd anc m (n :: act tl) x = anc x := fun x hx => upd_other _ _ _ hx
        refine ⟨hcnt, hrank, ?_, ?_, ?_, ?_, ?_, ?_, ?_, ?_, ?pk⟩ <;> dsimp only
        case pk =>
          intro r hr
          have hn_ent : n ∈ ent := (hsplit n).2 (.inl (List.mem_cons_self ..))
          have hnm : n ≠ m := fun e => hm_ent (e ▸ hn_ent)
          rcases List.mem_cons.1 hr with h1 | h1
          · subst h1
            dsimp only
            rw [upd_same, hanc' n hnm, hstk [] n (act tl) rfl]
            exact ⟨List.mem_cons_self .., List.mem_cons_of_mem _ hn_ent, rfl⟩
          · obtain ⟨h2, h3, h4⟩ := hpar r h1
            have e1 : r.1 ≠ m := fun e => hm_ent (e ▸ h2)
            have e2 : r.2.1 ≠ m := fun e => hm_ent (e ▸ h3)
            rw [hanc' _ e1, hanc' _ e2]
            exact ⟨List.mem_cons_of_mem _ h2, List.mem_cons_of_mem _ h3, h4⟩
        · intro x hx
          rcases List.mem_cons.1 hx with h1 | h1
          · subst h1; rw [upd_same]; omega
          · have : x ≠ m := fun e => hm_ent (e ▸ h1)
            rw [hlow' x this]; exact hlow x h1
        · intro x
          simp only [act_cons, List.mem_cons, hsplit x]
          constructor
          · rintro (h1 | (h1 | h1) | h1)
            · exact .inl (.inl h1)
            · exact .inl (.inr (.inl h1))
            · exact .inl (.inr (.inr h1))
            · exact .inr h1
          · rintro ((h1 | h1 | h1) | h1)
            · exact .inl h1
            · exact .inr (.inl (.inl h1))
            · exact .inr (.inl (.inr h1))
            · exact .inr (.inr h1)
        · intro x hx
          simp only [act_cons] at hx
          rcases List.mem_cons.1 hx with h1 | h1
          · subst h1; exact hm_fin
          · exact hdisj x h1
        · simp only [act_cons]
          exact List.nodup_cons.2 ⟨hm_act, hnd⟩
        · intro l₁ x l₂ heq
          simp only [act_cons] at heq
          cases l₁ with
          | nil =>
            simp only [List.nil_append, List.cons.injEq] at heq
            obtain ⟨rfl, rfl⟩ := heq
            rw [upd_same]
          | cons a l₁ =>
            simp only [List.cons_append, List.cons.injEq] at heq
            have hx : x ∈ n :: act tl := by rw [heq.2]; simp
            have : x ≠ m := fun e => hm_act (e ▸ hx)
            rw [hanc' x this]; exact hstk l₁ x l₂ heq.2
        · intro w hw x hx
          rcases List.mem_cons.1 hw with h1 | h1
          · subst h1
            rw [upd_same] at hx
            exact List.mem_cons_of_mem _ ((hsplit x).2 (.inl hx))
          · have : w ≠ m := fun e => hm_ent (e ▸ h1)
            rw [hanc' w this] at hx
            exact List.mem_cons_of_mem _ (hanc w h1 x hx)
        · intro w hw x hx
          have hw_ent : w ∈ ent := (hsplit w).2 (.inr hw)
          have hx_ent : x ∈ ent := (hsplit x).2 (.inr hx)
          have hwm : w ≠ m := fun e => hm_ent (e ▸ hw_ent)
          have hxm : x ≠ m := fun e => hm_ent (e ▸ hx_ent)
          unfold sub; dsimp only
          rw [hanc' w hwm, hlow' x hxm]
          exact hsubF w hw x hx
        · intro w hw x hx
          have hw_ent : w ∈ ent := (hsplit w).2 (.inr hw)
          have hwm : w ≠ m := fun e => hm_ent (e ▸ hw_ent)
          simp only [act_cons] at hx
          rw [hanc' w hwm]
          rcases List.mem_cons.1 hx with h1 | h1
          · subst h1
            rw [upd_same]
            have h2 := hlt w hw
            constructor
            · intro hh
              rcases List.mem_cons.1 hh with h3 | h3
              · exact absurd h3.symm hwm
              · exact absurd (hanc w hw_ent x h3) hm_ent
            · intro hh; omega
          · have hx_ent : x ∈ ent := (hsplit x).2 (.inl h1)
            have hxm : x ≠ m := fun e => hm_ent (e ▸ hx_ent)
            rw [hlow' x hxm]
            exact hsubA w hw x h1


/-- the subtree-interval theorem at the end of the walk -/
theorem interval (tinc : Nat → List TInc) (fuel : Nat) (c c' : Cfg) (hI : TInv c)
    (h : run tinc fuel c = some c') (hnd : c'.ent.Nodup) :
    ∀ w ∈ c'.ent, ∀ x ∈ c'.ent, (x ∈ w :: c'.anc w ↔ (c'.low x ≤ c'.lim w ∧ c'.lim w ≤ c'.lim x)) := by
  obtain ⟨hI', hs, _⟩ := run_inv tinc fuel c c' hI h hnd
  intro w hw x hx
  have hw' : w ∈ c'.fin := by
    rcases (hI'.split w).1 hw with h1 | h1
    · rw [hs] at h1; cases h1
    · exact h1
  have hx' : x ∈ c'.fin := by
    rcases (hI'.split x).1 hx with h1 | h1
    · rw [hs] at h1; cases h1
    · exact h1
  exact hI'.subF w hw' x hx'


/-! ### consequence used by `exchange`: no other tree edge crosses the cut of a tree edge -/

/-- `inHeadComponent(n, e)` for the tree edge e = (u → v), transliterated -/
def inHead (c : Cfg) (u v n : Nat) : Prop :=
  if c.lim u < c.lim v then ¬ (c.low u ≤ c.lim n ∧ c.lim n ≤ c.lim u)
  else (c.low v ≤ c.lim n ∧ c.lim n ≤ c.lim v)

/-- both ends of every traversed tree edge other than the one entering `x` lie on the same side of the
    subtree of `x` -/
theorem same_side (tinc : Nat → List TInc) (fuel : Nat) (c c' : Cfg) (hI : TInv c)
    (h : run tinc fuel c = some c') (hnd : c'.ent.Nodup)
    (r : Nat × Nat × Nat) (hr : r ∈ c'.par) (x : Nat) (hx : x ∈ c'.ent) (hne : x ≠ r.1) :
    (c'.low x ≤ c'.lim r.1 ∧ c'.lim r.1 ≤ c'.lim x) ↔ (c'.low x ≤ c'.lim r.2.1 ∧ c'.lim r.2.1 ≤ c'.lim x) := by
  obtain ⟨hI', _, _⟩ := run_inv tinc fuel c c' hI h hnd
  obtain ⟨h1, h2, h3⟩ := hI'.parok r hr
  have i1 := interval tinc fuel c c' hI h hnd r.1 h1 x hx
  have i2 := interval tinc fuel c c' hI h hnd r.2.1 h2 x hx
  rw [← i1, ← i2, h3]
  constructor
  · intro hh
    rcases List.mem_cons.1 hh with h4 | h4
    · exact absurd h4 hne
    · exact h4
  · intro hh; exact List.mem_cons_of_mem _ hh

/-- hence `inHeadComponent` gives the same answer for both ends of such an edge: it is not a crossing edge.
    (`u`,`v` are the ends of the leaving tree edge; the traversal record `r` is any other tree edge, i.e. its
    child end is neither … the child end of the leaving edge.) -/
theorem inHead_same (tinc : Nat → List TInc) (fuel : Nat) (c c' : Cfg) (hI : TInv c)
    (h : run tinc fuel c = some c') (hnd : c'.ent.Nodup)
    (u v : Nat) (hu : u ∈ c'.ent) (hv : v ∈ c'.ent)
    (r : Nat × Nat × Nat) (hr : r ∈ c'.par)
    (hchild : (if c'.lim u < c'.lim v then u else v) ≠ r.1) :
    inHead c' u v r.1 ↔ inHead c' u v r.2.1 := by
  unfold inHead
  by_cases hlt : c'.lim u < c'.lim v
  · simp only [hlt, if_true] at hchild ⊢
    rw [same_side tinc fuel c c' hI h hnd r hr u hu hchild]
  · simp only [hlt, if_false] at hchild ⊢
    exact same_side tinc fuel c c' hI h hnd r hr v hv hchild

end Autog.NsTreeIntervals
