/-! Record views of the Go types the translated leaf functions read (hand-written, fixed): what a leaf function can see of a
    `*graph.Node`, `*graph.Edge`, `*graph.Layer`. Pointer identity is the `ptr` field. Core-only. -/
namespace Autog.Gen

structure GNode where
  ptr : Nat
  X : Rat
  Y : Rat
  W : Rat
  H : Rat
  Layer : Int
  LayerPos : Int
  IsVirtual : Bool
  nIn : Nat
  nOut : Nat
deriving Inhabited

structure GEdge where
  ptr : Nat
  From : GNode
  To : GNode
  Delta : Int
  Weight : Int
  CutValue : Int
  IsInSpanningTree : Bool
  IsReversed : Bool
  ArrowHeadStart : Bool
deriving Inhabited

structure GLayer where
  ptr : Nat
  Index : Int
  len : Nat
  W : Rat
  H : Rat
deriving Inhabited

/-- `geom.P` -/
structure GP where
  X : Rat
  Y : Rat
deriving Inhabited

/-- `xs[i]` on a slice; the translated functions only index inside the bounds they have just tested -/
def idx {α} [Inhabited α] (xs : List α) (i : Int) : α := xs.getD i.toNat default

def fmax (a b : Rat) : Rat := if a < b then b else a
def fmin (a b : Rat) : Rat := if b < a then b else a

end Autog.Gen
