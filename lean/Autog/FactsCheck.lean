import Autog.FactsCheck.Shared
import Autog.FactsCheck.Maps
import Autog.FactsCheck.Ids
import Autog.FactsCheck.Topo
import Autog.FactsCheck.Totality
import Autog.FactsCheck.Numbers
import Autog.FactsCheck.Geom
import Autog.FactsCheck.Calls
