import Autog.Lemmas.Adj
import Autog.Lemmas.BreakFuel
import Autog.Lemmas.BlockWide
import Autog.Json
import Autog.Model.Pre
import Autog.Model.Phase1
import Autog.Model.Phase2
import Autog.Model.Phase4
import Autog.Model.Phase5
import Autog.Model.Layout
import Autog.Model.Phase3
import Autog.Model.SinkColoring
import Autog.Model.NsPositioner
import Autog.Model.WMedian
import Autog.Model.Pipeline
import Autog.Lemmas.HasCyclesTotal
import Autog.Properties.C04
/-! T-fun: the models run on the phase-boundary snapshots of real `Layout` runs; the result is compared,
    in canonical form, with the next snapshot. Driver side. -/

namespace Autog
open Lean

/-- the snapshots of one component: stage ↦ state -/
def parseComp (comp : Json) : E (List (Int × G)) := do
  (← jArr comp).mapM fun st => do
    match ← jArr st with
    | [stage, snap] => pure (← stage.getInt?, ← parseSnap snap)
    | _ => throw "bad stage"

def stageOf (c : List (Int × G)) (k : Int) : Option G := (c.find? (·.1 == k)).map (·.2)

/-- result of one correspondence: key, ok, detail -/
abbrev TRes := String × Bool × String

def cmpG (key : String) (model : M G) (real : G) : TRes :=
  match model with
  | .error e => (key, false, s!"model error {e}")
  | .ok g =>
    let c := g.canon
    if c == real then (key, true, "") else (key, false, diffG c real)

def firstDiffOut (a b : Out) : String :=
  if a.nodes.length != b.nodes.length then s!"node count {a.nodes.length} vs {b.nodes.length}"
  else if a.edges.length != b.edges.length then s!"edge count {a.edges.length} vs {b.edges.length}"
  else match (a.nodes.zip b.nodes).find? (fun (x, y) => x != y) with
    | some (x, y) => s!"node {x.id}/{y.id}: x {x.x} vs {y.x}, y {x.y} vs {y.y}, layer {x.layer} vs {y.layer}"
    | none => match (a.edges.zip b.edges).find? (fun (x, y) => x != y) with
      | some (x, y) => s!"edge {x.src}>{x.dst} vs {y.src}>{y.dst}: {x.pts.map (·.length)} vs {y.pts.map (·.length)} points"
      | none => ""

def tfunLayout (cfg : Cfg) (es : InEdges) (comps : List (List (Int × G))) (real : Out) (logged : Option (List Int)) (pivots : List (Option (Int × Int))) (heavy : Bool := true) : List TRes := Id.run do
  let mut out : List TRes := []
  let mut loopsOf : List (List Nat) := []
  let mut logQ : List Int := logged.getD []
  -- everything before phase 1
  let pre := preProcess cfg es
  match pre with
  | .error e => out := out ++ [("T:pre", false, s!"model error {e}")]
  | .ok cs =>
    if cs.length != comps.length then
      out := out ++ [("T:pre", false, s!"{cs.length} components in the model, {comps.length} in the code")]
    else
      loopsOf := cs.map (·.2)
      for ((g, _), c) in cs.zip comps do
        match stageOf c 0 with
        | some r => out := out ++ [cmpG "T:pre" (pure g) r]
        | none => out := out ++ [("T:pre", false, "no stage 0")]
  for c in comps do
    -- phase 1
    if cfg.p1 ≤ 1 then
      match stageOf c 0, stageOf c 1 with
      | some a, some b =>
        out := out ++ [cmpG "T:phase1" (phase1 cfg.p1 a) b]
        out := out ++ [("K:edgesWF", edgesWFb a && edgesWFb b, "an out-list points outside the node store")]
        -- adjacency consistency of the component phase 1 receives and of what it returns (proved for the populated graph, self-loop
        -- stripping, the two-cycle pre-pass and reversals; the sub-graph extraction for several components is covered here)
        out := out ++ [("K:adj", adjLb a && adjLb b, "In/Out lists and edge store disagree")]
      | _, _ => pure ()
  for (c, ci) in comps.zipIdx do
    -- phase 2: LongestPath exactly; for both layerers the layer list is `buildLayers` of the node layers
    match stageOf c 1, stageOf c 2 with
    | some a, some b =>
      if cfg.p2 == 1 then
        let m := if a.nodes.size == 1 then buildLayers a else (execLongestPath a) >>= buildLayers
        out := out ++ [cmpG "T:phase2-longestpath" m b]
      if cfg.p2 == 0 then
        let thor : Nat := if cfg.thor < 0 then 28 else cfg.thor.toNat
        if a.nodes.size == 1 then out := out ++ [cmpG "T:phase2-ns" (buildLayers a) b]
        -- dense mid-size components (suite c10-mid: 20..40 nodes, 3 and more edges per node): the list-based model of the simplex
        -- needs seconds per case there; they are judged by the certificate, the predicate and the search oracle only
        else if a.nodes.size ≥ 20 && a.elist.length ≥ 3 * a.nodes.size then pure ()
        else
          match execNetworkSimplex thor 0 1 a with
          | .error e => out := out ++ [("T:phase2-ns", false, s!"model error {e}")]
          | .ok (g, pv, mx) =>
            out := out ++ [cmpG "T:phase2-ns" (buildLayers g) b]
            match pivots.getD ci none with
            | some (rp, rm) => out := out ++ [("T:ns-pivots", (pv : Int) == rp && (mx : Int) == rm, s!"model {pv}/{mx} pivots, code {rp}/{rm}")]
            | none => pure ()
      out := out ++ [cmpG "T:layers" (buildLayers { b with layers := #[] }) b]
      out := out ++ [("K:breakWF", breakWFb b, "the state a layerer handed over has an edge outside the stores, pointing upwards by more than one layer, or longer than the layer list")]
    | _, _ => pure ()
    -- phase 3: long edges are broken exactly as the model says; the heuristic only permutes positions
    match stageOf c 2, stageOf c 3 with
    | some a, some b =>
      if cfg.p3 == 0 && a.nodes.size > 1 && a.layers.size > 1 then
        out := out ++ [cmpG "T:break" ((breakLongEdges a).map forgetOrder) (forgetOrder b)]
        out := out ++ [("K:ordered", orderedOK b, "layer lists are not ordered by LayerPos 0..k-1")]
        -- the whole ordering phase, exactly (bounded size: the model recounts crossings for every transposition)
        if heavy && b.nodes.size ≤ 48 then
          match (breakLongEdges a) >>= orderWMedianP 24 with
          | .error e => out := out ++ [("T:phase3-wmedian", false, s!"model error {e}")]
          | .ok (g, bx) =>
            out := out ++ [cmpG "T:phase3-wmedian" (pure g) b]
            match logQ with
            | x :: _ => out := out ++ [("T:wmedian-logged", (bx : Int) == x, s!"model logs {bx}, the code logged {x}")]
            | [] => pure ()
        out := out ++ [("K:layersWF", layersWFb b, "a node occurs twice in the layer lists or does not exist")]
        if cfg.p4 == 0 then
          out := out ++ [("K:layered", layeredWFb b, "the state handed to SinkColoring is not properly layered (in-edges, band order of the layer lists)")]
          match scBlocks b with
          | .ok (bw, roots) => out := out ++ [("K:sc-blockwidth", blockWideb b bw roots, "a block is narrower than one of its nodes")]
          | .error e => out := out ++ [("K:sc-blockwidth", false, s!"model error {e}")]
        -- the crossing counter model on the returned order equals the number the code logged
        if logged.isSome then
          match logQ with
          | x :: rest =>
            logQ := rest
            match crossingsAll b with
            | .ok n => out := out ++ [("T:crossings", (n : Int) == x, s!"model counts {n}, the code logged {x}")]
            | .error e => out := out ++ [("T:crossings", false, s!"model error {e}")]
          | [] => out := out ++ [("T:crossings", false, "no crossings event for this component")]
    | _, _ => pure ()
    -- phase 4
    match stageOf c 3, stageOf c 4 with
    | some a, some b =>
      if cfg.p4 == 1 || cfg.p4 == 2 then
        out := out ++ [cmpG (if cfg.p4 == 1 then "T:phase4-valign" else "T:phase4-packright") (phase4Simple cfg.p4 cfg.ns cfg.ls a) b]
      else if cfg.p4 == 3 && a.nodes.size > 1 then
        let thor : Nat := if cfg.thor < 0 then 28 else cfg.thor.toNat
        let m := (execNsPositioner thor 4 cfg.ns a).map (assignYCoords cfg.ls)
        out := out ++ [cmpG "T:phase4-ns" m b]
      else if cfg.p4 == 4 && a.nodes.size > 1 then
        let m := (BK.execBrandesKoepf cfg.bk cfg.ns a).map (assignYCoords cfg.ls)
        out := out ++ [cmpG "T:phase4-bk" m b]
      else if cfg.p4 == 0 && a.nodes.size > 1 then
        let m := (execSinkColoring cfg.ns a).map fun (g, _) => assignYCoords cfg.ls g
        out := out ++ [cmpG "T:phase4-sinkcoloring" m b]
      else if cfg.p4 == 5 then
        out := out ++ [cmpG "T:phase4-noop" (phase4Model cfg a) b]
      -- every positioner (also on one-node components, which the branches above skip): Y is `assignYCoords` of the layer
      -- heights the positioner left behind
      let b0 : G := { b with nodes := b.nodes.map fun n => { n with y := 0 } }
      if cfg.p4 != 5 then out := out ++ [cmpG "T:assignY" (pure (assignYCoords cfg.ls b0)) b]
    | _, _ => pure ()
    -- phase 5
    match stageOf c 4, stageOf c 5 with
    | some a, some b =>
      if cfg.p5 != 3 then out := out ++ [cmpG "T:phase5" (phase5 cfg.p5 cfg.ls a) b]
    | _, _ => pure ()
    -- post-processing
    match stageOf c 5, stageOf c 6 with
    | some a, some b => out := out ++ [cmpG "T:post" (pure (postProcess a (loopsOf.getD ci []))) b]
    | _, _ => pure ()
  -- the composed model, from the raw input to the public result (small inputs, configurations with exact models)
  if heavy && cfg.p1 ≤ 1 && cfg.p3 == 0 && cfg.p4 ≤ 5 && cfg.p5 != 3 && es.length ≤ 16 then
    match layoutModelP (fun g => (orderWMedianP 24 g).map (·.1)) cfg es with
    | .error e => out := out ++ [("T:pipeline", false, s!"model error {e}")]
    | .ok m => out := out ++ [("T:pipeline", m == real, firstDiffOut m real)]
    -- … and with sizes and spacings withheld from phases 0–3
    match layoutModelS (fun g => (orderWMedianP 24 g).map (·.1)) cfg es with
    | .error e => out := out ++ [("T:pipeline-sizes", false, s!"model error {e}")]
    | .ok m => out := out ++ [("T:pipeline-sizes", m == real, firstDiffOut m real)]
  -- result collection
  let finals := comps.filterMap fun c => stageOf c 6
  if finals.length == comps.length then
    let m := collect cfg 0 0 finals
    out := out ++ [("T:output", m == real, firstDiffOut m real)]
  pure out

end Autog
