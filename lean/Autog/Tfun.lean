import Autog.Json
import Autog.Model.Pre
import Autog.Model.Phase1
/-! T-fun: the models run on the phase-boundary snapshots of real `Layout` runs; the result is compared,
    in canonical form, with the next snapshot. Driver side. -/

namespace Autog
open Lean

/-- the snapshots of one component: stage ↦ state -/
def parseComp (comp : Json) : E (List (Int × G)) := do
  (← jArr comp).mapM fun st => do
    match ← jArr st with
    | [stage, snap] => pure (← stage.getInt?, ← parseSnap snap)
    | _ => throw "bad stage"

def stageOf (c : List (Int × G)) (k : Int) : Option G := (c.find? (·.1 == k)).map (·.2)

/-- result of one correspondence: key, ok, detail -/
abbrev TRes := String × Bool × String

def cmpG (key : String) (model : M G) (real : G) : TRes :=
  match model with
  | .error e => (key, false, s!"model error {e}")
  | .ok g =>
    let c := g.canon
    if c == real then (key, true, "") else (key, false, diffG c real)

def tfunLayout (cfg : Cfg) (es : InEdges) (comps : List (List (Int × G))) : List TRes := Id.run do
  let mut out : List TRes := []
  -- everything before phase 1
  let pre := preProcess cfg es
  match pre with
  | .error e => out := out ++ [("T:pre", false, s!"model error {e}")]
  | .ok cs =>
    if cs.length != comps.length then
      out := out ++ [("T:pre", false, s!"{cs.length} components in the model, {comps.length} in the code")]
    else
      for ((g, _), c) in cs.zip comps do
        match stageOf c 0 with
        | some r => out := out ++ [cmpG "T:pre" (pure g) r]
        | none => out := out ++ [("T:pre", false, "no stage 0")]
  for c in comps do
    -- phase 1
    if cfg.p1 ≤ 1 then
      match stageOf c 0, stageOf c 1 with
      | some a, some b => out := out ++ [cmpG "T:phase1" (phase1 cfg.p1 a) b]
      | _, _ => pure ()
  pure out

end Autog
