import Autog.Json
import Autog.Lemmas.MonitorMachine
import Autog.Spec.Layering
import Autog.Lemmas.Contiguous
import Autog.Tfun
import Autog.DriverGeom
/-! The line-protocol driver: one case line in, one verdict line out. -/

namespace Autog
open Lean

/-- Kahn: the input (self-loops included) has no directed cycle -/
def isAcyclicInput (es : InEdges) : Bool :=
  let ids := inputIds es
  let rec go (fuel : Nat) (remaining : List String) (es : InEdges) : Bool :=
    match fuel with
    | 0 => remaining.isEmpty
    | fuel + 1 =>
      match remaining.find? (fun v => !es.any (·.2 == v)) with
      | none => remaining.isEmpty
      | some v => go fuel (remaining.filter (· != v)) (es.filter (·.1 != v))
  go (ids.length + 1) ids es

def hasParallelOrAnti (es : InEdges) : Bool :=
  !allPairs (fun a b => !(a == b || (a.1 == b.2 && a.2 == b.1))) es

structure Verdict where
  items : List (String × String) := []   -- (check name, "ok" | "fail:<why>" | "skip:<why>")

def Verdict.add (v : Verdict) (k : String) (ok : Bool) (why : String := "") : Verdict :=
  { items := v.items ++ [(k, if ok then "ok" else s!"fail:{why}")] }
def Verdict.skip (v : Verdict) (k why : String) : Verdict := { items := v.items ++ [(k, s!"skip:{why}")] }
def Verdict.addAll (v : Verdict) (k : String) (cl : List (String × Bool)) : Verdict :=
  match cl.find? (!·.2) with
  | some (n, _) => v.add k false n
  | none => v.add k true

def loggedCrossings (events : List Json) : E (List Int) := do
  let mut out := []
  for ev in events do
    match ← jArr ev with
    | [_, _, key, val] =>
      if (← key.getStr?) == "crossings" then out := out ++ [← val.getInt?]
    | _ => throw "bad event"
  pure out

def evalLayout (cfg : Cfg) (es : InEdges) (obs : Json) (heavy : Bool := true) : E Verdict := do
  let mut v : Verdict := {}
  if let some c := fieldOpt obs "crash" then
    let site := (fieldOpt obs "site").bind (·.getStr?.toOption) |>.getD ""
    return v.add "C01" false s!"crash:{c.getStr?.toOption.getD "?"}@{site}"
  if let some p := fieldOpt obs "panic" then
    let site := (fieldOpt obs "site").bind (·.getStr?.toOption) |>.getD ""
    return v.add "C01" false s!"panic:{p.getStr?.toOption.getD "?"}@{site}"
  v := v.add "C01" true
  let o ← match parseOut (← field obs "out") (fieldOpt obs "meta") with
    | .ok o => pure o
    | .error e =>
      -- a non-finite coordinate is a violation of C04/C05, not a protocol error
      if e.startsWith "nonfinite" then
        return (v.add "C04" false e).add "C05" false e
      else throw e
  let routed := cfg.p5 ≤ 3
  v := v.addAll "C02" [("nodes", c02_nodes es o), ("no-helpers", c02_noHelpers cfg o), ("edges", c02_edges es o),
                       ("sizes", c02_sizes cfg o), ("self-loops-unrouted", c02_selfLoops o)]
  let acyc := isAcyclicInput es
  if cfg.p4 == 5 then v := v.skip "C03" "PositioningNoop"
  else if cfg.ls > 0 then
    v := v.addAll "C03" [("bands", c03_bands cfg o), ("edges-between-bands-and-flags", c03_edges o acyc)]
  else v := v.skip "C03" "LayerSpacing=0"
  if cfg.p4 ≤ 3 then
    v := v.addAll "C04" [("nonneg", c04_nonneg o), ("separation", c04_sep cfg o)]
    v := v.add "C09side" (c09_sideBySide cfg o) "components-not-side-by-side"
  else v := v.skip "C04" "BrandesKoepf / no positioner"
  if cfg.p4 == 5 then v := v.skip "C05" "PositioningNoop"
  else if routed then v := v.add "C05" (c05 o) "endpoints-or-arrowhead"
  else v := v.skip "C05" "no routing"
  -- C06 presupposes the band structure of C03
  match (if cfg.p4 == 5 then 9 else cfg.p5) with
  | 1 => v := v.add "C06" (c06_straight o) "straight-two-points"
  | 0 =>
    if cfg.p4 ≤ 3 then
      v := v.addAll "C06" [("polyline-bends", c06_polyline o), ("helpers-match-bends", !cfg.virt || c06_helpers o)]
    else v := v.skip "C06" "BrandesKoepf"
  | 2 => v := v.add "C06" (c06_ortho o) "ortho-segment-not-axis-parallel"
  | 3 => v := v.add "C06" (c06_splines o) "spline-pieces"
  | _ => v := v.skip "C06" "no routing"
  -- C14 second half: acyclic input ⇒ nothing reversed
  if acyc then v := v.add "C14acyclic" (o.edges.all (!·.ahs)) "reversed-edge-on-acyclic-input"
  -- C12: logged crossings = crossings of the drawing
  if let some evs := fieldOpt obs "events" then
    if cfg.p5 == 0 && cfg.p4 ≤ 3 && cfg.ns > 0 && !hasParallelOrAnti es then
      let logged ← loggedCrossings (← jArr evs)
      let total := logged.foldl (· + ·) 0
      let drawn := drawingCrossings o
      v := v.add "C12" (total == (drawn : Int)) s!"logged={total} drawn={drawn}"
  -- C11
  if cfg.p2 == 1 then v := v.add "C11" (c11 o (cfg.ls > 0 && cfg.p4 ≤ 4)) "bands-vs-longest-path (band index of every node as traced and as drawn)"
  -- C13
  if isRootedTree es && cfg.p4 ≤ 3 && cfg.p5 == 0 && cfg.ns > 0 then
    v := v.add "C13" (drawingCrossings o == 0) s!"tree drawn with {drawingCrossings o} crossings"
  -- C14 first half
  if cfg.p1 == 1 then v := v.add "C14" (c14_minimal o) "reversed-set-not-minimal"
  -- C10: per traced component; the budget proviso is decided by the pivot count the hook reports
  if cfg.p2 == 0 then
    if let some cs := fieldOpt obs "comps" then
      let pivots ← match fieldOpt obs "pivots" with
        | some p => jArr p
        | none => pure []
      let better ← match fieldOpt obs "better" with
        | some p => jArr p
        | none => pure []
      for (comp, ci) in (← jArr cs).zipIdx do
        for st in ← jArr comp do
          match ← jArr st with
          | [stage, snap] =>
            if (← stage.getInt?) == 2 then
              let g ← parseSnap snap
              if g.nodes.size > 1 then
                let es := g.elist.map fun i =>
                  let e := g.edge i
                  ({ src := e.src, dst := e.dst, w := e.weight, d := e.delta, x := if e.tree then e.cut else 0 } : WeakDuality.E)
                let exhausted : Bool ← match pivots[ci]? with
                  | some (.arr #[p, m]) => do pure (decide ((← p.getInt?) ≥ (← m.getInt?)))
                  | _ => pure false
                let contiguous := g.layers.toList.all fun l => !l.nodes.isEmpty
                let y := fun i => (g.node i).layer
                v := v.add "C10" contiguous "empty band between used ones"
                if exhausted then v := v.skip "C10" "iteration budget exhausted"
                else
                  -- search result of the harness (max closure), re-validated here: feasible and strictly shorter
                  match better[ci]? with
                  | some (.arr ls) =>
                    let y' ← ls.toList.mapM (·.getInt?)
                    let yf := fun i => y'.getD i 0
                    let feas := es.all fun e => decide (e.d ≤ yf e.dst - yf e.src)
                    let c0 := WeakDuality.cost y es
                    let c1 := WeakDuality.cost yf es
                    if feas && c1 < c0 then
                      v := v.add "C10" false s!"total edge length {c0}, but a feasible layering of length {c1} exists: {y'}"
                    else v := v.add "C10" true
                  | _ => v := v.add "C10" true
                  v := v.add "K:ns-certificate" (certOK es y g.nodes.size) "cut values of the final tree do not certify optimality"
                  v := v.add "K:ns-contiguity-hyp" (Contiguous.unitB es && Contiguous.connB es g.nodes.size) "a weight is not positive, a minimum length is not 1, or the component is not connected"
          | _ => throw "bad stage"
  -- correspondence of the models with the traced run
  if let some cs := fieldOpt obs "comps" then
    let comps ← (← jArr cs).mapM parseComp
    let logged ← match fieldOpt obs "events" with
      | some evs => do pure (some (← loggedCrossings (← jArr evs)))
      | none => pure none
    let pv ← match fieldOpt obs "pivots" with
      | some p => do
        (← jArr p).mapM fun x => do
          match x with
          | .arr #[a, b] => pure (some (← a.getInt?, ← b.getInt?))
          | _ => pure none
      | none => pure []
    for (k, ok, why) in tfunLayout cfg es comps o logged pv heavy do
      v := v.add k ok why
  -- C16
  if (cfg.p4 == 1 || cfg.p4 == 2) && cfg.virt && (comps o).length == 1 then
    v := v.addAll "C16" [("extent", c16_extent cfg o), ("left-zero", c16_leftZero o),
                         ("align", if cfg.p4 == 1 then c16_valign o else c16_packright o)]
  -- C07 (same process)
  if let some r := fieldOpt obs "rep_same" then
    v := v.add "C07rep" (← r.getBool?) "repeated-call-differs"
  if let some r := fieldOpt obs "optlist_same" then
    v := v.add "C07rep" (← r.getBool?) "repeated call with the same option list differs after a call with a shorter list sharing its backing array"
  if let some r := fieldOpt obs "mon_same" then
    v := v.add "C18same" (← r.getBool?) "layout-differs-with-monitor"
  if let some r := fieldOpt obs "inputmod" then
    v := v.add "C07input" (!(← r.getBool?)) "caller-input-modified"
  pure v

/-! ### monitor: T-fun of the state machine, and call histories (C18) -/
open MonitorMachine in
def evalMonitor (j : Json) (obs : Json) : E Verdict := do
  let ops ← jArr (← field (← field j "arg") "ops")
  -- model: run the machine, print the same trace the harness prints
  let mut st := MonSt.init
  let mut tr : List String := []
  for o in ops do
    let a ← jArr o
    let op ← match a with
      | [k, x] => do
        match ← k.getStr? with
        | "set" => let i ← x.getInt?; pure (if i < 0 then Op.set none else Op.set (some i.toNat))
        | "prefix" => let i ← jNat x; pure (Op.prefixFor (i + 1) (i + 1))
        | "log" => let s ← x.getStr?; pure (Op.log ((s.drop 1).toString.toNat?.getD 0))
        | _ => throw "bad op"
      | [_] => pure Op.reset
      | _ => throw "bad op"
    let (s', ev, _) := step st op
    st := s'
    if let some e := ev then tr := tr ++ [s!"{e.mon},{e.phase},{e.alg},{e.key}"]
    tr := tr ++ ["|"]
  let algs ← (← jArr (← field obs "algs")).mapM (·.getStr?)
  let real ← (← jArr (← field obs "trace")).mapM fun t => do
    match t with
    | .str s => pure s
    | t => do
      match ← jArr t with
      | [k, ph, al, key] =>
        let al ← al.getStr?
        let ai := if al == "" then 0 else (algs.idxOf al) + 1
        pure s!"{← k.getInt?},{← ph.getInt?},{ai},{((← key.getStr?).drop 1).toString.toNat?.getD 0}"
      | _ => throw "bad trace"
  pure (({} : Verdict).add "T:monitor" (tr == real) s!"model {tr} real {real}")

def evalHistory (j : Json) (obs : Json) : E Verdict := do
  let calls ← jArr (← field (← field j "arg") "calls")
  let evs ← jArr (← field obs "events")
  let res ← jArr (← field obs "results")
  let mut v : Verdict := {}
  -- every event was delivered to the monitor of the call that was running
  let mut ok := true
  let mut why := ""
  for e in evs do
    match ← jArr e with
    | mi :: cur :: _ =>
      if (← mi.getInt?) != (← cur.getInt?) then
        ok := false; why := s!"monitor of call {← mi.getInt?} got an event while call {← cur.getInt?} was running"
    | _ => throw "bad event"
  v := v.add "C18own" ok why
  -- a monitor does not change the result: calls on the same input agree, with or without monitor
  let mut ok2 := true
  let mut why2 := ""
  let info ← (calls.zip res).mapM fun (c, r) => do
    let kind ← (← field c "kind").getStr?
    let run ← jNat (← field c "run")
    let mon ← (← field c "mon").getBool?
    match ← jArr r with
    | [st, body] => pure (kind, run, mon, ← st.getStr?, ← body.getStr?)
    | _ => throw "bad result"
  for (kind, run, _, st, body) in info do
    if kind == "ok" then
      if st != "ok" then ok2 := false; why2 := s!"call on run {run} failed: {body}"
      for (kind', run', _, st', body') in info do
        if kind' == "ok" && run' == run && (st' != st || body' != body) then
          ok2 := false; why2 := s!"two calls on run {run} returned different layouts"
    else if st != "panic" then
      ok2 := false; why2 := s!"{kind} call did not panic"
  v := v.add "C18same" ok2 why2
  -- a monitored successful call does deliver events (the check is not vacuous)
  let monOk := info.filter fun (k, _, m, _, _) => k == "ok" && m
  v := v.add "C18nonvacuous" (monOk.isEmpty || !evs.isEmpty) "no events at all"
  pure v

/-! ### relations between several Layout results (C08, C09, C17) -/

structure LRes where
  cfg : Cfg
  edges : InEdges
  out : Option Out        -- none: the call panicked / crashed
  fail : String := ""

def parseRun (run obs : Json) : E LRes := do
  let cfg ← parseCfg (← field run "cfg")
  let edges ← parseEdges (← field run "edges")
  if let some c := fieldOpt obs "crash" then
    return { cfg, edges, out := none, fail := s!"crash:{c.compress}" }
  if let some c := fieldOpt obs "panic" then
    return { cfg, edges, out := none, fail := s!"panic:{c.compress}" }
  let o ← parseOut (← field obs "out") (fieldOpt obs "meta")
  pure { cfg, edges, out := some o }


def renameOut (ρ : String → String) (o : Out) : Out :=
  mapOut (fun n => if n.virt then n else { n with id := ρ n.id }) (fun e => { e with src := ρ e.src, dst := ρ e.dst }) o


def shiftOut (dx : Rat) (o : Out) : Out :=
  mapOut (fun n => { n with x := n.x - dx }) (fun e => { e with pts := e.pts.map (·.map fun p => (p.1 - dx, p.2)) }) o

/-- the part of a result that belongs to the component holding the given real ids, with comp reset to 0 -/
def restrictOut (o : Out) (c : Nat) : Out :=
  let ns := o.nodes.filter (·.comp == c)
  let ids := (ns.filter (!·.virt)).map (·.id)
  { nodes := ns.map ({ · with comp := 0 }), edges := o.edges.filter (ids.contains ·.src) }

def firstDiff (a b : Out) : String :=
  if a.nodes.length != b.nodes.length then s!"node count {a.nodes.length} vs {b.nodes.length}"
  else if a.edges.length != b.edges.length then s!"edge count {a.edges.length} vs {b.edges.length}"
  else match (a.nodes.zip b.nodes).find? (fun (x, y) => x != y) with
    | some (x, y) => s!"node {x.id}/{y.id}: x {x.x} vs {y.x}, y {x.y} vs {y.y}, layer {x.layer} vs {y.layer}"
    | none => match (a.edges.zip b.edges).find? (fun (x, y) => x != y) with
      | some (x, y) => s!"edge {x.src}>{x.dst} vs {y.src}>{y.dst}"
      | none => "?"

/-- equality of two results up to rounding: same structure (ids, flags, bands, number of route points), every coordinate
    within 10⁻⁶ (relative to its size); used only for inputs that are not dyadic, where `x + shift` is rounded -/
def closeR (a b : Rat) : Bool :=
  let d := if a ≤ b then b - a else a - b
  let m := (if a < 0 then -a else a) + 1
  d * 1000000 ≤ m

def approxEqOut (a b : Out) : Bool :=
  a.nodes.length == b.nodes.length && a.edges.length == b.edges.length &&
  (a.nodes.zip b.nodes).all (fun (x, y) => x.id == y.id && x.virt == y.virt && x.layer == y.layer && x.comp == y.comp &&
    closeR x.x y.x && closeR x.y y.y && closeR x.w y.w && closeR x.h y.h) &&
  (a.edges.zip b.edges).all (fun (e, f) => e.src == f.src && e.dst == f.dst && e.ahs == f.ahs &&
    match e.pts, f.pts with
    | none, none => true
    | some p, some q => p.length == q.length && (p.zip q).all fun (u, w) => closeR u.1 w.1 && closeR u.2 w.2
    | _, _ => false)

def firstDiffApprox (a b : Out) : String :=
  if a.nodes.length != b.nodes.length then s!"node count {a.nodes.length} vs {b.nodes.length}"
  else if a.edges.length != b.edges.length then s!"edge count {a.edges.length} vs {b.edges.length}"
  else match (a.edges.zip b.edges).find? (fun (e, f) => (e.pts.map (·.length)) != (f.pts.map (·.length))) with
    | some (e, f) => s!"edge {e.src}>{e.dst}: {(e.pts.map (·.length)).getD 0} route points vs {(f.pts.map (·.length)).getD 0}"
    | none => "coordinates differ by more than 1e-6 (relative)"

def evalMulti (j : Json) (obs : Json) : E Verdict := do
  let arg ← field j "arg"
  let rel ← (← field arg "rel").getStr?
  let runs ← jArr (← field j "runs")
  -- the worker did not survive the case (watchdog, memory limit): none of the calls is known to have returned
  if let some c := fieldOpt obs "crash" then
    let key := if rel == "rename" then "C08" else if rel == "scale" then "C17" else "C09"
    let site := (fieldOpt obs "site").bind (·.getStr?.toOption) |>.getD ""
    return (({} : Verdict).add key false s!"a call of the pair did not return: {c.getStr?.toOption.getD "?"}@{site}")
  let outs ← jArr (← field obs "outs")
  let rs ← (runs.zip outs).mapM fun (r, o) => parseRun r o
  let mut v : Verdict := {}
  match rel, rs with
  | "rename", [a, b] =>
    let m ← field arg "map"
    let ρ := fun (s : String) => (m.getObjVal? s).toOption.bind (·.getStr?.toOption) |>.getD s
    match a.out, b.out with
    | some oa, some ob =>
      let ra := renameOut ρ oa
      v := v.add "C08" (ra == ob) (firstDiff ra ob)
    | none, none => v := v.skip "C08" "both calls failed (C01)"
    | _, _ => v := v.add "C08" false s!"one call failed: {a.fail} / {b.fail}"
  | "scale", [a, b] =>
    let k ← (← field arg "k").getInt?
    let c : Rat := if k ≥ 0 then ((2 ^ k.toNat : Nat) : Rat) else 1 / ((2 ^ (-k).toNat : Nat) : Rat)
    match a.out, b.out with
    | some oa, some ob =>
      let sa := scaleOut c oa
      v := v.add "C17" (sa == ob) (firstDiff sa ob)
    | none, none => v := v.skip "C17" "both calls failed (C01)"
    | _, _ => v := v.add "C17" false s!"one call failed: {a.fail} / {b.fail}"
  | "union", whole :: parts =>
    let approx := (fieldOpt arg "approx").isSome
    match whole.out with
    | none =>
      if parts.all (·.out.isSome) then v := v.add "C09" false s!"union failed, parts did not: {whole.fail}"
      else v := v.skip "C09" "a part failed alone too (C01)"
    | some ow =>
      let mut ok := true
      let mut why := ""
      if (comps ow).length != parts.length then
        ok := false; why := s!"{(comps ow).length} components laid out, {parts.length} expected"
      else
        for (p, c) in parts.zipIdx do
          match p.out with
          | none => ok := false; why := s!"part {c} failed alone: {p.fail}"
          | some op =>
            let rw := restrictOut ow c
            let dx := match rw.nodes.head?, op.nodes.head? with
              | some x, some y => x.x - y.x
              | _, _ => 0
            let sw := shiftOut dx rw
            if approx then
              if !approxEqOut sw op then
                ok := false; why := s!"component {c}: " ++ firstDiffApprox sw op
            else if sw != op then
              ok := false; why := s!"component {c}: " ++ firstDiff sw op
      v := v.add "C09" ok why
      -- hypothesis of `C09_sole_input`, evaluated on the model: pre-processing a component's own edge list gives exactly the
      -- component that pre-processing the union hands to the pipeline (same node numbers, edge numbers, incidence lists, sizes)
      match preProcess whole.cfg whole.edges with
      | .error e => v := v.add "K:c09-pre" false s!"model error {e}"
      | .ok cs =>
        let bad := parts.zipIdx.find? fun (p, c) =>
          match preProcess p.cfg p.edges, cs[c]? with
          | .ok [c1], some c0 => !(c1.1 == c0.1 && c1.2 == c0.2)
          | _, _ => true
        v := v.add "K:c09-pre" bad.isNone s!"component {(bad.map (·.2)).getD 0}: pre-processing it alone gives a different graph state"
      if whole.cfg.p4 ≤ 3 && !approx then v := v.add "C09side" (c09_sideBySide whole.cfg ow) "components-not-side-by-side"
  | _, _ => throw s!"bad multi case {rel}"
  pure v

def processCase (j : Json) (heavy : Bool := true) : E Verdict := do
  let op ← (← field j "op").getStr?
  let obs ← field j "obs"
  match op with
  | "layout" =>
    let cfg ← parseCfg (← field j "cfg")
    let es ← parseEdges (← field j "edges")
    let v ← evalLayout cfg es obs heavy
    -- inputs on which binary64 rounds (magnitudes near the top of the range): the exact predicates do not apply; what is decided is
    -- that the call returned and that every coordinate is finite (a non-finite one does not decode: see `processLine`)
    if ((j.getObjVal? "arg").toOption.bind (fun a => (a.getObjVal? "finiteonly").toOption)).isSome then
      if v.items.any fun kv => (kv.1 == "C04" || kv.1 == "C05") && kv.2.startsWith "fail:nonfinite" then
        pure { items := v.items.filter fun kv => kv.1 == "C01" || kv.2.startsWith "fail:nonfinite" }
      else pure ((({ items := v.items.filter fun kv => kv.1 == "C01" } : Verdict).add "C04" true).add "C05" true)
    else pure v
  | "multi" => evalMulti j obs
  | "concurrent" =>
    if let some c := fieldOpt obs "crash" then
      let site := (fieldOpt obs "site").bind (·.getStr?.toOption) |>.getD ""
      return (({} : Verdict).add "C15conc" false s!"concurrent calls: {c.getStr?.toOption.getD "?"}@{site}")
    let d ← jArr (← field obs "differ")
    pure (({} : Verdict).add "C15conc" d.isEmpty s!"calls {d.length} differ from their sequential result")
  | "history" => evalHistory j obs
  | "monitor" => evalMonitor j obs
  | "shortest" => do pure ((← evalShortest j obs).foldl (fun v (k, ok, why) => v.add k ok why) {})
  | "fitspline" => do pure ((← evalFitSpline j obs).foldl (fun v (k, ok, why) => v.add k ok why) {})
  | "solve" => do pure ((← evalSolve j obs).foldl (fun v (k, ok, why) => v.add k ok why) {})
  | _ => throw s!"unknown op {op}"

/-- several verdicts under one key (one per component): a failure dominates, then ok, then skip -/
def mergeItems (items : List (String × String)) : List (String × String) :=
  (dedup (items.map (·.1))).map fun k =>
    let vs := (items.filter (·.1 == k)).map (·.2)
    match vs.find? (·.startsWith "fail:") with
    | some f => (k, f)
    | none => match vs.find? (· == "ok") with
      | some o => (k, o)
      | none => (k, vs.head!)

def processLine (line : String) (heavy : Bool := true) : String :=
  match Json.parse line with
  | .error e => (Json.mkObj [("error", Json.str s!"parse: {e}")]).compress
  | .ok j =>
    let id := (j.getObjVal? "id").toOption.bind (·.getStr?.toOption) |>.getD "?"
    match processCase j heavy with
    | .error e =>
      if e.startsWith "nonfinite:" then
        -- a value that is not a number: for the root finder "nothing that is not a root" fails, for the geometry routines the
        -- path / curve is not inside anything, for a layout it is a coordinate (C04/C05)
        let op := (j.getObjVal? "op").toOption.bind (·.getStr?.toOption) |>.getD ""
        let keys := if op == "solve" then ["C20roots"] else if op == "shortest" then ["C19"] else if op == "fitspline" then ["C20"]
          else ["C04", "C05"]
        (Json.mkObj [("id", Json.str id), ("v", Json.mkObj (keys.map fun k => (k, Json.str s!"fail:non-finite output value {e}")))]).compress
      else (Json.mkObj [("id", Json.str id), ("error", Json.str e)]).compress
    | .ok v => (Json.mkObj [("id", Json.str id), ("v", Json.mkObj ((mergeItems v.items).map fun (k, s) => (k, Json.str s)))]).compress

end Autog
