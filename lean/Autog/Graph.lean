import Autog.Basic
/-! The graph state of internal/graph as values: pointer identity of nodes and edges is an index into an
    append-only store; `g.Nodes` is the node store itself (nodes are never removed or reordered within a
    component), `g.Edges` is `elist`, a list of edge ids. Core-only. -/

namespace Autog

structure Node where
  id    : String
  ins   : List Nat := []     -- In  : edge ids
  outs  : List Nat := []     -- Out : edge ids
  layer : Int := 0
  pos   : Int := 0           -- LayerPos
  virt  : Bool := false
  x : Rat := 0
  y : Rat := 0
  w : Rat := 0
  h : Rat := 0
deriving Repr, BEq, Inhabited

structure Edge where
  src : Nat
  dst : Nat
  rev : Bool := false
  delta : Int := 1
  weight : Int := 1
  tree : Bool := false
  cut : Int := 0
  ahs : Bool := false
  pts : List Pt := []
deriving Repr, BEq, Inhabited

structure Layer where
  index : Int
  nodes : List Nat
  w : Rat := 0
  h : Rat := 0
deriving Repr, BEq, Inhabited

structure G where
  nodes  : Array Node := #[]
  edges  : Array Edge := #[]      -- store: every edge object ever allocated for this component
  elist  : List Nat := []         -- g.Edges
  layers : Array Layer := #[]
deriving Repr, BEq, Inhabited

namespace G
def node (g : G) (i : Nat) : Node := g.nodes.getD i default
def edge (g : G) (i : Nat) : Edge := g.edges.getD i default
def modNode (g : G) (i : Nat) (f : Node → Node) : G := { g with nodes := g.nodes.modify i f }
def modEdge (g : G) (i : Nat) (f : Edge → Edge) : G := { g with edges := g.edges.modify i f }
def nodeIds (g : G) : List Nat := List.range g.nodes.size
end G

end Autog
