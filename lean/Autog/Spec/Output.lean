import Autog.Basic
/-! The public result of `autog.Layout` and the configuration, as values; and the decidable predicates
    the properties C02–C06, C09, C12, C16 are about, evaluated by the driver on what the real code
    returned. Core-only. -/

namespace Autog

structure ONode where
  id : String
  x : Rat
  y : Rat
  w : Rat
  h : Rat
  virt : Bool := false      -- from the stage-6 trace (the public output cannot tell)
  layer : Int := 0          -- band index within its component, from the stage-6 trace
  comp : Nat := 0           -- component number, from the trace
deriving Repr, BEq, Inhabited

structure OEdge where
  src : String
  dst : String
  ahs : Bool
  pts : Option (List Pt)    -- `none` = nil slice
deriving Repr, BEq, Inhabited

structure Out where
  nodes : List ONode
  edges : List OEdge
deriving Repr, BEq, Inhabited

structure Cfg where
  p1 : Nat := 0   -- 0 Greedy, 1 DepthFirst, 2 Greedy-random
  p2 : Nat := 0   -- 0 NetworkSimplex, 1 LongestPath
  p3 : Nat := 0   -- 0 WMedian, 1 OrderingNoop (no model of the pipeline under it: only predicates and per-stage keys of later phases)
  p4 : Nat := 0   -- 0 SinkColoring, 1 VAlign, 2 PackRight, 3 NetworkSimplex, 4 BrandesKoepf
  bk : Int := -1
  p5 : Nat := 0   -- 0 Polyline, 1 Straight, 2 Ortho, 3 Splines, 4 Noop
  ns : Rat := 60
  ls : Rat := 150
  fixed : Option (Rat × Rat) := none
  sizes : Option (List (String × Rat × Rat)) := none
  virt : Bool := false
  thor : Int := -1
deriving Repr, BEq, Inhabited

abbrev InEdges := List (String × String)

def mapOut (f : ONode → ONode) (g : OEdge → OEdge) (o : Out) : Out := { nodes := o.nodes.map f, edges := o.edges.map g }

/-- a result with every coordinate, size and route point multiplied by c: the relation C17 asks for (used by the driver's scale
    predicate and by the theorem `C17_layoutModelS_scale`) -/
def scaleOut (c : Rat) (o : Out) : Out :=
  mapOut (fun n => { n with x := c * n.x, y := c * n.y, w := c * n.w, h := c * n.h })
         (fun e => { e with pts := e.pts.map (·.map fun p => (c * p.1, c * p.2)) }) o

/-- distinct ids in first-appearance order -/
def inputIds (es : InEdges) : List String := dedup (es.flatMap fun e => [e.1, e.2])

/-- the size configured for a node: listed size, else fixed size, else zero -/
def sizeOf (cfg : Cfg) (id : String) : Rat × Rat :=
  match cfg.sizes.bind (fun m => m.lookup id) with
  | some s => s
  | none => cfg.fixed.getD (0, 0)

def realNodes (o : Out) : List ONode := o.nodes.filter (!·.virt)
def findNode (o : Out) (id : String) : Option ONode := (realNodes o).find? (·.id == id)

/-! ### C02 -/
def c02_nodes (es : InEdges) (o : Out) : Bool :=
  sameMultiset ((realNodes o).map (·.id)) (inputIds es)
def c02_noHelpers (cfg : Cfg) (o : Out) : Bool := cfg.virt || o.nodes.all (!·.virt)
def c02_edges (es : InEdges) (o : Out) : Bool :=
  sameMultiset (o.edges.map fun e => (e.src, e.dst)) es
def c02_sizes (cfg : Cfg) (o : Out) : Bool :=
  (realNodes o).all fun n => (n.w, n.h) == sizeOf cfg n.id
def c02_selfLoops (o : Out) : Bool :=
  o.edges.all fun e => e.src != e.dst || (e.pts.getD []).isEmpty

/-! ### C03 -/
def compNodes (o : Out) (c : Nat) : List ONode := o.nodes.filter (·.comp == c)
def comps (o : Out) : List Nat := dedup (o.nodes.map (·.comp))

/-- bands of a component: distinct Y values of its (real) nodes, ascending is not needed: we compare all pairs -/
def c03_bands (cfg : Cfg) (o : Out) : Bool :=
  (comps o).all fun c =>
    let ns := (compNodes o c).filter (!·.virt)
    -- for two nodes with different Y, the lower one starts at least LS below the bottom of the tallest
    -- node sharing the upper one's Y
    ns.all fun a => ns.all fun b =>
      if a.y < b.y then
        let tallest := listMaxRat 0 ((ns.filter (·.y == a.y)).map (·.h))
        a.y + tallest + cfg.ls ≤ b.y
      else true

def c03_edges (o : Out) (acyclicInput : Bool) : Bool :=
  o.edges.all fun e =>
    if e.src == e.dst then true else
    match findNode o e.src, findNode o e.dst with
    | some f, some t =>
      f.y != t.y && (e.ahs == decide (f.y > t.y)) && (!acyclicInput || !e.ahs)
    | _, _ => false

/-! ### C04 -/
def hsep (ns : Rat) (a b : ONode) : Bool := a.x + a.w + ns ≤ b.x || b.x + b.w + ns ≤ a.x
def vsep (a b : ONode) : Bool := a.y + a.h ≤ b.y || b.y + b.h ≤ a.y
def c04_nonneg (o : Out) : Bool := o.nodes.all fun n => 0 ≤ n.x && 0 ≤ n.y
/-- same band ⇒ NS apart; different components ⇒ NS apart; otherwise (different bands of one component)
    the rectangles must not overlap: horizontally or vertically disjoint -/
def c04_pair (cfg : Cfg) (a b : ONode) : Bool :=
  if a.comp != b.comp then hsep cfg.ns a b
  else if a.layer == b.layer then hsep cfg.ns a b
  else hsep 0 a b || vsep a b
def c04_sep (cfg : Cfg) (o : Out) : Bool := allPairs (c04_pair cfg) o.nodes

/-! ### C05 -/
def bottomCentre (n : ONode) : Pt := (n.x + n.w / 2, n.y + n.h)
def topCentre (n : ONode) : Pt := (n.x + n.w / 2, n.y)

def c05_edge (o : Out) (e : OEdge) : Bool :=
  if e.src == e.dst then true else
  match findNode o e.src, findNode o e.dst, e.pts with
  | some f, some t, some (p :: ps) =>
    let last := (p :: ps).getLast!
    -- the arrowhead end is at ToID: last point normally, first point when ArrowHeadStart;
    -- the first point is on the node in the upper band
    if e.ahs then p == bottomCentre t && last == topCentre f && t.layer < f.layer
    else p == bottomCentre f && last == topCentre t && f.layer < t.layer
  | _, _, _ => false
def c05 (o : Out) : Bool := o.edges.all (c05_edge o)

/-! ### C06 -/
def nonDecreasingY : List Pt → Bool := allAdj (fun p q => p.2 ≤ q.2)
def strictlyInside (p : Pt) (n : ONode) : Bool := n.x < p.1 && p.1 < n.x + n.w && n.y < p.2 && p.2 < n.y + n.h
def interior {α} (l : List α) : List α := l.tail.dropLast

def c06_straight (o : Out) : Bool :=
  o.edges.all fun e => e.src == e.dst || (e.pts.getD []).length == 2

def c06_polyline (o : Out) : Bool :=
  o.edges.all fun e =>
    if e.src == e.dst then true else
    match findNode o e.src, findNode o e.dst with
    | some f, some t =>
      let pts := e.pts.getD []
      let span := (f.layer - t.layer).natAbs
      pts.length == span + 1 && nonDecreasingY pts &&
      (interior pts).all fun b => o.nodes.all fun n => !strictlyInside b n
    | _, _ => false

/-- with helper nodes in the output: per component the bends and the helper nodes match one to one at the same x -/
def c06_helpers (o : Out) : Bool :=
  (comps o).all fun c =>
    let vns := (compNodes o c).filter (·.virt)
    let realIds := ((compNodes o c).filter (!·.virt)).map (·.id)
    let bends := (o.edges.filter fun e => e.src != e.dst && realIds.contains e.src).flatMap fun e => interior (e.pts.getD [])
    -- a bend sits at the helper's centre x, inside the helper's band
    sameMultiset (bends.map (·.1)) (vns.map fun v => v.x + v.w / 2) &&
    bends.all fun b => vns.any fun v => v.x + v.w / 2 == b.1 && v.y ≤ b.2

def c06_ortho (o : Out) : Bool :=
  o.edges.all fun e => allAdj (fun (p q : Pt) => p.1 == q.1 || p.2 == q.2) (e.pts.getD [])

def splineJoins : List Pt → Bool
  | _ :: _ :: _ :: p3 :: q0 :: rest => p3 == q0 && splineJoins (q0 :: rest)
  | _ => true
def c06_splines (o : Out) : Bool :=
  o.edges.all fun e =>
    e.src == e.dst ||
    (let pts := e.pts.getD []
     pts.length % 4 == 0 && pts.length > 0 && splineJoins pts)

/-! ### C09 (side by side) -/
def compExtent (o : Out) (c : Nat) : Rat × Rat :=
  let ns := compNodes o c
  ((ns.map (·.x)).foldl minRat (ns.head!.x), (ns.map fun n => n.x + n.w).foldl maxRat (ns.head!.x + ns.head!.w))
def c09_sideBySide (cfg : Cfg) (o : Out) : Bool :=
  allPairs (fun c d =>
    let (l1, r1) := compExtent o c
    let (l2, r2) := compExtent o d
    r1 + cfg.ns ≤ l2 || r2 + cfg.ns ≤ l1) (comps o)

/-! ### C12: crossings of the drawing, from node and bend x coordinates -/
/-- the segments of an edge between consecutive bands: (upper band index, x at upper band, x at lower band) -/
def edgeSegments (o : Out) (e : OEdge) : List (Nat × Int × Rat × Rat) :=
  if e.src == e.dst then [] else
  match findNode o e.src, findNode o e.dst with
  | some f, some t =>
    let top := if f.layer ≤ t.layer then f else t
    let xs := (e.pts.getD []).map (·.1)
    (List.range (xs.length - 1)).map fun (i : Nat) => (top.comp, top.layer + (i : Int), xs.getD i 0, xs.getD (i+1) 0)
  | _, _ => []

def segCross (s t : Nat × Int × Rat × Rat) : Bool :=
  s.1 == t.1 && s.2.1 == t.2.1 &&
  ((s.2.2.1 < t.2.2.1 && s.2.2.2 > t.2.2.2) || (s.2.2.1 > t.2.2.1 && s.2.2.2 < t.2.2.2))

def countPairs {α} (p : α → α → Bool) : List α → Nat
  | [] => 0
  | x :: xs => (xs.filter (p x)).length + countPairs p xs

def drawingCrossings (o : Out) : Nat := countPairs segCross (o.edges.flatMap (edgeSegments o))

/-! ### drawn orientation (C11, C14) -/
abbrev DEdge := String × String

/-- the edges as drawn: an edge flagged ArrowHeadStart is drawn from ToID to FromID; self-loops are not drawn -/
def drawnEdges (o : Out) : List DEdge :=
  (o.edges.filter fun e => e.src != e.dst).map fun e => if e.ahs then (e.dst, e.src) else (e.src, e.dst)

/-- Kahn: no directed cycle -/
def acyclicD (es : List DEdge) : Bool :=
  let ids := dedup (es.flatMap fun e => [e.1, e.2])
  let rec go (fuel : Nat) (remaining : List String) (es : List DEdge) : Bool :=
    match fuel with
    | 0 => remaining.isEmpty
    | fuel + 1 =>
      match remaining.find? (fun v => !es.any (·.2 == v)) with
      | none => remaining.isEmpty
      | some v => go fuel (remaining.filter (· != v)) (es.filter (·.1 != v))
  go (ids.length + 1) ids es

/-- number of nodes on the longest path starting at each node of an acyclic edge list: n rounds of relaxation
    `lp v = 1 + max lp w` over the edges v → w (no path has more than n nodes) -/
def lpAll (ids : List String) (es : List DEdge) : List (String × Nat) :=
  let init := ids.map fun v => (v, 1)
  (List.range ids.length).foldl (fun lp _ =>
    lp.map fun (v, _) => (v, 1 + ((es.filter (·.1 == v)).map fun e => lookupD 0 lp e.2).foldl max 0)) init

def lpFrom (es : List DEdge) (n : Nat) (v : String) : Nat :=
  let ids := dedup (v :: es.flatMap fun e => [e.1, e.2])
  let _ := n
  lookupD 1 (lpAll ids es) v

/-- C11: per component, bands = nodes on a longest path; a node is lp(v) − 1 bands above the bottom band -/
def c11 (o : Out) (bandsFromY : Bool := false) : Bool :=
  let es := drawnEdges o
  acyclicD es &&
  (comps o).all fun c =>
    let ns := (compNodes o c).filter (!·.virt)
    -- the bands as drawn are the traced layers: same layer ⇔ same Y, lower layer ⇔ smaller Y (asked when LayerSpacing > 0)
    (!bandsFromY || allPairs (fun a b => (a.layer == b.layer) == (a.y == b.y) && (a.layer < b.layer) == (a.y < b.y)) ns) &&
    let ids := ns.map (·.id)
    let ces := es.filter fun e => ids.contains e.1
    let tab := lpAll ids ces
    let lps := ns.map fun v => lookupD 1 tab v.id
    let maxlp := lps.foldl max 0
    let bottom := (ns.map (·.layer)).foldl max 0
    let top := (ns.map (·.layer)).foldl min bottom
    (bottom - top + 1 == (maxlp : Int)) &&
    (ns.zip lps).all fun (v, l) => bottom - v.layer == (l : Int) - 1

/-- C14: un-reversing any single flagged edge re-creates a directed cycle among the edges as drawn -/
def c14_minimal (o : Out) : Bool :=
  let es := (o.edges.filter fun e => e.src != e.dst)
  let drawn (flip : Nat) : List DEdge :=
    es.zipIdx.map fun (e, i) => if e.ahs && i != flip then (e.dst, e.src) else (e.src, e.dst)
  acyclicD (drawn es.length) &&
  es.zipIdx.all fun (e, i) => !e.ahs || !acyclicD (drawn i)

/-- the input is a rooted tree with all edges pointing away from the root, or all toward it -/
def isRootedTree (es : InEdges) : Bool :=
  let ids := inputIds es
  let simple := allPairs (fun a b => a != b) es && es.all (fun e => e.1 != e.2)
  -- connected: grow the reachable set from the first id, ignoring direction
  let rec grow (fuel : Nat) (seen : List String) : List String :=
    match fuel with
    | 0 => seen
    | fuel + 1 =>
      let next := dedup (seen ++ (es.filter (fun e => seen.contains e.1 || seen.contains e.2)).flatMap fun e => [e.1, e.2])
      if next.length == seen.length then seen else grow fuel next
  let connected := match ids with
    | [] => false
    | r :: _ => (grow ids.length [r]).length == ids.length
  let outTree := ids.all fun v => (es.filter (·.2 == v)).length ≤ 1
  let inTree := ids.all fun v => (es.filter (·.1 == v)).length ≤ 1
  simple && connected && es.length + 1 == ids.length && (outTree || inTree)

/-! ### C16 -/
def bandsOf (o : Out) : List (List ONode) :=
  (dedup (o.nodes.map (·.layer))).map fun l => o.nodes.filter (·.layer == l)
def bandLeft (b : List ONode) : Rat := (b.map (·.x)).foldl minRat b.head!.x
def bandRight (b : List ONode) : Rat := (b.map fun n => n.x + n.w).foldl maxRat (b.head!.x + b.head!.w)
def sumRat (l : List Rat) : Rat := l.foldl (· + ·) 0
def c16_extent (cfg : Cfg) (o : Out) : Bool :=
  (bandsOf o).all fun b => bandRight b - bandLeft b == sumRat (b.map (·.w)) + cfg.ns * ((b.length : Int) - 1 : Int)
def c16_leftZero (o : Out) : Bool := (o.nodes.map (·.x)).foldl minRat o.nodes.head!.x == 0
def c16_valign (o : Out) : Bool :=
  allAdj (fun b c => bandLeft b + bandRight b == bandLeft c + bandRight c) (bandsOf o)
def c16_packright (o : Out) : Bool :=
  allAdj (fun b c => bandRight b == bandRight c) (bandsOf o)

end Autog
