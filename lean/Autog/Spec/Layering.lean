import Autog.Lemmas.WeakDuality
/-! C10: the optimality-certificate checker and its soundness. Core-only. -/

namespace Autog
open WeakDuality

/-- decidable certificate check: edges within bounds, layering feasible, flow non-negative and conserving
    w.r.t. the weights at every node, and equal primal and dual objectives -/
def certOK (es : List E) (y : Nat → Int) (n : Nat) : Bool :=
  es.all (fun e => decide (e.src < n) && decide (e.dst < n)) &&
  es.all (fun e => decide (e.d ≤ y e.dst - y e.src)) &&
  es.all (fun e => decide (0 ≤ e.x)) &&
  (List.range n).all (fun k => net (fun e => e.w - e.x) k es == 0) &&
  cost y es == dualObj es

theorem net_out_of_range (z : E → Int) (k n : Nat) (hk : n ≤ k) :
    ∀ (es : List E), (∀ e ∈ es, e.src < n ∧ e.dst < n) → net z k es = 0
  | [], _ => rfl
  | e :: es, h => by
    have he := h e (List.mem_cons_self ..)
    have ih := net_out_of_range z k n hk es (fun e he => h e (List.mem_cons_of_mem _ he))
    have h1 : ind k e.dst = 0 := by unfold ind; split <;> omega
    have h2 : ind k e.src = 0 := by unfold ind; split <;> omega
    simp [net, ih, h1, h2]

/-- soundness of the checker: an accepted layering is optimal among ALL feasible layerings -/
theorem certOK_sound (es : List E) (y : Nat → Int) (n : Nat) (h : certOK es y n = true) :
    (∀ e ∈ es, e.d ≤ y e.dst - y e.src) ∧
    ∀ y' : Nat → Int, (∀ e ∈ es, e.d ≤ y' e.dst - y' e.src) → cost y es ≤ cost y' es := by
  unfold certOK at h
  simp only [Bool.and_eq_true, List.all_eq_true, decide_eq_true_eq, beq_iff_eq, List.mem_range] at h
  obtain ⟨⟨⟨⟨hb, hf⟩, hx⟩, hc⟩, heq⟩ := h
  refine ⟨hf, fun y' hf' => ?_⟩
  apply optimal_of_certificate es y y' n hb hx _ heq hf'
  intro k
  by_cases hk : k < n
  · exact hc k hk
  · exact net_out_of_range _ k n (by omega) es hb

end Autog
