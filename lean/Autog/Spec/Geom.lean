import Autog.Basic
import Autog.Lemmas.SegmentInsideRects
import Autog.Lemmas.BezierHull
/-! C19 / C20: verified checkers over exact rationals.
    * `segInside`: a segment lies in a union of rectangles (certificate = crossings with all edge lines; soundness from
      SegmentInsideRects.segment_inside).
    * certified square-root bounds, so that "this path is strictly shorter than that one" is decided soundly.
    * `bezierInside`: a cubic Bezier piece lies in a union of rectangles (recursive de Casteljau halving; a piece whose
      control box fits in one rectangle is inside it by the hull property). Core-only. -/

namespace Autog
open SegmentInsideRects

abbrev Corridor := List Rect

def mkSeg (a b : Pt) : Seg := ⟨a.1, a.2, b.1 - a.1, b.2 - a.2⟩

def insertSorted (x : Rat) : List Rat → List Rat
  | [] => [x]
  | y :: ys => if x ≤ y then x :: y :: ys else y :: insertSorted x ys
def sortRat (l : List Rat) : List Rat := l.foldr insertSorted []

/-- parameters in (0,1) at which the segment meets the line of some rectangle edge -/
def crossings01 (rects : Corridor) (s : Seg) : List Rat :=
  let cand := rects.flatMap fun R =>
    (if s.dx == 0 then [] else [(R.l - s.ax) / s.dx, (R.r - s.ax) / s.dx]) ++
    (if s.dy == 0 then [] else [(R.top - s.ay) / s.dy, (R.bot - s.ay) / s.dy])
  sortRat (cand.filter fun t => 0 < t && t < 1)

/-- the containment test: breakpoints 0, crossings, 1 -/
def segInside (rects : Corridor) (a b : Pt) : Bool :=
  covered rects (mkSeg a b) (0 :: (crossings01 rects (mkSeg a b) ++ [1]))

/-- soundness: every point of an accepted segment lies in one of the rectangles -/
theorem segInside_sound (rects : Corridor) (a b : Pt) (h : segInside rects a b = true) :
    ∀ t : Rat, 0 ≤ t → t ≤ 1 → ∃ R ∈ rects, R.has ((mkSeg a b).x t) ((mkSeg a b).y t) := by
  unfold segInside at h
  cases hc : crossings01 rects (mkSeg a b) with
  | nil =>
    rw [hc] at h
    exact segment_inside rects (mkSeg a b) [] 1 h rfl
  | cons t1 ts =>
    rw [hc] at h
    have h' : covered rects (mkSeg a b) (0 :: t1 :: (ts ++ [1])) = true := by simpa using h
    have hl : ∀ hne, ((t1 :: ts) ++ [(1 : Rat)]).getLast hne = 1 := fun hne => List.getLast_concat
    exact segment_inside rects (mkSeg a b) (ts ++ [1]) t1 h' (hl _)

def pathInside (rects : Corridor) : List Pt → Bool
  | a :: b :: rest => segInside rects a b && pathInside rects (b :: rest)
  | _ => true

/-- consecutive rectangles are stacked and share a boundary segment of positive length; sizes positive -/
def corridorWF : Corridor → Bool
  | [] => false
  | [R] => decide (R.l < R.r) && decide (R.top < R.bot)
  | R :: S :: rest =>
    decide (R.l < R.r) && decide (R.top < R.bot) && decide (R.bot = S.top) &&
    decide (maxRat R.l S.l < minRat R.r S.r) && corridorWF (S :: rest)

/-! ### certified square roots -/

/-- integer square root by Newton iteration on naturals, then corrected: `r*r ≤ n < (r+1)*(r+1)` is CHECKED by the
    caller, nothing is assumed about this function -/
def natSqrt (n : Nat) : Nat := Nat.sqrt n

/-- 2^k as a rational, k any integer -/
def pow2 (k : Int) : Rat := if 0 ≤ k then ((2 ^ k.toNat : Nat) : Rat) else 1 / ((2 ^ (-k).toNat : Nat) : Rat)

/-- lower and upper bounds of √q with about 40 significant binary digits whatever the magnitude of q (q is first scaled by a
    power of 4 so that its integer part has ~80 bits), verified by squaring (if the verification fails the bounds degrade to
    0 and q+1, which are always valid for q ≥ 0) -/
def sqrtBounds (q : Rat) : Rat × Rat :=
  if q ≤ 0 then (0, 0) else
  let e : Int := (Nat.log2 q.den : Int) - (Nat.log2 q.num.toNat : Int)     -- ≈ −log₂ q
  let k : Int := (80 + e) / 2
  let n : Nat := (q * pow2 (2 * k)).floor.toNat
  let r := natSqrt n
  let lo : Rat := (r : Rat) / pow2 k
  let hi : Rat := ((r + 2 : Nat) : Rat) / pow2 k
  let lo' := if lo * lo ≤ q then lo else 0
  let hi' := if q ≤ hi * hi then hi else q + 1
  (lo', hi')

theorem sqrtBounds_lo (q : Rat) (hq : 0 ≤ q) : (sqrtBounds q).1 * (sqrtBounds q).1 ≤ q := by
  unfold sqrtBounds
  split
  · simp; exact hq
  · simp only
    split
    · assumption
    · simp; exact hq

theorem sqrtBounds_hi (q : Rat) (hq : 0 ≤ q) : q ≤ (sqrtBounds q).2 * (sqrtBounds q).2 := by
  unfold sqrtBounds
  split
  · rename_i h; simp; exact Rat.le_trans h (by decide)
  · simp only
    split
    · assumption
    · -- q ≤ (q+1)²  for q ≥ 0
      have : q ≤ (q + 1) * (q + 1) := by
        have h1 : 0 ≤ q * q := Rat.mul_nonneg hq hq
        grind
      exact this

def sqDist (a b : Pt) : Rat := (b.1 - a.1) * (b.1 - a.1) + (b.2 - a.2) * (b.2 - a.2)

def lenLo : List Pt → Rat
  | a :: b :: rest => (sqrtBounds (sqDist a b)).1 + lenLo (b :: rest)
  | _ => 0
def lenHi : List Pt → Rat
  | a :: b :: rest => (sqrtBounds (sqDist a b)).2 + lenHi (b :: rest)
  | _ => 0

/-- `alt` is certainly shorter than `path`: an upper bound of its length is below a lower bound of the other -/
def definitelyShorter (alt path : List Pt) : Bool := lenHi alt < lenLo path

/-! ### Bezier pieces -/
open BezierHull

structure Piece where
  p0 : Pt
  p1 : Pt
  p2 : Pt
  p3 : Pt
deriving Repr, BEq

def Piece.at (c : Piece) (t : Rat) : Pt := (bez c.p0.1 c.p1.1 c.p2.1 c.p3.1 t, bez c.p0.2 c.p1.2 c.p2.2 c.p3.2 t)

def mid (a b : Pt) : Pt := ((a.1 + b.1) / 2, (a.2 + b.2) / 2)

/-- de Casteljau at t = 1/2 -/
def Piece.left (c : Piece) : Piece :=
  ⟨c.p0, ((c.p0.1 + c.p1.1) / 2, (c.p0.2 + c.p1.2) / 2),
   ((c.p0.1 + 2 * c.p1.1 + c.p2.1) / 4, (c.p0.2 + 2 * c.p1.2 + c.p2.2) / 4),
   ((c.p0.1 + 3 * c.p1.1 + 3 * c.p2.1 + c.p3.1) / 8, (c.p0.2 + 3 * c.p1.2 + 3 * c.p2.2 + c.p3.2) / 8)⟩
def Piece.right (c : Piece) : Piece :=
  ⟨((c.p0.1 + 3 * c.p1.1 + 3 * c.p2.1 + c.p3.1) / 8, (c.p0.2 + 3 * c.p1.2 + 3 * c.p2.2 + c.p3.2) / 8),
   ((c.p1.1 + 2 * c.p2.1 + c.p3.1) / 4, (c.p1.2 + 2 * c.p2.2 + c.p3.2) / 4),
   ((c.p2.1 + c.p3.1) / 2, (c.p2.2 + c.p3.2) / 2), c.p3⟩

def ptIn (R : Rect) (p : Pt) : Bool := decide (R.has p.1 p.2)
def boxIn (R : Rect) (c : Piece) : Bool := ptIn R c.p0 && ptIn R c.p1 && ptIn R c.p2 && ptIn R c.p3

/-- recursive containment check: all four control points in one rectangle, or both halves contained -/
def bezierInside (rects : Corridor) : Nat → Piece → Bool
  | 0, c => rects.any (boxIn · c)
  | fuel + 1, c => rects.any (boxIn · c) || (bezierInside rects fuel c.left && bezierInside rects fuel c.right)

theorem bez_le (p0 p1 p2 p3 t hi : Rat) (h0 : p0 ≤ hi) (h1 : p1 ≤ hi) (h2 : p2 ≤ hi) (h3 : p3 ≤ hi)
    (ht0 : 0 ≤ t) (ht1 : t ≤ 1) : bez p0 p1 p2 p3 t ≤ hi := by
  have := bez_ge (-p0) (-p1) (-p2) (-p3) t (-hi) (by grind) (by grind) (by grind) (by grind) ht0 ht1
  have e : bez (-p0) (-p1) (-p2) (-p3) t = -bez p0 p1 p2 p3 t := by unfold bez; grind
  rw [e] at this; grind

/-- hull: a piece whose four control points lie in a rectangle stays in it -/
theorem boxIn_sound (R : Rect) (c : Piece) (h : boxIn R c = true) (t : Rat) (ht0 : 0 ≤ t) (ht1 : t ≤ 1) :
    R.has (c.at t).1 (c.at t).2 := by
  unfold boxIn ptIn at h
  simp only [Bool.and_eq_true, decide_eq_true_eq] at h
  obtain ⟨⟨⟨h0, h1⟩, h2⟩, h3⟩ := h
  unfold Rect.has at *
  unfold Piece.at
  exact ⟨bez_ge _ _ _ _ t _ h0.1 h1.1 h2.1 h3.1 ht0 ht1, bez_le _ _ _ _ t _ h0.2.1 h1.2.1 h2.2.1 h3.2.1 ht0 ht1,
         bez_ge _ _ _ _ t _ h0.2.2.1 h1.2.2.1 h2.2.2.1 h3.2.2.1 ht0 ht1, bez_le _ _ _ _ t _ h0.2.2.2 h1.2.2.2 h2.2.2.2 h3.2.2.2 ht0 ht1⟩

theorem left_at (c : Piece) (t : Rat) : c.left.at t = c.at (t / 2) := by
  unfold Piece.at Piece.left
  simp only [bez_left]
theorem right_at (c : Piece) (t : Rat) : c.right.at t = c.at (1 / 2 + t / 2) := by
  unfold Piece.at Piece.right
  simp only [bez_right]

/-- C20 (a): an accepted piece lies in the union of the rectangles, for every parameter in [0, 1] -/
theorem bezierInside_sound (rects : Corridor) : ∀ (fuel : Nat) (c : Piece), bezierInside rects fuel c = true →
    ∀ t : Rat, 0 ≤ t → t ≤ 1 → ∃ R ∈ rects, R.has (c.at t).1 (c.at t).2
  | 0, c, h, t, h0, h1 => by
    simp only [bezierInside, List.any_eq_true] at h
    obtain ⟨R, hR, hb⟩ := h
    exact ⟨R, hR, boxIn_sound R c hb t h0 h1⟩
  | fuel + 1, c, h, t, h0, h1 => by
    simp only [bezierInside, Bool.or_eq_true, List.any_eq_true, Bool.and_eq_true] at h
    rcases h with ⟨R, hR, hb⟩ | ⟨hl, hr⟩
    · exact ⟨R, hR, boxIn_sound R c hb t h0 h1⟩
    · rcases Rat.le_total (a := t) (b := 1 / 2) with ht | ht
      · have := bezierInside_sound rects fuel c.left hl (2 * t) (by grind) (by grind)
        rw [left_at] at this
        have e : 2 * t / 2 = t := by grind
        rw [e] at this; exact this
      · have := bezierInside_sound rects fuel c.right hr (2 * t - 1) (by grind) (by grind)
        rw [right_at] at this
        have e : 1 / 2 + (2 * t - 1) / 2 = t := by grind
        rw [e] at this; exact this

/-- the rectangles grown by the fitter's tolerance -/
def inflate (tol : Rat) (rects : Corridor) : Corridor :=
  rects.map fun R => ⟨R.l - tol, R.r + tol, R.top - tol, R.bot + tol⟩

end Autog
