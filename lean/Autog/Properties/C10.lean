import Autog.Lemmas.WeakDuality
import Autog.Lemmas.Contiguous
import Autog.Spec.Layering
/-! # C10 — network-simplex layering minimises total edge length; bands are contiguous

    PARTIAL. What is proved, for all graphs and layerings:
    * weak duality and the soundness of the certificate checker (`C10_certificate_checker_sound`): a layering that `certOK` accepts
      — feasible, with a non-negative flow that conserves the edge weights at every node and whose dual objective equals the
      layering's total weighted length — is optimal among ALL feasible layerings;
    * contiguity as a CONSEQUENCE of optimality (`C10_bands_contiguous`, `C10_certified_layering_contiguous`): in an optimal
      layering of a connected graph with positive weights and unit minimum lengths every level strictly between two used levels
      holds a node.
    Not proved: that the simplex of the model always ends with such a certificate. That is the contract `K:ns-certificate`
    (the cut values of the final spanning tree of the REAL code, read from the trace, are the flow), evaluated on every traced
    component whose pivot loop did not stop on its budget; `K:ns-contiguity-hyp` evaluates the two structural hypotheses of the
    contiguity theorem (`unitB`, `connB`) on the same state. -/

namespace Autog
open WeakDuality Contiguous

theorem C10_weak_duality : type_of% @WeakDuality.weak_duality := @WeakDuality.weak_duality

theorem C10_optimal_of_certificate : type_of% @WeakDuality.optimal_of_certificate := @WeakDuality.optimal_of_certificate

/-- the checker the driver runs on the traced cut values is sound -/
theorem C10_certificate_checker_sound : type_of% @certOK_sound := @certOK_sound

/-- no edge of an optimal layering runs across an empty level -/
theorem C10_no_edge_across_empty_level : type_of% @no_edge_across_empty_level := @no_edge_across_empty_level

/-- bands are contiguous in every optimal layering of a connected graph with positive weights and unit minimum lengths -/
theorem C10_bands_contiguous : type_of% @bands_contiguous := @bands_contiguous

/-- the two halves of C10 from what the driver evaluates: a layering whose certificate the checker accepts, on a connected
    graph (`connB`) with positive weights and unit minimum lengths (`unitB`), is optimal AND has no empty band between two used ones -/
theorem C10_certified_layering_contiguous (es : List E) (y : Nat → Int) (n : Nat)
    (hc : certOK es y n = true) (hu : unitB es = true) (hconn : connB es n = true) :
    (∀ y' : Nat → Int, (∀ e ∈ es, e.d ≤ y' e.dst - y' e.src) → cost y es ≤ cost y' es) ∧
    ∀ a b, a < n → b < n → ∀ k : Int, y a < k → k < y b → ∃ e ∈ es, y e.src = k ∨ y e.dst = k := by
  obtain ⟨hfeas, hopt⟩ := certOK_sound es y n hc
  obtain ⟨hw, hd⟩ := unitB_sound es hu
  refine ⟨hopt, fun a b ha hb k h1 h2 => ?_⟩
  exact bands_contiguous es y hfeas hopt hw hd a b (connB_sound es n hconn a b ha hb) k h1 h2

/-- non-vacuity: a diamond with a long edge (0→1→3, 0→2→3, 0→3), layered 0,1,1,2, with the flow of its tight spanning tree -/
def exDiamond : List E :=
  [{ src := 0, dst := 1, w := 1, d := 1, x := 3 }, { src := 1, dst := 3, w := 1, d := 1, x := 3 },
   { src := 0, dst := 2, w := 1, d := 1, x := 0 }, { src := 2, dst := 3, w := 1, d := 1, x := 0 },
   { src := 0, dst := 3, w := 1, d := 1, x := 0 }]
def exY : Nat → Int := fun v => [0, 1, 1, 2].getD v 0

example : certOK exDiamond exY 4 = true ∧ unitB exDiamond = true ∧ connB exDiamond 4 = true := by decide

end Autog
