import Autog.Lemmas.WeakDuality
/-! # C10
    Network simplex optimality. Weak duality and the certificate checker's soundness. -/

namespace Autog

theorem C10_weak_duality : type_of% @WeakDuality.weak_duality := @WeakDuality.weak_duality

theorem C10_optimal_of_certificate : type_of% @WeakDuality.optimal_of_certificate := @WeakDuality.optimal_of_certificate

end Autog
