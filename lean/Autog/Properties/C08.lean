import Autog.Lemmas.PopulateRename
/-! # C08
    Opaque identifiers. Populate commutes with every injective renaming. -/

namespace Autog

theorem C08_populate_rename : type_of% @PopulateRename.populate_rename := @PopulateRename.populate_rename

end Autog
