import Autog.Model.Pipeline
import Autog.Lemmas.PopulateRename
import Autog.Lemmas.Rename
/-! # C08 — node identifiers are opaque labels

    * `C08_populate_rename`: on the model of `EdgeSlice.Populate`, renaming the ids by ANY injective map (including onto "V1",
      "NE0", "", long or non-ASCII strings) changes nothing but the id stored in each node (`renameG`): same node numbers, same
      edges, same In/Out lists.
    * After `Populate` no model function reads a node id except `collectComp`, which copies it out (`C08_collect_ids`): the types
      of `phase1 … phase5`, `components`, `ignoreSelfLoops` take the graph state whose ids they never inspect — and on the Go
      side the regenerated fact list `idReads` (every read of `Node.ID`, by function) and `stringKeyedMaps` pin that the real code
      reads ids only in Populate's map, the size lookup, the result copy, `String()/SVG()` and monitor log strings
      (`FactsCheck.Ids`).
    * sizes: `sizeOf` looks the id up in the caller's list; renaming the list's keys along with the ids gives the same sizes
      (`C08_sizes_rename`).
    * END TO END (`C08_layoutModel_rename`): on the composed model `layoutModelP` — the function `T:pipeline` compares with the public
      result of the real `Layout` on every traced run; it blanks the ids of a component before the pipeline and puts them back by
      node number afterwards, which is how the code behaves — for EVERY injective ρ, every edge list, every configuration and every
      ordering function: the run on the renamed input (size list re-keyed) goes through the same pre-processing up to the names
      (`preProcess_rename`: interning, sizes, component DFS, sub-graph extraction, self-loop stripping all commute with ρ), the same
      per-component computation, and returns the same final states with the real nodes renamed by ρ; nothing else differs
      (`C08_rename_changes_ids_only`: coordinates, sizes, helper flags, layers, edges, routes, layer lists).
    Search: `Layout(G)` vs `Layout(ρ G)` for adversarial ρ on every algorithm combination. -/

namespace Autog

theorem C08_populate_rename (ρ : String → String) (hρ : ∀ a b, ρ a = ρ b → a = b) (es : InEdges) :
    populate (es.map fun e => (ρ e.1, ρ e.2)) = renameG ρ (populate es) := by
  unfold populate renameG
  rw [PopulateRename.populate_rename ρ hρ es]
  simp only [G.mk.injEq, and_true, true_and]
  simp [List.zipIdx_map, List.map_map, Function.comp]

theorem C08_populate_rename_lib : type_of% @PopulateRename.populate_rename := @PopulateRename.populate_rename

/-- the only place where ids leave the model again: copied verbatim into the result -/
theorem C08_collect_ids (cfg : Cfg) (shift : Rat) (ci : Nat) (g : G) (ρ : String → String) :
    (collectComp cfg shift ci (renameG ρ g)).nodes.map (·.id) = (collectComp cfg shift ci g).nodes.map (fun n => ρ n.id) := by
  simp only [collectComp, renameG, Array.toList_map, List.filter_map, List.map_map]
  rfl

/-- renaming the keys of the size list together with the ids gives the same size -/
theorem C08_sizes_rename (ρ : String → String) (hρ : ∀ a b, ρ a = ρ b → a = b) (m : List (String × Rat × Rat)) (id : String) :
    (m.map fun (k, v) => (ρ k, v)).lookup (ρ id) = m.lookup id := by
  induction m with
  | nil => rfl
  | cons kv m ih =>
    obtain ⟨k, v⟩ := kv
    simp only [List.map_cons, List.lookup_cons]
    by_cases h : id = k
    · subst h; simp
    · have h1 : (ρ id == ρ k) = false := by
        rw [beq_eq_false_iff_ne]; exact fun e => h (hρ _ _ e)
      have h2 : (id == k) = false := by rw [beq_eq_false_iff_ne]; exact h
      simp only [h1, h2]; exact ih

/-- END TO END: renaming commutes with the whole composed model -/
theorem C08_layoutModel_rename (ρ : String → String) (hρ : ∀ a b, ρ a = ρ b → a = b) (ord : G → M G) (cfg : Cfg) (es : InEdges) :
    layoutModelP ord (renameCfg ρ cfg) (es.map fun e => (ρ e.1, ρ e.2)) =
      (do
        let comps ← preProcess cfg es
        let finals ← comps.mapM fun c => (layoutComponentP ord cfg c).map (renameFirst ρ c.1.nodes.size)
        pure (collect cfg 0 0 finals)) :=
  layoutModelP_rename ρ hρ ord cfg es (C08_populate_rename ρ hρ es)

theorem C08_preProcess_rename : type_of% @preProcess_rename := @preProcess_rename
theorem C08_rename_changes_ids_only : type_of% @renameFirst_geom := @renameFirst_geom

example : (populate [("V1", "NE0"), ("NE0", "")] == renameG (fun s => if s = "a" then "V1" else if s = "b" then "NE0" else "")
    (populate [("a", "b"), ("b", "c")])) = true := by decide +kernel

end Autog
