import Autog.Model.NetworkSimplex
import Autog.Model.SinkColoring
import Autog.Lemmas.FoldPermAndRank
import Autog.Lemmas.GraphOps
/-! # C07 — Layout is a deterministic, side-effect-free function of its arguments

    Go randomises the iteration order of every `range` over a map. After the repairs four such loops are left in the library
    (regenerated on every run with a hash of their bodies, `FactsCheck.Maps`): `hashmap.Keys` (only used by `Clone`-style helpers),
    `feasibleTree: for n := range treeNodes { n.Layer += d }`, `execSinkColoring: for n, x := range xcoord { blockmax[…] = max(…) }`
    and Brandes–Köpf's min/max over a coordinate map. For the two that belong to modelled phases the MODEL runs the loop over a
    list, and the theorems below show that the result is the same for EVERY permutation of that list:
    * `C07_shift_order_irrelevant` — the tree shift of the network simplex model (`shiftStep`, Autog/Model/NetworkSimplex.lean);
    * `C07_blockmax_order_irrelevant` — the block maxima of the SinkColoring model (`bmStep`, Autog/Model/SinkColoring.lean);
    the B&K loop is a min/max fold (`minmax_order_irrelevant`, lemma library).
    Every model function is a Lean function of (configuration, input): the same arguments give the same result by construction.
    PARTIAL: for the unmodelled phases (WMedian body, B&K, Splines) determinism rests on the regenerated fact lists (no map range,
    no `rand`/`time` outside the explicit greedy option, no goroutine, channel, global write) — the trusted meta-argument — and on
    the repeated-call / fresh-process comparison of the search. -/

namespace Autog
open FoldPermAndRank

theorem modNode_comm (g : G) (a b : Nat) (f h : Node → Node) (hab : a ≠ b) :
    (g.modNode a f).modNode b h = (g.modNode b h).modNode a f := by
  simp only [G.modNode, G.mk.injEq, and_true, true_and]
  apply Array.ext_getElem?
  intro k
  simp only [Array.getElem?_modify]
  by_cases h1 : b = k <;> by_cases h2 : a = k <;> simp_all

theorem shiftStep_comm (d : Int) (g : G) (a b : Nat) :
    shiftStep d (shiftStep d g a) b = shiftStep d (shiftStep d g b) a := by
  by_cases hab : a = b
  · subst hab; rfl
  · unfold shiftStep setLayer G.layerOf
    rw [G.node_modNode_ne g a b _ hab, G.node_modNode_ne g b a _ (Ne.symm hab)]
    exact modNode_comm g a b _ _ hab

/-- C07: the tree shift of the simplex does not depend on the order in which the tree nodes are visited -/
theorem C07_shift_order_irrelevant (d : Int) (g : G) {l₁ l₂ : List Nat} (h : l₁.Perm l₂) :
    l₁.foldl (shiftStep d) g = l₂.foldl (shiftStep d) g :=
  foldl_perm (shiftStep d) (fun b x y => shiftStep_comm d b x y) h g

theorem maxRat_right_comm (b x y : Rat) : maxRat (maxRat b x) y = maxRat (maxRat b y) x := by
  unfold maxRat
  by_cases h1 : b ≤ x <;> by_cases h2 : b ≤ y <;> by_cases h3 : x ≤ y <;> by_cases h4 : y ≤ x <;>
    simp [h1, h2, h3, h4] <;> grind

theorem bmStep_comm (roots : Array Nat) (xc bm : Array Rat) (a b : Nat) :
    bmStep roots xc (bmStep roots xc bm a) b = bmStep roots xc (bmStep roots xc bm b) a := by
  unfold bmStep
  apply Array.ext_getElem?
  intro k
  simp only [Array.getElem?_setIfInBounds, Array.getD_eq_getD_getElem?, Array.size_setIfInBounds]
  by_cases hr : roots[a]?.getD a = roots[b]?.getD b
  · rw [hr]
    by_cases hk : roots[b]?.getD b = k
    · subst hk
      by_cases hb : roots[b]?.getD b < bm.size
      · simp [hb, maxRat_right_comm]
      · simp [hb]
    · simp [hk]
  · have hr' : ¬ roots[b]?.getD b = roots[a]?.getD a := fun e => hr e.symm
    by_cases h1 : roots[b]?.getD b = k <;> by_cases h2 : roots[a]?.getD a = k <;> simp_all

/-- C07: the block maxima of SinkColoring do not depend on the order in which the map `xcoord` is iterated -/
theorem C07_blockmax_order_irrelevant (roots : Array Nat) (xc bm : Array Rat) {l₁ l₂ : List Nat} (h : l₁.Perm l₂) :
    l₁.foldl (bmStep roots xc) bm = l₂.foldl (bmStep roots xc) bm :=
  foldl_perm (bmStep roots xc) (fun b x y => bmStep_comm roots xc b x y) h bm

/-- … so the model's initial state is the same whatever order Go picks for the keys -/
theorem C07_scInit_any_order (ns : Rat) (g : G) (bw : Array Rat) (roots : Array Nat) (keys : List Nat) (h : keys.Perm (scKeys g)) :
    (scInit ns g bw roots).blockmax = keys.foldl (bmStep roots (scInitX ns g bw roots)) (Array.replicate g.nodes.size 0) := by
  unfold scInit
  exact (C07_blockmax_order_irrelevant roots _ _ h).symm

theorem C07_minmax_order_irrelevant : type_of% @minmax_order_irrelevant := @minmax_order_irrelevant

example : [2, 0, 1].foldl (shiftStep 3) { nodes := #[{ id := "a" }, { id := "b", layer := 1 }, { id := "c" }] } =
    [0, 1, 2].foldl (shiftStep 3) { nodes := #[{ id := "a" }, { id := "b", layer := 1 }, { id := "c" }] } :=
  C07_shift_order_irrelevant 3 _ (by decide)

end Autog
