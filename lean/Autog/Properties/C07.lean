import Autog.Lemmas.FoldPermAndRank
/-! # C07
    Determinism. First pass: the three commutative map-range bodies are order independent. -/

namespace Autog

theorem C07_shift_order_irrelevant : type_of% @FoldPermAndRank.shift_order_irrelevant := @FoldPermAndRank.shift_order_irrelevant

theorem C07_blockmax_order_irrelevant : type_of% @FoldPermAndRank.blockmax_order_irrelevant := @FoldPermAndRank.blockmax_order_irrelevant

theorem C07_minmax_order_irrelevant : type_of% @FoldPermAndRank.minmax_order_irrelevant := @FoldPermAndRank.minmax_order_irrelevant

end Autog
