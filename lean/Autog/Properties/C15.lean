import Autog.Lemmas.MonitorMachine
/-! # C15
    No shared write without a monitor. -/

namespace Autog

theorem C15_no_shared_write : type_of% @MonitorMachine.C15_no_shared_write := @MonitorMachine.C15_no_shared_write

end Autog
