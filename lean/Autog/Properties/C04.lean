import Autog.Properties.C16
import Autog.Lemmas.SinkSweep
import Autog.Model.Layout
import Autog.Lemmas.BlockWide
/-! # C04 — nodes never overlap and keep the configured spacing

    Within a band (layer list, helper nodes included) consecutive nodes are separated: `x + w + NodeSpacing ≤ x'`.
    * VAlign, PackRight: from the exact spacing of C16, for all inputs.
    * SinkColoring: `placeBlock` only returns after a sweep that tested every adjacent pair of every layer and shifted
      nothing; the theorem is about the model `execSinkColoring` (key `T:phase4-sinkcoloring`). It assumes that a block
      is at least as wide as each of its nodes (`BlockWide`, a decidable contract on the block structure `scBlocks`
      returns; evaluated by the driver on every traced run as `K:sc-blockwidth`). `C04_blockwide` PROVES that contract for every
      properly layered state (`LayeredWF`, a structural contract on what phases 2–3 hand over, evaluated as `K:layered`): `setColor`
      rewrites `roots` only at its own node and strictly above, the loops run bottom-up, block widths only grow — hence
      `C04_sinkcoloring_separated_layered` needs no assumption about the blocks. Termination of the fixpoint iteration is not proved (C01).
    * NetworkSimplex positioner: no theorem here; see DESIGN.md (predicate on real outputs only).
    Bands of one component do not overlap vertically by C03. Components: `C04_shift_clears_component`. -/

namespace Autog
open Phase4Simple

theorem C04_valign_separated (ns : Rat) (g : G) (hwf : LayersWF g) (l : Layer) (hl : l ∈ g.layers.toList) :
    Separated ns (xsOf (execVerticalAlign ns g) l) (widthsOf (execVerticalAlign ns g) l) :=
  Spaced.separated ns _ _ (C16_valign_spacing ns g hwf l hl)

theorem C04_packright_separated (ns : Rat) (g : G) (hwf : LayersWF g) (l : Layer) (hl : l ∈ g.layers.toList) :
    Separated ns (xsOf (execPackRight ns g) l) (widthsOf (execPackRight ns g) l) :=
  Spaced.separated ns _ _ (C16_packright_spacing ns g hwf l hl)

/-! ## SinkColoring -/

theorem adjPairs_sub : ∀ (l : List Nat) (p : Nat × Nat), p ∈ adjPairs l → p.1 ∈ l ∧ p.2 ∈ l
  | [], p, h => by simp [adjPairs] at h
  | [_], p, h => by simp [adjPairs] at h
  | a :: b :: l, p, h => by
    simp only [adjPairs, List.mem_cons] at h
    rcases h with rfl | h
    · simp
    · obtain ⟨h1, h2⟩ := adjPairs_sub (b :: l) p h
      exact ⟨List.mem_cons_of_mem _ h1, List.mem_cons_of_mem _ h2⟩

theorem foldl_max_ge_init (f : Layer → Nat) : ∀ (ls : List Layer) (m : Nat), m ≤ ls.foldl (fun m l => max m (f l)) m
  | [], m => Nat.le_refl _
  | l :: ls, m => Nat.le_trans (Nat.le_max_left _ _) (foldl_max_ge_init f ls _)

theorem le_foldl_max (f : Layer → Nat) : ∀ (ls : List Layer) (m : Nat) (l : Layer), l ∈ ls → f l ≤ ls.foldl (fun m l => max m (f l)) m
  | l' :: ls, m, l, h => by
    rcases List.mem_cons.1 h with rfl | h
    · exact Nat.le_trans (Nat.le_max_right _ _) (foldl_max_ge_init f ls _)
    · exact le_foldl_max f ls _ l h

theorem len_le_scLmax (g : G) (l : Layer) (hl : l ∈ g.layers.toList) : l.nodes.length ≤ scLmax g :=
  le_foldl_max (fun l => l.nodes.length) _ 0 l hl

theorem scWrite_x (g : G) (hwf : LayersWF g) (xc : Array Rat) (l : Layer) (hl : l ∈ g.layers.toList) (n : Nat) (hn : n ∈ l.nodes) :
    ((scWrite g xc).node n).x = xc.getD n 0 ∧ ((scWrite g xc).node n).w = (g.node n).w := by
  have hplan : PlWF g (scPlan g xc) := plwf_of_layers g g rfl hwf (fun l => l.nodes.map fun k => xc.getD k 0) (fun l _ => by simp)
  have h1 := placeAll_xs (scPlan g xc) g hplan (l.nodes, l.nodes.map fun k => xc.getD k 0) (List.mem_map.2 ⟨l, hl, rfl⟩)
  exact ⟨List.map_inj_left.1 h1 n hn, w_of_dropX (placeAll_dropX (scPlan g xc) g n)⟩

theorem C04_sinkcoloring_separated (ns : Rat) (g : G) (hwf : LayersWF g) (bw : Array Rat) (roots : Array Nat)
    (hb : scBlocks g = .ok (bw, roots)) (hwide : BlockWide g bw roots)
    (g' : G) (d : Nat) (h : execSinkColoring ns g = .ok (g', d)) :
    ∀ l ∈ g.layers.toList, ∀ p ∈ adjPairs l.nodes,
      (g'.node p.1).x + (g'.node p.1).w + ns ≤ (g'.node p.2).x := by
  intro l hl p hp
  unfold execSinkColoring at h
  simp only [hb, bind, Except.bind] at h
  cases hpb : placeBlock g (scLmax g) ns bw roots (placeBlockFuel g) (scInit ns g bw roots) with
  | error e => rw [hpb] at h; cases h
  | ok r =>
    rw [hpb] at h
    obtain ⟨ps, depth⟩ := r
    simp only [pure, Except.pure, Except.ok.injEq, Prod.mk.injEq] at h
    obtain ⟨rfl, _⟩ := h
    obtain ⟨s0, hround⟩ := placeBlock_final g (scLmax g) ns bw roots _ _ _ _ hpb
    unfold placeBlockRound at hround
    have hq := pbSweep_quiet ns (fun n => bw.getD (roots.getD n n) 0) (fun n => roots.getD n n) _ _ (by rw [hround])
    rw [hround] at hq
    obtain ⟨hstate, hsep⟩ := hq
    have hcov := sweepPairsGo_covers (g.layers.toList.map (·.nodes)) (scLmax g)
      (by intro l' hl'; obtain ⟨l0, hl0, rfl⟩ := List.mem_map.1 hl'; exact len_le_scLmax g l0 hl0)
      l.nodes (List.mem_map.2 ⟨l, hl, rfl⟩) p hp
    have := hsep p hcov
    rw [← hstate] at this
    obtain ⟨hp1, hp2⟩ := adjPairs_sub l.nodes p hp
    obtain ⟨hx1, hw1⟩ := scWrite_x g hwf ps.xcoord l hl p.1 hp1
    obtain ⟨hx2, _⟩ := scWrite_x g hwf ps.xcoord l hl p.2 hp2
    rw [hx1, hx2, hw1]
    have hw := hwide p.1 (List.mem_flatMap.2 ⟨l, hl, hp1⟩)
    grind

/-- C04 (SinkColoring, the default positioner), without the block-width contract: on every properly layered state (`LayeredWF`: in-edges
    end at their node and never point upwards, the layer lists are visited bottom-up — what phases 2–3 hand over; evaluated on every
    traced run as `K:layered`) consecutive nodes of every band are separated by at least NodeSpacing when the positioner returns -/
theorem C04_sinkcoloring_separated_layered (ns : Rat) (g : G) (hwf : LayersWF g) (hL : LayeredWF g)
    (g' : G) (d : Nat) (h : execSinkColoring ns g = .ok (g', d)) :
    ∀ l ∈ g.layers.toList, ∀ p ∈ adjPairs l.nodes,
      (g'.node p.1).x + (g'.node p.1).w + ns ≤ (g'.node p.2).x := by
  cases hb : scBlocks g with
  | error e => unfold execSinkColoring at h; simp [hb, bind, Except.bind] at h
  | ok r =>
    obtain ⟨bw, roots⟩ := r
    exact C04_sinkcoloring_separated ns g hwf bw roots hb (scBlocks_blockWide g hL bw roots hb) g' d h

theorem C04_blockwide : type_of% @scBlocks_blockWide := @scBlocks_blockWide
theorem C04_layered_contract_sound : type_of% @layeredWFb_sound := @layeredWFb_sound

/-! ## components side by side -/

theorem rightmostX_ge (g : G) (l : Layer) (hl : l ∈ g.layers.toList) (n : Nat) (hn : l.nodes.getLast? = some n) :
    (g.node n).x + (g.node n).w ≤ rightmostX g := by
  unfold rightmostX
  have : ∀ (ls : List Layer) (m : Rat), l ∈ ls →
      (g.node n).x + (g.node n).w ≤ ls.foldl (fun m l => match l.nodes.getLast? with
        | none => m | some n => maxRat m ((g.node n).x + (g.node n).w)) m := by
    intro ls
    induction ls with
    | nil => intro m h; cases h
    | cons a ls ih =>
      intro m h
      simp only [List.foldl_cons]
      rcases List.mem_cons.1 h with rfl | h
      · rw [hn]
        have mono : ∀ (ls : List Layer) (m : Rat), m ≤ ls.foldl (fun m l => match l.nodes.getLast? with
            | none => m | some n => maxRat m ((g.node n).x + (g.node n).w)) m := by
          intro ls
          induction ls with
          | nil => intro m; exact Rat.le_refl
          | cons b ls ih2 =>
            intro m
            simp only [List.foldl_cons]
            refine Rat.le_trans ?_ (ih2 _)
            split
            · exact Rat.le_refl
            · exact le_maxRat_left _ _
        exact Rat.le_trans (le_maxRat_right _ _) (mono ls _)
      · exact ih _ h
  exact this _ 0 hl

/-- the next component starts `NodeSpacing` right of the right end of the last node of every layer of this one:
    `collect` shifts it by `shift + rightmostX g + ns`, and (C04 within the component) its own coordinates are ≥ 0 -/
theorem C04_shift_clears_component (cfg : Cfg) (shift : Rat) (ci : Nat) (g : G) (gs : List G)
    (l : Layer) (hl : l ∈ g.layers.toList) (n : Nat) (hn : l.nodes.getLast? = some n) :
    (g.node n).x + shift + (g.node n).w + cfg.ns ≤ shift + (rightmostX g + cfg.ns) := by
  have := rightmostX_ge g l hl n hn
  grind

end Autog

namespace Autog

/-- executable form of `BlockWide` (driver contract `K:sc-blockwidth`) -/
def blockWideb (g : G) (bw : Array Rat) (roots : Array Nat) : Bool :=
  (g.layers.toList.flatMap (·.nodes)).all fun n => decide ((g.node n).w ≤ bw.getD (roots.getD n n) 0)

theorem blockWideb_sound (g : G) (bw : Array Rat) (roots : Array Nat) (h : blockWideb g bw roots = true) :
    BlockWide g bw roots := by
  unfold blockWideb at h
  simp only [List.all_eq_true, decide_eq_true_eq] at h
  exact h

end Autog

namespace Autog

/-- END TO END on the composed model, nothing assumed: with VAlign or PackRight consecutive nodes of every band the positioner
    receives from phase 3 are separated by at least NodeSpacing (the layer lists are well formed by `layersWF_upto_phase3`) -/
theorem C04_valign_separated_on_pipeline (cfg : Cfg) (g1 g2 g3 : G) (h2 : phase2Model cfg g1 = .ok g2)
    (h3 : phase3Model (fun g => (orderWMedianP 24 g).map (·.1)) g2 = .ok g3) (l : Layer) (hl : l ∈ g3.layers.toList) :
    Phase4Simple.Separated cfg.ns (xsOf (execVerticalAlign cfg.ns g3) l) (widthsOf (execVerticalAlign cfg.ns g3) l) :=
  C04_valign_separated cfg.ns g3 (layersWF_upto_phase3 cfg g1 g2 g3 h2 h3) l hl

theorem C04_packright_separated_on_pipeline (cfg : Cfg) (g1 g2 g3 : G) (h2 : phase2Model cfg g1 = .ok g2)
    (h3 : phase3Model (fun g => (orderWMedianP 24 g).map (·.1)) g2 = .ok g3) (l : Layer) (hl : l ∈ g3.layers.toList) :
    Phase4Simple.Separated cfg.ns (xsOf (execPackRight cfg.ns g3) l) (widthsOf (execPackRight cfg.ns g3) l) :=
  C04_packright_separated cfg.ns g3 (layersWF_upto_phase3 cfg g1 g2 g3 h2 h3) l hl

/-- … and with SinkColoring under the one structural contract `LayeredWF` on that state -/
theorem C04_sinkcoloring_separated_on_pipeline (cfg : Cfg) (g1 g2 g3 : G) (h2 : phase2Model cfg g1 = .ok g2)
    (h3 : phase3Model (fun g => (orderWMedianP 24 g).map (·.1)) g2 = .ok g3) (hL : LayeredWF g3)
    (g' : G) (d : Nat) (h : execSinkColoring cfg.ns g3 = .ok (g', d)) :
    ∀ l ∈ g3.layers.toList, ∀ p ∈ adjPairs l.nodes, (g'.node p.1).x + (g'.node p.1).w + cfg.ns ≤ (g'.node p.2).x :=
  C04_sinkcoloring_separated_layered cfg.ns g3 (layersWF_upto_phase3 cfg g1 g2 g3 h2 h3) hL g' d h

end Autog
