import Autog.Lemmas.Phase4Simple
import Autog.Lemmas.SinkColoringSweep
/-! # C04
    No overlap. First pass: exact spacing of left-to-right placement; a quiet sink-coloring sweep certifies separation. -/

namespace Autog

theorem C04_placeFrom_spaced : type_of% @Phase4Simple.placeFrom_spaced := @Phase4Simple.placeFrom_spaced

theorem C04_sweep_quiet : type_of% @SinkColoringSweep.sweep_quiet := @SinkColoringSweep.sweep_quiet

theorem C04_sweep_covers : type_of% @SinkColoringSweep.sweep_covers := @SinkColoringSweep.sweep_covers

end Autog
