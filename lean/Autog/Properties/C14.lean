import Autog.Lemmas.DfsBreakerMinimal
import Autog.Lemmas.DfsHasCyclesSound
/-! # C14
    DFS breaker minimality; acyclic inputs keep their edges. -/

namespace Autog

theorem C14_dfs_minimal : type_of% @DfsBreakerMinimal.minimal := @DfsBreakerMinimal.minimal

theorem C14_hasCycles_sound : type_of% @DfsHasCyclesSound.run_cyc := @DfsHasCyclesSound.run_cyc

end Autog
