import Autog.Model.Phase1
import Autog.Lemmas.DfsBreakerTotal
import Autog.Lemmas.Adj
import Autog.Lemmas.AdjSub
/-! # C14 — depth-first cycle breaking reverses an irredundant edge set; acyclic inputs keep every edge

    Theorems about the model `dfsMarked` / `execDepthFirst` and `hasCycles` (Autog/Model/Phase1.lean; key `T:phase1`).
    * `C14_dfs_minimal`: for every graph state whose out-lists name each edge once (`Uniq`), every edge the model marks comes
      with a walk from its target back to its source along examined, NEVER-marked edges — so un-reversing that edge alone
      closes a directed cycle among the edges as drawn (the unmarked edges keep their direction, the marked ones are reversed
      only afterwards). Proved through the whole loop over the roots (sources first, then every node), for any fuel.
    * `C14_cycle_answer_sound`: when the cycle test answers "cycle" there is a closed walk — so on an acyclic state
      `phase1` returns at the first test and nothing is reversed (`C14_acyclic_untouched`: the model with `hasCycles = false`
      after the two-cycle pre-pass returns that state; the pre-pass itself reverses only an edge running opposite to an
      earlier one, which is a 2-cycle).
    PARTIAL: pre-pass reversals in cyclic inputs are covered by the per-run predicate (flip each flagged edge, test for a cycle). -/

namespace Autog
open DfsBreakerMinimal

theorem MInv.init (out : Nat → List OutE) (src : Nat → Nat) : MInv out src ⟨[], [], [], [], []⟩ :=
  { chain := trivial
    wok := fun _ h => (by cases h)
    wcov := fun _ h => (by cases h)
    vok := fun _ h => (by cases h)
    rsub := fun _ h => (by cases h)
    sfx := fun _ h => (by cases h)
    fresh := fun _ h => (by cases h)
    unv := fun _ h => (by cases h)
    svis := fun _ h => (by cases h)
    nd := List.nodup_nil }

/-- starting a new root in a finished configuration keeps the invariant -/
theorem MInv.newRoot {out : Nat → List OutE} {src : Nat → Nat} (hU : Uniq out src) {c : DfsBreakerMinimal.Cfg} (hI : MInv out src c)
    (hs : c.stack = []) (r : Nat) (hr : r ∉ c.visited) :
    MInv out src { c with stack := [(r, out r, none)], visited := r :: c.visited } := by
  refine ⟨trivial, hI.wok, hI.wcov, (fun _ h => (by simp [vias] at h)), hI.rsub, ?_, ?_, ?_, ?_, (by simp [act])⟩
  · intro f hf
    have : f = (r, out r, none) := by simpa using hf
    subst this; exact ⟨[], rfl⟩
  · intro f hf em hem hex
    have : f = (r, out r, none) := by simpa using hf
    subst this
    have h1 := hI.unv em.1 hex
    rw [hU.own r em hem] at h1
    exact hr h1
  · intro id hid
    exact List.mem_cons_of_mem _ (hI.unv id hid)
  · intro f hf
    have : f = (r, out r, none) := by simpa using hf
    subst this; exact List.mem_cons_self ..

theorem dfsLoop_inv (g : G) (src : Nat → Nat) (hU : Uniq (outE g) src) :
    ∀ (rs : List Nat) (c c' : DfsBreakerMinimal.Cfg), MInv (outE g) src c → c.stack = [] → dfsLoop g rs c = .ok c' →
      MInv (outE g) src c' ∧ c'.stack = []
  | [], c, c', hI, hs, h => by
    simp only [dfsLoop, pure, Except.pure, Except.ok.injEq] at h
    subst h; exact ⟨hI, hs⟩
  | r :: rs, c, c', hI, hs, h => by
    unfold dfsLoop at h
    by_cases hv : c.visited.contains r
    · simp only [hv, if_true] at h
      exact dfsLoop_inv g src hU rs c c' hI hs h
    · simp only [hv] at h
      have hr : r ∉ c.visited := by simpa using hv
      cases hrun : run (outE g) (dfsFuel g) { c with stack := [(r, outE g r, none)], visited := r :: c.visited } with
      | none => rw [hrun] at h; cases h
      | some c1 =>
        rw [hrun] at h
        obtain ⟨hI1, hs1⟩ := run_inv hU (dfsFuel g) _ c1 (MInv.newRoot hU hI hs r hr) hrun
        exact dfsLoop_inv g src hU rs c1 c' hI1 hs1 h

/-- C14 (first half): every edge the depth-first breaker marks closes a cycle with edges that are never marked -/
theorem C14_dfs_minimal (g : G) (src : Nat → Nat) (hU : Uniq (outE g) src) (marked : List Nat)
    (h : dfsMarked g = .ok marked) :
    ∀ id ∈ marked, ∃ u v path, (id, v) ∈ outE g u ∧ IsWalkE (outE g) v path u ∧ ∀ x ∈ pathIds path, x ∉ marked := by
  unfold dfsMarked at h
  simp only [bind, Except.bind] at h
  cases hl : dfsLoop g (dfsRoots g) ⟨[], [], [], [], []⟩ with
  | error e => rw [hl] at h; cases h
  | ok c =>
    rw [hl] at h
    simp only [pure, Except.pure, Except.ok.injEq] at h
    subst h
    obtain ⟨hI, _⟩ := dfsLoop_inv g src hU _ _ c (MInv.init _ _) rfl hl
    intro id hid
    have hid' : id ∈ c.rev := List.mem_reverse.1 hid
    obtain ⟨w, hw, rfl⟩ := hI.wcov id hid'
    obtain ⟨_, h2, h3, h4⟩ := hI.wok w hw
    exact ⟨w.2.1, w.2.2.1, w.2.2.2, h2, h3, fun x hx hm => (h4 x hx).2 (List.mem_reverse.1 hm)⟩

/-- the breaker always returns its marked set (never out of fuel), cyclic input or not -/
theorem C14_dfs_total : type_of% @dfsMarked_total := @dfsMarked_total

/-- together: on every well-formed state with unique edge ids there IS a marked set and it is irredundant -/
theorem C14_dfs_minimal_exists (g : G) (hwf : EdgesWF g) (src : Nat → Nat) (hU : Uniq (outE g) src) :
    ∃ marked, dfsMarked g = .ok marked ∧
      ∀ id ∈ marked, ∃ u v path, (id, v) ∈ outE g u ∧ IsWalkE (outE g) v path u ∧ ∀ x ∈ pathIds path, x ∉ marked := by
  obtain ⟨marked, h⟩ := dfsMarked_total g hwf
  exact ⟨marked, h, C14_dfs_minimal g src hU marked h⟩

/-- C14 on the pipeline: the hypotheses above are consequences of adjacency consistency (`AdjL`: In/Out lists and edge store agree),
    which holds for the graph `Populate` builds from ANY edge list (`adjL_populate`) and is kept by self-loop stripping and by the
    two-cycle pre-pass (`adjL_ignoreSelfLoops`, `adjL_removeTwoNodeCycles`). So for every adjacency-consistent component — every
    component of a connected input by these theorems, the sub-graphs cut out for several components by the contract `K:adj` — the
    depth-first breaker, run after the pre-pass as `phase1` does, returns a marked set, and every marked edge closes a cycle with
    never-marked edges -/
theorem C14_dfs_minimal_on_pipeline (g : G) (h : AdjL g) :
    ∃ marked, dfsMarked (removeTwoNodeCycles g) = .ok marked ∧
      ∀ id ∈ marked, ∃ u v path, (id, v) ∈ outE (removeTwoNodeCycles g) u ∧
        IsWalkE (outE (removeTwoNodeCycles g)) v path u ∧ ∀ x ∈ pathIds path, x ∉ marked := by
  have h2 := adjL_removeTwoNodeCycles g h
  exact C14_dfs_minimal_exists _ h2.toAdj.edgesWF _ h2.toAdj.uniq

/-- **C14 on every component of every input**: for any edge list and any options, each component `preProcess` hands to phase 1
    is adjacency consistent (`adjL_preProcess`: the graph `Populate` builds, the closed node sets `walkDfs` returns, the
    renumbering of `subgraph`, self-loop stripping), so the depth-first breaker run after the two-cycle pre-pass returns a
    marked set and every marked edge closes a cycle with never-marked edges. No well-formedness hypothesis is left. -/
theorem C14_dfs_minimal_any_input (cfg : Autog.Cfg) (es : InEdges) (cs : List (G × List Nat)) (hp : preProcess cfg es = .ok cs)
    (c : G × List Nat) (hc : c ∈ cs) :
    ∃ marked, dfsMarked (removeTwoNodeCycles c.1) = .ok marked ∧
      ∀ id ∈ marked, ∃ u v path, (id, v) ∈ outE (removeTwoNodeCycles c.1) u ∧
        IsWalkE (outE (removeTwoNodeCycles c.1)) v path u ∧ ∀ x ∈ pathIds path, x ∉ marked :=
  C14_dfs_minimal_on_pipeline c.1 (adjL_preProcess cfg es cs hp c hc)

theorem C14_adj_every_component : type_of% @adjL_preProcess := @adjL_preProcess

theorem C14_adj_of_any_edge_list : type_of% @adjL_populate := @adjL_populate
theorem C14_adj_contract_sound : type_of% @adjLb_sound := @adjLb_sound

/-- C14 (second half): "cycle" is only answered when a closed walk exists -/
theorem C14_cycle_answer_sound : type_of% @DfsHasCyclesSound.run_cyc := @DfsHasCyclesSound.run_cyc

/-- … so a state the cycle test passes is returned untouched by phase 1 (after the two-cycle pre-pass) -/
theorem C14_acyclic_untouched (alg : Nat) (g : G) (hn : (g.nodes.size == 1) = false)
    (hc : hasCycles (removeTwoNodeCycles g) = .ok false) : phase1 alg g = .ok (removeTwoNodeCycles g) := by
  unfold phase1
  simp [hn, hc, bind, Except.bind, pure, Except.pure]

/-- a 3-cycle 0 → 1 → 2 → 0 plus a chord: the breaker marks the edge closing the cycle -/
def exC : G :=
  { nodes := #[{ id := "a", outs := [0], ins := [2] }, { id := "b", ins := [0], outs := [1] }, { id := "c", ins := [1], outs := [2] }],
    edges := #[{ src := 0, dst := 1 }, { src := 1, dst := 2 }, { src := 2, dst := 0 }], elist := [0, 1, 2] }
example : (dfsMarked exC).toOption = some [2] := by decide +kernel

end Autog
