import Autog.Spec.Geom
/-! # C20 — fitted splines stay inside their corridor

    PARTIAL. The fitter (`geom.FitSpline`, Schneider fitting with `Hypot`, `Cbrt`, `Atan2`, `Cos`) has no executable model:
    its floating-point results differ by ulps from any exact evaluation. The property is decided per returned spline by a
    VERIFIED CHECKER over exact rationals:
    * `bezierInside_sound`: a piece accepted by the recursive de Casteljau / control-box check lies in the union of the
      (tolerance-grown) rectangles for EVERY parameter in [0, 1] — from the hull bound `bez_ge`/`bez_le` and the two halving
      identities `bez_left`/`bez_right`;
    * ends and joins are decidable equalities.
    Termination of the fitter and the root finder are observed (watchdog, exactly validated ground truth), not proved. -/

namespace Autog

theorem C20_piece_checker_sound : type_of% @bezierInside_sound := @bezierInside_sound
theorem C20_hull_lower : type_of% @BezierHull.bez_ge := @BezierHull.bez_ge
theorem C20_hull_upper : type_of% @bez_le := @bez_le
theorem C20_halving_left : type_of% @left_at := @left_at
theorem C20_halving_right : type_of% @right_at := @right_at

def exPiece : Piece := ⟨(1, 0), (1, 1), (3, 1), (3, 2)⟩
example : bezierInside [⟨0, 4, 0, 2⟩] 0 exPiece = true := by decide +kernel
example : bezierInside [⟨0, 2, 0, 2⟩] 6 exPiece = false := by decide +kernel

end Autog
