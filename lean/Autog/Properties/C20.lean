import Autog.Lemmas.BezierHull
/-! # C20
    Bezier hull. -/

namespace Autog

theorem C20_bez_ge : type_of% @BezierHull.bez_ge := @BezierHull.bez_ge

end Autog
