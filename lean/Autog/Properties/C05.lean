import Autog.Model.Phase5
import Autog.Lemmas.Reverse
import Autog.Lemmas.BreakMergeChains
import Autog.Lemmas.Frame
/-! # C05 — edges attach to their end nodes; the arrow flag marks the target

    Theorems about the router formulas of the model (key `T:phase5`): whatever the chain of nodes `ns` of a route, the
    first point is the bottom centre of the first chain node and the last point the top centre of the last one — for
    Straight by definition, for Polyline and Ortho by the lemmas below; `orderedNodes` puts the node of the upper band
    first; the models of merge set `ArrowHeadStart := IsReversed`.
    For each router AS A WHOLE (`C05_straight_router`, `C05_polyline_router`, `C05_ortho_router`, via `routeFold_spec`): when the
    router returns, every routed edge holds what its own step wrote, computed in the state the router received (later steps only
    write other edges, routing never touches node geometry), so its first point is the bottom centre of the first node of its chain
    and its last point the top centre of the last one.
    PARTIAL: that the chain `mergeLongEdges` builds starts/ends at the edge's own end nodes in band order, and the link
    between IsReversed and the input direction, are decided per run (predicate on the public result + `T:phase5`,
    `T:post`, `T:output`); Splines end points by predicate only. -/

namespace Autog

/-- `orderedNodes`: the first component is in the upper band (smaller layer index), ties by position -/
theorem C05_orderedNodes_upper_first (g : G) (e : Nat) :
    g.layerOf (orderedNodes g e).1 ≤ g.layerOf (orderedNodes g e).2 := by
  unfold orderedNodes
  by_cases h1 : g.layerOf (g.edge e).src < g.layerOf (g.edge e).dst
  · simp only [h1, if_true]; omega
  · by_cases h2 : g.layerOf (g.edge e).src > g.layerOf (g.edge e).dst
    · simp only [h1, h2, if_true, if_false]; omega
    · simp only [h1, h2, if_false]
      split <;> (dsimp only; omega)

theorem C05_orderedNodes_ends (g : G) (e : Nat) :
    ((orderedNodes g e).1 = (g.edge e).src ∧ (orderedNodes g e).2 = (g.edge e).dst) ∨
    ((orderedNodes g e).1 = (g.edge e).dst ∧ (orderedNodes g e).2 = (g.edge e).src) := by
  unfold orderedNodes
  simp only
  split
  · exact Or.inl ⟨rfl, rfl⟩
  · split
    · exact Or.inr ⟨rfl, rfl⟩
    · split
      · exact Or.inl ⟨rfl, rfl⟩
      · exact Or.inr ⟨rfl, rfl⟩

/-- Straight: first point = bottom centre of the first node, last point = top centre of the last -/
theorem C05_straight_ends (g : G) (a b : Nat) :
    (straight g a b).head? = some (startPoint g a) ∧ (straight g a b).getLast? = some (endPoint g b) := ⟨rfl, rfl⟩

/-- Polyline: the list the model builds for a chain `a :: mids ++ [b]` -/
theorem C05_polyline_ends (g : G) (a b : Nat) (mids : List Pt) :
    ([startPoint g a] ++ mids ++ [endPoint g b]).head? = some (startPoint g a) ∧
    ([startPoint g a] ++ mids ++ [endPoint g b]).getLast? = some (endPoint g b) := by
  constructor
  · simp
  · rw [List.getLast?_append]; simp

/-- Ortho: the route of a chain starting at a real node starts at that node's bottom centre … -/
theorem C05_ortho_first (g : G) (ls layerh : Rat) (a b : Nat) (rest : List Nat) (ha : (g.node a).virt = false) :
    (orthoPoints g ls layerh (a :: b :: rest)).head? = some (startPoint g a) := by
  simp [orthoPoints, orthoGroup, ha]

/-- … and ends at the top centre of the last chain node -/
theorem C05_ortho_last (g : G) (ls layerh : Rat) : ∀ (a b : Nat) (rest : List Nat),
    (orthoPoints g ls layerh (a :: b :: rest)).getLast? = some (endPoint g ((b :: rest).getLast (by simp)))
  | a, b, [] => by simp [orthoPoints, orthoGroup]
  | a, b, c :: rest => by
    have ih := C05_ortho_last g ls layerh b c rest
    have hne : orthoPoints g ls layerh (b :: c :: rest) ≠ [] := by simp [orthoPoints, orthoGroup]
    rw [show orthoPoints g ls layerh (a :: b :: c :: rest) =
        orthoGroup g ls layerh a b ++ orthoPoints g ls layerh (b :: c :: rest) from rfl]
    rw [List.getLast?_append, ih]
    simp

/-- the definitions of the two attachment points -/
theorem C05_attachment_points (g : G) (n : Nat) :
    startPoint g n = ((g.node n).x + (g.node n).w / 2, (g.node n).y + (g.node n).h) ∧
    endPoint g n = ((g.node n).x + (g.node n).w / 2, (g.node n).y) := ⟨rfl, rfl⟩

theorem C05_route_is_chain : type_of% @BreakMergeChains.reduce_chain := @BreakMergeChains.reduce_chain

/-! ## the Straight router as a whole: what every routed edge holds when the router returns -/

theorem straight_setPts (g : G) (e : Nat) (p : List Pt) (a b : Nat) : straight (setPts g e p) a b = straight g a b := rfl

theorem pts_setPts (g : G) (e e' : Nat) (p : List Pt) :
    ((setPts g e p).edge e').pts = if e = e' ∧ e' < g.edges.size then p else (g.edge e').pts := by
  unfold setPts
  rw [G.edge_modEdge]
  split <;> rfl

/-- a fold of routing steps, each of which writes the points of its own edge as a function of the state's geometry and of what the
    edge held: every routed edge ends up with what its own step wrote, computed in the ORIGINAL state -/
theorem routeFold_spec (step : G → Nat × List Nat → M G) (P : G → Nat × List Nat → List Pt → Prop)
    (hstep : ∀ g r g1, step g r = .ok g1 → ∃ p, g1 = setPts g r.1 p ∧ P g r p)
    (hP : ∀ g e q r p, e ≠ r.1 → P (setPts g e q) r p → P g r p) :
    ∀ (routes : List (Nat × List Nat)) (g g' : G), routes.foldlM step g = .ok g' →
    (routes.map (·.1)).Nodup → (∀ r ∈ routes, r.1 < g.edges.size) →
    (∀ r ∈ routes, P g r (g'.edge r.1).pts) ∧
    (∀ e, e ∉ routes.map (·.1) → (g'.edge e).pts = (g.edge e).pts) ∧ g'.edges.size = g.edges.size
  | [], g, g', h, _, _ => by
    simp only [List.foldlM_nil, pure, Except.pure, Except.ok.injEq] at h
    subst h; exact ⟨fun r hr => (by cases hr), fun _ _ => rfl, rfl⟩
  | r :: routes, g, g', h, hnd, hb => by
    simp only [List.foldlM_cons, bind, Except.bind] at h
    cases hs : step g r with
    | error e => rw [hs] at h; cases h
    | ok g1 =>
      rw [hs] at h
      simp only at h
      obtain ⟨p, hg1, hp⟩ := hstep g r g1 hs
      subst hg1
      have hnd' := List.nodup_cons.1 (by simpa using hnd : (r.1 :: routes.map (·.1)).Nodup)
      have hsz : (setPts g r.1 p).edges.size = g.edges.size := by simp [setPts]
      obtain ⟨h1, h2, h3⟩ := routeFold_spec step P hstep hP routes _ g' h hnd'.2
        (fun r' hr' => by rw [hsz]; exact hb r' (List.mem_cons_of_mem _ hr'))
      refine ⟨fun r' hr' => ?_, fun e he => ?_, h3.trans hsz⟩
      · rcases List.mem_cons.1 hr' with rfl | hr'
        · rw [h2 _ hnd'.1, pts_setPts]
          simp only [hb _ (List.mem_cons_self ..), and_self, if_true]
          exact hp
        · have hne : r.1 ≠ r'.1 := fun e => hnd'.1 (e ▸ List.mem_map.2 ⟨r', hr', rfl⟩)
          exact hP g r.1 p r' _ hne (h1 r' hr')
      · have he' : e ∉ routes.map (·.1) := fun hm => he (by simp only [List.map_cons]; exact List.mem_cons_of_mem _ hm)
        have hne : r.1 ≠ e := fun e' => he (by simp [e'])
        rw [h2 e he', pts_setPts]
        simp [hne]

theorem pts_setPts_ne (g : G) (e e' : Nat) (q : List Pt) (h : e ≠ e') : ((setPts g e q).edge e').pts = (g.edge e').pts := by
  rw [pts_setPts]; simp [h]

/-- C05 (Straight), for the router as a whole: when it returns, EVERY routed edge holds exactly two points — the bottom centre of
    the first node of its chain and the top centre of the last (node geometry is untouched by routing, so these are the
    coordinates of the returned state too: `routeStraight_geom`) -/
theorem C05_straight_router (g g' : G) (routes : List (Nat × List Nat)) (h : routeStraight g routes = .ok g')
    (hnd : (routes.map (·.1)).Nodup) (hb : ∀ r ∈ routes, r.1 < g.edges.size) :
    ∀ r ∈ routes, (g'.edge r.1).pts = [startPoint g r.2.head!, endPoint g r.2.getLast!] :=
  (routeFold_spec straightStep (fun g r p => p = [startPoint g r.2.head!, endPoint g r.2.getLast!])
    (fun g r g1 hs => ⟨_, straightStep_is_setPts g g1 r hs, rfl⟩) (fun _ _ _ _ _ _ hp => hp) routes g g' h hnd hb).1

/-- C05 (Polyline), for the router as a whole: every routed edge that held no points before starts at the bottom centre of the
    first node of its chain and ends at the top centre of the last -/
theorem C05_polyline_router (g g' : G) (routes : List (Nat × List Nat)) (h : routePolyline g routes = .ok g')
    (hnd : (routes.map (·.1)).Nodup) (hb : ∀ r ∈ routes, r.1 < g.edges.size) (hempty : ∀ r ∈ routes, (g.edge r.1).pts = []) :
    ∀ r ∈ routes, (g'.edge r.1).pts.head? = some (startPoint g r.2.head!) ∧
                  (g'.edge r.1).pts.getLast? = some (endPoint g r.2.getLast!) := by
  have := (routeFold_spec polylineStep
    (fun g r p => (g.edge r.1).pts = [] → p.head? = some (startPoint g r.2.head!) ∧ p.getLast? = some (endPoint g r.2.getLast!))
    (fun g r g1 hs => by
      obtain ⟨p, hp, hcase⟩ := polylineStep_is_setPts g g1 r hs
      refine ⟨p, hp, fun he => ?_⟩
      rcases hcase with rfl | ⟨mids, _, rfl⟩
      · exact ⟨rfl, rfl⟩
      · rw [he]
        constructor
        · simp
        · rw [List.getLast?_append]; simp)
    (fun g e q r p hne hp he => by
      have := hp (by rw [pts_setPts_ne g e r.1 q hne]; exact he)
      exact this) routes g g' h hnd hb).1
  intro r hr
  exact this r hr (hempty r hr)

/-- C05 (Ortho), for the router as a whole: every routed edge that held no points before and whose chain starts at a real node starts
    at that node's bottom centre and ends at the top centre of the last chain node -/
theorem C05_ortho_router (ls : Rat) (g g' : G) (routes : List (Nat × List Nat)) (h : routeOrtho ls g routes = .ok g')
    (hnd : (routes.map (·.1)).Nodup) (hb : ∀ r ∈ routes, r.1 < g.edges.size) (hempty : ∀ r ∈ routes, (g.edge r.1).pts = [])
    (hchain : ∀ r ∈ routes, ∃ a b rest, r.2 = a :: b :: rest ∧ (g.node a).virt = false) :
    ∀ r ∈ routes, (g'.edge r.1).pts.head? = some (startPoint g r.2.head!) ∧
                  (g'.edge r.1).pts.getLast? = some (endPoint g r.2.getLast!) := by
  have := (routeFold_spec (orthoStep ls)
    (fun g r p => (g.edge r.1).pts = [] → (∃ a b rest, r.2 = a :: b :: rest ∧ (g.node a).virt = false) →
      p.head? = some (startPoint g r.2.head!) ∧ p.getLast? = some (endPoint g r.2.getLast!))
    (fun g r g1 hs => by
      obtain ⟨p, hp, hcase⟩ := orthoStep_is_setPts ls g g1 r hs
      refine ⟨p, hp, fun he hc => ?_⟩
      rcases hcase with rfl | rfl
      · exact ⟨rfl, rfl⟩
      · obtain ⟨a, b, rest, hr2, hva⟩ := hc
        rw [he, hr2, List.nil_append]
        refine ⟨C05_ortho_first g ls _ a b rest hva, ?_⟩
        rw [C05_ortho_last]
        simp [List.getLast!, List.getLast_cons])
    (fun g e q r p hne hp he hc => by
      exact hp (by rw [pts_setPts_ne g e r.1 q hne]; exact he) hc) routes g g' h hnd hb).1
  intro r hr
  exact this r hr (hempty r hr) (hchain r hr)


/-! ### the chains `mergeLongEdges` builds start at the upper end node of the merged edge and end at the lower one -/

/-- `orderedNodes` reads the two ends of the edge and the layer / position of nodes: an update of other edge attributes leaves it alone -/
theorem orderedNodes_modEdge_attr (g : G) (e : Nat) (f : Edge → Edge) (hs : ∀ ed, (f ed).src = ed.src) (hd : ∀ ed, (f ed).dst = ed.dst) :
    orderedNodes (g.modEdge e f) e = orderedNodes g e := by
  have h1 : ((g.modEdge e f).edge e).src = (g.edge e).src := by rw [G.edge_modEdge]; split <;> simp [hs]
  have h2 : ((g.modEdge e f).edge e).dst = (g.edge e).dst := by rw [G.edge_modEdge]; split <;> simp [hd]
  simp only [orderedNodes, G.layerOf, h1, h2]
  rfl

theorem headOpt_append_ne (l l2 : List Nat) (h : l ≠ []) : (l ++ l2).head? = l.head? := by
  cases l with
  | nil => exact absurd rfl h
  | cons a t => rfl

/-- the orientation step at the end of `reduceForward`: a chain from `a` to `b` is turned round exactly when the upper end is `b` -/
theorem route_orient (L : List Nat) (a b u v : Nat) (hh : L.head? = some a) (hl : L.getLast? = some b)
    (huv : (u = a ∧ v = b) ∨ (u = b ∧ v = a)) :
    (if L.head? == some v && L.getLast? == some u then L.reverse else L).head? = some u ∧
    (if L.head? == some v && L.getLast? == some u then L.reverse else L).getLast? = some v := by
  rcases huv with ⟨rfl, rfl⟩ | ⟨rfl, rfl⟩
  · by_cases hab : u = v
    · subst hab
      simp only [hh, hl, beq_self_eq_true, Bool.and_self, if_true, List.head?_reverse, List.getLast?_reverse, and_self]
    · have hc : ¬ ((L.head? == some v && L.getLast? == some u) = true) := by
        rw [hh, hl]
        intro h
        simp only [Bool.and_eq_true, beq_iff_eq, Option.some.injEq] at h
        exact hab h.1
      rw [if_neg hc]; exact ⟨hh, hl⟩
  · simp only [hh, hl, beq_self_eq_true, Bool.and_self, if_true, List.head?_reverse, List.getLast?_reverse, and_self]

/-- the chain `reduceForward` returns for edge `e`: its first node is the upper end (`orderedNodes.1`) and its last node the lower end
    (`orderedNodes.2`) of the merged edge in the returned state — whatever the chain in between, for any fuel -/
theorem C05_reduceForward_ends : ∀ (fuel : Nat) (s : MergeSt) (e : Nat) (ns : List Nat) (s' : MergeSt) (ns' : List Nat),
    reduceForward fuel s e ns = .ok (s', ns') → ns.head? = some (s.g.edge e).src →
    ns'.head? = some (orderedNodes s'.g e).1 ∧ ns'.getLast? = some (orderedNodes s'.g e).2
  | 0, _, _, _, _, _, h, _ => by simp [reduceForward] at h
  | fuel + 1, s, e, ns, s', ns', h, hh => by
    have hne : ns ≠ [] := by intro h0; rw [h0] at hh; cases hh
    unfold reduceForward at h
    simp only at h
    split at h
    · -- the target is a helper node: follow its only out-edge
      split at h
      · rename_i f _
        refine C05_reduceForward_ends fuel _ e _ s' ns' h ?_
        simp only [G.edge_modEdge, G.modNode_edge]
        rw [headOpt_append_ne _ _ hne, hh]
        split <;> rfl
      · cases h
    · -- the target is a real node: the chain is complete
      simp only [pure, Except.pure, Except.ok.injEq, Prod.mk.injEq] at h
      obtain ⟨rfl, rfl⟩ := h
      have hord : orderedNodes (s.g.modEdge e fun ed => { ed with ahs := ed.rev }) e = orderedNodes s.g e :=
        orderedNodes_modEdge_attr s.g e _ (fun _ => rfl) (fun _ => rfl)
      simp only [hord]
      have hhead : (ns ++ [(s.g.edge e).dst]).head? = some (s.g.edge e).src := by
        rw [headOpt_append_ne _ _ hne, hh]
      have hlast : (ns ++ [(s.g.edge e).dst]).getLast? = some (s.g.edge e).dst := by simp
      exact route_orient _ _ _ _ _ hhead hlast (C05_orderedNodes_ends s.g e)

/-- **C05, route ends**: every route one iteration of `mergeLongEdges` adds — the two-node route of a short edge, or the chain
    `reduceForward` collects for a long one — starts at the upper end node and ends at the lower end node of its edge as the edge
    stands in the state after that iteration -/
theorem C05_mergeStep_route_ends (acc acc' : MergeSt × List (Nat × List Nat)) (k : Nat) (h : mergeStep acc k = .ok acc') :
    acc'.2 = acc.2 ∨ ∃ r, acc'.2 = acc.2 ++ [r] ∧ r.2.head? = some (orderedNodes acc'.1.g r.1).1 ∧
      r.2.getLast? = some (orderedNodes acc'.1.g r.1).2 := by
  unfold mergeStep at h
  simp only at h
  split at h
  · simp only [pure, Except.pure, Except.ok.injEq] at h
    subst h
    refine Or.inr ⟨_, rfl, ?_⟩
    have hord := orderedNodes_modEdge_attr acc.1.g (acc.1.arr.getD k 0) (fun ed => { ed with ahs := ed.rev }) (fun _ => rfl) (fun _ => rfl)
    simp only [hord, List.head?_cons, List.getLast?_cons_cons, List.getLast?_singleton, and_self]
  · split at h
    · simp only [bind, Except.bind] at h
      cases hr : reduceForward (acc.1.g.nodes.size + 2) acc.1 (acc.1.arr.getD k 0) [(acc.1.g.edge (acc.1.arr.getD k 0)).src] with
      | error e => rw [hr] at h; cases h
      | ok r =>
        obtain ⟨s', ns'⟩ := r
        rw [hr] at h
        simp only [pure, Except.pure, Except.ok.injEq] at h
        subst h
        exact Or.inr ⟨_, rfl, C05_reduceForward_ends _ _ _ _ _ _ hr rfl⟩
    · simp only [pure, Except.pure, Except.ok.injEq] at h
      subst h; exact Or.inl rfl
  · simp only [pure, Except.pure, Except.ok.injEq] at h
    subst h; exact Or.inl rfl

end Autog
