import Autog.Model.Phase5
import Autog.Lemmas.BreakMergeChains
import Autog.Lemmas.Frame
/-! # C05 — edges attach to their end nodes; the arrow flag marks the target

    Theorems about the router formulas of the model (key `T:phase5`): whatever the chain of nodes `ns` of a route, the
    first point is the bottom centre of the first chain node and the last point the top centre of the last one — for
    Straight by definition, for Polyline and Ortho by the lemmas below; `orderedNodes` puts the node of the upper band
    first; the models of merge set `ArrowHeadStart := IsReversed`.
    PARTIAL: that the chain `mergeLongEdges` builds starts/ends at the edge's own end nodes in band order, and the link
    between IsReversed and the input direction, are decided per run (predicate on the public result + `T:phase5`,
    `T:post`, `T:output`); Splines end points by predicate only. -/

namespace Autog

/-- `orderedNodes`: the first component is in the upper band (smaller layer index), ties by position -/
theorem C05_orderedNodes_upper_first (g : G) (e : Nat) :
    g.layerOf (orderedNodes g e).1 ≤ g.layerOf (orderedNodes g e).2 := by
  unfold orderedNodes
  by_cases h1 : g.layerOf (g.edge e).src < g.layerOf (g.edge e).dst
  · simp only [h1, if_true]; omega
  · by_cases h2 : g.layerOf (g.edge e).src > g.layerOf (g.edge e).dst
    · simp only [h1, h2, if_true, if_false]; omega
    · simp only [h1, h2, if_false]
      split <;> (dsimp only; omega)

theorem C05_orderedNodes_ends (g : G) (e : Nat) :
    ((orderedNodes g e).1 = (g.edge e).src ∧ (orderedNodes g e).2 = (g.edge e).dst) ∨
    ((orderedNodes g e).1 = (g.edge e).dst ∧ (orderedNodes g e).2 = (g.edge e).src) := by
  unfold orderedNodes
  simp only
  split
  · exact Or.inl ⟨rfl, rfl⟩
  · split
    · exact Or.inr ⟨rfl, rfl⟩
    · split
      · exact Or.inl ⟨rfl, rfl⟩
      · exact Or.inr ⟨rfl, rfl⟩

/-- Straight: first point = bottom centre of the first node, last point = top centre of the last -/
theorem C05_straight_ends (g : G) (a b : Nat) :
    (straight g a b).head? = some (startPoint g a) ∧ (straight g a b).getLast? = some (endPoint g b) := ⟨rfl, rfl⟩

/-- Polyline: the list the model builds for a chain `a :: mids ++ [b]` -/
theorem C05_polyline_ends (g : G) (a b : Nat) (mids : List Pt) :
    ([startPoint g a] ++ mids ++ [endPoint g b]).head? = some (startPoint g a) ∧
    ([startPoint g a] ++ mids ++ [endPoint g b]).getLast? = some (endPoint g b) := by
  constructor
  · simp
  · rw [List.getLast?_append]; simp

/-- Ortho: the route of a chain starting at a real node starts at that node's bottom centre … -/
theorem C05_ortho_first (g : G) (ls layerh : Rat) (a b : Nat) (rest : List Nat) (ha : (g.node a).virt = false) :
    (orthoPoints g ls layerh (a :: b :: rest)).head? = some (startPoint g a) := by
  simp [orthoPoints, orthoGroup, ha]

/-- … and ends at the top centre of the last chain node -/
theorem C05_ortho_last (g : G) (ls layerh : Rat) : ∀ (a b : Nat) (rest : List Nat),
    (orthoPoints g ls layerh (a :: b :: rest)).getLast? = some (endPoint g ((b :: rest).getLast (by simp)))
  | a, b, [] => by simp [orthoPoints, orthoGroup]
  | a, b, c :: rest => by
    have ih := C05_ortho_last g ls layerh b c rest
    have hne : orthoPoints g ls layerh (b :: c :: rest) ≠ [] := by simp [orthoPoints, orthoGroup]
    rw [show orthoPoints g ls layerh (a :: b :: c :: rest) =
        orthoGroup g ls layerh a b ++ orthoPoints g ls layerh (b :: c :: rest) from rfl]
    rw [List.getLast?_append, ih]
    simp

/-- the definitions of the two attachment points -/
theorem C05_attachment_points (g : G) (n : Nat) :
    startPoint g n = ((g.node n).x + (g.node n).w / 2, (g.node n).y + (g.node n).h) ∧
    endPoint g n = ((g.node n).x + (g.node n).w / 2, (g.node n).y) := ⟨rfl, rfl⟩

theorem C05_route_is_chain : type_of% @BreakMergeChains.reduce_chain := @BreakMergeChains.reduce_chain

/-! ## the Straight router as a whole: what every routed edge holds when the router returns -/

theorem straight_setPts (g : G) (e : Nat) (p : List Pt) (a b : Nat) : straight (setPts g e p) a b = straight g a b := rfl

theorem pts_setPts (g : G) (e e' : Nat) (p : List Pt) :
    ((setPts g e p).edge e').pts = if e = e' ∧ e' < g.edges.size then p else (g.edge e').pts := by
  unfold setPts
  rw [G.edge_modEdge]
  split <;> rfl

theorem routeStraight_spec : ∀ (routes : List (Nat × List Nat)) (g g' : G), routeStraight g routes = .ok g' →
    (routes.map (·.1)).Nodup → (∀ r ∈ routes, r.1 < g.edges.size) →
    (∀ r ∈ routes, (g'.edge r.1).pts = straight g r.2.head! r.2.getLast!) ∧
    (∀ e, e ∉ routes.map (·.1) → (g'.edge e).pts = (g.edge e).pts) ∧ g'.edges.size = g.edges.size
  | [], g, g', h, _, _ => by
    simp only [routeStraight, List.foldlM_nil, pure, Except.pure, Except.ok.injEq] at h
    subst h; exact ⟨fun r hr => (by cases hr), fun _ _ => rfl, rfl⟩
  | r :: routes, g, g', h, hnd, hb => by
    unfold routeStraight at h
    simp only [List.foldlM_cons, bind, Except.bind] at h
    split at h
    · cases h
    · rename_i g1 hg1
      split at hg1
      · cases hg1
      · simp only [pure, Except.pure, Except.ok.injEq] at hg1
        subst hg1
        have hnd' := List.nodup_cons.1 (by simpa using hnd : (r.1 :: routes.map (·.1)).Nodup)
        have hsz : (setPts g r.1 (straight g r.2.head! r.2.getLast!)).edges.size = g.edges.size := by simp [setPts]
        obtain ⟨h1, h2, h3⟩ := routeStraight_spec routes _ g' h hnd'.2
          (fun r' hr' => by rw [hsz]; exact hb r' (List.mem_cons_of_mem _ hr'))
        refine ⟨fun r' hr' => ?_, fun e he => ?_, h3.trans hsz⟩
        · rcases List.mem_cons.1 hr' with rfl | hr'
          · rw [h2 _ hnd'.1, pts_setPts]
            simp [hb _ (List.mem_cons_self ..)]
          · rw [h1 r' hr']; rfl
        · have he' : e ∉ routes.map (·.1) := fun hm => he (by simp only [List.map_cons]; exact List.mem_cons_of_mem _ hm)
          have hne : r.1 ≠ e := fun e' => he (by simp [e'])
          rw [h2 e he', pts_setPts]
          simp [hne]

/-- C05 (Straight), for the router as a whole: when it returns, EVERY routed edge holds exactly two points — the bottom centre of
    the first node of its chain and the top centre of the last — measured in the coordinates of the state the router returns
    (node geometry is untouched by routing), and edges that are not routed keep what they had -/
theorem C05_straight_router (g g' : G) (routes : List (Nat × List Nat)) (h : routeStraight g routes = .ok g')
    (hnd : (routes.map (·.1)).Nodup) (hb : ∀ r ∈ routes, r.1 < g.edges.size) :
    ∀ r ∈ routes, (g'.edge r.1).pts = [startPoint g' r.2.head!, endPoint g' r.2.getLast!] := by
  intro r hr
  have hgeo := routeStraight_geom g g' routes h
  rw [(routeStraight_spec routes g g' h hnd hb).1 r hr]
  have hn : ∀ n, g'.node n = g'.node n := fun _ => rfl
  have hx : ∀ n, (g'.node n).x = (g.node n).x ∧ (g'.node n).y = (g.node n).y ∧ (g'.node n).w = (g.node n).w ∧
      (g'.node n).h = (g.node n).h := by
    intro n
    have := hgeo.geom n
    simp only [Node.geom, Prod.mk.injEq] at this
    exact ⟨this.2.1, this.2.2.1, this.2.2.2.1, this.2.2.2.2.1⟩
  simp only [straight, startPoint, endPoint, (hx _).1, (hx _).2.1, (hx _).2.2.1, (hx _).2.2.2]

end Autog
