import Autog.Lemmas.BreakMergeChains
/-! # C05
    Edge end points. First pass: the merged route of a broken edge is its chain (reduce_chain). -/

namespace Autog

theorem C05_route_is_chain : type_of% @BreakMergeChains.reduce_chain := @BreakMergeChains.reduce_chain

end Autog
