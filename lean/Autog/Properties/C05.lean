import Autog.Model.Phase5
import Autog.Lemmas.BreakMergeChains
/-! # C05 — edges attach to their end nodes; the arrow flag marks the target

    Theorems about the router formulas of the model (key `T:phase5`): whatever the chain of nodes `ns` of a route, the
    first point is the bottom centre of the first chain node and the last point the top centre of the last one — for
    Straight by definition, for Polyline and Ortho by the lemmas below; `orderedNodes` puts the node of the upper band
    first; the models of merge set `ArrowHeadStart := IsReversed`.
    PARTIAL: that the chain `mergeLongEdges` builds starts/ends at the edge's own end nodes in band order, and the link
    between IsReversed and the input direction, are decided per run (predicate on the public result + `T:phase5`,
    `T:post`, `T:output`); Splines end points by predicate only. -/

namespace Autog

/-- `orderedNodes`: the first component is in the upper band (smaller layer index), ties by position -/
theorem C05_orderedNodes_upper_first (g : G) (e : Nat) :
    g.layerOf (orderedNodes g e).1 ≤ g.layerOf (orderedNodes g e).2 := by
  unfold orderedNodes
  by_cases h1 : g.layerOf (g.edge e).src < g.layerOf (g.edge e).dst
  · simp only [h1, if_true]; omega
  · by_cases h2 : g.layerOf (g.edge e).src > g.layerOf (g.edge e).dst
    · simp only [h1, h2, if_true, if_false]; omega
    · simp only [h1, h2, if_false]
      split <;> (dsimp only; omega)

theorem C05_orderedNodes_ends (g : G) (e : Nat) :
    ((orderedNodes g e).1 = (g.edge e).src ∧ (orderedNodes g e).2 = (g.edge e).dst) ∨
    ((orderedNodes g e).1 = (g.edge e).dst ∧ (orderedNodes g e).2 = (g.edge e).src) := by
  unfold orderedNodes
  simp only
  split
  · exact Or.inl ⟨rfl, rfl⟩
  · split
    · exact Or.inr ⟨rfl, rfl⟩
    · split
      · exact Or.inl ⟨rfl, rfl⟩
      · exact Or.inr ⟨rfl, rfl⟩

/-- Straight: first point = bottom centre of the first node, last point = top centre of the last -/
theorem C05_straight_ends (g : G) (a b : Nat) :
    (straight g a b).head? = some (startPoint g a) ∧ (straight g a b).getLast? = some (endPoint g b) := ⟨rfl, rfl⟩

/-- Polyline: the list the model builds for a chain `a :: mids ++ [b]` -/
theorem C05_polyline_ends (g : G) (a b : Nat) (mids : List Pt) :
    ([startPoint g a] ++ mids ++ [endPoint g b]).head? = some (startPoint g a) ∧
    ([startPoint g a] ++ mids ++ [endPoint g b]).getLast? = some (endPoint g b) := by
  constructor
  · simp
  · rw [List.getLast?_append]; simp

/-- Ortho: the route of a chain starting at a real node starts at that node's bottom centre … -/
theorem C05_ortho_first (g : G) (ls layerh : Rat) (a b : Nat) (rest : List Nat) (ha : (g.node a).virt = false) :
    (orthoPoints g ls layerh (a :: b :: rest)).head? = some (startPoint g a) := by
  simp [orthoPoints, orthoGroup, ha]

/-- … and ends at the top centre of the last chain node -/
theorem C05_ortho_last (g : G) (ls layerh : Rat) : ∀ (a b : Nat) (rest : List Nat),
    (orthoPoints g ls layerh (a :: b :: rest)).getLast? = some (endPoint g ((b :: rest).getLast (by simp)))
  | a, b, [] => by simp [orthoPoints, orthoGroup]
  | a, b, c :: rest => by
    have ih := C05_ortho_last g ls layerh b c rest
    have hne : orthoPoints g ls layerh (b :: c :: rest) ≠ [] := by simp [orthoPoints, orthoGroup]
    rw [show orthoPoints g ls layerh (a :: b :: c :: rest) =
        orthoGroup g ls layerh a b ++ orthoPoints g ls layerh (b :: c :: rest) from rfl]
    rw [List.getLast?_append, ih]
    simp

/-- the definitions of the two attachment points -/
theorem C05_attachment_points (g : G) (n : Nat) :
    startPoint g n = ((g.node n).x + (g.node n).w / 2, (g.node n).y + (g.node n).h) ∧
    endPoint g n = ((g.node n).x + (g.node n).w / 2, (g.node n).y) := ⟨rfl, rfl⟩

theorem C05_route_is_chain : type_of% @BreakMergeChains.reduce_chain := @BreakMergeChains.reduce_chain

end Autog
