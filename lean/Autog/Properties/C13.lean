import Autog.Model.WMedian
import Autog.Lemmas.TreePreorderPlanar
/-! # C13 — rooted trees are drawn without edge crossings

    PARTIAL. Three links:
    (a) combinatorial core, for all trees (lemma library, `C13_preorder_no_crossing`): the edges between depth d and d+1 of a rooted
        tree, taken parent by parent, list the children in pre-order level order; so for ANY positions that increase along the
        level lists no two of them cross;
    (b) on the exact model of the ordering phase (key `T:phase3-wmedian`): a run whose DFS-initialised order has no crossing returns
        at once with that order and count 0 (`C13_run_returns_initial_order`), and the phase logs 0 as soon as one of its two runs
        reports 0 (`C13_logs_zero`);
    (c) the counter is exact (C12) and the logged number equals the model's count on the returned order on every traced run
        (`T:crossings`), the positioners keep the order (C12_*_keeps_order).
    NOT proved: that the DFS initialisation of the model, run on the layered image of a tree, numbers each layer exactly as the
    pre-order level lists of (a) — decided per run: every generated tree (all edge orders, both directions, both layerers, all
    size-aware positioners) must come back with 0 logged and 0 recounted crossings. -/

namespace Autog

theorem C13_preorder_no_crossing : type_of% @TreePreorderPlanar.no_crossing := @TreePreorderPlanar.no_crossing

/-- a run whose initial (DFS) order is crossing-free returns immediately: count 0, the initial positions, the initial state -/
theorem C13_run_returns_initial_order (maxiter : Nat) (down : Bool) (g g1 : G)
    (hi : wmInit down g = .ok g1) (h0 : crossingsAll g1 = .ok 0) :
    wmedianRun maxiter down g = .ok (0, positionsOf g1, g1) := by
  unfold wmedianRun
  simp [hi, h0, bind, Except.bind, pure, Except.pure]

/-- the ordering phase logs 0 as soon as one of its two runs reports 0 crossings -/
theorem C13_logs_zero (maxiter : Nat) (g g1 g2 : G) (xt xb : Nat) (pt pb : Array Int)
    (hflat : (g.elist.any g.isFlat) = false)
    (rt : wmedianRun maxiter true g = .ok (xt, pt, g1)) (rb : wmedianRun maxiter false g1 = .ok (xb, pb, g2))
    (h0 : xt = 0 ∨ xb = 0) : ∃ gf, orderWMedian maxiter g = .ok (gf, 0) := by
  unfold orderWMedian
  simp only [hflat, Bool.false_eq_true, if_false, bind, Except.bind, rt, rb, pure, Except.pure]
  rcases h0 with rfl | rfl
  · by_cases h : 0 < xb
    · simp [h]
    · have : xb = 0 := by omega
      subst this; simp
  · simp

end Autog
