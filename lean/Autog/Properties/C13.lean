import Autog.Lemmas.TreePreorderPlanar
/-! # C13
    Trees are planar. -/

namespace Autog

theorem C13_preorder_no_crossing : type_of% @TreePreorderPlanar.no_crossing := @TreePreorderPlanar.no_crossing

end Autog
