import Autog.Model.WMedian
import Autog.Lemmas.TreePreorderPlanar
import Autog.Lemmas.TreeInitDfs
/-! # C13 — rooted trees are drawn without edge crossings

    PARTIAL. Three links:
    (a) combinatorial core, for all trees (lemma library, `C13_preorder_no_crossing`): the edges between depth d and d+1 of a rooted
        tree, taken parent by parent, list the children in pre-order level order; so for ANY positions that increase along the
        level lists no two of them cross;
    (b) on the exact model of the ordering phase (key `T:phase3-wmedian`): a run whose DFS-initialised order has no crossing returns
        at once with that order and count 0 (`C13_run_returns_initial_order`), and the phase logs 0 as soon as one of its two runs
        reports 0 (`C13_logs_zero`);
    (c) the counter is exact (C12) and the logged number equals the model's count on the returned order on every traced run
        (`T:crossings`), the positioners keep the order (C12_*_keeps_order).
    (d) the bridge from the model to (a), for ALL trees (`C13_initPositions_preorder`, `C13_initPositions_no_crossing`): on every
        graph state that represents a rooted tree (`TreeRep`: for the run from the top the out-lists are the children in order and
        the root is alone in the first layer list; for the run from the bottom — edges pointing toward the root — the in-lists and
        the last layer list; layer = an injective function of depth; every node a tree node) the model's `initPositions` (the
        exact model of `initPositionsFromTop` / `…FromBottom`) returns — the
        machine works through a subtree in exactly 2·size steps — and gives every node its index in the pre-order level list of its
        depth; hence, listing the tree edges between two consecutive depths parent by parent, parent positions never decrease and
        child positions strictly increase: no two of them cross.
    NOT proved: that the model's bilayer extraction (`countCrossings`, which collects the incident edges of the larger layer and
    feeds their position pairs to the verified counter) sees exactly these edge lists, i.e. the step from (d) to the hypothesis
    `crossingsAll g1 = 0` of (b); and that phases 1–2 and `breakLongEdges` turn a tree input into a `TreeRep` state. These are
    decided per run: every generated tree (all edge orders, both directions,
    both layerers, all size-aware positioners) must come back with 0 logged and 0 recounted crossings. -/

namespace Autog

theorem C13_preorder_no_crossing : type_of% @TreePreorderPlanar.no_crossing := @TreePreorderPlanar.no_crossing

/-- a run whose initial (DFS) order is crossing-free returns immediately: count 0, the initial positions, the initial state -/
theorem C13_run_returns_initial_order (maxiter : Nat) (down : Bool) (g g1 : G)
    (hi : wmInit down g = .ok g1) (h0 : crossingsAll g1 = .ok 0) :
    wmedianRun maxiter down g = .ok (0, positionsOf g1, g1) := by
  unfold wmedianRun
  simp [hi, h0, bind, Except.bind, pure, Except.pure]

/-- the ordering phase logs 0 as soon as one of its two runs reports 0 crossings -/
theorem C13_logs_zero (maxiter : Nat) (g g1 g2 : G) (xt xb : Nat) (pt pb : Array Int)
    (hflat : (g.elist.any g.isFlat) = false)
    (rt : wmedianRun maxiter true g = .ok (xt, pt, g1)) (rb : wmedianRun maxiter false g1 = .ok (xb, pb, g2))
    (h0 : xt = 0 ∨ xb = 0) : ∃ gf, orderWMedian maxiter g = .ok (gf, 0) := by
  unfold orderWMedian
  simp only [hflat, Bool.false_eq_true, if_false, bind, Except.bind, rt, rb, pure, Except.pure]
  rcases h0 with rfl | rfl
  · by_cases h : 0 < xb
    · simp [h]
    · have : xb = 0 := by omega
      subst this; simp
  · simp

/-! ## (d) the DFS initialisation of a tree state is the pre-order numbering -/

theorem C13_initPositions_preorder : type_of% @TreeInitDfs.initPositions_tree := @TreeInitDfs.initPositions_tree
theorem C13_initPositions_no_crossing : type_of% @TreeInitDfs.initPositions_tree_no_crossing := @TreeInitDfs.initPositions_tree_no_crossing
theorem C13_subtree_in_preorder : type_of% @TreeInitDfs.run_tree := @TreeInitDfs.run_tree
theorem C13_preorder_levels : type_of% @TreeInitDfs.pre_lvl := @TreeInitDfs.pre_lvl

/-- non-vacuity: a state that represents the tree 0(1(3,4),2(5)), with its edge list in a scrambled order -/
def exTreeG : G :=
  { nodes := #[{ id := "r", outs := [3, 0], layer := 0 }, { id := "a", ins := [3], outs := [4, 1], layer := 1 },
               { id := "b", ins := [0], outs := [2], layer := 1 }, { id := "c", ins := [4], layer := 2 },
               { id := "d", ins := [1], layer := 2 }, { id := "e", ins := [2], layer := 2 }],
    edges := #[{ src := 0, dst := 2 }, { src := 1, dst := 4 }, { src := 2, dst := 5 }, { src := 0, dst := 1 }, { src := 1, dst := 3 }],
    elist := [0, 1, 2, 3, 4],
    layers := #[{ index := 0, nodes := [0] }, { index := 1, nodes := [2, 1] }, { index := 2, nodes := [5, 3, 4] }] }

example : TreeInitDfs.TreeRep true exTreeG TreePreorderPlanar.ex (fun d => (d : Int)) :=
  { kids := by simp [TreeInitDfs.KidsOK, TreeInitDfs.KidsOKs, TreePreorderPlanar.ex]; decide
    nd := by decide
    first := by decide
    span := by decide
    bound := by decide
    size := by decide
    inj := fun a b h => by omega
    lay := by decide }

/-- the same tree with every edge pointing toward the root, layered bottom-up: the run from the bottom sees it -/
def exInTreeG : G :=
  { nodes := #[{ id := "r", ins := [3, 0], layer := 2 }, { id := "a", outs := [3], ins := [4, 1], layer := 1 },
               { id := "b", outs := [0], ins := [2], layer := 1 }, { id := "c", outs := [4], layer := 0 },
               { id := "d", outs := [1], layer := 0 }, { id := "e", outs := [2], layer := 0 }],
    edges := #[{ src := 2, dst := 0 }, { src := 4, dst := 1 }, { src := 5, dst := 2 }, { src := 1, dst := 0 }, { src := 3, dst := 1 }],
    elist := [0, 1, 2, 3, 4],
    layers := #[{ index := 0, nodes := [5, 3, 4] }, { index := 1, nodes := [2, 1] }, { index := 2, nodes := [0] }] }

example : TreeInitDfs.TreeRep false exInTreeG TreePreorderPlanar.ex (fun d => 2 - (d : Int)) :=
  { kids := by simp [TreeInitDfs.KidsOK, TreeInitDfs.KidsOKs, TreePreorderPlanar.ex]; decide
    nd := by decide
    first := by decide
    span := by decide
    bound := by decide
    size := by decide
    inj := fun a b h => by omega
    lay := by decide }

example : ((initPositions true exTreeG).toOption.map fun g => g.nodes.toList.map (·.pos)) = some [0, 0, 1, 0, 1, 2] := by decide +kernel

end Autog
