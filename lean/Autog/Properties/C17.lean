import Autog.Lemmas.ScaleBase
import Autog.Lemmas.ScaleSC
import Autog.Properties.C03
import Autog.Model.Phase5
/-! # C17 — unit independence (scale equivariance)

    For every positive factor c (in particular every power of two) and every graph state with well-formed layer lists:
    scaling all node sizes and NodeSpacing by c scales the x coordinates VAlign assigns by c (`C17_valign_scale`), and
    scaling the layer heights and LayerSpacing by c scales every band's Y by c (`C17_layerYs_scale`); list level:
    `placeFrom_scale`, `layerW_scale`, `valign_scale`, `assignY_scale` for every factor. The theorems are about the model
    functions the keys `T:phase4-valign`, `T:assignY` compare with the real code.
    PackRight likewise (`C17_packright_scale`).
    SinkColoring, the default positioner, as a whole (`C17_sinkcoloring_scale`): block building (`setColor`, the block widths),
    the initial coordinates and every round of the `placeBlock` fixpoint iteration commute with the scaling, for every c > 0, every
    state and every fuel; the number of rounds is the same, and the run on the scaled state fails exactly when the original fails.
    Routers as a whole (`C17_routeStraight/_routePolyline/_routeOrtho_scale`), the merge of the long edges
    (`mergeLongEdges_scale`), phase 5 as a whole (`C17_phase5_scale`), the three positioners on graph states
    (`C17_sinkcoloring_scale_state`, `C17_valign_scale_state`, `C17_packright_scale_state`), phase 4 as a whole
    (`C17_phase4_scale`) and both together (`C17_phase45_scale`): positioning + routing on the scaled state = the scaled
    result, route points included, same failures. `scaleG` multiplies node sizes and coordinates, layer sizes and route points.
    END TO END (`C17_layoutModelS_scale`): the composed model `layoutModelS` (Model/Pipeline.lean) runs pre-processing and phases 1–3
    under options from which every size and spacing has been removed and attaches the configured sizes only before phase 4; it is
    compared with the public result of the real `Layout` on every traced run (`T:pipeline-sizes`). For SinkColoring, VAlign, PackRight and
    every router with an exact model: `layoutModelS (scaleCfg c cfg) es = (layoutModelS cfg es).map (scaleOut c)` for every c > 0.
    Brandes–Köpf after the four compactions (`C17_bk_finish_scale`): selection / balancing with sorted medians, verification, writing.
    PARTIAL: the four candidate layouts of Brandes–Köpf (conflict marking, vertical alignment, horizontal compaction) are decided by exact
    comparison at 2^k (k ∈ −3..6, also in tiny and huge units) on generated inputs plus the `Numbers` facts (the float literals and float-typed constants of phases 4/5 are pinned; no size or
    spacing is read in phases 1–3: fact `sizeReadsPhases123`, which is what connects `C17_phase45_scale` to the whole pipeline). -/

namespace Autog
open Phase4Simple

theorem maxLayerW_scale (c ns : Rat) (hc : 0 < c) (g : G) : maxLayerW (c * ns) (scaleG c g) = c * maxLayerW ns g := by
  unfold maxLayerW
  have h0 : (0 : Rat) = c * 0 := by grind
  have hl : ((scaleG c g).layers.toList.map fun l => layerW (c * ns) (widthsOf (scaleG c g) l)) =
      (g.layers.toList.map fun l => layerW ns (widthsOf g l)).map (c * ·) := by
    have hls : (scaleG c g).layers.toList = g.layers.toList.map fun l => { l with w := c * l.w, h := c * l.h } := by
      simp [scaleG]
    rw [hls, List.map_map, List.map_map]
    apply List.map_congr_left
    intro l _
    simp only [Function.comp]
    rw [widthsOf_scaleG c g l { l with w := c * l.w, h := c * l.h } rfl, layerW_scale]
  rw [hl]
  conv => lhs; rw [h0]
  exact foldl_maxRat_scale c hc _ 0

theorem layersWF_scaleG (c : Rat) (g : G) (h : LayersWF g) : LayersWF (scaleG c g) := by
  have hn : (scaleG c g).layers.toList.flatMap (·.nodes) = g.layers.toList.flatMap (·.nodes) := by
    rw [List.flatMap_def, scaleG_layers_nodes, ← List.flatMap_def]
  exact ⟨by rw [hn]; exact h.nodup, fun n hn' => by rw [hn] at hn'; simpa [scaleG] using h.bound n hn'⟩

/-- C17 (VAlign): scaling sizes and spacing by c > 0 scales every x coordinate by c -/
theorem C17_valign_scale (c ns : Rat) (hc : 0 < c) (g : G) (hwf : LayersWF g) (i : Nat) (hi : i < g.layers.toList.length) :
    xsOf (execVerticalAlign (c * ns) (scaleG c g)) ((scaleG c g).layers.toList[i]'(by simpa [scaleG] using hi)) =
      (xsOf (execVerticalAlign ns g) (g.layers.toList[i])).map (c * ·) := by
  have hi' : i < (scaleG c g).layers.toList.length := by simpa [scaleG] using hi
  have hl' : (scaleG c g).layers.toList[i] ∈ (scaleG c g).layers.toList := List.getElem_mem hi'
  have hl : g.layers.toList[i] ∈ g.layers.toList := List.getElem_mem hi
  rw [(C16_valign_coordinates (c * ns) (scaleG c g) (layersWF_scaleG c g hwf) _ hl').1,
      (C16_valign_coordinates ns g hwf _ hl).1]
  have hnodes : ((scaleG c g).layers.toList[i]).nodes = (g.layers.toList[i]).nodes := by
    simp [scaleG]
  rw [widthsOf_scaleG c g (g.layers.toList[i]) _ hnodes, maxLayerW_scale c ns hc, valign_scale]

/-- C17 (bands): scaling layer heights and LayerSpacing by c scales every band's Y by c (any factor) -/
theorem C17_layerYs_scale (c ls : Rat) (g : G) : layerYs (c * ls) (scaleG c g) = (layerYs ls g).map (c * ·) := by
  unfold layerYs
  have : (scaleG c g).layers.toList.map (·.h) = (g.layers.toList.map (·.h)).map (c * ·) := by
    simp [scaleG, List.map_map, Function.comp]
  rw [this]
  have h0 : (0 : Rat) = c * 0 := by grind
  conv => lhs; rw [h0]
  exact assignY_scale c ls 0 _

/-! ### PackRight -/

theorem packBack_scale (c ns : Rat) : ∀ (ws : List Rat) (x : Rat),
    packBack (c * ns) (c * x) (ws.map (c * ·)) = (packBack ns x ws).map (c * ·)
  | [], _ => rfl
  | w :: ws, x => by
    simp only [List.map_cons, packBack]
    have : c * x - (c * w + c * ns) = c * (x - (w + ns)) := by grind
    rw [this, packBack_scale c ns ws]

theorem minRat_scale (a b c : Rat) (hc : 0 < c) : minRat (c * a) (c * b) = c * minRat a b := by
  unfold minRat
  by_cases h : a ≤ b
  · have : c * a ≤ c * b := Rat.mul_le_mul_of_nonneg_left h (Rat.le_of_lt hc)
    simp [h, this]
  · have h' : b < a := Rat.not_le.1 h
    have : ¬ c * a ≤ c * b := by
      intro hle
      have := (lt_scale b a c hc).2 h'
      exact absurd hle (Rat.not_le.2 this)
    simp [h, this]

theorem foldl_minRat_scale (c : Rat) (hc : 0 < c) : ∀ (l : List Rat) (d : Rat),
    (l.map (c * ·)).foldl minRat (c * d) = c * l.foldl minRat d
  | [], _ => rfl
  | x :: l, d => by
    simp only [List.map_cons, List.foldl_cons, minRat_scale _ _ _ hc]
    exact foldl_minRat_scale c hc l _

theorem packRightRaw_scale (c ns : Rat) (g : G) (l l' : Layer) (hn : l'.nodes = l.nodes) :
    packRightRaw (c * ns) (scaleG c g) l' = (packRightRaw ns g l).map (c * ·) := by
  unfold packRightRaw
  rw [widthsOf_scaleG c g l l' hn, ← List.map_reverse]
  have h0 : (0 : Rat) = c * 0 := by grind
  conv => lhs; rw [h0]
  rw [packBack_scale, List.map_reverse]

theorem packLeftBound_scale (c ns : Rat) (hc : 0 < c) (g : G) :
    packLeftBound (c * ns) (scaleG c g) = c * packLeftBound ns g := by
  unfold packLeftBound
  have hl : (scaleG c g).layers.toList.flatMap (packRightRaw (c * ns) (scaleG c g)) =
      (g.layers.toList.flatMap (packRightRaw ns g)).map (c * ·) := by
    have hls : (scaleG c g).layers.toList = g.layers.toList.map fun l => { l with w := c * l.w, h := c * l.h } := by
      simp [scaleG]
    rw [hls, List.flatMap_map, List.map_flatMap]
    have hcongr : ∀ (ls : List Layer), ls.flatMap (fun l => packRightRaw (c * ns) (scaleG c g) { l with w := c * l.w, h := c * l.h }) =
        ls.flatMap fun l => (packRightRaw ns g l).map (c * ·) := by
      intro ls
      induction ls with
      | nil => rfl
      | cons l ls ih =>
        simp only [List.flatMap_cons, ih]
        rw [packRightRaw_scale c ns g l { l with w := c * l.w, h := c * l.h } rfl]
    exact hcongr _
  rw [hl]
  have h0 : (0 : Rat) = c * 0 := by grind
  conv => lhs; rw [h0]
  exact foldl_minRat_scale c hc _ 0

/-- C17 (PackRight): scaling sizes and spacing by c > 0 scales every x coordinate by c -/
theorem C17_packright_scale (c ns : Rat) (hc : 0 < c) (g : G) (hwf : LayersWF g) (i : Nat) (hi : i < g.layers.toList.length) :
    xsOf (execPackRight (c * ns) (scaleG c g)) ((scaleG c g).layers.toList[i]'(by simpa [scaleG] using hi)) =
      (xsOf (execPackRight ns g) (g.layers.toList[i])).map (c * ·) := by
  have hi' : i < (scaleG c g).layers.toList.length := by simpa [scaleG] using hi
  have hl' : (scaleG c g).layers.toList[i] ∈ (scaleG c g).layers.toList := List.getElem_mem hi'
  have hl : g.layers.toList[i] ∈ g.layers.toList := List.getElem_mem hi
  rw [(C16_packright_coordinates (c * ns) (scaleG c g) (layersWF_scaleG c g hwf) _ hl').1,
      (C16_packright_coordinates ns g hwf _ hl).1]
  have hnodes : ((scaleG c g).layers.toList[i]).nodes = (g.layers.toList[i]).nodes := by
    simp [scaleG]
  rw [packRightRaw_scale c ns g (g.layers.toList[i]) _ hnodes, packLeftBound_scale c ns hc, List.map_map, List.map_map]
  apply List.map_congr_left
  intro x _
  simp only [Function.comp]
  grind

/-! ### routers: every route point is a fixed linear expression in node coordinates, sizes, layer heights and LayerSpacing -/


theorem scaleG_node (c : Rat) (g : G) (n : Nat) :
    ((scaleG c g).node n).x = c * (g.node n).x ∧ ((scaleG c g).node n).y = c * (g.node n).y ∧
    ((scaleG c g).node n).w = c * (g.node n).w ∧ ((scaleG c g).node n).h = c * (g.node n).h ∧
    ((scaleG c g).node n).virt = (g.node n).virt ∧ ((scaleG c g).node n).layer = (g.node n).layer := by
  simp only [scaleG, G.node, Array.getD_eq_getD_getElem?, Array.getElem?_map]
  cases g.nodes[n]? with
  | none => simp [default, instInhabitedNode.default]
  | some nd => simp

theorem C17_startPoint_scale (c : Rat) (g : G) (n : Nat) : startPoint (scaleG c g) n = scalePt c (startPoint g n) := by
  obtain ⟨hx, hy, hw, hh, _, _⟩ := scaleG_node c g n
  simp only [startPoint, scalePt, hx, hy, hw, hh, Prod.mk.injEq]
  constructor <;> grind

theorem C17_endPoint_scale (c : Rat) (g : G) (n : Nat) : endPoint (scaleG c g) n = scalePt c (endPoint g n) := by
  obtain ⟨hx, hy, hw, _, _, _⟩ := scaleG_node c g n
  simp only [endPoint, scalePt, hx, hy, hw, Prod.mk.injEq]
  constructor <;> grind

/-- Straight routes (and the two-point case of the other routers) -/
theorem C17_straight_scale (c : Rat) (g : G) (a b : Nat) : straight (scaleG c g) a b = (straight g a b).map (scalePt c) := by
  simp [straight, C17_startPoint_scale, C17_endPoint_scale]

theorem C17_layerH_scale (c : Rat) (g : G) (i : Int) : layerH (scaleG c g) i = c * layerH g i := by
  simp only [layerH, scaleG, Array.getD_eq_getD_getElem?, Array.getElem?_map]
  cases g.layers[i.toNat]? with
  | none => simp [default, instInhabitedLayer.default]
  | some l => simp

/-- Polyline bends -/
theorem C17_bend_scale (c : Rat) (g : G) (n : Nat) :
    nonTerminalPoint (scaleG c g) n = (nonTerminalPoint g n).map (scalePt c) := by
  obtain ⟨hx, hy, hw, _, hv, hl⟩ := scaleG_node c g n
  unfold nonTerminalPoint
  simp only [hv, hx, hy, hw, hl, C17_layerH_scale, bind, Except.bind, pure, Except.pure]
  cases (g.node n).virt
  · simp [Except.map, throw, throwThe, MonadExceptOf.throw]
  · simp only [Bool.not_true, Bool.false_eq_true, if_false, Except.map, scalePt, Except.ok.injEq, Prod.mk.injEq]
    constructor <;> grind

/-- Orthogonal routes of ANY node chain -/
theorem C17_orthoGroup_scale (c ls layerh : Rat) (g : G) (a b : Nat) :
    orthoGroup (scaleG c g) (c * ls) (c * layerh) a b = (orthoGroup g ls layerh a b).map (scalePt c) := by
  obtain ⟨_, _, _, _, hv, _⟩ := scaleG_node c g a
  simp only [orthoGroup, C17_startPoint_scale, C17_endPoint_scale, hv, scalePt, List.map_cons, List.map_nil]
  cases (g.node a).virt <;> simp <;> grind

theorem C17_orthoPoints_scale (c ls layerh : Rat) (g : G) : ∀ (ns : List Nat),
    orthoPoints (scaleG c g) (c * ls) (c * layerh) ns = (orthoPoints g ls layerh ns).map (scalePt c)
  | [] => rfl
  | [_] => rfl
  | a :: b :: rest => by
    simp only [orthoPoints, List.map_append, C17_orthoGroup_scale, C17_orthoPoints_scale c ls layerh g (b :: rest)]

/-- the Ortho router's "vertically aligned" test does not depend on the unit -/
theorem C17_aligned_scale (c : Rat) (hc : 0 < c) (g : G) (a b : Nat) :
    (((scaleG c g).node a).x + ((scaleG c g).node a).w / 2 == ((scaleG c g).node b).x + ((scaleG c g).node b).w / 2) =
    ((g.node a).x + (g.node a).w / 2 == (g.node b).x + (g.node b).w / 2) := by
  obtain ⟨hxa, _, hwa, _, _, _⟩ := scaleG_node c g a
  obtain ⟨hxb, _, hwb, _, _, _⟩ := scaleG_node c g b
  rw [hxa, hwa, hxb, hwb]
  have e1 : c * (g.node a).x + c * (g.node a).w / 2 = c * ((g.node a).x + (g.node a).w / 2) := by grind
  have e2 : c * (g.node b).x + c * (g.node b).w / 2 = c * ((g.node b).x + (g.node b).w / 2) := by grind
  rw [e1, e2]
  by_cases h : (g.node a).x + (g.node a).w / 2 = (g.node b).x + (g.node b).w / 2
  · simp [h]
  · have : c * ((g.node a).x + (g.node a).w / 2) ≠ c * ((g.node b).x + (g.node b).w / 2) := by
      intro he
      exact h (rat_mul_cancel _ _ c hc he)
    rw [beq_eq_false_iff_ne.2 h, beq_eq_false_iff_ne.2 this]

theorem C17_placeFrom_scale : type_of% @placeFrom_scale := @placeFrom_scale
theorem C17_layerW_scale : type_of% @layerW_scale := @layerW_scale
theorem C17_valign_list_scale : type_of% @valign_scale := @valign_scale
theorem C17_assignY_scale : type_of% @assignY_scale := @assignY_scale

example : xsOf (execVerticalAlign (4 * 5) (scaleG 4 exG)) ((scaleG 4 exG).layers.toList[1]!) = [0, 20, 80] := by decide +kernel


/-- **C17, SinkColoring (the default positioner), the whole positioner**: with every node size multiplied by c > 0 and NodeSpacing
    c·ns, `execSinkColoring` computes exactly c times the coordinates (same blocks, same number of `placeBlock` rounds, same
    failures) — for every state, not only properly layered ones -/
theorem C17_sinkcoloring_scale : type_of% @scCoords_scale := @scCoords_scale
theorem C17_sinkcoloring_blocks_scale : type_of% @scBlocks_scale := @scBlocks_scale
theorem C17_sinkcoloring_round_scale : type_of% @placeBlockRound_scale := @placeBlockRound_scale
theorem C17_sinkcoloring_plan_scale : type_of% @scPlan_scale := @scPlan_scale

/-- … stated for the function the key `T:phase4-sink` compares with the real code -/
theorem C17_sinkcoloring_exec_scale (c ns : Rat) (hc : 0 < c) (g : G) :
    execSinkColoring (c * ns) (scaleG c g) =
      (scCoords ns g).map fun r => (scWrite (scaleG c g) (r.1.map (c * ·)), r.2) := by
  rw [execSinkColoring_coords, scCoords_scale c ns hc]
  cases scCoords ns g with
  | error e => rfl
  | ok r => rfl


/-! ### the routers as a whole: a routed state scales with the unit, route points included -/

/-- the state with all sizes, coordinates AND route points multiplied by c (`scaleG` itself) -/
abbrev scaleGP (c : Rat) (g : G) : G := scaleG c g

theorem scaleGP_node (c : Rat) (g : G) (n : Nat) : (scaleGP c g).node n = (scaleG c g).node n := rfl
theorem scaleGP_layers (c : Rat) (g : G) : (scaleGP c g).layers = (scaleG c g).layers := rfl

theorem scaleGP_edge (c : Rat) (g : G) (e : Nat) :
    (scaleGP c g).edge e = { g.edge e with pts := (g.edge e).pts.map (scalePt c) } := by
  exact scaleG_edge_full c g e

theorem scaleGP_isFlat (c : Rat) (g : G) (e : Nat) : (scaleGP c g).isFlat e = g.isFlat e := by
  simp only [G.isFlat, G.layerOf, scaleGP_edge, scaleGP_node, (scaleG_node c g _).2.2.2.2.2]

theorem array_map_modify {α : Type} (f h h' : α → α) (hf : ∀ x, h (f x) = f (h' x)) (a : Array α) (i : Nat) :
    (a.map f).modify i h = (a.modify i h').map f := by
  apply Array.ext
  · simp
  · intro j h1 h2
    simp only [Array.getElem_modify, Array.getElem_map]
    split
    · exact hf _
    · rfl

/-- writing c-scaled points to the scaled state = scaling the state the points were written to -/
theorem setPts_scaleGP (c : Rat) (g : G) (e : Nat) (p : List Pt) :
    setPts (scaleGP c g) e (p.map (scalePt c)) = scaleGP c (setPts g e p) := by
  simp only [setPts, G.modEdge, scaleGP, scaleG]
  congr 1
  apply array_map_modify
  intro x; rfl

theorem straight_scaleGP (c : Rat) (g : G) (a b : Nat) : straight (scaleGP c g) a b = (straight g a b).map (scalePt c) :=
  C17_straight_scale c g a b

theorem straightStep_scale (c : Rat) (g : G) (r : Nat × List Nat) :
    straightStep (scaleGP c g) r = (straightStep g r).map (scaleGP c) := by
  unfold straightStep
  simp only [scaleGP_isFlat, bind, Except.bind, pure, Except.pure]
  split
  · rfl
  · simp only [Except.map, straight_scaleGP, setPts_scaleGP]

theorem foldlM_scale {α : Type} (S : G → G) (step step' : G → α → M G) (h : ∀ g r, step' (S g) r = (step g r).map S) :
    ∀ (l : List α) (g : G), l.foldlM step' (S g) = (l.foldlM step g).map S
  | [], _ => rfl
  | r :: l, g => by
    simp only [List.foldlM_cons, bind, Except.bind, h]
    cases step g r with
    | error e => rfl
    | ok g' => exact foldlM_scale S step step' h l g'

/-- **C17, Straight router as a whole** -/
theorem C17_routeStraight_scale (c : Rat) (g : G) (routes : List (Nat × List Nat)) :
    routeStraight (scaleGP c g) routes = (routeStraight g routes).map (scaleGP c) :=
  foldlM_scale (scaleGP c) straightStep straightStep (straightStep_scale c) routes g

theorem mapM_bend_scale (c : Rat) (g : G) : ∀ (l : List Nat),
    l.mapM (nonTerminalPoint (scaleGP c g)) = (l.mapM (nonTerminalPoint g)).map (List.map (scalePt c))
  | [] => rfl
  | n :: l => by
    have h1 : nonTerminalPoint (scaleGP c g) n = (nonTerminalPoint g n).map (scalePt c) := C17_bend_scale c g n
    simp only [List.mapM_cons, bind, Except.bind, h1, mapM_bend_scale c g l]
    cases nonTerminalPoint g n with
    | error e => rfl
    | ok p =>
      cases List.mapM (nonTerminalPoint g) l with
      | error e => rfl
      | ok ps => rfl

theorem polylineStep_scale (c : Rat) (g : G) (r : Nat × List Nat) :
    polylineStep (scaleGP c g) r = (polylineStep g r).map (scaleGP c) := by
  unfold polylineStep
  simp only [scaleGP_isFlat]
  split
  · rfl
  · split
    · simp only [pure, Except.pure, Except.map, straight_scaleGP, setPts_scaleGP]
    · simp only [bind, Except.bind, mapM_bend_scale]
      cases List.mapM (nonTerminalPoint g) r.2.tail.dropLast with
      | error e => rfl
      | ok mids =>
        have hs : startPoint (scaleGP c g) r.2.head! = scalePt c (startPoint g r.2.head!) := C17_startPoint_scale c g _
        have he : endPoint (scaleGP c g) r.2.getLast! = scalePt c (endPoint g r.2.getLast!) := C17_endPoint_scale c g _
        simp only [Except.map, pure, Except.pure, scaleGP_edge, hs, he]
        rw [← setPts_scaleGP]
        simp only [List.map_append, List.map_cons, List.map_nil]

/-- **C17, Polyline router as a whole** -/
theorem C17_routePolyline_scale (c : Rat) (g : G) (routes : List (Nat × List Nat)) :
    routePolyline (scaleGP c g) routes = (routePolyline g routes).map (scaleGP c) :=
  foldlM_scale (scaleGP c) polylineStep polylineStep (polylineStep_scale c) routes g

theorem orthoPoints_scaleGP (c ls layerh : Rat) (g : G) : ∀ (ns : List Nat),
    orthoPoints (scaleGP c g) ls layerh ns = orthoPoints (scaleG c g) ls layerh ns
  | [] => rfl
  | [_] => rfl
  | a :: b :: rest => rfl

theorem orthoStep_scale (c ls : Rat) (hc : 0 < c) (g : G) (r : Nat × List Nat) :
    orthoStep (c * ls) (scaleGP c g) r = (orthoStep ls g r).map (scaleGP c) := by
  unfold orthoStep
  simp only [scaleGP_isFlat]
  split
  · rfl
  · have hal := C17_aligned_scale c hc g (g.edge r.1).src (g.edge r.1).dst
    have hsrc : ((scaleGP c g).edge r.1).src = (g.edge r.1).src := by rw [scaleGP_edge]
    have hdst : ((scaleGP c g).edge r.1).dst = (g.edge r.1).dst := by rw [scaleGP_edge]
    simp only [hsrc, hdst, scaleGP_node, hal]
    split
    · simp only [pure, Except.pure, Except.map, straight_scaleGP, setPts_scaleGP]
    · have hlh : layerH (scaleGP c g) ((scaleGP c g).layerOf (g.edge r.1).src) = c * layerH g (g.layerOf (g.edge r.1).src) := by
        have : (scaleGP c g).layerOf (g.edge r.1).src = g.layerOf (g.edge r.1).src := by
          simp only [G.layerOf, scaleGP_node, (scaleG_node c g _).2.2.2.2.2]
        rw [this]; exact C17_layerH_scale c g _
      have hop : orthoPoints (scaleGP c g) (c * ls) (c * layerH g (g.layerOf (g.edge r.1).src)) r.2 =
          (orthoPoints g ls (layerH g (g.layerOf (g.edge r.1).src)) r.2).map (scalePt c) := by
        rw [orthoPoints_scaleGP]; exact C17_orthoPoints_scale c ls _ g r.2
      simp only [pure, Except.pure, Except.map, hlh, hop, scaleGP_edge]
      rw [← setPts_scaleGP]
      simp only [List.map_append]

/-- **C17, Orthogonal router as a whole** -/
theorem C17_routeOrtho_scale (c ls : Rat) (hc : 0 < c) (g : G) (routes : List (Nat × List Nat)) :
    routeOrtho (c * ls) (scaleGP c g) routes = (routeOrtho ls g routes).map (scaleGP c) :=
  foldlM_scale (scaleGP c) (orthoStep ls) (orthoStep (c * ls)) (orthoStep_scale c ls hc) routes g


/-! ### merging the long edges back never looks at a size: it commutes with the scaling -/

theorem scaleGP_nsize (c : Rat) (g : G) : (scaleGP c g).nodes.size = g.nodes.size := by simp [scaleGP, scaleG]

theorem scaleGP_node_top (c : Rat) (g : G) (n : Nat) :
    ((scaleGP c g).node n).ins = (g.node n).ins ∧ ((scaleGP c g).node n).outs = (g.node n).outs ∧
    ((scaleGP c g).node n).layer = (g.node n).layer ∧ ((scaleGP c g).node n).pos = (g.node n).pos ∧
    ((scaleGP c g).node n).virt = (g.node n).virt := by
  rw [scaleGP_node]
  simp only [scaleG, G.node, Array.getD_eq_getD_getElem?, Array.getElem?_map]
  cases g.nodes[n]? with
  | none => simp [default, instInhabitedNode.default]
  | some nd => simp

theorem scaleGP_edge_ends (c : Rat) (g : G) (e : Nat) :
    ((scaleGP c g).edge e).src = (g.edge e).src ∧ ((scaleGP c g).edge e).dst = (g.edge e).dst ∧
    ((scaleGP c g).edge e).rev = (g.edge e).rev := by
  rw [scaleGP_edge]; exact ⟨rfl, rfl, rfl⟩

theorem scaleGP_edgeType (c : Rat) (g : G) (e : Nat) : edgeType (scaleGP c g) e = edgeType g e := by
  simp only [edgeType, (scaleGP_edge_ends c g e).1, (scaleGP_edge_ends c g e).2.1, (scaleGP_node_top c g _).2.2.2.2]

theorem scaleGP_orderedNodes (c : Rat) (g : G) (e : Nat) : orderedNodes (scaleGP c g) e = orderedNodes g e := by
  simp only [orderedNodes, G.layerOf, (scaleGP_edge_ends c g e).1, (scaleGP_edge_ends c g e).2.1,
    (scaleGP_node_top c g _).2.2.1, (scaleGP_node_top c g _).2.2.2.1]
  rfl

/-- a node update that touches no size or coordinate commutes with the scaling -/
theorem scaleGP_modNode (c : Rat) (g : G) (n : Nat) (f : Node → Node)
    (hf : ∀ nd : Node, f { nd with x := c * nd.x, y := c * nd.y, w := c * nd.w, h := c * nd.h } =
      { f nd with x := c * (f nd).x, y := c * (f nd).y, w := c * (f nd).w, h := c * (f nd).h }) :
    (scaleGP c g).modNode n f = scaleGP c (g.modNode n f) := by
  simp only [G.modNode, scaleGP, scaleG]
  congr 1
  apply array_map_modify
  exact hf

/-- an edge update that touches no route point commutes with the scaling -/
theorem scaleGP_modEdge (c : Rat) (g : G) (e : Nat) (f : Edge → Edge)
    (hf : ∀ ed : Edge, f { ed with pts := ed.pts.map (scalePt c) } = { f ed with pts := (f ed).pts.map (scalePt c) }) :
    (scaleGP c g).modEdge e f = scaleGP c (g.modEdge e f) := by
  simp only [G.modEdge, scaleGP, scaleG]
  congr 1
  apply array_map_modify
  exact hf

/-- the merge state with its graph scaled -/
def scaleMS (c : Rat) (s : MergeSt) : MergeSt := { s with g := scaleGP c s.g }

theorem reduceForward_scale (c : Rat) : ∀ (fuel : Nat) (s : MergeSt) (e : Nat) (ns : List Nat),
    reduceForward fuel (scaleMS c s) e ns = (reduceForward fuel s e ns).map fun r => (scaleMS c r.1, r.2)
  | 0, _, _, _ => rfl
  | fuel + 1, s, e, ns => by
    unfold reduceForward
    simp only [scaleMS, (scaleGP_edge_ends c s.g _).2.1, (scaleGP_node_top c s.g _).2.2.2.2, (scaleGP_node_top c s.g _).2.1,
      (scaleGP_edge_ends c s.g _).1, scaleGP_orderedNodes]
    split
    · split
      · rename_i f hf
        have h1 := scaleGP_modNode c s.g (s.g.edge f).dst (fun n => { n with ins := G.removeE n.ins f }) (fun _ => rfl)
        rw [h1]
        have h2 := scaleGP_modNode c (s.g.modNode (s.g.edge f).dst fun n => { n with ins := G.removeE n.ins f })
          (s.g.edge f).dst (fun n => { n with ins := n.ins ++ [e] }) (fun _ => rfl)
        rw [h2]
        have h3 := scaleGP_modEdge c ((s.g.modNode (s.g.edge f).dst fun n => { n with ins := G.removeE n.ins f }).modNode
          (s.g.edge f).dst (fun n => { n with ins := n.ins ++ [e] })) e (fun ed => { ed with dst := (s.g.edge f).dst }) (fun _ => rfl)
        rw [h3]
        exact reduceForward_scale c fuel
          ⟨_, (GoRangeRemove.physRemove s.arr s.len f).1, (GoRangeRemove.physRemove s.arr s.len f).2⟩ e _
      · rfl
    · have h3 := scaleGP_modEdge c s.g e (fun ed => { ed with ahs := ed.rev }) (fun _ => rfl)
      simp only [h3, pure, Except.pure, Except.map]

theorem mergeStep_scale (c : Rat) (acc : MergeSt × List (Nat × List Nat)) (k : Nat) :
    mergeStep (scaleMS c acc.1, acc.2) k = (mergeStep acc k).map fun r => (scaleMS c r.1, r.2) := by
  unfold mergeStep
  simp only [scaleMS, scaleGP_edgeType, scaleGP_orderedNodes, (scaleGP_edge_ends c acc.1.g _).1,
    (scaleGP_node_top c acc.1.g _).2.2.2.2, scaleGP_nsize]
  split
  · have h3 := scaleGP_modEdge c acc.1.g (acc.1.arr.getD k 0) (fun ed => { ed with ahs := ed.rev }) (fun _ => rfl)
    simp only [h3, pure, Except.pure, Except.map]
  · split
    · have := reduceForward_scale c (acc.1.g.nodes.size + 2) acc.1 (acc.1.arr.getD k 0) [(acc.1.g.edge (acc.1.arr.getD k 0)).src]
      simp only [scaleMS] at this
      simp only [bind, Except.bind, this]
      cases reduceForward (acc.1.g.nodes.size + 2) acc.1 (acc.1.arr.getD k 0) [(acc.1.g.edge (acc.1.arr.getD k 0)).src] with
      | error e => rfl
      | ok r => rfl
    · rfl
  · rfl

theorem foldlM_mergeStep_scale (c : Rat) : ∀ (l : List Nat) (acc : MergeSt × List (Nat × List Nat)),
    l.foldlM mergeStep (scaleMS c acc.1, acc.2) = (l.foldlM mergeStep acc).map fun r => (scaleMS c r.1, r.2)
  | [], _ => rfl
  | k :: l, acc => by
    simp only [List.foldlM_cons, bind, Except.bind, mergeStep_scale]
    cases mergeStep acc k with
    | error e => rfl
    | ok r => exact foldlM_mergeStep_scale c l r

/-- `mergeLongEdges` on the scaled state gives the scaled state and the same routes -/
theorem mergeLongEdges_scale (c : Rat) (g : G) :
    mergeLongEdges (scaleGP c g) = (mergeLongEdges g).map fun r => (scaleGP c r.1, r.2) := by
  unfold mergeLongEdges
  have h := foldlM_mergeStep_scale c (List.range g.elist.length) ({ g := g, arr := g.elist, len := g.elist.length }, [])
  simp only [scaleMS] at h
  have he : (scaleGP c g).elist = g.elist := rfl
  simp only [he, bind, Except.bind, h]
  cases List.foldlM mergeStep ({ g := g, arr := g.elist, len := g.elist.length }, []) (List.range g.elist.length) with
  | error e => rfl
  | ok r => rfl

/-- **C17, phase 5 as a whole** (merging the long edges, then the Straight, Polyline or Orthogonal router, or none): on the state with
    every size, coordinate and LayerSpacing multiplied by c > 0 it returns the scaled result, with the same failures -/
theorem C17_phase5_scale (c ls : Rat) (hc : 0 < c) (alg : Nat) (g : G) :
    phase5 alg (c * ls) (scaleGP c g) = (phase5 alg ls g).map (scaleGP c) := by
  unfold phase5
  simp only [scaleGP_nsize]
  split
  · rfl
  · simp only [bind, Except.bind, mergeLongEdges_scale]
    cases mergeLongEdges g with
    | error e => rfl
    | ok r =>
      obtain ⟨g', routes⟩ := r
      simp only [Except.map]
      split
      · rfl
      · exact C17_routeStraight_scale c g' routes
      · exact C17_routePolyline_scale c g' routes
      · exact C17_routeOrtho_scale c ls hc g' routes
      · rfl


/-! ### phase 4 as a whole, on graph states: SinkColoring, VAlign and PackRight followed by the Y assignment -/

/-- a placement plan with every value multiplied by c -/
def scalePlan (c : Rat) (pl : List (List Nat × List Rat)) : List (List Nat × List Rat) :=
  pl.map fun p => (p.1, p.2.map (c * ·))

def scaleLayer (c : Rat) (l : Layer) : Layer := { l with w := c * l.w, h := c * l.h }

theorem scaleG_layers_list (c : Rat) (g : G) : (scaleG c g).layers.toList = g.layers.toList.map (scaleLayer c) := by
  simp [scaleG, scaleLayer]

theorem scaleG_modNode_upd (c : Rat) (upd : Node → Rat → Node)
    (hupd : ∀ (nd : Node) (x : Rat), upd { nd with x := c * nd.x, y := c * nd.y, w := c * nd.w, h := c * nd.h } (c * x) =
      { upd nd x with x := c * (upd nd x).x, y := c * (upd nd x).y, w := c * (upd nd x).w, h := c * (upd nd x).h })
    (g : G) (n : Nat) (x : Rat) :
    (scaleG c g).modNode n (fun nd => upd nd (c * x)) = scaleG c (g.modNode n fun nd => upd nd x) := by
  simp only [G.modNode, scaleG]
  congr 1
  apply array_map_modify
  intro nd; exact hupd nd x

theorem setCoord_scale (c : Rat) (upd : Node → Rat → Node)
    (hupd : ∀ (nd : Node) (x : Rat), upd { nd with x := c * nd.x, y := c * nd.y, w := c * nd.w, h := c * nd.h } (c * x) =
      { upd nd x with x := c * (upd nd x).x, y := c * (upd nd x).y, w := c * (upd nd x).w, h := c * (upd nd x).h }) :
    ∀ (ns : List Nat) (xs : List Rat) (g : G),
    setCoord upd (scaleG c g) ns (xs.map (c * ·)) = scaleG c (setCoord upd g ns xs)
  | [], _, _ => rfl
  | _ :: _, [], _ => rfl
  | n :: ns, x :: xs, g => by
    have ih := setCoord_scale c upd hupd ns xs (g.modNode n fun nd => upd nd x)
    simp only [setCoord, List.map_cons, List.zip_cons_cons, List.foldl_cons] at ih ⊢
    rw [scaleG_modNode_upd c upd hupd]
    exact ih

theorem placeAllWith_scale (c : Rat) (upd : Node → Rat → Node)
    (hupd : ∀ (nd : Node) (x : Rat), upd { nd with x := c * nd.x, y := c * nd.y, w := c * nd.w, h := c * nd.h } (c * x) =
      { upd nd x with x := c * (upd nd x).x, y := c * (upd nd x).y, w := c * (upd nd x).w, h := c * (upd nd x).h }) :
    ∀ (pl : List (List Nat × List Rat)) (g : G),
    placeAllWith upd (scaleG c g) (scalePlan c pl) = scaleG c (placeAllWith upd g pl)
  | [], _ => rfl
  | p :: pl, g => by
    simp only [placeAllWith, scalePlan, List.map_cons, List.foldl_cons]
    rw [setCoord_scale c upd hupd]
    exact placeAllWith_scale c upd hupd pl _

theorem updX_scale (c : Rat) (nd : Node) (x : Rat) :
    updX { nd with x := c * nd.x, y := c * nd.y, w := c * nd.w, h := c * nd.h } (c * x) =
      { updX nd x with x := c * (updX nd x).x, y := c * (updX nd x).y, w := c * (updX nd x).w, h := c * (updX nd x).h } := rfl
theorem updY_scale (c : Rat) (nd : Node) (y : Rat) :
    updY { nd with x := c * nd.x, y := c * nd.y, w := c * nd.w, h := c * nd.h } (c * y) =
      { updY nd y with x := c * (updY nd y).x, y := c * (updY nd y).y, w := c * (updY nd y).w, h := c * (updY nd y).h } := rfl

theorem heightsOf_scaleG (c : Rat) (g : G) (l l' : Layer) (hn : l'.nodes = l.nodes) :
    heightsOf (scaleG c g) l' = (heightsOf g l).map (c * ·) := by
  simp only [heightsOf, hn, List.map_map, Function.comp_def, (scaleG_node c g _).2.2.2.1]

theorem growAllH_scale (c : Rat) (hc : 0 < c) (g : G) : growAllH (scaleG c g) = scaleG c (growAllH g) := by
  have h : (scaleG c g).layers.map (growH (scaleG c g)) = (g.layers.map (growH g)).map (scaleLayer c) := by
    apply Array.ext'
    simp only [Array.toList_map, scaleG_layers_list, List.map_map]
    apply List.map_congr_left
    intro l _
    have hh : heightsOf (scaleG c g) { index := l.index, nodes := l.nodes, w := c * l.w, h := c * l.h } =
        (heightsOf g l).map (c * ·) := heightsOf_scaleG c g l _ rfl
    simp only [Function.comp, growH, scaleLayer, hh, foldl_maxRat_scale c hc]
  simp only [growAllH, h]
  simp only [scaleG, scaleLayer, Array.map_map, Function.comp_def]

/-- the Y assignment commutes with the scaling -/
theorem assignYCoords_scale (c ls : Rat) (g : G) :
    assignYCoords (c * ls) (scaleG c g) = scaleG c (assignYCoords ls g) := by
  unfold assignYCoords
  have hp : assignYPlan (c * ls) (scaleG c g) = scalePlan c (assignYPlan ls g) := by
    simp only [assignYPlan, scalePlan, C17_layerYs_scale, scaleG_layers_list, List.zip_map, List.map_map]
    apply List.map_congr_left
    intro p _
    simp [Function.comp, scaleLayer]
  rw [hp]
  exact placeAllWith_scale c updY (updY_scale c) _ g

/-- SinkColoring writes the scaled coordinates to the scaled state -/
theorem scWrite_scale (c : Rat) (hc : 0 < c) (g : G) (xc : Array Rat) :
    scWrite (scaleG c g) (xc.map (c * ·)) = scaleG c (scWrite g xc) := by
  unfold scWrite
  have hp : scPlan (scaleG c g) (xc.map (c * ·)) = scalePlan c (scPlan g xc) := scPlan_scale c g xc
  rw [hp]
  have := placeAllWith_scale c updX (updX_scale c) (scPlan g xc) g
  simp only [placeAll] at this ⊢
  rw [this, growAllH_scale c hc]

/-- **C17, SinkColoring on graph states** -/
theorem C17_sinkcoloring_scale_state (c ns : Rat) (hc : 0 < c) (g : G) :
    execSinkColoring (c * ns) (scaleG c g) = (execSinkColoring ns g).map fun r => (scaleG c r.1, r.2) := by
  rw [C17_sinkcoloring_exec_scale c ns hc, execSinkColoring_coords]
  cases scCoords ns g with
  | error e => rfl
  | ok r => simp only [Except.map, scWrite_scale c hc]


theorem valignPlan_scale (c ns : Rat) (hc : 0 < c) (g : G) :
    valignPlan (c * ns) (scaleG c g) = scalePlan c (valignPlan ns g) := by
  simp only [valignPlan, scalePlan, scaleG_layers_list, List.map_map, maxLayerW_scale c ns hc]
  apply List.map_congr_left
  intro l _
  have hw : widthsOf (scaleG c g) (scaleLayer c l) = (widthsOf g l).map (c * ·) := widthsOf_scaleG c g l _ rfl
  simp only [Function.comp, hw, valign_scale]
  rfl

theorem valignLayers_scale (c ns : Rat) (hc : 0 < c) (g : G) :
    valignLayers (c * ns) (scaleG c g) = (valignLayers ns g).map (scaleLayer c) := by
  apply Array.ext'
  simp only [valignLayers, Array.toList_map, scaleG_layers_list, List.map_map]
  apply List.map_congr_left
  intro l _
  have hw : widthsOf (scaleG c g) (scaleLayer c l) = (widthsOf g l).map (c * ·) := widthsOf_scaleG c g l _ rfl
  have hh : heightsOf (scaleG c g) (scaleLayer c l) = (heightsOf g l).map (c * ·) := heightsOf_scaleG c g l _ rfl
  have h0 : (0 : Rat) = c * 0 := by grind
  simp only [Function.comp, hw, hh, layerW_scale]
  conv => lhs; rw [h0, foldl_maxRat_scale c hc]
  rfl

/-- **C17, VAlign on graph states** -/
theorem C17_valign_scale_state (c ns : Rat) (hc : 0 < c) (g : G) :
    execVerticalAlign (c * ns) (scaleG c g) = scaleG c (execVerticalAlign ns g) := by
  unfold execVerticalAlign
  rw [valignPlan_scale c ns hc, valignLayers_scale c ns hc]
  have h : ({ scaleG c g with layers := (valignLayers ns g).map (scaleLayer c) } : G) =
      scaleG c { g with layers := valignLayers ns g } := by
    simp only [scaleG]
    rfl
  rw [h]
  exact placeAllWith_scale c updX (updX_scale c) _ _

theorem packRightPlan_scale (c ns : Rat) (hc : 0 < c) (g : G) :
    packRightPlan (c * ns) (scaleG c g) = scalePlan c (packRightPlan ns g) := by
  simp only [packRightPlan, scalePlan, scaleG_layers_list, List.map_map, packLeftBound_scale c ns hc]
  apply List.map_congr_left
  intro l _
  have hr : packRightRaw (c * ns) (scaleG c g) (scaleLayer c l) = (packRightRaw ns g l).map (c * ·) :=
    packRightRaw_scale c ns g l _ rfl
  simp only [Function.comp, hr, List.map_map]
  refine congrArg (Prod.mk _) ?_
  apply List.map_congr_left
  intro x _
  simp only [Function.comp]; grind

/-- **C17, PackRight on graph states** -/
theorem C17_packright_scale_state (c ns : Rat) (hc : 0 < c) (g : G) :
    execPackRight (c * ns) (scaleG c g) = scaleG c (execPackRight ns g) := by
  unfold execPackRight
  rw [packRightPlan_scale c ns hc]
  have := placeAllWith_scale c updX (updX_scale c) (packRightPlan ns g) g
  simp only [placeAll] at this ⊢
  rw [this, growAllH_scale c hc]

theorem scaleG_nsize' (c : Rat) (g : G) : (scaleG c g).nodes.size = g.nodes.size := by simp [scaleG]

theorem phase4Simple_scale (c ns ls : Rat) (hc : 0 < c) (alg : Nat) (g : G) :
    phase4Simple alg (c * ns) (c * ls) (scaleG c g) = (phase4Simple alg ns ls g).map (scaleG c) := by
  unfold phase4Simple
  simp only [scaleG_nsize']
  split
  · simp only [pure, Except.pure, Except.map, Except.ok.injEq]
    have hw := (scaleG_node c g 0).2.2.1
    have hh := (scaleG_node c g 0).2.2.2.1
    simp only [hw, hh]
    simp only [scaleG]
    congr 1
    exact (array_map_modify (scaleLayer c) (fun l => { l with w := c * (g.node 0).w, h := c * (g.node 0).h })
      (fun l => { l with w := (g.node 0).w, h := (g.node 0).h }) (fun _ => rfl) g.layers 0)
  · simp only [bind, Except.bind]
    split
    · simp only [pure, Except.pure, Except.map, C17_valign_scale_state c ns hc, assignYCoords_scale]
    · simp only [pure, Except.pure, Except.map, C17_packright_scale_state c ns hc, assignYCoords_scale]
    · rfl

/-- the options with NodeSpacing, LayerSpacing, the fixed size and every listed size multiplied by c -/
def scaleCfg (c : Rat) (cfg : Cfg) : Cfg :=
  { cfg with ns := c * cfg.ns, ls := c * cfg.ls, fixed := cfg.fixed.map fun p => (c * p.1, c * p.2),
             sizes := cfg.sizes.map fun m => m.map fun p => (p.1, c * p.2.1, c * p.2.2) }

/-- **C17, phase 4 as a whole for SinkColoring, VAlign and PackRight** (positioner, layer heights, Y assignment) -/
theorem C17_phase4_scale (c : Rat) (hc : 0 < c) (cfg : Cfg) (hp : cfg.p4 ≤ 2) (g : G) :
    phase4Model (scaleCfg c cfg) (scaleG c g) = (phase4Model cfg g).map (scaleG c) := by
  unfold phase4Model
  simp only [scaleG_nsize', scaleCfg]
  split
  · exact phase4Simple_scale c cfg.ns cfg.ls hc 1 g
  · match h : cfg.p4, hp with
    | 0, _ =>
      simp only [bind, Except.bind, C17_sinkcoloring_scale_state c cfg.ns hc]
      cases execSinkColoring cfg.ns g with
      | error e => rfl
      | ok r => simp only [Except.map, pure, Except.pure, assignYCoords_scale]
    | 1, _ => exact phase4Simple_scale c cfg.ns cfg.ls hc 1 g
    | 2, _ => exact phase4Simple_scale c cfg.ns cfg.ls hc 2 g

/-- **C17, phases 4 and 5 together**: from the state the ordering phase hands over, positioning (SinkColoring, VAlign or PackRight)
    and routing (Polyline, Straight, Orthogonal or none) on the state with every size multiplied by c > 0, under NodeSpacing and
    LayerSpacing multiplied by c, return exactly the scaled result — every node coordinate, layer size and route point — and
    fail exactly when the original run fails. Phases 1–3 never read a size (fact `sizeReadsPhases123`). -/
theorem C17_phase45_scale (c : Rat) (hc : 0 < c) (cfg : Cfg) (hp : cfg.p4 ≤ 2) (g : G) :
    (phase4Model (scaleCfg c cfg) (scaleG c g) >>= phase5 cfg.p5 (scaleCfg c cfg).ls) =
      (phase4Model cfg g >>= phase5 cfg.p5 cfg.ls).map (scaleG c) := by
  rw [C17_phase4_scale c hc cfg hp]
  cases phase4Model cfg g with
  | error e => rfl
  | ok g4 =>
    simp only [Except.map, bind, Except.bind, scaleCfg]
    exact C17_phase5_scale c cfg.ls hc cfg.p5 g4


/-! ### end to end: the composed model `layoutModelS` (sizes and spacings withheld from phases 0–3; key `T:pipeline-sizes`) -/

theorem lookup_scale (c : Rat) (id : String) : ∀ (m : List (String × Rat × Rat)),
    (m.map fun p => (p.1, c * p.2.1, c * p.2.2)).lookup id = (m.lookup id).map fun s => (c * s.1, c * s.2)
  | [] => rfl
  | (k, w, h) :: m => by
    simp only [List.map_cons, List.lookup_cons]
    cases id == k with
    | true => rfl
    | false => exact lookup_scale c id m

theorem sizeOf_scale (c : Rat) (cfg : Cfg) (id : String) :
    sizeOf (scaleCfg c cfg) id = (c * (sizeOf cfg id).1, c * (sizeOf cfg id).2) := by
  unfold sizeOf scaleCfg
  simp only
  cases hs : cfg.sizes with
  | none =>
    simp only [Option.map_none, Option.bind_none]
    cases cfg.fixed with
    | none => simp only [Option.map_none, Option.getD_none]; congr 1 <;> grind
    | some p => rfl
  | some m =>
    simp only [Option.map_some, Option.bind_some, lookup_scale]
    cases m.lookup id with
    | some s => rfl
    | none =>
      simp only [Option.map_none]
      cases cfg.fixed with
      | none => simp only [Option.map_none, Option.getD_none]; congr 1 <;> grind
      | some p => rfl

theorem sizeFreeCfg_scale (c : Rat) (cfg : Cfg) : sizeFreeCfg (scaleCfg c cfg) = sizeFreeCfg cfg := rfl

theorem attachSizes_scale (c : Rat) (cfg : Cfg) (g : G) :
    attachSizes (scaleCfg c cfg) g = scaleG c (attachSizes cfg g) := by
  have h0 : (0 : Rat) = c * 0 := by grind
  simp only [attachSizes, scaleG, Array.map_map, Function.comp_def, sizeOf_scale, List.map_nil]
  congr 1
  · apply Array.ext'
    simp only [Array.toList_map]
    apply List.map_congr_left
    intro n _
    cases n.virt <;> simp [← h0]
  · apply Array.ext'
    simp only [Array.toList_map]
    apply List.map_congr_left
    intro l _
    simp [← h0]

/-- `Edge.Reverse` commutes with the scaling -/
theorem reverse_scale (c : Rat) (g : G) (e : Nat) : (scaleG c g).reverse e = scaleG c (g.reverse e) := by
  unfold G.reverse
  have hs := (scaleGP_edge_ends c g e).1
  have hd := (scaleGP_edge_ends c g e).2.1
  simp only [scaleGP] at hs hd
  simp only [hs, hd]
  rw [scaleGP_modNode c g _ _ (fun _ => rfl), scaleGP_modNode c _ _ _ (fun _ => rfl), scaleGP_modNode c _ _ _ (fun _ => rfl),
    scaleGP_modNode c _ _ _ (fun _ => rfl), scaleGP_modEdge c _ _ _ (fun _ => rfl)]

theorem foldl_unreverse_scale (c : Rat) : ∀ (l : List Nat) (g : G),
    l.foldl (fun g e => if (g.edge e).rev then g.reverse e else g) (scaleG c g) =
    scaleG c (l.foldl (fun g e => if (g.edge e).rev then g.reverse e else g) g)
  | [], _ => rfl
  | e :: l, g => by
    simp only [List.foldl_cons]
    have hr := (scaleGP_edge_ends c g e).2.2
    simp only [scaleGP] at hr
    rw [hr]
    split
    · rw [reverse_scale]; exact foldl_unreverse_scale c l _
    · exact foldl_unreverse_scale c l g

theorem unreverseEdges_scale (c : Rat) (g : G) : unreverseEdges (scaleG c g) = scaleG c (unreverseEdges g) := by
  unfold unreverseEdges
  exact foldl_unreverse_scale c g.elist g

/-- one iteration of `restoreSelfLoops` -/
def restoreLoopStep (g : G) (v : Nat) : G :=
  let e := g.edges.size
  let g := { g with edges := g.edges.push { src := v, dst := v } }
  let g := g.modNode v fun n => { n with outs := n.outs ++ [e] }
  let g := g.modNode v fun n => { n with ins := n.ins ++ [e] }
  { g with elist := g.elist ++ [e] }

theorem restoreSelfLoops_eq (g : G) (loops : List Nat) : restoreSelfLoops g loops = loops.foldl restoreLoopStep g := rfl

theorem restoreLoopStep_scale (c : Rat) (g : G) (v : Nat) : restoreLoopStep (scaleG c g) v = scaleG c (restoreLoopStep g v) := by
  unfold restoreLoopStep
  have hsz : (scaleG c g).edges.size = g.edges.size := by simp [scaleG]
  have hpush : ({ scaleG c g with edges := (scaleG c g).edges.push { src := v, dst := v } } : G) =
      scaleG c { g with edges := g.edges.push { src := v, dst := v } } := by
    simp only [scaleG, Array.map_push, List.map_nil]
  simp only [hsz]
  rw [hpush, scaleGP_modNode c _ _ _ (fun _ => rfl), scaleGP_modNode c _ _ _ (fun _ => rfl)]
  rfl

theorem restoreSelfLoops_scale (c : Rat) : ∀ (loops : List Nat) (g : G),
    restoreSelfLoops (scaleG c g) loops = scaleG c (restoreSelfLoops g loops)
  | [], _ => rfl
  | v :: loops, g => by
    simp only [restoreSelfLoops_eq, List.foldl_cons, restoreLoopStep_scale]
    have := restoreSelfLoops_scale c loops (restoreLoopStep g v)
    simpa only [restoreSelfLoops_eq] using this

theorem postProcess_scale (c : Rat) (g : G) (loops : List Nat) :
    postProcess (scaleG c g) loops = scaleG c (postProcess g loops) := by
  unfold postProcess
  rw [restoreSelfLoops_scale, unreverseEdges_scale]

theorem rightmostX_scale (c : Rat) (hc : 0 < c) (g : G) : rightmostX (scaleG c g) = c * rightmostX g := by
  unfold rightmostX
  rw [scaleG_layers_list, List.foldl_map]
  have h0 : (0 : Rat) = c * 0 := by grind
  conv => lhs; rw [h0]
  generalize (0 : Rat) = m
  induction g.layers.toList generalizing m with
  | nil => rfl
  | cons l ls ih =>
    simp only [List.foldl_cons, scaleLayer]
    cases l.nodes.getLast? with
    | none => exact ih m
    | some n =>
      simp only [(scaleG_node c g n).1, (scaleG_node c g n).2.2.1]
      have : c * (g.node n).x + c * (g.node n).w = c * ((g.node n).x + (g.node n).w) := by grind
      rw [this, maxRat_scale _ _ _ hc]
      exact ih _

theorem collectComp_scale (c : Rat) (cfg : Cfg) (shift : Rat) (ci : Nat) (g : G) :
    collectComp (scaleCfg c cfg) (c * shift) ci (scaleG c g) = scaleOut c (collectComp cfg shift ci g) := by
  simp only [collectComp, scaleOut, mapOut, List.map_map]
  congr 1
  · have hv : (scaleCfg c cfg).virt = cfg.virt := rfl
    simp only [scaleG, Array.toList_map, List.filter_map, List.map_map, hv]
    apply List.map_congr_left
    intro n _
    simp only [Function.comp]
    congr 1; grind
  · apply List.map_congr_left
    intro e _
    have he := scaleGP_edge c g e
    simp only [scaleGP] at he
    simp only [Function.comp, he, (scaleG_node_top c g _).1]
    have hid : ∀ n, ((scaleG c g).node n).id = (g.node n).id := by
      intro n
      simp only [scaleG, G.node, Array.getD_eq_getD_getElem?, Array.getElem?_map]
      cases g.nodes[n]? with
      | none => simp [default, instInhabitedNode.default]
      | some nd => rfl
    simp only [hid, List.isEmpty_map]
    split
    · rfl
    · simp only [Option.map_some, List.map_map, Function.comp_def, scalePt]
      have hm : (g.edge e).pts.map (fun x => (c * x.fst + c * shift, c * x.snd)) =
          (g.edge e).pts.map (fun x => (c * (x.fst + shift), c * x.snd)) := by
        apply List.map_congr_left
        intro p _
        congr 1; grind
      rw [hm]

theorem collect_scale (c : Rat) (hc : 0 < c) (cfg : Cfg) : ∀ (gs : List G) (shift : Rat) (ci : Nat),
    collect (scaleCfg c cfg) (c * shift) ci (gs.map (scaleG c)) = scaleOut c (collect cfg shift ci gs)
  | [], _, _ => rfl
  | g :: gs, shift, ci => by
    simp only [collect, List.map_cons, collectComp_scale, rightmostX_scale c hc]
    have hns : (scaleCfg c cfg).ns = c * cfg.ns := rfl
    have : c * shift + (c * rightmostX g + (scaleCfg c cfg).ns) = c * (shift + (rightmostX g + cfg.ns)) := by rw [hns]; grind
    rw [this, collect_scale c hc cfg gs]
    simp only [scaleOut, mapOut, List.map_append]

theorem layoutComponentS_scale (c : Rat) (hc : 0 < c) (ord : G → M G) (cfg : Cfg) (hp : cfg.p4 ≤ 2) (comp : G × List Nat) :
    layoutComponentS ord (scaleCfg c cfg) comp = (layoutComponentS ord cfg comp).map (scaleG c) := by
  unfold layoutComponentS
  have hp1 : (scaleCfg c cfg).p1 = cfg.p1 := rfl
  have hp5 : (scaleCfg c cfg).p5 = cfg.p5 := rfl
  simp only [hp1, hp5, sizeFreeCfg_scale, bind, Except.bind]
  cases phase1 cfg.p1 comp.1 with
  | error e => rfl
  | ok g1 =>
    simp only
    cases phase2Model (sizeFreeCfg cfg) g1 with
    | error e => rfl
    | ok g2 =>
      simp only
      cases phase3Model ord g2 with
      | error e => rfl
      | ok g3 =>
        simp only
        have h45 := C17_phase45_scale c hc cfg hp (attachSizes cfg g3)
        simp only [bind, Except.bind, hp5] at h45
        rw [attachSizes_scale, h45]
        cases phase4Model cfg (attachSizes cfg g3) with
        | error e => rfl
        | ok g4 =>
          simp only
          cases phase5 cfg.p5 cfg.ls g4 with
          | error e => rfl
          | ok g5 => simp only [Except.map, pure, Except.pure, postProcess_scale]

theorem mapM_layoutComponentS_scale (c : Rat) (hc : 0 < c) (ord : G → M G) (cfg : Cfg) (hp : cfg.p4 ≤ 2) :
    ∀ (comps : List (G × List Nat)),
    comps.mapM (layoutComponentS ord (scaleCfg c cfg)) = (comps.mapM (layoutComponentS ord cfg)).map (List.map (scaleG c))
  | [] => rfl
  | comp :: comps => by
    simp only [List.mapM_cons, bind, Except.bind, layoutComponentS_scale c hc ord cfg hp, mapM_layoutComponentS_scale c hc ord cfg hp comps]
    cases layoutComponentS ord cfg comp with
    | error e => rfl
    | ok g =>
      cases List.mapM (layoutComponentS ord cfg) comps with
      | error e => rfl
      | ok gs => rfl

/-- **C17 end to end** (SinkColoring, VAlign or PackRight; Polyline, Straight, Orthogonal or no routing; every edge list, both cycle
    breakers, both layerers, every size map and spacing, every c > 0): the composed model `layoutModelS` — compared with the public result
    of the real `Layout` on every traced run as `T:pipeline-sizes` — run with all node sizes, NodeSpacing and LayerSpacing multiplied
    by c returns exactly `scaleOut c` of its result for the original options: every node coordinate and size and every route point
    multiplied by c, nothing else changed; and it fails exactly when the original run fails. `scaleOut` is the relation the driver's C17
    predicate checks on the real outputs. -/
theorem C17_layoutModelS_scale (c : Rat) (hc : 0 < c) (ord : G → M G) (cfg : Cfg) (hp : cfg.p4 ≤ 2) (es : InEdges) :
    layoutModelS ord (scaleCfg c cfg) es = (layoutModelS ord cfg es).map (scaleOut c) := by
  unfold layoutModelS
  simp only [sizeFreeCfg_scale, bind, Except.bind]
  cases preProcess (sizeFreeCfg cfg) es with
  | error e => rfl
  | ok comps =>
    simp only [mapM_layoutComponentS_scale c hc ord cfg hp]
    cases List.mapM (layoutComponentS ord cfg) comps with
    | error e => rfl
    | ok gs =>
      simp only [Except.map, pure, Except.pure]
      have := collect_scale c hc cfg gs 0 0
      rw [show c * (0 : Rat) = 0 by grind] at this
      rw [this]


/-! ### Brandes–Köpf: everything after the four compactions (selection, balancing, writing) commutes with the scaling -/

open BK in
theorem le_scale (a b c : Rat) (hc : 0 < c) : c * a ≤ c * b ↔ a ≤ b := by
  constructor
  · intro h
    apply Classical.byContradiction
    intro hn
    have := (lt_scale b a c hc).2 (Rat.not_le.1 hn)
    exact absurd h (Rat.not_le.2 this)
  · intro h; exact Rat.mul_le_mul_of_nonneg_left h (Rat.le_of_lt hc)

theorem foldl_minRat_fn_scale (c : Rat) (hc : 0 < c) (f : Nat → Rat) : ∀ (l : List Nat) (m : Rat),
    l.foldl (fun m n => minRat m (c * f n)) (c * m) = c * l.foldl (fun m n => minRat m (f n)) m
  | [], _ => rfl
  | n :: l, m => by
    simp only [List.foldl_cons, minRat_scale _ _ _ hc]
    exact foldl_minRat_fn_scale c hc f l _

theorem foldl_maxRat_fn_scale (c : Rat) (hc : 0 < c) (f : Nat → Rat) : ∀ (l : List Nat) (m : Rat),
    l.foldl (fun m n => maxRat m (c * f n)) (c * m) = c * l.foldl (fun m n => maxRat m (f n)) m
  | [], _ => rfl
  | n :: l, m => by
    simp only [List.foldl_cons, maxRat_scale _ _ _ hc]
    exact foldl_maxRat_fn_scale c hc f l _

theorem xcSize_scale (c : Rat) (hc : 0 < c) (g : G) (xc : Array Rat) :
    BK.xcSize (scaleG c g) (xc.map (c * ·)) =
      (c * (BK.xcSize g xc).1, c * (BK.xcSize g xc).2.1, c * (BK.xcSize g xc).2.2) := by
  unfold BK.xcSize
  simp only [G.nodeIds, scaleG_nsize']
  cases List.range g.nodes.size with
  | nil => simp only [Prod.mk.injEq]; refine ⟨?_, ?_, ?_⟩ <;> grind
  | cons n0 rest =>
    simp only [getD_map_scale, scaleG_node_w]
    have hmin := foldl_minRat_fn_scale c hc (fun n => xc.getD n 0) rest (xc.getD n0 0)
    have hmax : rest.foldl (fun m n => maxRat m (c * xc.getD n 0 + c * (g.node n).w)) (c * xc.getD n0 0 + c * (g.node n0).w) =
        c * rest.foldl (fun m n => maxRat m (xc.getD n 0 + (g.node n).w)) (xc.getD n0 0 + (g.node n0).w) := by
      have := foldl_maxRat_fn_scale c hc (fun n => xc.getD n 0 + (g.node n).w) rest (xc.getD n0 0 + (g.node n0).w)
      rw [← this]
      have e0 : c * xc.getD n0 0 + c * (g.node n0).w = c * (xc.getD n0 0 + (g.node n0).w) := by grind
      rw [e0]
      congr 1
      funext m n
      congr 1; grind
    simp only [hmin, hmax, Prod.mk.injEq, and_true]
    grind

/-- the accumulator of `verifyLayout`'s scan, scaled -/
def scaleOO (c : Rat) (a : Option (Option Rat)) : Option (Option Rat) := a.map (·.map (c * ·))

theorem verifyLayout_scale (c : Rat) (hc : 0 < c) (g : G) (xc : Array Rat) (ns : Rat) :
    BK.verifyLayout (scaleG c g) (xc.map (c * ·)) (c * ns) = BK.verifyLayout g xc ns := by
  unfold BK.verifyLayout
  rw [scaleG_layers_list, List.all_map]
  apply List.all_congr rfl
  intro l
  simp only [Function.comp, scaleLayer]
  -- the scan over one layer commutes with the scaling of its accumulator
  have key : ∀ (ns' : List Nat) (acc : Option (Option Rat)),
      ns'.foldl (fun (acc : Option (Option Rat)) n =>
        match acc with
        | none => none
        | some pos =>
          let left := (xc.map (c * ·)).getD n 0
          let right := left + ((scaleG c g).node n).w + c * ns
          let above := fun (x : Rat) => match pos with
            | none => true
            | some p => decide (x > p)
          if above left && above right then some (some right) else none) (scaleOO c acc) =
      scaleOO c (ns'.foldl (fun (acc : Option (Option Rat)) n =>
        match acc with
        | none => none
        | some pos =>
          let left := xc.getD n 0
          let right := left + (g.node n).w + ns
          let above := fun (x : Rat) => match pos with
            | none => true
            | some p => decide (x > p)
          if above left && above right then some (some right) else none) acc) := by
    intro ns'
    induction ns' with
    | nil => intro acc; rfl
    | cons n ns' ih =>
      intro acc
      simp only [List.foldl_cons]
      rw [← ih]
      congr 1
      cases acc with
      | none => rfl
      | some pos =>
        simp only [scaleOO, Option.map_some, getD_map_scale, scaleG_node_w]
        have hr : c * xc.getD n 0 + c * (g.node n).w + c * ns = c * (xc.getD n 0 + (g.node n).w + ns) := by grind
        rw [hr]
        cases pos with
        | none => simp
        | some p =>
          simp only [Option.map_some, gt_iff_lt, lt_scale _ _ _ hc]
          split <;> rfl
  have h := congrArg Option.isSome (key l.nodes (some none))
  refine h.trans ?_
  simp only [scaleOO, Option.isSome_map]
  rfl


/-- the four candidate layouts, scaled -/
def scaleXcs (c : Rat) (xcs : List (Array Rat)) : List (Array Rat) := xcs.map (·.map (c * ·))

theorem getD_scaleXcs (c : Rat) (xcs : List (Array Rat)) (i : Nat) :
    (scaleXcs c xcs).getD i #[] = ((xcs.getD i #[]).map (c * ·)) := by
  simp only [scaleXcs, List.getD_eq_getElem?_getD, List.getElem?_map]
  cases xcs[i]? <;> simp

theorem listGetD_map_scale (c : Rat) (l : List Rat) (i : Nat) : (l.map (c * ·)).getD i 0 = c * l.getD i 0 := by
  simp only [List.getD_eq_getElem?_getD, List.getElem?_map]
  cases l[i]? with
  | none => simp only [Option.map_none, Option.getD_none]; grind
  | some v => rfl

theorem balanceLayouts_scale (c : Rat) (hc : 0 < c) (g : G) (xcs : List (Array Rat)) :
    BK.balanceLayouts (scaleG c g) (scaleXcs c xcs) = (BK.balanceLayouts g xcs).map (c * ·) := by
  unfold BK.balanceLayouts
  -- sizes of the candidates
  have hsz : ∀ i, ((scaleXcs c xcs).map (BK.xcSize (scaleG c g))).getD i (0, 0, 0) =
      (c * ((xcs.map (BK.xcSize g)).getD i (0, 0, 0)).1, c * ((xcs.map (BK.xcSize g)).getD i (0, 0, 0)).2.1,
       c * ((xcs.map (BK.xcSize g)).getD i (0, 0, 0)).2.2) := by
    intro i
    simp only [scaleXcs, List.getD_eq_getElem?_getD, List.getElem?_map, Option.map_map]
    cases xcs[i]? with
    | none => simp only [Option.map_none, Option.getD_none, Prod.mk.injEq]; refine ⟨?_, ?_, ?_⟩ <;> grind
    | some xc => simp only [Option.map_some, Function.comp, Option.getD_some, xcSize_scale c hc]
  simp only [hsz, G.nodeIds, scaleG_nsize', gt_iff_lt, lt_scale _ _ _ hc]
  -- (the narrowest candidate is the same one: its test compares c·width with c·width)
  have hsort : ∀ (l : List Rat), (l.map (c * ·)).mergeSort (fun a b => decide (a ≤ b)) =
      (l.mergeSort (fun a b => decide (a ≤ b))).map (c * ·) := by
    intro l
    symm
    apply List.map_mergeSort
    intro a _ b _
    simp only [le_scale _ _ _ hc]
  -- the median of four values that are c times four other values
  have hgen : ∀ (F F' : Nat → Rat), (∀ i, F' i = c * F i) →
      ((((List.range 4).map F').mergeSort (fun a b => decide (a ≤ b))).getD 1 0 +
        (((List.range 4).map F').mergeSort (fun a b => decide (a ≤ b))).getD 2 0) / 2 =
      c * (((((List.range 4).map F).mergeSort (fun a b => decide (a ≤ b))).getD 1 0 +
        (((List.range 4).map F).mergeSort (fun a b => decide (a ≤ b))).getD 2 0) / 2) := by
    intro F F' hF
    have : (List.range 4).map F' = ((List.range 4).map F).map (c * ·) := by
      rw [List.map_map]; apply List.map_congr_left; intro i _; exact hF i
    rw [this, hsort, listGetD_map_scale, listGetD_map_scale, Rat.div_def, Rat.div_def]
    grind
  apply Array.ext'
  simp only [Array.toList_map, List.map_map]
  apply List.map_congr_left
  intro n _
  simp only [Function.comp]
  apply hgen
  intro i
  simp only [getD_scaleXcs, getD_map_scale]
  split <;> grind


theorem bkFinal_scale (c : Rat) (hc : 0 < c) (forced : Int) (ns : Rat) (g : G) (xcs : List (Array Rat)) :
    BK.bkFinal forced (c * ns) (scaleG c g) (scaleXcs c xcs) = (BK.bkFinal forced ns g xcs).map (c * ·) := by
  unfold BK.bkFinal
  split
  · exact getD_scaleXcs c xcs _
  · simp only [balanceLayouts_scale c hc, verifyLayout_scale c hc]
    split
    · rfl
    · -- the narrowest verified candidate: the scan carries (layout, width), both scaled
      have key : ∀ (l : List (Array Rat)) (acc : Array Rat × Rat),
          (scaleXcs c l).foldl (fun (acc : Array Rat × Rat) xc =>
            if BK.verifyLayout (scaleG c g) xc (c * ns) && (BK.xcSize (scaleG c g) xc).1 < acc.2 then (xc, (BK.xcSize (scaleG c g) xc).1) else acc)
            (acc.1.map (c * ·), c * acc.2) =
          (((l.foldl (fun (acc : Array Rat × Rat) xc =>
            if BK.verifyLayout g xc ns && (BK.xcSize g xc).1 < acc.2 then (xc, (BK.xcSize g xc).1) else acc) acc).1).map (c * ·),
           c * (l.foldl (fun (acc : Array Rat × Rat) xc =>
            if BK.verifyLayout g xc ns && (BK.xcSize g xc).1 < acc.2 then (xc, (BK.xcSize g xc).1) else acc) acc).2) := by
        intro l
        induction l with
        | nil => intro acc; rfl
        | cons xc l ih =>
          intro acc
          simp only [scaleXcs, List.map_cons, List.foldl_cons, verifyLayout_scale c hc, xcSize_scale c hc, lt_scale _ _ _ hc] at ih ⊢
          split
          · exact ih (xc, (BK.xcSize g xc).1)
          · exact ih acc
      have h := key xcs (BK.balanceLayouts g xcs, (BK.xcSize g (BK.balanceLayouts g xcs)).1)
      simp only [xcSize_scale c hc] at h ⊢
      rw [h]

theorem bkPush_scale (c : Rat) (hc : 0 < c) (ns : Rat) (g : G) (p : Nat × Nat) :
    BK.bkPush (c * ns) (scaleG c g) p = scaleG c (BK.bkPush ns g p) := by
  unfold BK.bkPush
  obtain ⟨hx1, _, hw1, _, _, _⟩ := scaleG_node c g p.1
  obtain ⟨hx2, _, _, _, _, _⟩ := scaleG_node c g p.2
  simp only [hx1, hx2, hw1, gt_iff_lt, lt_scale _ _ _ hc]
  have e : c * (g.node p.1).x + c * (g.node p.1).w = c * ((g.node p.1).x + (g.node p.1).w) := by grind
  simp only [e, lt_scale _ _ _ hc]
  split
  · simp only [G.modNode, scaleG]
    congr 1
    apply array_map_modify
    intro nd
    have : c * ((g.node p.1).x + (g.node p.1).w) + c * ns = c * ((g.node p.1).x + (g.node p.1).w + ns) := by grind
    simp only [this]
  · rfl

theorem foldl_bkPush_scale (c : Rat) (hc : 0 < c) (ns : Rat) : ∀ (ps : List (Nat × Nat)) (g : G),
    ps.foldl (BK.bkPush (c * ns)) (scaleG c g) = scaleG c (ps.foldl (BK.bkPush ns) g)
  | [], _ => rfl
  | p :: ps, g => by
    simp only [List.foldl_cons, bkPush_scale c hc]
    exact foldl_bkPush_scale c hc ns ps _

theorem foldl_layers_bkPush_scale (c : Rat) (hc : 0 < c) (ns : Rat) : ∀ (ls : List Layer) (g : G),
    (ls.map (scaleLayer c)).foldl (fun g l => (l.nodes.zip l.nodes.tail).foldl (BK.bkPush (c * ns)) g) (scaleG c g) =
    scaleG c (ls.foldl (fun g l => (l.nodes.zip l.nodes.tail).foldl (BK.bkPush ns) g) g)
  | [], _ => rfl
  | l :: ls, g => by
    simp only [List.map_cons, List.foldl_cons, scaleLayer, foldl_bkPush_scale c hc]
    exact foldl_layers_bkPush_scale c hc ns ls _

theorem bkWrite_scale (c : Rat) (hc : 0 < c) (ns : Rat) (g : G) (final : Array Rat) :
    BK.bkWrite (c * ns) (scaleG c g) (final.map (c * ·)) = scaleG c (BK.bkWrite ns g final) := by
  unfold BK.bkWrite
  have hlay : (scaleG c g).layers.toList.flatMap (·.nodes) = g.layers.toList.flatMap (·.nodes) := by
    rw [List.flatMap_def, scaleG_layers_nodes, ← List.flatMap_def]
  have hxs : ((g.layers.toList.flatMap (·.nodes)).map fun n => (final.map (c * ·)).getD n 0) =
      ((g.layers.toList.flatMap (·.nodes)).map fun n => final.getD n 0).map (c * ·) := by
    simp only [List.map_map, Function.comp_def, getD_map_scale]
  simp only [hlay, hxs]
  have hpl := placeAllWith_scale c updX (updX_scale c)
    [(g.layers.toList.flatMap (·.nodes), (g.layers.toList.flatMap (·.nodes)).map fun n => final.getD n 0)] g
  simp only [scalePlan, List.map_cons, List.map_nil, placeAll] at hpl ⊢
  rw [hpl, growAllH_scale c hc]
  have h0 : (0 : Rat) = c * 0 := by grind
  have hm : (((g.layers.toList.flatMap (·.nodes)).map fun n => final.getD n 0).map (c * ·)).foldl minRat 0 =
      c * (((g.layers.toList.flatMap (·.nodes)).map fun n => final.getD n 0).foldl minRat 0) := by
    have := foldl_minRat_scale c hc ((g.layers.toList.flatMap (·.nodes)).map fun n => final.getD n 0) 0
    rw [← h0] at this; exact this
  rw [hm]
  have hneg : (c * (((g.layers.toList.flatMap (·.nodes)).map fun n => final.getD n 0).foldl minRat 0) < 0) ↔
      ((((g.layers.toList.flatMap (·.nodes)).map fun n => final.getD n 0).foldl minRat 0) < 0) := by
    have := lt_scale (((g.layers.toList.flatMap (·.nodes)).map fun n => final.getD n 0).foldl minRat 0) 0 c hc
    rw [← h0] at this; exact this
  simp only [hneg]
  generalize ((g.layers.toList.flatMap (·.nodes)).map fun n => final.getD n 0).foldl minRat 0 = lm
  generalize growAllH (placeAllWith updX g [(g.layers.toList.flatMap (·.nodes), (g.layers.toList.flatMap (·.nodes)).map fun n => final.getD n 0)]) = g1
  split
  · have hshift : ({ scaleG c g1 with nodes := (scaleG c g1).nodes.map fun nd => { nd with x := nd.x - c * lm } } : G) =
        scaleG c { g1 with nodes := g1.nodes.map fun nd => { nd with x := nd.x - lm } } := by
      simp only [scaleG, Array.map_map]
      congr 1
      apply Array.ext'
      simp only [Array.toList_map]
      apply List.map_congr_left
      intro nd _
      simp only [Function.comp]
      congr 1; grind
    rw [hshift]
    have hl : ({ g1 with nodes := g1.nodes.map fun nd => { nd with x := nd.x - lm } } : G).layers = g1.layers := rfl
    rw [scaleG_layers_list, hl]
    exact foldl_layers_bkPush_scale c hc ns _ _
  · rw [scaleG_layers_list]
    exact foldl_layers_bkPush_scale c hc ns _ _

/-- **C17, Brandes–Köpf after the four compactions**: choosing a candidate (forced, balanced if it verifies, else the narrowest verified one)
    and writing it — coordinates, layer heights, left margin, neighbour pass — commute with the scaling. (The four candidate layouts
    themselves — conflict marking, vertical alignment, horizontal compaction — are compared at 2^k per run, not proved.) -/
theorem C17_bk_finish_scale (c : Rat) (hc : 0 < c) (forced : Int) (ns : Rat) (g : G) (xcs : List (Array Rat)) :
    BK.bkFinish forced (c * ns) (scaleG c g) (scaleXcs c xcs) = scaleG c (BK.bkFinish forced ns g xcs) := by
  unfold BK.bkFinish
  rw [bkFinal_scale c hc, bkWrite_scale c hc]

end Autog
