import Autog.Properties.C16
import Autog.Properties.C03
/-! # C17 — unit independence (scale equivariance)

    For every positive factor c (in particular every power of two) and every graph state with well-formed layer lists:
    scaling all node sizes and NodeSpacing by c scales the x coordinates VAlign assigns by c (`C17_valign_scale`), and
    scaling the layer heights and LayerSpacing by c scales every band's Y by c (`C17_layerYs_scale`); list level:
    `placeFrom_scale`, `layerW_scale`, `valign_scale`, `assignY_scale` for every factor. The theorems are about the model
    functions the keys `T:phase4-valign`, `T:assignY` compare with the real code.
    PARTIAL: PackRight, SinkColoring, Brandes–Köpf and the routers are decided by exact comparison at 2^k (k ∈ −3..6) on
    generated inputs plus the `Numbers` facts (the only float literals in phases 4/5 are 0, 2 and the B&K median constants;
    no size or spacing is read in phases 1–3). -/

namespace Autog
open Phase4Simple

/-- all sizes and coordinates of the nodes, and the layer sizes, multiplied by c -/
def scaleG (c : Rat) (g : G) : G :=
  { g with nodes := g.nodes.map fun n => { n with x := c * n.x, y := c * n.y, w := c * n.w, h := c * n.h },
           layers := g.layers.map fun l => { l with w := c * l.w, h := c * l.h } }

theorem scaleG_node_w (c : Rat) (g : G) (n : Nat) : ((scaleG c g).node n).w = c * (g.node n).w := by
  simp only [scaleG, G.node, Array.getD_eq_getD_getElem?, Array.getElem?_map]
  cases g.nodes[n]? with
  | none => simp [default, instInhabitedNode.default]
  | some nd => simp

theorem widthsOf_scaleG (c : Rat) (g : G) (l : Layer) (l' : Layer) (hn : l'.nodes = l.nodes) :
    widthsOf (scaleG c g) l' = (widthsOf g l).map (c * ·) := by
  simp [widthsOf, hn, scaleG_node_w, List.map_map, Function.comp]

theorem maxRat_scale (a b c : Rat) (hc : 0 < c) : maxRat (c * a) (c * b) = c * maxRat a b := by
  unfold maxRat
  by_cases h : a ≤ b
  · have : c * a ≤ c * b := Rat.mul_le_mul_of_nonneg_left h (Rat.le_of_lt hc)
    simp [h, this]
  · have h' : b < a := Rat.not_le.1 h
    have : ¬ c * a ≤ c * b := by
      intro hle
      have := (lt_scale b a c hc).2 h'
      exact absurd hle (Rat.not_le.2 this)
    simp [h, this]

theorem foldl_maxRat_scale (c : Rat) (hc : 0 < c) : ∀ (l : List Rat) (d : Rat),
    (l.map (c * ·)).foldl maxRat (c * d) = c * l.foldl maxRat d
  | [], _ => rfl
  | x :: l, d => by
    simp only [List.map_cons, List.foldl_cons, maxRat_scale _ _ _ hc]
    exact foldl_maxRat_scale c hc l _

theorem scaleG_layers_nodes (c : Rat) (g : G) :
    (scaleG c g).layers.toList.map (·.nodes) = g.layers.toList.map (·.nodes) := by
  simp [scaleG, List.map_map, Function.comp]

theorem maxLayerW_scale (c ns : Rat) (hc : 0 < c) (g : G) : maxLayerW (c * ns) (scaleG c g) = c * maxLayerW ns g := by
  unfold maxLayerW
  have h0 : (0 : Rat) = c * 0 := by grind
  have hl : ((scaleG c g).layers.toList.map fun l => layerW (c * ns) (widthsOf (scaleG c g) l)) =
      (g.layers.toList.map fun l => layerW ns (widthsOf g l)).map (c * ·) := by
    have hls : (scaleG c g).layers.toList = g.layers.toList.map fun l => { l with w := c * l.w, h := c * l.h } := by
      simp [scaleG]
    rw [hls, List.map_map, List.map_map]
    apply List.map_congr_left
    intro l _
    simp only [Function.comp]
    rw [widthsOf_scaleG c g l { l with w := c * l.w, h := c * l.h } rfl, layerW_scale]
  rw [hl]
  conv => lhs; rw [h0]
  exact foldl_maxRat_scale c hc _ 0

theorem layersWF_scaleG (c : Rat) (g : G) (h : LayersWF g) : LayersWF (scaleG c g) := by
  have hn : (scaleG c g).layers.toList.flatMap (·.nodes) = g.layers.toList.flatMap (·.nodes) := by
    rw [List.flatMap_def, scaleG_layers_nodes, ← List.flatMap_def]
  exact ⟨by rw [hn]; exact h.nodup, fun n hn' => by rw [hn] at hn'; simpa [scaleG] using h.bound n hn'⟩

/-- C17 (VAlign): scaling sizes and spacing by c > 0 scales every x coordinate by c -/
theorem C17_valign_scale (c ns : Rat) (hc : 0 < c) (g : G) (hwf : LayersWF g) (i : Nat) (hi : i < g.layers.toList.length) :
    xsOf (execVerticalAlign (c * ns) (scaleG c g)) ((scaleG c g).layers.toList[i]'(by simpa [scaleG] using hi)) =
      (xsOf (execVerticalAlign ns g) (g.layers.toList[i])).map (c * ·) := by
  have hi' : i < (scaleG c g).layers.toList.length := by simpa [scaleG] using hi
  have hl' : (scaleG c g).layers.toList[i] ∈ (scaleG c g).layers.toList := List.getElem_mem hi'
  have hl : g.layers.toList[i] ∈ g.layers.toList := List.getElem_mem hi
  rw [(C16_valign_coordinates (c * ns) (scaleG c g) (layersWF_scaleG c g hwf) _ hl').1,
      (C16_valign_coordinates ns g hwf _ hl).1]
  have hnodes : ((scaleG c g).layers.toList[i]).nodes = (g.layers.toList[i]).nodes := by
    simp [scaleG]
  rw [widthsOf_scaleG c g (g.layers.toList[i]) _ hnodes, maxLayerW_scale c ns hc, valign_scale]

/-- C17 (bands): scaling layer heights and LayerSpacing by c scales every band's Y by c (any factor) -/
theorem C17_layerYs_scale (c ls : Rat) (g : G) : layerYs (c * ls) (scaleG c g) = (layerYs ls g).map (c * ·) := by
  unfold layerYs
  have : (scaleG c g).layers.toList.map (·.h) = (g.layers.toList.map (·.h)).map (c * ·) := by
    simp [scaleG, List.map_map, Function.comp]
  rw [this]
  have h0 : (0 : Rat) = c * 0 := by grind
  conv => lhs; rw [h0]
  exact assignY_scale c ls 0 _

theorem C17_placeFrom_scale : type_of% @placeFrom_scale := @placeFrom_scale
theorem C17_layerW_scale : type_of% @layerW_scale := @layerW_scale
theorem C17_valign_list_scale : type_of% @valign_scale := @valign_scale
theorem C17_assignY_scale : type_of% @assignY_scale := @assignY_scale

example : xsOf (execVerticalAlign (4 * 5) (scaleG 4 exG)) ((scaleG 4 exG).layers.toList[1]!) = [0, 20, 80] := by decide +kernel

end Autog
