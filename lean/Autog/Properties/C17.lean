import Autog.Lemmas.Phase4Simple
/-! # C17
    Scale equivariance. -/

namespace Autog

theorem C17_placeFrom_scale : type_of% @Phase4Simple.placeFrom_scale := @Phase4Simple.placeFrom_scale

theorem C17_valign_scale : type_of% @Phase4Simple.valign_scale := @Phase4Simple.valign_scale

theorem C17_assignY_scale : type_of% @Phase4Simple.assignY_scale := @Phase4Simple.assignY_scale

end Autog
