import Autog.Properties.C11
import Autog.Lemmas.Listed
import Autog.Lemmas.BreakProper
import Autog.Lemmas.LayeredPipeline
import Autog.Properties.C04
import Autog.Properties.C12
/-! # C01 (continued) — the chain "for every input" through the cutting of long edges, for the LongestPath layerer

    `Properties/C01.lean` proves that for every non-empty edge list pre-processing, phase 1 and (with the LongestPath layerer)
    phase 2 return. This file carries the chain one phase further: the state phase 2 hands to `breakLongEdges` satisfies, as a
    THEOREM, the contract `BreakWF` under which the index loop over the growing edge list is proved to end
    (`C01_breakLongEdges_total`): listed edges lie in the stores (adjacency consistency `AdjL`), none points upwards (every
    listed edge is an out-edge of its source — the converse half of adjacency consistency, `Listed`, Lemmas/Listed.lean — and
    LongestPath sends every out-edge that is not a self-loop at least one layer down, `C11_longestpath_feasible`), and no edge
    is longer than the layer list. The decidable form `K:breakWF` stays evaluated on the traced state of the real code
    (network simplex layerer included). -/

namespace Autog
open G

/-! ### adjacency consistency in both directions survives phase 1 -/

theorem adjLL_foldl_cond_reverse (p : G → Nat → Prop) [∀ g e, Decidable (p g e)] : ∀ (l : List Nat) (g : G), AdjLL g →
    (∀ e ∈ l, e ∈ g.elist) → AdjLL (l.foldl (fun g e => if p g e then g.reverse e else g) g)
  | [], g, h, _ => h
  | e :: l, g, h, hb => by
    simp only [List.foldl_cons]
    split
    · exact adjLL_foldl_cond_reverse p l _ (adjLL_reverse g h e (hb e (List.mem_cons_self ..)))
        (fun x hx => by rw [G.reverse_elist]; exact hb x (List.mem_cons_of_mem _ hx))
    · exact adjLL_foldl_cond_reverse p l g h (fun x hx => hb x (List.mem_cons_of_mem _ hx))

theorem adjLL_execGreedy (g g' : G) (hA : AdjLL g) (h : execGreedy g = .ok g') : AdjLL g' := by
  unfold execGreedy at h
  simp only [bind, Except.bind, pure, Except.pure] at h
  split at h
  · cases h
  · split at h
    · cases h
    · simp only [Except.ok.injEq] at h
      subst h
      exact adjLL_foldl_cond_reverse _ g.elist g hA (fun _ hx => hx)

theorem adjLL_execDepthFirst (g g' : G) (hA : AdjLL g) (h : execDepthFirst g = .ok g') : AdjLL g' := by
  unfold execDepthFirst at h
  cases hm : dfsMarked g with
  | error e => simp [hm, bind, Except.bind] at h
  | ok marked =>
    simp only [hm, bind, Except.bind, pure, Except.pure, Except.ok.injEq] at h
    subst h
    apply adjLL_foldl_reverse marked g hA
    intro e he
    obtain ⟨u, v, _, hmem, _, _⟩ := C14_dfs_minimal g _ hA.adj.toAdj.uniq marked hm e he
    unfold outE at hmem
    obtain ⟨e', he', heq⟩ := List.mem_map.1 hmem
    have : e' = e := by simpa using congrArg Prod.fst heq
    subst this
    exact hA.adj.inEl u e' (List.mem_append.2 (Or.inr he'))

theorem adjLL_phase1 (alg : Nat) (g g' : G) (hA : AdjLL g) (h : phase1 alg g = .ok g') : AdjLL g' := by
  unfold phase1 at h
  simp only [bind, Except.bind, pure, Except.pure] at h
  split at h
  · simp only [Except.ok.injEq] at h; subst h; exact hA
  · have h2 := adjLL_removeTwoNodeCycles g hA
    cases hc : hasCycles (removeTwoNodeCycles g) with
    | error e => rw [hc] at h; cases h
    | ok b =>
      rw [hc] at h
      simp only at h
      cases b with
      | false => simp only [Bool.not_false, if_true, Except.ok.injEq] at h; subst h; exact h2
      | true =>
        simp only [Bool.not_true, Bool.false_eq_true, if_false] at h
        cases hb : breakCycles alg (removeTwoNodeCycles g) with
        | error e => rw [hb] at h; cases h
        | ok g2 =>
          rw [hb] at h
          simp only at h
          have hg2 : AdjLL g2 := by
            unfold breakCycles at hb
            split at hb
            · exact adjLL_execGreedy _ _ h2 hb
            · exact adjLL_execDepthFirst _ _ h2 hb
          cases hc2 : hasCycles g2 with
          | error e => rw [hc2] at h; cases h
          | ok b2 =>
            rw [hc2] at h
            cases b2 with
            | true => simp [throw, throwThe, MonadExceptOf.throw] at h
            | false =>
              simp only [Bool.false_eq_true, if_false, Except.ok.injEq] at h
              subst h
              exact hg2

/-- C01/C02: for EVERY edge list and option set, every component handed to phase 2 is adjacency consistent in both directions:
    its edge list and its In/Out lists describe the same graph -/
theorem C01_adjacency_both_ways_any_input (cfg : Cfg) (es : InEdges) (cs : List (G × List Nat)) (h : preProcess cfg es = .ok cs) :
    ∀ c ∈ cs, ∀ alg g1, phase1 alg c.1 = .ok g1 → AdjLL g1 :=
  fun c hc alg g1 h1 => adjLL_phase1 alg c.1 g1 (adjLL_preProcess cfg es cs h c hc) h1

/-! ### what LongestPath and the layer-list construction leave untouched -/

theorem execLongestPath_frame (g g' : G) (h : execLongestPath g = .ok g') :
    g'.edges = g.edges ∧ g'.elist = g.elist ∧ g'.nodes.size = g.nodes.size ∧
    ∀ n, (g'.node n).outs = (g.node n).outs ∧ (g'.node n).ins = (g.node n).ins := by
  unfold execLongestPath at h
  simp only [bind, Except.bind] at h
  cases hm : heights g with
  | error e => rw [hm] at h; cases h
  | ok memo =>
    rw [hm] at h
    simp only [pure, Except.pure, Except.ok.injEq] at h
    subst h
    refine ⟨rfl, rfl, by simp, fun n => ?_⟩
    simp only [G.node, Array.getD_eq_getD_getElem?, Array.getElem?_mapIdx]
    cases g.nodes[n]? <;> simp

theorem buildLayers_frame (g g' : G) (h : buildLayers g = .ok g') :
    g'.nodes = g.nodes ∧ g'.edges = g.edges ∧ g'.elist = g.elist ∧
    g'.layers.size = (g.nodeIds.foldl (fun m n => max m (g.layerOf n)) 0 + 1).toNat := by
  unfold buildLayers at h
  simp only [bind, Except.bind, pure, Except.pure] at h
  split at h
  · cases h
  · simp only [Except.ok.injEq] at h
    subst h
    exact ⟨rfl, rfl, rfl, by simp⟩

theorem foldl_maxInt_ge (f : Nat → Int) : ∀ (l : List Nat) (m : Int), m ≤ l.foldl (fun m n => max m (f n)) m
  | [], _ => Int.le_refl _
  | a :: l, m => by
    simp only [List.foldl_cons]
    exact Int.le_trans (Int.le_max_left _ _) (foldl_maxInt_ge f l _)

theorem le_foldl_maxInt (f : Nat → Int) : ∀ (l : List Nat) (m : Int) (x : Nat), x ∈ l → f x ≤ l.foldl (fun m n => max m (f n)) m
  | a :: l, m, x, h => by
    rcases List.mem_cons.1 h with rfl | h
    · exact Int.le_trans (Int.le_max_right _ _) (foldl_maxInt_ge f l _)
    · exact le_foldl_maxInt f l _ x h

/-- the state the LongestPath layerer and the layer-list construction hand to `breakLongEdges` satisfies the contract of the
    termination proof -/
theorem breakWF_after_longestpath (g1 gl g2 : G) (hA : AdjLL g1) (hac : hasCycles g1 = .ok false)
    (hl : execLongestPath g1 = .ok gl) (hb : buildLayers gl = .ok g2) :
    BreakWF g2 ∧ (∀ e ∈ g2.elist, (g2.layerOf (g2.edge e).dst - g2.layerOf (g2.edge e).src).toNat ≤ g2.layers.size + 2) ∧
      DownNL g2 ∧ (∀ e ∈ g2.elist, 0 ≤ g2.layerOf (g2.edge e).src ∧ g2.layerOf (g2.edge e).dst < (g2.layers.size : Int)) := by
  obtain ⟨hE, hL, hN, hio⟩ := execLongestPath_frame g1 gl hl
  obtain ⟨bN, bE, bL, bS⟩ := buildLayers_frame gl g2 hb
  have hedge : ∀ e, g2.edge e = g1.edge e := by intro e; simp only [G.edge, bE, hE]
  have hlay : ∀ n, g2.layerOf n = gl.layerOf n := by intro n; simp only [G.layerOf, G.node, bN]
  have hel : g2.elist = g1.elist := by rw [bL, hL]
  have hes : g2.edges.size = g1.edges.size := by rw [bE, hE]
  have hns : g2.nodes.size = g1.nodes.size := by rw [bN, hN]
  obtain ⟨rank, hR⟩ := rank_of_acyclic g1 hA.adj hac
  have hnonneg := C01_longestpath_layers_nonneg g1 gl hl
  -- every listed edge that is not a self-loop goes at least one layer down
  have hdown : ∀ e ∈ g1.elist, (g1.edge e).dst ≠ (g1.edge e).src →
      gl.layerOf (g1.edge e).src + 1 ≤ gl.layerOf (g1.edge e).dst := by
    intro e he hne
    have hends := hA.adj.ends e (hA.adj.el e he)
    refine C11_longestpath_feasible g1 gl rank hR ?_ ?_ hl _ _ (by simpa [G.nodeIds] using hends.1) ?_ hne
    · intro x hx
      have hx' : ¬ x < g1.nodes.size := by simpa [G.nodeIds] using hx
      simp only [outNbrs, (node_default_lists g1 x hx').2, List.map_nil]
    · intro x _ y hy
      unfold outNbrs at hy
      obtain ⟨e', he', rfl⟩ := List.mem_map.1 hy
      have := (hA.adj.toAdj.ends e' (hA.adj.toAdj.outs x e' he').1).2
      simpa [G.nodeIds] using this
    · unfold outNbrs
      exact List.mem_map.2 ⟨e, (hA.listed e he).1, rfl⟩
  refine ⟨⟨?_, ?_, ?_⟩, ?_, ?_, ?_⟩
  · intro e he; rw [hes]; exact hA.adj.el e (hel ▸ he)
  · intro e he; rw [hedge, hns]; exact hA.adj.ends e (hA.adj.el e (hel ▸ he))
  · intro e he
    rw [hedge, hlay, hlay]
    by_cases hne : (g1.edge e).dst = (g1.edge e).src
    · rw [hne]; omega
    · have := hdown e (hel ▸ he) hne
      omega
  · intro e he
    rw [hedge, hlay, hlay, bS]
    have hends := hA.adj.ends e (hA.adj.el e (hel ▸ he))
    have h1 : gl.layerOf (g1.edge e).dst ≤ gl.nodeIds.foldl (fun m n => max m (gl.layerOf n)) 0 :=
      le_foldl_maxInt gl.layerOf gl.nodeIds 0 _ (by simp only [G.nodeIds, List.mem_range, hN]; exact hends.2)
    have h2 := hnonneg (g1.edge e).src (by simp only [G.nodeIds, List.mem_range, hN]; exact hends.1)
    omega
  · intro e he hne
    rw [hedge] at hne ⊢
    rw [hlay, hlay]
    exact hdown e (hel ▸ he) (fun h => hne h.symm)
  · intro e he
    rw [hedge, hlay, hlay, bS]
    have hends := hA.adj.ends e (hA.adj.el e (hel ▸ he))
    have h1 : gl.layerOf (g1.edge e).dst ≤ gl.nodeIds.foldl (fun m n => max m (gl.layerOf n)) 0 :=
      le_foldl_maxInt gl.layerOf gl.nodeIds 0 _ (by simp only [G.nodeIds, List.mem_range, hN]; exact hends.2)
    have h2 := hnonneg (g1.edge e).src (by simp only [G.nodeIds, List.mem_range, hN]; exact hends.1)
    have h0 : (0 : Int) ≤ gl.nodeIds.foldl (fun m n => max m (gl.layerOf n)) 0 := foldl_maxInt_ge gl.layerOf gl.nodeIds 0
    refine ⟨h2, ?_⟩
    omega

/-- **C01, for every input, through the cutting of long edges (LongestPath layerer)**: for every non-empty edge list, every
    option set with the LongestPath layerer, every component of more than one node and either cycle breaker, whatever phase 1
    returns, phase 2 returns and `breakLongEdges` returns on what phase 2 returned — nothing assumed -/
theorem C01_longestpath_upto_break_any_input (cfg : Cfg) (es : InEdges) (hne : es ≠ []) (hp2 : cfg.p2 = 1) :
    ∃ cs, preProcess cfg es = .ok cs ∧ ∀ c ∈ cs, 2 ≤ c.1.nodes.size →
      ∀ alg g1, phase1 alg c.1 = .ok g1 → ∃ g2, phase2Model cfg g1 = .ok g2 ∧ ∃ g3, breakLongEdges g2 = .ok g3 := by
  obtain ⟨cs, hcs⟩ := preProcess_total cfg es hne
  refine ⟨cs, hcs, fun c hc hn2 alg g1 h1 => ?_⟩
  have hn : (c.1.nodes.size == 1) = false := by simp; omega
  have hA := adjLL_phase1 alg c.1 g1 (adjLL_preProcess cfg es cs hcs c hc) h1
  have hac := phase1_ok_acyclic alg c.1 g1 hn h1
  have hsz : (g1.nodes.size == 1) = false := by
    have := (statEq_phase1 alg c.1 g1 h1).1
    simp; omega
  obtain ⟨g2, hg2⟩ := longestPath_total_of_acyclic g1 hA.adj hac
  have hp : phase2Model cfg g1 = .ok g2 := by
    unfold phase2Model
    simp only [hsz, Bool.false_eq_true, if_false, hp2, beq_self_eq_true, if_true]
    exact hg2
  refine ⟨g2, hp, ?_⟩
  simp only [bind, Except.bind] at hg2
  cases hl : execLongestPath g1 with
  | error e => rw [hl] at hg2; cases hg2
  | ok gl =>
    rw [hl] at hg2
    obtain ⟨hwf, hspan, _, _⟩ := breakWF_after_longestpath g1 gl g2 hA hac hl hg2
    exact breakLongEdges_total g2 hwf hspan

/-- C03 for the LongestPath layerer on every input, in terms of the edge LIST: every listed edge that is not a self-loop points
    at least one layer down in the state phase 2 returns -/
theorem C03_longestpath_listed_edges_down_any_input (cfg : Cfg) (es : InEdges) (hne : es ≠ []) :
    ∃ cs, preProcess cfg es = .ok cs ∧ ∀ c ∈ cs, 2 ≤ c.1.nodes.size → ∀ alg g1, phase1 alg c.1 = .ok g1 →
      ∀ gl, execLongestPath g1 = .ok gl → ∀ e ∈ gl.elist, (gl.edge e).dst ≠ (gl.edge e).src →
        gl.layerOf (gl.edge e).src + 1 ≤ gl.layerOf (gl.edge e).dst := by
  obtain ⟨cs, hcs⟩ := preProcess_total cfg es hne
  refine ⟨cs, hcs, fun c hc hn2 alg g1 h1 gl hl e he hne' => ?_⟩
  have hn : (c.1.nodes.size == 1) = false := by simp; omega
  have hA := adjLL_phase1 alg c.1 g1 (adjLL_preProcess cfg es cs hcs c hc) h1
  have hac := phase1_ok_acyclic alg c.1 g1 hn h1
  obtain ⟨hE, hL, hN, _⟩ := execLongestPath_frame g1 gl hl
  have hedge : ∀ e, gl.edge e = g1.edge e := by intro e; simp only [G.edge, hE]
  rw [hL] at he
  rw [hedge] at hne' ⊢
  obtain ⟨rank, hR⟩ := rank_of_acyclic g1 hA.adj hac
  have hends := hA.adj.ends e (hA.adj.el e he)
  refine C11_longestpath_feasible g1 gl rank hR ?_ ?_ hl _ _ (by simpa [G.nodeIds] using hends.1) ?_ hne'
  · intro x hx
    have hx' : ¬ x < g1.nodes.size := by simpa [G.nodeIds] using hx
    simp only [outNbrs, (node_default_lists g1 x hx').2, List.map_nil]
  · intro x _ y hy
    unfold outNbrs at hy
    obtain ⟨e', he', rfl⟩ := List.mem_map.1 hy
    have := (hA.adj.toAdj.ends e' (hA.adj.toAdj.outs x e' he').1).2
    simpa [G.nodeIds] using this
  · unfold outNbrs
    exact List.mem_map.2 ⟨e, (hA.listed e he).1, rfl⟩

/-- **C03 / the precondition "proper" of the ordering phase, for every input (LongestPath layerer)**: what `breakLongEdges` returns
    on the state phase 2 handed over is a PROPER layering — every listed edge that is not a self-loop joins two consecutive
    layers, pointing down — for every non-empty edge list, every option set with the LongestPath layerer, either breaker -/
theorem C03_longestpath_proper_after_break_any_input (cfg : Cfg) (es : InEdges) (hne : es ≠ []) (hp2 : cfg.p2 = 1) :
    ∃ cs, preProcess cfg es = .ok cs ∧ ∀ c ∈ cs, 2 ≤ c.1.nodes.size → ∀ alg g1, phase1 alg c.1 = .ok g1 →
      ∃ g2 g3, phase2Model cfg g1 = .ok g2 ∧ breakLongEdges g2 = .ok g3 ∧ Proper g3 := by
  obtain ⟨cs, hcs⟩ := preProcess_total cfg es hne
  refine ⟨cs, hcs, fun c hc hn2 alg g1 h1 => ?_⟩
  have hn : (c.1.nodes.size == 1) = false := by simp; omega
  have hA := adjLL_phase1 alg c.1 g1 (adjLL_preProcess cfg es cs hcs c hc) h1
  have hac := phase1_ok_acyclic alg c.1 g1 hn h1
  have hsz : (g1.nodes.size == 1) = false := by
    have := (statEq_phase1 alg c.1 g1 h1).1
    simp; omega
  obtain ⟨g2, hg2⟩ := longestPath_total_of_acyclic g1 hA.adj hac
  have hp : phase2Model cfg g1 = .ok g2 := by
    unfold phase2Model
    simp only [hsz, Bool.false_eq_true, if_false, hp2, beq_self_eq_true, if_true]
    exact hg2
  simp only [bind, Except.bind] at hg2
  cases hl : execLongestPath g1 with
  | error e => rw [hl] at hg2; cases hg2
  | ok gl =>
    rw [hl] at hg2
    obtain ⟨hwf, hspan, hdn, _⟩ := breakWF_after_longestpath g1 gl g2 hA hac hl hg2
    obtain ⟨g3, hg3⟩ := breakLongEdges_total g2 hwf hspan
    exact ⟨g2, g3, hp, hg3, (breakLongEdges_proper g2 g3 hwf hdn hg3).2⟩

/-- the ordering projection keeps edges, edge list and the layer of every node: a proper layering stays proper -/
theorem proper_orderWMedianP (k : Nat) (g r : G) (x : Nat) (h : orderWMedianP k g = .ok (r, x)) (hp : Proper g) : Proper r := by
  unfold orderWMedianP at h
  simp only [bind, Except.bind] at h
  cases ho : orderWMedian k g with
  | error e => rw [ho] at h; cases h
  | ok p =>
    obtain ⟨g', x'⟩ := p
    rw [ho] at h
    simp only at h
    split at h
    · cases h
    · split at h
      · cases h
      · simp only [pure, Except.pure, Except.ok.injEq, Prod.mk.injEq] at h
        obtain ⟨rfl, _⟩ := h
        intro e he hne
        have hl : ∀ n, G.layerOf { g with nodes := g.nodes.mapIdx fun i nd => { nd with pos := (g'.node i).pos }, layers := g'.layers } n
            = g.layerOf n := by
          intro n
          simp only [G.layerOf, G.node, Array.getD_eq_getD_getElem?, Array.getElem?_mapIdx]
          cases g.nodes[n]? <;> simp
        rw [hl, hl]
        exact hp e he hne

/-- **"layered → proper & ordered", for every input (LongestPath layerer)**: whatever the ordering phase of the composed model
    returns is a PROPER layering (every listed edge that is not a self-loop joins two consecutive layers, pointing down) — for every
    non-empty edge list, every option set with the LongestPath layerer, either breaker, every component of more than one node.
    (That its layer lists are ordered by LayerPos is `C12_ordered_after_phase3`.) -/
theorem C03_longestpath_proper_after_phase3_any_input (cfg : Cfg) (es : InEdges) (hne : es ≠ []) (hp2 : cfg.p2 = 1) :
    ∃ cs, preProcess cfg es = .ok cs ∧ ∀ c ∈ cs, 2 ≤ c.1.nodes.size → ∀ alg g1, phase1 alg c.1 = .ok g1 →
      ∃ g2, phase2Model cfg g1 = .ok g2 ∧
        ∀ g3, phase3Model (fun g => (orderWMedianP 24 g).map (·.1)) g2 = .ok g3 → Proper g3 := by
  obtain ⟨cs, hcs⟩ := preProcess_total cfg es hne
  refine ⟨cs, hcs, fun c hc hn2 alg g1 h1 => ?_⟩
  have hn : (c.1.nodes.size == 1) = false := by simp; omega
  have hA := adjLL_phase1 alg c.1 g1 (adjLL_preProcess cfg es cs hcs c hc) h1
  have hac := phase1_ok_acyclic alg c.1 g1 hn h1
  have hsz : (g1.nodes.size == 1) = false := by
    have := (statEq_phase1 alg c.1 g1 h1).1
    simp; omega
  obtain ⟨g2, hg2⟩ := longestPath_total_of_acyclic g1 hA.adj hac
  have hp : phase2Model cfg g1 = .ok g2 := by
    unfold phase2Model
    simp only [hsz, Bool.false_eq_true, if_false, hp2, beq_self_eq_true, if_true]
    exact hg2
  refine ⟨g2, hp, ?_⟩
  simp only [bind, Except.bind] at hg2
  cases hl : execLongestPath g1 with
  | error e => rw [hl] at hg2; cases hg2
  | ok gl =>
    rw [hl] at hg2
    obtain ⟨hwf, hspan, hdn, hbd⟩ := breakWF_after_longestpath g1 gl g2 hA hac hl hg2
    intro g3 h3
    unfold phase3Model at h3
    split at h3
    · -- one layer only: there is no listed edge that is not a self-loop
      rename_i hone
      simp only [pure, Except.pure, Except.ok.injEq] at h3
      subst h3
      intro e he hne'
      have hd := hdn e he hne'
      obtain ⟨b1, b2⟩ := hbd e he
      have hns : g2.nodes.size ≠ 1 := by
        obtain ⟨_, _, hN, _⟩ := execLongestPath_frame g1 gl hl
        obtain ⟨bN, _, _, _⟩ := buildLayers_frame gl g2 hg2
        have : g1.nodes.size ≠ 1 := by simpa using hsz
        rw [bN, hN]; exact this
      have hls : g2.layers.size = 1 := by
        have hone' : (g2.nodes.size == 1) = true ∨ (g2.layers.size == 1) = true := by
          simpa [Bool.or_eq_true] using hone
        rcases hone' with h | h
        · exact absurd (by simpa using h) hns
        · simpa using h
      rw [hls] at b2
      omega
    · simp only [bind, Except.bind] at h3
      cases hb : breakLongEdges g2 with
      | error e => rw [hb] at h3; cases h3
      | ok gb =>
        rw [hb] at h3
        simp only at h3
        have hpb := (breakLongEdges_proper g2 gb hwf hdn hb).2
        cases ho : orderWMedianP 24 gb with
        | error e => simp [ho, Except.map] at h3
        | ok p =>
          obtain ⟨r, x⟩ := p
          simp only [ho, Except.map, Except.ok.injEq] at h3
          subst h3
          exact proper_orderWMedianP 24 gb r x ho hpb

/-! ### the state handed to SinkColoring is properly layered: `K:layered` as a theorem (LongestPath layerer) -/

theorem buildLayers_memLayer (g g' : G) (h : buildLayers g = .ok g') : MemLayer g' := by
  unfold buildLayers at h
  simp only [bind, Except.bind, pure, Except.pure] at h
  split at h
  · cases h
  · simp only [Except.ok.injEq] at h
    subst h
    intro i hi n hn
    simp only [List.size_toArray, List.length_map, List.length_range] at hi
    simp only [List.getElem_toArray, List.getElem_map, List.getElem_range] at hn
    obtain ⟨h1, h2⟩ := List.mem_filter.1 hn
    refine ⟨by simpa [G.nodeIds] using h1, ?_⟩
    have : g.layerOf n = (i : Int) := by simpa using h2
    exact this

/-- for every state phase 1 can return (adjacency consistent both ways, acyclic): after LongestPath layering, the layer-list
    construction and the ordering phase of the composed model the state is PROPERLY LAYERED in the sense SinkColoring's theorems
    need (`LayeredWF`), and its layer lists are well formed -/
theorem layeredWF_after_phase3_longestpath (cfg : Cfg) (hp2 : cfg.p2 = 1) (g1 g2 g3 : G) (hA : AdjLL g1) (hac : hasCycles g1 = .ok false)
    (hsz : (g1.nodes.size == 1) = false) (h2 : phase2Model cfg g1 = .ok g2)
    (h3 : phase3Model (fun g => (orderWMedianP 24 g).map (·.1)) g2 = .ok g3) : LayeredWF g3 ∧ LayersWF g3 := by
  have hwf3 := layersWF_upto_phase3 cfg g1 g2 g3 h2 h3
  refine ⟨?_, hwf3⟩
  have h2' := h2
  unfold phase2Model at h2'
  simp only [hsz, Bool.false_eq_true, if_false, hp2, beq_self_eq_true, if_true, bind, Except.bind] at h2'
  cases hl : execLongestPath g1 with
  | error e => rw [hl] at h2'; cases h2'
  | ok gl =>
    rw [hl] at h2'
    obtain ⟨hwf, hspan, hdn, hbd⟩ := breakWF_after_longestpath g1 gl g2 hA hac hl h2'
    obtain ⟨hE, hL, hN, hio⟩ := execLongestPath_frame g1 gl hl
    obtain ⟨bN, bE, bL, _⟩ := buildLayers_frame gl g2 h2'
    -- the in-lists of g2 are those of g1, the edge store and the edge list too
    have hi2 : InsOK g2 := by
      have hi1 := insOK_of_adjL g1 hA.adj
      have hins : ∀ n, (g2.node n).ins = (g1.node n).ins := by
        intro n
        have : g2.node n = gl.node n := by simp only [G.node, bN]
        rw [this]; exact (hio n).2
      have hedge : ∀ e, g2.edge e = g1.edge e := by intro e; simp only [G.edge, bE, hE]
      constructor
      · intro n x hx
        rw [hins] at hx
        obtain ⟨a1, a2, a3⟩ := hi1.ent n x hx
        rw [hedge, bL, hL, bN, hN]
        exact ⟨a1, a2, a3⟩
      · intro n; rw [hins]; exact hi1.nd n
    have hm2 : MemLayer g2 := buildLayers_memLayer gl g2 h2'
    have hn2 : NonnegSrc g2 := fun e he => (hbd e he).1
    unfold phase3Model at h3
    split at h3
    · simp only [pure, Except.pure, Except.ok.injEq] at h3
      subst h3
      exact layeredWF_of_invariants g2 hi2 hm2 hdn hwf3
    · simp only [bind, Except.bind] at h3
      cases hb : breakLongEdges g2 with
      | error e => rw [hb] at h3; cases h3
      | ok gb =>
        rw [hb] at h3
        simp only at h3
        have hpb := (breakLongEdges_proper g2 gb hwf hdn hb).2
        obtain ⟨hib, hmb⟩ := breakLongEdges_layered g2 gb hwf hi2 hm2 hn2 hb
        cases ho : orderWMedianP 24 gb with
        | error e => simp [ho, Except.map] at h3
        | ok p =>
          obtain ⟨r, x⟩ := p
          simp only [ho, Except.map, Except.ok.injEq] at h3
          subst h3
          exact layeredWF_orderWMedianP 24 gb r x ho hib hmb hpb hwf3

/-- **C04 with SinkColoring (the default positioner) on the pipeline, nothing assumed (LongestPath layerer)**: for every non-empty
    edge list, every option set with the LongestPath layerer, either breaker and every component of more than one node — whenever
    phases 1–3 of the composed model and SinkColoring return, consecutive nodes of every band are at least NodeSpacing apart.
    The structural contract `K:layered` of `C04_sinkcoloring_separated_on_pipeline` is a theorem here. -/
theorem C04_sinkcoloring_separated_longestpath_any_input (cfg : Cfg) (es : InEdges) (hp2 : cfg.p2 = 1)
    (cs : List (G × List Nat)) (hcs : preProcess cfg es = .ok cs) :
    ∀ c ∈ cs, 2 ≤ c.1.nodes.size → ∀ alg g1 g2 g3, phase1 alg c.1 = .ok g1 → phase2Model cfg g1 = .ok g2 →
      phase3Model (fun g => (orderWMedianP 24 g).map (·.1)) g2 = .ok g3 →
      ∀ g' d, execSinkColoring cfg.ns g3 = .ok (g', d) →
        ∀ l ∈ g3.layers.toList, ∀ p ∈ adjPairs l.nodes, (g'.node p.1).x + (g'.node p.1).w + cfg.ns ≤ (g'.node p.2).x := by
  intro c hc hn2 alg g1 g2 g3 h1 h2 h3 g' d h4
  have hn : (c.1.nodes.size == 1) = false := by simp; omega
  have hA := adjLL_phase1 alg c.1 g1 (adjLL_preProcess cfg es cs hcs c hc) h1
  have hac := phase1_ok_acyclic alg c.1 g1 hn h1
  have hsz : (g1.nodes.size == 1) = false := by
    have := (statEq_phase1 alg c.1 g1 h1).1
    simp; omega
  obtain ⟨hL, hwf⟩ := layeredWF_after_phase3_longestpath cfg hp2 g1 g2 g3 hA hac hsz h2 h3
  exact C04_sinkcoloring_separated_layered cfg.ns g3 hwf hL g' d h4

/-- **`K:layered` as a theorem (LongestPath layerer)**: for every edge list and option set with the LongestPath layerer, either breaker
    and every component of more than one node, the state the ordering phase of the composed model returns is properly layered
    (`LayeredWF`) and its layer lists are well formed -/
theorem C04_layered_contract_holds_longestpath_any_input (cfg : Cfg) (es : InEdges) (hp2 : cfg.p2 = 1)
    (cs : List (G × List Nat)) (hcs : preProcess cfg es = .ok cs) :
    ∀ c ∈ cs, 2 ≤ c.1.nodes.size → ∀ alg g1 g2 g3, phase1 alg c.1 = .ok g1 → phase2Model cfg g1 = .ok g2 →
      phase3Model (fun g => (orderWMedianP 24 g).map (·.1)) g2 = .ok g3 →
      LayeredWF g3 ∧ LayersWF g3 := by
  intro c hc hn2 alg g1 g2 g3 h1 h2 h3
  have hn : (c.1.nodes.size == 1) = false := by simp; omega
  have hA := adjLL_phase1 alg c.1 g1 (adjLL_preProcess cfg es cs hcs c hc) h1
  have hac := phase1_ok_acyclic alg c.1 g1 hn h1
  have hsz : (g1.nodes.size == 1) = false := by
    have := (statEq_phase1 alg c.1 g1 h1).1
    simp; omega
  exact layeredWF_after_phase3_longestpath cfg hp2 g1 g2 g3 hA hac hsz h2 h3

/-- **C12 with SinkColoring on the pipeline, nothing assumed (LongestPath layerer)**: … and the centres of every band stay in the
    order the ordering phase chose (strictly increasing along every layer list, for a positive NodeSpacing and non-negative widths) -/
theorem C12_sinkcoloring_keeps_order_longestpath_any_input (cfg : Cfg) (hns : 0 < cfg.ns) (es : InEdges) (hp2 : cfg.p2 = 1)
    (cs : List (G × List Nat)) (hcs : preProcess cfg es = .ok cs) :
    ∀ c ∈ cs, 2 ≤ c.1.nodes.size → ∀ alg g1 g2 g3, phase1 alg c.1 = .ok g1 → phase2Model cfg g1 = .ok g2 →
      phase3Model (fun g => (orderWMedianP 24 g).map (·.1)) g2 = .ok g3 →
      ∀ g' d, execSinkColoring cfg.ns g3 = .ok (g', d) → ∀ l ∈ g3.layers.toList, (∀ n ∈ l.nodes, 0 ≤ (g'.node n).w) →
        StrictlyIncreasing (centres (l.nodes.map fun n => (g'.node n).x) (l.nodes.map fun n => (g'.node n).w)) := by
  intro c hc hn2 alg g1 g2 g3 h1 h2 h3 g' d h4 l hl hw
  obtain ⟨hL, hwf⟩ := C04_layered_contract_holds_longestpath_any_input cfg es hp2 cs hcs c hc hn2 alg g1 g2 g3 h1 h2 h3
  exact C12_sinkcoloring_keeps_order_layered cfg.ns hns g3 hwf hL g' d h4 l hl hw

/-- the premises are satisfiable and the chain is exercised: a 3-cycle with a chord and a pendant path, LongestPath layerer -/
example : ∃ cs, preProcess { p2 := 1 } [("a", "b"), ("b", "c"), ("c", "a"), ("a", "c"), ("c", "d"), ("d", "e"), ("a", "e")] = .ok cs :=
  preProcess_total _ _ (by decide)

end Autog
