import Autog.Spec.Output
/-! # What the driver's decidable predicates mean (C02, C04)

    The search part of a check evaluates decidable predicates (`Autog/Spec`) on the public result of the real code. They are part of
    the trusted base; for the two that carry C02 and C04 this file proves that an accepted result has the property the predicate
    stands for: `sameMultiset` really is multiset equality (so `c02_edges` = "every input edge exactly as many times as given, with
    its direction, and nothing else", `c02_nodes` likewise for ids), and `c04_sep` really excludes every pair of overlapping
    rectangles and enforces the spacing inside a band and between components. Core-only. -/

namespace Autog

theorem countOf_eq_count {α} [BEq α] [LawfulBEq α] (a : α) (l : List α) : countOf a l = l.count a := by
  unfold countOf
  rw [List.count_eq_countP, List.countP_eq_length_filter]

/-- equal lengths and equal multiplicities of the members of the first list: equal multiplicities of everything -/
theorem count_eq_of_members {α} [BEq α] [LawfulBEq α] : ∀ (l₁ l₂ : List α), l₁.length = l₂.length →
    (∀ a ∈ l₁, l₁.count a = l₂.count a) → ∀ a, l₁.count a = l₂.count a
  | [], l₂, hl, _, a => by
    have : l₂ = [] := List.eq_nil_of_length_eq_zero (by simpa using hl.symm)
    subst this; rfl
  | x :: t, l₂, hl, hm, a => by
    have hx := hm x (List.mem_cons_self ..)
    have hxpos : 0 < l₂.count x := by rw [← hx]; simp
    have hxmem : x ∈ l₂ := List.count_pos_iff.1 hxpos
    have hlen : t.length = (l₂.erase x).length := by
      rw [List.length_erase_of_mem hxmem]; simp at hl; omega
    have ih := count_eq_of_members t (l₂.erase x) hlen (by
      intro b hb
      by_cases hbx : b = x
      · subst hbx
        rw [List.count_erase_self]
        have := hx
        simp only [List.count_cons_self] at this
        omega
      · rw [List.count_erase_of_ne hbx]
        have := hm b (List.mem_cons_of_mem _ hb)
        rw [List.count_cons_of_ne (fun h => hbx h.symm)] at this
        exact this)
    by_cases hax : a = x
    · subst hax; exact hx
    · have := ih a
      rw [List.count_erase_of_ne hax] at this
      rw [List.count_cons_of_ne (fun h => hax h.symm)]
      exact this

/-- `sameMultiset` is multiset equality -/
theorem sameMultiset_sound {α} [BEq α] [LawfulBEq α] (l₁ l₂ : List α) (h : sameMultiset l₁ l₂ = true) : l₁.Perm l₂ := by
  unfold sameMultiset at h
  simp only [Bool.and_eq_true, beq_iff_eq, List.all_eq_true] at h
  rw [List.perm_iff_count]
  apply count_eq_of_members l₁ l₂ h.1
  intro a ha
  have := h.2 a ha
  rwa [countOf_eq_count, countOf_eq_count] at this

theorem sameMultiset_complete {α} [BEq α] [LawfulBEq α] (l₁ l₂ : List α) (h : l₁.Perm l₂) : sameMultiset l₁ l₂ = true := by
  unfold sameMultiset
  simp only [Bool.and_eq_true, beq_iff_eq, List.all_eq_true]
  refine ⟨h.length_eq, fun a _ => ?_⟩
  rw [countOf_eq_count, countOf_eq_count]
  exact List.perm_iff_count.1 h a

/-- C02 (edges): a result the predicate accepts lists exactly the input edges — each as many times as it was given, with its
    FromID → ToID direction, nothing else — and the predicate rejects every other result -/
theorem C02_edges_predicate_exact (es : InEdges) (o : Out) :
    c02_edges es o = true ↔ (o.edges.map fun e => (e.src, e.dst)).Perm es :=
  ⟨sameMultiset_sound _ _, sameMultiset_complete _ _⟩

/-- C02 (nodes): … and exactly the distinct ids of the input, each once -/
theorem C02_nodes_predicate_exact (es : InEdges) (o : Out) :
    c02_nodes es o = true ↔ ((realNodes o).map (·.id)).Perm (inputIds es) :=
  ⟨sameMultiset_sound _ _, sameMultiset_complete _ _⟩

/-! ### C04 -/

theorem allPairs_sound {α} (p : α → α → Bool) : ∀ (l : List α), allPairs p l = true → List.Pairwise (fun a b => p a b = true) l
  | [], _ => List.Pairwise.nil
  | x :: xs, h => by
    unfold allPairs at h
    simp only [Bool.and_eq_true, List.all_eq_true] at h
    exact List.Pairwise.cons h.1 (allPairs_sound p xs h.2)

/-- the open rectangles of two nodes intersect -/
def Overlap (a b : ONode) : Prop := a.x < b.x + b.w ∧ b.x < a.x + a.w ∧ a.y < b.y + b.h ∧ b.y < a.y + a.h

/-- the horizontal gap between two nodes is at least `s` -/
def HGap (s : Rat) (a b : ONode) : Prop := a.x + a.w + s ≤ b.x ∨ b.x + b.w + s ≤ a.x

theorem hsep_iff (s : Rat) (a b : ONode) : hsep s a b = true ↔ HGap s a b := by
  unfold hsep HGap; simp

theorem not_overlap_of_hgap (s : Rat) (hs : 0 ≤ s) (a b : ONode) (h : HGap s a b) : ¬ Overlap a b := by
  intro ho
  unfold Overlap at ho
  unfold HGap at h
  rcases h with h | h <;> grind

/-- C04: in a result `c04_sep` accepts (for a non-negative NodeSpacing) no two node rectangles overlap, two nodes of one band of
    one component are at least NodeSpacing apart, and so are two nodes of different components -/
theorem C04_separation_predicate_sound (cfg : Cfg) (hns : 0 ≤ cfg.ns) (o : Out) (h : c04_sep cfg o = true) :
    List.Pairwise (fun a b => ¬ Overlap a b ∧
        ((a.comp ≠ b.comp ∨ a.layer = b.layer) → HGap cfg.ns a b)) o.nodes := by
  unfold c04_sep at h
  refine (allPairs_sound _ _ h).imp ?_
  intro a b hp
  unfold c04_pair at hp
  by_cases hc : (a.comp != b.comp) = true
  · rw [if_pos hc] at hp
    have hg := (hsep_iff _ _ _).1 hp
    exact ⟨not_overlap_of_hgap _ hns a b hg, fun _ => hg⟩
  · rw [if_neg hc] at hp
    have hceq : a.comp = b.comp := by simpa using hc
    by_cases hl : (a.layer == b.layer) = true
    · rw [if_pos hl] at hp
      have hg := (hsep_iff _ _ _).1 hp
      exact ⟨not_overlap_of_hgap _ hns a b hg, fun _ => hg⟩
    · rw [if_neg hl] at hp
      have hlne : a.layer ≠ b.layer := by simpa using hl
      refine ⟨?_, fun hor => ?_⟩
      · simp only [Bool.or_eq_true] at hp
        rcases hp with hp | hp
        · exact not_overlap_of_hgap 0 (by decide) a b ((hsep_iff _ _ _).1 hp)
        · intro ho
          unfold Overlap at ho
          unfold vsep at hp
          simp only [Bool.or_eq_true, decide_eq_true_eq] at hp
          rcases hp with hp | hp <;> grind
      · rcases hor with h1 | h1
        · exact absurd hceq h1
        · exact absurd h1 hlne

/-- non-vacuity: two nodes side by side in one band, 10 apart, spacing 10 -/
example : c04_sep { ns := 10 } { nodes := [{ id := "a", x := 0, y := 0, w := 20, h := 5 }, { id := "b", x := 30, y := 0, w := 4, h := 9 }], edges := [] } = true := by
  decide +kernel

end Autog
