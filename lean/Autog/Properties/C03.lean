import Autog.Lemmas.Layers
import Autog.Model.Phase4
import Autog.Lemmas.NsInitLayersKahn
import Autog.Lemmas.LongestPath
import Autog.Lemmas.Frame
import Autog.Model.Pipeline
import Autog.Lemmas.LayersPipeline
/-! # C03 — layers are horizontal bands and edges flow downward

    (ii) Bands: theorems about the model function `assignYCoords` (Autog/Model/Phase4.lean; compared with the real
    code by the correspondence keys `T:phase4-*` and `T:assignY` on every traced run, for every positioner).
    (iii)–(v) Downward edges rest on the layering being feasible: proved for the Kahn initialisation of network simplex
    and for longest-path heights on the machines the models instantiate; the simplex pivots are covered by the
    per-run feasibility predicate (partial, see DESIGN.md). -/

namespace Autog
open Phase4Simple

theorem assignY_length (ls : Rat) : ∀ (hs : List Rat) (y : Rat), (assignY ls y hs).length = hs.length
  | [], _ => rfl
  | h :: hs, y => by simp [assignY, assignY_length ls hs]

theorem layerYs_length (ls : Rat) (g : G) : (layerYs ls g).length = g.layers.toList.length := by
  simp [layerYs, assignY_length]

theorem assignYPlan_fst (ls : Rat) (g : G) : (assignYPlan ls g).map (·.1) = g.layers.toList.map (·.nodes) := by
  unfold assignYPlan
  rw [List.map_map]
  have : ((fun (p : List Nat × List Rat) => p.1) ∘ fun (x : Layer × Rat) => (x.1.nodes, List.replicate x.1.nodes.length x.2))
      = (fun l => l.nodes) ∘ Prod.fst := rfl
  rw [this, ← List.map_map, List.map_fst_zip (by rw [layerYs_length]; exact Nat.le_refl _)]

theorem assignYPlan_wf (ls : Rat) (g : G) (hwf : LayersWF g) : PlWF g (assignYPlan ls g) := by
  have hfm : (assignYPlan ls g).flatMap (·.1) = g.layers.toList.flatMap (·.nodes) := by
    rw [List.flatMap_def, assignYPlan_fst, ← List.flatMap_def]
  refine ⟨by rw [hfm]; exact hwf.nodup, fun n hn => by rw [hfm] at hn; exact hwf.bound n hn, ?_⟩
  intro p hp
  unfold assignYPlan at hp
  obtain ⟨q, _, rfl⟩ := List.mem_map.1 hp
  simp

/-- (i) all nodes of the i-th layer get the i-th value of `layerYs`, and nothing but y changes -/
theorem C03_band_y (ls : Rat) (g : G) (hwf : LayersWF g) (i : Nat) (hi : i < g.layers.toList.length) :
    ∀ n ∈ (g.layers.toList[i]).nodes,
      ((assignYCoords ls g).node n).y = (layerYs ls g)[i]'(by rw [layerYs_length]; exact hi) := by
  intro n hn
  have hiy : i < (layerYs ls g).length := by rw [layerYs_length]; exact hi
  have hp : ((g.layers.toList[i]).nodes, List.replicate (g.layers.toList[i]).nodes.length ((layerYs ls g)[i])) ∈ assignYPlan ls g := by
    unfold assignYPlan
    refine List.mem_map.2 ⟨(g.layers.toList[i], (layerYs ls g)[i]), ?_, rfl⟩
    have hi' : i < g.layers.size := by simpa using hi
    exact List.mem_iff_getElem.2 ⟨i, by simp; omega, by simp⟩
  have := placeY_ys (assignYPlan ls g) g (assignYPlan_wf ls g hwf) _ hp
  obtain ⟨k, hk, rfl⟩ := List.mem_iff_getElem.1 hn
  have h2 := congrArg (fun l => l[k]?) this
  simp only [List.getElem?_map, List.getElem?_replicate, hk, if_true, List.getElem?_eq_getElem hk, Option.map_some] at h2
  exact Option.some.inj h2

theorem C03_only_y_changes (ls : Rat) (g : G) (n : Nat) :
    ((assignYCoords ls g).node n).dropY = (g.node n).dropY := placeY_dropY _ g n

/-- (ii) for i < j the j-th band starts at least LayerSpacing below the i-th band's Y plus the i-th layer height;
    with `layer.h` at least the height of every node of the layer (what the positioners leave behind, see
    `growH_ge`), that is: below the bottom of the tallest node of the band above -/
theorem C03_bands_apart (ls : Rat) (hls : 0 ≤ ls) (g : G) (hh : ∀ l ∈ g.layers.toList, 0 ≤ l.h)
    (i j : Nat) (hij : i < j) (hj : j < g.layers.toList.length) :
    (layerYs ls g)[i]'(by rw [layerYs_length]; omega) + (g.layers.toList[i]'(by omega)).h + ls
      ≤ (layerYs ls g)[j]'(by rw [layerYs_length]; exact hj) := by
  have hb := assignY_bands ls hls (g.layers.toList.map (·.h)) 0 (by
    intro h hmem; obtain ⟨l, hl, rfl⟩ := List.mem_map.1 hmem; exact hh l hl)
  rw [List.pairwise_iff_getElem] at hb
  have hlen : ((assignY ls 0 (g.layers.toList.map (·.h))).zip (g.layers.toList.map (·.h))).length = g.layers.toList.length := by
    simp [assignY_length]
  have := hb i j (by rw [hlen]; omega) (by rw [hlen]; exact hj) hij
  simpa [layerYs] using this

/-- the layer height the positioners leave behind dominates every node height of the layer -/
theorem growH_ge (g : G) (l : Layer) (n : Nat) (hn : n ∈ l.nodes) : (g.node n).h ≤ (growH g l).h := by
  unfold growH heightsOf
  exact le_foldl_maxRat _ _ _ (List.mem_map.2 ⟨n, hn, rfl⟩)

theorem growH_nonneg (g : G) (l : Layer) (h0 : 0 ≤ l.h) : 0 ≤ (growH g l).h := by
  unfold growH
  exact Rat.le_trans h0 (foldl_maxRat_ge_init _ _)

/-! (iii) feasibility of the layering, on the machines the phase-2 models run -/

theorem C03_ns_init_feasible : type_of% @NsInitLayersKahn.init_feasible := @NsInitLayersKahn.init_feasible
theorem C03_longestpath_heights : type_of% @LongestPath.run_inv := @LongestPath.run_inv

/-! ## end to end: the bands of the public result, for every positioner with an exact model -/

theorem assignY_frame (ls : Rat) (g : G) :
    (assignYCoords ls g).nodes.size = g.nodes.size ∧ (assignYCoords ls g).layers = g.layers := by
  have h := placeAllWith_frame (upd := updY) (assignYPlan ls g) g (by
    intro p hp
    unfold assignYPlan at hp
    obtain ⟨q, _, rfl⟩ := List.mem_map.1 hp
    simp)
  exact ⟨h.1, h.2.1⟩

/-- every branch of `phase4Model` on more than one node ends with `assignYCoords` -/
theorem phase4Model_is_assignY (cfg : Cfg) (g g4 : G) (hn : (g.nodes.size == 1) = false) (hp : cfg.p4 ≠ 5)
    (h : phase4Model cfg g = .ok g4) :
    ∃ g', g4 = assignYCoords cfg.ls g' := by
  unfold phase4Model at h
  simp only [hn, Bool.false_eq_true, if_false] at h
  split at h
  · cases hs : execSinkColoring cfg.ns g with
    | error e => simp [hs, bind, Except.bind] at h
    | ok r => simp only [hs, bind, Except.bind, pure, Except.pure, Except.ok.injEq] at h; exact ⟨r.1, h.symm⟩
  · unfold phase4Simple at h
    simp only [hn, Bool.false_eq_true, if_false, bind, Except.bind, pure, Except.pure, Except.ok.injEq] at h
    exact ⟨_, h.symm⟩
  · unfold phase4Simple at h
    simp only [hn, Bool.false_eq_true, if_false, bind, Except.bind, pure, Except.pure, Except.ok.injEq] at h
    exact ⟨_, h.symm⟩
  · cases hs : execNsPositioner (thorOf cfg) 4 cfg.ns g with
    | error e => simp [hs, Except.map] at h
    | ok r => simp only [hs, Except.map, Except.ok.injEq] at h; exact ⟨r, h.symm⟩
  · cases hs : BK.execBrandesKoepf cfg.bk cfg.ns g with
    | error e => simp [hs, Except.map] at h
    | ok r => simp only [hs, Except.map, Except.ok.injEq] at h; exact ⟨r, h.symm⟩
  · rename_i heq; exact absurd heq hp
  · cases h

/-- END TO END (SinkColoring, VAlign, PackRight, NetworkSimplex, Brandes–Köpf × every modelled router): in the state the composed
    model hands to result collection, all nodes of the i-th layer list carry the i-th band Y, the band Ys are those of
    `layerYs` (so `C03_bands_apart` applies to them), and the layer lists are those phase 4 left -/
theorem C03_public_bands (cfg : Cfg) (g3 g4 g5 : G) (loops : List Nat) (hn : (g3.nodes.size == 1) = false) (hp : cfg.p4 ≠ 5)
    (h4 : phase4Model cfg g3 = .ok g4) (hwf : LayersWF g4) (h5 : phase5 cfg.p5 cfg.ls g4 = .ok g5)
    (i : Nat) (hi : i < g4.layers.toList.length) :
    (postProcess g5 loops).layers = g4.layers ∧
    ∀ n ∈ (g4.layers.toList[i]).nodes,
      ((postProcess g5 loops).node n).y = (layerYs cfg.ls g4)[i]'(by rw [layerYs_length]; exact hi) := by
  have hgeo : GeomEq g4 (postProcess g5 loops) := GeomEq.trans (phase5_geom _ _ _ _ h5) (postProcess_geom g5 loops)
  refine ⟨hgeo.layers, ?_⟩
  intro n hnmem
  obtain ⟨g', rfl⟩ := phase4Model_is_assignY cfg g3 g4 hn hp h4
  obtain ⟨hsz, hlay⟩ := assignY_frame cfg.ls g'
  have hwf' : LayersWF g' := ⟨by rw [← hlay]; exact hwf.nodup, fun m hm => by rw [← hsz]; exact hwf.bound m (by rw [hlay]; exact hm)⟩
  have hi' : i < g'.layers.toList.length := by rw [← hlay]; exact hi
  have hmem' : n ∈ (g'.layers.toList[i]).nodes := by
    have : (assignYCoords cfg.ls g').layers.toList[i] = g'.layers.toList[i] := by simp [hlay]
    rw [← this]; exact hnmem
  have hy := C03_band_y cfg.ls g' hwf' i hi' n hmem'
  have hg := hgeo.geom n
  simp only [Node.geom, Prod.mk.injEq] at hg
  rw [hg.2.2.1, hy]
  simp [layerYs, hlay]

/-- END TO END, nothing assumed but that the composed model returns: for a component with at least two nodes — any graph, both
    breakers, both layerers, the exact ordering model, any of the five positioners, any modelled router — there is a layered state
    `g4` (the one phase 4 returned) such that the final state has exactly its layer lists and every node of the i-th list carries the
    i-th band Y `layerYs`; the well-formedness of the layer lists, assumed by `C03_band_y`, is itself a theorem about the pipeline
    (`layersWF_upto_phase4`) -/
theorem C03_layoutComponent_bands (cfg : Cfg) (c : G × List Nat) (gf : G) (h2n : 2 ≤ c.1.nodes.size) (hp : cfg.p4 ≠ 5)
    (h : layoutComponent (fun g => (orderWMedianP 24 g).map (·.1)) cfg c = .ok gf) :
    ∃ g4 : G, LayersWF g4 ∧ gf.layers = g4.layers ∧
      ∀ (i : Nat) (hi : i < g4.layers.toList.length), ∀ n ∈ (g4.layers.toList[i]).nodes,
        (gf.node n).y = (layerYs cfg.ls g4)[i]'(by rw [layerYs_length]; exact hi) := by
  unfold layoutComponent at h
  simp only [bind, Except.bind] at h
  cases h1 : phase1 cfg.p1 c.1 with
  | error e => rw [h1] at h; cases h
  | ok g1 =>
    rw [h1] at h; simp only at h
    cases h2 : phase2Model cfg g1 with
    | error e => rw [h2] at h; cases h
    | ok g2 =>
      rw [h2] at h; simp only at h
      cases h3 : phase3Model (fun g => (orderWMedianP 24 g).map (·.1)) g2 with
      | error e => rw [h3] at h; cases h
      | ok g3 =>
        rw [h3] at h; simp only at h
        cases h4 : phase4Model cfg g3 with
        | error e => rw [h4] at h; cases h
        | ok g4 =>
          rw [h4] at h; simp only at h
          cases h5 : phase5 cfg.p5 cfg.ls g4 with
          | error e => rw [h5] at h; cases h
          | ok g5 =>
            rw [h5] at h
            simp only [pure, Except.pure, Except.ok.injEq] at h
            subst h
            have hwf4 := layersWF_upto_phase4 cfg g1 g2 g3 g4 h2 h3 h4
            have hsz : c.1.nodes.size ≤ g3.nodes.size :=
              (statEq_upto_phase3 _ (fun g g' hg => statEq_orderWMedianP 24 g g' hg) cfg c.1 g1 g2 g3 h1 h2 h3).size
            have hn : (g3.nodes.size == 1) = false := by
              rw [beq_eq_false_iff_ne]; omega
            refine ⟨g4, hwf4, ?_, fun i hi n hnm => ?_⟩
            · exact (GeomEq.trans (phase5_geom _ _ _ _ h5) (postProcess_geom g5 c.2)).layers
            · exact (C03_public_bands cfg g3 g4 g5 c.2 hn hp h4 hwf4 h5 i hi).2 n hnm

/-! non-vacuity -/
def exG3 : G :=
  { nodes := #[{ id := "a", h := 10 }, { id := "b", h := 4 }, { id := "c", h := 7 }],
    layers := #[{ index := 0, nodes := [0], h := 10 }, { index := 1, nodes := [1, 2], h := 7 }] }
example : LayersWF exG3 := ⟨by decide, by decide⟩
example : ((assignYCoords 5 exG3).nodes.toList.map (·.y)) = [0, 15, 15] := by decide +kernel

end Autog
