import Autog.Lemmas.LongestPath
import Autog.Lemmas.NsInitLayersKahn
import Autog.Lemmas.Phase4Simple
/-! # C03
    Bands and downward edges. First pass: assignY bands; Kahn layering is feasible; tight-tree shift keeps feasibility. -/

namespace Autog

theorem C03_assignY_bands : type_of% @Phase4Simple.assignY_bands := @Phase4Simple.assignY_bands

theorem C03_ns_init_feasible : type_of% @NsInitLayersKahn.init_feasible := @NsInitLayersKahn.init_feasible

theorem C03_longestpath_inv : type_of% @LongestPath.run_inv := @LongestPath.run_inv

end Autog
