import Autog.Lemmas.C12CountCrossingsComposed
/-! # C12
    Crossing counter exactness. -/

namespace Autog

theorem C12_countCrossings_spec : type_of% @C12CountCrossingsComposed.countCrossings_spec := @C12CountCrossingsComposed.countCrossings_spec

end Autog
