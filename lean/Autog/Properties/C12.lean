import Autog.Model.Phase3
/-! # C12 — the reported crossing count is the crossing count of the drawing

    (1) Counter exactness, for all bilayers: the function the model of `countCrossings` calls
    (`countCrossingsModel`: radix scan of the position matrix, then the accumulator tree with 2^⌈log q⌉ leaves, q the
    size of the smaller layer — exactly Go's `k := 1; for k < q { k *= 2 }`) returns the number of inverted pairs of any
    duplicate-free edge set within bounds (`C12_counter_exact`). Tie: `T:crossings` — the model's total over the returned
    order equals the number the real code logged, on every traced run, also beyond 64 layers.
    (2) PARTIAL: that WMedian restores exactly the order whose count it logs, and that the positioners keep the order
    (strictly increasing centre x along every layer list), are decided per run: `T:crossings`, `K:ordered`, the positioner
    and router keys, and the predicate "logged = crossings recomputed from output x coordinates". -/

namespace Autog
open C12CountCrossingsComposed

theorem ceilLog2_spec (q : Nat) : q ≤ 2 ^ ceilLog2 q := by
  unfold ceilLog2
  cases h : (List.range (q + 1)).find? (fun c => decide (q ≤ 2 ^ c)) with
  | some c =>
    have := List.find?_some h
    simpa using this
  | none =>
    simp only [Option.getD_none]
    exact Nat.le_of_lt (Nat.lt_two_pow_self)

/-- the bilayer counter is exact: for every duplicate-free set of (upper position, lower position) pairs inside an
    m × n bilayer whose lower layer is the smaller one -/
theorem C12_counter_exact (m n : Nat) (hmn : n ≤ m) (es : List (Nat × Nat)) (hnd : es.Nodup)
    (hb : ∀ e ∈ es, e.1 < m ∧ e.2 < n) :
    countCrossingsModel (ceilLog2 (min m n)) m n es = crossings es := by
  apply countCrossings_spec _ m n es hnd hb
  have : min m n = n := Nat.min_eq_right hmn
  rw [this]; exact ceilLog2_spec n

/-- what is counted: pairs of edges whose ends are strictly inverted -/
theorem C12_crossings_def (e : Nat × Nat) (es : List (Nat × Nat)) :
    crossings (e :: es) = crossings es + es.countP (crossP e) := by
  simp [crossings]

/-- the count does not depend on the order in which the edges are listed -/
theorem C12_crossings_order_irrelevant : type_of% @crossings_perm := @crossings_perm

example : countCrossingsModel (ceilLog2 (min 3 3)) 3 3 [(0, 2), (1, 0), (2, 1)] = 2 := by decide +kernel
example : crossings [(0, 2), (1, 0), (2, 1)] = 2 := by decide

end Autog
