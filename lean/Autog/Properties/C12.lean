import Autog.Model.Phase3
import Autog.Properties.C04
import Autog.Lemmas.LayersPipeline
import Autog.Lemmas.StaticP4
/-! # C12 — the reported crossing count is the crossing count of the drawing

    (1) Counter exactness, for all bilayers: the function the model of `countCrossings` calls
    (`countCrossingsModel`: radix scan of the position matrix, then the accumulator tree with 2^⌈log q⌉ leaves, q the
    size of the smaller layer — exactly Go's `k := 1; for k < q { k *= 2 }`) returns the number of inverted pairs of any
    duplicate-free edge set within bounds (`C12_counter_exact`). Tie: `T:crossings` — the model's total over the returned
    order equals the number the real code logged, on every traced run, also beyond 64 layers.
    (2) On the composed model the state phase 3 hands over is an order (`C12_ordered_after_phase3`: layer lists sorted by LayerPos
    0..k−1 — the projection `orderWMedianP` checks it, `K:ordered` evaluates the same predicate on the real code), and VAlign, PackRight
    (`C12_valign/_packright_keeps_order_on_pipeline`, nothing assumed about the state) and SinkColoring (under `K:layered`) draw every
    layer list with strictly increasing centres.
    PARTIAL: that WMedian restores exactly the order whose count it logs is decided per run: `T:crossings`, `K:ordered`, the positioner
    and router keys, and the predicate "logged = crossings recomputed from output x coordinates". -/

namespace Autog
open C12CountCrossingsComposed

theorem ceilLog2_spec (q : Nat) : q ≤ 2 ^ ceilLog2 q := by
  unfold ceilLog2
  cases h : (List.range (q + 1)).find? (fun c => decide (q ≤ 2 ^ c)) with
  | some c =>
    have := List.find?_some h
    simpa using this
  | none =>
    simp only [Option.getD_none]
    exact Nat.le_of_lt (Nat.lt_two_pow_self)

/-- the bilayer counter is exact: for every duplicate-free set of (upper position, lower position) pairs inside an
    m × n bilayer whose lower layer is the smaller one -/
theorem C12_counter_exact (m n : Nat) (hmn : n ≤ m) (es : List (Nat × Nat)) (hnd : es.Nodup)
    (hb : ∀ e ∈ es, e.1 < m ∧ e.2 < n) :
    countCrossingsModel (ceilLog2 (min m n)) m n es = crossings es := by
  apply countCrossings_spec _ m n es hnd hb
  have : min m n = n := Nat.min_eq_right hmn
  rw [this]; exact ceilLog2_spec n

/-- what is counted: pairs of edges whose ends are strictly inverted -/
theorem C12_crossings_def (e : Nat × Nat) (es : List (Nat × Nat)) :
    crossings (e :: es) = crossings es + es.countP (crossP e) := by
  simp [crossings]

/-- the count does not depend on the order in which the edges are listed -/
theorem C12_crossings_order_irrelevant : type_of% @crossings_perm := @crossings_perm

/-! ## the order of a band can be read off the x coordinates -/

/-- centres `x + w/2` -/
def centres : List Rat → List Rat → List Rat
  | x :: xs, w :: ws => (x + w / 2) :: centres xs ws
  | _, _ => []

def StrictlyIncreasing : List Rat → Prop
  | a :: b :: l => a < b ∧ StrictlyIncreasing (b :: l)
  | _ => True

/-- with NodeSpacing > 0 and non-negative widths, separated nodes have strictly increasing centres: the order of the layer
    list IS the left-to-right order of the node (and bend) centres in the drawing, so two segments between adjacent bands
    cross in the drawing exactly when their position pairs are inverted -/
theorem C12_centres_increasing (ns : Rat) (hns : 0 < ns) : ∀ (xs ws : List Rat), xs.length = ws.length → (∀ w ∈ ws, 0 ≤ w) →
    Phase4Simple.Separated ns xs ws → StrictlyIncreasing (centres xs ws)
  | [], _, _, _, _ => trivial
  | [_], [], h, _, _ => by simp at h
  | [_], [_], _, _, _ => trivial
  | [_], _ :: _ :: _, h, _, _ => by simp at h
  | x :: y :: xs, [], h, _, _ => by simp at h
  | x :: y :: xs, [w], h, _, _ => by simp at h
  | x :: y :: xs, w :: w2 :: ws, h, hw, hs => by
    simp only [Phase4Simple.Separated] at hs
    simp only [centres, StrictlyIncreasing]
    have h1 := hw w (List.mem_cons_self ..)
    have h2 := hw w2 (by simp)
    refine ⟨by grind, ?_⟩
    have := C12_centres_increasing ns hns (y :: xs) (w2 :: ws) (by simpa using h)
      (fun a ha => hw a (List.mem_cons_of_mem _ ha)) hs.2
    simpa [centres] using this

/-- for VAlign and PackRight (any widths ≥ 0, NodeSpacing > 0) the model's coordinates keep the order of every layer list -/
theorem C12_valign_keeps_order (ns : Rat) (hns : 0 < ns) (g : G) (hwf : LayersWF g) (l : Layer) (hl : l ∈ g.layers.toList)
    (hw : ∀ w ∈ widthsOf g l, 0 ≤ w) :
    StrictlyIncreasing (centres (xsOf (execVerticalAlign ns g) l) (widthsOf (execVerticalAlign ns g) l)) := by
  have hsep := C04_valign_separated ns g hwf l hl
  have hcoord := C16_valign_coordinates ns g hwf l hl
  apply C12_centres_increasing ns hns _ _ _ _ hsep
  · rw [hcoord.1, hcoord.2]; simp [Phase4Simple.valign]
  · rw [hcoord.2]; exact hw

theorem C12_packright_keeps_order (ns : Rat) (hns : 0 < ns) (g : G) (hwf : LayersWF g) (l : Layer) (hl : l ∈ g.layers.toList)
    (hw : ∀ w ∈ widthsOf g l, 0 ≤ w) :
    StrictlyIncreasing (centres (xsOf (execPackRight ns g) l) (widthsOf (execPackRight ns g) l)) := by
  have hsep := C04_packright_separated ns g hwf l hl
  have hcoord := C16_packright_coordinates ns g hwf l hl
  apply C12_centres_increasing ns hns _ _ _ _ hsep
  · rw [hcoord.1, hcoord.2]; simp [packRightRaw_eq]
  · rw [hcoord.2]; exact hw

/-- separated consecutive pairs, as a list predicate -/
theorem separated_of_adjPairs (ns : Rat) (f : Nat → Rat) (w : Nat → Rat) : ∀ (l : List Nat),
    (∀ p ∈ adjPairs l, f p.1 + w p.1 + ns ≤ f p.2) → Phase4Simple.Separated ns (l.map f) (l.map w)
  | [], _ => trivial
  | [_], _ => trivial
  | a :: b :: l, h => by
    simp only [List.map_cons, Phase4Simple.Separated]
    refine ⟨h (a, b) (by simp [adjPairs]), ?_⟩
    have := separated_of_adjPairs ns f w (b :: l) (fun p hp => h p (by simp [adjPairs, hp]))
    simpa using this

/-- SinkColoring (the default positioner) keeps the order of every layer list, under the block-width contract of C04 -/
theorem C12_sinkcoloring_keeps_order (ns : Rat) (hns : 0 < ns) (g : G) (hwf : LayersWF g) (bw : Array Rat) (roots : Array Nat)
    (hb : scBlocks g = .ok (bw, roots)) (hwide : BlockWide g bw roots) (g' : G) (d : Nat)
    (h : execSinkColoring ns g = .ok (g', d)) (l : Layer) (hl : l ∈ g.layers.toList)
    (hw : ∀ n ∈ l.nodes, 0 ≤ (g'.node n).w) :
    StrictlyIncreasing (centres (l.nodes.map fun n => (g'.node n).x) (l.nodes.map fun n => (g'.node n).w)) := by
  have hsep := C04_sinkcoloring_separated ns g hwf bw roots hb hwide g' d h l hl
  apply C12_centres_increasing ns hns _ _ (by simp) _ (separated_of_adjPairs ns _ _ l.nodes hsep)
  intro w hwmem
  obtain ⟨n, hn, rfl⟩ := List.mem_map.1 hwmem
  exact hw n hn

/-- … and without the block-width contract, on every properly layered state (`C04_blockwide`) -/
theorem C12_sinkcoloring_keeps_order_layered (ns : Rat) (hns : 0 < ns) (g : G) (hwf : LayersWF g) (hL : LayeredWF g) (g' : G) (d : Nat)
    (h : execSinkColoring ns g = .ok (g', d)) (l : Layer) (hl : l ∈ g.layers.toList)
    (hw : ∀ n ∈ l.nodes, 0 ≤ (g'.node n).w) :
    StrictlyIncreasing (centres (l.nodes.map fun n => (g'.node n).x) (l.nodes.map fun n => (g'.node n).w)) := by
  cases hb : scBlocks g with
  | error e => unfold execSinkColoring at h; simp [hb, bind, Except.bind] at h
  | ok r =>
    obtain ⟨bw, roots⟩ := r
    exact C12_sinkcoloring_keeps_order ns hns g hwf bw roots hb (scBlocks_blockWide g hL bw roots hb) g' d h l hl hw

example : countCrossingsModel (ceilLog2 (min 3 3)) 3 3 [(0, 2), (1, 0), (2, 1)] = 2 := by decide +kernel
example : crossings [(0, 2), (1, 0), (2, 1)] = 2 := by decide


/-! ### on the composed model: the order phase 3 hands over, and what the positioners make of it -/

/-- the state the ordering phase of the composed model hands to phase 4 is an order: every layer list is sorted by LayerPos 0..k−1 and
    every node sits in the list of its own layer (the projection `orderWMedianP` checks it; `K:ordered` evaluates the same predicate on
    the traced state of the real code, `T:phase3-wmedian` compares the two states) -/
theorem C12_ordered_after_phase3 (g2 g3 : G) (hn : (g2.nodes.size == 1 || g2.layers.size == 1) = false)
    (h3 : phase3Model (fun g => (orderWMedianP 24 g).map (·.1)) g2 = .ok g3) : orderedOK g3 = true := by
  unfold phase3Model at h3
  simp only [hn, Bool.false_eq_true, if_false, bind, Except.bind] at h3
  cases hb : breakLongEdges g2 with
  | error e => simp [hb] at h3
  | ok gb =>
    simp only [hb] at h3
    cases hp : orderWMedianP 24 gb with
    | error e => simp [hp, Except.map] at h3
    | ok r =>
      obtain ⟨g', x⟩ := r
      simp only [hp, Except.map, Except.ok.injEq] at h3
      subst h3
      exact orderWMedianP_ordered 24 gb g' x hp

/-- END TO END on the composed model (VAlign): along every layer list phase 3 hands over — ordered by LayerPos, `C12_ordered_after_phase3` —
    the node centres VAlign assigns are strictly increasing (NodeSpacing > 0, non-negative widths): the drawn left-to-right order IS the
    order whose crossings were counted -/
theorem C12_valign_keeps_order_on_pipeline (cfg : Cfg) (hns : 0 < cfg.ns) (g1 g2 g3 : G) (h2 : phase2Model cfg g1 = .ok g2)
    (h3 : phase3Model (fun g => (orderWMedianP 24 g).map (·.1)) g2 = .ok g3) (l : Layer) (hl : l ∈ g3.layers.toList)
    (hw : ∀ w ∈ widthsOf g3 l, 0 ≤ w) :
    StrictlyIncreasing (centres (xsOf (execVerticalAlign cfg.ns g3) l) (widthsOf (execVerticalAlign cfg.ns g3) l)) :=
  C12_valign_keeps_order cfg.ns hns g3 (layersWF_upto_phase3 cfg g1 g2 g3 h2 h3) l hl hw

theorem C12_packright_keeps_order_on_pipeline (cfg : Cfg) (hns : 0 < cfg.ns) (g1 g2 g3 : G) (h2 : phase2Model cfg g1 = .ok g2)
    (h3 : phase3Model (fun g => (orderWMedianP 24 g).map (·.1)) g2 = .ok g3) (l : Layer) (hl : l ∈ g3.layers.toList)
    (hw : ∀ w ∈ widthsOf g3 l, 0 ≤ w) :
    StrictlyIncreasing (centres (xsOf (execPackRight cfg.ns g3) l) (widthsOf (execPackRight cfg.ns g3) l)) :=
  C12_packright_keeps_order cfg.ns hns g3 (layersWF_upto_phase3 cfg g1 g2 g3 h2 h3) l hl hw

end Autog
