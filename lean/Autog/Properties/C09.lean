import Autog.Model.Pipeline
import Autog.Lemmas.ComponentsDfs
/-! # C09 — components are laid out independently, side by side

    On the composed model `layoutModel` (Autog/Model/Pipeline.lean):
    * every component goes through `layoutComponent` alone — the function has no other argument than the component
      and the configuration, so what it returns cannot depend on the other components;
    * `collect` concatenates the per-component results, each translated in x by a constant (`C09_component_translated`),
      and the constants grow by `rightmostX + NodeSpacing` (`C09_collect_cons`; separation: C04_shift_clears_component);
    * `walkDfs` (the machine the components model runs) visits exactly the connectivity class of its start node
      (`C09_component_is_class`).
    * `C09_collect_is_concat`: the union's result IS the concatenation of every component's own result (`collectComp cfg 0`),
      translated by the component's shift; `C09_sole_input`: `Layout` of a component's edge list alone returns `collectComp cfg 0 0`
      of the same final state — under the hypothesis that pre-processing the component's own edge list yields the component the
      union's pre-processing hands to the pipeline. That hypothesis is a statement about the MODEL only; it is not proved but
      evaluated by the driver on the model for every union case (key `K:c09-pre`: exact equality of the two graph states).
    Tie: `T:pre` (components of the real code = components of the model, in order), `T:output` (real collection = `collect`),
    `Shared` facts (no package-level state survives from one component to the next). -/

namespace Autog

/-- translate a result in x -/
def translateOut (d : Rat) (o : Out) : Out :=
  { nodes := o.nodes.map fun n => { n with x := n.x + d },
    edges := o.edges.map fun e => { e with pts := e.pts.map fun ps => ps.map fun p => (p.1 + d, p.2) } }

theorem C09_collect_cons (cfg : Cfg) (shift : Rat) (ci : Nat) (g : G) (gs : List G) :
    collect cfg shift ci (g :: gs) =
      { nodes := (collectComp cfg shift ci g).nodes ++ (collect cfg (shift + (rightmostX g + cfg.ns)) (ci + 1) gs).nodes,
        edges := (collectComp cfg shift ci g).edges ++ (collect cfg (shift + (rightmostX g + cfg.ns)) (ci + 1) gs).edges } := rfl

/-- what a component contributes to the result is its own layout (shift 0), translated by the running shift -/
theorem C09_component_translated (cfg : Cfg) (shift : Rat) (ci : Nat) (g : G) :
    collectComp cfg shift ci g = translateOut shift (collectComp cfg 0 ci g) := by
  unfold collectComp translateOut
  simp only [List.map_map, Out.mk.injEq]
  constructor
  · apply List.map_congr_left
    intro n _
    simp only [Function.comp, ONode.mk.injEq, and_true, true_and]
    grind
  · apply List.map_congr_left
    intro e _
    simp only [Function.comp, OEdge.mk.injEq, true_and]
    split
    · simp
    · simp only [Option.map_some, List.map_map, Option.some.injEq]
      apply List.map_congr_left
      intro p _
      simp only [Function.comp, Prod.mk.injEq, and_true]
      grind

/-- the first component is not translated at all -/
theorem C09_first_component (ord : G → M G) (cfg : Cfg) (g : G) (gs : List G) :
    (collect cfg 0 0 (g :: gs)).nodes.take (collectComp cfg 0 0 g).nodes.length = (collectComp cfg 0 0 g).nodes := by
  rw [C09_collect_cons]; simp

theorem C09_component_is_class : type_of% @ComponentsDfs.closed_connected := @ComponentsDfs.closed_connected

/-! ## a component alone and the same component inside a union -/

/-- the shifts `collect` hands out: the right border of every earlier component plus `NodeSpacing` -/
def shiftsFrom (cfg : Cfg) : Rat → List G → List Rat
  | _, [] => []
  | s, g :: gs => s :: shiftsFrom cfg (s + (rightmostX g + cfg.ns)) gs

/-- the result of a union is the concatenation, component after component, of each component's own result (shift 0), translated by
    its shift -/
theorem C09_collect_is_concat (cfg : Cfg) : ∀ (gs : List G) (shift : Rat) (ci : Nat),
    (collect cfg shift ci gs).nodes =
      ((gs.zip (shiftsFrom cfg shift gs)).zipIdx ci).flatMap (fun p => (translateOut p.1.2 (collectComp cfg 0 p.2 p.1.1)).nodes) ∧
    (collect cfg shift ci gs).edges =
      ((gs.zip (shiftsFrom cfg shift gs)).zipIdx ci).flatMap (fun p => (translateOut p.1.2 (collectComp cfg 0 p.2 p.1.1)).edges)
  | [], _, _ => ⟨rfl, rfl⟩
  | g :: gs, shift, ci => by
    obtain ⟨h1, h2⟩ := C09_collect_is_concat cfg gs (shift + (rightmostX g + cfg.ns)) (ci + 1)
    simp only [C09_collect_cons, shiftsFrom, List.zip_cons_cons, List.zipIdx_cons, List.flatMap_cons, h1, h2,
      ← C09_component_translated, and_self]

/-- END TO END on the composed model: if pre-processing the component's own edge list gives the component `c` (that is what the
    driver evaluates, on the model, for every union case: key `K:c09-pre`), then `Layout` of that edge list alone returns exactly
    `collectComp cfg 0 0` of the SAME final state `layoutComponentP` computes for `c` inside any union — whose contribution to the
    union's result is, by `C09_collect_is_concat`, that same `collectComp` translated by the component's shift -/
theorem C09_sole_input (ord : G → M G) (cfg : Cfg) (esc : InEdges) (c : G × List Nat)
    (hpre : preProcess cfg esc = .ok [c]) :
    layoutModelP ord cfg esc = (layoutComponentP ord cfg c).map fun gf => collectComp cfg 0 0 gf := by
  unfold layoutModelP
  simp only [hpre, bind, Except.bind, List.mapM_cons, List.mapM_nil, pure, Except.pure]
  cases layoutComponentP ord cfg c with
  | error e => rfl
  | ok gf =>
    simp only [Except.map, collect]
    congr 1
    simp [collectComp]

end Autog
