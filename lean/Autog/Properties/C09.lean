import Autog.Model.Pipeline
import Autog.Lemmas.ComponentsDfs
/-! # C09 — components are laid out independently, side by side

    On the composed model `layoutModel` (Autog/Model/Pipeline.lean):
    * every component goes through `layoutComponent` alone — the function has no other argument than the component
      and the configuration, so what it returns cannot depend on the other components;
    * `collect` concatenates the per-component results, each translated in x by a constant (`C09_component_translated`),
      and the constants grow by `rightmostX + NodeSpacing` (`C09_collect_cons`; separation: C04_shift_clears_component);
    * `walkDfs` (the machine the components model runs) visits exactly the connectivity class of its start node
      (`C09_component_is_class`).
    Tie: `T:pre` (components of the real code = components of the model, in order), `T:output` (real collection = `collect`),
    `Shared` facts (no package-level state survives from one component to the next). -/

namespace Autog

/-- translate a result in x -/
def translateOut (d : Rat) (o : Out) : Out :=
  { nodes := o.nodes.map fun n => { n with x := n.x + d },
    edges := o.edges.map fun e => { e with pts := e.pts.map fun ps => ps.map fun p => (p.1 + d, p.2) } }

theorem C09_collect_cons (cfg : Cfg) (shift : Rat) (ci : Nat) (g : G) (gs : List G) :
    collect cfg shift ci (g :: gs) =
      { nodes := (collectComp cfg shift ci g).nodes ++ (collect cfg (shift + (rightmostX g + cfg.ns)) (ci + 1) gs).nodes,
        edges := (collectComp cfg shift ci g).edges ++ (collect cfg (shift + (rightmostX g + cfg.ns)) (ci + 1) gs).edges } := rfl

/-- what a component contributes to the result is its own layout (shift 0), translated by the running shift -/
theorem C09_component_translated (cfg : Cfg) (shift : Rat) (ci : Nat) (g : G) :
    collectComp cfg shift ci g = translateOut shift (collectComp cfg 0 ci g) := by
  unfold collectComp translateOut
  simp only [List.map_map, Out.mk.injEq]
  constructor
  · apply List.map_congr_left
    intro n _
    simp only [Function.comp, ONode.mk.injEq, and_true, true_and]
    grind
  · apply List.map_congr_left
    intro e _
    simp only [Function.comp, OEdge.mk.injEq, true_and]
    split
    · simp
    · simp only [Option.map_some, List.map_map, Option.some.injEq]
      apply List.map_congr_left
      intro p _
      simp only [Function.comp, Prod.mk.injEq, and_true]
      grind

/-- the first component is not translated at all -/
theorem C09_first_component (ord : G → M G) (cfg : Cfg) (g : G) (gs : List G) :
    (collect cfg 0 0 (g :: gs)).nodes.take (collectComp cfg 0 0 g).nodes.length = (collectComp cfg 0 0 g).nodes := by
  rw [C09_collect_cons]; simp

theorem C09_component_is_class : type_of% @ComponentsDfs.closed_connected := @ComponentsDfs.closed_connected

end Autog
