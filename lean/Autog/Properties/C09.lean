import Autog.Lemmas.ComponentsDfs
/-! # C09
    Components. First pass: the DFS visits exactly the connectivity class of its start node. -/

namespace Autog

theorem C09_component_is_class : type_of% @ComponentsDfs.closed_connected := @ComponentsDfs.closed_connected

end Autog
