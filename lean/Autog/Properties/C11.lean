import Autog.Lemmas.LongestPath
/-! # C11
    Longest path layering. -/

namespace Autog

theorem C11_path_le : type_of% @LongestPath.path_le := @LongestPath.path_le

theorem C11_path_attained : type_of% @LongestPath.path_attained := @LongestPath.path_attained

theorem C11_run_inv : type_of% @LongestPath.run_inv := @LongestPath.run_inv

end Autog
