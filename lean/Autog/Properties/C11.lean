import Autog.Model.Phase2
import Autog.Lemmas.LongestPathTotal
import Autog.Properties.C01
/-! # C11 — longest-path layering uses the minimum number of layers

    Theorems about the model `heights` / `execLongestPath` (Autog/Model/Phase2.lean; key `T:phase2-longestpath` compares it with
    the real layerer on every traced run; the model visits the nodes in `g.Nodes` order while Go visits them in `sort.Slice`
    order — `C11_heights` holds for the memo whatever the visiting order, which is why the comparison is legitimate).
    For every graph state whose orientation has a rank witness (phase 1 leaves one: the finish order of the cycle test):
    * `C11_heights`: if the model returns a memo, the heights it holds satisfy the longest-path recurrence
      (≥ 1; ≥ successor + 1 along every non-loop out-edge; equal to 1 or attained by a successor);
    * hence (`C11_no_longer_path`, `C11_longest_path_exists`): no directed path starting at v has more than ht v nodes and
      one has exactly ht v — ht v is the number of nodes on the longest path from v to a sink;
    * `execLongestPath` puts v at layer `max ht − ht v`: sinks (ht = 1) in the bottom band, v exactly ht v − 1 bands above it,
      and the number of bands is max ht = the number of nodes on a longest path. -/

namespace Autog
open LongestPath

theorem MemoOK.nodeOK {out : Nat → List Nat} : ∀ {memo : List (Nat × Nat)}, MemoOK out memo →
    ∀ v h, look memo v = some h → NodeOK out memo v h
  | [], _, v, h, hl => by simp [look] at hl
  | (k, hk) :: memo, hm, v, h, hl => by
    have htail : MemoOK out memo := fun l₁ v h l₂ heq => hm ((k, hk) :: l₁) v h l₂ (by simp [heq])
    obtain ⟨hfresh, hnode⟩ := hm [] k hk memo rfl
    by_cases e : k = v
    · subst e
      rw [look_cons_eq] at hl
      cases hl
      exact NodeOK.mono hfresh hnode
    · rw [look_cons_ne e] at hl
      exact NodeOK.mono hfresh (MemoOK.nodeOK htail v h hl)

/-- the loop over the roots keeps the memo invariant, keeps every entry, and gives every visited root an entry -/
theorem heightsLoop_spec (g : G) (rank : Nat → Nat) (hR : ∀ v w, w ∈ outNbrs g v → w ≠ v → rank w < rank v) :
    ∀ (ns : List Nat) (memo memo' : List (Nat × Nat)), MemoOK (outNbrs g) memo → heightsLoop g ns memo = .ok memo' →
      MemoOK (outNbrs g) memo' ∧ (∀ v h, look memo v = some h → look memo' v = some h) ∧
      ∀ n ∈ ns, ∃ h, look memo' n = some h
  | [], memo, memo', hm, h => by
    simp only [heightsLoop, pure, Except.pure, Except.ok.injEq] at h
    subst h
    exact ⟨hm, fun _ _ h => h, fun _ hn => by cases hn⟩
  | n :: ns, memo, memo', hm, h => by
    unfold heightsLoop at h
    by_cases hs : (look memo n).isSome
    · simp only [hs, if_true] at h
      obtain ⟨r1, r2, r3⟩ := heightsLoop_spec g rank hR ns memo memo' hm h
      refine ⟨r1, r2, fun x hx => ?_⟩
      rcases List.mem_cons.1 hx with rfl | hx
      · obtain ⟨hv, hhv⟩ := Option.isSome_iff_exists.1 hs
        exact ⟨hv, r2 x hv hhv⟩
      · exact r3 x hx
    · simp only [hs] at h
      have hnone : look memo n = none := by simpa using hs
      cases hrun : run (outNbrs g) (lpFuel g) ⟨[(n, outNbrs g n, 1)], memo⟩ with
      | none => rw [hrun] at h; cases h
      | some m =>
        rw [hrun] at h
        have hinv : LInv (outNbrs g) rank ⟨[(n, outNbrs g n, 1)], memo⟩ :=
          ⟨hm, ⟨⟨[], by simp [childL], Nat.le_refl 1, (fun _ hw => (by cases hw)), Or.inl rfl⟩, trivial⟩,
           List.pairwise_singleton _ _, fun f hf => by
             have : f = (n, outNbrs g n, 1) := by simpa using hf
             subst this; exact hnone⟩
        obtain ⟨q1, q2, q3⟩ := run_inv rank hR (lpFuel g) _ m hinv hrun
        obtain ⟨r1, r2, r3⟩ := heightsLoop_spec g rank hR ns m memo' q1 h
        refine ⟨r1, fun v hv hl => r2 v hv (q3 v hv hl), fun x hx => ?_⟩
        rcases List.mem_cons.1 hx with rfl | hx
        · obtain ⟨hv, hhv⟩ := q2 (x, outNbrs g x, 1) (by simp)
          exact ⟨hv, r2 x hv hhv⟩
        · exact r3 x hx

/-- the heights as a total function: nodes without an entry (there are none among `g.Nodes`) count as sinks -/
def htOf (memo : List (Nat × Nat)) (v : Nat) : Nat := (look memo v).getD 1

theorem memoOK_nil (out : Nat → List Nat) : MemoOK out [] := by
  intro l₁ v h l₂ heq
  cases l₁ <;> simp at heq

/-- C11 core: the memo the model returns satisfies the longest-path recurrence at every node -/
theorem C11_heights (g : G) (rank : Nat → Nat) (hR : ∀ v w, w ∈ outNbrs g v → w ≠ v → rank w < rank v)
    (hclosed : ∀ v, v ∉ g.nodeIds → outNbrs g v = [])
    (memo : List (Nat × Nat)) (h : heights g = .ok memo) : Heights (outNbrs g) (htOf memo) := by
  obtain ⟨hm, _, hall⟩ := heightsLoop_spec g rank hR g.nodeIds [] memo (memoOK_nil _) h
  have hnode := fun v hv hl => MemoOK.nodeOK hm v hv hl
  refine ⟨fun v => ?_, fun v w hw hne => ?_, fun v => ?_⟩
  · unfold htOf
    cases hl : look memo v with
    | none => simp
    | some hv => simpa using (hnode v hv hl).1
  · by_cases hv : v ∈ g.nodeIds
    · obtain ⟨hv', hl⟩ := hall v hv
      obtain ⟨hw', hlw, hle⟩ := (hnode v hv' hl).2.1 w hw hne
      simp [htOf, hl, hlw]; exact hle
    · rw [hclosed v hv] at hw; cases hw
  · by_cases hv : v ∈ g.nodeIds
    · obtain ⟨hv', hl⟩ := hall v hv
      rcases (hnode v hv' hl).2.2 with h1 | ⟨w, hw, hne, hlw⟩
      · left; simp [htOf, hl, h1]
      · right
        have hpos := (hnode v hv' hl).1
        refine ⟨w, hw, hne, ?_⟩
        have hge := (hnode v hv' hl).2.1 w hw hne
        obtain ⟨hw', hlw', hle⟩ := hge
        rw [hlw] at hlw'
        simp [htOf, hl, hlw]; omega
    · left
      unfold htOf
      cases hl : look memo v with
      | none => rfl
      | some hv' =>
        -- an entry for a non-node: still ≥ 1 and attained, but it has no successors
        have := (hnode v hv' hl).2.2
        rcases this with h1 | ⟨w, hw, _, _⟩
        · simp [h1]
        · rw [hclosed v hv] at hw; cases hw

theorem C11_no_longer_path (g : G) (rank : Nat → Nat) (hR : ∀ v w, w ∈ outNbrs g v → w ≠ v → rank w < rank v)
    (hclosed : ∀ v, v ∉ g.nodeIds → outNbrs g v = []) (memo : List (Nat × Nat)) (h : heights g = .ok memo)
    (v : Nat) (p : List Nat) (hp : IsPath (outNbrs g) (v :: p)) : (v :: p).length ≤ htOf memo v :=
  path_le (C11_heights g rank hR hclosed memo h) p v hp

theorem C11_longest_path_exists (g : G) (rank : Nat → Nat) (hR : ∀ v w, w ∈ outNbrs g v → w ≠ v → rank w < rank v)
    (hclosed : ∀ v, v ∉ g.nodeIds → outNbrs g v = []) (memo : List (Nat × Nat)) (h : heights g = .ok memo) (v : Nat) :
    ∃ p, IsPath (outNbrs g) (v :: p) ∧ (v :: p).length = htOf memo v :=
  path_attained (C11_heights g rank hR hclosed memo h) (htOf memo v) v rfl

/-- … and on every well-formed acyclic state the traversal does return (it never exhausts the model's fuel 2·E + 2·V + 4) -/
theorem C11_heights_total : type_of% @heights_total := @heights_total

/-- together: for every well-formed acyclic state there IS a memo, and it satisfies the longest-path recurrence -/
theorem C11_heights_exist (g : G) (hwf : EdgesWF g) (rank : Nat → Nat) (hR : ∀ v w, w ∈ outNbrs g v → w ≠ v → rank w < rank v)
    (hclosed : ∀ v, v ∉ g.nodeIds → outNbrs g v = []) :
    ∃ memo, heights g = .ok memo ∧ Heights (outNbrs g) (htOf memo) := by
  obtain ⟨memo, h⟩ := heights_total g hwf rank hR
  exact ⟨memo, h, C11_heights g rank hR hclosed memo h⟩

/-- a chain 0 → 1 → 2 with a chord 0 → 2: heights 3, 2, 1 -/
def exLP : G :=
  { nodes := #[{ id := "a", outs := [0, 2] }, { id := "b", ins := [0], outs := [1] }, { id := "c", ins := [1, 2] }],
    edges := #[{ src := 0, dst := 1 }, { src := 1, dst := 2 }, { src := 0, dst := 2 }], elist := [0, 1, 2] }
example : (heights exLP).toOption.map (fun m => [htOf m 0, htOf m 1, htOf m 2]) = some [3, 2, 1] := by decide +kernel
example : ((execLongestPath exLP).toOption.map fun g => g.nodes.toList.map (·.layer)) = some [0, 1, 2] := by decide +kernel

end Autog

namespace Autog
open LongestPath

/-- C03 (iii) for LongestPath layering: every non-loop edge v → w of the state goes at least one band down -/
theorem C11_longestpath_feasible (g g' : G) (rank : Nat → Nat) (hR : ∀ v w, w ∈ outNbrs g v → w ≠ v → rank w < rank v)
    (hclosed : ∀ v, v ∉ g.nodeIds → outNbrs g v = []) (hwfE : ∀ v ∈ g.nodeIds, ∀ w ∈ outNbrs g v, w ∈ g.nodeIds)
    (h : execLongestPath g = .ok g') (v w : Nat) (hv : v ∈ g.nodeIds) (hw : w ∈ outNbrs g v) (hne : w ≠ v) :
    g'.layerOf v + 1 ≤ g'.layerOf w := by
  unfold execLongestPath at h
  simp only [bind, Except.bind] at h
  cases hm : heights g with
  | error e => rw [hm] at h; cases h
  | ok memo =>
    rw [hm] at h
    simp only [pure, Except.pure, Except.ok.injEq] at h
    subst h
    have H := C11_heights g rank hR hclosed memo hm
    have hge := H.ge v w hw hne
    obtain ⟨_, _, hall⟩ := heightsLoop_spec g rank hR g.nodeIds [] memo (memoOK_nil _) hm
    have hw' := hwfE v hv w hw
    obtain ⟨hv1, hlv⟩ := hall v hv
    obtain ⟨hw1, hlw⟩ := hall w hw'
    have hvs : v < g.nodes.size := by simpa [G.nodeIds] using hv
    have hws : w < g.nodes.size := by simpa [G.nodeIds] using hw'
    simp only [htOf, hlv, hlw, Option.getD_some] at hge
    simp only [G.layerOf, G.node, Array.getD_eq_getD_getElem?, Array.getElem?_mapIdx, hvs, hws, Array.getElem?_eq_getElem,
      Option.map_some, Option.getD_some, hlv, hlw]
    omega

end Autog

namespace Autog
open LongestPath

/-! ## the bands: every node sits `ht − 1` bands above the bottom band, and there are exactly `max ht` bands -/

def maxHt (g : G) (memo : List (Nat × Nat)) : Nat := g.nodeIds.foldl (fun m n => max m ((look memo n).getD 0)) 0

/-- the layer LongestPath assigns: (number of nodes on the longest path in the component) − (number of nodes on the longest path
    starting at the node) — i.e. the node sits exactly `ht v − 1` bands above band `maxHt − 1` -/
theorem C11_layer_formula (g g' : G) (h : execLongestPath g = .ok g') :
    ∃ memo, heights g = .ok memo ∧
      ∀ v, v < g.nodes.size → g'.layerOf v = (maxHt g memo : Int) - (((look memo v).getD 0 : Nat) : Int) := by
  unfold execLongestPath at h
  simp only [bind, Except.bind] at h
  cases hm : heights g with
  | error e => rw [hm] at h; cases h
  | ok memo =>
    rw [hm] at h
    simp only [pure, Except.pure, Except.ok.injEq] at h
    subst h
    refine ⟨memo, rfl, fun v hv => ?_⟩
    simp [G.layerOf, G.node, Array.getD_eq_getD_getElem?, hv, maxHt]

theorem foldl_max_ge11 (f : Nat → Nat) : ∀ (l : List Nat) (m : Nat), m ≤ l.foldl (fun m n => max m (f n)) m
  | [], m => Nat.le_refl _
  | x :: l, m => Nat.le_trans (Nat.le_max_left _ _) (foldl_max_ge11 f l _)

theorem le_foldl_max11 (f : Nat → Nat) : ∀ (l : List Nat) (m x : Nat), x ∈ l → f x ≤ l.foldl (fun m n => max m (f n)) m
  | a :: l, m, x, h => by
    rcases List.mem_cons.1 h with rfl | h
    · exact Nat.le_trans (Nat.le_max_right _ _) (foldl_max_ge11 f l _)
    · exact le_foldl_max11 f l _ x h

theorem foldl_max_attained (f : Nat → Nat) : ∀ (l : List Nat) (m : Nat),
    l.foldl (fun m n => max m (f n)) m = m ∨ ∃ x ∈ l, l.foldl (fun m n => max m (f n)) m = f x
  | [], m => Or.inl rfl
  | a :: l, m => by
    simp only [List.foldl_cons]
    rcases foldl_max_attained f l (max m (f a)) with h | ⟨x, hx, h⟩
    · rw [h]
      rcases Nat.le_total m (f a) with h1 | h1
      · right; exact ⟨a, List.mem_cons_self .., by rw [Nat.max_eq_right h1]⟩
      · left; rw [Nat.max_eq_left h1]
    · right; exact ⟨x, List.mem_cons_of_mem _ hx, h⟩

/-- some node of every non-empty acyclic state is a sink of height 1 (follow `att` downwards) -/
theorem exists_height_one {out : Nat → List Nat} {ht : Nat → Nat} (H : Heights out ht) (S : Nat → Prop)
    (hS : ∀ v, S v → ∀ w ∈ out v, S w) : ∀ (k : Nat) (v : Nat), S v → ht v = k → ∃ u, S u ∧ ht u = 1 := by
  intro k
  induction k using Nat.strongRecOn with
  | _ k ih =>
    intro v hv hk
    rcases H.att v with h1 | ⟨w, hw, _, e⟩
    · exact ⟨v, hv, h1⟩
    · exact ih (ht w) (by omega) w (hS v hv w hw) rfl

/-- C11: with LongestPath layering the layer list has exactly `maxHt` bands — the number of nodes on the longest directed path —,
    every node of height 1 (every sink) sits in the last one, and no band index exceeds it -/
theorem C11_band_count (g g' : G) (rank : Nat → Nat) (hR : ∀ v w, w ∈ outNbrs g v → w ≠ v → rank w < rank v)
    (hclosed : ∀ v, v ∉ g.nodeIds → outNbrs g v = []) (hwfE : ∀ v ∈ g.nodeIds, ∀ w ∈ outNbrs g v, w ∈ g.nodeIds)
    (hne : g.nodes.size ≠ 0) (h : execLongestPath g = .ok g') :
    ∃ memo, heights g = .ok memo ∧
      (∀ v, v < g.nodes.size → 0 ≤ g'.layerOf v ∧ g'.layerOf v ≤ (maxHt g memo : Int) - 1) ∧
      (∃ u, u < g.nodes.size ∧ g'.layerOf u = (maxHt g memo : Int) - 1) ∧
      (∃ t, t < g.nodes.size ∧ g'.layerOf t = 0) := by
  obtain ⟨memo, hm, hlay⟩ := C11_layer_formula g g' h
  have H := C11_heights g rank hR hclosed memo hm
  obtain ⟨_, _, hall⟩ := heightsLoop_spec g rank hR g.nodeIds [] memo (memoOK_nil _) hm
  have hht : ∀ v, v < g.nodes.size → (look memo v).getD 0 = htOf memo v := by
    intro v hv
    obtain ⟨hv1, hl⟩ := hall v (by simpa [G.nodeIds] using hv)
    simp [htOf, hl]
  have hle : ∀ v, v < g.nodes.size → (look memo v).getD 0 ≤ maxHt g memo := by
    intro v hv
    exact le_foldl_max11 (fun n => (look memo n).getD 0) g.nodeIds 0 v (by simpa [G.nodeIds] using hv)
  refine ⟨memo, hm, fun v hv => ?_, ?_, ?_⟩
  · rw [hlay v hv]
    have h1 := hle v hv
    have h2 : 1 ≤ (look memo v).getD 0 := by rw [hht v hv]; exact H.pos v
    omega
  · -- a sink
    have h0 : (0 : Nat) ∈ g.nodeIds := by simp [G.nodeIds]; omega
    obtain ⟨u, hu, hu1⟩ := exists_height_one H (fun v => v ∈ g.nodeIds) (fun v hv w hw => hwfE v hv w hw) _ 0 h0 rfl
    have hus : u < g.nodes.size := by simpa [G.nodeIds] using hu
    refine ⟨u, hus, ?_⟩
    rw [hlay u hus, hht u hus, hu1]; rfl
  · -- a node on top of a longest path
    rcases foldl_max_attained (fun n => (look memo n).getD 0) g.nodeIds 0 with h0 | ⟨t, ht, hmax⟩
    · -- maximum 0 is impossible: node 0 has height ≥ 1
      have h00 : 0 < g.nodes.size := by omega
      have := hle 0 h00
      have h1 : 1 ≤ (look memo 0).getD 0 := by rw [hht 0 h00]; exact H.pos 0
      unfold maxHt at this
      rw [h0] at this
      omega
    · have hts : t < g.nodes.size := by simpa [G.nodeIds] using ht
      refine ⟨t, hts, ?_⟩
      rw [hlay t hts]
      unfold maxHt
      rw [hmax]
      omega

example : (execLongestPath exLP).toOption.map (fun g => g.nodes.toList.map (·.layer)) = some [0, 1, 2] := by decide +kernel


/-- **C11 / C03 on every input**: for any non-empty edge list, any options, every component of more than one node and either cycle
    breaker: on whatever state phase 1 returns, the LongestPath layerer puts the target of every out-edge that is not a self-loop at
    least one layer BELOW its source — nothing assumed (adjacency consistency: `adjL_phase1`; acyclicity: the cycle test phase 1 runs
    last is complete, `C01_cycle_test_complete`) -/
theorem C11_longestpath_down_any_input (cfg : Cfg) (es : InEdges) (hne : es ≠ []) :
    ∃ cs, preProcess cfg es = .ok cs ∧ ∀ c ∈ cs, 2 ≤ c.1.nodes.size → ∀ alg g1, phase1 alg c.1 = .ok g1 →
      ∀ g', execLongestPath g1 = .ok g' → ∀ v ∈ g1.nodeIds, ∀ w ∈ outNbrs g1 v, w ≠ v → g'.layerOf v + 1 ≤ g'.layerOf w := by
  obtain ⟨cs, hcs⟩ := preProcess_total cfg es hne
  refine ⟨cs, hcs, fun c hc hn2 alg g1 h1 g' hlp v hv w hw hvw => ?_⟩
  have hn : (c.1.nodes.size == 1) = false := by simp; omega
  have hA := adjL_phase1 alg c.1 g1 (adjL_preProcess cfg es cs hcs c hc) h1
  obtain ⟨rank, hR⟩ := rank_of_acyclic g1 hA (phase1_ok_acyclic alg c.1 g1 hn h1)
  refine C11_longestpath_feasible g1 g' rank hR ?_ ?_ hlp v w hv hw hvw
  · intro x hx
    have hx' : ¬ x < g1.nodes.size := by simpa [G.nodeIds] using hx
    simp only [outNbrs, (node_default_lists g1 x hx').2, List.map_nil]
  · intro x _ y hy
    unfold outNbrs at hy
    obtain ⟨e, he, rfl⟩ := List.mem_map.1 hy
    have := (hA.toAdj.ends e (hA.toAdj.outs x e he).1).2
    simpa [G.nodeIds] using this

end Autog
