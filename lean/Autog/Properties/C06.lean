import Autog.Model.Phase5
import Autog.Lemmas.BreakMergeChains
import Autog.Properties.C05
import Autog.Lemmas.Placement
/-! # C06 — route geometry matches the routing style

    Theorems about the router formulas of the model (Autog/Model/Phase5.lean, compared with the real routers by `T:phase5`
    on every traced run).
    * Ortho: the point list the model builds for ANY node chain consists solely of horizontal and vertical segments —
      inside each 4-point group and across consecutive groups (the end point of one group and the start point of the
      next sit on the same node centre) — for all coordinates, widths, heights and layer heights.
    * Straight: exactly two points. Polyline: `|ns|` points for a chain `ns`, one bend per inner node, at that helper node's
      centre x and at mid-height of its band (`C06_polyline_bends`, `C06_polyline_point_count`).
    * Bends and rectangles: in a separated layer (what C04 proves for the positioners) with non-negative widths the centre x of a
      node is never strictly inside the horizontal extent of another node of the layer (`C06_bend_outside_rect`).
    PARTIAL: that the chain `ns` produced by `mergeLongEdges` lists one helper node per intermediate band is decided per run by the
    predicates; splines by predicate only. -/

namespace Autog

/-- horizontal-or-vertical steps only -/
def AxisPar : List Pt → Prop
  | p :: q :: rest => (p.1 = q.1 ∨ p.2 = q.2) ∧ AxisPar (q :: rest)
  | _ => True

theorem orthoPoints_head_x (g : G) (ls layerh : Rat) (a b : Nat) (rest : List Nat) :
    ∃ y tl, orthoPoints g ls layerh (a :: b :: rest) = ((g.node a).x + (g.node a).w / 2, y) :: tl := by
  simp only [orthoPoints, orthoGroup, startPoint]
  split <;> exact ⟨_, _, rfl⟩

theorem AxisPar_append_of_join : ∀ (l₁ l₂ : List Pt) (p q : Pt), AxisPar (l₁ ++ [p]) → AxisPar (q :: l₂) →
    (p.1 = q.1 ∨ p.2 = q.2) → AxisPar (l₁ ++ p :: q :: l₂)
  | [], l₂, p, q, _, h2, hj => ⟨hj, h2⟩
  | [a], l₂, p, q, h1, h2, hj => by
    simp only [List.cons_append, List.nil_append, AxisPar] at h1 ⊢
    exact ⟨h1.1, hj, h2⟩
  | a :: b :: l₁, l₂, p, q, h1, h2, hj => by
    simp only [List.cons_append, AxisPar] at h1 ⊢
    exact ⟨h1.1, AxisPar_append_of_join (b :: l₁) l₂ p q h1.2 h2 hj⟩

/-- C06 (Ortho): every step of the orthogonal route is horizontal or vertical -/
theorem C06_ortho_axis_parallel (g : G) (ls layerh : Rat) : ∀ (ns : List Nat), AxisPar (orthoPoints g ls layerh ns)
  | [] => trivial
  | [_] => trivial
  | [a, b] => by
    simp only [orthoPoints, orthoGroup, List.append_nil, AxisPar]
    split <;> simp
  | a :: b :: c :: rest => by
    have ih := C06_ortho_axis_parallel g ls layerh (b :: c :: rest)
    obtain ⟨y, tl, htl⟩ := orthoPoints_head_x g ls layerh b c rest
    have hgrp : orthoPoints g ls layerh (a :: b :: c :: rest) =
        orthoGroup g ls layerh a b ++ orthoPoints g ls layerh (b :: c :: rest) := rfl
    rw [hgrp, htl]
    rw [htl] at ih
    -- the group ends at endPoint b = (centre of b, …); the next group starts at the same x
    have hg : ∃ p0 p1 p2, orthoGroup g ls layerh a b = [p0, p1, p2] ++ [endPoint g b] ∧ AxisPar ([p0, p1, p2] ++ [endPoint g b]) := by
      simp only [orthoGroup]
      split <;> exact ⟨_, _, _, rfl, by simp [AxisPar]⟩
    obtain ⟨p0, p1, p2, hge, hax⟩ := hg
    rw [hge, List.append_assoc]
    exact AxisPar_append_of_join [p0, p1, p2] tl (endPoint g b) _ hax ih (Or.inl (by simp [endPoint]))

/-- Straight: two points, bottom centre of the first chain node and top centre of the last -/
theorem C06_straight_two_points (g : G) (a b : Nat) :
    straight g a b = [((g.node a).x + (g.node a).w / 2, (g.node a).y + (g.node a).h),
                      ((g.node b).x + (g.node b).w / 2, (g.node b).y)] := rfl

/-! ### Polyline -/

theorem mapM_length {α β} (f : α → M β) : ∀ (l : List α) (r : List β), l.mapM f = .ok r → r.length = l.length
  | [], r, h => by simp only [List.mapM_nil, pure, Except.pure, Except.ok.injEq] at h; subst h; rfl
  | a :: l, r, h => by
    simp only [List.mapM_cons, bind, Except.bind] at h
    cases ha : f a with
    | error e => rw [ha] at h; cases h
    | ok b =>
      rw [ha] at h
      simp only at h
      cases hl : l.mapM f with
      | error e => rw [hl] at h; cases h
      | ok bs =>
        rw [hl] at h
        simp only [pure, Except.pure, Except.ok.injEq] at h
        subst h
        simp [mapM_length f l bs hl]

theorem mapM_mem {α β} (f : α → M β) : ∀ (l : List α) (r : List β), l.mapM f = .ok r → ∀ b ∈ r, ∃ a ∈ l, f a = .ok b
  | [], r, h, b, hb => by simp only [List.mapM_nil, pure, Except.pure, Except.ok.injEq] at h; subst h; cases hb
  | a :: l, r, h, b, hb => by
    simp only [List.mapM_cons, bind, Except.bind] at h
    cases ha : f a with
    | error e => rw [ha] at h; cases h
    | ok b0 =>
      rw [ha] at h
      simp only at h
      cases hl : l.mapM f with
      | error e => rw [hl] at h; cases h
      | ok bs =>
        rw [hl] at h
        simp only [pure, Except.pure, Except.ok.injEq] at h
        subst h
        rcases List.mem_cons.1 hb with rfl | hb
        · exact ⟨a, List.mem_cons_self .., ha⟩
        · obtain ⟨a', ha', hf⟩ := mapM_mem f l bs hl b hb
          exact ⟨a', List.mem_cons_of_mem _ ha', hf⟩

/-- Polyline: the bends of a chain `ns` — one per INNER node of the chain, in order, each at the centre x of its (helper) node and
    at mid-height of that node's band; a bend on a real node is an error of the model (the code panics) -/
theorem C06_polyline_bends (g : G) (ns : List Nat) (mids : List Pt) (h : (ns.tail.dropLast).mapM (nonTerminalPoint g) = .ok mids) :
    mids.length = ns.length - 2 ∧
    ∀ p ∈ mids, ∃ n ∈ ns.tail.dropLast, (g.node n).virt = true ∧
      p = ((g.node n).x + (g.node n).w / 2, (g.node n).y + layerH g (g.node n).layer / 2) := by
  refine ⟨by rw [mapM_length _ _ _ h]; simp; omega, fun p hp => ?_⟩
  obtain ⟨n, hn, hf⟩ := mapM_mem _ _ _ h p hp
  refine ⟨n, hn, ?_⟩
  unfold nonTerminalPoint at hf
  simp only [bind, Except.bind, pure, Except.pure] at hf
  cases hv : (g.node n).virt with
  | false => simp [hv, throw, throwThe, MonadExceptOf.throw] at hf
  | true =>
    simp only [hv, Bool.not_true, Bool.false_eq_true, if_false, Except.ok.injEq] at hf
    exact ⟨rfl, hf.symm⟩

/-- … so a polyline route of a chain with k inner nodes has exactly k + 2 points -/
theorem C06_polyline_point_count (g : G) (ns : List Nat) (mids : List Pt) (hlen : 2 ≤ ns.length)
    (h : (ns.tail.dropLast).mapM (nonTerminalPoint g) = .ok mids) :
    ([startPoint g ns.head!] ++ mids ++ [endPoint g ns.getLast!]).length = ns.length := by
  have := (C06_polyline_bends g ns mids h).1
  simp only [List.length_append, List.length_cons, List.length_nil]
  omega

/-- C06 (Ortho), for the router as a whole: when it returns, every routed edge that held no points before — and whose chain runs
    between the edge's own two end nodes — consists solely of horizontal and vertical segments -/
theorem C06_ortho_router (ls : Rat) (g g' : G) (routes : List (Nat × List Nat)) (h : routeOrtho ls g routes = .ok g')
    (hnd : (routes.map (·.1)).Nodup) (hb : ∀ r ∈ routes, r.1 < g.edges.size) (hempty : ∀ r ∈ routes, (g.edge r.1).pts = [])
    (hends : ∀ r ∈ routes, (r.2.head! = (g.edge r.1).src ∧ r.2.getLast! = (g.edge r.1).dst) ∨
                           (r.2.head! = (g.edge r.1).dst ∧ r.2.getLast! = (g.edge r.1).src)) :
    ∀ r ∈ routes, AxisPar (g'.edge r.1).pts := by
  have := (routeFold_spec (orthoStep ls)
    (fun g r p => (g.edge r.1).pts = [] →
      ((r.2.head! = (g.edge r.1).src ∧ r.2.getLast! = (g.edge r.1).dst) ∨
       (r.2.head! = (g.edge r.1).dst ∧ r.2.getLast! = (g.edge r.1).src)) → AxisPar p)
    (fun g r g1 hs => by
      unfold orthoStep at hs
      simp only at hs
      split at hs
      · cases hs
      · split at hs
        · rename_i hal
          simp only [pure, Except.pure, Except.ok.injEq] at hs
          refine ⟨_, hs.symm, fun _ he => ?_⟩
          have hal' : (g.node (g.edge r.1).src).x + (g.node (g.edge r.1).src).w / 2 =
              (g.node (g.edge r.1).dst).x + (g.node (g.edge r.1).dst).w / 2 := by simpa using hal
          simp only [straight, startPoint, endPoint, AxisPar, and_true]
          left
          rcases he with ⟨h1, h2⟩ | ⟨h1, h2⟩
          · rw [h1, h2]; exact hal'
          · rw [h1, h2]; exact hal'.symm
        · simp only [pure, Except.pure, Except.ok.injEq] at hs
          refine ⟨_, hs.symm, fun he _ => ?_⟩
          rw [he, List.nil_append]
          exact C06_ortho_axis_parallel g ls _ r.2)
    (fun g e q r p hne hp he hc => by
      have hsd : ((setPts g e q).edge r.1).src = (g.edge r.1).src ∧ ((setPts g e q).edge r.1).dst = (g.edge r.1).dst := by
        unfold setPts; rw [G.edge_modEdge]; split <;> exact ⟨rfl, rfl⟩
      exact hp (by rw [pts_setPts_ne g e r.1 q hne]; exact he) (by rw [hsd.1, hsd.2]; exact hc)) routes g g' h hnd hb).1
  intro r hr
  exact this r hr (hempty r hr) (hends r hr)

/-- break/merge: the route of a merged edge is its chain (lemma library) -/
theorem C06_chain_last_real : type_of% @BreakMergeChains.Linked.last_real := @BreakMergeChains.Linked.last_real

example : AxisPar (orthoPoints
    { nodes := #[{ id := "a", x := 0, y := 0, w := 10, h := 4 }, { id := "V1", x := 30, y := 20, virt := true }, { id := "b", x := 7, y := 50, w := 6, h := 3 }] }
    10 6 [0, 1, 2]) := C06_ortho_axis_parallel _ _ _ _


/-! ### bends stay outside node rectangles (horizontally), from the separation C04 proves -/

open Phase4Simple in
/-- in a separated layer the left edge of a later node is right of the right edge of every earlier node -/
theorem separated_far (ns : Rat) (hns : 0 ≤ ns) : ∀ (xs ws : List Rat), xs.length = ws.length → Separated ns xs ws →
    (∀ w ∈ ws, 0 ≤ w) → ∀ i j, i < j → j < xs.length → xs.getD i 0 + ws.getD i 0 + ns ≤ xs.getD j 0
  | [], _, _, _, _, _, _, _, hj => by simp at hj
  | [x], _, _, _, _, i, j, hij, hj => by simp at hj; omega
  | x :: y :: xs, [], h, _, _, _, _, _, _ => by simp at h
  | x :: y :: xs, w :: ws, hlen, hsep, hw, i, j, hij, hj => by
    simp only [Separated] at hsep
    have ih := separated_far ns hns (y :: xs) ws (by simpa using hlen) hsep.2 (fun v hv => hw v (List.mem_cons_of_mem _ hv))
    match i, j, hij with
    | 0, 1, _ => simpa using hsep.1
    | 0, j + 2, _ =>
      -- x + w + ns ≤ y ≤ y + w_y + ns ≤ x_{j+2}
      have h1 := ih 0 (j + 1) (by omega) (by simpa using hj)
      have hwy : 0 ≤ ws.getD 0 0 := by
        cases ws with
        | nil => simp at hlen
        | cons v _ => simpa using hw v (by simp)
      simp only [List.getD_cons_zero, List.getD_cons_succ] at h1 ⊢
      have := hsep.1
      grind
    | i + 1, j + 1, hij' =>
      simpa only [List.getD_cons_succ] using ih i j (by omega) (by simpa using hj)

open Phase4Simple in
/-- **C06 (bends and rectangles)**: in a layer whose nodes are separated (what C04 proves for the positioners) and have
    non-negative widths, the centre x of a node — where the polyline and orthogonal routers put the bend of a helper node
    (`C06_polyline_bends`) — is never strictly inside the horizontal extent of ANOTHER node of that layer -/
theorem C06_bend_outside_rect (ns : Rat) (hns : 0 ≤ ns) (xs ws : List Rat) (hlen : xs.length = ws.length)
    (hsep : Separated ns xs ws) (hw : ∀ w ∈ ws, 0 ≤ w) (i j : Nat) (hi : i < xs.length) (hj : j < xs.length) (hij : i ≠ j) :
    ¬ (xs.getD j 0 < xs.getD i 0 + ws.getD i 0 / 2 ∧ xs.getD i 0 + ws.getD i 0 / 2 < xs.getD j 0 + ws.getD j 0) := by
  have hwi : 0 ≤ ws.getD i 0 := by
    have : i < ws.length := by omega
    have h2 : ws.getD i 0 = ws[i] := by simp [List.getD_eq_getElem?_getD, this]
    rw [h2]; exact hw _ (List.getElem_mem _)
  have hhalf : 0 ≤ ws.getD i 0 / 2 ∧ ws.getD i 0 / 2 ≤ ws.getD i 0 := by
    rw [Rat.div_def]; constructor <;> grind
  rcases Nat.lt_or_gt_of_ne hij with h | h
  · have := separated_far ns hns xs ws hlen hsep hw i j h hj
    intro ⟨h1, _⟩; grind
  · have := separated_far ns hns xs ws hlen hsep hw j i h hi
    intro ⟨_, h2⟩; grind

example : Phase4Simple.Separated 10 [0, 30, 40] [20, 0, 20] ∧ (∀ w ∈ ([20, 0, 20] : List Rat), 0 ≤ w) := by
  refine ⟨by simp only [Phase4Simple.Separated]; decide +kernel, by decide +kernel⟩

end Autog
