import Autog.Lemmas.BreakMergeChains
/-! # C06
    Route geometry. First pass: chain structure of routes. -/

namespace Autog

theorem C06_chain_last_real : type_of% @BreakMergeChains.Linked.last_real := @BreakMergeChains.Linked.last_real

end Autog
