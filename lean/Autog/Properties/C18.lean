import Autog.Lemmas.MonitorMachine
/-! # C18
    Monitor only observes its own call. -/

namespace Autog

theorem C18_call : type_of% @MonitorMachine.C18_call := @MonitorMachine.C18_call

theorem C18_history : type_of% @MonitorMachine.C18_history := @MonitorMachine.C18_history

end Autog
