import Autog.Lemmas.Layers
import Autog.Model.Phase4
import Autog.Model.Pipeline
import Autog.Lemmas.Frame
import Autog.Lemmas.StaticP4
import Autog.Lemmas.LayersPipeline
/-! # C16 — VAlign centres and PackRight right-aligns every band with exact spacing

    Theorems about the model functions `execVerticalAlign` and `execPackRight` (Autog/Model/Phase4.lean), which the
    correspondence suites `T:phase4-valign` / `T:phase4-packright` compare with the real positioners on every traced run.
    A band is a layer list (helper nodes included); `xsOf g l` / `widthsOf g l` are its left edges and widths in layer
    order. All statements hold for every graph state with well-formed layer lists, every width list and every NodeSpacing
    (signs matter only for "the leftmost node is at 0"). -/

namespace Autog
open Phase4Simple

/-! ## VAlign -/

/-- read-back: the x coordinates VAlign leaves in a band are `valign ns maxW widths`, and widths are untouched -/
theorem C16_valign_coordinates (ns : Rat) (g : G) (hwf : LayersWF g) (l : Layer) (hl : l ∈ g.layers.toList) :
    xsOf (execVerticalAlign ns g) l = valign ns (maxLayerW ns g) (widthsOf g l) ∧
    widthsOf (execVerticalAlign ns g) l = widthsOf g l := by
  constructor
  · have hplan : PlWF { g with layers := valignLayers ns g } (valignPlan ns g) :=
      plwf_of_layers { g with layers := valignLayers ns g } g rfl hwf (fun l => valign ns (maxLayerW ns g) (widthsOf g l)) (fun l _ => by simp [valign, widthsOf])
    exact placeAll_xs _ _ hplan (l.nodes, valign ns (maxLayerW ns g) (widthsOf g l)) (List.mem_map.2 ⟨l, hl, rfl⟩)
  · unfold widthsOf
    apply List.map_congr_left
    intro n _
    exact w_of_dropX (placeAll_dropX (valignPlan ns g) { g with layers := valignLayers ns g } n)

/-- consecutive nodes of a band are exactly `width + NodeSpacing` apart -/
theorem C16_valign_spacing (ns : Rat) (g : G) (hwf : LayersWF g) (l : Layer) (hl : l ∈ g.layers.toList) :
    Spaced ns (xsOf (execVerticalAlign ns g) l) (widthsOf (execVerticalAlign ns g) l) := by
  obtain ⟨h1, h2⟩ := C16_valign_coordinates ns g hwf l hl
  rw [h1, h2]; exact placeFrom_spaced _ _ _

/-- the extent of a non-empty band is the sum of its widths plus NodeSpacing between consecutive nodes, and the
    band is centred: left end + right end = maxW for every band -/
theorem C16_valign_extent_and_centre (ns : Rat) (g : G) (hwf : LayersWF g) (l : Layer) (hl : l ∈ g.layers.toList)
    (w : Rat) (ws : List Rat) (hws : widthsOf g l = w :: ws) :
    ∃ x xs, xsOf (execVerticalAlign ns g) l = x :: xs ∧
      lastRight (x :: xs) (w :: ws) - x = layerW ns (w :: ws) ∧
      x + lastRight (x :: xs) (w :: ws) = maxLayerW ns g := by
  obtain ⟨h1, _⟩ := C16_valign_coordinates ns g hwf l hl
  rw [h1, hws]
  refine ⟨(maxLayerW ns g - layerW ns (w :: ws)) / 2, placeFrom ((maxLayerW ns g - layerW ns (w :: ws)) / 2 + w + ns) ns ws, rfl, ?_, ?_⟩
  · have := extent ((maxLayerW ns g - layerW ns (w :: ws)) / 2) ns w ws
    simp only [placeFrom] at this; rw [this]; grind
  · have := extent ((maxLayerW ns g - layerW ns (w :: ws)) / 2) ns w ws
    simp only [placeFrom] at this; rw [this]; grind

/-- no band starts left of 0, and a band of maximal width starts exactly at 0 -/
theorem C16_valign_leftmost (ns : Rat) (g : G) (hwf : LayersWF g) (l : Layer) (hl : l ∈ g.layers.toList)
    (w : Rat) (ws : List Rat) (hws : widthsOf g l = w :: ws) :
    ∃ x xs, xsOf (execVerticalAlign ns g) l = x :: xs ∧ 0 ≤ x ∧
      (layerW ns (w :: ws) = maxLayerW ns g → x = 0) := by
  obtain ⟨h1, _⟩ := C16_valign_coordinates ns g hwf l hl
  rw [h1, hws]
  refine ⟨(maxLayerW ns g - layerW ns (w :: ws)) / 2, _, rfl, ?_, fun h => by rw [h]; grind⟩
  have hle : layerW ns (w :: ws) ≤ maxLayerW ns g := by
    unfold maxLayerW
    apply le_foldl_maxRat
    exact List.mem_map.2 ⟨l, hl, by rw [hws]⟩
  exact valign_nonneg ns _ _ hle

/-- some band does start at 0 when a band of non-negative width exists (the maximum is attained) -/
theorem C16_valign_max_attained (ns : Rat) (g : G) :
    maxLayerW ns g = 0 ∨ ∃ l ∈ g.layers.toList, layerW ns (widthsOf g l) = maxLayerW ns g := by
  unfold maxLayerW
  rcases foldl_maxRat_mem (g.layers.toList.map fun l => layerW ns (widthsOf g l)) 0 with h | h
  · exact Or.inl h
  · obtain ⟨l, hl, he⟩ := List.mem_map.1 h
    exact Or.inr ⟨l, hl, he⟩

/-! ## PackRight -/

theorem packRightRaw_eq (ns : Rat) (g : G) (l : Layer) :
    packRightRaw ns g l = placeFrom (0 - tot ns (widthsOf g l)) ns (widthsOf g l) := by
  unfold packRightRaw; exact packRight_eq_placeFrom ns 0 _

/-- read-back for PackRight (the layer heights it also updates do not touch nodes) -/
theorem C16_packright_coordinates (ns : Rat) (g : G) (hwf : LayersWF g) (l : Layer) (hl : l ∈ g.layers.toList) :
    xsOf (execPackRight ns g) l = (packRightRaw ns g l).map (· - packLeftBound ns g) ∧
    widthsOf (execPackRight ns g) l = widthsOf g l := by
  constructor
  · have hplan : PlWF g (packRightPlan ns g) :=
      plwf_of_layers g g rfl hwf (fun l => (packRightRaw ns g l).map (· - packLeftBound ns g))
        (fun l _ => by simp [packRightRaw, packRight_eq_placeFrom, widthsOf])
    exact placeAll_xs _ _ hplan (l.nodes, (packRightRaw ns g l).map (· - packLeftBound ns g)) (List.mem_map.2 ⟨l, hl, rfl⟩)
  · unfold widthsOf
    apply List.map_congr_left
    intro n _
    exact w_of_dropX (placeAll_dropX (packRightPlan ns g) g n)

theorem C16_packright_spacing (ns : Rat) (g : G) (hwf : LayersWF g) (l : Layer) (hl : l ∈ g.layers.toList) :
    Spaced ns (xsOf (execPackRight ns g) l) (widthsOf (execPackRight ns g) l) := by
  obtain ⟨h1, h2⟩ := C16_packright_coordinates ns g hwf l hl
  rw [h1, h2, packRightRaw_eq]
  exact spaced_shift ns _ _ _ (placeFrom_spaced _ _ _)

/-- the right ends of all non-empty bands coincide (at `−NodeSpacing − leftBound`), and the extent is exact -/
theorem C16_packright_right_end (ns : Rat) (g : G) (hwf : LayersWF g) (l : Layer) (hl : l ∈ g.layers.toList)
    (w : Rat) (ws : List Rat) (hws : widthsOf g l = w :: ws) :
    lastRight (xsOf (execPackRight ns g) l) (w :: ws) = 0 - ns - packLeftBound ns g := by
  obtain ⟨h1, _⟩ := C16_packright_coordinates ns g hwf l hl
  rw [h1, lastRight_shift _ _ _ (by simp [packRightRaw_eq, hws]) (by simp [packRightRaw_eq, hws, placeFrom])]
  unfold packRightRaw
  rw [hws, packRight_right]

/-- no node is left of 0; and the leftmost node is at 0 as soon as some raw coordinate is ≤ 0
    (always the case for non-negative widths and spacing: the raw coordinates are `−Σ(w+ns)`) -/
theorem C16_packright_leftmost (ns : Rat) (g : G) (hwf : LayersWF g) (l : Layer) (hl : l ∈ g.layers.toList) :
    (∀ x ∈ xsOf (execPackRight ns g) l, 0 ≤ x) ∧
    (packLeftBound ns g = 0 ∨ ∃ l' ∈ g.layers.toList, ∃ x ∈ xsOf (execPackRight ns g) l', x = 0) := by
  constructor
  · intro x hx
    rw [(C16_packright_coordinates ns g hwf l hl).1] at hx
    obtain ⟨r, hr, rfl⟩ := List.mem_map.1 hx
    have : packLeftBound ns g ≤ r := by
      unfold packLeftBound
      exact foldl_minRat_le _ _ _ (List.mem_flatMap.2 ⟨l, hl, hr⟩)
    grind
  · unfold packLeftBound
    rcases foldl_minRat_mem (g.layers.toList.flatMap (packRightRaw ns g)) 0 with h | h
    · exact Or.inl h
    · obtain ⟨l', hl', hr⟩ := List.mem_flatMap.1 h
      refine Or.inr ⟨l', hl', _, ?_, rfl⟩
      rw [(C16_packright_coordinates ns g hwf l' hl').1]
      refine List.mem_map.2 ⟨_, hr, ?_⟩
      unfold packLeftBound; grind

/-! ## non-vacuity: a concrete state with two bands, a helper node of width 0 in the second -/

def exG : G :=
  { nodes := #[{ id := "a", w := 40 }, { id := "b", w := 10 }, { id := "V1", w := 0, virt := true }, { id := "c", w := 25 }],
    layers := #[{ index := 0, nodes := [0] }, { index := 1, nodes := [2, 1, 3] }] }

example : LayersWF exG := ⟨by decide, by decide⟩
example : xsOf (execVerticalAlign 5 exG) (exG.layers.toList[1]!) = [0, 5, 20] := by decide +kernel
example : xsOf (execVerticalAlign 5 exG) (exG.layers.toList[0]!) = [5 / 2] := by decide +kernel
example : xsOf (execPackRight 5 exG) (exG.layers.toList[1]!) = [0, 5, 20] := by decide +kernel
example : xsOf (execPackRight 5 exG) (exG.layers.toList[0]!) = [5] := by decide +kernel

end Autog

namespace Autog

/-! ## end to end: what the composed model `layoutModel` returns for a component positioned by VAlign / PackRight -/

theorem phase4Model_valign (cfg : Cfg) (h : cfg.p4 = 1) (g : G) (hn : (g.nodes.size == 1) = false) :
    phase4Model cfg g = .ok (assignYCoords cfg.ls (execVerticalAlign cfg.ns g)) := by
  unfold phase4Model phase4Simple
  simp [hn, h, bind, Except.bind, pure, Except.pure]

theorem phase4Model_packright (cfg : Cfg) (h : cfg.p4 = 2) (g : G) (hn : (g.nodes.size == 1) = false) :
    phase4Model cfg g = .ok (assignYCoords cfg.ls (execPackRight cfg.ns g)) := by
  unfold phase4Model phase4Simple
  simp [hn, h, bind, Except.bind, pure, Except.pure]

/-- Y assignment does not move anything horizontally -/
theorem assignY_keeps_x (ls : Rat) (g : G) (n : Nat) :
    ((assignYCoords ls g).node n).x = (g.node n).x ∧ ((assignYCoords ls g).node n).w = (g.node n).w := by
  have := placeY_dropY (assignYPlan ls g) g n
  have hx := congrArg Node.x this
  have hw := congrArg Node.w this
  simp only [Node.dropY] at hx hw
  exact ⟨hx, hw⟩

/-- END TO END (VAlign): whatever router runs and however many self-loops are restored, the nodes the composed model hands to
    the caller for this component are exactly those of `assignYCoords (execVerticalAlign …)`, shifted by the running offset —
    so the exact spacing / extent / centring statements above are statements about the public result -/
theorem C16_public_nodes_valign (cfg : Cfg) (hp4 : cfg.p4 = 1) (shift : Rat) (ci : Nat) (g3 g5 : G) (loops : List Nat)
    (hn : (g3.nodes.size == 1) = false)
    (h5 : phase5 cfg.p5 cfg.ls (assignYCoords cfg.ls (execVerticalAlign cfg.ns g3)) = .ok g5) :
    phase4Model cfg g3 = .ok (assignYCoords cfg.ls (execVerticalAlign cfg.ns g3)) ∧
    (collectComp cfg shift ci (postProcess g5 loops)).nodes =
      (collectComp cfg shift ci (assignYCoords cfg.ls (execVerticalAlign cfg.ns g3))).nodes :=
  ⟨phase4Model_valign cfg hp4 g3 hn, (public_nodes_from_phase4 cfg shift ci _ g5 loops h5).1⟩

theorem C16_public_nodes_packright (cfg : Cfg) (hp4 : cfg.p4 = 2) (shift : Rat) (ci : Nat) (g3 g5 : G) (loops : List Nat)
    (hn : (g3.nodes.size == 1) = false)
    (h5 : phase5 cfg.p5 cfg.ls (assignYCoords cfg.ls (execPackRight cfg.ns g3)) = .ok g5) :
    phase4Model cfg g3 = .ok (assignYCoords cfg.ls (execPackRight cfg.ns g3)) ∧
    (collectComp cfg shift ci (postProcess g5 loops)).nodes =
      (collectComp cfg shift ci (assignYCoords cfg.ls (execPackRight cfg.ns g3))).nodes :=
  ⟨phase4Model_packright cfg hp4 g3 hn, (public_nodes_from_phase4 cfg shift ci _ g5 loops h5).1⟩

end Autog

namespace Autog

/-! ## the widths the positioners see are the caller's sizes -/

/-- END TO END: in every band the positioner lays out, the width of a real node is the size the caller configured for it and the
    width of a helper node is 0 — so the exact-extent, centring and right-alignment statements above are statements in terms of
    the caller's sizes -/
theorem C16_widths_from_input (ord : G → M G) (hord : ∀ g g', ord g = .ok g' → StatEq g g') (cfg : Cfg) (g0 g1 g2 g3 : G)
    (h1 : phase1 cfg.p1 g0 = .ok g1) (h2 : phase2Model cfg g1 = .ok g2) (h3 : phase3Model ord g2 = .ok g3)
    (hwf : LayersWF g3) (l : Layer) (hl : l ∈ g3.layers.toList) :
    widthsOf g3 l = l.nodes.map fun n => if n < g0.nodes.size then (g0.node n).w else 0 := by
  unfold widthsOf
  apply List.map_congr_left
  intro n hn
  exact statEq_width g0 g3 (statEq_upto_phase3 ord hord cfg g0 g1 g2 g3 h1 h2 h3) n
    (hwf.bound n (List.mem_flatMap.2 ⟨l, hl, hn⟩))

end Autog

namespace Autog

/-- END TO END: the hypothesis `LayersWF` of every statement above is itself a theorem about the composed model — the state phase 3
    hands to the positioner always has well-formed layer lists, whatever the input (`layersWF_upto_phase3`: the layer construction
    partitions the node numbers, cutting long edges appends fresh helper nodes, the ordering model only reorders) -/
theorem C16_pipeline_layersWF : type_of% @layersWF_upto_phase3 := @layersWF_upto_phase3

/-- … so, on the composed model, exact spacing of every band under VAlign needs no assumption at all -/
theorem C16_valign_spacing_on_pipeline (cfg : Cfg) (g1 g2 g3 : G) (h2 : phase2Model cfg g1 = .ok g2)
    (h3 : phase3Model (fun g => (orderWMedianP 24 g).map (·.1)) g2 = .ok g3) (l : Layer) (hl : l ∈ g3.layers.toList) :
    Phase4Simple.Spaced cfg.ns (xsOf (execVerticalAlign cfg.ns g3) l) (widthsOf (execVerticalAlign cfg.ns g3) l) :=
  C16_valign_spacing cfg.ns g3 (layersWF_upto_phase3 cfg g1 g2 g3 h2 h3) l hl

theorem C16_packright_spacing_on_pipeline (cfg : Cfg) (g1 g2 g3 : G) (h2 : phase2Model cfg g1 = .ok g2)
    (h3 : phase3Model (fun g => (orderWMedianP 24 g).map (·.1)) g2 = .ok g3) (l : Layer) (hl : l ∈ g3.layers.toList) :
    Phase4Simple.Spaced cfg.ns (xsOf (execPackRight cfg.ns g3) l) (widthsOf (execPackRight cfg.ns g3) l) :=
  C16_packright_spacing cfg.ns g3 (layersWF_upto_phase3 cfg g1 g2 g3 h2 h3) l hl

end Autog
