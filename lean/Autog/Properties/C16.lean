import Autog.Lemmas.Phase4Simple
/-! # C16
    VAlign/PackRight exact extents. -/

namespace Autog

theorem C16_extent : type_of% @Phase4Simple.extent := @Phase4Simple.extent

theorem C16_valign_mid : type_of% @Phase4Simple.valign_mid := @Phase4Simple.valign_mid

theorem C16_packBack_right : type_of% @Phase4Simple.packBack_right := @Phase4Simple.packBack_right

end Autog
