import Autog.Model.Pipeline
import Autog.Lemmas.AcyclicRank
import Autog.Lemmas.BreakFuel
import Autog.Lemmas.DfsHasCycles
import Autog.Lemmas.GreedyAssignedOnce
import Autog.Lemmas.NsInitLayersKahn
import Autog.Lemmas.ComponentsDfs
import Autog.Lemmas.HasCyclesTotal
import Autog.Lemmas.LongestPathTotal
import Autog.Lemmas.DfsBreakerTotal
import Autog.Lemmas.ComponentsTotal
import Autog.Lemmas.TightTreeFuel
import Autog.Lemmas.InitDfsFuel
import Autog.Lemmas.BlockWide
import Autog.Lemmas.Adj
import Autog.Properties.C14
/-! # C01 — Layout always returns

    PARTIAL. In the composed model `layoutModel` (Autog/Model/Pipeline.lean) every explicit `panic` of the modelled code, every
    unguarded slice index and every loop or recursion without a syntactic bound is an `Except.error` ("panic:…", "fuel:…"); the
    correspondence keys fail as soon as the model errs where the code does not (or the other way round), on every traced run, and the
    `Totality` fact lists pin the panic sites, unbounded loops and recursive functions of /repo that the model's error sites stand for.
    Proved for all inputs:
    * phases with no error site at all: `C01_valign_packright_total`, `C01_collect_total` (pure functions), `C01_assignY_total`;
    * `C01_longestpath_layers_nonneg` + `C01_layers_total`: after LongestPath every layer index is ≥ 0, so the layer-list construction
      cannot index out of range (the D5 failure mode) — for every graph state;
    * `C01_cycle_test_total`: the model's cycle test (run twice in every phase 1) NEVER runs out of fuel and never fails, on every graph
      state whose out-lists point into the node store (`EdgesWF`, a decidable contract evaluated on every traced run as `K:edgesWF`):
      with a weight of out-degree + 2 per node that is neither finished nor on the stack and todo + 1 per frame, every step of the
      machine lowers the measure (`run_no_fuelOut`), which starts below the model's budget 2·E + 2·V + 4;
    * `C01_preprocess_total`: EVERYTHING before phase 1 (id interning, size options, the split into connected components by the
      edge-marking DFS, self-loop stripping) returns on the model for every non-empty edge list, with no well-formedness hypothesis:
      the graph `Populate` builds has incidence lists inside the edge store (`populate_incWF`), and the component walk, which recurses
      once per marked EDGE, lowers a measure of (todo + 1) per frame plus 2·E + 1 per unmarked edge at every step
      (`C01_component_walk_never_out_of_fuel`), starting below the model's budget (E + 2)(2E + 2) + 2;
    * `C01_tight_tree_total`, `C01_tree_numbering_total`: the two depth-first walks inside the network simplex — the tight-tree search run
      in every round of `feasibleTree`, and the lim/low numbering run after every pivot — are edge-marking walks like the component
      walk and return, by the same measure, on every state whose incidence lists stay inside the edge store, within the model's
      budget (E + 2)(2E + 2) + 2V + 4;
    * `C01_init_positions_total`: the DFS initialisation of the ordering phase (run from the top and from the bottom in every call with
      more than one layer) returns on ANY state whose continuation lists stay inside the node store and are together no longer than
      the edge store — a node is expanded at most once (`C01_init_walk_never_out_of_fuel`);
    * on the machines the models run: the cycle test is complete (`C01_hasCycles_complete`), the greedy breaker ranks every node
      exactly once for every pick oracle (`C01_greedy_assigns_every_node_once`), Kahn initialisation processes every node of a DAG
      (`C01_ns_init_processes_every_node`), the component DFS closes (`C01_components_closed_connected`).
    * `C01_upto_tight_tree_any_input`: for EVERY non-empty edge list and option set the pre-processing returns, every component it
      returns is adjacency consistent (`adjL_preProcess`) and stays so through phase 1 with either breaker, so both cycle tests, the
      depth-first breaker and the tight-tree walk of the layerers return — no well-formedness hypothesis left;
    * `C01_longestpath_layering_any_input`: for EVERY non-empty edge list and option set with the LongestPath layerer, every component
      of more than one node and either breaker: whatever phase 1 returns, phase 2 returns (longest-path traversal, layer assignment, layer
      list) — acyclicity comes from the completeness of the cycle test through its loop over all roots (`C01_cycle_test_complete`: when
      `hasCycles` answers "no cycle" the finish order is a topological rank), which phase 1 runs last on what it returns;
    * `C01_setColor_total`, `C01_block_building_total`: SinkColoring's block building climbs one band per call;
    * `C01_breakLongEdges_total`: the index loop of `breakLongEdges` over the edge list it extends ends within the model's fuel on every
      state whose listed edges lie in the stores, never point upwards by more than one layer and are no longer than the layer list
      (decidable form `breakWFb`, evaluated on the traced state after phase 2 as `K:breakWF`): each cut lowers the remaining span by one.
    NOT proved (observed under watchdogs on the whole option grid): fuel sufficiency of the remaining loops (pivots are bounded by
    construction), termination of WMedian's transposes, Brandes–Köpf, SinkColoring's fixpoint, the simplex pivots; Splines routing is a known finding. -/

namespace Autog

/-- the full claim, kept visible: for every well-formed input and every configuration with exact models the composed model returns -/
def C01_full : Prop := ∀ (ord : G → M G) (cfg : Cfg) (es : InEdges), es ≠ [] → cfg.p4 ≤ 4 → cfg.p5 ≠ 3 →
  (∀ g, ∃ g', ord g = .ok g') → ∃ out, layoutModel ord cfg es = .ok out

theorem C01_valign_packright_total (alg : Nat) (ha : alg = 1 ∨ alg = 2) (ns ls : Rat) (g : G) :
    ∃ g', phase4Simple alg ns ls g = .ok g' := by
  unfold phase4Simple
  by_cases h1 : (g.nodes.size == 1) = true
  · simp [h1, pure, Except.pure]
  · rcases ha with rfl | rfl <;> simp [h1, bind, Except.bind, pure, Except.pure]

/-- result collection and Y assignment are total functions (no error type at all) -/
theorem C01_collect_total (cfg : Cfg) (gs : List G) : ∃ o, collect cfg 0 0 gs = o := ⟨_, rfl⟩
theorem C01_assignY_total (ls : Rat) (g : G) : ∃ g', assignYCoords ls g = g' := ⟨_, rfl⟩

theorem foldl_max_ge (f : Nat → Nat) : ∀ (l : List Nat) (m : Nat), m ≤ l.foldl (fun m n => max m (f n)) m
  | [], m => Nat.le_refl _
  | x :: l, m => Nat.le_trans (Nat.le_max_left _ _) (foldl_max_ge f l _)

theorem le_foldl_max' (f : Nat → Nat) : ∀ (l : List Nat) (m x : Nat), x ∈ l → f x ≤ l.foldl (fun m n => max m (f n)) m
  | y :: l, m, x, h => by
    rcases List.mem_cons.1 h with rfl | h
    · exact Nat.le_trans (Nat.le_max_right _ _) (foldl_max_ge f l _)
    · exact le_foldl_max' f l _ x h

/-- after LongestPath no node has a negative layer -/
theorem C01_longestpath_layers_nonneg (g g' : G) (h : execLongestPath g = .ok g') :
    ∀ n ∈ g'.nodeIds, 0 ≤ g'.layerOf n := by
  unfold execLongestPath at h
  simp only [bind, Except.bind] at h
  cases hm : heights g with
  | error e => rw [hm] at h; cases h
  | ok memo =>
    rw [hm] at h
    simp only [pure, Except.pure, Except.ok.injEq] at h
    subst h
    intro n hn
    have hn' : n < g.nodes.size := by simpa [G.nodeIds] using hn
    simp only [G.layerOf, G.node, Array.getD_eq_getD_getElem?, Array.getElem?_mapIdx, hn', Array.getElem?_eq_getElem]
    simp only [Option.map_some, Option.getD_some]
    have := le_foldl_max' (fun n => (LongestPath.look memo n).getD 0) g.nodeIds 0 n (by simpa [G.nodeIds] using hn')
    omega

/-- with non-negative layers the layer-list construction never fails -/
theorem C01_layers_total (g : G) (h : ∀ n ∈ g.nodeIds, 0 ≤ g.layerOf n) : ∃ g', buildLayers g = .ok g' := by
  unfold buildLayers
  have : (g.nodeIds.any fun n => decide (g.layerOf n < 0)) = false := by
    rw [List.any_eq_false]
    intro n hn
    have := h n hn
    simp; omega
  simp [this, bind, Except.bind, pure, Except.pure]

/-- everything before phase 1 returns, for every non-empty edge list -/
theorem C01_preprocess_total : type_of% @preProcess_total := @preProcess_total
theorem C01_components_total : type_of% @components_total := @components_total
theorem C01_populate_incWF : type_of% @populate_incWF := @populate_incWF
theorem C01_component_walk_never_out_of_fuel : type_of% @ComponentsDfs.run_some := @ComponentsDfs.run_some

example : ∃ cs, preProcess {} [("a", "b"), ("b", "a"), ("c", "c"), ("a", "b")] = .ok cs :=
  preProcess_total {} _ (by decide)

theorem C01_tight_tree_total : type_of% @tightTree_total := @tightTree_total
theorem C01_tree_numbering_total : type_of% @setStreeValues_total := @setStreeValues_total
theorem C01_tight_tree_never_out_of_fuel : type_of% @tightTreeRun_total := @tightTreeRun_total

theorem C01_init_positions_total : type_of% @TreeInitDfs.initPositions_total := @TreeInitDfs.initPositions_total
theorem C01_init_walk_never_out_of_fuel : type_of% @TreeInitDfs.initDfs_total := @TreeInitDfs.initDfs_total

/-- SinkColoring's block building: the climb of `setColor` goes one band up per call and so returns within `len(layers) + 2` -/
theorem C01_setColor_total : type_of% @setColor_total := @setColor_total
theorem C01_block_building_total : type_of% @scBlocks_total := @scBlocks_total

/-- on the pipeline: adjacency consistency (`AdjL`) — true of the graph `Populate` builds from ANY edge list, kept by self-loop
    stripping, by the two-cycle pre-pass and by every reversal — implies every well-formedness hypothesis of the totality theorems
    of phase 1 and of the simplex walks; so both cycle tests of `phase1` (before and after breaking) and the depth-first breaker
    return on every adjacency-consistent component -/
theorem C01_phase1_first_test_total (g : G) (h : AdjL g) : ∃ b, hasCycles (removeTwoNodeCycles g) = .ok b :=
  hasCycles_total _ (adjL_removeTwoNodeCycles g h).toAdj.edgesWF

theorem C01_phase1_dfs_then_test_total (g : G) (h : AdjL g) :
    ∃ g2, execDepthFirst (removeTwoNodeCycles g) = .ok g2 ∧ ∃ b, hasCycles g2 = .ok b := by
  have h2 := adjL_removeTwoNodeCycles g h
  obtain ⟨marked, hm⟩ := dfsMarked_total _ h2.toAdj.edgesWF
  refine ⟨marked.foldl G.reverse (removeTwoNodeCycles g), by simp [execDepthFirst, hm, bind, Except.bind, pure, Except.pure], ?_⟩
  -- marked edges are out-edges of the state, hence inside the edge store: the reversals keep consistency
  have hin : ∀ e ∈ marked, e ∈ (removeTwoNodeCycles g).elist := by
    intro e he
    obtain ⟨u, v, _, hmem, _, _⟩ := C14_dfs_minimal _ _ h2.toAdj.uniq marked hm e he
    unfold outE at hmem
    obtain ⟨e', he', heq⟩ := List.mem_map.1 hmem
    have : e' = e := by simpa using congrArg Prod.fst heq
    subst this
    exact h2.inEl u e' (List.mem_append.2 (Or.inr he'))
  exact hasCycles_total _ (adjL_foldl_reverse marked _ h2 hin).toAdj.edgesWF

theorem C01_adj_implies_incWF : type_of% @Adj.incWF := @Adj.incWF
theorem C01_adj_implies_edgesWF : type_of% @Adj.edgesWF := @Adj.edgesWF
theorem C01_adj_kept_by_reverse : type_of% @adj_reverse := @adj_reverse

theorem C01_cycle_test_total : type_of% @hasCycles_total := @hasCycles_total
/-- the longest-path traversal returns on every well-formed acyclic state -/
theorem C01_longestpath_total : type_of% @heights_total := @heights_total

/-- the depth-first breaker returns on every well-formed state -/
theorem C01_dfs_breaker_total : type_of% @dfsMarked_total := @dfsMarked_total

theorem C01_cycle_machine_never_out_of_fuel : type_of% @DfsHasCyclesSound.run_no_fuelOut := @DfsHasCyclesSound.run_no_fuelOut

theorem C01_hasCycles_complete : type_of% @DfsHasCycles.run_done := @DfsHasCycles.run_done
theorem C01_greedy_assigns_every_node_once : type_of% @GreedyAssignedOnce.all_assigned_once := @GreedyAssignedOnce.all_assigned_once
theorem C01_ns_init_processes_every_node : type_of% @NsInitLayersKahn.all_processed := @NsInitLayersKahn.all_processed
theorem C01_components_closed_connected : type_of% @ComponentsDfs.closed_connected := @ComponentsDfs.closed_connected

end Autog

namespace Autog

theorem adjL_foldl_cond_reverse (p : G → Nat → Prop) [∀ g e, Decidable (p g e)] : ∀ (l : List Nat) (g : G), AdjL g →
    (∀ e ∈ l, e ∈ g.elist) → AdjL (l.foldl (fun g e => if p g e then g.reverse e else g) g)
  | [], g, h, _ => h
  | e :: l, g, h, hb => by
    simp only [List.foldl_cons]
    split
    · exact adjL_foldl_cond_reverse p l _ (adjL_reverse g h e (hb e (List.mem_cons_self ..)))
        (fun x hx => by rw [G.reverse_elist]; exact hb x (List.mem_cons_of_mem _ hx))
    · exact adjL_foldl_cond_reverse p l g h (fun x hx => hb x (List.mem_cons_of_mem _ hx))

theorem adjL_execGreedy (g g' : G) (hA : AdjL g) (h : execGreedy g = .ok g') : AdjL g' := by
  unfold execGreedy at h
  simp only [bind, Except.bind, pure, Except.pure] at h
  split at h
  · cases h
  · split at h
    · cases h
    · simp only [Except.ok.injEq] at h
      subst h
      exact adjL_foldl_cond_reverse _ g.elist g hA (fun _ hx => hx)

theorem adjL_execDepthFirst (g g' : G) (hA : AdjL g) (h : execDepthFirst g = .ok g') : AdjL g' := by
  unfold execDepthFirst at h
  cases hm : dfsMarked g with
  | error e => simp [hm, bind, Except.bind] at h
  | ok marked =>
    simp only [hm, bind, Except.bind, pure, Except.pure, Except.ok.injEq] at h
    subst h
    apply adjL_foldl_reverse marked g hA
    intro e he
    obtain ⟨u, v, _, hmem, _, _⟩ := C14_dfs_minimal g _ hA.toAdj.uniq marked hm e he
    unfold outE at hmem
    obtain ⟨e', he', heq⟩ := List.mem_map.1 hmem
    have : e' = e := by simpa using congrArg Prod.fst heq
    subst this
    exact hA.inEl u e' (List.mem_append.2 (Or.inr he'))

/-- adjacency consistency survives the whole of phase 1, whichever breaker runs -/
theorem adjL_phase1 (alg : Nat) (g g' : G) (hA : AdjL g) (h : phase1 alg g = .ok g') : AdjL g' := by
  unfold phase1 at h
  simp only [bind, Except.bind, pure, Except.pure] at h
  split at h
  · simp only [Except.ok.injEq] at h; subst h; exact hA
  · have h2 := adjL_removeTwoNodeCycles g hA
    cases hc : hasCycles (removeTwoNodeCycles g) with
    | error e => rw [hc] at h; cases h
    | ok b =>
      rw [hc] at h
      simp only at h
      cases b with
      | false => simp only [Bool.not_false, if_true, Except.ok.injEq] at h; subst h; exact h2
      | true =>
        simp only [Bool.not_true, Bool.false_eq_true, if_false] at h
        cases hb : breakCycles alg (removeTwoNodeCycles g) with
        | error e => rw [hb] at h; cases h
        | ok g2 =>
          rw [hb] at h
          simp only at h
          have hg2 : AdjL g2 := by
            unfold breakCycles at hb
            split at hb
            · exact adjL_execGreedy _ _ h2 hb
            · exact adjL_execDepthFirst _ _ h2 hb
          cases hc2 : hasCycles g2 with
          | error e => rw [hc2] at h; cases h
          | ok b2 =>
            rw [hc2] at h
            cases b2 with
            | true => simp [throw, throwThe, MonadExceptOf.throw] at h
            | false =>
              simp only [Bool.false_eq_true, if_false, Except.ok.injEq] at h
              subst h
              exact hg2

/-- … so the layerers receive a state on which the tight-tree search, the lim/low numbering and the longest-path traversal are total -/
theorem C01_after_phase1_walks_total (alg : Nat) (g g' : G) (hA : AdjL g) (h : phase1 alg g = .ok g') :
    (∃ r, tightTree g' = .ok r) ∧ IncWF g' ∧ EdgesWF g' :=
  ⟨tightTree_total g' (adjL_phase1 alg g g' hA h).toAdj.incWF, (adjL_phase1 alg g g' hA h).toAdj.incWF,
    (adjL_phase1 alg g g' hA h).toAdj.edgesWF⟩


/-- **C01, phases 0–1 and the first walks of phase 2 for every input**: for any non-empty edge list and any options the
    pre-processing returns (`C01_preprocess_total`), every component it returns is adjacency consistent (`adjL_preProcess`),
    and for each of them and either breaker: both cycle tests and the depth-first breaker return, and whatever state phase 1
    returns, the tight-tree walk of the layerers terminates on it -/
theorem C01_upto_tight_tree_any_input (cfg : Cfg) (es : InEdges) (hne : es ≠ []) :
    ∃ cs, preProcess cfg es = .ok cs ∧ ∀ c ∈ cs,
      (∃ b, hasCycles (removeTwoNodeCycles c.1) = .ok b) ∧
      (∃ g2, execDepthFirst (removeTwoNodeCycles c.1) = .ok g2 ∧ ∃ b, hasCycles g2 = .ok b) ∧
      ∀ alg g', phase1 alg c.1 = .ok g' → (∃ r, tightTree g' = .ok r) ∧ IncWF g' ∧ EdgesWF g' := by
  obtain ⟨cs, hcs⟩ := preProcess_total cfg es hne
  refine ⟨cs, hcs, fun c hc => ?_⟩
  have hA := adjL_preProcess cfg es cs hcs c hc
  exact ⟨C01_phase1_first_test_total c.1 hA, C01_phase1_dfs_then_test_total c.1 hA,
    fun alg g' h => C01_after_phase1_walks_total alg c.1 g' hA h⟩


/-- C01, `breakLongEdges` (the index loop over the growing edge list): on every state whose listed edges lie in the edge store, end in
    the node store, never point upwards by more than one layer and span at most `layers.size + 2` layers — what either layerer hands
    over — the loop ends within the model's fuel: each cut lowers the total remaining span by one (`breakEdge_step`) -/
theorem C01_breakLongEdges_total : type_of% @breakLongEdges_total := @breakLongEdges_total
theorem C01_breakLongEdges_total_of_contract : type_of% @breakLongEdges_total_of_contract := @breakLongEdges_total_of_contract

/-- a two-node state with one edge spanning three layers: the hypotheses of `C01_breakLongEdges_total` are satisfiable, and the loop
    cuts the edge twice -/
def exLong : G :=
  { nodes := #[{ id := "a", outs := [0], layer := 0 }, { id := "b", ins := [0], layer := 3 }],
    edges := #[{ src := 0, dst := 1 }], elist := [0],
    layers := #[{ index := 0, nodes := [0] }, { index := 1, nodes := [] }, { index := 2, nodes := [] }, { index := 3, nodes := [1] }] }

example : BreakWF exLong := ⟨by decide, by decide, by decide⟩
example : (match breakLongEdges exLong with | .ok g => g.elist.length == 3 && g.nodes.size == 4 | .error _ => false) = true := by
  decide +kernel


/-! ### LongestPath layering returns on every input -/

/-- what phase 1 returns has passed the cycle test -/
theorem phase1_ok_acyclic (alg : Nat) (g g' : G) (hn : (g.nodes.size == 1) = false) (h : phase1 alg g = .ok g') :
    hasCycles g' = .ok false := by
  unfold phase1 at h
  simp only [hn, Bool.false_eq_true, if_false, bind, Except.bind, pure, Except.pure] at h
  cases hc : hasCycles (removeTwoNodeCycles g) with
  | error e => rw [hc] at h; cases h
  | ok b =>
    rw [hc] at h
    simp only at h
    cases b with
    | false => simp only [Bool.not_false, if_true, Except.ok.injEq] at h; subst h; exact hc
    | true =>
      simp only [Bool.not_true, Bool.false_eq_true, if_false] at h
      cases hb : breakCycles alg (removeTwoNodeCycles g) with
      | error e => rw [hb] at h; cases h
      | ok g2 =>
        rw [hb] at h
        simp only at h
        cases hc2 : hasCycles g2 with
        | error e => rw [hc2] at h; cases h
        | ok b2 =>
          rw [hc2] at h
          cases b2 with
          | true => simp [throw, throwThe, MonadExceptOf.throw] at h
          | false =>
            simp only [Bool.false_eq_true, if_false, Except.ok.injEq] at h
            subst h
            exact hc2

theorem C01_cycle_test_complete : type_of% @hasCycles_false_rank := @hasCycles_false_rank

/-- on an adjacency-consistent state that passed the cycle test the longest-path traversal, the layer assignment and the construction of
    the layer list all return -/
theorem rank_of_acyclic (g : G) (hA : AdjL g) (hc : hasCycles g = .ok false) :
    ∃ rank : Nat → Nat, ∀ v w, w ∈ outNbrs g v → w ≠ v → rank w < rank v := by
  obtain ⟨rank, hr⟩ := hasCycles_false_rank g hc
  refine ⟨rank, ?_⟩
  intro v w hw hne
  unfold outNbrs at hw
  obtain ⟨e, he, rfl⟩ := List.mem_map.1 hw
  by_cases hv : v < g.nodes.size
  · apply hr v (by simpa [G.nodeIds] using hv)
    unfold outAdj
    refine List.mem_map.2 ⟨e, List.mem_filter.2 ⟨he, ?_⟩, rfl⟩
    have hsrc := (hA.toAdj.outs v e he).2
    simp only [G.selfLoops, hsrc, Bool.not_eq_true', beq_eq_false_iff_ne, ne_eq]
    exact fun h => hne h.symm
  · rw [(node_default_lists g v hv).2] at he; cases he

theorem longestPath_total_of_acyclic (g : G) (hA : AdjL g) (hc : hasCycles g = .ok false) :
    ∃ g2, (execLongestPath g >>= buildLayers) = .ok g2 := by
  obtain ⟨rank, hR⟩ := rank_of_acyclic g hA hc
  obtain ⟨memo, hm⟩ := heights_total g hA.toAdj.edgesWF rank hR
  have hex : ∃ g1, execLongestPath g = .ok g1 := by
    unfold execLongestPath
    simp only [hm, bind, Except.bind, pure, Except.pure]
    exact ⟨_, rfl⟩
  obtain ⟨g1, hg1⟩ := hex
  obtain ⟨g2, hg2⟩ := C01_layers_total g1 (C01_longestpath_layers_nonneg g g1 hg1)
  exact ⟨g2, by simp only [hg1, bind, Except.bind, hg2]⟩

/-- **C01, up to the layer lists with LongestPath layering, for every input**: for any non-empty edge list and any options the
    pre-processing returns, and for every component with more than one node and either cycle breaker: whatever state phase 1 returns,
    phase 2 with the LongestPath layerer returns (longest-path traversal, layer assignment, construction of the layer list) —
    nothing assumed: adjacency consistency comes from `adjL_preProcess` / `adjL_phase1`, acyclicity from the completeness of the
    cycle test that phase 1 itself runs last (`C01_cycle_test_complete`) -/
theorem C01_longestpath_layering_any_input (cfg : Cfg) (es : InEdges) (hne : es ≠ []) (hp2 : cfg.p2 = 1) :
    ∃ cs, preProcess cfg es = .ok cs ∧ ∀ c ∈ cs, 2 ≤ c.1.nodes.size →
      ∀ alg g1, phase1 alg c.1 = .ok g1 → ∃ g2, phase2Model cfg g1 = .ok g2 := by
  obtain ⟨cs, hcs⟩ := preProcess_total cfg es hne
  refine ⟨cs, hcs, fun c hc hn2 alg g1 h1 => ?_⟩
  have hn : (c.1.nodes.size == 1) = false := by simp; omega
  have hA := adjL_phase1 alg c.1 g1 (adjL_preProcess cfg es cs hcs c hc) h1
  have hac := phase1_ok_acyclic alg c.1 g1 hn h1
  -- phase 1 never shrinks the node store
  have hsz : (g1.nodes.size == 1) = false := by
    have := (statEq_phase1 alg c.1 g1 h1).1
    simp; omega
  unfold phase2Model
  simp only [hsz, Bool.false_eq_true, if_false, hp2, beq_self_eq_true, if_true]
  exact longestPath_total_of_acyclic g1 hA hac

end Autog
