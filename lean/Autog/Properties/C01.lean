import Autog.Lemmas.ComponentsDfs
import Autog.Lemmas.DfsHasCycles
import Autog.Lemmas.GreedyAssignedOnce
import Autog.Lemmas.NsInitLayersKahn
/-! # C01
    Layout always returns. First pass: the algorithmic cores of the totality chain, proved on small-step machines
    (explicit stack = Go call stack, fuel = budget): the cycle test is complete, the greedy breaker ranks every node
    exactly once for every pick oracle, Kahn initialisation processes every node of a DAG. -/

namespace Autog

theorem C01_hasCycles_complete : type_of% @DfsHasCycles.run_done := @DfsHasCycles.run_done

theorem C01_greedy_assigns_every_node_once : type_of% @GreedyAssignedOnce.all_assigned_once := @GreedyAssignedOnce.all_assigned_once

theorem C01_ns_init_processes_every_node : type_of% @NsInitLayersKahn.all_processed := @NsInitLayersKahn.all_processed

theorem C01_components_closed_connected : type_of% @ComponentsDfs.closed_connected := @ComponentsDfs.closed_connected

end Autog
