import Autog.Lemmas.PopulateSpec
import Autog.Lemmas.Reverse
import Autog.Lemmas.BreakMergeChains
import Autog.Model.Pipeline
import Autog.Lemmas.StaticP4
/-! # C02 — the output graph is the input graph

    Theorems about the model functions (keys `T:pre`, `T:phase1`, `T:break`, `T:phase5`, `T:post`, `T:output`):
    * `C02_populate`: Populate builds a duplicate-free id table and one edge per input pair, in order, joining the
      table entries named by the pair (so: every distinct id exactly once, every edge as often as given, with its direction);
    * `C02_reverse_keeps_direction`: `Edge.Reverse` never changes the original direction of any edge (the pair recovered
      from `IsReversed`), whatever is reversed, however often, in whatever order — this covers both breakers, the two-cycle
      pre-pass and breakLongEdges' temporary reversals;
    * `C02_unreverse_restores`: after `UnreverseEdges` every listed edge runs from its original source to its original target
      and no flag is left;
    * `C02_sizes`: the size options give every node its listed size, else the fixed size, else zero — by definition of `sizeOf`,
      which is also what the predicate on the public result uses;
    * break/merge: `reduce_chain`, `erase_all` (lemma library) — merging removes exactly the links that breaking added;
    * `C02_collect_edges`: the result lists the edges of each component in edge-list order with the ids of their current ends.
    * END TO END for the node part (`C02_public_nodes`, `C02_public_nodes_with_helpers`): in the composed model `layoutComponent`
      — both cycle breakers, both layerers, the exact ordering model, all five positioners, every modelled router — no phase ever
      changes id, width, height or helper flag of an existing node, nodes are only appended, and every appended node is a helper
      node (`StatEq`, Lemmas/Static*.lean: one frame lemma per model function, ~60 of them). Hence the nodes a caller gets back
      for a component are, in order, exactly the nodes that went in, with the sizes `applySizes` gave them; with
      `WithOutputVirtualNodes` they are followed by helper nodes only.
    PARTIAL: the same composition for the EDGE part (multiset and direction through cycle breaking, long-edge cutting and merging)
    is not assembled; it is decided per run by the multiset/direction predicates on the public result. -/

namespace Autog

theorem C02_populate : type_of% @PopulateRename.populate_spec := @PopulateRename.populate_spec
theorem C02_reverse_keeps_direction : type_of% @G.reverse_orig := @G.reverse_orig
theorem C02_unreverse_restores : type_of% @unreverseEdges_direction := @unreverseEdges_direction
theorem C02_merge_restores_chain : type_of% @BreakMergeChains.reduce_chain := @BreakMergeChains.reduce_chain
theorem C02_erase_added_links : type_of% @BreakMergeChains.erase_all := @BreakMergeChains.erase_all

/-- every node gets exactly the configured size -/
theorem C02_sizes (cfg : Cfg) (g : G) (i : Nat) (hi : i < g.nodes.size) :
    ((applySizes cfg g).nodes[i]'(by simp [applySizes]; exact hi)).w = (sizeOf cfg g.nodes[i].id).1 ∧
    ((applySizes cfg g).nodes[i]'(by simp [applySizes]; exact hi)).h = (sizeOf cfg g.nodes[i].id).2 ∧
    ((applySizes cfg g).nodes[i]'(by simp [applySizes]; exact hi)).id = g.nodes[i].id := by
  simp [applySizes]

/-- listed size, else fixed size, else zero -/
theorem C02_sizeOf_cases (cfg : Cfg) (id : String) :
    sizeOf cfg id = match cfg.sizes.bind (fun m => m.lookup id) with
      | some s => s
      | none => cfg.fixed.getD (0, 0) := rfl

/-- the collected edges of a component: one per listed edge, in order, named by the ids of its ends -/
theorem C02_collect_edges (cfg : Cfg) (shift : Rat) (ci : Nat) (g : G) :
    (collectComp cfg shift ci g).edges.map (fun e => (e.src, e.dst)) =
      g.elist.map fun e => ((g.node (g.edge e).src).id, (g.node (g.edge e).dst).id) := by
  simp [collectComp, List.map_map, Function.comp]

/-- helper nodes are left out unless requested -/
theorem C02_collect_no_helpers (cfg : Cfg) (shift : Rat) (ci : Nat) (g : G) (hv : cfg.virt = false) :
    ∀ n ∈ (collectComp cfg shift ci g).nodes, n.virt = false := by
  intro n hn
  simp only [collectComp, List.mem_map, List.mem_filter] at hn
  obtain ⟨nd, ⟨_, hf⟩, rfl⟩ := hn
  simpa [hv] using hf

/-! ## end to end: the nodes of the public result -/

def ONode.stat (n : ONode) : String × Rat × Rat × Bool := (n.id, n.w, n.h, n.virt)

theorem collect_stat (cfg : Cfg) (shift : Rat) (ci : Nat) (g : G) :
    (collectComp cfg shift ci g).nodes.map ONode.stat =
      ((List.range g.nodes.size).filter fun i => !(g.node i).virt || cfg.virt).map fun i => (g.node i).stat := by
  unfold collectComp
  simp only
  rw [toList_eq_range_map g, List.filter_map, List.map_map, List.map_map]
  rfl

theorem range_split (n m : Nat) (h : n ≤ m) : List.range m = List.range n ++ (List.range (m - n)).map (· + n) := by
  have : m = n + (m - n) := by omega
  conv => lhs; rw [this, List.range_add]
  simp [Nat.add_comm]

/-- END TO END (nodes, default output): whatever the graph, the algorithms and the sizes, the nodes returned for a component are
    exactly its input nodes — same ids, same widths and heights, same order, no helper node -/
theorem C02_public_nodes (cfg : Cfg) (hv : cfg.virt = false) (shift : Rat) (ci : Nat) (c : G × List Nat) (gf : G)
    (hreal : ∀ i, i < c.1.nodes.size → (c.1.node i).virt = false)
    (h : layoutComponent (fun g => (orderWMedianP 24 g).map (·.1)) cfg c = .ok gf) :
    (collectComp cfg shift ci gf).nodes.map ONode.stat = (List.range c.1.nodes.size).map fun i => (c.1.node i).stat := by
  have hs := statEq_layoutComponent_wmedian cfg c gf h
  rw [collect_stat, range_split _ _ hs.size, List.filter_append, List.map_append]
  have h1 : (List.range c.1.nodes.size).filter (fun i => !(gf.node i).virt || cfg.virt) = List.range c.1.nodes.size := by
    apply List.filter_eq_self.2
    intro i hi
    have hi' : i < c.1.nodes.size := List.mem_range.1 hi
    have := hs.stat i hi'
    simp only [Node.stat, Prod.mk.injEq] at this
    simp [this.2.2.2, hreal i hi']
  have h2 : ((List.range (gf.nodes.size - c.1.nodes.size)).map (· + c.1.nodes.size)).filter
      (fun i => !(gf.node i).virt || cfg.virt) = [] := by
    apply List.filter_eq_nil_iff.2
    intro i hi
    obtain ⟨k, hk, rfl⟩ := List.mem_map.1 hi
    have hk' := List.mem_range.1 hk
    have := (hs.fresh (k + c.1.nodes.size) (by omega) (by omega)).1
    simp [this, hv]
  rw [h1, h2, List.map_nil, List.append_nil]
  apply List.map_congr_left
  intro i hi
  exact hs.stat i (List.mem_range.1 hi)

/-- END TO END (nodes, helper nodes requested): the input nodes come first, unchanged and in order; everything after them is a
    helper node -/
theorem C02_public_nodes_with_helpers (cfg : Cfg) (hv : cfg.virt = true) (shift : Rat) (ci : Nat) (c : G × List Nat) (gf : G)
    (h : layoutComponent (fun g => (orderWMedianP 24 g).map (·.1)) cfg c = .ok gf) :
    ∃ helpers : List (String × Rat × Rat × Bool),
      (collectComp cfg shift ci gf).nodes.map ONode.stat = ((List.range c.1.nodes.size).map fun i => (c.1.node i).stat) ++ helpers ∧
      ∀ x ∈ helpers, x.2.2.2 = true := by
  have hs := statEq_layoutComponent_wmedian cfg c gf h
  refine ⟨((List.range (gf.nodes.size - c.1.nodes.size)).map (· + c.1.nodes.size)).map fun i => (gf.node i).stat, ?_, ?_⟩
  · rw [collect_stat]
    have hall : (List.range gf.nodes.size).filter (fun i => !(gf.node i).virt || cfg.virt) = List.range gf.nodes.size := by
      apply List.filter_eq_self.2
      intro i _
      simp [hv]
    rw [hall, range_split _ _ hs.size, List.map_append]
    congr 1
    apply List.map_congr_left
    intro i hi
    exact hs.stat i (List.mem_range.1 hi)
  · intro x hx
    obtain ⟨i, hi, rfl⟩ := List.mem_map.1 hx
    obtain ⟨k, hk, rfl⟩ := List.mem_map.1 hi
    have hk' := List.mem_range.1 hk
    exact (hs.fresh (k + c.1.nodes.size) (by omega) (by omega)).1

example : (PopulateRename.populate [("a", "b"), ("b", "b"), ("c", "a"), ("a", "b")]).edges = [(0, 1), (1, 1), (2, 0), (0, 1)] := by decide
example : (PopulateRename.populate [("a", "b"), ("b", "b"), ("c", "a"), ("a", "b")]).ids = ["a", "b", "c"] := by decide

end Autog

namespace Autog

/-! ## the whole result: all components -/

theorem collect_nodes_stat (cfg : Cfg) : ∀ (gs : List G) (shift : Rat) (ci : Nat),
    (collect cfg shift ci gs).nodes.map ONode.stat =
      gs.flatMap fun g => ((List.range g.nodes.size).filter fun i => !(g.node i).virt || cfg.virt).map fun i => (g.node i).stat
  | [], _, _ => rfl
  | g :: gs, shift, ci => by
    simp only [collect, List.map_append, List.flatMap_cons, collect_stat, collect_nodes_stat cfg gs]

/-- element-wise success of a `mapM` -/
inductive MapOK {α β} (f : α → M β) : List α → List β → Prop
  | nil : MapOK f [] []
  | cons {a b l r} : f a = .ok b → MapOK f l r → MapOK f (a :: l) (b :: r)

theorem mapM_forall2 {α β} (f : α → M β) : ∀ (l : List α) (r : List β), l.mapM f = .ok r → MapOK f l r
  | [], r, h => by
    simp only [List.mapM_nil, pure, Except.pure, Except.ok.injEq] at h; subst h; exact .nil
  | a :: l, r, h => by
    simp only [List.mapM_cons, bind, Except.bind] at h
    cases ha : f a with
    | error e => rw [ha] at h; cases h
    | ok b =>
      rw [ha] at h
      simp only at h
      cases hl : l.mapM f with
      | error e => rw [hl] at h; cases h
      | ok bs =>
        rw [hl] at h
        simp only [pure, Except.pure, Except.ok.injEq] at h
        subst h
        exact .cons ha (mapM_forall2 f l bs hl)

/-- END TO END (nodes, all components, default output): the composed model of `autog.Layout` returns, component after component
    in the order `preProcess` produced them, exactly the nodes of each component — ids, widths, heights — and no helper node -/
theorem C02_layoutModel_nodes (cfg : Cfg) (hv : cfg.virt = false) (es : InEdges) (comps : List (G × List Nat)) (out : Out)
    (hpre : preProcess cfg es = .ok comps)
    (hreal : ∀ c ∈ comps, ∀ i, i < c.1.nodes.size → (c.1.node i).virt = false)
    (h : layoutModel (fun g => (orderWMedianP 24 g).map (·.1)) cfg es = .ok out) :
    out.nodes.map ONode.stat = comps.flatMap fun c => (List.range c.1.nodes.size).map fun i => (c.1.node i).stat := by
  unfold layoutModel at h
  simp only [hpre, bind, Except.bind] at h
  cases hm : comps.mapM (layoutComponent (fun g => (orderWMedianP 24 g).map (·.1)) cfg) with
  | error e => rw [hm] at h; cases h
  | ok finals =>
    rw [hm] at h
    simp only [pure, Except.pure, Except.ok.injEq] at h
    subst h
    rw [collect_nodes_stat]
    have hf := mapM_forall2 _ comps finals hm
    clear hm hpre
    induction hf with
    | nil => rfl
    | @cons c gf cs gfs hc _ ih =>
      simp only [List.flatMap_cons]
      rw [ih (fun c' hc' => hreal c' (List.mem_cons_of_mem _ hc'))]
      congr 1
      have := C02_public_nodes cfg hv 0 0 c gf (hreal c (List.mem_cons_self ..)) hc
      rw [collect_stat] at this
      exact this

end Autog

namespace Autog

/-! ### the components handed to the pipeline hold real nodes only -/

def AllReal (g : G) : Prop := ∀ i, (g.node i).virt = false

theorem allReal_of_mem (g : G) (h : ∀ nd ∈ g.nodes.toList, nd.virt = false) : AllReal g := by
  intro i
  simp only [G.node, Array.getD_eq_getD_getElem?]
  cases hi : g.nodes[i]? with
  | none => simp [default, instInhabitedNode.default]
  | some nd =>
    simp only [Option.getD_some]
    exact h nd (by
      have := Array.mem_of_getElem? hi
      simpa using this)

theorem allReal_populate (cfg : Cfg) (es : InEdges) : AllReal (applySizes cfg (populate es)) := by
  apply allReal_of_mem
  intro nd hnd
  simp only [applySizes, populate, Array.toList_map, List.mem_map] at hnd
  obtain ⟨a, ha, rfl⟩ := hnd
  obtain ⟨p, _, rfl⟩ := ha
  rfl

theorem allReal_subgraph (g : G) (h : AllReal g) (ns es : List Nat) : AllReal (subgraph g ns es) := by
  apply allReal_of_mem
  intro nd hnd
  simp only [subgraph, List.mem_map] at hnd
  obtain ⟨n, _, rfl⟩ := hnd
  exact h n

theorem allReal_modNode (g : G) (h : AllReal g) (i : Nat) (f : Node → Node) (hf : ∀ nd, (f nd).virt = nd.virt) :
    AllReal (g.modNode i f) := by
  intro j
  rw [G.node_modNode]
  split
  · rw [hf]; exact h j
  · exact h j

theorem allReal_componentsLoop (g : G) (h : AllReal g) : ∀ (ns visited : List Nat) (out r : List G),
    (∀ c ∈ out, AllReal c) → componentsLoop g ns visited out = .ok r → ∀ c ∈ r, AllReal c
  | [], _, out, r, ho, hr => by
    simp only [componentsLoop, pure, Except.pure, Except.ok.injEq] at hr; subst hr; exact ho
  | n :: rest, visited, out, r, ho, hr => by
    unfold componentsLoop at hr
    split at hr
    · exact allReal_componentsLoop g h rest visited out r ho hr
    · simp only [bind, Except.bind] at hr
      split at hr
      · cases hr
      · rename_i w _
        refine allReal_componentsLoop g h rest _ _ r ?_ hr
        intro c hc
        rcases List.mem_append.1 hc with h1 | h1
        · exact ho c h1
        · have : c = subgraph g w.1 w.2 := by simpa using h1
          subst this; exact allReal_subgraph g h _ _

theorem allReal_components (g : G) (h : AllReal g) (cs : List G) (hc : components g = .ok cs) : ∀ c ∈ cs, AllReal c := by
  unfold components at hc
  simp only [bind, Except.bind, pure, Except.pure] at hc
  split at hc
  · cases hc
  · split at hc
    · cases hc
    · rename_i w _
      split at hc
      · simp only [Except.ok.injEq] at hc; subst hc
        intro c hcm
        have : c = g := by simpa using hcm
        subst this; exact h
      · refine allReal_componentsLoop g h _ _ _ cs ?_ hc
        intro c hcm
        have : c = subgraph g w.1 w.2 := by simpa using hcm
        subst this; exact allReal_subgraph g h _ _

theorem allReal_stripLoop (g : G) (h : AllReal g) (e : Nat) : AllReal (stripLoop g e) := by
  unfold stripLoop
  have h1 := allReal_modNode g h (g.edge e).src (fun n => { n with outs := G.removeE n.outs e }) (fun _ => rfl)
  have h2 := allReal_modNode _ h1 (g.edge e).src (fun n => { n with ins := G.removeE n.ins e }) (fun _ => rfl)
  exact h2

theorem allReal_ignoreSelfLoops (g : G) (h : AllReal g) : AllReal (ignoreSelfLoops g).1 := by
  unfold ignoreSelfLoops
  simp only
  have : ∀ (l : List Nat) (g0 : G), AllReal g0 → AllReal (l.foldl stripLoop g0) := by
    intro l
    induction l with
    | nil => intro g0 h0; exact h0
    | cons e l ih => intro g0 h0; exact ih _ (allReal_stripLoop g0 h0 e)
  exact this _ g h

/-- the hypothesis `hreal` of `C02_layoutModel_nodes` always holds for what `preProcess` returns -/
theorem preProcess_real (cfg : Cfg) (es : InEdges) (comps : List (G × List Nat)) (h : preProcess cfg es = .ok comps) :
    ∀ c ∈ comps, ∀ i, i < c.1.nodes.size → (c.1.node i).virt = false := by
  unfold preProcess at h
  simp only [bind, Except.bind] at h
  split at h
  · cases h
  · rename_i cs hcs
    simp only [pure, Except.pure, Except.ok.injEq] at h
    subst h
    intro c hc i _
    obtain ⟨g, hg, rfl⟩ := List.mem_map.1 hc
    exact allReal_ignoreSelfLoops g (allReal_components _ (allReal_populate cfg es) cs hcs g hg) i

/-- END TO END, no hypothesis left but "the model returns": the nodes of `layoutModel`'s result are, component after component, the
    nodes `preProcess` made out of the caller's edge list and size options -/
theorem C02_layoutModel_nodes_total (cfg : Cfg) (hv : cfg.virt = false) (es : InEdges) (out : Out)
    (h : layoutModel (fun g => (orderWMedianP 24 g).map (·.1)) cfg es = .ok out) :
    ∃ comps, preProcess cfg es = .ok comps ∧
      out.nodes.map ONode.stat = comps.flatMap fun c => (List.range c.1.nodes.size).map fun i => (c.1.node i).stat := by
  cases hp : preProcess cfg es with
  | error e => unfold layoutModel at h; simp [hp, bind, Except.bind] at h
  | ok comps => exact ⟨comps, rfl, C02_layoutModel_nodes cfg hv es comps out hp (preProcess_real cfg es comps hp) h⟩

end Autog
