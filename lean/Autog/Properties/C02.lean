import Autog.Lemmas.BreakMergeChains
/-! # C02
    The output graph is the input graph. First pass: break/merge of long edges is an exact inverse on the edge list. -/

namespace Autog

theorem C02_reduce_restores_chain : type_of% @BreakMergeChains.reduce_chain := @BreakMergeChains.reduce_chain

theorem C02_erase_added_links : type_of% @BreakMergeChains.erase_all := @BreakMergeChains.erase_all

end Autog
