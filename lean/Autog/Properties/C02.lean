import Autog.Lemmas.PopulateSpec
import Autog.Lemmas.Reverse
import Autog.Lemmas.BreakMergeChains
import Autog.Model.Pipeline
/-! # C02 — the output graph is the input graph

    Theorems about the model functions (keys `T:pre`, `T:phase1`, `T:break`, `T:phase5`, `T:post`, `T:output`):
    * `C02_populate`: Populate builds a duplicate-free id table and one edge per input pair, in order, joining the
      table entries named by the pair (so: every distinct id exactly once, every edge as often as given, with its direction);
    * `C02_reverse_keeps_direction`: `Edge.Reverse` never changes the original direction of any edge (the pair recovered
      from `IsReversed`), whatever is reversed, however often, in whatever order — this covers both breakers, the two-cycle
      pre-pass and breakLongEdges' temporary reversals;
    * `C02_unreverse_restores`: after `UnreverseEdges` every listed edge runs from its original source to its original target
      and no flag is left;
    * `C02_sizes`: the size options give every node its listed size, else the fixed size, else zero — by definition of `sizeOf`,
      which is also what the predicate on the public result uses;
    * break/merge: `reduce_chain`, `erase_all` (lemma library) — merging removes exactly the links that breaking added;
    * `C02_collect_edges`: the result lists the edges of each component in edge-list order with the ids of their current ends.
    PARTIAL: the composition of these facts along `layoutModel` into one end-to-end multiset statement is not assembled; the
    end-to-end claim is decided per run by the multiset/direction/size predicates on the public result. -/

namespace Autog

theorem C02_populate : type_of% @PopulateRename.populate_spec := @PopulateRename.populate_spec
theorem C02_reverse_keeps_direction : type_of% @G.reverse_orig := @G.reverse_orig
theorem C02_unreverse_restores : type_of% @unreverseEdges_direction := @unreverseEdges_direction
theorem C02_merge_restores_chain : type_of% @BreakMergeChains.reduce_chain := @BreakMergeChains.reduce_chain
theorem C02_erase_added_links : type_of% @BreakMergeChains.erase_all := @BreakMergeChains.erase_all

/-- every node gets exactly the configured size -/
theorem C02_sizes (cfg : Cfg) (g : G) (i : Nat) (hi : i < g.nodes.size) :
    ((applySizes cfg g).nodes[i]'(by simp [applySizes]; exact hi)).w = (sizeOf cfg g.nodes[i].id).1 ∧
    ((applySizes cfg g).nodes[i]'(by simp [applySizes]; exact hi)).h = (sizeOf cfg g.nodes[i].id).2 ∧
    ((applySizes cfg g).nodes[i]'(by simp [applySizes]; exact hi)).id = g.nodes[i].id := by
  simp [applySizes]

/-- listed size, else fixed size, else zero -/
theorem C02_sizeOf_cases (cfg : Cfg) (id : String) :
    sizeOf cfg id = match cfg.sizes.bind (fun m => m.lookup id) with
      | some s => s
      | none => cfg.fixed.getD (0, 0) := rfl

/-- the collected edges of a component: one per listed edge, in order, named by the ids of its ends -/
theorem C02_collect_edges (cfg : Cfg) (shift : Rat) (ci : Nat) (g : G) :
    (collectComp cfg shift ci g).edges.map (fun e => (e.src, e.dst)) =
      g.elist.map fun e => ((g.node (g.edge e).src).id, (g.node (g.edge e).dst).id) := by
  simp [collectComp, List.map_map, Function.comp]

/-- helper nodes are left out unless requested -/
theorem C02_collect_no_helpers (cfg : Cfg) (shift : Rat) (ci : Nat) (g : G) (hv : cfg.virt = false) :
    ∀ n ∈ (collectComp cfg shift ci g).nodes, n.virt = false := by
  intro n hn
  simp only [collectComp, List.mem_map, List.mem_filter] at hn
  obtain ⟨nd, ⟨_, hf⟩, rfl⟩ := hn
  simpa [hv] using hf

example : (PopulateRename.populate [("a", "b"), ("b", "b"), ("c", "a"), ("a", "b")]).edges = [(0, 1), (1, 1), (2, 0), (0, 1)] := by decide
example : (PopulateRename.populate [("a", "b"), ("b", "b"), ("c", "a"), ("a", "b")]).ids = ["a", "b", "c"] := by decide

end Autog
