import Autog.Spec.Geom
/-! # C19 — corridor shortest path stays inside the corridor and is shortest

    PARTIAL. The real router (`geom.Shortest`: special-case triangulation, dual graph, funnel) has no exact model here.
    The property is decided per returned path by VERIFIED CHECKERS over exact rationals (every float64 the code returns is
    a rational; the harness prints it exactly):
    * containment: `segInside_sound` — an accepted segment lies in the union of the corridor's rectangles for every
      parameter in [0, 1];
    * length: `sqrtBounds_lo/hi` — the bounds used to compare lengths are true bounds, so "a strictly shorter path inside
      the corridor exists" is only ever reported with a validated witness (found by an independent visibility-graph
      search in the harness).
    That the funnel algorithm always returns the shortest path is not proved. -/

namespace Autog

theorem C19_containment_checker_sound : type_of% @segInside_sound := @segInside_sound
theorem C19_length_lower_bound : type_of% @sqrtBounds_lo := @sqrtBounds_lo
theorem C19_length_upper_bound : type_of% @sqrtBounds_hi := @sqrtBounds_hi

/-- the checker accepts a path inside a two-rectangle corridor and rejects one that cuts the corner -/
def exCorr : Corridor := [⟨0, 4, 0, 2⟩, ⟨2, 8, 2, 4⟩]
example : corridorWF exCorr = true := by decide +kernel
example : pathInside exCorr [(1, 0), (3, 2), (7, 4)] = true := by decide +kernel
example : pathInside exCorr [(1, 0), (7, 4)] = true := by decide +kernel
example : pathInside exCorr [(3, 0), (0, 4)] = false := by decide +kernel

end Autog
