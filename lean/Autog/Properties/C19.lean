import Autog.Lemmas.SegmentInsideRects
/-! # C19
    Corridor containment checker. -/

namespace Autog

theorem C19_segment_inside : type_of% @SegmentInsideRects.segment_inside := @SegmentInsideRects.segment_inside

end Autog
