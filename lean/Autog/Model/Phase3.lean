import Autog.Model.Core
import Autog.Lemmas.C12CountCrossingsComposed
/-! Model of the exactly-modelled parts of internal/phase3: `breakLongEdges` (index loop over a growing
    `g.Edges`), the Barth–Mutzel bilayer crossing counter (the verified functions of the lemma library applied
    to the bilayer extracted from the graph state) and the contract of the ordering heuristic. Core-only. -/

namespace Autog

/-- `breakEdge(g, e, v)`; returns the new state and the id of the new edge f -/
def breakEdge (g : G) (e v : Nat) : G × Nat :=
  let ed := g.edge e
  let from_ := ed.src
  let to := ed.dst
  let vn := g.nodes.size
  let f := g.edges.size
  let layer := g.layerOf from_ + 1
  let newNode : Node := { id := "V" ++ toString v, layer := layer, virt := true, ins := [e], outs := [f] }
  let g := { g with nodes := g.nodes.push newNode }
  let g := g.modEdge e fun ed => { ed with dst := vn }
  let newEdge : Edge := { src := vn, dst := to, weight := 1, delta := 1, rev := ed.rev }
  let g := { g with edges := g.edges.push newEdge }
  -- `to.In[i] = f` for the first i with to.In[i] == e
  let g := g.modNode to fun n =>
    match n.ins.idxOf? e with
    | some i => { n with ins := n.ins.set i f }
    | none => n
  let g := { g with elist := g.elist ++ [f] }
  let g := { g with layers := g.layers.modify layer.toNat fun l => { l with nodes := l.nodes ++ [vn] } }
  (g, f)

/-- `breakLongEdges`: `for i := 0; i < len(g.Edges); i++` sees the edges appended on the way -/
def breakLongEdges (g : G) : M G := do
  let rec go (fuel i v : Nat) (g : G) : M G :=
    match fuel with
    | 0 => throw "fuel:phase3.breakLongEdges"
    | fuel + 1 =>
      match g.elist[i]? with
      | none => pure g
      | some e =>
        let ed := g.edge e
        if g.layerOf ed.dst - g.layerOf ed.src > 1 then
          go fuel (i + 1) (v + 1) (breakEdge g e v).1
        else if g.layerOf ed.src - g.layerOf ed.dst > 1 then
          let g := g.reverse e
          let (g, f) := breakEdge g e v
          let g := g.reverse e
          let g := g.reverse f
          go fuel (i + 1) (v + 1) g
        else go fuel (i + 1) v g
  -- every long edge of span s is cut s − 1 times: spans are below the number of layers
  go (g.elist.length * (g.layers.size + 2) + g.elist.length + 2) 0 1 g

/-! ### crossings -/

/-- `k := 1; for k < q { k *= 2 }` as an exponent -/
def ceilLog2 (q : Nat) : Nat := (List.range (q + 1)).find? (fun c => q ≤ 2 ^ c) |>.getD q

/-- `countCrossings(l1, l2)` -/
def countCrossings (g : G) (l1 l2 : Layer) : M Nat := do
  if l1.nodes.length < 2 || l2.nodes.length < 2 then return 0
  let (upper, lower) := if l1.nodes.length > l2.nodes.length then (l1, l2) else (l2, l1)
  -- inLayerEdges: edges incident to the upper layer whose ends lie in the two layers
  let es := upper.nodes.flatMap fun n => (g.incident n).filter fun e =>
    let a := g.layerOf (g.edge e).src
    let b := g.layerOf (g.edge e).dst
    (a == upper.index && b == lower.index) || (a == lower.index && b == upper.index)
  let m := upper.nodes.length
  let n := lower.nodes.length
  let pairs ← es.mapM fun e => do
    let ed := g.edge e
    let (s, t) := if g.layerOf ed.src == upper.index then (ed.src, ed.dst) else (ed.dst, ed.src)
    let ps := (g.node s).pos
    let pt := (g.node t).pos
    if ps < 0 || pt < 0 || ps.toNat ≥ m || pt.toNat ≥ n then throw "panic:index out of range (radixsort)"
    pure (ps.toNat, pt.toNat)
  pure (C12CountCrossingsComposed.countCrossingsModel (ceilLog2 (min m n)) m n pairs)

/-- `crossings(layers)` -/
def crossingsAll (g : G) : M Nat := do
  let ls := g.layers.toList
  let mut total := 0
  for (a, b) in ls.zip ls.tail do
    total := total + (← countCrossings g a b)
  pure total

/-- contract of the ordering phase on its result: every layer list is ordered by LayerPos, positions are
    0..k−1, and every node sits in the layer list of its own layer -/
def orderedOK (g : G) : Bool :=
  g.layers.toList.all fun l =>
    l.nodes.zipIdx.all fun (n, i) => (g.node n).pos == (i : Int) && g.layerOf n == l.index

/-- the part of a state the ordering heuristic may not change (everything but LayerPos and the order inside
    the layer lists) -/
def forgetOrder (g : G) : G :=
  { g with nodes := g.nodes.map ({ · with pos := 0 }),
           layers := g.layers.map fun l => { l with nodes := l.nodes.mergeSort (· ≤ ·) } }

end Autog
