import Autog.Model.Core
import Autog.Lemmas.Phase4Simple
/-! Model of internal/phase4: `Alg.Process` glue, assignYCoords, VerticalAlign, PackRight (placement
    functions are those of the lemma library, applied to the width list of each layer). Core-only. -/

namespace Autog
open Phase4Simple

/-- write one value per node with the given field update -/
def setCoord (upd : Node → Rat → Node) (g : G) (ns : List Nat) (xs : List Rat) : G :=
  (ns.zip xs).foldl (fun g (n, x) => g.modNode n fun nd => upd nd x) g

def updX (nd : Node) (x : Rat) : Node := { nd with x := x }
def updY (nd : Node) (y : Rat) : Node := { nd with y := y }

abbrev setXs (g : G) (ns : List Nat) (xs : List Rat) : G := setCoord updX g ns xs

/-- one value list per layer, written layer by layer (the positioners never change widths or heights, so every
    list is computed from the incoming state) -/
def placeAllWith (upd : Node → Rat → Node) (g : G) (pl : List (List Nat × List Rat)) : G :=
  pl.foldl (fun g p => setCoord upd g p.1 p.2) g
abbrev placeAll (g : G) (pl : List (List Nat × List Rat)) : G := placeAllWith updX g pl

def widthsOf (g : G) (l : Layer) : List Rat := l.nodes.map fun n => (g.node n).w
def heightsOf (g : G) (l : Layer) : List Rat := l.nodes.map fun n => (g.node n).h

/-- `l.H = max(l.H, n.H)` over the nodes of the layer -/
def growH (g : G) (l : Layer) : Layer := { l with h := (heightsOf g l).foldl maxRat l.h }

/-- the Y of every layer -/
def layerYs (ls : Rat) (g : G) : List Rat := assignY ls 0 (g.layers.toList.map (·.h))
def assignYPlan (ls : Rat) (g : G) : List (List Nat × List Rat) :=
  (g.layers.toList.zip (layerYs ls g)).map fun (l, y) => (l.nodes, List.replicate l.nodes.length y)

/-- `assignYCoords` -/
def assignYCoords (ls : Rat) (g : G) : G := placeAllWith updY g (assignYPlan ls g)


/-- `maxW`: the widest layer, at least 0 -/
def maxLayerW (ns : Rat) (g : G) : Rat := (g.layers.toList.map fun l => layerW ns (widthsOf g l)).foldl maxRat 0

/-- the layer records VAlign leaves behind: `layer.W`, `layer.H` -/
def valignLayers (ns : Rat) (g : G) : Array Layer :=
  g.layers.map fun l => { l with w := layerW ns (widthsOf g l), h := (heightsOf g l).foldl maxRat 0 }
def valignPlan (ns : Rat) (g : G) : List (List Nat × List Rat) :=
  g.layers.toList.map fun l => (l.nodes, valign ns (maxLayerW ns g) (widthsOf g l))

/-- `execVerticalAlign` -/
def execVerticalAlign (ns : Rat) (g : G) : G :=
  placeAll { g with layers := valignLayers ns g } (valignPlan ns g)

/-- `execPackRight`: place from the right end, then shift by the leftmost x reached -/
def packRightRaw (ns : Rat) (g : G) (l : Layer) : List Rat := (packBack ns 0 (widthsOf g l).reverse).reverse
def packLeftBound (ns : Rat) (g : G) : Rat := (g.layers.toList.flatMap (packRightRaw ns g)).foldl minRat 0
def packRightPlan (ns : Rat) (g : G) : List (List Nat × List Rat) :=
  g.layers.toList.map fun l => (l.nodes, (packRightRaw ns g l).map (· - packLeftBound ns g))
def growAllH (g : G) : G := { g with layers := g.layers.map (growH g) }

def execPackRight (ns : Rat) (g : G) : G := growAllH (placeAll g (packRightPlan ns g))

/-- `phase4.Alg.Process` for the positioners with an exact model: 1 = VAlign, 2 = PackRight -/
def phase4Simple (alg : Nat) (ns ls : Rat) (g : G) : M G := do
  if g.nodes.size == 1 then
    let n := g.node 0
    return { g with layers := g.layers.modify 0 fun l => { l with w := n.w, h := n.h } }
  let g ← match alg with
    | 1 => pure (execVerticalAlign ns g)
    | 2 => pure (execPackRight ns g)
    | _ => throw "no exact model for this positioner"
  pure (assignYCoords ls g)

end Autog
