import Autog.Model.Core
import Autog.Lemmas.Phase4Simple
/-! Model of internal/phase4: `Alg.Process` glue, assignYCoords, VerticalAlign, PackRight (placement
    functions are those of the lemma library, applied to the width list of each layer). Core-only. -/

namespace Autog
open Phase4Simple

def setXs (g : G) (ns : List Nat) (xs : List Rat) : G :=
  (ns.zip xs).foldl (fun g (n, x) => g.modNode n fun nd => { nd with x := x }) g

def widthsOf (g : G) (l : Layer) : List Rat := l.nodes.map fun n => (g.node n).w
def heightsOf (g : G) (l : Layer) : List Rat := l.nodes.map fun n => (g.node n).h

/-- `l.H = max(l.H, n.H)` over the nodes of the layer -/
def growH (g : G) (l : Layer) : Layer := { l with h := (heightsOf g l).foldl maxRat l.h }

/-- `assignYCoords` -/
def assignYCoords (ls : Rat) (g : G) : G :=
  let ys := assignY ls 0 (g.layers.toList.map (·.h))
  (g.layers.toList.zip ys).foldl (fun g (l, y) =>
    l.nodes.foldl (fun g n => g.modNode n fun nd => { nd with y := y }) g) g

/-- `execVerticalAlign` -/
def execVerticalAlign (ns : Rat) (g : G) : G :=
  let layers := g.layers.map fun l =>
    { l with w := layerW ns (widthsOf g l), h := (heightsOf g l).foldl maxRat 0 }
  let maxW := (layers.toList.map (·.w)).foldl maxRat 0
  let g := { g with layers := layers }
  layers.toList.foldl (fun g l => setXs g l.nodes (valign ns maxW (widthsOf g l))) g

/-- `execPackRight`: place from the right end, then shift by the leftmost x reached -/
def execPackRight (ns : Rat) (g : G) : G :=
  let placed := g.layers.toList.map fun l => (l, (packBack ns 0 (widthsOf g l).reverse).reverse)
  let leftBound := (placed.flatMap (·.2)).foldl minRat 0
  let g := placed.foldl (fun g (l, xs) => setXs g l.nodes (xs.map (· - leftBound))) g
  { g with layers := g.layers.map (growH g) }

/-- `phase4.Alg.Process` for the positioners with an exact model: 1 = VAlign, 2 = PackRight -/
def phase4Simple (alg : Nat) (ns ls : Rat) (g : G) : M G := do
  if g.nodes.size == 1 then
    let n := g.node 0
    return { g with layers := g.layers.modify 0 fun l => { l with w := n.w, h := n.h } }
  let g ← match alg with
    | 1 => pure (execVerticalAlign ns g)
    | 2 => pure (execPackRight ns g)
    | _ => throw "no exact model for this positioner"
  pure (assignYCoords ls g)

end Autog
