import Autog.Model.Core
import Autog.Lemmas.GoRangeRemove
/-! Model of internal/phase5: `mergeLongEdges` (a live `range` over `g.Edges` while `reduceForward` deletes
    chain links from the same backing array — Go's aliasing semantics are modelled with the physical array
    of GoRangeRemove) and the Straight, Polyline and Ortho routers. Core-only. -/

namespace Autog

/-- 0 concrete, 1 hybrid, 2 virtual -/
def edgeType (g : G) (e : Nat) : Nat :=
  let a := (g.node (g.edge e).src).virt
  let b := (g.node (g.edge e).dst).virt
  if !a && !b then 0 else if a != b then 1 else 2

/-- `orderedNodes` -/
def orderedNodes (g : G) (e : Nat) : Nat × Nat :=
  let f := (g.edge e).src
  let t := (g.edge e).dst
  if g.layerOf f < g.layerOf t then (f, t)
  else if g.layerOf f > g.layerOf t then (t, f)
  else if (g.node f).pos < (g.node t).pos then (f, t) else (t, f)

structure MergeSt where
  g : G
  arr : List Nat        -- backing array of g.Edges as the live range sees it (fixed length)
  len : Nat             -- current logical length of g.Edges

def MergeSt.sync (s : MergeSt) : G := { s.g with elist := s.arr.take s.len }

/-- `reduceForward` -/
def reduceForward : Nat → MergeSt → Nat → List Nat → M (MergeSt × List Nat)
  | 0, _, _, _ => throw "fuel:phase5.reduceForward"
  | fuel + 1, s, e, ns =>
    let to := (s.g.edge e).dst
    if (s.g.node to).virt then
      match (s.g.node to).outs with
      | [f] =>
        let v := (s.g.edge f).dst
        let g := s.g.modNode v fun n => { n with ins := G.removeE n.ins f }
        let g := g.modNode v fun n => { n with ins := n.ins ++ [e] }
        let g := g.modEdge e fun ed => { ed with dst := v }
        let (arr, len) := GoRangeRemove.physRemove s.arr s.len f
        reduceForward fuel { g, arr, len } e (ns ++ [to])
      | _ => throw "panic:edge routing: virtual node doesn't have exactly one exit edge"
    else
      let ns := ns ++ [to]
      let (u, v) := orderedNodes s.g e
      let g := s.g.modEdge e fun ed => { ed with ahs := ed.rev }
      let ns := if ns.head? == some v && ns.getLast? == some u then ns.reverse else ns
      pure ({ s with g }, ns)

/-- one iteration of `for _, e := range g.Edges` (k = index into the backing array as the range sees it) -/
def mergeStep (acc : MergeSt × List (Nat × List Nat)) (k : Nat) : M (MergeSt × List (Nat × List Nat)) :=
  let s := acc.1
  let routes := acc.2
  let e := s.arr.getD k 0
  match edgeType s.g e with
  | 0 =>
    let (u, v) := orderedNodes s.g e
    pure ({ s with g := s.g.modEdge e fun ed => { ed with ahs := ed.rev } }, routes ++ [(e, [u, v])])
  | 1 =>
    if !(s.g.node (s.g.edge e).src).virt then do
      let (s', ns) ← reduceForward (s.g.nodes.size + 2) s e [(s.g.edge e).src]
      pure (s', routes ++ [(e, ns)])
    else pure (s, routes)
  | _ => pure (s, routes)

/-- `mergeLongEdges`: the routes in the order the live range produces them -/
def mergeLongEdges (g : G) : M (G × List (Nat × List Nat)) := do
  let n0 := g.elist.length
  let (s, routes) ← (List.range n0).foldlM mergeStep ({ g, arr := g.elist, len := n0 }, [])
  pure (s.sync, routes)

def startPoint (g : G) (n : Nat) : Pt := let nd := g.node n; (nd.x + nd.w / 2, nd.y + nd.h)
def endPoint (g : G) (n : Nat) : Pt := let nd := g.node n; (nd.x + nd.w / 2, nd.y)
def straight (g : G) (a b : Nat) : List Pt := [startPoint g a, endPoint g b]

def layerH (g : G) (i : Int) : Rat := (g.layers.getD i.toNat default).h

def setPts (g : G) (e : Nat) (p : List Pt) : G := g.modEdge e fun ed => { ed with pts := p }

def straightStep (g : G) (r : Nat × List Nat) : M G := do
  if g.isFlat r.1 then throw "flat edge (phase5/flat.go has no exact model)"
  pure (setPts g r.1 (straight g r.2.head! r.2.getLast!))

def routeStraight (g : G) (routes : List (Nat × List Nat)) : M G := routes.foldlM straightStep g

def nonTerminalPoint (g : G) (n : Nat) : M Pt := do
  let nd := g.node n
  if !nd.virt then throw "panic:routing: bend point on non-virtual node"
  pure (nd.x + nd.w / 2, nd.y + layerH g nd.layer / 2)

def polylineStep (g : G) (r : Nat × List Nat) : M G :=
  if g.isFlat r.1 then throw "flat edge (phase5/flat.go has no exact model)"
  else if r.2.length == 2 then pure (setPts g r.1 (straight g r.2.head! r.2.getLast!))
  else do
    let mids ← (r.2.tail.dropLast).mapM (nonTerminalPoint g)
    -- `r.Points = append(r.Points, …)`: appended to whatever the edge already holds
    pure (setPts g r.1 ((g.edge r.1).pts ++ [startPoint g r.2.head!] ++ mids ++ [endPoint g r.2.getLast!]))

def routePolyline (g : G) (routes : List (Nat × List Nat)) : M G := routes.foldlM polylineStep g

/-- the 4-point group the Ortho router emits between two consecutive chain nodes -/
def orthoGroup (g : G) (ls layerh : Rat) (a b : Nat) : List Pt :=
  let sp := startPoint g a
  let sp := if (g.node a).virt then (sp.1, sp.2 + layerh) else sp
  let ep := endPoint g b
  let bendY := ep.2 - ls / 2
  [sp, (sp.1, bendY), (ep.1, bendY), ep]

/-- `for i := 1; i < len(r.ns); i++ { … 4 points … }` -/
def orthoPoints (g : G) (ls layerh : Rat) : List Nat → List Pt
  | a :: b :: rest => orthoGroup g ls layerh a b ++ orthoPoints g ls layerh (b :: rest)
  | _ => []

def orthoStep (ls : Rat) (g : G) (r : Nat × List Nat) : M G :=
  let ed := g.edge r.1
  let layerh := layerH g (g.layerOf ed.src)
  let fs := g.node ed.src
  let ts := g.node ed.dst
  if g.isFlat r.1 then throw "flat edge (phase5/flat.go has no exact model)"
  else if fs.x + fs.w / 2 == ts.x + ts.w / 2 then pure (setPts g r.1 (straight g r.2.head! r.2.getLast!))
  else pure (setPts g r.1 ((g.edge r.1).pts ++ orthoPoints g ls layerh r.2))

def routeOrtho (ls : Rat) (g : G) (routes : List (Nat × List Nat)) : M G := routes.foldlM (orthoStep ls) g

/-- `phase5.Alg.Process`: 0 Polyline, 1 Straight, 2 Ortho, 4 Noop -/
def phase5 (alg : Nat) (ls : Rat) (g : G) : M G := do
  if g.nodes.size == 1 then return g
  let (g, routes) ← mergeLongEdges g
  match alg with
  | 4 => pure g
  | 1 => routeStraight g routes
  | 0 => routePolyline g routes
  | 2 => routeOrtho ls g routes
  | _ => throw "no exact model for this router"

end Autog
