import Autog.Model.Phase4
/-! Exact model of internal/phase4/brandes_koepf.go: conflict marking, the four vertical alignments, horizontal compaction with
    class shifts (the ±Inf sentinels of the Go code are an explicit three-valued type), balancing, verification, margins.
    Recursive `placeBlock` and the pointer-chasing loops carry fuel. Core-only. -/

namespace Autog
namespace BK

/-- a float64 that is finite or one of the two infinities (no NaN can arise: at most one infinite term per sum) -/
inductive ER where
  | fin (r : Rat)
  | pinf
  | ninf
deriving BEq, Repr, Inhabited

namespace ER
def addR : ER → Rat → ER
  | fin a, b => fin (a + b)
  | pinf, _ => pinf
  | ninf, _ => ninf
def le : ER → ER → Bool
  | ninf, _ => true
  | _, pinf => true
  | fin a, fin b => a ≤ b
  | _, _ => false
def min (a b : ER) : ER := if le a b then a else b
def max (a b : ER) : ER := if le a b then b else a
end ER

structure BKCtx where
  g : G
  ns : Rat
  vDown : Bool        -- layout.v == bottom : layers top-down, neighbours = In side
  hRight : Bool       -- layout.h == right : nodes left-to-right
  marked : List Nat
  nbUp : Array (List (Nat × Nat))     -- neighbors[n][bottom] : (node, edge) over In edges
  nbDown : Array (List (Nat × Nat))   -- neighbors[n][top]    : (node, edge) over Out edges

def BKCtx.layerNodes (c : BKCtx) (l : Int) : List Nat := (c.g.layers.getD l.toNat default).nodes
def BKCtx.posOf (c : BKCtx) (n : Nat) : Int := (c.g.node n).pos

/-- `initNeighbors` -/
def bkNeighbors (g : G) : Array (List (Nat × Nat)) × Array (List (Nat × Nat)) :=
  let ok := fun e => !g.selfLoops e && !g.isFlat e
  let up := g.nodes.mapIdx fun i nd =>
    if nd.layer > 0 then (nd.ins.filter ok).map fun e => ((g.edge e).src, e) else []
  let down := g.nodes.mapIdx fun i nd =>
    if nd.layer < (g.layers.size : Int) - 1 then (nd.outs.filter ok).map fun e => ((g.edge e).dst, e) else []
  (up, down)

/-- `incidentToInner` -/
def incidentToInner (g : G) (n : Nat) : Int :=
  let nd := g.node n
  if !nd.virt then -1 else
  match nd.ins.find? fun e => (g.node (g.edge e).src).virt && g.layerOf (g.edge e).src == nd.layer - 1 with
  | some e => (g.node (g.edge e).src).pos
  | none => -1

/-- `markConflicts` -/
def markConflicts (g : G) (nbUp : Array (List (Nat × Nat))) : List Nat := Id.run do
  let mut marked : List Nat := []
  if g.layers.size < 4 then return marked
  for i in List.range (g.layers.size - 1) do
    if i == 0 then continue
    let mut k0 : Int := 0
    let lower := (g.layers.getD (i + 1) default).nodes
    let upperLen : Int := (g.layers.getD i default).nodes.length
    for (v, l1) in lower.zipIdx do
      let ksrc := incidentToInner g v
      if lower.getLast? == some v || ksrc ≥ 0 then
        let mut k1 : Int := upperLen - 1
        if ksrc ≥ 0 then
          k1 := match (nbUp.getD v []).head? with
            | some (u, _) => (g.node u).pos
            | none => k1
        for (w, l2) in lower.zipIdx do
          if l2 > l1 then break
          for e in (g.node w).ins do
            if g.selfLoops e || g.isFlat e then continue
            let p := (g.node (g.edge e).src).pos
            if p < k0 || p > k1 then
              if !marked.contains e then marked := e :: marked
        k0 := k1
  pure marked

structure BKAlign where
  blockroot : Array Nat
  alignment : Array Nat

def layersIn (c : BKCtx) : List Layer := if c.vDown then c.g.layers.toList else c.g.layers.toList.reverse
def nodesIn (c : BKCtx) (ns : List Nat) : List Nat := if c.hRight then ns else ns.reverse

/-- `medianNeighborIndices` -/
def medianIdx (d : Nat) (hRight : Bool) : List Nat :=
  let m1 := (d + 1) / 2 - 1
  let m2 := (d + 2) / 2 - 1      -- ceil((d+1)/2) − 1
  if hRight then [m1, m2] else [m2, m1]

/-- `verticalAlign` -/
def verticalAlign (c : BKCtx) : BKAlign := Id.run do
  let n := c.g.nodes.size
  let mut a : BKAlign := { blockroot := (List.range n).toArray, alignment := (List.range n).toArray }
  for layer in layersIn c do
    let mut r : Option Int := none           -- outermostPos: −1 (right) or MaxInt (left)
    for vk in nodesIn c layer.nodes do
      let nb := if c.vDown then c.nbUp.getD vk [] else c.nbDown.getD vk []
      let d := nb.length
      if d > 0 then
        for m in medianIdx d c.hRight do
          if a.alignment.getD vk vk == vk then
            match nb[m]? with
            | none => pure ()
            | some (u, uv) =>
              let pu := c.posOf u
              let within := match r with
                | none => true
                | some rr => if c.hRight then rr < pu else rr > pu
              if !c.marked.contains uv && within then
                a := { a with alignment := a.alignment.setIfInBounds u vk }
                a := { a with blockroot := a.blockroot.setIfInBounds vk (a.blockroot.getD u u) }
                a := { a with alignment := a.alignment.setIfInBounds vk (a.blockroot.getD vk vk) }
                r := some pu
  pure a

structure BKClasses where
  sinks : Array Nat
  xshift : Array ER
  xcoord : Array Rat
  xcinit : Array Bool

def lastInLayer (c : BKCtx) (n : Nat) : Option Nat :=
  let ns := c.layerNodes (c.g.layerOf n)
  if c.hRight then ns.getLast? else ns.head?
def firstInLayer (c : BKCtx) (ns : List Nat) : Option Nat := if c.hRight then ns.head? else ns.getLast?
def nextInLayer (c : BKCtx) (n : Nat) : Nat :=
  let ns := c.layerNodes (c.g.layerOf n)
  let p := c.posOf n
  if c.hRight then ns.getD (p + 1).toNat 0 else ns.getD (p - 1).toNat 0
def prevInLayer (c : BKCtx) (n : Nat) : Nat :=
  let ns := c.layerNodes (c.g.layerOf n)
  let p := c.posOf n
  if c.hRight then ns.getD (p - 1).toNat 0 else ns.getD (p + 1).toNat 0

def space (c : BKCtx) (n : Nat) : Rat := (c.g.node n).w + c.ns

/-- `placeBlock(v)` -/
def placeBlock (c : BKCtx) (a : BKAlign) : Nat → Nat → BKClasses → M BKClasses
  | 0, _, _ => throw "fuel:phase4.brandesKoepfPositioner.placeBlock"
  | fuel + 1, v, s => do
    if s.xcinit.getD v false then return s
    let mut s := { s with xcinit := s.xcinit.setIfInBounds v true, xcoord := s.xcoord.setIfInBounds v 0 }
    let mut w := v
    for _ in List.range (c.g.nodes.size + 1) do
      if lastInLayer c w != some w then
        let u := nextInLayer c w
        let uroot := a.blockroot.getD u u
        s ← placeBlock c a fuel uroot s
        if s.sinks.getD v v == v then s := { s with sinks := s.sinks.setIfInBounds v (s.sinks.getD uroot uroot) }
        if s.sinks.getD v v == s.sinks.getD uroot uroot then
          if c.hRight then
            let sv := s.xcoord.getD uroot 0 - space c v
            s := { s with xcoord := s.xcoord.setIfInBounds v (minRat (s.xcoord.getD v 0) sv) }
          else
            let sv := s.xcoord.getD uroot 0 + space c u
            s := { s with xcoord := s.xcoord.setIfInBounds v (maxRat (s.xcoord.getD v 0) sv) }
      w := a.alignment.getD w w
      if w == v then break
    -- `for layout.alignment[w] != v { w = alignment[w]; xcoord[w] = xcoord[v]; sinks[w] = sinks[v] }`
    for _ in List.range (c.g.nodes.size + 1) do
      if a.alignment.getD w w == v then break
      w := a.alignment.getD w w
      s := { s with xcoord := s.xcoord.setIfInBounds w (s.xcoord.getD v 0), sinks := s.sinks.setIfInBounds w (s.sinks.getD v v) }
    pure s

/-- `horizontalCompaction` -/
def horizontalCompaction (c : BKCtx) (a : BKAlign) : M (Array Rat) := do
  let n := c.g.nodes.size
  let outer : ER := if c.hRight then .pinf else .ninf
  let mut s : BKClasses := { sinks := (List.range n).toArray, xshift := Array.replicate n outer,
                             xcoord := Array.replicate n 0, xcinit := Array.replicate n false }
  for layer in layersIn c do
    for k in nodesIn c layer.nodes do
      if a.blockroot.getD k k == k then
        s ← placeBlock c a (n + 2) k s
  -- class shifts
  for layer in layersIn c do
    match firstInLayer c layer.nodes with
    | none => pure ()
    | some f =>
      if s.sinks.getD f f != f then continue
      if s.xshift.getD (s.sinks.getD f f) outer == outer then
        s := { s with xshift := s.xshift.setIfInBounds (s.sinks.getD f f) (.fin 0) }
      let mut k : Int := 0
      let mut j : Int := layer.index
      for _ in List.range (n * n + n + 4) do
        if !(j < (c.g.layers.size : Int) && k < ((c.layerNodes j).length : Int)) then break
        let vjk := (c.layerNodes j).getD k.toNat 0
        let mut v := vjk
        for _ in List.range (n + 1) do
          if a.alignment.getD v v == a.blockroot.getD v v then break
          v := a.alignment.getD v v
          let lv := c.layerNodes (c.g.layerOf v)
          if firstInLayer c lv != some v then
            let u := prevInLayer c v
            let sv := s.sinks.getD v v
            let su := s.sinks.getD u u
            if c.hRight then
              let x := (s.xshift.getD sv outer).addR (s.xcoord.getD v 0 - (s.xcoord.getD u 0 + c.ns))
              s := { s with xshift := s.xshift.setIfInBounds su (ER.min (s.xshift.getD su outer) x) }
            else
              let x := (s.xshift.getD sv outer).addR (s.xcoord.getD v 0 + (s.xcoord.getD u 0 + (c.g.node u).w + c.ns))
              s := { s with xshift := s.xshift.setIfInBounds su (ER.max (s.xshift.getD su outer) x) }
          j := j + 1
        k := c.posOf v + 1
  let mut xc := s.xcoord
  for k in c.g.nodeIds do
    match s.xshift.getD (s.sinks.getD k k) outer with
    | .fin sh => xc := xc.setIfInBounds k (xc.getD k 0 + sh)
    | _ => pure ()
  pure xc

/-- `xcoordinates.Size()` over all nodes: (width, minx, maxx) -/
def xcSize (g : G) (xc : Array Rat) : Rat × Rat × Rat :=
  match g.nodeIds with
  | [] => (0, 0, 0)
  | n0 :: rest =>
    let minx := rest.foldl (fun m n => minRat m (xc.getD n 0)) (xc.getD n0 0)
    let maxx := rest.foldl (fun m n => maxRat m (xc.getD n 0 + (g.node n).w)) (xc.getD n0 0 + (g.node n0).w)
    (maxx - minx, minx, maxx)

/-- `verifyLayout` -/
def verifyLayout (g : G) (xc : Array Rat) (ns : Rat) : Bool :=
  g.layers.toList.all fun l =>
    (l.nodes.foldl (fun (acc : Option (Option Rat)) n =>
      match acc with
      | none => none
      | some pos =>
        let left := xc.getD n 0
        let right := left + (g.node n).w + ns
        let above := fun (x : Rat) => match pos with
          | none => true
          | some p => x > p
        if above left && above right then some (some right) else none) (some none)).isSome

/-- `balanceLayouts` -/
def balanceLayouts (g : G) (xcs : List (Array Rat)) : Array Rat :=
  let sz := xcs.map (xcSize g)
  let width := fun i => (sz.getD i (0, 0, 0)).1
  let minx := fun i => (sz.getD i (0, 0, 0)).2.1
  let maxx := fun i => (sz.getD i (0, 0, 0)).2.2
  let least := (List.range 4).foldl (fun l i => if width l > width i then i else l) 0
  let shift := fun i => if i == 1 || i == 3 then minx least - minx i else maxx least - maxx i
  (g.nodeIds.map fun n =>
    let xs := ((List.range 4).map fun i => (xcs.getD i #[]).getD n 0 + shift i).mergeSort (· ≤ ·)
    (xs.getD 1 0 + xs.getD 2 0) / 2).toArray

/-- the final pass over neighbours: push a node whose left edge lies inside its left neighbour -/
def bkPush (ns : Rat) (g : G) (p : Nat × Nat) : G :=
  let nv := g.node p.1
  let nw := g.node p.2
  if nw.x > nv.x && nw.x < nv.x + nv.w then g.modNode p.2 fun nd => { nd with x := nv.x + nv.w + ns } else g

/-- writing the chosen coordinates: x per node, layer heights, left margin, neighbour pass -/
def bkWrite (ns : Rat) (g : G) (final : Array Rat) : G :=
  let layered := g.layers.toList.flatMap (·.nodes)
  let xs := layered.map fun n => final.getD n 0
  let g := growAllH (placeAll g [(layered, xs)])
  let lmargin := xs.foldl minRat 0
  let g := if lmargin < 0 then { g with nodes := g.nodes.map fun nd => { nd with x := nd.x - lmargin } } else g
  g.layers.toList.foldl (fun g l => (l.nodes.zip l.nodes.tail).foldl (bkPush ns) g) g

/-- the layout that is written: a forced candidate, or the balanced one if it verifies, else the narrowest candidate that does -/
def bkFinal (forced : Int) (ns : Rat) (g : G) (xcs : List (Array Rat)) : Array Rat :=
  if 0 ≤ forced && forced < 4 then xcs.getD forced.toNat #[]
  else
    let bal := balanceLayouts g xcs
    if verifyLayout g bal ns then bal
    else
      (xcs.foldl (fun (acc : Array Rat × Rat) xc =>
        if verifyLayout g xc ns && (xcSize g xc).1 < acc.2 then (xc, (xcSize g xc).1) else acc) (bal, (xcSize g bal).1)).1

/-- everything after the four compactions: selection / balancing, and writing -/
def bkFinish (forced : Int) (ns : Rat) (g : G) (xcs : List (Array Rat)) : G := bkWrite ns g (bkFinal forced ns g xcs)

/-- `execBrandesKoepf`; forced = params.BrandesKoepfLayout -/
def execBrandesKoepf (forced : Int) (ns : Rat) (g : G) : M G := do
  let (nbUp, nbDown) := bkNeighbors g
  let marked := markConflicts g nbUp
  let mut xcs : List (Array Rat) := []
  for (vDown, hRight) in [(true, true), (true, false), (false, true), (false, false)] do
    let c : BKCtx := { g, ns, vDown, hRight, marked, nbUp, nbDown }
    let a := verticalAlign c
    xcs := xcs ++ [← horizontalCompaction c a]
  pure (bkFinish forced ns g xcs)

end BK
end Autog
