import Autog.Model.NetworkSimplex
import Autog.Model.Phase4
/-! Exact model of internal/phase4/network_simplex.go (repaired code): the auxiliary graph and the read-out of
    the x coordinates. Core-only. -/

namespace Autog

/-- `omega(e)` -/
def omegaE (g : G) (e : Nat) : Int :=
  let a := (g.node (g.edge e).src).virt
  let b := (g.node (g.edge e).dst).virt
  if !a && !b then 1 else if a != b then 2 else 8

/-- `math.Round` for the non-negative values that occur here: half away from zero -/
def roundRat (x : Rat) : Int := if 0 ≤ x then (x + 1 / 2).floor else -((-x + 1 / 2).floor)

/-- `auxiliaryGraph(g)`: node k of g is node k of the auxiliary graph -/
def auxiliaryGraph (weightFactor : Int) (ns : Rat) (g : G) : G := Id.run do
  let mut a : G := { nodes := g.nodes.map fun nd => ({ id := nd.id, w := nd.w, h := nd.h } : Node) }
  for (e, i) in g.elist.zipIdx do
    if g.selfLoops e || g.isFlat e then continue
    let ne := a.nodes.size
    let eu := a.edges.size
    let ev := eu + 1
    let ed := g.edge e
    let weight := ed.weight * omegaE g e * weightFactor
    a := { a with nodes := a.nodes.push ({ id := "NE" ++ toString i, outs := [eu, ev] } : Node) }
    a := { a with edges := (a.edges.push ({ src := ne, dst := ed.src, weight := weight, delta := 0 } : Edge)).push
                              ({ src := ne, dst := ed.dst, weight := weight, delta := 0 } : Edge) }
    a := a.modNode ed.src fun nd => { nd with ins := nd.ins ++ [eu] }
    a := a.modNode ed.dst fun nd => { nd with ins := nd.ins ++ [ev] }
    a := { a with elist := a.elist ++ [eu, ev] }
  for l in g.layers.toList do
    for (v, w) in l.nodes.zip l.nodes.tail do
      let f := a.edges.size
      let dist := (g.node v).w / 2 + (g.node w).w / 2 + ns
      a := { a with edges := a.edges.push ({ src := v, dst := w, weight := 0, delta := roundRat dist } : Edge) }
      a := { a with elist := a.elist ++ [f] }
      a := a.modNode v fun nd => { nd with outs := nd.outs ++ [f] }
      a := a.modNode w fun nd => { nd with ins := nd.ins ++ [f] }
  pure a

/-- the read-out: x = layer of the auxiliary node minus half the width, then everything shifted so that the leftmost is 0 -/
def nsReadOut (g aux : G) : G :=
  let layered := g.layers.toList.flatMap (·.nodes)
  let xs := layered.map fun n => ((aux.node n).layer : Rat) - (g.node n).w / 2
  let g := placeAll g [(layered, xs)]
  let g := growAllH g
  match xs with
  | [] => g
  | x0 :: rest =>
    let minX := rest.foldl minRat x0
    { g with nodes := g.nodes.map fun nd => { nd with x := nd.x - minX } }

/-- `phase4.execNetworkSimplex` -/
def execNsPositioner (thoroughness : Nat) (weightFactor : Int) (ns : Rat) (g : G) : M G := do
  let aux := auxiliaryGraph weightFactor ns g
  -- `phase2.NetworkSimplex.AssignLayers`: the layers only; no layer list of the auxiliary graph is built (repaired code: it had one
  -- entry per unit of x, so time and memory grew with the node widths)
  let (aux, _, _) ← execNetworkSimplex thoroughness g.nodes.size 2 aux
  pure (nsReadOut g aux)

end Autog
