import Autog.Model.Phase4
/-! Model of internal/phase4/sink_coloring.go (repaired code): block building (`setColor`), initial
    coordinates, and the `placeBlock` fixpoint iteration. Core-only. -/

namespace Autog

structure SCSt where
  colors : Array Nat
  roots : Array Nat
  priority : List (Int × List Nat)      -- layer ↦ edges, in insertion order

def crossesE (g : G) (e f : Nat) : Bool :=
  let ee := g.edge e
  let ff := g.edge f
  if !(g.layerOf ee.src == g.layerOf ff.src && g.layerOf ee.dst == g.layerOf ff.dst) then false
  else
    let et := (g.node ee.src).pos; let eb := (g.node ee.dst).pos
    let ft := (g.node ff.src).pos; let fb := (g.node ff.dst).pos
    (et < ft && eb > fb) || (et > ft && eb < fb)

/-- `setColor`; recursion depth is bounded by the number of layers (each call moves one layer up) -/
def setColor (g : G) : Nat → SCSt → Nat → M (SCSt × Nat × Rat)
  | 0, _, _ => throw "fuel:phase4.setColor"
  | fuel + 1, s, n =>
    let nd := g.node n
    if s.colors.getD n n != n || nd.ins.isEmpty then pure (s, n, nd.w) else
    -- the last in-edge coming from a helper node, if any
    let e0 : Option Nat := nd.ins.foldl (fun acc f => if (g.node (g.other f n)).virt then some f else acc) none
    -- `for e == nil || e.SelfLoops() || e.IsFlat() { if i >= len(n.In) {return}; e = n.In[i]; i++ }`
    let rec pick (k : Nat) (e : Option Nat) (i : Nat) : Option Nat :=
      match k with
      | 0 => none
      | k + 1 =>
        match e with
        | some x => if g.selfLoops x || g.isFlat x then
            (match nd.ins[i]? with
             | none => none
             | some y => pick k (some y) (i + 1))
          else some x
        | none =>
          match nd.ins[i]? with
          | none => none
          | some y => pick k (some y) (i + 1)
    match pick (nd.ins.length + 2) e0 0 with
    | none => pure (s, n, nd.w)
    | some e =>
      let m := g.other e n
      if s.colors.getD m m != m then pure (s, n, nd.w) else
      let pl := lookupD [] s.priority nd.layer
      if pl.any (crossesE g e) then pure (s, n, nd.w) else do
      let prio := if s.priority.any (·.1 == nd.layer)
        then s.priority.map fun (l, es) => if l == nd.layer then (l, es ++ [e]) else (l, es)
        else s.priority ++ [(nd.layer, [e])]
      let (s, root, rootw) ← setColor g fuel { s with priority := prio } m
      let s := { s with colors := s.colors.setIfInBounds m n, roots := s.roots.setIfInBounds n root }
      pure (s, root, maxRat nd.w rootw)

structure PBSt where
  xcoord : Array Rat
  blockmax : Array Rat     -- indexed by root node

/-- the pair the loop body tests for layer list `l` at index `k` (Go's `switch`):
    `k == len-1 && k > 0`: (l[k-1], l[k]) again; `k < len-1`: (l[k], l[k+1]) -/
def pairAtGo (l : List Nat) (k : Nat) : List (Nat × Nat) :=
  let len := l.length
  if k ≥ len then []
  else if k == len - 1 && k > 0 then [(l.getD (k - 1) 0, l.getD k 0)]
  else if k + 1 < len then [(l.getD k 0, l.getD (k + 1) 0)]
  else []

/-- `for k := 0; k < layerMaxLen; k++ { for _, l := range g.Layers { … } }` -/
def sweepPairsGo (layers : List (List Nat)) (lmax : Nat) : List (Nat × Nat) :=
  (List.range lmax).flatMap fun k => layers.flatMap fun l => pairAtGo l k

/-- one test: `if x[b] < x[a] + bw[root a] + spacing { x[b] = …; shift = true; blockmax[root b] = max(…) }` -/
def pbStep (spacing : Rat) (bwOf : Nat → Rat) (root : Nat → Nat) (acc : PBSt × Bool) (p : Nat × Nat) : PBSt × Bool :=
  let lim := acc.1.xcoord.getD p.1 0 + bwOf p.1 + spacing
  if acc.1.xcoord.getD p.2 0 < lim then
    ({ xcoord := acc.1.xcoord.setIfInBounds p.2 lim,
       blockmax := acc.1.blockmax.setIfInBounds (root p.2) (maxRat (acc.1.blockmax.getD (root p.2) 0) lim) }, true)
  else acc

/-- the first loop of `placeBlock`: every node is centred in its block at the block's coordinate -/
def centreBlocks (g : G) (bwOf : Nat → Rat) (root : Nat → Nat) (s : PBSt) : PBSt :=
  { s with xcoord := g.nodeIds.foldl (fun (xc : Array Rat) n =>
      let x := s.blockmax.getD (root n) 0
      xc.setIfInBounds n (maxRat x (x + (bwOf n - (g.node n).w) / 2))) s.xcoord }

/-- one call of `placeBlock` without the recursion: (new state, shift) -/
def placeBlockRound (g : G) (lmax : Nat) (spacing : Rat) (bw : Array Rat) (roots : Array Nat) (s : PBSt) : PBSt × Bool :=
  let root := fun n => roots.getD n n
  let bwOf := fun n => bw.getD (root n) 0
  (sweepPairsGo (g.layers.toList.map (·.nodes)) lmax).foldl (pbStep spacing bwOf root) (centreBlocks g bwOf root s, false)

def placeBlock (g : G) (lmax : Nat) (spacing : Rat) (bw : Array Rat) (roots : Array Nat) : Nat → PBSt → M (PBSt × Nat)
  | 0, _ => throw "fuel:phase4.placeBlock"
  | fuel + 1, s =>
    let (s, shift) := placeBlockRound g lmax spacing bw roots s
    if shift then do
      let (s, d) ← placeBlock g lmax spacing bw roots fuel s
      pure (s, d + 1)
    else pure (s, 1)

def placeBlockFuel (g : G) : Nat := (g.nodes.size + 2) * (g.nodes.size + 2)

/-- one iteration of the block-building loops: `setColor(k)`, then `blockwidth[roots[k]] = max(…, w)` -/
def scStep (g : G) (acc : SCSt × Array Rat) (k : Nat) : M (SCSt × Array Rat) := do
  let (s', _, w) ← setColor g (g.layers.size + 2) acc.1 k
  let r := s'.roots.getD k k
  pure (s', acc.2.setIfInBounds r (maxRat (acc.2.getD r 0) w))

/-- the order in which the nested loops `for layer := range reversed(g.Layers) { for k := range layer.Nodes` visit the nodes -/
def scOrder (g : G) : List Nat := g.layers.toList.reverse.flatMap (·.nodes)

/-- block building: `setColor` for every node, bottom layer first; returns (blockwidth, roots) -/
def scBlocks (g : G) : M (Array Rat × Array Nat) := do
  let n := g.nodes.size
  let s0 : SCSt := { colors := (List.range n).toArray, roots := (List.range n).toArray, priority := [] }
  let (s, bw) ← (scOrder g).foldlM (scStep g) (s0, Array.replicate n 0)
  pure (bw, s.roots)

/-- initial coordinates of one layer: left to right, one block width per node -/
def scInitLayer (ns : Rat) (bw : Array Rat) (roots : Array Nat) (xc : Array Rat) (nodes : List Nat) : Array Rat :=
  (nodes.zip (Phase4Simple.placeFrom 0 ns (nodes.map fun k => bw.getD (roots.getD k k) 0))).foldl
    (fun xc p => xc.setIfInBounds p.1 p.2) xc

/-- initial coordinates: left to right, one block width per node -/
def scInitX (ns : Rat) (g : G) (bw : Array Rat) (roots : Array Nat) : Array Rat :=
  (g.layers.toList.map (·.nodes)).foldl (scInitLayer ns bw roots) (Array.replicate g.nodes.size 0)

/-- one iteration of `for n, x := range xcoord { blockmax[roots[n]] = max(blockmax[roots[n]], x) }` -/
def bmStep (roots : Array Nat) (xc : Array Rat) (bm : Array Rat) (k : Nat) : Array Rat :=
  bm.setIfInBounds (roots.getD k k) (maxRat (bm.getD (roots.getD k k) 0) (xc.getD k 0))

/-- the keys of the Go map `xcoord`: the nodes that sit in a layer list (here in `g.Nodes` order; Go iterates them in
    map order, and the result does not depend on the order: C07_blockmax_order_irrelevant) -/
def scKeys (g : G) : List Nat := g.nodeIds.filter fun k => g.layers.toList.any (·.nodes.contains k)

def scInit (ns : Rat) (g : G) (bw : Array Rat) (roots : Array Nat) : PBSt :=
  let xc := scInitX ns g bw roots
  { xcoord := xc, blockmax := (scKeys g).foldl (bmStep roots xc) (Array.replicate g.nodes.size 0) }

def scLmax (g : G) : Nat := g.layers.toList.foldl (fun m l => max m l.nodes.length) 0

/-- `n.X = xcoord[n]; l.H = max(l.H, n.H)` -/
def scPlan (g : G) (xc : Array Rat) : List (List Nat × List Rat) :=
  g.layers.toList.map fun l => (l.nodes, l.nodes.map fun k => xc.getD k 0)
def scWrite (g : G) (xc : Array Rat) : G := growAllH (placeAll g (scPlan g xc))

/-- the coordinates `execSinkColoring` computes (before they are written to the nodes), and the recursion depth of placeBlock -/
def scCoords (ns : Rat) (g : G) : M (Array Rat × Nat) := do
  let (bw, roots) ← scBlocks g
  let (ps, depth) ← placeBlock g (scLmax g) ns bw roots (placeBlockFuel g) (scInit ns g bw roots)
  pure (ps.xcoord, depth)

/-- `execSinkColoring`; also returns the recursion depth of placeBlock -/
def execSinkColoring (ns : Rat) (g : G) : M (G × Nat) := do
  let (bw, roots) ← scBlocks g
  let (ps, depth) ← placeBlock g (scLmax g) ns bw roots (placeBlockFuel g) (scInit ns g bw roots)
  pure (scWrite g ps.xcoord, depth)

/-- `execSinkColoring` writes the coordinates `scCoords` computes -/
theorem execSinkColoring_coords (ns : Rat) (g : G) :
    execSinkColoring ns g = (scCoords ns g).map fun r => (scWrite g r.1, r.2) := by
  unfold execSinkColoring scCoords
  cases scBlocks g with
  | error e => rfl
  | ok r =>
    obtain ⟨bw, roots⟩ := r
    simp only [bind, Except.bind]
    cases placeBlock g (scLmax g) ns bw roots (placeBlockFuel g) (scInit ns g bw roots) with
    | error e => rfl
    | ok r2 => rfl

end Autog
