import Autog.Model.Core
import Autog.Lemmas.DfsHasCyclesSound
import Autog.Lemmas.DfsBreakerMinimal
/-! Model of internal/phase1 (repaired code): removeTwoNodeCycles, hasCycles, the depth-first breaker
    and the greedy breaker with its deterministic pick. The two DFS are the machines of the lemma library,
    instantiated with the adjacency of the graph state. Core-only. -/

namespace Autog

/-- out-neighbours of n without self-loops, in `n.Out` order -/
def outAdj (g : G) (n : Nat) : List Nat :=
  ((g.node n).outs.filter fun e => !g.selfLoops e).map fun e => (g.edge e).dst

/-- out-edges of n as (edge id, target), self-loops included (the machine skips them) -/
def outE (g : G) (n : Nat) : List (Nat × Nat) := (g.node n).outs.map fun e => (e, (g.edge e).dst)

/-- `removeTwoNodeCycles`: reverse, in edge-list order, every edge running opposite to an earlier one -/
def removeTwoNodeCycles (g : G) : G :=
  let step := fun (acc : List (Nat × Nat) × List Nat) (e : Nat) =>
    let a := (g.edge e).src
    let b := (g.edge e).dst
    if acc.1.contains (b, a) then (acc.1, acc.2 ++ [e]) else ((a, b) :: acc.1, acc.2)
  let (_, rev) := g.elist.foldl step ([], [])
  rev.foldl G.reverse g

def dfsFuel (g : G) : Nat := 2 * g.edges.size + 2 * g.nodes.size + 4

/-- `hasCycles`: one run of the `visit` machine per node that is not finished yet -/
def hasCyclesLoop (g : G) : List Nat → List Nat → M Bool
  | [], _ => pure false
  | n :: ns, fin =>
    if fin.contains n then hasCyclesLoop g ns fin
    else match DfsHasCyclesSound.run (outAdj g) (dfsFuel g) ⟨[(n, outAdj g n)], fin⟩ with
      | .cyc _ _ _ => pure true
      | .done f => hasCyclesLoop g ns f
      | .fuelOut => throw "fuel:phase1.visit"

def hasCycles (g : G) : M Bool := hasCyclesLoop g g.nodeIds []

/-- the roots `execDepthFirst` starts from: sources first, then every node -/
def dfsRoots (g : G) : List Nat := (g.nodeIds.filter fun n => (g.node n).ins.isEmpty) ++ g.nodeIds

/-- one `visit` per root that is not visited yet -/
def dfsLoop (g : G) : List Nat → DfsBreakerMinimal.Cfg → M DfsBreakerMinimal.Cfg
  | [], c => pure c
  | r :: rs, c =>
    if c.visited.contains r then dfsLoop g rs c
    else match DfsBreakerMinimal.run (outE g) (dfsFuel g) { c with stack := [(r, outE g r, none)], visited := r :: c.visited } with
      | some c' => dfsLoop g rs c'
      | none => throw "fuel:phase1.depthFirstProcessor.visit"

/-- the edges the depth-first breaker marks, in marking order -/
def dfsMarked (g : G) : M (List Nat) := do
  let c ← dfsLoop g (dfsRoots g) ⟨[], [], [], [], []⟩
  pure c.rev.reverse

/-- `execDepthFirst`: marked edges reversed in marking order -/
def execDepthFirst (g : G) : M G := do
  let marked ← dfsMarked g
  pure (marked.foldl G.reverse g)

/-! ### greedy -/
structure GreedySt where
  arc : Array (Option Int)
  outdeg : Array Int
  indeg : Array Int
  sources : List Nat
  sinks : List Nat
  nextRight : Int := -1
  nextLeft : Int := 1
  i : Int

def GreedySt.assigned (s : GreedySt) (n : Nat) : Bool := (s.arc.getD n none).isSome

def updateNeighbors (g : G) (s : GreedySt) (n : Nat) : GreedySt :=
  let s := (g.node n).ins.foldl (fun s e =>
    if g.selfLoops e then s else
    let src := (g.edge e).src
    if s.assigned src then s else
    let od := s.outdeg.getD src 0 - 1
    let s := { s with outdeg := s.outdeg.setIfInBounds src od }
    if od ≤ 0 && s.indeg.getD src 0 > 0 then { s with sinks := s.sinks ++ [src] } else s) s
  (g.node n).outs.foldl (fun s e =>
    if g.selfLoops e then s else
    let tgt := (g.edge e).dst
    if s.assigned tgt then s else
    let id := s.indeg.getD tgt 0 - 1
    let s := { s with indeg := s.indeg.setIfInBounds tgt id }
    if id ≤ 0 && s.outdeg.getD tgt 0 > 0 then { s with sources := s.sources ++ [tgt] } else s) s

def drainSinks (g : G) : Nat → GreedySt → M GreedySt
  | 0, _ => throw "fuel:phase1.execGreedy sinks"
  | fuel + 1, s =>
    match s.sinks with
    | [] => pure s
    | k :: rest =>
      let s := { s with sinks := rest, arc := s.arc.setIfInBounds k (some s.nextRight), nextRight := s.nextRight - 1 }
      let s := updateNeighbors g s k
      drainSinks g fuel { s with i := s.i - 1 }

def drainSources (g : G) : Nat → GreedySt → M GreedySt
  | 0, _ => throw "fuel:phase1.execGreedy sources"
  | fuel + 1, s =>
    match s.sources with
    | [] => pure s
    | k :: rest =>
      let s := { s with sources := rest, arc := s.arc.setIfInBounds k (some s.nextLeft), nextLeft := s.nextLeft + 1 }
      let s := updateNeighbors g s k
      drainSources g fuel { s with i := s.i - 1 }

/-- the max-outflow scan and the deterministic pick `nodes[len(nodes)/2]` -/
def pickNode (g : G) (s : GreedySt) : Option Nat :=
  let una := g.nodeIds.filter fun n => !s.assigned n
  match una with
  | [] => none
  | _ =>
    let flow := fun n => s.outdeg.getD n 0 - s.indeg.getD n 0
    let best := una.foldl (fun m n => if flow n > m then flow n else m) (flow una.head!)
    let cands := una.filter fun n => flow n == best
    cands[cands.length / 2]?

def pickLoop (g : G) : Nat → GreedySt → M GreedySt
  | 0, s => pure s
  | fuel + 1, s =>
    if s.i > 0 then
      match pickNode g s with
      | none => throw "panic:expected maxOutflow strictly greater than MinInt"
      | some n =>
        let s := { s with arc := s.arc.setIfInBounds n (some s.nextLeft), nextLeft := s.nextLeft + 1 }
        let s := updateNeighbors g s n
        pickLoop g fuel { s with i := s.i - 1 }
    else pure s

def execGreedy (g : G) : M G := do
  let n := g.nodes.size
  let s0 : GreedySt :=
    { arc := Array.replicate n none,
      outdeg := g.nodes.map fun nd => (nd.outs.length : Int),
      indeg := g.nodes.map fun nd => (nd.ins.length : Int),
      sources := g.nodeIds.filter fun k => (g.node k).ins.isEmpty,
      sinks := g.nodeIds.filter fun k => (g.node k).outs.isEmpty,
      i := n }
  -- `for i := nodeCount; i > 0;` : one round drains both queues and then picks until i = 0
  let mut s := s0
  for _ in List.range (n + 1) do
    if s.i > 0 then
      s ← drainSinks g (4 * n + 4) s
      s ← drainSources g (4 * n + 4) s
      s ← pickLoop g (n + 1) s
  if s.i > 0 then throw "fuel:phase1.execGreedy"
  let shift : Int := n + 1
  let arc : Nat → Int := fun (k : Nat) => match s.arc.getD k none with
    | some a => if a < 0 then a + shift else a
    | none => 0
  pure (g.elist.foldl (fun g e => if arc (g.edge e).src > arc (g.edge e).dst then g.reverse e else g) g)

def breakCycles (alg : Nat) (g : G) : M G := if alg == 0 then execGreedy g else execDepthFirst g

/-- `phase1.Alg.Process` (alg 0 = Greedy, 1 = DepthFirst) -/
def phase1 (alg : Nat) (g : G) : M G := do
  if g.nodes.size == 1 then return g
  let g := removeTwoNodeCycles g
  if !(← hasCycles g) then return g
  let g ← breakCycles alg g
  if ← hasCycles g then throw "panic:cyclebreaking: graph is still cyclic"
  pure g

end Autog
