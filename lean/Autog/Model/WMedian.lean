import Autog.Model.Phase3
/-! Exact model of internal/phase3/wmedian.go (Gansner–North weighted median with transposition, two runs, best order kept),
    for graph states without flat edges (phase 2 never leaves any: then `fixedPositions` is empty and every test on it is
    vacuous; a flat edge is an error of the model). Medians are exact rationals: the Go code computes them in float64 from
    integers below 2^20, where correctly rounded quotients of distinct rationals stay distinct and ordered. Core-only. -/

namespace Autog

def setPos (g : G) (n : Nat) (p : Int) : G := g.modNode n fun nd => { nd with pos := p }

/-- `initPositions` for one start node: pre-order DFS along Out (top) or In (bottom) edges;
    frames = (node, next nodes to try); `idx` = next free position per layer -/
def initDfs (down : Bool) : Nat → List (List Nat) → List Nat → List (Int × Int) → G → M (List Nat × List (Int × Int) × G)
  | 0, _, _, _, _ => throw "fuel:phase3.initPositions"
  | _ + 1, [], vis, idx, g => pure (vis, idx, g)
  | fuel + 1, [] :: tl, vis, idx, g => initDfs down fuel tl vis idx g
  | fuel + 1, (n :: rest) :: tl, vis, idx, g =>
    if vis.contains n then initDfs down fuel (rest :: tl) vis idx g
    else
      let l := g.layerOf n
      let p := lookupD 0 idx l
      let idx := if idx.any (·.1 == l) then idx.map fun (k, c) => if k == l then (k, c + 1) else (k, c) else idx ++ [(l, 1)]
      let g := setPos g n p
      let next := if down then (g.node n).outs.map fun e => (g.edge e).dst else (g.node n).ins.map fun e => (g.edge e).src
      initDfs down fuel (next :: rest :: tl) (n :: vis) idx g

def initPositions (down : Bool) (g : G) : M G := do
  let first := if down then (g.layers.getD 0 default).nodes else (g.layers.getD (g.layers.size - 1) default).nodes
  let fuel := 2 * (g.edges.size + g.nodes.size) + 2 * g.nodes.size + 8
  let (_, _, g) ← initDfs down fuel [first ++ g.nodeIds] [] [] g
  pure g

/-- `sort.Slice(layer.Nodes, by position)` for every layer (positions within a layer are distinct) -/
def sortLayersByPos (g : G) : G :=
  { g with layers := g.layers.map fun l =>
      { l with nodes := l.nodes.mergeSort fun a b => (g.node a).pos ≤ (g.node b).pos } }

/-- `medianOf` -/
def medianOf (ps : List Int) : Rat :=
  let n := ps.length
  let f := fun (i : Nat) => ((ps.getD i 0 : Int) : Rat)
  let mid := n / 2
  if n == 0 then -1
  else if n % 2 == 1 then f mid
  else if n == 2 then (f 0 + f 1) / 2
  else
    let left := f (mid - 1) - f 0
    let right := f (n - 1) - f mid
    if left == right then (f (mid - 1) + f mid) / 2
    else (f (mid - 1) * right + f mid * left) / (left + right)

/-- `adjacentNodesPositions` then `medianOf` -/
def medianFor (g : G) (n : Nat) (edges : List Nat) (adjLayer : Int) : Rat :=
  let ps := (edges.filter fun e => !g.selfLoops e && g.layerOf (g.other e n) == adjLayer).map fun e => (g.node (g.other e n)).pos
  medianOf (ps.mergeSort (· ≤ ·))

/-- `p.swap(v, w)` -/
def swapPos (g : G) (v w : Nat) : G :=
  let pv := (g.node v).pos
  let pw := (g.node w).pos
  setPos (setPos g v pw) w pv

/-- `sortLayer(nodes, medians)`; returns the new node order and state -/
def sortLayer (flipEqual : Bool) (med : Nat → Rat) (nodes0 : List Nat) (g0 : G) : List Nat × G := Id.run do
  let mut nodes := nodes0.toArray
  let mut g := g0
  let len := nodes.size
  let mut ep := len
  for _ in List.range len do      -- iter := len-1 .. 0
    let mut lp := 0
    for _ in List.range (len + 1) do      -- for lp < ep
      if !(lp < ep) then break
      -- skip nodes without adjacent nodes
      for _ in List.range (len + 1) do
        if lp < ep && med (nodes.getD lp 0) == -1 then lp := lp + 1 else break
      if lp ≥ ep then break
      let mut rp := lp + 1
      for _ in List.range (len + 1) do
        if !(rp < ep) then break
        if med (nodes.getD rp 0) ≥ 0 then break
        rp := rp + 1
      if rp ≥ ep then break
      let a := nodes.getD lp 0
      let b := nodes.getD rp 0
      let ml := med a
      let mr := med b
      if ml > mr || (ml == mr && flipEqual) then
        g := swapPos g a b
        nodes := (nodes.setIfInBounds lp b).setIfInBounds rp a
      lp := rp
    if !flipEqual then ep := ep - 1
  pure (nodes.toList, g)

def setLayerNodes (g : G) (r : Nat) (ns : List Nat) : G :=
  { g with layers := g.layers.modify r fun l => { l with nodes := ns } }

/-- `wmedianTopBottom` -/
def wmedianTopBottom (flipEqual : Bool) (g : G) : G := Id.run do
  let mut g := g
  let mut med : List (Nat × Rat) := []
  for r in List.range g.layers.size do
    if r == 0 then continue
    let nodes := (g.layers.getD r default).nodes
    for v in nodes do
      let m := medianFor g v (g.node v).ins ((r : Int) - 1)
      med := (v, m) :: med.filter (·.1 != v)
    let medf := fun n => lookupD 0 med n
    let (ns, g') := sortLayer flipEqual medf nodes g
    g := setLayerNodes g' r ns
  pure g

/-- `wmedianBottomTop` -/
def wmedianBottomTop (flipEqual : Bool) (g : G) : G := Id.run do
  let mut g := g
  let mut med : List (Nat × Rat) := []
  for r in (List.range g.layers.size).reverse do
    let nodes := (g.layers.getD r default).nodes
    for v in nodes do
      let m := medianFor g v (g.node v).outs ((r : Int) + 1)
      med := (v, m) :: med.filter (·.1 != v)
    let medf := fun n => lookupD 0 med n
    let (ns, g') := sortLayer flipEqual medf nodes g
    g := setLayerNodes g' r ns
  pure g

/-- `crossingsAround(l, layers)` -/
def crossingsAround (g : G) (l : Nat) : M Nat := do
  let L := fun i => g.layers.getD i default
  if l == 0 then countCrossings g (L 0) (L 1)
  else if l == g.layers.size - 1 then countCrossings g (L (l - 1)) (L l)
  else do pure ((← countCrossings g (L (l - 1)) (L l)) + (← countCrossings g (L l) (L (l + 1))))

/-- one pass of the `for _, layer := range layers` body of `transpose`; returns (state, improved) -/
def transposePass (g : G) : M (G × Bool) := do
  let mut g := g
  let mut improved := false
  for r in List.range g.layers.size do
    let len := (g.layers.getD r default).nodes.length
    for i in List.range (len - 2) do
      let nodes := (g.layers.getD r default).nodes
      let v := nodes.getD i 0
      let w := nodes.getD (i + 1) 0
      let idx := ((g.layers.getD r default).index).toNat
      let curX ← crossingsAround g idx
      let g' := swapPos g v w
      let newX ← crossingsAround g' idx
      if newX < curX then
        improved := true
        g := setLayerNodes g' r ((nodes.set i w).set (i + 1) v)
  pure (g, improved)

def transpose : Nat → G → M G
  | 0, _ => throw "fuel:phase3.transpose"
  | fuel + 1, g => do
    let (g, improved) ← transposePass g
    if improved then transpose fuel g else pure g

def positionsOf (g : G) : Array Int := g.nodes.map (·.pos)

/-- the start of a run: DFS initialisation, then every layer list sorted by the positions -/
def wmInit (down : Bool) (g : G) : M G := do
  let g ← initPositions down g
  pure (sortLayersByPos g)

/-- the sweeps of a run after the initial order was found to have crossings -/
def wmSweeps (maxiter : Nat) (bestx0 : Nat) (g0 : G) : M (Nat × Array Int × G) := do
  let mut bestx := bestx0
  let mut bestp := positionsOf g0
  let mut g := g0
  let mut flipEqual := false
  let fuel := g.edges.size * g.edges.size + 4
  for i in List.range maxiter do
    if i % 2 == 0 then g := wmedianTopBottom flipEqual g
    else
      g := wmedianBottomTop flipEqual g
      flipEqual := !flipEqual
    g ← transpose fuel g
    let x ← crossingsAll g
    if x < bestx then
      bestx := x
      bestp := positionsOf g
    if bestx == 0 then break
  pure (bestx, bestp, g)

/-- `wmedianRun`: returns (best crossings, best positions, state) -/
def wmedianRun (maxiter : Nat) (down : Bool) (g : G) : M (Nat × Array Int × G) := do
  let g ← wmInit down g
  let x ← crossingsAll g
  if x == 0 then pure (0, positionsOf g, g) else wmSweeps maxiter x g

/-- `execWeightedMedian` after `breakLongEdges`: returns the ordered state and the logged crossing number -/
def orderWMedian (maxiter : Nat) (g : G) : M (G × Nat) := do
  if g.elist.any g.isFlat then throw "flat edge (fixed positions have no exact model)"
  let (xt, pt, g) ← wmedianRun maxiter true g
  let (xb, pb, g) ← wmedianRun maxiter false g
  let (bestx, bestp) := if xt < xb then (xt, pt) else (xb, pb)
  let g := { g with nodes := g.nodes.mapIdx fun i nd => { nd with pos := bestp.getD i 0 } }
  pure (sortLayersByPos g, bestx)

/-- The ordering phase as the composed model uses it: of the state the heuristic returns, only what an ordering may change — the
    positions and the layer lists, each a reordering of what it was — is taken over; everything else is the incoming state. (For the code as it is this is the same
    function as `orderWMedian`: the correspondence key `T:phase3-wmedian` compares THIS function with the real phase on every traced
    run, so an ordering phase that touched anything else would show as a difference.) -/
def sameLayers (a b : Array Layer) : Bool :=
  a.size == b.size && (a.toList.zip b.toList).all fun (x, y) => x.nodes.isPerm y.nodes

def orderWMedianP (maxiter : Nat) (g : G) : M (G × Nat) := do
  let (g', x) ← orderWMedian maxiter g
  -- an ordering is a reordering: every layer list must hold the nodes it held (for the code as it is this never fires; if it did,
  -- the model would err where the code returns and `T:phase3-wmedian` would show it)
  if !sameLayers g.layers g'.layers then throw "model: the ordering phase changed the membership of a layer list"
  let r : G := { g with nodes := g.nodes.mapIdx fun i nd => { nd with pos := (g'.node i).pos }, layers := g'.layers }
  -- … and its result is an order: every layer list sorted by LayerPos 0..k−1, every node in the list of its own layer (the contract
  -- `K:ordered` evaluates the same predicate on the traced state of the real code)
  if !orderedOK r then throw "model: the ordering phase returned layer lists that are not ordered by LayerPos"
  pure (r, x)

end Autog
