import Autog.Model.Pre
import Autog.Spec.Output
/-! Model of the result collection at the end of `autog.Layout`: per component, nodes (helper nodes only on
    request) and edges are copied out, shifted right by the running `shift`. Core-only. -/

namespace Autog

/-- `rightmostX`: over the non-empty layers, the right end of the last node -/
def rightmostX (g : G) : Rat :=
  g.layers.toList.foldl (fun m l =>
    match l.nodes.getLast? with
    | none => m
    | some n => maxRat m ((g.node n).x + (g.node n).w)) 0

def collectComp (cfg : Cfg) (shift : Rat) (ci : Nat) (g : G) : Out :=
  { nodes := (g.nodes.toList.filter fun n => !n.virt || cfg.virt).map fun n =>
      { id := n.id, x := n.x + shift, y := n.y, w := n.w, h := n.h, virt := n.virt, layer := n.layer, comp := ci },
    edges := g.elist.map fun e =>
      let ed := g.edge e
      { src := (g.node ed.src).id, dst := (g.node ed.dst).id, ahs := ed.ahs,
        -- `slices.Clone` of a nil slice is nil
        pts := if ed.pts.isEmpty then none else some (ed.pts.map fun p => (p.1 + shift, p.2)) } }

def collect (cfg : Cfg) : Rat → Nat → List G → Out
  | _, _, [] => { nodes := [], edges := [] }
  | shift, ci, g :: gs =>
    let o := collectComp cfg shift ci g
    let rest := collect cfg (shift + (rightmostX g + cfg.ns)) (ci + 1) gs
    { nodes := o.nodes ++ rest.nodes, edges := o.edges ++ rest.edges }

end Autog
